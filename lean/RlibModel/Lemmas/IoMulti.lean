import RlibModel.Model.IoMulti
import RlibModel.Lemmas.IoBridge
/-!
Several live `io` objects (`Model/IoMulti.lean`): the model refines the specification (`runMulti_spec`), nothing is
ever pending after an inherent call in a flush-per-write build whatever was pending before it (`runCall_debug_flushed`),
and what a flush / drop of writer `k` shows is the text of the calls addressed to `k` alone (`specMulti_isolated`).
-/
namespace Rlib.IoMulti
open Rlib.Writer

/-! ### one call on one writer -/

theorem call_good (buf : Nat) (hb : 39 ≤ buf) (cl : WCall) (hv : cl.valid = true) :
    Good buf (cl.acts buf) cl.spec := by
  cases cl with
  | pub o => exact opActs_good hb o hv
  | tr v => exact acts_good hb v hv

theorem runCall_spec (c : Cfg) (hb : 39 ≤ c.buf) (cl : WCall) (hv : cl.valid = true) (s : WState)
    (hs : s.pend.size ≤ c.buf) :
    ∃ s', runCall c s cl = .ok s' ∧ total s' = total s ++ cl.spec ∧ s'.pend.size ≤ c.buf := by
  have hg := call_good c.buf hb cl hv
  obtain ⟨s', e, t, p⟩ := runActs_spec c _ s hg.1 hs
  exact ⟨s', e, by rw [t, hg.2], p⟩

/-- A non-empty action list that ends with a (debug) flush leaves nothing pending in a flush-per-write build —
    from **any** state (in particular one in which the trait entry point left bytes pending). -/
theorem runActs_debug_flushed (c : Cfg) (hd : c.dbg = true) (as : List Act) (hE : EndsFlushed as) (hne : as ≠ [])
    (s s' : WState) (hr : runActs c as s = .ok s') : s'.pend.size = 0 := by
  rcases hE with h | ⟨pre, h | h⟩
  · exact absurd h hne
  · subst h
    rw [runActs_append] at hr
    cases hp : runActs c pre s with
    | error e => rw [hp] at hr; simp at hr
    | ok s1 =>
      rw [hp] at hr
      simp [runActs, step, hd] at hr
      subst hr; exact flush_pend_size s1
  · subst h
    rw [runActs_append] at hr
    cases hp : runActs c pre s with
    | error e => rw [hp] at hr; simp at hr
    | ok s1 =>
      rw [hp] at hr
      simp [runActs, step] at hr
      subst hr; exact flush_pend_size s1

theorem call_endsFlushed (buf : Nat) (cl : WCall) (h : cl.flushesInDebug = true) :
    EndsFlushed (cl.acts buf) ∧ cl.acts buf ≠ [] := by
  cases cl with
  | tr v => simp [WCall.flushesInDebug] at h
  | pub o =>
    refine ⟨opActs_endsFlushed buf o, ?_⟩
    cases o with
    | write v => simp [WCall.acts, opActs]
    | wchar code => simp [WCall.acts, opActs, writeCharActs]
    | flush => simp [WCall.acts, opActs]
    | out nl vs =>
      cases nl with
      | true => simp [WCall.acts, opActs, writeCharActs]
      | false =>
        cases vs with
        | nil => simp [WCall.flushesInDebug] at h
        | cons x xs =>
          have := (outActs_endsFlushed buf (x :: xs) (by simp)).2
          simpa [WCall.acts, opActs] using this

/-- In a flush-per-write build every inherent call leaves its writer with nothing pending, whatever was pending
    before (e.g. after `Writable::write(&v, &mut w)`). -/
theorem runCall_debug_flushed (c : Cfg) (hd : c.dbg = true) (cl : WCall) (h : cl.flushesInDebug = true)
    (s s' : WState) (hr : runCall c s cl = .ok s') : s'.pend.size = 0 :=
  runActs_debug_flushed c hd _ (call_endsFlushed c.buf cl h).1 (call_endsFlushed c.buf cl h).2 s s' hr

theorem runCall_flush (c : Cfg) (s : WState) : runCall c s (.pub .flush) = .ok (flush s) := rfl

/-! ### the relation between a model slot and a specification slot -/

def Rel (c : Cfg) : Obj → SObj → Prop
  | .none, .none => True
  | .writer s, .writer t => total s = t ∧ s.pend.size ≤ c.buf
  | .reader fuel s, .reader rest => ∃ BUF, 0 < BUF ∧ Reader.Inv BUF s ∧ Reader.R s = rest ∧ rest.length < fuel
  | _, _ => False

theorem rel_upd (c : Cfg) {st : Nat → Obj} {sst : Nat → SObj} (h : ∀ j, Rel c (st j) (sst j)) (k : Nat)
    {a : Obj} {b : SObj} (hab : Rel c a b) : ∀ j, Rel c (upd st k a j) (upd sst k b j) := by
  intro j
  unfold upd
  by_cases hj : j = k
  · simp only [hj, if_true]; exact hab
  · simp only [hj, if_false]; exact h j

theorem close_eq (c : Cfg) {st : Nat → Obj} {sst : Nat → SObj} (h : ∀ j, Rel c (st j) (sst j)) :
    ∀ n k, closeFrom st n k = closeSpecFrom sst n k := by
  intro n
  induction n with
  | zero => intro k; rfl
  | succ n ih =>
    intro k
    have hk := h k
    simp only [closeFrom, closeSpecFrom]
    cases hs : st k with
    | none =>
      cases ht : sst k with
      | none => simp only [ih]
      | writer t => rw [hs, ht] at hk <;> exact absurd hk (by simp [Rel])
      | reader r => rw [hs, ht] at hk <;> exact absurd hk (by simp [Rel])
    | writer s =>
      cases ht : sst k with
      | none => rw [hs, ht] at hk <;> exact absurd hk (by simp [Rel])
      | writer t =>
        rw [hs, ht] at hk
        simp only [Rel] at hk
        simp only [ih]
        rw [show (drop s).sink = t from by rw [drop, flush_sink]; exact hk.1]
      | reader r => rw [hs, ht] at hk <;> exact absurd hk (by simp [Rel])
    | reader f s =>
      cases ht : sst k with
      | none => rw [hs, ht] at hk <;> exact absurd hk (by simp [Rel])
      | writer t => rw [hs, ht] at hk <;> exact absurd hk (by simp [Rel])
      | reader r => simp only [ih]

/-- A fresh reader over the harness source is related to its whole input. -/
theorem rel_newR (c : Cfg) (rbuf rc : Nat) (hr : 0 < rbuf) (text : List UInt8) :
    Rel c (.reader (text.length + 1) (Reader.init rbuf (Reader.mkEvents (IoRT.harnessSched rc text.length) text #[])))
      (.reader text) := by
  obtain ⟨h1, h2⟩ := IoBridge.harness_src rc text
  exact ⟨rbuf, hr, Reader.init_inv rbuf _ h2, by rw [Reader.init_R, h1], Nat.lt_succ_self _⟩

/-! ### the model refines the specification -/

/-- **runMulti_spec.** For every history of valid calls (any interleaving of any number of writers and readers, created,
    moved and dropped in any order), every `BUF_w ≥ 39`, both profiles: the model shows exactly what the specification
    shows, and in a flush-per-write build no inherent call ever leaves bytes pending (`behind` stays `none`). -/
theorem runMulti_spec (c : Cfg) (hb : 39 ≤ c.buf) : ∀ (ops : List MOp) (st : Nat → Obj) (sst : Nat → SObj) (i : Nat),
    (∀ j, Rel c (st j) (sst j)) → validAll ops = true → Ev.undef ∉ specMulti ops sst →
    runMulti c ops st i none = (specMulti ops sst, none) := by
  intro ops
  induction ops with
  | nil =>
    intro st sst i h _ _
    simp only [runMulti, specMulti, close_eq c h]
  | cons op ops ih =>
    intro st sst i h hv hu
    simp only [validAll, Bool.and_eq_true] at hv
    cases op with
    | newW k =>
      have hk := h k
      simp only [runMulti, specMulti] at hu ⊢
      by_cases hlt : k < slots
      · simp only [hlt, decide_true] at hu ⊢
        cases hs : st k with
        | none =>
          cases ht : sst k with
          | none =>
            rw [ht] at hu
            exact ih _ _ _ (rel_upd c h k (by simp [Rel, total, WState.init])) hv.2 hu
          | writer t => rw [hs, ht] at hk <;> exact absurd hk (by simp [Rel])
          | reader r => rw [hs, ht] at hk <;> exact absurd hk (by simp [Rel])
        | writer s =>
          cases ht : sst k with
          | none => rw [hs, ht] at hk <;> exact absurd hk (by simp [Rel])
          | writer t => rfl
          | reader r => rw [hs, ht] at hk <;> exact absurd hk (by simp [Rel])
        | reader f s =>
          cases ht : sst k with
          | none => rw [hs, ht] at hk <;> exact absurd hk (by simp [Rel])
          | writer t => rw [hs, ht] at hk <;> exact absurd hk (by simp [Rel])
          | reader r => rfl
      · simp only [hlt, decide_false]
    | newR k rbuf rc text =>
      have hk := h k
      simp only [runMulti, specMulti] at hu ⊢
      by_cases hlt : k < slots ∧ 0 < rbuf
      · simp only [hlt, and_self, decide_true] at hu ⊢
        cases hs : st k with
        | none =>
          cases ht : sst k with
          | none =>
            rw [ht] at hu
            exact ih _ _ _ (rel_upd c h k (rel_newR c rbuf rc hlt.2 text)) hv.2 hu
          | writer t => rw [hs, ht] at hk <;> exact absurd hk (by simp [Rel])
          | reader r => rw [hs, ht] at hk <;> exact absurd hk (by simp [Rel])
        | writer s =>
          cases ht : sst k with
          | none => rw [hs, ht] at hk <;> exact absurd hk (by simp [Rel])
          | writer t => rfl
          | reader r => rw [hs, ht] at hk <;> exact absurd hk (by simp [Rel])
        | reader f s =>
          cases ht : sst k with
          | none => rw [hs, ht] at hk <;> exact absurd hk (by simp [Rel])
          | writer t => rw [hs, ht] at hk <;> exact absurd hk (by simp [Rel])
          | reader r => rfl
      · simp only [hlt, decide_false]
    | call k cl =>
      have hk := h k
      simp only [runMulti, specMulti] at hu ⊢
      cases hs : st k with
      | none =>
        cases ht : sst k with
        | none => rfl
        | writer t => rw [hs, ht] at hk <;> exact absurd hk (by simp [Rel])
        | reader r => rw [hs, ht] at hk <;> exact absurd hk (by simp [Rel])
      | reader f s =>
        cases ht : sst k with
        | none => rw [hs, ht] at hk <;> exact absurd hk (by simp [Rel])
        | writer t => rw [hs, ht] at hk <;> exact absurd hk (by simp [Rel])
        | reader r => rfl
      | writer s =>
        cases ht : sst k with
        | none => rw [hs, ht] at hk <;> exact absurd hk (by simp [Rel])
        | reader r => rw [hs, ht] at hk <;> exact absurd hk (by simp [Rel])
        | writer t =>
          rw [hs, ht] at hk
          rw [ht] at hu
          simp only [Rel] at hk
          obtain ⟨s', e, tt, pp⟩ := runCall_spec c hb cl hv.1 s hk.2
          simp only [e]
          have hnb : noteBehind c cl s' i none = none := by
            unfold noteBehind
            by_cases hd : c.dbg = true
            · by_cases hf : cl.flushesInDebug = true
              · have := runCall_debug_flushed c hd cl hf s s' e
                simp [this]
              · simp [hf]
            · simp [hd]
          rw [hnb]
          have hrel := rel_upd c h k (a := .writer s') (b := .writer (t ++ cl.spec))
            (by simp only [Rel]; exact ⟨by rw [tt, hk.1], pp⟩)
          by_cases hfl : cl.isFlush = true
          · simp only [hfl, if_true] at hu ⊢
            simp only [List.mem_cons, not_or] at hu
            rw [ih _ _ _ hrel hv.2 hu.2]
            have hcl : cl = .pub .flush := by
              cases cl with
              | tr v => simp [WCall.isFlush] at hfl
              | pub o => cases o <;> simp [WCall.isFlush] at hfl ⊢
            subst hcl
            rw [runCall_flush] at e
            have e' : s' = flush s := by injection e with e; exact e.symm
            simp only [consEv]
            rw [e', flush_sink, hk.1]
            simp [WCall.spec, specOp, ByteArray.append_empty]
          · simp only [hfl] at hu ⊢
            exact ih _ _ _ hrel hv.2 hu
    | read k op =>
      have hk := h k
      simp only [runMulti, specMulti] at hu ⊢
      cases hs : st k with
      | none =>
        cases ht : sst k with
        | none => rfl
        | writer t => rw [hs, ht] at hk <;> exact absurd hk (by simp [Rel])
        | reader r => rw [hs, ht] at hk <;> exact absurd hk (by simp [Rel])
      | writer s =>
        cases ht : sst k with
        | none => rw [hs, ht] at hk <;> exact absurd hk (by simp [Rel])
        | writer t => rfl
        | reader r => rw [hs, ht] at hk <;> exact absurd hk (by simp [Rel])
      | reader f s =>
        cases ht : sst k with
        | none => rw [hs, ht] at hk <;> exact absurd hk (by simp [Rel])
        | writer t => rw [hs, ht] at hk <;> exact absurd hk (by simp [Rel])
        | reader r =>
          rw [hs, ht] at hk
          rw [ht] at hu
          obtain ⟨BUF, hB, hi, hR, hf⟩ := hk
          have ho := Reader.runOp_spec BUF hB f op s hi (by rw [hR]; exact hf)
          rw [hR] at ho
          simp only at hu ⊢
          cases hsp : Reader.specOp op r with
          | none => rw [hsp] at hu; simp at hu
          | some x =>
            rw [hsp] at ho hu
            cases x with
            | error e => simp only [Reader.Refines] at ho; simp [ho]
            | ok p =>
              obtain ⟨s1, k1, k2, k3⟩ := ho
              have l1 := Reader.specOp_length op r p.1 p.2 hsp
              simp only [k1]
              simp only [List.mem_cons, not_or] at hu
              have hrel := rel_upd c h k (a := .reader f s1) (b := .reader p.2)
                ⟨BUF, hB, k3, k2, by omega⟩
              rw [ih _ _ _ hrel hv.2 hu.2]
              rfl
    | move k =>
      have hk := h k
      simp only [runMulti, specMulti] at hu ⊢
      cases hs : st k with
      | none =>
        cases ht : sst k with
        | none => rfl
        | writer t => rw [hs, ht] at hk <;> exact absurd hk (by simp [Rel])
        | reader r => rw [hs, ht] at hk <;> exact absurd hk (by simp [Rel])
      | writer s =>
        cases ht : sst k with
        | none => rw [hs, ht] at hk <;> exact absurd hk (by simp [Rel])
        | writer t => rw [ht] at hu; exact ih _ _ _ h hv.2 hu
        | reader r => rw [hs, ht] at hk <;> exact absurd hk (by simp [Rel])
      | reader f s =>
        cases ht : sst k with
        | none => rw [hs, ht] at hk <;> exact absurd hk (by simp [Rel])
        | writer t => rw [hs, ht] at hk <;> exact absurd hk (by simp [Rel])
        | reader r => rw [ht] at hu; exact ih _ _ _ h hv.2 hu
    | drop k =>
      have hk := h k
      simp only [runMulti, specMulti] at hu ⊢
      cases hs : st k with
      | none =>
        cases ht : sst k with
        | none => rfl
        | writer t => rw [hs, ht] at hk <;> exact absurd hk (by simp [Rel])
        | reader r => rw [hs, ht] at hk <;> exact absurd hk (by simp [Rel])
      | writer s =>
        cases ht : sst k with
        | none => rw [hs, ht] at hk <;> exact absurd hk (by simp [Rel])
        | reader r => rw [hs, ht] at hk <;> exact absurd hk (by simp [Rel])
        | writer t =>
          rw [hs, ht] at hk
          rw [ht] at hu
          simp only [Rel] at hk
          simp only [List.mem_cons, not_or] at hu
          have hrel := rel_upd c h k (a := .none) (b := .none) (by simp [Rel])
          rw [ih _ _ _ hrel hv.2 hu.2]
          simp only [consEv]
          rw [show (drop s).sink = t from by rw [drop, flush_sink]; exact hk.1]
      | reader f s =>
        cases ht : sst k with
        | none => rw [hs, ht] at hk <;> exact absurd hk (by simp [Rel])
        | writer t => rw [hs, ht] at hk <;> exact absurd hk (by simp [Rel])
        | reader r =>
          rw [ht] at hu
          exact ih _ _ _ (rel_upd c h k (a := .none) (b := .none) (by simp [Rel])) hv.2 hu
    | leak k =>
      have hk := h k
      have hrel := rel_upd c h k (a := .none) (b := .none) (by simp [Rel])
      simp only [runMulti, specMulti] at hu ⊢
      cases hs : st k with
      | none =>
        cases ht : sst k with
        | none => rfl
        | writer t => rw [hs, ht] at hk <;> exact absurd hk (by simp [Rel])
        | reader r => rw [hs, ht] at hk <;> exact absurd hk (by simp [Rel])
      | writer s =>
        cases ht : sst k with
        | none => rw [hs, ht] at hk <;> exact absurd hk (by simp [Rel])
        | writer t => rw [ht] at hu; exact ih _ _ _ hrel hv.2 hu
        | reader r => rw [hs, ht] at hk <;> exact absurd hk (by simp [Rel])
      | reader f s =>
        cases ht : sst k with
        | none => rw [hs, ht] at hk <;> exact absurd hk (by simp [Rel])
        | writer t => rw [hs, ht] at hk <;> exact absurd hk (by simp [Rel])
        | reader r => rw [ht] at hu; exact ih _ _ _ hrel hv.2 hu

/-! ### isolation: what a flush / drop of writer `k` shows depends on the calls addressed to `k` only -/

theorem specCalls_append (a b : List WCall) : specCalls (a ++ b) = specCalls a ++ specCalls b := by
  induction a with
  | nil => simp [specCalls, ByteArray.empty_append]
  | cons x xs ih => simp [specCalls, ih, ByteArray.append_assoc]

theorem specCalls_snoc (a : List WCall) (cl : WCall) : specCalls (a ++ [cl]) = specCalls a ++ cl.spec := by
  rw [specCalls_append]; simp [specCalls, ByteArray.append_empty]

/-- Writer `k` shows the text `t` somewhere in the trace (after a flush or at its drop). -/
def Shown (evs : List Ev) (k : Nat) (t : ByteArray) : Prop := Ev.flushed k t ∈ evs ∨ Ev.dropped k t ∈ evs

theorem shown_close (st : Nat → SObj) : ∀ (n k0 k : Nat) (t : ByteArray), Shown (closeSpecFrom st n k0) k t →
    st k = .writer t := by
  intro n
  induction n with
  | zero => intro k0 k t h; rcases h with h | h <;> simp [closeSpecFrom] at h
  | succ n ih =>
    intro k0 k t h
    simp only [closeSpecFrom] at h
    cases hs : st k0 with
    | writer t0 =>
      rw [hs] at h
      rcases h with h | h
      · simp only [List.mem_cons] at h
        rcases h with h | h
        · cases h
        · exact ih (k0 + 1) k t (Or.inl h)
      · simp only [List.mem_cons] at h
        rcases h with h | h
        · injection h with h1 h2; subst h1; subst h2; exact hs
        · exact ih (k0 + 1) k t (Or.inr h)
    | none => rw [hs] at h; exact ih (k0 + 1) k t h
    | reader r => rw [hs] at h; exact ih (k0 + 1) k t h

/-- **specMulti_isolated.** Whatever the history does with the other objects: every text writer `k` shows (after a
    `flush()` or at its drop) is the concatenation of the expected bytes of the calls addressed to `k` itself, since it
    was created, in some prefix of the history. (`accs j` = the calls writer `j` had received before the history.) -/
theorem specMulti_isolated : ∀ (ops : List MOp) (sst : Nat → SObj) (accs : Nat → List WCall),
    (∀ j t, sst j = .writer t → t = specCalls (accs j)) →
    ∀ k t, Shown (specMulti ops sst) k t → ∃ n, t = specCalls (callsOf k (ops.take n) (accs k)) := by
  intro ops
  induction ops with
  | nil =>
    intro sst accs h k t hs
    exact ⟨0, h k t (shown_close sst _ _ k t hs)⟩
  | cons op ops ih =>
    intro sst accs h k t hs
    cases op with
    | newW j =>
      simp only [specMulti] at hs
      by_cases hlt : j < slots
      · simp only [hlt, decide_true] at hs
        cases hj : sst j with
        | none =>
          rw [hj] at hs
          have h' : ∀ i u, upd sst j (.writer ByteArray.empty) i = .writer u → u = specCalls (upd accs j [] i) := by
            intro i u hu
            unfold upd at hu ⊢
            by_cases hij : i = j
            · simp only [hij, if_true] at hu ⊢; injection hu with hu; rw [← hu]; rfl
            · simp only [hij, if_false] at hu ⊢; exact h i u hu
          obtain ⟨n, hn⟩ := ih _ _ h' k t hs
          refine ⟨n + 1, ?_⟩
          rw [hn]; simp only [List.take_succ_cons, callsOf, upd]
          by_cases hkj : k = j
          · simp [hkj]
          · have : ¬ j = k := fun e => hkj e.symm
            simp [hkj, this]
        | writer u => rw [hj] at hs; rcases hs with hs | hs <;> simp at hs
        | reader r => rw [hj] at hs; rcases hs with hs | hs <;> simp at hs
      · simp only [hlt, decide_false] at hs; rcases hs with hs | hs <;> simp at hs
    | newR j rbuf rc text =>
      simp only [specMulti] at hs
      by_cases hlt : j < slots ∧ 0 < rbuf
      · simp only [hlt, and_self, decide_true] at hs
        cases hj : sst j with
        | none =>
          rw [hj] at hs
          have h' : ∀ i u, upd sst j (.reader text) i = .writer u → u = specCalls (accs i) := by
            intro i u hu
            unfold upd at hu
            by_cases hij : i = j
            · simp only [hij, if_true] at hu; cases hu
            · simp only [hij, if_false] at hu; exact h i u hu
          obtain ⟨n, hn⟩ := ih _ _ h' k t hs
          exact ⟨n + 1, by rw [hn]; simp only [List.take_succ_cons, callsOf]⟩
        | writer u => rw [hj] at hs; rcases hs with hs | hs <;> simp at hs
        | reader r => rw [hj] at hs; rcases hs with hs | hs <;> simp at hs
      · simp only [hlt, decide_false] at hs; rcases hs with hs | hs <;> simp at hs
    | call j cl =>
      simp only [specMulti] at hs
      cases hj : sst j with
      | none => rw [hj] at hs; rcases hs with hs | hs <;> simp at hs
      | reader r => rw [hj] at hs; rcases hs with hs | hs <;> simp at hs
      | writer u =>
        rw [hj] at hs
        simp only at hs
        have hu := h j u hj
        have h' : ∀ i w, upd sst j (.writer (u ++ cl.spec)) i = .writer w →
            w = specCalls (upd accs j (accs j ++ [cl]) i) := by
          intro i w hw
          unfold upd at hw ⊢
          by_cases hij : i = j
          · simp only [hij, if_true] at hw ⊢; injection hw with hw; rw [← hw, specCalls_snoc, hu]
          · simp only [hij, if_false] at hw ⊢; exact h i w hw
        have tail : Shown (specMulti ops (upd sst j (.writer (u ++ cl.spec)))) k t →
            ∃ n, t = specCalls (callsOf k ((MOp.call j cl :: ops).take n) (accs k)) := by
          intro hs'
          obtain ⟨n, hn⟩ := ih _ _ h' k t hs'
          refine ⟨n + 1, ?_⟩
          rw [hn]; simp only [List.take_succ_cons, callsOf, upd]
          by_cases hkj : k = j
          · simp [hkj]
          · have : ¬ j = k := fun e => hkj e.symm
            simp [hkj, this]
        by_cases hfl : cl.isFlush = true
        · simp only [hfl, if_true] at hs
          rcases hs with hs | hs
          · simp only [List.mem_cons] at hs
            rcases hs with hs | hs
            · injection hs with h1 h2
              subst h1; subst h2
              exact ⟨1, by simp [callsOf, specCalls_snoc, hu]⟩
            · exact tail (Or.inl hs)
          · simp only [List.mem_cons] at hs
            rcases hs with hs | hs
            · cases hs
            · exact tail (Or.inr hs)
        · simp only [hfl] at hs
          exact tail hs
    | read j op =>
      simp only [specMulti] at hs
      cases hj : sst j with
      | none => rw [hj] at hs; rcases hs with hs | hs <;> simp at hs
      | writer u => rw [hj] at hs; rcases hs with hs | hs <;> simp at hs
      | reader r =>
        rw [hj] at hs
        simp only at hs
        cases hsp : Reader.specOp op r with
        | none => rw [hsp] at hs; rcases hs with hs | hs <;> simp at hs
        | some x =>
          rw [hsp] at hs
          cases x with
          | error e => rcases hs with hs | hs <;> simp at hs
          | ok p =>
            simp only at hs
            have h' : ∀ i u, upd sst j (.reader p.2) i = .writer u → u = specCalls (accs i) := by
              intro i u hu
              unfold upd at hu
              by_cases hij : i = j
              · simp only [hij, if_true] at hu; cases hu
              · simp only [hij, if_false] at hu; exact h i u hu
            have hs' : Shown (specMulti ops (upd sst j (.reader p.2))) k t := by
              rcases hs with hs | hs
              · simp only [List.mem_cons] at hs
                rcases hs with hs | hs
                · cases hs
                · exact Or.inl hs
              · simp only [List.mem_cons] at hs
                rcases hs with hs | hs
                · cases hs
                · exact Or.inr hs
            obtain ⟨n, hn⟩ := ih _ _ h' k t hs'
            exact ⟨n + 1, by rw [hn]; simp only [List.take_succ_cons, callsOf]⟩
    | move j =>
      simp only [specMulti] at hs
      have go : Shown (specMulti ops sst) k t → ∃ n, t = specCalls (callsOf k ((MOp.move j :: ops).take n) (accs k)) := by
        intro hs'
        obtain ⟨n, hn⟩ := ih _ _ h k t hs'
        exact ⟨n + 1, by rw [hn]; simp only [List.take_succ_cons, callsOf]⟩
      cases hj : sst j with
      | none => rw [hj] at hs; rcases hs with hs | hs <;> simp at hs
      | writer u => rw [hj] at hs; exact go hs
      | reader r => rw [hj] at hs; exact go hs
    | drop j =>
      simp only [specMulti] at hs
      have h' : ∀ i u, upd sst j .none i = .writer u → u = specCalls (accs i) := by
        intro i u hu
        unfold upd at hu
        by_cases hij : i = j
        · simp only [hij, if_true] at hu; cases hu
        · simp only [hij, if_false] at hu; exact h i u hu
      have go : Shown (specMulti ops (upd sst j .none)) k t →
          ∃ n, t = specCalls (callsOf k ((MOp.drop j :: ops).take n) (accs k)) := by
        intro hs'
        obtain ⟨n, hn⟩ := ih _ _ h' k t hs'
        exact ⟨n + 1, by rw [hn]; simp only [List.take_succ_cons, callsOf]⟩
      cases hj : sst j with
      | none => rw [hj] at hs; rcases hs with hs | hs <;> simp at hs
      | reader r => rw [hj] at hs; exact go hs
      | writer u =>
        rw [hj] at hs
        rcases hs with hs | hs
        · simp only [List.mem_cons] at hs
          rcases hs with hs | hs
          · cases hs
          · exact go (Or.inl hs)
        · simp only [List.mem_cons] at hs
          rcases hs with hs | hs
          · injection hs with h1 h2
            subst h1; subst h2
            exact ⟨0, by simpa [callsOf] using h _ _ hj⟩
          · exact go (Or.inr hs)
    | leak j =>
      simp only [specMulti] at hs
      have h' : ∀ i u, upd sst j .none i = .writer u → u = specCalls (accs i) := by
        intro i u hu
        unfold upd at hu
        by_cases hij : i = j
        · simp only [hij, if_true] at hu; cases hu
        · simp only [hij, if_false] at hu; exact h i u hu
      have go : Shown (specMulti ops (upd sst j .none)) k t →
          ∃ n, t = specCalls (callsOf k ((MOp.leak j :: ops).take n) (accs k)) := by
        intro hs'
        obtain ⟨n, hn⟩ := ih _ _ h' k t hs'
        exact ⟨n + 1, by rw [hn]; simp only [List.take_succ_cons, callsOf]⟩
      cases hj : sst j with
      | none => rw [hj] at hs; rcases hs with hs | hs <;> simp at hs
      | writer u => rw [hj] at hs; exact go hs
      | reader r => rw [hj] at hs; exact go hs

end Rlib.IoMulti
