import RlibModel.Generated.SieveSrc
import RlibModel.Lemmas.Sieve
import RlibModel.Lemmas.VecSrc
/-!
# The definitions regenerated from `rlib/sieve/src/lib.rs` equal the hand-written model of `Sieve`

`Rlib.SieveSrc.*` is written by `tools/rs2lean_typed.py` from the Rust source text on every run of `./check C13`: `isp` is an
`Array Bool`, `mnp` and `primes` (`Vec<i32>`) are `Array Int`s with checked indexing, `i as i32` / `primes[j] as usize` are
`IntTy.wrap`, `n + 1` and `primes[j] as usize * i` are checked `usize` operations, the two nested `for` loops (the inner one with
its `break` behind a short-circuit `||`) run on `fuel`.  The hand-written model `Rlib.Sieve.*` works on `Array Nat`, reads with
`getD` and writes with `setIfInBounds` inside the constructor.  For `N + 1 < 2^31` (the casts are the identity, no product
overflows) and `2 N + 1 ≤ fuel` the generated `new` returns exactly the three tables of `sieve N` (embedded `Nat → Int`), so in
particular none of its index / overflow checks fires; the accessors agree for every table and argument (value or `index` panic).
-/
set_option linter.unusedTactic false
set_option linter.unreachableTactic false
set_option linter.unusedSimpArgs false
set_option linter.unusedVariables false
namespace Rlib.SieveSrc
open Rlib Rlib.Sieve Rlib.SrcVec

theorem wrap_usize {z : Int} (h0 : 0 ≤ z) (h1 : z < 2 ^ 64) : IntTy.wrap (IntTy.mk false 64) z = z := by
  simp only [IntTy.wrap, wrapU, Bool.false_eq_true, if_false]
  exact Int.emod_eq_of_lt h0 (by simpa using h1)

theorem wrap_i32 {z : Int} (h0 : 0 ≤ z) (h1 : z < 2 ^ 31) : IntTy.wrap (IntTy.mk true 32) z = z := by
  simp only [IntTy.wrap, wrapS, if_true]
  have : z % (2 ^ 32 : Int) = z := Int.emod_eq_of_lt h0 (by omega)
  simp only [this]
  split <;> omega

theorem getD_eq (m : Array Nat) (i : Nat) (h : i < m.size) : m.getD i 0 = m[i] := by
  simp [Array.getD, h]

theorem size_innerA (n i : Nat) (ps : Array Nat) : ∀ (k j : Nat) (m : Array Nat), j + k = ps.size → (innerA n i ps j m).size = m.size := by
  intro k
  induction k with
  | zero =>
    intro j m h
    rw [innerA, dif_neg (by omega)]
  | succ k ih =>
    intro j m h
    rw [innerA, dif_pos (by omega)]
    simp only []
    split
    · rfl
    · rw [ih (j + 1) _ (by omega)]; simp

-- Proof of the inner-loop lemma; the translator emits the inner loop once per branch of the enclosing `if` (the continuation is
-- duplicated), so the same script is run for each copy.
set_option hygiene false in
macro "inner_loop_proof" L:ident : tactic => `(tactic| (
  intro k
  induction k with
  | zero =>
    intro j fuel M hj hf hM
    obtain ⟨f, rfl⟩ : ∃ f, fuel = f + 1 := ⟨fuel - 1, by omega⟩
    have hjs : j = ps.size := by omega
    refine ⟨(j : Int), ?_⟩
    rw [$L:ident, innerA, dif_neg (by omega)]
    have : ¬ ((j : Int) < (ps.size : Int)) := by omega
    simp only [SrcVec.len, size_emb, this, if_false]
  | succ k ih =>
    intro j fuel M hj hf hM
    obtain ⟨f, rfl⟩ : ∃ f, fuel = f + 1 := ⟨fuel - 1, by omega⟩
    have hjs : j < ps.size := by omega
    have hp := hps j hjs
    have hlt : (j : Int) < (ps.size : Int) := by omega
    have hiM : i < M.size := by omega
    have hw : IntTy.wrap (IntTy.mk false 64) ((ps[j] : Nat) : Int) = ((ps[j] : Nat) : Int) := wrap_usize (by omega) (by omega)
    have hmul : ps[j] * i < 2 ^ 62 := by
      calc ps[j] * i < 2 ^ 31 * 2 ^ 31 := Nat.mul_lt_mul'' (by omega) (by omega)
        _ = 2 ^ 62 := by norm_num
    have hck : checked (IntTy.mk false 64) (((ps[j] : Nat) : Int) * ((i : Nat) : Int)) = .ok (((ps[j] * i : Nat)) : Int) := by
      rw [checked_usize (by positivity) (by push_cast at hmul ⊢; omega)]; simp
    rw [$L:ident, innerA, dif_pos hjs]
    simp only [SrcVec.len, size_emb, hlt, if_true, index_emb, dif_pos hjs, dif_pos hiM, hw, hck, getD_eq M i hiM, Array.getInternal_eq_getElem]
    by_cases h1 : ps[j] > M[i]
    · have h1' : ((ps[j] : Nat) : Int) > ((M[i] : Nat) : Int) := by omega
      refine ⟨(j : Int), ?_⟩
      simp only [h1', if_true, h1, true_or]
    · have h1' : ¬ ((ps[j] : Nat) : Int) > ((M[i] : Nat) : Int) := by omega
      by_cases h2 : ps[j] * i ≥ n
      · have h2' : (((ps[j] * i : Nat)) : Int) ≥ (n : Int) := by omega
        refine ⟨(j : Int), ?_⟩
        simp only [h1', if_false, h2', if_true, h1, h2, or_true]
      · have h2' : ¬ (((ps[j] * i : Nat)) : Int) ≥ (n : Int) := by omega
        have hst : ps[j] * i < M.size := by omega
        have e1 : ((j : Int) + 1) = ((j + 1 : Nat) : Int) := by omega
        obtain ⟨j', hj'⟩ := ih (j + 1) f (M.setIfInBounds (ps[j] * i) ps[j]) (by omega) (by omega) (by simpa using hM)
        refine ⟨j', ?_⟩
        simp only [h1', if_false, h2', h1, h2, or_self, store_emb, dif_pos hst, e1]
        rw [← hj']
        congr 2
        · simp [SrcVec.len]
        · congr 1
          simp [Array.setIfInBounds, hst]))

/-- the inner loop `for j in j0..primes.len() { if primes[j] > mnp[i] || primes[j] as usize * i >= n { break; } mnp[…] = primes[j]; }`
    (first copy: after a new prime has been pushed) -/
theorem new_loop1_eq (n i : Nat) (ps : Array Nat) (hn : n < 2 ^ 31) (hi : i < n) (hps : ∀ (k : Nat) (h : k < ps.size), ps[k] < n) :
    ∀ (k j fuel : Nat) (M : Array Nat), j + k = ps.size → k + 1 ≤ fuel → M.size = n →
      ∃ j' : Int, new_loop1 fuel (j : Int) (SrcVec.len (emb ps)) (emb ps) (emb M) (i : Int) (n : Int) =
        .ok (j', emb ps, emb (innerA n i ps j M)) := by
  inner_loop_proof new_loop1

/-- … second copy: no new prime -/
theorem new_loop2_eq (n i : Nat) (ps : Array Nat) (hn : n < 2 ^ 31) (hi : i < n) (hps : ∀ (k : Nat) (h : k < ps.size), ps[k] < n) :
    ∀ (k j fuel : Nat) (M : Array Nat), j + k = ps.size → k + 1 ≤ fuel → M.size = n →
      ∃ j' : Int, new_loop2 fuel (j : Int) (SrcVec.len (emb ps)) (emb ps) (emb M) (i : Int) (n : Int) =
        .ok (j', emb ps, emb (innerA n i ps j M)) := by
  inner_loop_proof new_loop2

/-- what the outer loop keeps true: table sizes, every stored prime is below the loop index, at most one prime per round -/
structure Bnd (n i : Nat) (s : St) : Prop where
  lm : s.mnp.size = n
  li : s.isp.size = n
  lt : ∀ (k : Nat) (h : k < s.primes.size), s.primes[k] < i
  cnt : s.primes.size + 2 ≤ i

theorem bnd_step (n i : Nat) (s : St) (hi : i < n) (h : Bnd n i s) : Bnd n (i + 1) (stepI n s i) := by
  obtain ⟨isp, mnp, primes⟩ := s
  obtain ⟨lm, li, lt, cnt⟩ := h
  simp only at lm li lt cnt
  by_cases hz : mnp.getD i 0 = 0
  · have e : stepI n ⟨isp, mnp, primes⟩ i =
        ⟨isp.setIfInBounds i true, innerA n i (primes.push i) 0 (mnp.setIfInBounds i i), primes.push i⟩ := by
      simp only [stepI, hz, if_true]
    rw [e]
    refine ⟨?_, ?_, ?_, ?_⟩
    · simp only []
      rw [size_innerA n i _ (primes.push i).size 0 _ (by omega)]; simpa using lm
    · simpa using li
    · intro k hk
      simp only [Array.size_push] at hk
      by_cases hk' : k < primes.size
      · have := lt k hk'
        simp only [Array.getElem_push, hk', dif_pos]; omega
      · simp only [Array.getElem_push, hk', dif_neg, not_false_eq_true]; omega
    · simp only [Array.size_push]; omega
  · have e : stepI n ⟨isp, mnp, primes⟩ i = ⟨isp, innerA n i primes 0 mnp, primes⟩ := by
      simp only [stepI, hz, if_false]
    rw [e]
    refine ⟨?_, ?_, ?_, ?_⟩
    · simp only []
      rw [size_innerA n i _ primes.size 0 _ (by omega)]; exact lm
    · exact li
    · intro k hk
      have := lt k hk
      simp only at this ⊢; omega
    · simp only at cnt ⊢; omega

set_option maxRecDepth 8192 in
/-- the outer loop `for i in i0..n { … }` -/
theorem new_loop0_eq (n : Nat) (hn : n < 2 ^ 31) : ∀ (k i fuel : Nat) (s : St), n ≤ i + k → 2 * n ≤ fuel + i → 1 ≤ fuel → Bnd n i s →
    new_loop0 fuel (i : Int) (n : Int) (emb s.mnp) s.isp (emb s.primes) (n : Int) =
      .ok ((max i n : Nat), emb ((List.range' i (n - i)).foldl (stepI n) s).mnp, ((List.range' i (n - i)).foldl (stepI n) s).isp,
        emb ((List.range' i (n - i)).foldl (stepI n) s).primes) := by
  intro k
  induction k with
  | zero =>
    intro i fuel s hk hf h1 hb
    obtain ⟨f, rfl⟩ : ∃ f, fuel = f + 1 := ⟨fuel - 1, by omega⟩
    have hlt : ¬ ((i : Int) < (n : Int)) := by omega
    have h0 : n - i = 0 := by omega
    have hmax : max i n = i := by omega
    rw [new_loop0]
    simp only [hlt, if_false, h0, List.range'_zero, List.foldl_nil, hmax]
  | succ k ih =>
    intro i fuel s hk hf h1 hb
    obtain ⟨f, rfl⟩ : ∃ f, fuel = f + 1 := ⟨fuel - 1, by omega⟩
    by_cases hin : i < n
    · have hlt : (i : Int) < (n : Int) := by omega
      obtain ⟨m', hm⟩ : ∃ m', n - i = m' + 1 := ⟨n - i - 1, by omega⟩
      have hm' : n - (i + 1) = m' := by omega
      rw [hm]
      have hb' := bnd_step n i s hin hb
      obtain ⟨isp, mnp, primes⟩ := s
      obtain ⟨lm, li, lt, cnt⟩ := hb
      simp only at lm li lt cnt
      have him : i < mnp.size := by omega
      have hii : i < isp.size := by omega
      have e1 : ((i : Int) + 1) = ((i + 1 : Nat) : Int) := by omega
      have hmax : max i n = max (i + 1) n := by omega
      rw [new_loop0]
      simp only [hlt, if_true, index_emb, dif_pos him, List.range'_succ, List.foldl_cons, e1, hmax,
        show IntTy.wrap (IntTy.mk true 32) (i : Int) = (i : Int) from wrap_i32 (by omega) (by omega)]
      by_cases hz : mnp[i] = 0
      · have hz' : ((mnp[i] : Nat) : Int) = 0 := by omega
        have hps : ∀ (k : Nat) (h : k < (primes.push i).size), (primes.push i)[k] < n := by
          intro k hk
          simp only [Array.size_push] at hk
          by_cases hk' : k < primes.size
          · have := lt k hk'
            simp only [Array.getElem_push, hk', dif_pos]; omega
          · simp only [Array.getElem_push, hk', dif_neg, not_false_eq_true]; omega
        obtain ⟨j', hj'⟩ := new_loop1_eq n i (primes.push i) hn hin hps (primes.push i).size 0 f (mnp.setIfInBounds i i)
          (by omega) (by simp only [Array.size_push]; omega) (by simpa using lm)
        have hpush : (emb primes).push (i : Int) = emb (primes.push i) := by simp [emb]
        have hst : SrcVec.store (emb mnp) (i : Int) (i : Int) = .ok (emb (mnp.setIfInBounds i i)) := by
          rw [store_emb, dif_pos him]; congr 2; simp [Array.setIfInBounds, him]
        have hstep : stepI n ⟨isp, mnp, primes⟩ i =
            ⟨isp.setIfInBounds i true, innerA n i (primes.push i) 0 (mnp.setIfInBounds i i), primes.push i⟩ := by
          simp [stepI, getD_eq mnp i him, hz]
        have h0 : ((0 : Nat) : Int) = 0 := rfl
        rw [h0] at hj'
        simp only [hz', ne_eq, not_not, not_true_eq_false, not_false_eq_true, if_true, if_false, store_nat isp i true hii, hst, hpush, hj']
        rw [hstep] at hb' ⊢
        have := ih (i + 1) f _ (by omega) (by omega) (by omega) hb'
        simp only [hm'] at this
        exact this
      · have hz' : ¬ ((mnp[i] : Nat) : Int) = 0 := by omega
        have hps : ∀ (k : Nat) (h : k < primes.size), primes[k] < n := by
          intro k hk
          have := lt k hk
          omega
        obtain ⟨j', hj'⟩ := new_loop2_eq n i primes hn hin hps primes.size 0 f mnp (by omega) (by omega) lm
        have hstep : stepI n ⟨isp, mnp, primes⟩ i = ⟨isp, innerA n i primes 0 mnp, primes⟩ := by
          simp [stepI, getD_eq mnp i him, hz]
        have h0 : ((0 : Nat) : Int) = 0 := rfl
        rw [h0] at hj'
        simp only [hz', ne_eq, not_not, not_true_eq_false, not_false_eq_true, if_true, if_false, hj']
        rw [hstep] at hb' ⊢
        have := ih (i + 1) f _ (by omega) (by omega) (by omega) hb'
        simp only [hm'] at this
        exact this
    · have hlt : ¬ ((i : Int) < (n : Int)) := by omega
      have h0 : n - i = 0 := by omega
      have hmax : max i n = i := by omega
      rw [new_loop0]
      simp only [hlt, if_false, h0, List.range'_zero, List.foldl_nil, hmax]

theorem bnd_init (n : Nat) : Bnd n 2 (init n) := by
  refine ⟨by simp [init], by simp [init], ?_, by simp [init]⟩
  intro k hk
  simp [init] at hk

/-- `Sieve::new(N)` — for every limit with `N + 1 < 2^31`, budget `2 N + 1 ≤ fuel`: exactly the three tables of the model (so none of
    the index / overflow checks of the translated text fires). -/
theorem new_eq_model (fuel N : Nat) (hN : N + 1 < 2 ^ 31) (hf : 2 * N + 1 ≤ fuel) :
    SieveSrc.new fuel (N : Int) = .ok ((sieve N).isp, emb (sieve N).mnp, emb (sieve N).primes) := by
  have hck : checked (IntTy.mk false 64) ((N : Int) + 1) = .ok (((N + 1 : Nat)) : Int) := by
    rw [checked_usize (by omega) (by omega)]; simp
  have hr0 : SrcVec.replicate (((N + 1 : Nat)) : Int) (0 : Int) = emb (Array.replicate (N + 1) 0) := by
    have := replicate_emb (N + 1) 0
    simpa using this
  have hrb : SrcVec.replicate (((N + 1 : Nat)) : Int) false = Array.replicate (N + 1) false := by
    simp [SrcVec.replicate]
  have he : (#[] : Array Int) = emb #[] := by simp [emb]
  have h2 : (2 : Int) = ((2 : Nat) : Int) := rfl
  have hl := new_loop0_eq (N + 1) hN (N + 1) 2 fuel (init (N + 1)) (by omega) (by omega) (by omega) (bnd_init (N + 1))
  simp only [init] at hl
  rw [SieveSrc.new, hck]
  simp only [hr0, hrb, he, h2]
  rw [hl]
  simp only [sieve, init]

/-- `min_prime(n)` — for every table and every argument that is a `usize` value: the entry, or the `index` panic. -/
theorem min_prime_eq_model (fuel : Nat) (s : St) (n : Nat) (hn : n < 2 ^ 64) :
    SieveSrc.min_prime fuel s.isp (emb s.mnp) (emb s.primes) (n : Int) = (minPrime s n).map (fun (x : Nat) => (x : Int)) := by
  unfold SieveSrc.min_prime minPrime
  rw [wrap_usize (by omega) (by omega), index_emb]
  by_cases h : n < s.mnp.size
  · simp [h, Except.map]
  · simp [h, Except.map]

/-- `is_prime(n)` — likewise. -/
theorem is_prime_eq_model (fuel : Nat) (s : St) (n : Nat) (hn : n < 2 ^ 64) :
    SieveSrc.is_prime fuel s.isp (emb s.mnp) (emb s.primes) (n : Int) = isPrime s n := by
  unfold SieveSrc.is_prime isPrime
  rw [wrap_usize (by omega) (by omega), index_nat]
  by_cases h : n < s.isp.size
  · simp [h]
  · simp [h]

/-- `primes()` — the stored vector. -/
theorem primes_eq_model (fuel : Nat) (s : St) :
    SieveSrc.primes fuel s.isp (emb s.mnp) (emb s.primes) = .ok (emb s.primes) ∧
      (emb s.primes).toList = (primesOf s).map (fun (x : Nat) => (x : Int)) := by
  constructor
  · rfl
  · simp [emb, primesOf]

end Rlib.SieveSrc
