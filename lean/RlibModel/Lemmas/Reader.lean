import RlibModel.Model.Reader
/-!
Helper definitions and lemmas for C08 (Reader). Core Lean only.

* `SrcOk`, `Inv` — well-formed sources and the reader invariant.
* `readRetry_spec`, `refill_spec` — ported from `spikes/ReaderRefill.lean` to the executable
  model (array buffer with stale contents, explicit slice panics).
* `ensure_spec`, `front` — the two facts every loop proof uses: after `if begin == end { refill }`
  the reader is either at end of input or has a byte in the window, and that byte is the head of
  the remaining byte string.
* loop lemmas: `skipWs_spec`, `tokenLoop_spec`, `lineLoop_spec`; then one lemma per operation.
-/
set_option linter.unusedSimpArgs false
namespace Rlib.Reader

/-! ### Sources and invariant -/

/-- Data chunks are non-empty (a `read` that returns `Ok(0)` means end of input). -/
def SrcOk : List Event → Prop
  | [] => True
  | .data bs :: t => bs ≠ [] ∧ SrcOk t
  | .intr :: t => SrcOk t

/-- Invariant of the reader state for buffer size `BUF`. -/
structure Inv (BUF : Nat) (s : RState) : Prop where
  len : s.buf.size = BUF
  be : s.b ≤ s.e
  eB : s.e ≤ BUF
  src : SrcOk s.src
  eof : s.eof = true → s.src = [] ∧ s.b = s.e

theorem readRetry_spec (room : Nat) (hr : 0 < room) (src : List Event) (h : SrcOk src) :
    (readRetry room src).1 ++ srcBytes (readRetry room src).2 = srcBytes src ∧
    (readRetry room src).1.length ≤ room ∧ SrcOk (readRetry room src).2 ∧
    ((readRetry room src).1 = [] → srcBytes src = [] ∧ (readRetry room src).2 = []) := by
  induction src with
  | nil => simp [readRetry, srcBytes, SrcOk]
  | cons ev t ih =>
    cases ev with
    | intr => simpa [readRetry, srcBytes, SrcOk] using ih h
    | data bs =>
      obtain ⟨hne, ht⟩ := h
      have hl : 0 < bs.length := List.length_pos_iff.mpr hne
      simp only [readRetry, srcBytes]
      by_cases hk : min room bs.length < bs.length
      · simp only [hk, if_true, srcBytes, SrcOk]
        refine ⟨by rw [← List.append_assoc, List.take_append_drop], by rw [List.length_take]; exact Nat.le_trans (Nat.min_le_left _ _) (Nat.min_le_left _ _), ⟨?_, ht⟩, ?_⟩
        · intro h0; have := congrArg List.length h0; simp at this; omega
        · intro h0
          have hk0 : 0 < min room bs.length := Nat.lt_min.mpr ⟨hr, hl⟩
          rcases List.take_eq_nil_iff.mp h0 with h | h
          · omega
          · exact absurd h hne
      · simp only [hk, if_false]
        have : min room bs.length = bs.length := by omega
        rw [this, List.take_length]
        exact ⟨rfl, by omega, ht, fun h0 => absurd h0 hne⟩

/-! ### Buffer writes -/

theorem writeAt_size (bs : List UInt8) : ∀ (buf : Array UInt8) (i : Nat), (writeAt buf i bs).size = buf.size := by
  induction bs with
  | nil => intro buf i; rfl
  | cons x xs ih => intro buf i; simp only [writeAt]; rw [ih]; exact Array.size_setIfInBounds

theorem writeAt_toList (bs : List UInt8) : ∀ (buf : Array UInt8) (i : Nat), i + bs.length ≤ buf.size →
    (writeAt buf i bs).toList = buf.toList.take i ++ bs ++ buf.toList.drop (i + bs.length) := by
  induction bs with
  | nil => intro buf i _; simp [writeAt]
  | cons x xs ih =>
    intro buf i h
    simp only [List.length_cons] at h
    simp only [writeAt]
    rw [ih _ _ (by rw [Array.size_setIfInBounds]; omega)]
    rw [Array.toList_setIfInBounds, List.set_eq_take_append_cons_drop]
    have hi : i < buf.toList.length := by rw [Array.length_toList]; omega
    rw [if_pos hi]
    have h1 : List.take (i + 1) (List.take i buf.toList ++ x :: List.drop (i + 1) buf.toList)
        = List.take i buf.toList ++ [x] := by
      rw [List.take_append]
      simp only [List.length_take, Nat.min_eq_left (Nat.le_of_lt hi)]
      rw [List.take_of_length_le (l := List.take i buf.toList) (by rw [List.length_take]; omega)]
      have : i + 1 - i = 1 := by omega
      rw [this]; rfl
    have h2 : List.drop (i + 1 + xs.length) (List.take i buf.toList ++ x :: List.drop (i + 1) buf.toList)
        = List.drop (i + (xs.length + 1)) buf.toList := by
      rw [List.drop_append]
      simp only [List.length_take, Nat.min_eq_left (Nat.le_of_lt hi)]
      rw [List.drop_of_length_le (l := List.take i buf.toList) (by rw [List.length_take]; omega)]
      have : i + 1 + xs.length - i = xs.length + 1 := by omega
      rw [this, List.nil_append, List.drop_succ_cons, List.drop_drop]
      congr 1; omega
    rw [h1, h2]
    simp [List.length_cons]

theorem window_eq (s : RState) : window s = (s.buf.toList.drop s.b).take (s.e - s.b) := by
  simp [window, Array.toList_extract, List.extract_eq_take_drop]

/-! ### refill -/

/-- Refilling an empty window does not change what is left to read, keeps the invariant, and
    sets `eof` exactly when nothing is left; otherwise the window is non-empty afterwards. -/
theorem refill_spec (BUF : Nat) (hB : 0 < BUF) (s : RState) (hi : Inv BUF s) (hemp : s.b = s.e) :
    ∃ s', refill s = .ok s' ∧ R s' = R s ∧ Inv BUF s' ∧ (s'.eof = true ↔ R s = []) ∧
      (s'.eof = false → s'.b < s'.e) := by
  have hw : window s = [] := by rw [window_eq]; simp [hemp]
  have hR : R s = srcBytes s.src := by simp [R, hw]
  by_cases heof : s.eof = true
  · obtain ⟨h1, _⟩ := hi.eof heof
    refine ⟨s, by simp [refill, heof], rfl, hi, ?_, ?_⟩
    · simp [heof, hR, h1, srcBytes]
    · intro h; rw [heof] at h; cases h
  · have heof' : s.eof = false := by cases h : s.eof <;> simp_all
    have hbuf1 : (if s.b ≠ 0 then writeAt s.buf 0 (window s) else s.buf) = s.buf := by
      split <;> simp [hw, writeAt]
    have he1 : (if s.b ≠ 0 then s.e - s.b else s.e) = 0 := by split <;> omega
    have hlen := hi.len
    have hbe := hi.eB
    obtain ⟨r1, r2, r3, r4⟩ := readRetry_spec s.buf.size (by omega) s.src hi.src
    have hguard : ¬ (s.b ≠ 0 ∧ (s.e < s.b ∨ s.buf.size < s.e)) := by omega
    refine ⟨{ buf := writeAt s.buf 0 (readRetry s.buf.size s.src).1, b := 0,
              e := (readRetry s.buf.size s.src).1.length,
              eof := (readRetry s.buf.size s.src).1.isEmpty, src := (readRetry s.buf.size s.src).2 }, ?_, ?_, ?_, ?_, ?_⟩
    · simp only [refill, heof', Bool.false_eq_true, if_false, hguard, hbuf1, he1]
      simp
    · simp only [R, window_eq, List.drop_zero, Nat.sub_zero]
      rw [writeAt_toList _ _ _ (by omega)]
      simp only [List.take_zero, List.nil_append, Nat.zero_add]
      rw [List.take_append_of_le_length (Nat.le_refl _), List.take_length]
      rw [← window_eq, hw, List.nil_append]; exact r1
    · constructor
      · simp only [writeAt_size]; exact hlen
      · exact Nat.zero_le _
      · show (readRetry s.buf.size s.src).1.length ≤ BUF
        omega
      · exact r3
      · intro h
        have h' : (readRetry s.buf.size s.src).1 = [] := List.isEmpty_iff.mp h
        exact ⟨(r4 h').2, by simp [h']⟩
    · simp only [List.isEmpty_iff, hR]
      constructor
      · intro h; exact (r4 h).1
      · intro h; rw [h] at r1
        exact (List.append_eq_nil_iff.mp r1).1
    · intro h
      exact List.length_pos_iff.mpr (by intro h0; rw [h0] at h; simp at h)

/-! ### `if begin == end { refill }`, the byte at the front -/

/-- A state right after `ensure`: at end of input, or a byte is available in the window. -/
def Ready (BUF : Nat) (s : RState) : Prop :=
  Inv BUF s ∧ ((s.eof = true ∧ R s = []) ∨ (s.eof = false ∧ s.b < s.e))

theorem ensure_spec (BUF : Nat) (hB : 0 < BUF) (s : RState) (hi : Inv BUF s) :
    ∃ s', ensure s = .ok s' ∧ R s' = R s ∧ Ready BUF s' := by
  by_cases h : s.b = s.e
  · obtain ⟨s', h1, h2, h3, h4, h5⟩ := refill_spec BUF hB s hi h
    refine ⟨s', by simp [ensure, h, h1], h2, h3, ?_⟩
    cases he : s'.eof
    · exact Or.inr ⟨rfl, h5 he⟩
    · exact Or.inl ⟨rfl, by rw [h2]; exact h4.mp he⟩
  · have hlt : s.b < s.e := Nat.lt_of_le_of_ne hi.be h
    have heof : s.eof = false := by
      cases he : s.eof
      · rfl
      · exact absurd (hi.eof he).2 h
    exact ⟨s, by simp [ensure, h], rfl, hi, Or.inr ⟨heof, hlt⟩⟩

theorem ensure_ready (BUF : Nat) (s : RState) (h : Ready BUF s) : ensure s = .ok s := by
  rcases h.2 with ⟨he, _⟩ | ⟨_, hlt⟩
  · have := (h.1.eof he).2
    simp [ensure, this, refill, he]
  · have : s.b ≠ s.e := by omega
    simp [ensure, this]

/-- With a non-empty window, `buf[begin]` is the first of the remaining bytes, and stepping over it
    removes exactly that byte. -/
theorem front (BUF : Nat) (s : RState) (hi : Inv BUF s) (hlt : s.b < s.e) :
    ∃ c, s.buf[s.b]? = some c ∧ R s = c :: R (adv s) ∧ Inv BUF (adv s) := by
  have hlen := hi.len
  have heB := hi.eB
  have hb : s.b < s.buf.size := by omega
  refine ⟨s.buf[s.b], Array.getElem?_eq_getElem hb, ?_, ?_⟩
  · simp only [R, window_eq, adv]
    have hb' : s.b < s.buf.toList.length := by rw [Array.length_toList]; exact hb
    rw [List.drop_eq_getElem_cons hb']
    have : s.e - s.b = (s.e - (s.b + 1)) + 1 := by omega
    rw [this, List.take_succ_cons]
    simp [Array.getElem_toList]
  · constructor
    · exact hlen
    · show s.b + 1 ≤ s.e; omega
    · exact heB
    · exact hi.src
    · intro he
      have := (hi.eof he).2
      omega

theorem peek_ready (BUF : Nat) (s : RState) (h : Ready BUF s) (he : s.eof = false) :
    ∃ c, peek s = .ok (c, s) ∧ R s = c :: R (adv s) ∧ Inv BUF (adv s) := by
  rcases h.2 with ⟨he', _⟩ | ⟨_, hlt⟩
  · rw [he] at he'; cases he'
  · obtain ⟨c, hc, hR, hia⟩ := front BUF s h.1 hlt
    refine ⟨c, ?_, hR, hia⟩
    have hne : s.b ≠ s.e := by omega
    simp [peek, ensure_ready BUF s h, hne, hc]

theorem peek_ready_eof (BUF : Nat) (s : RState) (h : Ready BUF s) (he : s.eof = true) :
    peek s = .ok (0, s) := by
  have := (h.1.eof he).2
  simp [peek, ensure_ready BUF s h, this]

/-- `peek` in any state satisfying the invariant. -/
theorem peek_spec (BUF : Nat) (hB : 0 < BUF) (s : RState) (hi : Inv BUF s) :
    ∃ c s', peek s = .ok (c, s') ∧ R s' = R s ∧ Ready BUF s' ∧
      ((R s = [] ∧ c = 0 ∧ s'.eof = true) ∨
       (s'.eof = false ∧ R s' = c :: R (adv s') ∧ Inv BUF (adv s'))) := by
  obtain ⟨s1, h1, h2, h3⟩ := ensure_spec BUF hB s hi
  have hp : peek s = peek s1 := by
    simp only [peek, h1, ensure_ready BUF s1 h3]
  cases he : s1.eof
  · obtain ⟨c, hc, hR, hia⟩ := peek_ready BUF s1 h3 he
    exact ⟨c, s1, by rw [hp, hc], h2, h3, Or.inr ⟨he, hR, hia⟩⟩
  · refine ⟨0, s1, by rw [hp, peek_ready_eof BUF s1 h3 he], h2, h3, Or.inl ⟨?_, rfl, he⟩⟩
    rcases h3.2 with ⟨_, hr⟩ | ⟨he', _⟩
    · rw [← h2]; exact hr
    · rw [he] at he'; cases he'

/-! ### skip_whitespace -/

theorem skipWs_spec (BUF : Nat) (hB : 0 < BUF) : ∀ (fuel : Nat) (s : RState), Inv BUF s → (R s).length < fuel →
    ∃ s', skipWs fuel s = .ok s' ∧ R s' = specSkipWs (R s) ∧ Ready BUF s' := by
  intro fuel
  induction fuel with
  | zero => intro s _ h; omega
  | succ n ih =>
    intro s hi hf
    obtain ⟨s1, h1, h2, h3⟩ := ensure_spec BUF hB s hi
    cases he : s1.eof
    · obtain ⟨c, hc, hR, hia⟩ := peek_ready BUF s1 h3 he
      by_cases hws : isWs c = true
      · obtain ⟨s2, g1, g2, g3⟩ := ensure_spec BUF hB (adv s1) hia
        have hlen : (R s2).length < n := by
          rw [g2]; rw [← h2, hR] at hf; simp at hf; omega
        obtain ⟨s3, k1, k2, k3⟩ := ih s2 g3.1 hlen
        refine ⟨s3, ?_, ?_, k3⟩
        · simp only [skipWs, h1, he, hc, hws, g1]; simpa using k1
        · rw [k2, g2, ← h2, hR]; simp [specSkipWs, List.dropWhile_cons, hws]
      · refine ⟨s1, ?_, ?_, h3⟩
        · simp only [skipWs, h1, he, hc]; simp [hws]
        · rw [← h2, hR]; simp [specSkipWs, List.dropWhile_cons, hws]
    · refine ⟨s1, ?_, ?_, h3⟩
      · simp [skipWs, h1, he]
      · rcases h3.2 with ⟨_, hr⟩ | ⟨he', _⟩
        · rw [← h2, hr]; simp [specSkipWs]
        · rw [he] at he'; cases he'

/-! ### token loop -/

/-- The token loop returns the fold of `step` over the next token (or its panic) and leaves
    exactly what follows the token. -/
theorem tokenLoop_spec {α : Type} (step : α → UInt8 → Except Panic α) (BUF : Nat) (hB : 0 < BUF) :
    ∀ (fuel : Nat) (s : RState) (acc : α), Inv BUF s → (R s).length < fuel →
    (∀ e, foldE step acc (specTok (R s)).1 = .error e → tokenLoop step fuel s acc = .error e) ∧
    (∀ a, foldE step acc (specTok (R s)).1 = .ok a →
      ∃ s', tokenLoop step fuel s acc = .ok (a, s') ∧ R s' = (specTok (R s)).2 ∧ Inv BUF s') := by
  intro fuel
  induction fuel with
  | zero => intro s _ _ h; omega
  | succ n ih =>
    intro s acc hi hf
    obtain ⟨s1, h1, h2, h3⟩ := ensure_spec BUF hB s hi
    cases he : s1.eof
    · obtain ⟨c, hc, hR, hia⟩ := peek_ready BUF s1 h3 he
      have hRs : R s = c :: R (adv s1) := by rw [← h2, hR]
      by_cases hws : isWs c = true
      · have ht : specTok (R s) = ([], R s) := by
          rw [hRs]; simp [specTok, List.takeWhile_cons, List.dropWhile_cons, hws]
        rw [ht]
        constructor
        · intro e h; simp [foldE] at h
        · intro a h
          simp only [foldE, Except.ok.injEq] at h
          refine ⟨s1, ?_, h2, h3.1⟩
          simp only [tokenLoop, h1, he, hc]; simp [hws, h]
      · have ht : specTok (R s) = (c :: (specTok (R (adv s1))).1, (specTok (R (adv s1))).2) := by
          rw [hRs]; simp [specTok, List.takeWhile_cons, List.dropWhile_cons, hws]
        rw [ht]
        have hlen : (R (adv s1)).length < n := by rw [hRs] at hf; simp at hf; omega
        cases hst : step acc c with
        | error e0 =>
          constructor
          · intro e h
            simp only [foldE, hst] at h
            simp only [tokenLoop, h1, he, hc]; simp [hws, hst]; simpa using h
          · intro a h; simp [foldE, hst] at h
        | ok acc' =>
          obtain ⟨ihe, iho⟩ := ih (adv s1) acc' hia hlen
          constructor
          · intro e h
            simp only [foldE, hst] at h
            simp only [tokenLoop, h1, he, hc]; simp [hws, hst]; exact ihe e h
          · intro a h
            simp only [foldE, hst] at h
            obtain ⟨s', k1, k2, k3⟩ := iho a h
            refine ⟨s', ?_, k2, k3⟩
            simp only [tokenLoop, h1, he, hc]; simp [hws, hst]; exact k1
    · have hr : R s = [] := by
        rcases h3.2 with ⟨_, hr⟩ | ⟨he', _⟩
        · rw [← h2]; exact hr
        · rw [he] at he'; cases he'
      rw [hr]
      constructor
      · intro e h; simp [specTok, foldE] at h
      · intro a h
        simp only [specTok, List.takeWhile_nil, foldE, Except.ok.injEq] at h
        refine ⟨s1, ?_, by rw [h2, hr]; simp [specTok], h3.1⟩
        simp [tokenLoop, h1, he, h]

end Rlib.Reader
