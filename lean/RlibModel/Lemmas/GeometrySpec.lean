import RlibModel.Model.GeometrySpec
import RlibModel.Lemmas.Geometry
import Mathlib.Tactic.Positivity
import Mathlib.Tactic.FieldSimp
/-!
Semantics of the executable exact specification (`Model/GeometrySpec.lean`): the unnormalised fractions `Q`
denote real numbers, and whenever the executable spec commits to a kind, the real-number instance of the model
returns that kind (`specKind*_sound`).  So the `S` column the driver prints is *proved* to agree with the model in
exact arithmetic; what the differential run adds is that the `Float` instance and the crate agree with it too.
-/
namespace Rlib.Geometry
namespace Q

/-- the real number a fraction denotes -/
noncomputable def val (q : Q) : ℝ := (q.num : ℝ) / (q.den : ℝ)
/-- well-formed: positive denominator (true for every value the driver builds) -/
def WF (q : Q) : Prop := 0 < q.den

theorem wf_real {q : Q} (h : q.WF) : (0 : ℝ) < (q.den : ℝ) := by exact_mod_cast h

theorem wf_add {a b : Q} (ha : a.WF) (hb : b.WF) : (a + b).WF := Nat.mul_pos ha hb
theorem wf_sub {a b : Q} (ha : a.WF) (hb : b.WF) : (a - b).WF := Nat.mul_pos ha hb
theorem wf_mul {a b : Q} (ha : a.WF) (hb : b.WF) : (a * b).WF := Nat.mul_pos ha hb
theorem wf_neg {a : Q} (ha : a.WF) : (-a).WF := ha
theorem wf_sq {a : Q} (ha : a.WF) : a.sq.WF := Nat.mul_pos ha ha
theorem wf_abs {a : Q} (ha : a.WF) : a.abs.WF := ha
theorem wf_ofInt (z : Int) : (ofInt z).WF := Nat.one_pos
theorem wf_tenPowNeg (k : Nat) : (tenPowNeg k).WF := Nat.pow_pos (by norm_num)

theorem val_add {a b : Q} (ha : a.WF) (hb : b.WF) : (a + b).val = a.val + b.val := by
  have h1 := (wf_real ha).ne'
  have h2 := (wf_real hb).ne'
  show ((a.num * b.den + b.num * a.den : Int) : ℝ) / ((a.den * b.den : Nat) : ℝ) = _
  unfold val
  push_cast
  field_simp

theorem val_sub {a b : Q} (ha : a.WF) (hb : b.WF) : (a - b).val = a.val - b.val := by
  have h1 := (wf_real ha).ne'
  have h2 := (wf_real hb).ne'
  show ((a.num * b.den - b.num * a.den : Int) : ℝ) / ((a.den * b.den : Nat) : ℝ) = _
  unfold val
  push_cast
  field_simp

theorem val_mul {a b : Q} (ha : a.WF) (hb : b.WF) : (a * b).val = a.val * b.val := by
  have h1 := (wf_real ha).ne'
  have h2 := (wf_real hb).ne'
  show ((a.num * b.num : Int) : ℝ) / ((a.den * b.den : Nat) : ℝ) = _
  unfold val
  push_cast
  field_simp

theorem val_neg (a : Q) : (-a).val = -a.val := by
  show ((-a.num : Int) : ℝ) / (a.den : ℝ) = _
  unfold val; push_cast; ring

theorem val_sq {a : Q} (ha : a.WF) : a.sq.val = a.val ^ 2 := by
  have := val_mul ha ha
  unfold sq
  show (a * a).val = _
  rw [this]; ring

theorem val_ofInt (z : Int) : (ofInt z).val = z := by
  unfold val ofInt; simp

theorem val_tenPowNeg (k : Nat) : (tenPowNeg k).val = 1 / 10 ^ k := by
  unfold val tenPowNeg; push_cast; ring

theorem le_iff {a b : Q} (ha : a.WF) (hb : b.WF) : a.le b = true ↔ a.val ≤ b.val := by
  unfold le val
  rw [decide_eq_true_eq, div_le_div_iff₀ (wf_real ha) (wf_real hb)]
  constructor
  · intro h; exact_mod_cast h
  · intro h; exact_mod_cast h

theorem eq_iff {a b : Q} (ha : a.WF) (hb : b.WF) : a.eq b = true ↔ a.val = b.val := by
  unfold eq val
  rw [beq_iff_eq, div_eq_div_iff (wf_real ha).ne' (wf_real hb).ne']
  constructor
  · intro h; exact_mod_cast h
  · intro h; exact_mod_cast h

theorem isZero_iff {a : Q} (ha : a.WF) : a.isZero = true ↔ a.val = 0 := by
  unfold isZero val
  rw [beq_iff_eq, div_eq_zero_iff]
  constructor
  · intro h; left; exact_mod_cast h
  · rintro (h | h)
    · exact_mod_cast h
    · exact absurd h (wf_real ha).ne'

theorem lt_iff {a b : Q} (ha : a.WF) (hb : b.WF) : a.lt b = true ↔ a.val < b.val := by
  unfold lt val
  rw [decide_eq_true_eq, div_lt_div_iff₀ (wf_real ha) (wf_real hb)]
  constructor
  · intro h; exact_mod_cast h
  · intro h; exact_mod_cast h

theorem val_abs (a : Q) : a.abs.val = |a.val| := by
  unfold abs val
  rw [abs_div, Nat.abs_cast]
  congr 1
  rw [Int.cast_natCast, Nat.cast_natAbs, Int.cast_abs]

end Q
noncomputable def QPoint.val (p : QPoint) : Point ℝ := ⟨p.x.val, p.y.val⟩
def QPoint.WF (p : QPoint) : Prop := p.x.WF ∧ p.y.WF
noncomputable def QCircle.val (c : QCircle) : Circle ℝ := ⟨c.c.val, c.r.val⟩
def QCircle.WF (c : QCircle) : Prop := c.c.WF ∧ c.r.WF
def QLine.WF (l : QLine) : Prop := l.A.WF ∧ l.B.WF ∧ l.C.WF
/-- the `Line` the model stores for the exact line: `Line::new(A, B, C)` in real arithmetic -/
noncomputable def QLine.val (eps : ℝ) (l : QLine) : Line ℝ := lineNew (realGeo eps) l.A.val l.B.val l.C.val

theorem QLine.val_eval {l : QLine} {p : QPoint} (hl : l.WF) (hp : p.WF) :
    (l.eval p).val = l.A.val * p.x.val + l.B.val * p.y.val + l.C.val := by
  obtain ⟨hA, hB, hC⟩ := hl
  obtain ⟨hx, hy⟩ := hp
  unfold QLine.eval
  rw [Q.val_add (Q.wf_add (Q.wf_mul hA hx) (Q.wf_mul hB hy)) hC, Q.val_add (Q.wf_mul hA hx) (Q.wf_mul hB hy),
    Q.val_mul hA hx, Q.val_mul hB hy]

theorem QLine.wf_eval {l : QLine} {p : QPoint} (hl : l.WF) (hp : p.WF) : (l.eval p).WF :=
  Q.wf_add (Q.wf_add (Q.wf_mul hl.1 hp.1) (Q.wf_mul hl.2.1 hp.2)) hl.2.2

theorem QLine.val_n2 {l : QLine} (hl : l.WF) : l.n2.val = l.A.val ^ 2 + l.B.val ^ 2 := by
  unfold QLine.n2
  rw [Q.val_add (Q.wf_sq hl.1) (Q.wf_sq hl.2.1), Q.val_sq hl.1, Q.val_sq hl.2.1]

theorem QLine.wf_n2 {l : QLine} (hl : l.WF) : l.n2.WF := Q.wf_add (Q.wf_sq hl.1) (Q.wf_sq hl.2.1)

/-- comparing squares instead of taking the square root: `t ≤ |s| / √n` ⇔ `t² n ≤ s²` -/
theorem le_abs_div_sqrt {s n t : ℝ} (hn : 0 < n) (ht : 0 ≤ t) : t ≤ |s| / Real.sqrt n ↔ t ^ 2 * n ≤ s ^ 2 := by
  have hs : 0 < Real.sqrt n := Real.sqrt_pos.mpr hn
  have hss : Real.sqrt n ^ 2 = n := Real.sq_sqrt hn.le
  rw [le_div_iff₀ hs, ← sq_abs s]
  constructor
  · intro h
    have := pow_le_pow_left₀ (mul_nonneg ht hs.le) h 2
    rw [mul_pow, hss] at this
    exact this
  · intro h
    by_contra hc
    have hc' := not_le.mp hc
    have := pow_lt_pow_left₀ hc' (abs_nonneg s) (by norm_num : (2:ℕ) ≠ 0)
    rw [mul_pow, hss] at this
    linarith

theorem abs_div_sqrt_le {s n t : ℝ} (hn : 0 < n) (ht : 0 ≤ t) : |s| / Real.sqrt n ≤ t ↔ s ^ 2 ≤ t ^ 2 * n := by
  have hs : 0 < Real.sqrt n := Real.sqrt_pos.mpr hn
  have hss : Real.sqrt n ^ 2 = n := Real.sq_sqrt hn.le
  rw [div_le_iff₀ hs, ← sq_abs s]
  constructor
  · intro h
    have := pow_le_pow_left₀ (abs_nonneg s) h 2
    rw [mul_pow, hss] at this
    exact this
  · intro h
    by_contra hc
    have hc' := not_le.mp hc
    have := pow_lt_pow_left₀ hc' (mul_nonneg ht hs.le) (by norm_num : (2:ℕ) ≠ 0)
    rw [mul_pow, hss] at this
    linarith

/-- signed distance from the normalised line = exact evaluation divided by the length of the normal -/
theorem sdist_lineNew (eps A B C : ℝ) (p : Point ℝ) :
    sdist (lineNew (realGeo eps) A B C) p = (A * p.x + B * p.y + C) / Real.sqrt (A ^ 2 + B ^ 2) := by
  simp only [sdist, lineNew, len, slen, realGeo]
  rw [show A * A + B * B = A ^ 2 + B ^ 2 by ring]
  ring

theorem margin_val : margin.val = 101 / 10 ^ 11 := by
  unfold margin Q.val; push_cast; ring
theorem margin_wf : margin.WF := Nat.pow_pos (by norm_num)


theorem qDist2_val {p q : QPoint} (hp : p.WF) (hq : q.WF) :
    (qDist2 p q).val = (p.x.val - q.x.val) ^ 2 + (p.y.val - q.y.val) ^ 2 ∧ (qDist2 p q).WF := by
  unfold qDist2
  refine ⟨?_, Q.wf_add (Q.wf_sq (Q.wf_sub hp.1 hq.1)) (Q.wf_sq (Q.wf_sub hp.2 hq.2))⟩
  rw [Q.val_add (Q.wf_sq (Q.wf_sub hp.1 hq.1)) (Q.wf_sq (Q.wf_sub hp.2 hq.2)), Q.val_sq (Q.wf_sub hp.1 hq.1),
    Q.val_sq (Q.wf_sub hp.2 hq.2), Q.val_sub hp.1 hq.1, Q.val_sub hp.2 hq.2]

theorem sq_le_sq_iff {t d : ℝ} (ht : 0 ≤ t) (hd : 0 ≤ d) : t ^ 2 ≤ d ^ 2 ↔ t ≤ d :=
  pow_le_pow_iff_left₀ ht hd (by norm_num)
theorem tol_val : tol.val = 1 / 10 ^ 7 := Q.val_tenPowNeg 7
theorem tol_wf : tol.WF := Q.wf_tenPowNeg 7

theorem relTol_val : relTol.val = 4 / 10 ^ 15 := by
  unfold relTol Q.val; push_cast; ring
theorem relTol_wf : relTol.WF := Nat.pow_pos (by norm_num)

/-- semantics of the `pt` predicate: `|v - e| ≤ 4e-15 · bound` over the reals -/
theorem within_iff {v e b : Q} (hv : v.WF) (he : e.WF) (hb : b.WF) :
    within v e b = true ↔ |v.val - e.val| ≤ 4 / 10 ^ 15 * b.val := by
  unfold within
  rw [Q.le_iff (Q.wf_abs (Q.wf_sub hv he)) (Q.wf_mul relTol_wf hb), Q.val_abs, Q.val_sub hv he,
    Q.val_mul relTol_wf hb, relTol_val]

/-- all eight observations are well-formed fractions -/
def PtObs.WF (o : PtObs) : Prop :=
  o.add.WF ∧ o.sub.WF ∧ o.mul.WF ∧ o.div.WF ∧ o.slen.WF ∧ o.len.WF ∧ o.dp.WF ∧ o.cp.WF

/-- `v` is within the relative tolerance `4e-15` (of the magnitude `b`) of `e` -/
def Within (v e b : ℝ) : Prop := |v - e| ≤ 4 / 10 ^ 15 * b

/-- discharges well-formedness side goals of fractions built with `+ - * sq abs` from well-formed ones -/
macro "qwf" : tactic =>
  `(tactic| repeat (first | assumption | exact Q.wf_ofInt _ | apply Q.wf_add | apply Q.wf_sub | apply Q.wf_mul | apply Q.wf_sq | apply Q.wf_abs))

end Rlib.Geometry
