import RlibModel.Generated.VecPrelude
/-!
# `Vec` values of the translator vs. the `Array Nat` vectors of the hand-written models

The typed translator reads a `Vec<usize>` / `Vec<i32>` as an `Array Int` (`Generated/VecPrelude.lean`); the hand-written models of
`dsu` and `sieve` use `Array Nat`.  `emb` is the element-wise embedding; the lemmas say what the checked vector operations
`SrcVec.index / store / replicate / range` do on embedded vectors (a `dite` on the model's bound).  Shared by `Lemmas/DsuSrc.lean`
and `Lemmas/SieveSrc.lean`.
-/
set_option linter.unusedSimpArgs false
namespace Rlib.SrcVec
open Rlib

/-- the embedding of a `Vec<usize>` of the model (naturals) into the translator's reading (integers) -/
def emb (a : Array Nat) : Array Int := a.map (fun (x : Nat) => (x : Int))

@[simp] theorem size_emb (a : Array Nat) : (emb a).size = a.size := by simp [emb]

/-! ### the vector operations on embedded arrays -/

theorem index_emb (a : Array Nat) (i : Nat) :
    SrcVec.index (emb a) (i : Int) = if h : i < a.size then .ok ((a[i] : Nat) : Int) else .error .index := by
  unfold SrcVec.index
  by_cases h : i < a.size
  · have h' : 0 ≤ (i : Int) ∧ (i : Int).toNat < (emb a).size := ⟨by omega, by simpa using h⟩
    rw [dif_pos h', dif_pos h]
    simp [emb]
  · have h' : ¬ (0 ≤ (i : Int) ∧ (i : Int).toNat < (emb a).size) := by simpa using h
    rw [dif_neg h', dif_neg h]

theorem store_emb (a : Array Nat) (i x : Nat) :
    SrcVec.store (emb a) (i : Int) (x : Int) = if h : i < a.size then .ok (emb (a.set i x h)) else .error .index := by
  unfold SrcVec.store
  by_cases h : i < a.size
  · have h' : 0 ≤ (i : Int) ∧ (i : Int).toNat < (emb a).size := ⟨by omega, by simpa using h⟩
    rw [dif_pos h', dif_pos h]
    simp [emb]
  · have h' : ¬ (0 ≤ (i : Int) ∧ (i : Int).toNat < (emb a).size) := by simpa using h
    rw [dif_neg h', dif_neg h]

theorem index_set_emb (a : Array Nat) (v r : Nat) (h : v < a.size) :
    SrcVec.index (emb (a.set v r h)) (v : Int) = .ok (r : Int) := by
  rw [index_emb, dif_pos (by simpa using h)]
  simp

theorem range_emb (n : Nat) : SrcVec.range 0 (n : Int) = emb (Array.range n) := by
  unfold SrcVec.range emb
  apply Array.ext
  · simp
  · intro i h1 h2
    simp

theorem replicate_emb (n x : Nat) : SrcVec.replicate (n : Int) (x : Int) = emb (Array.replicate n x) := by
  simp [SrcVec.replicate, emb]

theorem replicate_emb1 (n : Nat) : SrcVec.replicate (n : Int) (1 : Int) = emb (Array.replicate n 1) := by
  have h := replicate_emb n 1
  simpa using h

theorem checked_usize {z : Int} (h0 : 0 ≤ z) (h1 : z < 2 ^ 64) : checked (IntTy.mk false 64) z = .ok z := by
  have : (IntTy.mk false 64).fits z = true := by
    simp only [IntTy.fits, IntTy.minVal, IntTy.maxVal, Bool.and_eq_true, decide_eq_true_eq]
    constructor <;> simp <;> omega
  simp [checked, this]

theorem decide_nat (a b : Nat) : decide (a = b) = (a == b) := by
  by_cases h : a = b <;> simp [h]

theorem decide_cast (a b : Nat) : decide ((a : Int) = (b : Int)) = (a == b) := by
  by_cases h : a = b
  · simp [h]
  · have : ¬ (a : Int) = (b : Int) := by omega
    simp [h, this]

theorem store_nat {α : Type} (A : Array α) (k : Nat) (x : α) (h : k < A.size) :
    SrcVec.store A (k : Int) x = .ok (A.setIfInBounds k x) := by
  unfold SrcVec.store
  have h' : 0 ≤ (k : Int) ∧ (k : Int).toNat < A.size := ⟨by omega, by simpa using h⟩
  rw [dif_pos h']
  simp [Array.setIfInBounds, h]

theorem index_nat {α : Type} (A : Array α) (k : Nat) :
    SrcVec.index A (k : Int) = if h : k < A.size then .ok A[k] else .error .index := by
  unfold SrcVec.index
  by_cases h : k < A.size
  · have h' : 0 ≤ (k : Int) ∧ (k : Int).toNat < A.size := ⟨by omega, by simpa using h⟩
    rw [dif_pos h', dif_pos h]
    simp
  · have h' : ¬ (0 ≤ (k : Int) ∧ (k : Int).toNat < A.size) := by simpa using h
    rw [dif_neg h', dif_neg h]

end Rlib.SrcVec
