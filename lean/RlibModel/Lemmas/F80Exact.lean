import RlibModel.Lemmas.F80Encode
import RlibModel.Model.F80Exact
/-!
Lemmas for C18, part 5: the arithmetic really is "the exact real result, rounded once".

* `roundRat f z q` — round the rational number `q` to format `f` (the reference meaning of *correctly rounded*);
  `roundRat_spec` says what it returns (sign, within half a quantum, precision, overflow).
* `roundPos_congr` — the rounding depends only on the value, not on the way it is written as `n/d * 2^e`.
* `addC_exact … divC_exact, roundClass_exact` — the bit-level model (`Model/F80Soft.lean`) computes `roundRat` of the exact
  rational sum / difference / product / quotient of the operands' values.
* `specAddC_eq …` — the independent fraction-arithmetic specification (`Model/F80Exact.lean`, what the driver prints as `S`)
  equals the model (what it prints as `M`) on every pair of classes, special values included.
-/
namespace Rlib.F80

theorem valQ_eq_zero_iff (n d : ℕ) (e : ℤ) (hd : 0 < d) : valQ n d e = 0 ↔ n = 0 := by
  constructor
  · intro h
    by_contra hn
    have := valQ_pos n d e (by omega) hd
    linarith
  · intro h; subst h; unfold valQ; simp

/-- `roundPos` depends only on the value of `n/d * 2^e`, not on how it is written -/
theorem roundPos_congr (f : Fmt) (n d n' d' : ℕ) (e e' : ℤ) (hn : 0 < n) (hd : 0 < d) (hn' : 0 < n') (hd' : 0 < d')
    (h : valQ n d e = valQ n' d' e') : roundPos f n d e = roundPos f n' d' e' := by
  have t1 := ilog2q_mono n d n' d' e e' hn hd hn' hd' h.le
  have t2 := ilog2q_mono n' d' n d e' e hn' hd' hn hd h.ge
  have ht : ilog2q n d e = ilog2q n' d' e' := by omega
  rw [roundPos_unfold, roundPos_unfold, ht]
  generalize quantum f (ilog2q n' d' e') = k
  have hr : rneScaled n d (e - k) = rneScaled n' d' (e' - k) := by
    obtain ⟨a, b, hb, hr, hab⟩ := rneScaled_eq n d (e - k) hd
    obtain ⟨a', b', hb', hr', hab'⟩ := rneScaled_eq n' d' (e' - k) hd'
    have pk := two_zpow_pos k
    rw [valQ_split n d e k, valQ_split n' d' e' k, ← hab, ← hab'] at h
    have hq : (a : ℚ) / b = a' / b' := mul_right_cancel₀ pk.ne' h
    rw [hr, hr']
    exact Nat.le_antisymm (rne_mono_q a b a' b' hb hb' hq.le) (rne_mono_q a' b' a b hb' hb hq.ge)
  rw [hr]

theorem roundQ_congr (f : Fmt) (neg : Bool) (n d n' d' : ℕ) (e e' : ℤ) (hd : 0 < d) (hd' : 0 < d')
    (h : valQ n d e = valQ n' d' e') : roundQ f neg n d e = roundQ f neg n' d' e' := by
  unfold roundQ
  by_cases hn : n = 0
  · have hn' : n' = 0 := by
      rw [← valQ_eq_zero_iff n' d' e' hd', ← h, valQ_eq_zero_iff n d e hd]; exact hn
    rw [if_pos hn, if_pos hn']
  · have hn' : n' ≠ 0 := by
      intro h0
      apply hn
      rw [← valQ_eq_zero_iff n d e hd, h, valQ_eq_zero_iff n' d' e' hd']; exact h0
    rw [if_neg hn, if_neg hn', roundPos_congr f n d n' d' e e' (by omega) hd (by omega) hd' h]

/-- "Round the rational number `q` once to format `f`, to nearest, ties to even" — the reference meaning of
    *correctly rounded*: `q` is written as its reduced fraction and handed to the specification rounding function.
    An exact zero gets the sign `negZero` (IEEE: determined by the operation, not by the value). -/
def roundRat (f : Fmt) (negZero : Bool) (q : ℚ) : Class :=
  if q = 0 then .fin ⟨negZero, 0, 0⟩ else roundQ f (decide (q < 0)) q.num.natAbs q.den 0

theorem valQ_num_den (q : ℚ) : valQ q.num.natAbs q.den 0 = |q| := by
  unfold valQ
  rw [zpow_zero, mul_one]
  have h1 : ((q.num.natAbs : ℕ) : ℚ) = |(q.num : ℚ)| := by
    rw [Nat.cast_natAbs, Int.cast_abs]
  rw [h1]
  have hd : (0 : ℚ) < q.den := by exact_mod_cast q.den_pos
  conv => rhs; rw [← Rat.num_div_den q]
  rw [abs_div, abs_of_pos hd]

/-- any way of writing `q` as `± n/d * 2^e` rounds to `roundRat q` -/
theorem roundQ_eq_roundRat (f : Fmt) (z neg : Bool) (n d : ℕ) (e : ℤ) (q : ℚ) (hd : 0 < d)
    (hq : q = (if neg then -1 else 1) * valQ n d e) (hz : n = 0 → z = neg) :
    roundQ f neg n d e = roundRat f z q := by
  unfold roundRat
  by_cases hn : n = 0
  · have : q = 0 := by rw [hq, (valQ_eq_zero_iff n d e hd).2 hn, mul_zero]
    rw [if_pos this, hz hn]
    unfold roundQ
    rw [if_pos hn]
  · have hpos := valQ_pos n d e (by omega) hd
    have hq0 : q ≠ 0 := by
      rw [hq]; cases neg <;> simp <;> linarith
    rw [if_neg hq0]
    have hsign : decide (q < 0) = neg := by
      rw [hq]; cases neg <;> simp <;> linarith
    have habs : |q| = valQ n d e := by
      rw [hq]; cases neg
      · simp [abs_of_pos hpos]
      · simp [abs_of_pos hpos]
    rw [hsign]
    apply roundQ_congr f neg n d _ _ e 0 hd q.den_pos
    rw [valQ_num_den, habs]

theorem Dy.toQ_eq (x : Dy) : x.toQ = (if x.neg then -1 else 1) * valQ x.m 1 x.e := by
  unfold Dy.toQ valQ
  cases x.neg <;> simp

/-! ### the bit-level model computes `roundRat` of the exact rational result -/

theorem roundClass_exact (f : Fmt) (x : Dy) : roundClass f (.fin x) = roundRat f x.neg x.toQ := by
  show roundQ f x.neg x.m 1 x.e = _
  exact roundQ_eq_roundRat f x.neg x.neg x.m 1 x.e _ (by omega) (Dy.toQ_eq x) (fun _ => rfl)

theorem mulC_exact (f : Fmt) (x y : Dy) :
    mulC f (.fin x) (.fin y) = roundRat f (x.neg != y.neg) (x.toQ * y.toQ) := by
  show roundQ f (x.neg != y.neg) (x.m * y.m) 1 (x.e + y.e) = _
  apply roundQ_eq_roundRat f _ _ _ 1 _ _ (by omega) _ (fun _ => rfl)
  rw [Dy.toQ_eq x, Dy.toQ_eq y]
  unfold valQ
  rw [zpow_add₀ (by norm_num : (2 : ℚ) ≠ 0)]
  push_cast
  cases x.neg <;> cases y.neg <;> simp <;> ring

theorem divC_exact (f : Fmt) (x y : Dy) (hy : y.m ≠ 0) :
    divC f (.fin x) (.fin y) = roundRat f (x.neg != y.neg) (x.toQ / y.toQ) := by
  have : divC f (.fin x) (.fin y) = roundQ f (x.neg != y.neg) x.m y.m (x.e - y.e) := by
    simp only [divC]; rw [if_neg hy]
  rw [this]
  apply roundQ_eq_roundRat f _ _ _ _ _ _ (by omega) _ (fun _ => rfl)
  rw [Dy.toQ_eq x, Dy.toQ_eq y]
  unfold valQ
  rw [zpow_sub₀ (by norm_num : (2 : ℚ) ≠ 0)]
  have hym : (y.m : ℚ) ≠ 0 := by exact_mod_cast hy
  have pe := (two_zpow_pos y.e).ne'
  cases x.neg <;> cases y.neg <;> simp <;> field_simp

theorem scaled_sum_toQ (x y : Dy) :
    (((x.scaled (Min.min x.e y.e) + y.scaled (Min.min x.e y.e) : ℤ) : ℚ)) * 2 ^ (Min.min x.e y.e) = x.toQ + y.toQ := by
  push_cast
  rw [Dy.scaled_toQ x _ (by omega), Dy.scaled_toQ y _ (by omega), ← add_mul, mul_assoc,
    ← zpow_add₀ (by norm_num : (2 : ℚ) ≠ 0), neg_add_cancel, zpow_zero, mul_one]

theorem addC_exact (f : Fmt) (x y : Dy) :
    addC f (.fin x) (.fin y) = roundRat f (x.neg && y.neg) (x.toQ + y.toQ) := by
  have hs := scaled_sum_toQ x y
  simp only [addC]
  generalize Min.min x.e y.e = k at *
  generalize x.scaled k + y.scaled k = s at *
  have pk := two_zpow_pos k
  by_cases h0 : s = 0
  · rw [if_pos h0]
    subst h0
    have : x.toQ + y.toQ = 0 := by rw [← hs]; simp
    unfold roundRat
    rw [if_pos this]
  · rw [if_neg h0]
    apply roundQ_eq_roundRat f _ _ _ 1 _ _ (by omega) _ (fun h => absurd (Int.natAbs_eq_zero.1 h) h0)
    rw [← hs]
    unfold valQ
    have hab : ((s.natAbs : ℕ) : ℚ) = |(s : ℚ)| := by rw [Nat.cast_natAbs, Int.cast_abs]
    rw [hab]
    by_cases hneg : s < 0
    · have : (s : ℚ) < 0 := by exact_mod_cast hneg
      simp [hneg, abs_of_neg this]
    · have : (0 : ℚ) ≤ s := by exact_mod_cast (by omega : 0 ≤ s)
      simp [hneg, abs_of_nonneg this]

theorem negC_fin (y : Dy) : negC (.fin y) = .fin ⟨!y.neg, y.m, y.e⟩ := rfl

theorem Dy.toQ_neg (y : Dy) : (Dy.mk (!y.neg) y.m y.e).toQ = -y.toQ := by
  unfold Dy.toQ
  cases y.neg <;> simp

theorem subC_exact (f : Fmt) (x y : Dy) :
    subC f (.fin x) (.fin y) = roundRat f (x.neg && !y.neg) (x.toQ - y.toQ) := by
  unfold subC
  rw [negC_fin, addC_exact, Dy.toQ_neg, sub_eq_add_neg]

/-! ### the fraction-arithmetic specification computes the same thing -/

theorem Dy.frac_den_pos (x : Dy) : 0 < x.frac.2 := by
  unfold Dy.frac
  simp only
  split
  · simp
  · exact Nat.two_pow_pos _

theorem Dy.frac_toQ (x : Dy) : ((x.frac.1 : ℤ) : ℚ) / (x.frac.2 : ℕ) = x.toQ := by
  obtain ⟨n, m, e⟩ := x
  unfold Dy.frac Dy.toQ
  simp only
  split
  · rename_i h
    obtain ⟨j, hj⟩ := Int.eq_ofNat_of_zero_le h
    subst hj
    rw [Int.toNat_natCast, zpow_natCast]
    cases n <;> simp
  · rename_i h
    have hj : e = -((-e).toNat : ℤ) := by omega
    conv => rhs; rw [hj, zpow_neg, zpow_natCast]
    cases n <;> simp [div_eq_mul_inv]

theorem roundFrac_eq (f : Fmt) (z : Bool) (N : ℤ) (D : ℕ) (hD : 0 < D) :
    roundFrac f z N D = roundRat f z ((N : ℚ) / D) := by
  have hDq : (0 : ℚ) < D := by exact_mod_cast hD
  unfold roundFrac
  by_cases h0 : N = 0
  · subst h0
    rw [if_pos rfl]
    unfold roundRat
    rw [if_pos (by simp)]
  · rw [if_neg h0]
    apply roundQ_eq_roundRat f _ _ _ D _ _ hD _ (fun h => absurd (Int.natAbs_eq_zero.1 h) h0)
    unfold valQ
    rw [zpow_zero, mul_one]
    have hab : ((N.natAbs : ℕ) : ℚ) = |(N : ℚ)| := by rw [Nat.cast_natAbs, Int.cast_abs]
    rw [hab]
    by_cases hneg : N < 0
    · have : (N : ℚ) < 0 := by exact_mod_cast hneg
      simp [hneg, abs_of_neg this]
      ring
    · have : (0 : ℚ) ≤ N := by exact_mod_cast (by omega : 0 ≤ N)
      simp [hneg, abs_of_nonneg this]

theorem specRoundClass_fin (f : Fmt) (x : Dy) : specRoundClass f (.fin x) = roundRat f x.neg x.toQ := by
  show roundFrac f x.neg x.frac.1 x.frac.2 = _
  rw [roundFrac_eq f _ _ _ x.frac_den_pos, Dy.frac_toQ]

theorem specAddC_fin (f : Fmt) (x y : Dy) :
    specAddC f (.fin x) (.fin y) = roundRat f (x.neg && y.neg) (x.toQ + y.toQ) := by
  show roundFrac f (x.neg && y.neg) (x.frac.1 * y.frac.2 + y.frac.1 * x.frac.2) (x.frac.2 * y.frac.2) = _
  have h1 := x.frac_den_pos
  have h2 := y.frac_den_pos
  rw [roundFrac_eq f _ _ _ (Nat.mul_pos h1 h2), ← Dy.frac_toQ x, ← Dy.frac_toQ y]
  have q1 : ((x.frac.2 : ℕ) : ℚ) ≠ 0 := by exact_mod_cast h1.ne'
  have q2 : ((y.frac.2 : ℕ) : ℚ) ≠ 0 := by exact_mod_cast h2.ne'
  congr 1
  push_cast
  field_simp

theorem specMulC_fin (f : Fmt) (x y : Dy) :
    specMulC f (.fin x) (.fin y) = roundRat f (x.neg != y.neg) (x.toQ * y.toQ) := by
  show roundFrac f (x.neg != y.neg) (x.frac.1 * y.frac.1) (x.frac.2 * y.frac.2) = _
  have h1 := x.frac_den_pos
  have h2 := y.frac_den_pos
  rw [roundFrac_eq f _ _ _ (Nat.mul_pos h1 h2), ← Dy.frac_toQ x, ← Dy.frac_toQ y]
  have q1 : ((x.frac.2 : ℕ) : ℚ) ≠ 0 := by exact_mod_cast h1.ne'
  have q2 : ((y.frac.2 : ℕ) : ℚ) ≠ 0 := by exact_mod_cast h2.ne'
  congr 1
  push_cast
  field_simp

theorem Dy.frac_num_ne_zero (y : Dy) (hy : y.m ≠ 0) : y.frac.1 ≠ 0 := by
  intro h
  have := Dy.frac_toQ y
  rw [h] at this
  simp at this
  have hq : y.toQ = 0 := this.symm
  rw [Dy.toQ_eq] at hq
  have hpos := valQ_pos y.m 1 y.e (by omega) (by omega)
  cases hn : y.neg <;> simp [hn] at hq <;> linarith

theorem specDivC_fin (f : Fmt) (x y : Dy) (hy : y.m ≠ 0) :
    specDivC f (.fin x) (.fin y) = roundRat f (x.neg != y.neg) (x.toQ / y.toQ) := by
  have hz : (Class.fin y).isZero = false := by simp [Class.isZero, hy]
  have : specDivC f (.fin x) (.fin y) =
      roundFrac f (x.neg != y.neg) (if y.frac.1 < 0 then -(x.frac.1 * y.frac.2) else x.frac.1 * y.frac.2)
        (x.frac.2 * y.frac.1.natAbs) := by
    simp only [specDivC, Class.isInf, hz, Class.sign]
    rfl
  rw [this]
  have h1 := x.frac_den_pos
  have h2 := y.frac_den_pos
  have h3 := Dy.frac_num_ne_zero y hy
  have h4 : 0 < y.frac.1.natAbs := Int.natAbs_pos.2 h3
  rw [roundFrac_eq f _ _ _ (Nat.mul_pos h1 h4), ← Dy.frac_toQ x, ← Dy.frac_toQ y]
  have q1 : ((x.frac.2 : ℕ) : ℚ) ≠ 0 := by exact_mod_cast h1.ne'
  have q2 : ((y.frac.2 : ℕ) : ℚ) ≠ 0 := by exact_mod_cast h2.ne'
  have q3 : ((y.frac.1 : ℤ) : ℚ) ≠ 0 := by exact_mod_cast h3
  have hab : ((y.frac.1.natAbs : ℕ) : ℚ) = |((y.frac.1 : ℤ) : ℚ)| := by rw [Nat.cast_natAbs, Int.cast_abs]
  congr 1
  push_cast
  rw [hab]
  by_cases hneg : y.frac.1 < 0
  · have hq : ((y.frac.1 : ℤ) : ℚ) < 0 := by exact_mod_cast hneg
    rw [if_pos hneg, abs_of_neg hq]
    field_simp
  · have hq : (0 : ℚ) < ((y.frac.1 : ℤ) : ℚ) := by
      have : 0 < y.frac.1 := by omega
      exact_mod_cast this
    rw [if_neg hneg, abs_of_pos hq]
    field_simp

/-! ### specification = model on every pair of classes (finite part above, special-value tables here) -/

theorem specRoundClass_eq (f : Fmt) (a : Class) : specRoundClass f a = roundClass f a := by
  cases a with
  | nan => rfl
  | inf s => rfl
  | fin x => rw [specRoundClass_fin, roundClass_exact]

theorem specAddC_eq (f : Fmt) (a b : Class) : specAddC f a b = addC f a b := by
  cases a with
  | nan => cases b <;> rfl
  | inf s =>
    cases b with
    | nan => rfl
    | inf t => simp [specAddC, addC, Class.isInf, Class.sign]
    | fin y => simp [specAddC, addC, Class.isInf, Class.sign]
  | fin x =>
    cases b with
    | nan => rfl
    | inf t => simp [specAddC, addC, Class.isInf, Class.sign]
    | fin y => rw [specAddC_fin, addC_exact]

theorem specSubC_eq (f : Fmt) (a b : Class) : specSubC f a b = subC f a b := specAddC_eq f a (negC b)

theorem specMulC_eq (f : Fmt) (a b : Class) : specMulC f a b = mulC f a b := by
  cases a with
  | nan => cases b <;> rfl
  | inf s =>
    cases b with
    | nan => rfl
    | inf t => simp [specMulC, mulC, Class.isInf, Class.isZero, Class.sign]
    | fin y => simp [specMulC, mulC, Class.isInf, Class.isZero, Class.sign]
  | fin x =>
    cases b with
    | nan => rfl
    | inf t => simp [specMulC, mulC, Class.isInf, Class.isZero, Class.sign]
    | fin y => rw [specMulC_fin, mulC_exact]

theorem specDivC_eq (f : Fmt) (a b : Class) : specDivC f a b = divC f a b := by
  cases a with
  | nan => cases b <;> rfl
  | inf s =>
    cases b with
    | nan => rfl
    | inf t => simp [specDivC, divC, Class.isInf]
    | fin y => simp [specDivC, divC, Class.isInf, Class.sign]
  | fin x =>
    cases b with
    | nan => rfl
    | inf t => simp [specDivC, divC, Class.isInf, Class.sign]
    | fin y =>
      by_cases hy : y.m = 0
      · simp [specDivC, divC, Class.isInf, Class.isZero, Class.sign, hy]
      · rw [specDivC_fin f x y hy, divC_exact f x y hy]

/-! ### what `roundRat` returns -/

theorem Dy.toQ_signed (s : Bool) (m : ℕ) (e : ℤ) : (Dy.mk s m e).toQ = (if s then -1 else 1) * ((m : ℚ) * 2 ^ e) := by
  unfold Dy.toQ; cases s <;> simp

/-- `roundRat f z q` for `q ≠ 0` is never NaN; a finite result has the sign of `q`, lies within half a quantum of `q`
    (the quantum being that of `q`'s binade), has at most `p` significant bits; the result is `±∞` (sign of `q`) exactly
    when the nearest-even value with unbounded exponent reaches `2^(emax+1)`. -/
theorem roundRat_spec (f : Fmt) (z : Bool) (q : ℚ) (hq : q ≠ 0) (hp : 1 ≤ f.p) (hqm : f.qmin ≤ f.emax) :
    match roundRat f z q with
    | .nan => False
    | .inf s => s = decide (q < 0) ∧ (2 : ℚ) ^ (f.emax + 1) ≤ roundVal f q.num.natAbs q.den 0
    | .fin d => d.neg = decide (q < 0) ∧ |q - d.toQ| ≤ 2 ^ d.e / 2 ∧
        d.e = quantum f (ilog2q q.num.natAbs q.den 0) ∧ d.m ≤ 2 ^ f.p ∧ (f.qmin < d.e → 2 ^ (f.p - 1) ≤ d.m) := by
  have hnum : q.num.natAbs ≠ 0 := by
    intro h; exact hq (Rat.num_eq_zero.1 (Int.natAbs_eq_zero.1 h))
  have hn : 0 < q.num.natAbs := by omega
  have hd := q.den_pos
  unfold roundRat
  rw [if_neg hq]
  unfold roundQ
  rw [if_neg hnum]
  cases h : roundPos f q.num.natAbs q.den 0 with
  | ovf =>
    exact ⟨rfl, (roundPos_ovf_iff f _ _ _ hn hd hp hqm).1 h⟩
  | fin r k =>
    obtain ⟨hv, hk⟩ := roundPos_fin f _ _ _ r k h
    have hh := roundVal_half_ulp f q.num.natAbs q.den 0 hd
    rw [hv, ← hk, valQ_num_den] at hh
    obtain ⟨n1, n2⟩ := roundVal_normal f q.num.natAbs q.den 0 hn hd hp
    have hu := roundPos_unfold f q.num.natAbs q.den 0
    rw [h] at hu
    split at hu
    · cases hu
    · injection hu with h1 h2
      rw [← h1] at n1 n2
      rw [← h2] at n2
      refine ⟨rfl, ?_, hk, n1, n2⟩
      show |q - (Dy.mk (decide (q < 0)) r k).toQ| ≤ 2 ^ k / 2
      rw [Dy.toQ_signed]
      have pos : (0 : ℚ) ≤ (r : ℚ) * 2 ^ k := by positivity
      by_cases hneg : q < 0
      · simp only [hneg, decide_true, if_true]
        rw [abs_of_neg hneg] at hh
        have : q - -1 * ((r : ℚ) * 2 ^ k) = -(-q - (r : ℚ) * 2 ^ k) := by ring
        rw [this, abs_neg]
        exact hh
      · have hpos : 0 ≤ q := le_of_not_gt hneg
        simp only [hneg, decide_false, Bool.false_eq_true, if_false, one_mul]
        rw [abs_of_nonneg hpos] at hh
        exact hh

theorem roundRat_zero (f : Fmt) (z : Bool) : roundRat f z 0 = .fin ⟨z, 0, 0⟩ := by
  unfold roundRat; rw [if_pos rfl]

end Rlib.F80
