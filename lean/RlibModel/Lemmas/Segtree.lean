import RlibModel.Model.Segtree
/-!
Helper lemmas for C01 (lazy segment tree refines a plain list).

* `Lawful I`    — the laws of an item, a `Prop`-valued record (nothing commutative anywhere).
* `den`, `WF`, `Shaped` — logical contents of a tree, well-formedness of the cached aggregates, shape.
* `ask_spec`, `modify_spec` (ported from `spikes/SegAskSpec.lean`, `spikes/SegModify.lean`), `set_spec`,
  `buildEmpty_spec`, `build_spec`.
-/
namespace Rlib.Segtree

variable {T M A : Type}

/-- The laws of a lazy segment-tree item.  `op` is only associative; `act m` and `pa x` are only required to
    distribute over `op`; modifiers need not commute. -/
structure Lawful (I : Item T M A) : Prop where
  op_assoc : ∀ a b c, I.op (I.op a b) c = I.op a (I.op b c)
  act_op   : ∀ m a b, I.act m (I.op a b) = I.op (I.act m a) (I.act m b)
  pa_op    : ∀ x a b, I.pa x (I.op a b) = I.op (I.pa x a) (I.pa x b)
  val_merge : ∀ x y, I.val (I.merge x y) = I.op (I.val x) (I.val y)
  pa_merge  : ∀ x y a, I.pa (I.merge x y) a = a
  /-- `update` (overridable; what `merge_at` calls) observes the merge of the children, whatever `self` was … -/
  val_update : ∀ p x y, I.val (I.update p x y) = I.op (I.val x) (I.val y)
  /-- … and leaves no pending tag behind -/
  pa_update  : ∀ p x y a, I.pa (I.update p x y) a = a
  val_modify : ∀ x m, I.val (I.modify x m) = I.act m (I.val x)
  pa_modify  : ∀ x m a, I.pa (I.modify x m) a = I.act m (I.pa x a)
  push_val0 : ∀ p l r, I.val (I.push p l r).1 = I.val p
  push_pa0  : ∀ p l r a, I.pa (I.push p l r).1 a = a
  push_val1 : ∀ p l r, I.val (I.push p l r).2.1 = I.pa p (I.val l)
  push_pa1  : ∀ p l r a, I.pa (I.push p l r).2.1 a = I.pa p (I.pa l a)
  push_val2 : ∀ p l r, I.val (I.push p l r).2.2 = I.pa p (I.val r)
  push_pa2  : ∀ p l r a, I.pa (I.push p l r).2.2 a = I.pa p (I.pa r a)

/-- semigroup lifted to a monoid by adjoining `none` -/
def oplus (I : Item T M A) : Option A → Option A → Option A
  | none, b => b
  | a, none => a
  | some a, some b => some (I.op a b)

variable (I : Item T M A)

theorem oplus_assoc (L : Lawful I) (a b c : Option A) :
    oplus I (oplus I a b) c = oplus I a (oplus I b c) := by
  cases a <;> cases b <;> cases c <;> simp [oplus, L.op_assoc]

@[simp] theorem oplus_none_left (a : Option A) : oplus I none a = a := by cases a <;> rfl
@[simp] theorem oplus_none_right (a : Option A) : oplus I a none = a := by cases a <;> rfl

/-- in-order fold of a list of observable values (`none` for the empty list) -/
def foldO (xs : List A) : Option A := xs.foldr (fun a acc => oplus I (some a) acc) none

theorem foldO_cons (a : A) (as : List A) : foldO I (a :: as) = oplus I (some a) (foldO I as) := rfl
theorem oplus_some_some (a b : A) : oplus I (some a) (some b) = some (I.op a b) := rfl

theorem foldO_append (L : Lawful I) (xs ys : List A) :
    foldO I (xs ++ ys) = oplus I (foldO I xs) (foldO I ys) := by
  induction xs with
  | nil => simp [foldO]
  | cons x xs ih =>
    simp only [foldO, List.cons_append, List.foldr_cons] at *
    rw [ih, oplus_assoc I L]

/-- a map that distributes over `op` commutes with the fold -/
theorem foldO_map_hom (f : A → A) (hf : ∀ a b, f (I.op a b) = I.op (f a) (f b)) (xs : List A) :
    foldO I (xs.map f) = (foldO I xs).map f := by
  induction xs with
  | nil => rfl
  | cons a as ih =>
    simp only [foldO, List.map_cons, List.foldr_cons] at *
    rw [ih]
    cases List.foldr (fun a acc => oplus I (some a) acc) none as <;> simp [oplus, hf]

theorem foldO_map_pa (L : Lawful I) (x : T) (xs : List A) :
    foldO I (xs.map (I.pa x)) = (foldO I xs).map (I.pa x) := foldO_map_hom I _ (L.pa_op x) xs

theorem foldO_map_act (L : Lawful I) (md : M) (xs : List A) :
    foldO I (xs.map (I.act md)) = (foldO I xs).map (I.act md) := foldO_map_hom I _ (L.act_op md) xs

theorem foldO_eq_none : ∀ xs : List A, foldO I xs = none → xs = [] := by
  intro xs; cases xs with
  | nil => intro _; rfl
  | cons a as =>
    intro h; rw [foldO_cons] at h
    cases h2 : foldO I as with
    | none => rw [h2, oplus_none_right] at h; cases h
    | some b => rw [h2, oplus_some_some] at h; cases h

theorem foldl_of_foldO (L : Lawful I) : ∀ (xs : List A) (c a : A), foldO I xs = some a → xs.foldl I.op c = I.op c a := by
  intro xs
  induction xs with
  | nil => intro c a h; simp [foldO] at h
  | cons x xs ih =>
    intro c a h
    rw [foldO_cons] at h
    cases h2 : foldO I xs with
    | none =>
      have := foldO_eq_none I xs h2; subst this
      rw [h2, oplus_none_right] at h
      cases h; rfl
    | some b =>
      rw [h2, oplus_some_some] at h
      cases h
      rw [List.foldl_cons, ih (I.op c x) b h2, L.op_assoc]

/-- logical contents (as observable values), left to right -/
def den : Tree T → List A
  | .leaf v => [I.val v]
  | .node v l r => (den l ++ den r).map (I.pa v)

theorem den_length (t : Tree T) : (den I t).length = t.size := by
  induction t with
  | leaf v => rfl
  | node v l r ihl ihr => simp [den, Tree.size, ihl, ihr]

/-- every inner node caches the fold of its logical contents -/
def WF : Tree T → Prop
  | .leaf _ => True
  | .node v l r => WF l ∧ WF r ∧ some (I.val v) = foldO I (den I (.node v l r))

theorem WF_root (t : Tree T) (h : WF I t) : some (I.val t.root) = foldO I (den I t) := by
  cases t with
  | leaf v => simp [den, foldO, Tree.root, oplus]
  | node v l r => exact h.2.2

/-- Shape: covers exactly `[vl, vr]` and splits at `(vl+vr)/2` like the code. -/
def Shaped : Tree T → Nat → Nat → Prop
  | .leaf _, vl, vr => vl = vr
  | .node _ l r, vl, vr => vl < vr ∧ Shaped l vl ((vl + vr) / 2) ∧ Shaped r ((vl + vr) / 2 + 1) vr

theorem Shaped_size (t : Tree T) (vl vr : Nat) (h : Shaped t vl vr) : t.size = vr - vl + 1 ∧ vl ≤ vr := by
  induction t generalizing vl vr with
  | leaf v => simp [Shaped] at h; simp [Tree.size, h]
  | node v l r ihl ihr =>
    obtain ⟨h1, h2, h3⟩ := h
    have := ihl _ _ h2; have := ihr _ _ h3
    simp [Tree.size]; omega

theorem den_setRoot (t : Tree T) (x : T) (f : A → A)
    (hv : I.val x = f (I.val t.root)) (hp : ∀ a, I.pa x a = f (I.pa t.root a)) :
    den I (t.setRoot x) = (den I t).map f := by
  cases t with
  | leaf v => simp [Tree.setRoot, den, hv, Tree.root]
  | node v l r =>
    simp only [Tree.setRoot, den, List.map_map, Tree.root] at *
    apply List.map_congr_left; intro a _; simp [hp]

theorem Shaped_setRoot (t : Tree T) (x : T) (vl vr) : Shaped (t.setRoot x) vl vr ↔ Shaped t vl vr := by
  cases t <;> simp [Tree.setRoot, Shaped]

theorem den_pushAt (L : Lawful I) (t : Tree T) : den I (pushAt I t) = den I t := by
  cases t with
  | leaf v => rfl
  | node v l r =>
    simp only [pushAt, den]
    rw [den_setRoot I l _ (I.pa v) (L.push_val1 _ _ _) (L.push_pa1 _ _ _),
        den_setRoot I r _ (I.pa v) (L.push_val2 _ _ _) (L.push_pa2 _ _ _)]
    have : (I.pa (I.push v l.root r.root).1 ∘ I.pa v) = I.pa v := by
      funext a; simp [L.push_pa0]
    simp [this]

theorem WF_setRoot (t : Tree T) (x : T) (f : A → A)
    (hv : I.val x = f (I.val t.root)) (hp : ∀ a, I.pa x a = f (I.pa t.root a))
    (hf : ∀ a b, f (I.op a b) = I.op (f a) (f b))
    (h : WF I t) : WF I (t.setRoot x) := by
  cases t with
  | leaf v => trivial
  | node v l r =>
    refine ⟨h.1, h.2.1, ?_⟩
    have e := den_setRoot I (.node v l r) x f hv hp
    simp only [Tree.setRoot] at e
    rw [e, hv]
    have h3 := h.2.2
    simp only [Tree.root]
    rw [foldO_map_hom I f hf, ← h3]; rfl

theorem WF_pushAt (L : Lawful I) (t : Tree T) (h : WF I t) : WF I (pushAt I t) := by
  cases t with
  | leaf v => trivial
  | node v l r =>
    obtain ⟨hl, hr, hv⟩ := h
    refine ⟨WF_setRoot I l _ (I.pa v) (L.push_val1 _ _ _) (L.push_pa1 _ _ _) (L.pa_op v) hl,
            WF_setRoot I r _ (I.pa v) (L.push_val2 _ _ _) (L.push_pa2 _ _ _) (L.pa_op v) hr, ?_⟩
    have := den_pushAt I L (.node v l r)
    simp only [pushAt] at this
    rw [this, L.push_val0]; exact hv

/-! ### slices -/

theorem slice_all {α : Type} (xs : List α) : slice xs 0 xs.length = xs := by simp [slice]

theorem slice_append_left {α : Type} (xs ys : List α) (a b : Nat) (h : b ≤ xs.length) :
    slice (xs ++ ys) a b = slice xs a b := by
  simp only [slice]
  by_cases ha : a ≤ xs.length
  · rw [List.drop_append_of_le_length ha, List.take_append_of_le_length (by simp; omega)]
  · have : b - a = 0 := by omega
    simp [this]

theorem slice_append_right {α : Type} (xs ys : List α) (a b : Nat) (h : xs.length ≤ a) :
    slice (xs ++ ys) a b = slice ys (a - xs.length) (b - xs.length) := by
  simp only [slice]
  rw [List.drop_append, List.drop_eq_nil_of_le h]
  simp; congr 1; omega

theorem slice_append_mid {α : Type} (xs ys : List α) (a b : Nat) (ha : a ≤ xs.length) (hb : xs.length ≤ b) :
    slice (xs ++ ys) a b = slice xs a xs.length ++ slice ys 0 (b - xs.length) := by
  simp only [slice]
  rw [List.drop_append_of_le_length ha, List.take_append]
  have e1 : List.take (b - a) (List.drop a xs) = List.take (xs.length - a) (List.drop a xs) := by
    rw [List.take_of_length_le (by simp; omega), List.take_of_length_le (by simp)]
  have e2 : b - a - (List.drop a xs).length = b - xs.length := by simp; omega
  rw [e1, e2]; simp

theorem slice_map {α β : Type} (f : α → β) (xs : List α) (a b : Nat) :
    slice (xs.map f) a b = (slice xs a b).map f := by
  simp [slice, List.map_drop, List.map_take]

theorem slice_length {α : Type} (xs : List α) (a b : Nat) (h : b ≤ xs.length) :
    (slice xs a b).length = b - a := by
  simp [slice]; omega

/-! ### `ask` -/

/-- after a push, the node's contents are the plain concatenation of the children's -/
theorem den_pushed (L : Lawful I) (v : T) (lt rt : Tree T) :
    let p := I.push v lt.root rt.root
    den I (.node v lt rt) = den I (lt.setRoot p.2.1) ++ den I (rt.setRoot p.2.2) := by
  intro p
  have := den_pushAt I L (.node v lt rt)
  simp only [pushAt, den] at this
  have hid : (I.pa (I.push v lt.root rt.root).1) = id := by funext a; simp [L.push_pa0]
  simp only [den, ← this, hid, List.map_id, p]

theorem WF_pushed (L : Lawful I) (v : T) (lt rt : Tree T) (h : WF I (.node v lt rt)) :
    let p := I.push v lt.root rt.root
    WF I (lt.setRoot p.2.1) ∧ WF I (rt.setRoot p.2.2) := by
  have := WF_pushAt I L _ h
  exact ⟨this.1, this.2.1⟩

theorem WF_rebuild (v v' : T) (lt rt lt' rt' : Tree T) (h : WF I (.node v lt rt))
    (hv : I.val v' = I.val v) (hp : ∀ a, I.pa v' a = a)
    (hd : den I (.node v lt rt) = den I lt' ++ den I rt') (hl : WF I lt') (hr : WF I rt') :
    WF I (.node v' lt' rt') ∧ den I (.node v' lt' rt') = den I (.node v lt rt) := by
  have hid : I.pa v' = id := funext hp
  have e : den I (.node v' lt' rt') = den I (.node v lt rt) := by
    rw [hd]; simp [den, hid]
  exact ⟨⟨hl, hr, by rw [e, hv]; exact h.2.2⟩, e⟩

theorem ask_spec (L : Lawful I) (t : Tree T) (l r vl vr : Nat) (hwf : WF I t) (hs : Shaped t vl vr)
    (h1 : vl ≤ l) (h2 : l ≤ r) (h3 : r ≤ vr) :
    some (I.val (ask I t l r vl vr).1) = foldO I (slice (den I t) (l - vl) (r + 1 - vl)) ∧
    den I (ask I t l r vl vr).2 = den I t ∧ WF I (ask I t l r vl vr).2 ∧
    Shaped (ask I t l r vl vr).2 vl vr := by
  induction t, l, r, vl, vr using ask.induct I with
  | case1 l r vl vr v =>
    simp [Shaped] at hs; subst hs
    have : l = vl := by omega
    have : r = vl := by omega
    subst_vars
    simp [ask, den, slice, foldO, oplus, WF, Shaped]
  | case2 l r vl vr v lt rt hc =>
    obtain ⟨rfl, rfl⟩ := hc
    rw [ask]; simp only [and_self, if_true]
    refine ⟨?_, trivial, hwf, hs⟩
    have hsz := (Shaped_size _ _ _ hs).1
    have := den_length I (.node v lt rt)
    have e : r + 1 - l = (den I (.node v lt rt)).length := by omega
    rw [Nat.sub_self, e, slice_all]; exact hwf.2.2
  | case3 l r vl vr v lt rt hc p lt' m hrm ih =>
    rw [ask]; simp only [hc, if_false]
    simp only [show r ≤ (vl + vr) / 2 from hrm, if_true]
    obtain ⟨hs1, hs2, hs3⟩ := hs
    have hwl := (WF_pushed I L v lt rt hwf).1
    have hwr := (WF_pushed I L v lt rt hwf).2
    have hsl : Shaped lt' vl m := (Shaped_setRoot _ _ _ _).2 hs2
    obtain ⟨i1, i2, i3, i4⟩ := ih hwl hsl h1 h2 hrm
    have hd := den_pushed I L v lt rt
    have hsz := (Shaped_size _ _ _ hsl).1
    have hlen := den_length I lt'
    obtain ⟨w1, w2⟩ := WF_rebuild I v p.1 lt rt (ask I lt' l r vl m).2 (rt.setRoot p.2.2) hwf
      (L.push_val0 _ _ _) (L.push_pa0 _ _ _) (by rw [i2]; exact hd) i3 hwr
    refine ⟨?_, w2, w1, hs1, i4, (Shaped_setRoot _ _ _ _).2 hs3⟩
    rw [i1, hd, slice_append_left]
    rw [hlen, hsz]; omega
  | case4 l r vl vr v lt rt hc p rt' m hrm hlm ih =>
    rw [ask]; simp only [hc, if_false]
    simp only [show ¬ r ≤ (vl + vr) / 2 from hrm, show l > (vl + vr) / 2 from hlm, if_true, if_false]
    obtain ⟨hs1, hs2, hs3⟩ := hs
    have hwl := (WF_pushed I L v lt rt hwf).1
    have hwr := (WF_pushed I L v lt rt hwf).2
    have hsr : Shaped rt' (m+1) vr := (Shaped_setRoot _ _ _ _).2 hs3
    have hsl : Shaped (lt.setRoot p.2.1) vl m := (Shaped_setRoot _ _ _ _).2 hs2
    obtain ⟨i1, i2, i3, i4⟩ := ih hwr hsr hlm h2 h3
    have hd := den_pushed I L v lt rt
    have hsz := (Shaped_size _ _ _ hsl).1
    have hlen := den_length I (lt.setRoot p.2.1)
    obtain ⟨w1, w2⟩ := WF_rebuild I v p.1 lt rt (lt.setRoot p.2.1) (ask I rt' l r (m+1) vr).2 hwf
      (L.push_val0 _ _ _) (L.push_pa0 _ _ _) (by rw [i2]; exact hd) hwl i3
    refine ⟨?_, w2, w1, hs1, (Shaped_setRoot _ _ _ _).2 hs2, i4⟩
    rw [i1, hd, slice_append_right _ _ _ _ (by rw [hlen, hsz]; omega)]
    rw [hlen, hsz]; congr 2 <;> omega
  | case5 l r vl vr v lt rt hc p lt' rt' m hrm hlm ih1 ih2 =>
    rw [ask]; simp only [hc, if_false]
    simp only [show ¬ r ≤ (vl + vr) / 2 from hrm, show ¬ l > (vl + vr) / 2 from hlm, if_false]
    obtain ⟨hs1, hs2, hs3⟩ := hs
    have hwl := (WF_pushed I L v lt rt hwf).1
    have hwr := (WF_pushed I L v lt rt hwf).2
    have hsr : Shaped rt' (m+1) vr := (Shaped_setRoot _ _ _ _).2 hs3
    have hsl : Shaped lt' vl m := (Shaped_setRoot _ _ _ _).2 hs2
    obtain ⟨i1, i2, i3, i4⟩ := ih1 hwl hsl h1 (by omega) (Nat.le_refl _)
    obtain ⟨j1, j2, j3, j4⟩ := ih2 hwr hsr (Nat.le_refl _) (by omega) h3
    have hd := den_pushed I L v lt rt
    have hsz := (Shaped_size _ _ _ hsl).1
    have hlen := den_length I lt'
    obtain ⟨w1, w2⟩ := WF_rebuild I v p.1 lt rt (ask I lt' l m vl m).2 (ask I rt' (m+1) r (m+1) vr).2 hwf
      (L.push_val0 _ _ _) (L.push_pa0 _ _ _) (by rw [i2, j2]; exact hd) i3 j3
    refine ⟨?_, w2, w1, hs1, i4, j4⟩
    rw [hd, slice_append_mid _ _ _ _ (by rw [hlen, hsz]; omega) (by rw [hlen, hsz]; omega),
        foldO_append I L, L.val_merge]
    have e1 : slice (den I lt') (l - vl) (den I lt').length = slice (den I lt') (l - vl) (m + 1 - vl) := by
      rw [hlen, hsz]; congr 1; omega
    have e2 : slice (den I rt') 0 (r + 1 - vl - (den I lt').length) = slice (den I rt') (m + 1 - (m + 1)) (r + 1 - (m + 1)) := by
      rw [hlen, hsz]; congr 1 <;> omega
    rw [e1, e2, ← i1, ← j1]; rfl

/-! ### `modify` -/

theorem mapRange_all {α : Type} (f : α → α) (xs : List α) : mapRange f 0 xs.length xs = xs.map f := by
  simp [mapRange, slice]

theorem mapRange_append_left {α : Type} (f : α → α) (xs ys : List α) (a b : Nat) (hab : a ≤ b) (h : b ≤ xs.length) :
    mapRange f a b (xs ++ ys) = mapRange f a b xs ++ ys := by
  simp only [mapRange, slice_append_left xs ys a b h]
  rw [List.take_append_of_le_length (by omega), List.drop_append_of_le_length h]
  simp

theorem mapRange_append_right {α : Type} (f : α → α) (xs ys : List α) (a b : Nat) (hab : a ≤ b) (h : xs.length ≤ a) :
    mapRange f a b (xs ++ ys) = xs ++ mapRange f (a - xs.length) (b - xs.length) ys := by
  simp only [mapRange, slice_append_right xs ys a b h]
  rw [List.take_append, List.take_of_length_le h, List.drop_append, List.drop_eq_nil_of_le (by omega)]
  simp

theorem mapRange_append_mid {α : Type} (f : α → α) (xs ys : List α) (a b : Nat) (ha : a ≤ xs.length) (hb : xs.length ≤ b) :
    mapRange f a b (xs ++ ys) = mapRange f a xs.length xs ++ mapRange f 0 (b - xs.length) ys := by
  simp only [mapRange, slice_append_mid xs ys a b ha hb]
  rw [List.take_append_of_le_length ha, List.drop_append, List.drop_eq_nil_of_le hb]
  simp

/-- a modifier applied at a node is the modifier applied to every element below it -/
theorem modify_node (L : Lawful I) (v : T) (lt rt : Tree T) (md : M) (hwf : WF I (.node v lt rt)) :
    den I (.node (I.modify v md) lt rt) = (den I (.node v lt rt)).map (I.act md) ∧
    WF I (.node (I.modify v md) lt rt) := by
  have e : den I (.node (I.modify v md) lt rt) = (den I (.node v lt rt)).map (I.act md) := by
    simp only [den, List.map_map]
    apply List.map_congr_left; intro a _; simp [L.pa_modify]
  refine ⟨e, hwf.1, hwf.2.1, ?_⟩
  rw [e, foldO_map_act I L, ← hwf.2.2, L.val_modify]; rfl

theorem mergeAt_spec (L : Lawful I) (v : T) (l r : Tree T) (hl : WF I l) (hr : WF I r) :
    den I (mergeAt I (.node v l r)) = den I l ++ den I r ∧ WF I (mergeAt I (.node v l r)) := by
  have hid : I.pa (I.update v l.root r.root) = id := by funext a; simp [L.pa_update]
  have e : den I (mergeAt I (.node v l r)) = den I l ++ den I r := by simp [mergeAt, den, hid]
  refine ⟨e, hl, hr, ?_⟩
  have := e; simp only [mergeAt] at this
  rw [this, foldO_append I L, ← WF_root I l hl, ← WF_root I r hr, L.val_update]; rfl

theorem Shaped_mergeAt (v : T) (l r : Tree T) (vl vr : Nat) :
    Shaped (mergeAt I (.node v l r)) vl vr ↔ Shaped (.node v l r) vl vr := by
  simp [mergeAt, Shaped]

theorem modify_spec (L : Lawful I) (md : M) (t : Tree T) (l r vl vr : Nat) (hwf : WF I t) (hs : Shaped t vl vr)
    (h1 : vl ≤ l) (h2 : l ≤ r) (h3 : r ≤ vr) :
    den I (modifyI I t l r md vl vr) = mapRange (I.act md) (l - vl) (r + 1 - vl) (den I t) ∧
    WF I (modifyI I t l r md vl vr) ∧ Shaped (modifyI I t l r md vl vr) vl vr := by
  induction t, l, r, vl, vr using modifyI.induct I with
  | case1 l r vl vr v =>
    simp only [Shaped] at hs; subst hs
    have : l = vl := by omega
    have : r = vl := by omega
    subst_vars
    rw [modifyI]
    simp [den, mapRange, slice, WF, Shaped, L.val_modify]
  | case2 l r vl vr v lt rt hc =>
    obtain ⟨rfl, rfl⟩ := hc
    rw [modifyI, if_pos ⟨rfl, rfl⟩]
    obtain ⟨e, w⟩ := modify_node I L v lt rt md hwf
    refine ⟨?_, w, hs⟩
    have hsz := (Shaped_size _ _ _ hs).1
    have hlen := den_length I (.node v lt rt)
    rw [e, Nat.sub_self, show r + 1 - l = (den I (.node v lt rt)).length by omega, mapRange_all]
  | case3 l r vl vr v lt rt hc p lt' m hrm ih =>
    obtain ⟨hs1, hs2, hs3⟩ := hs
    have hwl := (WF_pushed I L v lt rt hwf).1
    have hwr := (WF_pushed I L v lt rt hwf).2
    have hsl : Shaped lt' vl m := (Shaped_setRoot _ _ _ _).2 hs2
    obtain ⟨i1, i2, i3⟩ := ih hwl hsl h1 h2 hrm
    have hd := den_pushed I L v lt rt
    have hsz := (Shaped_size _ _ _ hsl).1
    have hlen := den_length I lt'
    rw [modifyI, if_neg hc, if_pos hrm]
    obtain ⟨e, w⟩ := mergeAt_spec I L p.1 (modifyI I lt' l r md vl m) (rt.setRoot p.2.2) i2 hwr
    refine ⟨?_, w, (Shaped_mergeAt I _ _ _ _ _).2 ⟨hs1, i3, (Shaped_setRoot _ _ _ _).2 hs3⟩⟩
    rw [e, i1, hd, mapRange_append_left _ _ _ _ _ (by omega) (by rw [hlen, hsz]; omega)]
  | case4 l r vl vr v lt rt hc p rt' m hrm hlm ih =>
    obtain ⟨hs1, hs2, hs3⟩ := hs
    have hwl := (WF_pushed I L v lt rt hwf).1
    have hwr := (WF_pushed I L v lt rt hwf).2
    have hsl : Shaped (lt.setRoot p.2.1) vl m := (Shaped_setRoot _ _ _ _).2 hs2
    have hsr : Shaped rt' (m+1) vr := (Shaped_setRoot _ _ _ _).2 hs3
    obtain ⟨i1, i2, i3⟩ := ih hwr hsr hlm h2 h3
    have hd := den_pushed I L v lt rt
    have hsz := (Shaped_size _ _ _ hsl).1
    have hlen := den_length I (lt.setRoot p.2.1)
    rw [modifyI, if_neg hc, if_neg hrm, if_pos hlm]
    obtain ⟨e, w⟩ := mergeAt_spec I L p.1 (lt.setRoot p.2.1) (modifyI I rt' l r md (m+1) vr) hwl i2
    refine ⟨?_, w, (Shaped_mergeAt I _ _ _ _ _).2 ⟨hs1, hsl, i3⟩⟩
    rw [e, i1, hd, mapRange_append_right _ _ _ _ _ (by omega) (by rw [hlen, hsz]; omega), hlen, hsz]
    congr 2 <;> omega
  | case5 l r vl vr v lt rt hc p lt' rt' m hrm hlm ih1 ih2 =>
    obtain ⟨hs1, hs2, hs3⟩ := hs
    have hwl := (WF_pushed I L v lt rt hwf).1
    have hwr := (WF_pushed I L v lt rt hwf).2
    have hsl : Shaped lt' vl m := (Shaped_setRoot _ _ _ _).2 hs2
    have hsr : Shaped rt' (m+1) vr := (Shaped_setRoot _ _ _ _).2 hs3
    obtain ⟨i1, i2, i3⟩ := ih1 hwl hsl h1 (by omega) (Nat.le_refl _)
    obtain ⟨j1, j2, j3⟩ := ih2 hwr hsr (Nat.le_refl _) (by omega) h3
    have hd := den_pushed I L v lt rt
    have hsz := (Shaped_size _ _ _ hsl).1
    have hlen := den_length I lt'
    rw [modifyI, if_neg hc, if_neg hrm, if_neg hlm]
    obtain ⟨e, w⟩ := mergeAt_spec I L p.1 (modifyI I lt' l m md vl m) (modifyI I rt' (m+1) r md (m+1) vr) i2 j2
    refine ⟨?_, w, (Shaped_mergeAt I _ _ _ _ _).2 ⟨hs1, i3, j3⟩⟩
    rw [e, i1, j1, hd, mapRange_append_mid _ _ _ _ _ (by rw [hlen, hsz]; omega) (by rw [hlen, hsz]; omega),
      hlen, hsz]
    congr 2 <;> omega

/-! ### `set` -/

theorem set_spec (L : Lawful I) (x : T) (t : Tree T) (ind vl vr : Nat) (hwf : WF I t) (hs : Shaped t vl vr)
    (h1 : vl ≤ ind) (h2 : ind ≤ vr) :
    den I (setI I t ind x vl vr) = (den I t).set (ind - vl) (I.val x) ∧
    WF I (setI I t ind x vl vr) ∧ Shaped (setI I t ind x vl vr) vl vr := by
  induction t, vl, vr using setI.induct I ind with
  | case1 vl vr v =>
    simp only [Shaped] at hs; subst hs
    have : ind = vl := by omega
    subst this
    rw [setI]
    simp [den, WF, Shaped]
  | case2 vl vr v lt rt p lt' m him ih =>
    obtain ⟨hs1, hs2, hs3⟩ := hs
    have hwl := (WF_pushed I L v lt rt hwf).1
    have hwr := (WF_pushed I L v lt rt hwf).2
    have hsl : Shaped lt' vl m := (Shaped_setRoot _ _ _ _).2 hs2
    obtain ⟨i1, i2, i3⟩ := ih hwl hsl h1 him
    have hd := den_pushed I L v lt rt
    have hsz := (Shaped_size _ _ _ hsl).1
    have hlen := den_length I lt'
    rw [setI, if_pos him]
    obtain ⟨e, w⟩ := mergeAt_spec I L p.1 (setI I lt' ind x vl m) (rt.setRoot p.2.2) i2 hwr
    refine ⟨?_, w, (Shaped_mergeAt I _ _ _ _ _).2 ⟨hs1, i3, (Shaped_setRoot _ _ _ _).2 hs3⟩⟩
    rw [e, i1, hd, List.set_append_left _ _ (by rw [hlen, hsz]; omega)]
  | case3 vl vr v lt rt p rt' m him ih =>
    obtain ⟨hs1, hs2, hs3⟩ := hs
    have hwl := (WF_pushed I L v lt rt hwf).1
    have hwr := (WF_pushed I L v lt rt hwf).2
    have hsl : Shaped (lt.setRoot p.2.1) vl m := (Shaped_setRoot _ _ _ _).2 hs2
    have hsr : Shaped rt' (m+1) vr := (Shaped_setRoot _ _ _ _).2 hs3
    obtain ⟨i1, i2, i3⟩ := ih hwr hsr (by omega) h2
    have hd := den_pushed I L v lt rt
    have hsz := (Shaped_size _ _ _ hsl).1
    have hlen := den_length I (lt.setRoot p.2.1)
    rw [setI, if_neg him]
    obtain ⟨e, w⟩ := mergeAt_spec I L p.1 (lt.setRoot p.2.1) (setI I rt' ind x (m+1) vr) hwl i2
    refine ⟨?_, w, (Shaped_mergeAt I _ _ _ _ _).2 ⟨hs1, hsl, i3⟩⟩
    rw [e, i1, hd, List.set_append_right _ _ (by rw [hlen, hsz]; omega), hlen, hsz]
    congr 2; omega

/-! ### constructors -/

theorem buildEmpty_spec (L : Lawful I) (v : T) (l r : Nat) (h : l ≤ r) :
    WF I (buildEmpty I v l r) ∧ Shaped (buildEmpty I v l r) l r ∧
    den I (buildEmpty I v l r) = List.replicate (r - l + 1) (I.val v) := by
  induction l, r using buildEmpty.induct with
  | case1 l r hlt ih1 ih2 =>
    obtain ⟨a1, a2, a3⟩ := ih1 (by omega)
    obtain ⟨b1, b2, b3⟩ := ih2 (by omega)
    rw [buildEmpty, dif_pos hlt]
    obtain ⟨e, w⟩ := mergeAt_spec I L v _ _ a1 b1
    refine ⟨w, (Shaped_mergeAt I _ _ _ _ _).2 ⟨hlt, a2, b2⟩, ?_⟩
    rw [e, a3, b3, List.replicate_append_replicate]
    congr 1; omega
  | case2 l r hlt =>
    have : l = r := by omega
    subst this
    rw [buildEmpty, dif_neg hlt]
    simp [WF, Shaped, den]

theorem build_spec (L : Lawful I) (d : T) : ∀ (k l r : Nat) (xs ys : List T), r - l = k → l ≤ r →
    xs.length = r - l + 1 →
    ∃ t, build I d l r (xs ++ ys) = .ok (t, ys) ∧ WF I t ∧ Shaped t l r ∧ den I t = xs.map I.val := by
  intro k
  induction k using Nat.strongRecOn with
  | ind k ih =>
    intro l r xs ys hk hlr hlen
    by_cases hlt : l < r
    · have hm1 : (l + r) / 2 - l < k := by omega
      have hm2 : r - ((l + r) / 2 + 1) < k := by omega
      -- split the input
      have hx : xs = xs.take ((l + r) / 2 - l + 1) ++ xs.drop ((l + r) / 2 - l + 1) := (List.take_append_drop _ _).symm
      obtain ⟨t1, e1, w1, s1, d1⟩ := ih _ hm1 l ((l + r) / 2) (xs.take ((l + r) / 2 - l + 1))
        (xs.drop ((l + r) / 2 - l + 1) ++ ys) rfl (by omega) (by rw [List.length_take]; omega)
      obtain ⟨t2, e2, w2, s2, d2⟩ := ih _ hm2 ((l + r) / 2 + 1) r (xs.drop ((l + r) / 2 - l + 1)) ys rfl (by omega)
        (by rw [List.length_drop]; omega)
      refine ⟨mergeAt I (.node d t1 t2), ?_, ?_⟩
      · rw [build.eq_def, dif_pos hlt]
        have e1' : build I d l ((l + r) / 2) (xs ++ ys) = .ok (t1, xs.drop ((l + r) / 2 - l + 1) ++ ys) := by
          rw [← e1, ← List.append_assoc, List.take_append_drop]
        rw [e1']; simp only; rw [e2]
      · obtain ⟨e, w⟩ := mergeAt_spec I L d t1 t2 w1 w2
        refine ⟨w, (Shaped_mergeAt I _ _ _ _ _).2 ⟨hlt, s1, s2⟩, ?_⟩
        rw [e, d1, d2, ← List.map_append, List.take_append_drop]
    · have : l = r := by omega
      subst this
      match xs, hlen with
      | [], h => simp at h
      | x :: y :: rest, h => simp at h
      | [x], _ =>
        refine ⟨.leaf x, ?_, trivial, rfl, rfl⟩
        rw [build.eq_def, dif_neg hlt]; rfl

end Rlib.Segtree
