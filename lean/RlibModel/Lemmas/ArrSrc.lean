import RlibModel.Generated.ArrPrelude
import RlibModel.Lemmas.VecSrc
/-!
# Arrays / slices of the translator vs. the `List Nat` shapes and words of the hand-written models

`embl` embeds a list of naturals (a `[usize; D]` shape or index of `Model/Tensor.lean`, the `[u64; N]` words of `Model/Bitset.lean`)
into the translator's reading, an `Array Int`; the lemmas say what checked indexing / stores and the checked `usize` operations do on
embedded values.  Shared by `Lemmas/TensorSrc.lean` and `Lemmas/BitsetSrc.lean`.
-/
set_option linter.unusedSimpArgs false
set_option linter.unusedVariables false
namespace Rlib.SrcVec
open Rlib

/-- a `[usize; D]` of the model (a list of naturals) as the translator reads it (an `Array Int`) -/
def embl (l : List Nat) : Array Int := (l.map (fun (x : Nat) => (x : Int))).toArray

theorem embl_eq (l : List Nat) : embl l = emb l.toArray := by simp [embl, emb]

@[simp] theorem size_embl (l : List Nat) : (embl l).size = l.length := by simp [embl]

theorem embl_inj {a b : List Nat} (h : embl a = embl b) : a = b := by
  unfold embl at h
  have h' : a.map (fun (x : Nat) => (x : Int)) = b.map (fun (x : Nat) => (x : Int)) := by simpa using h
  clear h
  induction a generalizing b with
  | nil => cases b <;> simp_all
  | cons x xs ih =>
    cases b with
    | nil => simp at h'
    | cons y ys =>
      simp only [List.map_cons, List.cons.injEq] at h'
      rw [ih h'.2]
      have : x = y := by exact_mod_cast h'.1
      rw [this]

theorem index_embl (l : List Nat) (i : Nat) :
    SrcVec.index (embl l) (i : Int) = if h : i < l.length then .ok ((l[i] : Nat) : Int) else .error .index := by
  rw [embl_eq, index_emb]
  simp

abbrev usizeT : IntTy := IntTy.mk false 64

theorem checked_nat (z : Nat) : checked usizeT (z : Int) = if z < 2 ^ 64 then .ok (z : Int) else .error .overflow := by
  by_cases h : z < 2 ^ 64
  · rw [if_pos h]; exact checked_usize (by omega) (by exact_mod_cast h)
  · rw [if_neg h]
    have : usizeT.fits (z : Int) = false := by
      simp only [IntTy.fits, IntTy.minVal, IntTy.maxVal, usizeT]
      simp
      omega
    simp [checked, this]

theorem store_embl (l : List Nat) (i x : Nat) :
    SrcVec.store (embl l) (i : Int) (x : Int) = if i < l.length then .ok (embl (l.set i x)) else .error .index := by
  rw [embl_eq, store_emb]
  by_cases h : i < l.length
  · simp [h, embl_eq]
  · simp [h]

theorem wrapU_cast (n : Nat) (h : n < 2 ^ 64) : wrapU 64 (n : Int) = (n : Int) := by
  unfold wrapU
  exact Int.emod_eq_of_lt (by omega) (by exact_mod_cast h)

theorem wrap_cast (n : Nat) (h : n < 2 ^ 64) : IntTy.wrap usizeT (n : Int) = (n : Int) := by
  simp only [IntTy.wrap, usizeT, Bool.false_eq_true, if_false]
  exact wrapU_cast n h

theorem tmod_cast (x k : Nat) : Int.tmod (x : Int) (k : Int) = ((x % k : Nat) : Int) := by
  rw [Int.tmod_eq_emod_of_nonneg (by omega)]; push_cast; rfl

theorem tdiv_cast (x k : Nat) : Int.tdiv (x : Int) (k : Int) = ((x / k : Nat) : Int) := by
  rw [Int.tdiv_eq_ediv_of_nonneg (by omega)]; push_cast; rfl

end Rlib.SrcVec
