import RlibModel.Model.Rand
import Mathlib.Data.Nat.ModEq
import Mathlib.Data.Nat.Prime.Basic
import Mathlib.Data.Fintype.Card
import Mathlib.Data.Fintype.EquivFin
import Mathlib.Tactic.Ring
import Mathlib.Tactic.Linarith
/-! Helper lemmas for C14, generator part: iteration, the output scramble is a bijection on 64-bit
words, low bits of the LCG state are periodic, the LCG has full period (Hull–Dobell, modulus 2^64). -/
namespace Rlib.Rand

/-! ### iteration -/

theorem iter_succ' {α} (f : α → α) (n : Nat) (x : α) : iter f (n + 1) x = f (iter f n x) := by
  induction n generalizing x with
  | zero => rfl
  | succ n ih => rw [iter, ih (f x)]; rfl

theorem iter_add {α} (f : α → α) (m n : Nat) (x : α) : iter f (m + n) x = iter f m (iter f n x) := by
  induction n generalizing x with
  | zero => rfl
  | succ n ih => rw [← Nat.add_assoc, iter, ih (f x)]; rfl

theorem lcgStep_lt (g : Gen) (s : Nat) : lcgStep g s < 2 ^ 64 := Nat.mod_lt _ (by positivity)

theorem iter_lcg_lt (g : Gen) (n : Nat) (s : Nat) (hs : s < 2 ^ 64) : iter (lcgStep g) n s < 2 ^ 64 := by
  cases n with
  | zero => exact hs
  | succ n => rw [iter_succ']; exact lcgStep_lt _ _

/-! ### the stream is a function of the seed -/

theorem rawStream_fst (g : Gen) (n : Nat) (s : Nat) :
    (rawStream g n s).1 = (List.range n).map (rawAt g s) := by
  induction n generalizing s with
  | zero => rfl
  | succ n ih =>
    simp only [rawStream, nextRaw]
    rw [ih, List.range_succ_eq_map, List.map_cons, List.map_map]
    congr 1

theorem rawStream_snd (g : Gen) (n : Nat) (s : Nat) : (rawStream g n s).2 = iter (lcgStep g) n s := by
  induction n generalizing s with
  | zero => rfl
  | succ n ih =>
    simp only [rawStream, nextRaw]
    rw [ih]
    rfl

theorem rawAt_shift (g : Gen) (s k j : Nat) : rawAt g (iter (lcgStep g) k s) j = rawAt g s (k + j) := by
  unfold rawAt
  rw [← iter_add]
  congr 2
  omega

/-! ### the output scramble -/

theorem xorShift_lt (k z : Nat) (hz : z < 2 ^ 64) : xorShift k z < 2 ^ 64 := by
  unfold xorShift
  exact Nat.xor_lt_two_pow hz (Nat.lt_of_le_of_lt (Nat.shiftRight_le _ _) hz)

/-- `z ^ (z >> k)` is an involution on 64-bit words when `k ≥ 32` (the second shift clears the word). -/
theorem xorShift_invol (k z : Nat) (hk : 32 ≤ k) (hz : z < 2 ^ 64) : xorShift k (xorShift k z) = z := by
  unfold xorShift
  rw [Nat.shiftRight_xor_distrib, ← Nat.shiftRight_add]
  have h0 : z >>> (k + k) = 0 := by
    rw [Nat.shiftRight_eq_div_pow]
    apply Nat.div_eq_of_lt
    calc z < 2 ^ 64 := hz
      _ ≤ 2 ^ (k + k) := Nat.pow_le_pow_right (by decide) (by omega)
  rw [h0, Nat.xor_zero, Nat.xor_assoc, Nat.xor_self, Nat.xor_zero]

theorem mulW_lt (m z : Nat) : mulW m z < 2 ^ 64 := Nat.mod_lt _ (by positivity)

theorem coprime_pow_two_of_odd (m k : Nat) (hm : m % 2 = 1) : Nat.Coprime (2 ^ k) m := by
  apply Nat.Coprime.pow_left
  rw [Nat.Prime.coprime_iff_not_dvd Nat.prime_two]
  omega

/-- multiplication by an odd constant is injective on 64-bit words -/
theorem mulW_inj (m a b : Nat) (hm : m % 2 = 1) (ha : a < 2 ^ 64) (hb : b < 2 ^ 64)
    (h : mulW m a = mulW m b) : a = b := by
  unfold mulW at h
  have h1 : a * m ≡ b * m [MOD 2 ^ 64] := h
  have h2 : a ≡ b [MOD 2 ^ 64] := Nat.ModEq.cancel_right_of_coprime (coprime_pow_two_of_odd m 64 hm) h1
  unfold Nat.ModEq at h2
  rwa [Nat.mod_eq_of_lt ha, Nat.mod_eq_of_lt hb] at h2

theorem mix_lt (g : Gen) (z : Nat) : mix g z < 2 ^ 64 := by
  unfold mix
  exact xorShift_lt _ _ (mulW_lt _ _)

theorem xorShift_inj (k a b : Nat) (hk : 32 ≤ k) (ha : a < 2 ^ 64) (hb : b < 2 ^ 64)
    (h : xorShift k a = xorShift k b) : a = b := by
  rw [← xorShift_invol k a hk ha, ← xorShift_invol k b hk hb, h]

theorem mix_inj (g : Gen) (hm : g.mul % 2 = 1) (h1 : 32 ≤ g.sh1) (h2 : 32 ≤ g.sh2) (a b : Nat)
    (ha : a < 2 ^ 64) (hb : b < 2 ^ 64) (h : mix g a = mix g b) : a = b := by
  unfold mix at h
  have e1 := xorShift_inj g.sh2 _ _ h2 (mulW_lt _ _) (mulW_lt _ _) h
  have e2 := mulW_inj g.mul _ _ hm (xorShift_lt _ _ ha) (xorShift_lt _ _ hb) e1
  exact xorShift_inj g.sh1 _ _ h1 ha hb e2

/-- an injective self-map of the 64-bit words is onto -/
theorem surj_of_inj_words (f : Nat → Nat) (hlt : ∀ z, z < 2 ^ 64 → f z < 2 ^ 64)
    (hinj : ∀ a b, a < 2 ^ 64 → b < 2 ^ 64 → f a = f b → a = b) (y : Nat) (hy : y < 2 ^ 64) :
    ∃ z, z < 2 ^ 64 ∧ f z = y := by
  let φ : Fin (2 ^ 64) → Fin (2 ^ 64) := fun i => ⟨f i.1, hlt i.1 i.2⟩
  have hφ : Function.Injective φ := by
    intro a b hab
    have : f a.1 = f b.1 := congrArg Fin.val hab
    exact Fin.ext (hinj a.1 b.1 a.2 b.2 this)
  obtain ⟨i, hi⟩ := (Finite.injective_iff_surjective.mp hφ) ⟨y, hy⟩
  exact ⟨i.1, i.2, congrArg Fin.val hi⟩

/-! ### geometric sums and the closed form of the iterated LCG step -/

/-- `1 + A + … + A^(n-1)` -/
def geom (A : Nat) : Nat → Nat
  | 0 => 0
  | n + 1 => A * geom A n + 1

theorem geom_add (A m n : Nat) : geom A (m + n) = geom A m * A ^ n + geom A n := by
  induction n with
  | zero => simp [geom]
  | succ n ih =>
    rw [← Nat.add_assoc, geom, ih, geom, pow_succ]
    ring

theorem geom_double (A n : Nat) : geom A (n + n) = geom A n * (A ^ n + 1) := by
  rw [geom_add]; ring

/-- `A^n = (A - 1) * (1 + A + … + A^(n-1)) + 1`, written without subtraction -/
theorem pow_eq_geom (B n : Nat) : (B + 1) ^ n = B * geom (B + 1) n + 1 := by
  induction n with
  | zero => simp [geom]
  | succ n ih =>
    rw [pow_succ, ih, geom]
    ring

theorem iter_lcg_closed (g : Gen) (n s : Nat) :
    iter (lcgStep g) n s ≡ g.A ^ n * s + g.C * geom g.A n [MOD 2 ^ 64] := by
  induction n with
  | zero => simp [iter, geom, Nat.ModEq]
  | succ n ih =>
    rw [iter_succ']
    have h1 : lcgStep g (iter (lcgStep g) n s) ≡ iter (lcgStep g) n s * g.A + g.C [MOD 2 ^ 64] := by
      unfold lcgStep
      exact Nat.mod_modEq _ _
    have h2 : iter (lcgStep g) n s * g.A + g.C ≡ (g.A ^ n * s + g.C * geom g.A n) * g.A + g.C [MOD 2 ^ 64] :=
      Nat.ModEq.add_right _ (Nat.ModEq.mul_right _ ih)
    have h3 : (g.A ^ n * s + g.C * geom g.A n) * g.A + g.C = g.A ^ (n + 1) * s + g.C * geom g.A (n + 1) := by
      rw [geom, pow_succ]; ring
    rw [← h3]
    exact h1.trans h2

theorem pow_odd (A n : Nat) (hA : A % 2 = 1) : A ^ n % 2 = 1 := by
  induction n with
  | zero => rfl
  | succ n ih => rw [pow_succ, Nat.mul_mod, ih, hA]

theorem pow_mod4 (A n : Nat) (hA : A % 4 = 1) : A ^ n % 4 = 1 := by
  induction n with
  | zero => rfl
  | succ n ih => rw [pow_succ, Nat.mul_mod, ih, hA]

/-- `2^k ∣ 1 + A + … + A^(2^k - 1)` for odd `A` -/
theorem two_pow_dvd_geom (A k : Nat) (hA : A % 2 = 1) : 2 ^ k ∣ geom A (2 ^ k) := by
  induction k with
  | zero => simp
  | succ k ih =>
    have e : 2 ^ (k + 1) = 2 ^ k + 2 ^ k := by rw [pow_succ]; ring
    rw [e, geom_double, ← e, pow_succ]
    have h2 : 2 ∣ A ^ 2 ^ k + 1 := by
      have := pow_odd A (2 ^ k) hA
      omega
    exact Nat.mul_dvd_mul ih h2

/-- after `2^k` steps the state is back where it was, modulo `2^k` -/
theorem iter_lcg_low_bits (g : Gen) (hA : g.A % 2 = 1) (k : Nat) (hk : k ≤ 64) (s : Nat) :
    iter (lcgStep g) (2 ^ k) s ≡ s [MOD 2 ^ k] := by
  have hdvd : 2 ^ k ∣ 2 ^ 64 := Nat.pow_dvd_pow 2 hk
  have h1 := (iter_lcg_closed g (2 ^ k) s).of_dvd hdvd
  refine h1.trans ?_
  obtain ⟨B, hB⟩ : ∃ B, g.A = B + 1 := ⟨g.A - 1, by omega⟩
  obtain ⟨q, hq⟩ := two_pow_dvd_geom g.A k hA
  rw [hB] at hq ⊢
  rw [pow_eq_geom B (2 ^ k), hq]
  -- (B * (2^k q) + 1) * s + C * (2^k q) = s + 2^k * (…)
  have : (B * (2 ^ k * q) + 1) * s + g.C * (2 ^ k * q) = s + 2 ^ k * (B * q * s + g.C * q) := by ring
  rw [this]
  exact Nat.modEq_iff_dvd' (Nat.le_add_right _ _) |>.mpr (by simp) |>.symm

theorem geom_parity (A n : Nat) (hA : A % 2 = 1) : geom A n % 2 = n % 2 := by
  induction n with
  | zero => rfl
  | succ n ih =>
    rw [geom, Nat.add_mod, Nat.mul_mod, hA, ih]
    omega

/-- 2-adic valuation of the geometric sum equals that of `n` when `A ≡ 1 (mod 4)` -/
theorem two_pow_dvd_geom_iff (A : Nat) (hA : A % 4 = 1) (k n : Nat) : 2 ^ k ∣ geom A n ↔ 2 ^ k ∣ n := by
  have hA2 : A % 2 = 1 := by omega
  induction k generalizing n with
  | zero => simp
  | succ k ih =>
    rcases Nat.even_or_odd' n with ⟨m, rfl | rfl⟩
    · -- n = 2m
      have e : 2 * m = m + m := by ring
      have h4 := pow_mod4 A m hA
      obtain ⟨u, hu, hodd⟩ : ∃ u, A ^ m + 1 = 2 * u ∧ u % 2 = 1 := ⟨(A ^ m + 1) / 2, by omega, by omega⟩
      rw [e, geom_double, hu, ← e, pow_succ]
      have e2 : geom A m * (2 * u) = (geom A m * u) * 2 := by ring
      have e3 : 2 * m = m * 2 := by ring
      rw [e2, e3, Nat.mul_dvd_mul_iff_right (by decide), Nat.mul_dvd_mul_iff_right (by decide)]
      refine Iff.trans ?_ (ih m)
      constructor
      · exact fun h => (coprime_pow_two_of_odd u k hodd).dvd_of_dvd_mul_right h
      · exact fun h => Dvd.dvd.mul_right h u
    · -- n odd: neither side is even
      have hp := geom_parity A (2 * m + 1) hA2
      have h2 : (2 : Nat) ∣ 2 ^ (k + 1) := ⟨2 ^ k, by rw [pow_succ]; ring⟩
      constructor
      · intro h
        have := Nat.dvd_trans h2 h
        omega
      · intro h
        have := Nat.dvd_trans h2 h
        omega

/-- **Hull–Dobell for modulus 2^64**: with `A ≡ 1 (mod 4)` and `C` odd the state returns to its
    starting point exactly at multiples of `2^64`. -/
theorem iter_lcg_fixed_iff (g : Gen) (hA : g.A % 4 = 1) (hC : g.C % 2 = 1) (s : Nat) (hs : s < 2 ^ 64) (n : Nat) :
    iter (lcgStep g) n s = s ↔ 2 ^ 64 ∣ n := by
  obtain ⟨B, hB⟩ : ∃ B, g.A = B + 1 := ⟨g.A - 1, by omega⟩
  have hcl := iter_lcg_closed g n s
  have hform : g.A ^ n * s + g.C * geom g.A n = s + geom g.A n * (B * s + g.C) := by
    rw [hB, pow_eq_geom]; ring
  rw [hform] at hcl
  have hodd : (B * s + g.C) % 2 = 1 := by
    have : B % 4 = 0 := by omega
    obtain ⟨b, rfl⟩ : ∃ b, B = 4 * b := ⟨B / 4, by omega⟩
    have : 4 * b * s = 2 * (2 * b * s) := by ring
    omega
  have hlt := iter_lcg_lt g n s hs
  rw [← two_pow_dvd_geom_iff g.A hA 64 n]
  constructor
  · intro h
    rw [h] at hcl
    have h1 : 2 ^ 64 ∣ s + geom g.A n * (B * s + g.C) - s := (Nat.modEq_iff_dvd' (Nat.le_add_right _ _)).mp hcl
    rw [Nat.add_sub_cancel_left] at h1
    exact (coprime_pow_two_of_odd _ 64 hodd).dvd_of_dvd_mul_right h1
  · intro h
    obtain ⟨q, hq⟩ := h
    have h2 : s + geom g.A n * (B * s + g.C) ≡ s [MOD 2 ^ 64] := by
      rw [hq]
      have : s + 2 ^ 64 * q * (B * s + g.C) = s + 2 ^ 64 * (q * (B * s + g.C)) := by ring
      rw [this]
      exact (Nat.modEq_iff_dvd' (Nat.le_add_right _ _) |>.mpr (by simp)).symm
    have h3 := hcl.trans h2
    unfold Nat.ModEq at h3
    rwa [Nat.mod_eq_of_lt hlt, Nat.mod_eq_of_lt hs] at h3

end Rlib.Rand
