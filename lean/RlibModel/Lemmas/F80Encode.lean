import RlibModel.Lemmas.F80Round
/-!
Lemmas for C18, part 4: the encoders are right.  Decoding (`classify`, `classify64`) the bytes produced by
`encode80` / `encode64` gives back the class, sign and exact value, for everything the rounding can return.
Hence the bit-level operations `add sub mul div toF64 ofF64` of the soft-float compute "the exact result of
the operation on the decoded operands, rounded once" — `*_decode`.
-/
namespace Rlib.F80

/-- same class, same sign and same value -/
def Class.same : Class → Class → Prop
  | .nan, .nan => True
  | .inf s, .inf t => s = t
  | .fin x, .fin y => x.neg = y.neg ∧ x.toQ = y.toQ
  | _, _ => False

theorem Dy.toQ_zero (s : Bool) (e : ℤ) : (Dy.mk s 0 e).toQ = 0 := by
  unfold Dy.toQ; cases s <;> simp

theorem Dy.toQ_eq_of (s : Bool) (m m' : ℕ) (e e' : ℤ) (h : (m : ℚ) * 2 ^ e = m' * 2 ^ e') :
    (Dy.mk s m e).toQ = (Dy.mk s m' e').toQ := by
  unfold Dy.toQ
  cases s
  · simpa using h
  · simp only [if_true, neg_mul, h]

/-- `encode80` followed by the x87 decoding gives back the value, for everything `roundQ fmt80` can return -/
theorem encode80_fin_correct (neg : Bool) (r : ℕ) (k : ℤ) (hr : r ≤ 2 ^ 64) (hk : -16445 ≤ k)
    (hn : -16445 < k → 2 ^ 63 ≤ r) (ho : (r.log2 : ℤ) + k ≤ 16383) :
    Class.same (classify (encode80 (.fin ⟨neg, r, k⟩))) (.fin ⟨neg, r, k⟩) := by
  have two_ne : (2 : ℚ) ≠ 0 := by norm_num
  simp only [encode80]
  by_cases h0 : r = 0
  · subst h0
    rw [if_pos rfl]
    show Class.same (.fin ⟨neg, 0, -16445⟩) _
    exact ⟨rfl, by rw [Dy.toQ_zero, Dy.toQ_zero]⟩
  · rw [if_neg h0]
    have hL64 : r.log2 ≤ 64 := by
      have : r < 2 ^ 65 := by omega
      have := (Nat.log2_lt h0).2 this
      omega
    by_cases hsub : (r.log2 : ℤ) + k < -16382
    · rw [if_pos hsub]
      have hk' : k = -16445 := by
        by_contra hne
        have h63 : 2 ^ 63 ≤ r := hn (by omega)
        have := (Nat.le_log2 h0).2 h63
        omega
      subst hk'
      have hr63 : r < two63 := by
        have : r.log2 < 63 := by omega
        exact (Nat.log2_lt h0).1 this
      have e0 : (-16445 : ℤ) + 16445 = 0 := by omega
      rw [e0, shiftInt_zero]
      have : classify ⟨neg, 0, r⟩ = .fin ⟨neg, r, -16445⟩ := by
        unfold classify; simp
      rw [this]
      exact ⟨rfl, rfl⟩
    · rw [if_neg hsub, if_neg (by omega)]
      have hexp : ((r.log2 : ℤ) + k + 16383).toNat ≠ 0x7FFF ∧ ((r.log2 : ℤ) + k + 16383).toNat ≠ 0 := by
        constructor <;> omega
      by_cases hL : r.log2 ≤ 63
      · have hs : shiftInt r (63 - (r.log2 : ℤ)) = r <<< (63 - r.log2) := by
          unfold shiftInt
          rw [if_pos (by omega)]
          congr 1
          omega
        rw [hs]
        have hlog : (r <<< (63 - r.log2)).log2 = 63 := by rw [log2_shl _ _ h0]; omega
        have hne : r <<< (63 - r.log2) ≠ 0 := by
          intro h; exact h0 ((Nat.shiftLeft_eq_zero_iff).1 h)
        have h63 : ¬ (r <<< (63 - r.log2) < two63) := by
          have := Nat.log2_self_le hne
          rw [hlog] at this
          unfold two63
          omega
        have : classify ⟨neg, ((r.log2 : ℤ) + k + 16383).toNat, r <<< (63 - r.log2)⟩
            = .fin ⟨neg, r <<< (63 - r.log2), (r.log2 : ℤ) + k - 63⟩ := by
          unfold classify
          simp only
          rw [if_neg hexp.1, if_neg hexp.2, if_neg h63]
          congr 2
          omega
        rw [this]
        refine ⟨rfl, Dy.toQ_eq_of _ _ _ _ _ ?_⟩
        rw [Nat.shiftLeft_eq]
        push_cast
        rw [mul_assoc, ← zpow_natCast, ← zpow_add₀ two_ne]
        congr 2
        omega
      · have hL' : r.log2 = 64 := by omega
        have hr' : r = 2 ^ 64 := by
          have := Nat.log2_self_le h0
          rw [hL'] at this
          omega
        subst hr'
        have hs : shiftInt (2 ^ 64) (63 - ((2 ^ 64 : ℕ).log2 : ℤ)) = two63 := by
          rw [Nat.log2_two_pow]; decide
        rw [hs]
        rw [Nat.log2_two_pow] at hexp ⊢
        have : classify ⟨neg, (((64 : ℕ) : ℤ) + k + 16383).toNat, two63⟩ = .fin ⟨neg, two63, k + 1⟩ := by
          unfold classify
          simp only
          rw [if_neg hexp.1, if_neg hexp.2, if_neg (by decide)]
          congr 2
          omega
        rw [this]
        refine ⟨rfl, Dy.toQ_eq_of _ _ _ _ _ ?_⟩
        rw [zpow_add_one₀ two_ne]
        unfold two63
        push_cast
        ring

theorem encode80_zero (s : Bool) (e : ℤ) :
    Class.same (classify (encode80 (.fin ⟨s, 0, e⟩))) (.fin ⟨s, 0, e⟩) := by
  simp only [encode80]
  rw [if_pos trivial]
  show Class.same (.fin ⟨s, 0, -16445⟩) _
  exact ⟨rfl, by rw [Dy.toQ_zero, Dy.toQ_zero]⟩

theorem encode80_roundQ (neg : Bool) (n d : ℕ) (e : ℤ) (hd : 0 < d) :
    Class.same (classify (encode80 (roundQ fmt80 neg n d e))) (roundQ fmt80 neg n d e) := by
  unfold roundQ
  by_cases hn : n = 0
  · rw [if_pos hn]
    exact encode80_zero neg 0
  · rw [if_neg hn]
    cases h : roundPos fmt80 n d e with
    | ovf =>
      show Class.same (classify ⟨neg, 0x7FFF, two63⟩) (.inf neg)
      have : classify ⟨neg, 0x7FFF, two63⟩ = .inf neg := by unfold classify; simp
      rw [this]; exact rfl
    | fin r k =>
      have hu := roundPos_unfold fmt80 n d e
      rw [h] at hu
      split at hu
      · cases hu
      · rename_i hov
        injection hu with h1 h2
        obtain ⟨a, b⟩ := roundVal_normal fmt80 n d e (by omega) hd (by decide)
        subst h1 h2
        have hq : fmt80.qmin ≤ quantum fmt80 (ilog2q n d e) := by unfold quantum; omega
        have hem : fmt80.emax = 16383 := rfl
        exact encode80_fin_correct neg _ _ a hq b (by omega)

/-- the classes the arithmetic produces before encoding -/
inductive Ok80 : Class → Prop
  | nan : Ok80 .nan
  | inf (s : Bool) : Ok80 (.inf s)
  | zero (s : Bool) : Ok80 (.fin ⟨s, 0, 0⟩)
  | round (neg : Bool) (n d : ℕ) (e : ℤ) (hd : 0 < d) : Ok80 (roundQ fmt80 neg n d e)

theorem encode80_ok (c : Class) (h : Ok80 c) : Class.same (classify (encode80 c)) c := by
  cases h with
  | nan => exact (by decide : classify (encode80 .nan) = .nan) ▸ trivial
  | inf s =>
    have : classify (encode80 (.inf s)) = .inf s := by
      show classify ⟨s, 0x7FFF, two63⟩ = .inf s
      unfold classify; simp
    rw [this]; exact rfl
  | zero s => exact encode80_zero s 0
  | round neg n d e hd => exact encode80_roundQ neg n d e hd

theorem addC_ok (a b : Class) : Ok80 (addC fmt80 a b) := by
  cases a with
  | nan => cases b <;> exact Ok80.nan
  | inf s =>
    cases b with
    | nan => exact Ok80.nan
    | inf t =>
      simp only [addC]
      split
      · exact Ok80.inf _
      · exact Ok80.nan
    | fin y => exact Ok80.inf _
  | fin x =>
    cases b with
    | nan => exact Ok80.nan
    | inf t => exact Ok80.inf _
    | fin y =>
      simp only [addC]
      split
      · exact Ok80.zero _
      · exact Ok80.round _ _ _ _ (by omega)

theorem mulC_ok (a b : Class) : Ok80 (mulC fmt80 a b) := by
  cases a with
  | nan => cases b <;> exact Ok80.nan
  | inf s =>
    cases b with
    | nan => exact Ok80.nan
    | inf t => exact Ok80.inf _
    | fin y =>
      simp only [mulC]
      split
      · exact Ok80.nan
      · exact Ok80.inf _
  | fin x =>
    cases b with
    | nan => exact Ok80.nan
    | inf t =>
      simp only [mulC]
      split
      · exact Ok80.nan
      · exact Ok80.inf _
    | fin y => exact Ok80.round _ _ _ _ (by omega)

theorem divC_ok (a b : Class) : Ok80 (divC fmt80 a b) := by
  cases a with
  | nan => cases b <;> exact Ok80.nan
  | inf s =>
    cases b with
    | nan => exact Ok80.nan
    | inf t => exact Ok80.nan
    | fin y => exact Ok80.inf _
  | fin x =>
    cases b with
    | nan => exact Ok80.nan
    | inf t => exact Ok80.zero _
    | fin y =>
      simp only [divC]
      split
      · split
        · exact Ok80.nan
        · exact Ok80.inf _
      · exact Ok80.round _ _ _ _ (by omega)

/-- decoding the result bytes of the four operations gives exactly the class computed by "exact operation, then one
    rounding" (same sign, same value) -/
theorem add_decode (a b : F80) : Class.same (classify (add a b)) (addC fmt80 (classify a) (classify b)) :=
  encode80_ok _ (addC_ok _ _)
theorem sub_decode (a b : F80) : Class.same (classify (sub a b)) (subC fmt80 (classify a) (classify b)) :=
  encode80_ok _ (addC_ok _ _)
theorem mul_decode (a b : F80) : Class.same (classify (mul a b)) (mulC fmt80 (classify a) (classify b)) :=
  encode80_ok _ (mulC_ok _ _)
theorem div_decode (a b : F80) : Class.same (classify (div a b)) (divC fmt80 (classify a) (classify b)) :=
  encode80_ok _ (divC_ok _ _)

theorem Class.same_trans (a b c : Class) (h1 : Class.same a b) (h2 : Class.same b c) : Class.same a c := by
  cases a <;> cases b <;> cases c <;> simp_all [Class.same]

theorem encode64_zero (s : Bool) (e : ℤ) :
    Class.same (classify64 (encode64 (.fin ⟨s, 0, e⟩))) (.fin ⟨s, 0, e⟩) := by
  simp only [encode64]
  rw [if_pos trivial]
  show Class.same (.fin ⟨s, 0, -1074⟩) _
  exact ⟨rfl, by rw [Dy.toQ_zero, Dy.toQ_zero]⟩

/-- `encode64` followed by the binary64 decoding gives back the value, for everything `roundQ fmt64` can return -/
theorem encode64_fin_correct (neg : Bool) (r : ℕ) (k : ℤ) (h0 : r ≠ 0) (hr : r ≤ 2 ^ 53) (hk : -1074 ≤ k)
    (hn : -1074 < k → 2 ^ 52 ≤ r) (ho : (r.log2 : ℤ) + k ≤ 1023) :
    Class.same (classify64 (encode64 (.fin ⟨neg, r, k⟩))) (.fin ⟨neg, r, k⟩) := by
  have two_ne : (2 : ℚ) ≠ 0 := by norm_num
  simp only [encode64]
  rw [if_neg h0]
  have hL53 : r.log2 ≤ 53 := by
    have : r < 2 ^ 54 := by omega
    have := (Nat.log2_lt h0).2 this
    omega
  by_cases hsub : (r.log2 : ℤ) + k < -1022
  · rw [if_pos hsub]
    have hk' : k = -1074 := by
      by_contra hne
      have h52 : 2 ^ 52 ≤ r := hn (by omega)
      have := (Nat.le_log2 h0).2 h52
      omega
    subst hk'
    have e0 : (-1074 : ℤ) + 1074 = 0 := by omega
    rw [e0, shiftInt_zero]
    have : classify64 ⟨neg, 0, r⟩ = .fin ⟨neg, r, -1074⟩ := by
      unfold classify64; simp
    rw [this]
    exact ⟨rfl, rfl⟩
  · rw [if_neg hsub, if_neg (by omega)]
    have hexp : ((r.log2 : ℤ) + k + 1023).toNat ≠ 2047 ∧ ((r.log2 : ℤ) + k + 1023).toNat ≠ 0 := by
      constructor <;> omega
    by_cases hL : r.log2 ≤ 52
    · have hs : shiftInt r (52 - (r.log2 : ℤ)) = r <<< (52 - r.log2) := by
        unfold shiftInt
        rw [if_pos (by omega)]
        congr 1
        omega
      rw [hs]
      have hlog : (r <<< (52 - r.log2)).log2 = 52 := by rw [log2_shl _ _ h0]; omega
      have hne : r <<< (52 - r.log2) ≠ 0 := by
        intro h; exact h0 ((Nat.shiftLeft_eq_zero_iff).1 h)
      have h52 : two52 ≤ r <<< (52 - r.log2) := by
        have := Nat.log2_self_le hne
        rw [hlog] at this
        unfold two52
        omega
      have : classify64 ⟨neg, ((r.log2 : ℤ) + k + 1023).toNat, r <<< (52 - r.log2) - two52⟩
          = .fin ⟨neg, r <<< (52 - r.log2), (r.log2 : ℤ) + k - 52⟩ := by
        unfold classify64
        simp only
        rw [if_neg hexp.1, if_neg hexp.2, Nat.add_sub_of_le h52]
        have e2 : ((((r.log2 : ℤ) + k + 1023).toNat : ℕ) : ℤ) - 1075 = (r.log2 : ℤ) + k - 52 := by omega
        rw [e2]
      rw [this]
      refine ⟨rfl, Dy.toQ_eq_of _ _ _ _ _ ?_⟩
      rw [Nat.shiftLeft_eq]
      push_cast
      rw [mul_assoc, ← zpow_natCast, ← zpow_add₀ two_ne]
      congr 2
      omega
    · have hL' : r.log2 = 53 := by omega
      have hr' : r = 2 ^ 53 := by
        have := Nat.log2_self_le h0
        rw [hL'] at this
        omega
      subst hr'
      have hs : shiftInt (2 ^ 53) (52 - ((2 ^ 53 : ℕ).log2 : ℤ)) - two52 = 0 := by
        rw [Nat.log2_two_pow]; decide
      rw [hs]
      rw [Nat.log2_two_pow] at hexp ⊢
      have : classify64 ⟨neg, (((53 : ℕ) : ℤ) + k + 1023).toNat, 0⟩ = .fin ⟨neg, two52 + 0, k + 1⟩ := by
        unfold classify64
        simp only
        rw [if_neg hexp.1, if_neg hexp.2]
        congr 2
        omega
      rw [this]
      refine ⟨rfl, Dy.toQ_eq_of _ _ _ _ _ ?_⟩
      rw [zpow_add_one₀ two_ne]
      unfold two52
      push_cast
      ring

theorem encode64_roundQ (neg : Bool) (n d : ℕ) (e : ℤ) (hd : 0 < d) :
    Class.same (classify64 (encode64 (roundQ fmt64 neg n d e))) (roundQ fmt64 neg n d e) := by
  unfold roundQ
  by_cases hn : n = 0
  · rw [if_pos hn]
    exact encode64_zero neg 0
  · rw [if_neg hn]
    cases h : roundPos fmt64 n d e with
    | ovf =>
      show Class.same (classify64 ⟨neg, 2047, 0⟩) (.inf neg)
      have : classify64 ⟨neg, 2047, 0⟩ = .inf neg := by unfold classify64; simp
      rw [this]; exact rfl
    | fin r k =>
      have hu := roundPos_unfold fmt64 n d e
      rw [h] at hu
      split at hu
      · cases hu
      · rename_i hov
        injection hu with h1 h2
        obtain ⟨a, b⟩ := roundVal_normal fmt64 n d e (by omega) hd (by decide)
        subst h1 h2
        have hq : fmt64.qmin ≤ quantum fmt64 (ilog2q n d e) := by unfold quantum; omega
        have hem : fmt64.emax = 1023 := rfl
        by_cases hr0 : rneScaled n d (e - quantum fmt64 (ilog2q n d e)) = 0
        · show Class.same (classify64 (encode64 (.fin ⟨neg, _, _⟩))) (.fin ⟨neg, _, _⟩)
          rw [hr0]
          exact encode64_zero neg _
        · exact encode64_fin_correct neg _ _ hr0 a hq b (by omega)

/-- f80 → f64: decoding the binary64 result gives the operand's class rounded once to 53 bits -/
theorem toF64_decode (a : F80) : Class.same (classify64 (toF64 a)) (roundClass fmt64 (classify a)) := by
  unfold toF64
  cases h : classify a with
  | nan => exact (by decide : classify64 (encode64 .nan) = .nan) ▸ trivial
  | inf s =>
    show Class.same (classify64 ⟨s, 2047, 0⟩) (.inf s)
    have : classify64 ⟨s, 2047, 0⟩ = .inf s := by unfold classify64; simp
    rw [this]; exact rfl
  | fin x => exact encode64_roundQ _ _ _ _ (by omega)

/-- f64 → f80 is exact: decoding the ten bytes gives the binary64 operand's class, sign and value -/
theorem ofF64_decode (x : F64) (hE : x.exp ≤ 2047) (hF : x.frac < two52) :
    Class.same (classify (ofF64 x)) (classify64 x) := by
  unfold ofF64
  cases h : classify64 x with
  | nan => exact (by decide : classify (encode80 .nan) = .nan) ▸ trivial
  | inf s => exact encode80_ok _ (Ok80.inf s)
  | fin y =>
    apply Class.same_trans _ _ _ (encode80_ok _ (Ok80.round _ _ _ _ (by omega)))
    -- rounding an f64 value to 64 bits does not change it
    obtain ⟨s, E, F⟩ := x
    simp only at hE hF
    unfold classify64 at h
    simp only at h
    split at h
    · split at h <;> cases h
    · split at h
      · -- zero or subnormal
        injection h with h; subst h
        show Class.same (roundQ fmt80 s F 1 (-1074)) _
        by_cases hF0 : F = 0
        · subst hF0
          exact ⟨rfl, by rw [Dy.toQ_zero, Dy.toQ_zero]⟩
        · have hL : F.log2 < 52 := log2_lt_of_lt F 52 hF0 (by unfold two52 at hF; omega)
          unfold roundQ
          rw [if_neg hF0, roundPos80_exact F (-1074) hF0 (by omega) (by omega) (by omega)]
          refine ⟨rfl, Dy.toQ_eq_of _ _ _ _ _ ?_⟩
          rw [Nat.shiftLeft_eq, Nat.cast_mul, Nat.cast_pow, Nat.cast_ofNat]
          rw [mul_assoc, ← zpow_natCast, ← zpow_add₀ (by norm_num : (2 : ℚ) ≠ 0)]
          congr 2
          omega
      · injection h with h; subst h
        show Class.same (roundQ fmt80 s (two52 + F) 1 ((E : ℤ) - 1075)) _
        have hne : two52 + F ≠ 0 := by unfold two52; omega
        have hL := log2_two52_add F hF
        unfold roundQ
        rw [if_neg hne, roundPos80_exact (two52 + F) _ hne (by omega) (by omega) (by omega)]
        refine ⟨rfl, Dy.toQ_eq_of _ _ _ _ _ ?_⟩
        rw [Nat.shiftLeft_eq]
        push_cast
        rw [mul_assoc, ← zpow_natCast, ← zpow_add₀ (by norm_num : (2 : ℚ) ≠ 0)]
        congr 2
        omega

end Rlib.F80
