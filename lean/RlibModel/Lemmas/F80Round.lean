import RlibModel.Lemmas.F80Soft
import RlibModel.Lemmas.F80
import Mathlib.Tactic.Linarith
import Mathlib.Tactic.Ring
import Mathlib.Tactic.Positivity
import Mathlib.Tactic.FieldSimp
import Mathlib.Algebra.Order.Field.Power
import Mathlib.Data.Rat.Cast.Order
/-!
Lemmas for C18, part 3: what `roundPos` means for the *value* (a rational number).  These make the
executable soft-float a trustworthy specification of "correctly rounded": nearest (within half a unit in
the last place), ties to even, monotone, exact on representable values, idempotent, overflow exactly at
`2^(emax+1)`, `p` significant bits unless subnormal.  They say nothing about the FPU.
-/

namespace Rlib.F80

/-- the rational `n/d * 2^e` -/
def valQ (n d : ℕ) (e : ℤ) : ℚ := (n : ℚ) / d * 2 ^ e

theorem rne_half_q (a b : ℕ) (hb : 0 < b) : |(a : ℚ) / b - rne a b| ≤ 1 / 2 := by
  obtain ⟨h1, h2⟩ := rne_half a b hb
  have hbq : (0 : ℚ) < b := by exact_mod_cast hb
  have h1' : 2 * (a : ℚ) ≤ 2 * (b * rne a b) + b := by exact_mod_cast h1
  have h2' : 2 * ((b : ℚ) * rne a b) ≤ 2 * a + b := by exact_mod_cast h2
  rw [abs_le]
  constructor
  · have : (rne a b : ℚ) - 1 / 2 ≤ a / b := by
      rw [le_div_iff₀ hbq]; nlinarith
    linarith
  · have : (a : ℚ) / b ≤ rne a b + 1 / 2 := by
      rw [div_le_iff₀ hbq]; nlinarith
    linarith

/-- scaling numerator and denominator does not change the rounding -/
theorem rne_scale (a b c : ℕ) (hc : 0 < c) : rne (a * c) (b * c) = rne a b := by
  unfold rne
  simp only [Nat.mul_div_mul_right a b hc, Nat.mul_mod_mul_right]
  have e1 : ∀ x y : ℕ, (x * c < y * c ↔ x < y) := fun x y => Nat.mul_lt_mul_right hc
  have e2 : 2 * (a % b * c) = (2 * (a % b)) * c := by ring
  simp only [e2, e1]

theorem rne_mono_q (a b a' b' : ℕ) (hb : 0 < b) (hb' : 0 < b') (h : (a : ℚ) / b ≤ a' / b') :
    rne a b ≤ rne a' b' := by
  have hbq : (0 : ℚ) < b := by exact_mod_cast hb
  have hbq' : (0 : ℚ) < b' := by exact_mod_cast hb'
  rw [div_le_div_iff₀ hbq hbq'] at h
  have h' : a * b' ≤ a' * b := by exact_mod_cast h
  rw [← rne_scale a b b' hb', ← rne_scale a' b' b hb, Nat.mul_comm b' b]
  exact rne_mono _ _ _ h'

theorem rne_le_q (a b z : ℕ) (hb : 0 < b) (h : (a : ℚ) / b ≤ z) : rne a b ≤ z := by
  have hbq : (0 : ℚ) < b := by exact_mod_cast hb
  rw [div_le_iff₀ hbq] at h
  exact rne_le_of_le_mul a b z hb (by exact_mod_cast h)

theorem le_rne_q (a b z : ℕ) (hb : 0 < b) (h : (z : ℚ) ≤ a / b) : z ≤ rne a b := by
  have hbq : (0 : ℚ) < b := by exact_mod_cast hb
  rw [le_div_iff₀ hbq] at h
  exact le_rne_of_mul_le a b z hb (by exact_mod_cast h)

/-- `rneScaled n d s` rounds the rational `n/d * 2^s` -/
theorem rneScaled_eq (n d : ℕ) (s : ℤ) (hd : 0 < d) :
    ∃ a b : ℕ, 0 < b ∧ rneScaled n d s = rne a b ∧ (a : ℚ) / b = (n : ℚ) / d * 2 ^ s := by
  have hdq : (0 : ℚ) < d := by exact_mod_cast hd
  unfold rneScaled
  by_cases hs : 0 ≤ s
  · rw [if_pos hs]
    refine ⟨n <<< s.toNat, d, hd, rfl, ?_⟩
    rw [Nat.shiftLeft_eq]
    have : s = (s.toNat : ℤ) := by omega
    rw [this, zpow_natCast]
    push_cast
    simp only [Int.toNat_natCast]
    ring
  · rw [if_neg hs]
    refine ⟨n, d <<< (-s).toNat, ?_, rfl, ?_⟩
    · rw [Nat.shiftLeft_eq]; positivity
    · rw [Nat.shiftLeft_eq]
      have : s = -((-s).toNat : ℤ) := by omega
      rw [this, zpow_neg, zpow_natCast]
      push_cast
      simp only [Int.toNat_natCast, neg_neg]
      field_simp

theorem valQ_pos (n d : ℕ) (e : ℤ) (hn : 0 < n) (hd : 0 < d) : 0 < valQ n d e := by
  unfold valQ
  have : (0 : ℚ) < n := by exact_mod_cast hn
  have : (0 : ℚ) < d := by exact_mod_cast hd
  positivity

theorem two_zpow_pos (k : ℤ) : (0 : ℚ) < 2 ^ k := by positivity

/-- `ilog2q` is the floor of the binary logarithm -/
theorem ilog2q_spec (n d : ℕ) (e : ℤ) (hn : 0 < n) (hd : 0 < d) :
    (2 : ℚ) ^ (ilog2q n d e) ≤ valQ n d e ∧ valQ n d e < 2 ^ (ilog2q n d e + 1) := by
  have hnq : (0 : ℚ) < n := by exact_mod_cast hn
  have hdq : (0 : ℚ) < d := by exact_mod_cast hd
  have n1 : (2 : ℚ) ^ n.log2 ≤ n := by exact_mod_cast Nat.log2_self_le (by omega : n ≠ 0)
  have n2 : (n : ℚ) < 2 ^ (n.log2 + 1) := by exact_mod_cast (Nat.lt_log2_self (n := n))
  have d1 : (2 : ℚ) ^ d.log2 ≤ d := by exact_mod_cast Nat.log2_self_le (by omega : d ≠ 0)
  have d2 : (d : ℚ) < 2 ^ (d.log2 + 1) := by exact_mod_cast (Nat.lt_log2_self (n := d))
  have pe : (0 : ℚ) < 2 ^ e := two_zpow_pos e
  have pln : (0 : ℚ) < 2 ^ n.log2 := by positivity
  have pld : (0 : ℚ) < 2 ^ d.log2 := by positivity
  have two_ne : (2 : ℚ) ≠ 0 := by norm_num
  unfold ilog2q valQ
  simp only [Nat.shiftLeft_eq]
  split
  · rename_i hc
    have hc' : (d : ℚ) * 2 ^ n.log2 ≤ n * 2 ^ d.log2 := by exact_mod_cast hc
    have e1 : (2 : ℚ) ^ ((n.log2 : ℤ) - d.log2 + e) = 2 ^ n.log2 / 2 ^ d.log2 * 2 ^ e := by
      rw [zpow_add₀ two_ne, zpow_sub₀ two_ne, zpow_natCast, zpow_natCast]
    have e2 : (2 : ℚ) ^ ((n.log2 : ℤ) - d.log2 + e + 1) = 2 ^ (n.log2 + 1) / 2 ^ d.log2 * 2 ^ e := by
      rw [zpow_add_one₀ two_ne, e1, pow_succ]; ring
    rw [e1, e2]
    constructor
    · apply mul_le_mul_of_nonneg_right _ pe.le
      rw [div_le_div_iff₀ pld hdq]
      linarith
    · apply mul_lt_mul_of_pos_right _ pe
      rw [div_lt_div_iff₀ hdq pld]
      calc (n : ℚ) * 2 ^ d.log2 < 2 ^ (n.log2 + 1) * 2 ^ d.log2 := by
            apply mul_lt_mul_of_pos_right n2 pld
        _ ≤ 2 ^ (n.log2 + 1) * d := by
            apply mul_le_mul_of_nonneg_left d1; positivity
  · rename_i hc
    have hc' : (n : ℚ) * 2 ^ d.log2 < d * 2 ^ n.log2 := by
      have : n * 2 ^ d.log2 < d * 2 ^ n.log2 := by omega
      exact_mod_cast this
    have e1 : (2 : ℚ) ^ ((n.log2 : ℤ) - d.log2 + e - 1) = 2 ^ n.log2 / 2 ^ (d.log2 + 1) * 2 ^ e := by
      rw [zpow_sub_one₀ two_ne, zpow_add₀ two_ne, zpow_sub₀ two_ne, zpow_natCast, zpow_natCast, pow_succ]
      field_simp
    have e2 : (2 : ℚ) ^ ((n.log2 : ℤ) - d.log2 + e - 1 + 1) = 2 ^ n.log2 / 2 ^ d.log2 * 2 ^ e := by
      rw [sub_add_cancel, zpow_add₀ two_ne, zpow_sub₀ two_ne, zpow_natCast, zpow_natCast]
    rw [e1, e2]
    constructor
    · apply mul_le_mul_of_nonneg_right _ pe.le
      rw [div_le_div_iff₀ (by positivity) hdq]
      calc (2 : ℚ) ^ n.log2 * d ≤ n * d := by
            apply mul_le_mul_of_nonneg_right n1 hdq.le
        _ ≤ n * 2 ^ (d.log2 + 1) := by
            apply mul_le_mul_of_nonneg_left d2.le hnq.le
    · apply mul_lt_mul_of_pos_right _ pe
      rw [div_lt_div_iff₀ hdq pld]
      linarith

/-- value of the rounding before the overflow test (exponent range unbounded above) -/
def roundVal (f : Fmt) (n d : ℕ) (e : ℤ) : ℚ :=
  (rneScaled n d (e - quantum f (ilog2q n d e)) : ℚ) * 2 ^ quantum f (ilog2q n d e)

theorem valQ_split (n d : ℕ) (e k : ℤ) : valQ n d e = (n : ℚ) / d * 2 ^ (e - k) * 2 ^ k := by
  unfold valQ
  rw [mul_assoc, ← zpow_add₀ (by norm_num : (2 : ℚ) ≠ 0), sub_add_cancel]

/-- the result is within half a unit in the last place of the exact value -/
theorem roundVal_half_ulp (f : Fmt) (n d : ℕ) (e : ℤ) (hd : 0 < d) :
    |valQ n d e - roundVal f n d e| ≤ 2 ^ quantum f (ilog2q n d e) / 2 := by
  unfold roundVal
  generalize quantum f (ilog2q n d e) = k
  obtain ⟨a, b, hb, hr, hab⟩ := rneScaled_eq n d (e - k) hd
  rw [valQ_split n d e k, hr, ← hab, ← sub_mul, abs_mul, abs_of_pos (two_zpow_pos k)]
  have := rne_half_q a b hb
  have pk := two_zpow_pos k
  calc |(a : ℚ) / b - rne a b| * 2 ^ k ≤ 1 / 2 * 2 ^ k := mul_le_mul_of_nonneg_right this pk.le
    _ = 2 ^ k / 2 := by ring

theorem two_zpow_toNat (j : ℤ) (hj : 0 ≤ j) : (((2 ^ j.toNat : ℕ) : ℚ)) = 2 ^ j := by
  obtain ⟨m, rfl⟩ := Int.eq_ofNat_of_zero_le hj
  rw [zpow_natCast, Int.toNat_natCast]
  push_cast
  rfl

/-- the result has at most `p` significant bits, and exactly `p` unless it is subnormal -/
theorem roundVal_normal (f : Fmt) (n d : ℕ) (e : ℤ) (hn : 0 < n) (hd : 0 < d) (hp : 1 ≤ f.p) :
    rneScaled n d (e - quantum f (ilog2q n d e)) ≤ 2 ^ f.p ∧
    (f.qmin < quantum f (ilog2q n d e) → 2 ^ (f.p - 1) ≤ rneScaled n d (e - quantum f (ilog2q n d e))) := by
  obtain ⟨l1, l2⟩ := ilog2q_spec n d e hn hd
  generalize ilog2q n d e = t at *
  have hk : quantum f t = Max.max (t - ((f.p : ℤ) - 1)) f.qmin := rfl
  generalize quantum f t = k at *
  obtain ⟨a, b, hb, hr, hab⟩ := rneScaled_eq n d (e - k) hd
  have pk := two_zpow_pos k
  have two_ne : (2 : ℚ) ≠ 0 := by norm_num
  rw [valQ_split n d e k, ← hab] at l1 l2
  rw [hr]
  constructor
  · apply rne_le_q a b _ hb
    have h1 : (a : ℚ) / b < 2 ^ (t + 1 - k) := by
      rw [zpow_sub₀ two_ne, lt_div_iff₀ pk]; exact l2
    have h2 : (2 : ℚ) ^ (t + 1 - k) ≤ 2 ^ (f.p : ℤ) := zpow_le_zpow_right₀ (by norm_num) (by omega)
    rw [zpow_natCast] at h2
    push_cast
    linarith
  · intro hq
    apply le_rne_q a b _ hb
    have hkt : k = t - ((f.p : ℤ) - 1) := by omega
    have h1 : (2 : ℚ) ^ (t - k) ≤ (a : ℚ) / b := by
      rw [zpow_sub₀ two_ne, div_le_iff₀ pk]; exact l1
    have h2 : t - k = ((f.p - 1 : ℕ) : ℤ) := by omega
    rw [h2, zpow_natCast] at h1
    push_cast
    exact h1

theorem ilog2q_mono (n d n' d' : ℕ) (e e' : ℤ) (hn : 0 < n) (hd : 0 < d) (hn' : 0 < n') (hd' : 0 < d')
    (h : valQ n d e ≤ valQ n' d' e') : ilog2q n d e ≤ ilog2q n' d' e' := by
  obtain ⟨l1, _⟩ := ilog2q_spec n d e hn hd
  obtain ⟨_, u2⟩ := ilog2q_spec n' d' e' hn' hd'
  have : (2 : ℚ) ^ ilog2q n d e < 2 ^ (ilog2q n' d' e' + 1) := by linarith
  rw [zpow_lt_zpow_iff_right₀ (by norm_num)] at this
  omega

/-- rounding is monotone (as a value, before the overflow test) -/
theorem roundVal_mono (f : Fmt) (n d n' d' : ℕ) (e e' : ℤ) (hn : 0 < n) (hd : 0 < d) (hn' : 0 < n') (hd' : 0 < d')
    (hp : 1 ≤ f.p) (h : valQ n d e ≤ valQ n' d' e') : roundVal f n d e ≤ roundVal f n' d' e' := by
  have ht := ilog2q_mono n d n' d' e e' hn hd hn' hd' h
  obtain ⟨l1, l2⟩ := ilog2q_spec n d e hn hd
  obtain ⟨l1', l2'⟩ := ilog2q_spec n' d' e' hn' hd'
  obtain ⟨_, N2⟩ := roundVal_normal f n' d' e' hn' hd' hp
  unfold roundVal
  generalize ilog2q n d e = t at *
  generalize ilog2q n' d' e' = t' at *
  have hk : quantum f t = Max.max (t - ((f.p : ℤ) - 1)) f.qmin := rfl
  have hk' : quantum f t' = Max.max (t' - ((f.p : ℤ) - 1)) f.qmin := rfl
  generalize quantum f t = k at *
  generalize quantum f t' = k' at *
  obtain ⟨a, b, hb, hr, hab⟩ := rneScaled_eq n d (e - k) hd
  obtain ⟨a', b', hb', hr', hab'⟩ := rneScaled_eq n' d' (e' - k') hd'
  have pk := two_zpow_pos k
  have pk' := two_zpow_pos k'
  have two_ne : (2 : ℚ) ≠ 0 := by norm_num
  rw [valQ_split n d e k, ← hab] at l1 l2 h
  rw [valQ_split n' d' e' k', ← hab'] at l1' l2' h
  rw [hr'] at N2
  rw [hr, hr']
  rcases lt_or_ge k k' with hlt | hge
  · -- the larger value lies in a higher binade: `2^t'` separates the two results
    have hq : f.qmin < k' := by omega
    have hk't : k' = t' - ((f.p : ℤ) - 1) := by omega
    have htt : t + 1 ≤ t' := by omega
    have N2' := N2 hq
    have up : (2 : ℚ) ^ t' ≤ (rne a' b' : ℚ) * 2 ^ k' := by
      have : ((2 ^ (f.p - 1) : ℕ) : ℚ) ≤ rne a' b' := by exact_mod_cast N2'
      have e1 : (2 : ℚ) ^ t' = ((2 ^ (f.p - 1) : ℕ) : ℚ) * 2 ^ k' := by
        push_cast
        rw [← zpow_natCast, ← zpow_add₀ two_ne]
        congr 1
        omega
      rw [e1]
      exact mul_le_mul_of_nonneg_right this pk'.le
    have lo : (rne a b : ℚ) * 2 ^ k ≤ 2 ^ t' := by
      have hj : 0 ≤ t' - k := by omega
      have h1 : (a : ℚ) / b ≤ ((2 ^ (t' - k).toNat : ℕ) : ℚ) := by
        rw [two_zpow_toNat _ hj, zpow_sub₀ two_ne, le_div_iff₀ pk]
        have : (2 : ℚ) ^ (t + 1) ≤ 2 ^ t' := zpow_le_zpow_right₀ (by norm_num) htt
        linarith
      have h2 := rne_le_q a b _ hb h1
      have h3 : (rne a b : ℚ) ≤ ((2 ^ (t' - k).toNat : ℕ) : ℚ) := by exact_mod_cast h2
      rw [two_zpow_toNat _ hj] at h3
      calc (rne a b : ℚ) * 2 ^ k ≤ 2 ^ (t' - k) * 2 ^ k := mul_le_mul_of_nonneg_right h3 pk.le
        _ = 2 ^ t' := by rw [← zpow_add₀ two_ne, sub_add_cancel]
    linarith
  · -- same quantum
    have hkk : k = k' := by omega
    subst hkk
    have : (a : ℚ) / b ≤ a' / b' := le_of_mul_le_mul_right h pk
    have := rne_mono_q a b a' b' hb hb' this
    have : (rne a b : ℚ) ≤ rne a' b' := by exact_mod_cast this
    exact mul_le_mul_of_nonneg_right this pk.le

/-- overflow test of `roundPos`, as a statement about the value -/
theorem ovf_iff (r : ℕ) (k emax : ℤ) (hr : 0 < r) :
    emax < (r.log2 : ℤ) + k ↔ (2 : ℚ) ^ (emax + 1) ≤ r * 2 ^ k := by
  have two_ne : (2 : ℚ) ≠ 0 := by norm_num
  have pk := two_zpow_pos k
  have r1 : (2 : ℚ) ^ (r.log2 : ℤ) ≤ r := by
    rw [zpow_natCast]; exact_mod_cast Nat.log2_self_le (by omega : r ≠ 0)
  have r2 : (r : ℚ) < 2 ^ ((r.log2 : ℤ) + 1) := by
    have : (r : ℚ) < 2 ^ (r.log2 + 1) := by exact_mod_cast (Nat.lt_log2_self (n := r))
    rw [← zpow_natCast] at this
    push_cast at this
    exact this
  constructor
  · intro h
    calc (2 : ℚ) ^ (emax + 1) ≤ 2 ^ ((r.log2 : ℤ) + k) := zpow_le_zpow_right₀ (by norm_num) (by omega)
      _ = 2 ^ (r.log2 : ℤ) * 2 ^ k := zpow_add₀ two_ne _ _
      _ ≤ r * 2 ^ k := mul_le_mul_of_nonneg_right r1 pk.le
  · intro h
    have : (2 : ℚ) ^ (emax + 1) < 2 ^ ((r.log2 : ℤ) + 1 + k) := by
      rw [zpow_add₀ two_ne ((r.log2 : ℤ) + 1) k]
      calc (2 : ℚ) ^ (emax + 1) ≤ r * 2 ^ k := h
        _ < 2 ^ ((r.log2 : ℤ) + 1) * 2 ^ k := mul_lt_mul_of_pos_right r2 pk
    rw [zpow_lt_zpow_iff_right₀ (by norm_num)] at this
    omega

theorem roundPos_unfold (f : Fmt) (n d : ℕ) (e : ℤ) :
    roundPos f n d e =
      if f.emax < ((rneScaled n d (e - quantum f (ilog2q n d e))).log2 : ℤ) + quantum f (ilog2q n d e) then .ovf
      else .fin (rneScaled n d (e - quantum f (ilog2q n d e))) (quantum f (ilog2q n d e)) := rfl

/-- `roundPos` overflows exactly when the rounded value reaches `2^(emax+1)` -/
theorem roundPos_ovf_iff (f : Fmt) (n d : ℕ) (e : ℤ) (hn : 0 < n) (hd : 0 < d) (hp : 1 ≤ f.p) (hq : f.qmin ≤ f.emax) :
    roundPos f n d e = .ovf ↔ (2 : ℚ) ^ (f.emax + 1) ≤ roundVal f n d e := by
  obtain ⟨_, N2⟩ := roundVal_normal f n d e hn hd hp
  rw [roundPos_unfold]
  unfold roundVal
  generalize quantum f (ilog2q n d e) = k at *
  generalize rneScaled n d (e - k) = r at *
  rcases Nat.eq_zero_or_pos r with h0 | hpos
  · subst h0
    have hk : k ≤ f.qmin := by
      rcases lt_or_ge f.qmin k with h | h
      · have := N2 h
        have : 0 < 2 ^ (f.p - 1) := Nat.two_pow_pos _
        omega
      · exact h
    have h1 : (0 : ℕ).log2 = 0 := by decide
    rw [h1, if_neg (by omega)]
    simp only [Nat.cast_zero, zero_mul, reduceCtorEq, false_iff, not_le]
    positivity
  · rw [← ovf_iff r k f.emax hpos]
    split <;> simp_all

/-- when it does not overflow, the result is the rounded value -/
theorem roundPos_fin (f : Fmt) (n d : ℕ) (e : ℤ) (r : ℕ) (k : ℤ) (h : roundPos f n d e = .fin r k) :
    roundVal f n d e = r * 2 ^ k ∧ k = quantum f (ilog2q n d e) := by
  rw [roundPos_unfold] at h
  unfold roundVal
  split at h
  · cases h
  · injection h with h1 h2
    subst h1 h2
    exact ⟨rfl, rfl⟩

/-- order of rounding outcomes: overflow (∞) is the largest -/
def Rounded.le : Rounded → Rounded → Prop
  | _, .ovf => True
  | .ovf, .fin _ _ => False
  | .fin r k, .fin r' k' => (r : ℚ) * 2 ^ k ≤ (r' : ℚ) * 2 ^ k'

/-- `roundPos` is monotone -/
theorem roundPos_mono (f : Fmt) (n d n' d' : ℕ) (e e' : ℤ) (hn : 0 < n) (hd : 0 < d) (hn' : 0 < n') (hd' : 0 < d')
    (hp : 1 ≤ f.p) (hq : f.qmin ≤ f.emax) (h : valQ n d e ≤ valQ n' d' e') :
    Rounded.le (roundPos f n d e) (roundPos f n' d' e') := by
  have hm := roundVal_mono f n d n' d' e e' hn hd hn' hd' hp h
  have o1 := roundPos_ovf_iff f n d e hn hd hp hq
  have o2 := roundPos_ovf_iff f n' d' e' hn' hd' hp hq
  cases h2 : roundPos f n' d' e' with
  | ovf => cases roundPos f n d e <;> trivial
  | fin r' k' =>
    have hv' := (roundPos_fin f n' d' e' r' k' h2).1
    cases h1 : roundPos f n d e with
    | ovf =>
      have := o1.1 h1
      have : roundPos f n' d' e' = .ovf := o2.2 (by linarith)
      rw [h2] at this
      cases this
    | fin r k =>
      have hv := (roundPos_fin f n d e r k h1).1
      show (r : ℚ) * 2 ^ k ≤ (r' : ℚ) * 2 ^ k'
      rw [← hv, ← hv']
      exact hm

/-- a value `m * 2^j` with `m < 2^p` and `j ≥ qmin` is representable: rounding returns it unchanged -/
theorem roundVal_exact (f : Fmt) (m : ℕ) (j : ℤ) (hm : 0 < m) (hmp : m < 2 ^ f.p) (hj : f.qmin ≤ j) :
    roundVal f m 1 j = m * 2 ^ j := by
  unfold roundVal
  rw [ilog2q_one m j (by omega)]
  have hL : m.log2 < f.p := log2_lt_of_lt m f.p (by omega) hmp
  have hk : quantum f ((m.log2 : ℤ) + j) = Max.max ((m.log2 : ℤ) + j - ((f.p : ℤ) - 1)) f.qmin := rfl
  generalize quantum f ((m.log2 : ℤ) + j) = k at *
  have hkj : k ≤ j := by omega
  unfold rneScaled
  rw [if_pos (by omega), rne_one, Nat.shiftLeft_eq]
  push_cast
  rw [mul_assoc, ← zpow_natCast, ← zpow_add₀ (by norm_num : (2 : ℚ) ≠ 0)]
  congr 2
  omega

/-- rounding is idempotent: a rounding result with fewer than `2^p` units is a fixed point -/
theorem roundPos_idem (f : Fmt) (n d : ℕ) (e : ℤ) (r : ℕ) (k : ℤ)
    (h : roundPos f n d e = .fin r k) (hr : 0 < r) (hrp : r < 2 ^ f.p) :
    roundVal f r 1 k = roundVal f n d e := by
  obtain ⟨hv, hk⟩ := roundPos_fin f n d e r k h
  rw [hv]
  apply roundVal_exact f r k hr hrp
  rw [hk]
  unfold quantum
  omega

/-- ties go to even: if the exact value is halfway between two consecutive multiples of the quantum, the
    chosen multiple is even -/
theorem roundPos_tie_even (f : Fmt) (n d : ℕ) (e : ℤ) (hd : 0 < d) (r : ℕ) (k : ℤ) (z : ℕ)
    (h : roundPos f n d e = .fin r k) (hv : valQ n d e = ((z : ℚ) + 1 / 2) * 2 ^ k) : r % 2 = 0 := by
  rw [roundPos_unfold] at h
  split at h
  · cases h
  · injection h with h1 h2
    rw [h2] at h1
    subst h1
    obtain ⟨a, b, hb, hr, hab⟩ := rneScaled_eq n d (e - k) hd
    rw [hr]
    have pk := two_zpow_pos k
    have hbq : (0 : ℚ) < b := by exact_mod_cast hb
    rw [valQ_split n d e k, ← hab] at hv
    have hv2 : (a : ℚ) / b = (z : ℚ) + 1 / 2 := mul_right_cancel₀ pk.ne' hv
    rw [div_eq_iff hbq.ne'] at hv2
    have hnat : 2 * a = 2 * (b * z) + b := by
      have : (2 : ℚ) * a = 2 * (b * z) + b := by rw [hv2]; ring
      exact_mod_cast this
    apply rne_tie_even
    -- a = b * z + b / 2
    have hdiv : a / b = z ∧ a % b = a - b * z := by
      have hlt : a - b * z < b := by omega
      have heq : a = b * z + (a - b * z) := by omega
      constructor
      · rw [heq, Nat.mul_add_div hb, Nat.div_eq_of_lt hlt]; omega
      · conv => lhs; rw [heq]
        rw [Nat.mul_add_mod, Nat.mod_eq_of_lt hlt]
    rw [hdiv.2]
    omega

/-! ### the order of dyadics is the order of the rationals they denote -/

/-- the rational number denoted by a dyadic -/
def Dy.toQ (x : Dy) : ℚ := (if x.neg then -(x.m : ℚ) else x.m) * 2 ^ x.e

theorem Dy.scaled_toQ (x : Dy) (k : ℤ) (hk : k ≤ x.e) : ((x.scaled k : ℤ) : ℚ) = x.toQ * 2 ^ (-k) := by
  unfold Dy.scaled Dy.toQ
  simp only [Nat.shiftLeft_eq]
  have two_ne : (2 : ℚ) ≠ 0 := by norm_num
  have e1 : (2 : ℚ) ^ x.e * 2 ^ (-k) = 2 ^ (x.e - k).toNat := by
    rw [← zpow_add₀ two_ne, ← zpow_natCast]
    congr 1
    omega
  cases x.neg
  · simp only [Bool.false_eq_true, if_false]
    push_cast
    rw [mul_assoc, e1]
  · simp only [if_true]
    push_cast
    rw [mul_assoc, e1, neg_mul]

theorem Dy.lt_iff_toQ (x y : Dy) : x.lt y = true ↔ x.toQ < y.toQ := by
  rw [Dy.lt, decide_eq_true_iff]
  have hx := Dy.scaled_toQ x (Min.min x.e y.e) (by omega)
  have hy := Dy.scaled_toQ y (Min.min x.e y.e) (by omega)
  have pk := two_zpow_pos (-(Min.min x.e y.e))
  constructor
  · intro h
    have : ((x.scaled (Min.min x.e y.e) : ℤ) : ℚ) < (y.scaled (Min.min x.e y.e) : ℤ) := by exact_mod_cast h
    rw [hx, hy] at this
    exact lt_of_mul_lt_mul_right this pk.le
  · intro h
    have : ((x.scaled (Min.min x.e y.e) : ℤ) : ℚ) < (y.scaled (Min.min x.e y.e) : ℤ) := by
      rw [hx, hy]; exact mul_lt_mul_of_pos_right h pk
    exact_mod_cast this

theorem Dy.veq_iff_toQ (x y : Dy) : x.veq y = true ↔ x.toQ = y.toQ := by
  rw [Dy.veq, decide_eq_true_iff]
  have hx := Dy.scaled_toQ x (Min.min x.e y.e) (by omega)
  have hy := Dy.scaled_toQ y (Min.min x.e y.e) (by omega)
  have pk := two_zpow_pos (-(Min.min x.e y.e))
  constructor
  · intro h
    have : ((x.scaled (Min.min x.e y.e) : ℤ) : ℚ) = (y.scaled (Min.min x.e y.e) : ℤ) := by exact_mod_cast h
    rw [hx, hy] at this
    exact mul_right_cancel₀ pk.ne' this
  · intro h
    have : ((x.scaled (Min.min x.e y.e) : ℤ) : ℚ) = (y.scaled (Min.min x.e y.e) : ℤ) := by
      rw [hx, hy, h]
    exact_mod_cast this

end Rlib.F80
