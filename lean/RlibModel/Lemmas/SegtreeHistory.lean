import RlibModel.Lemmas.SegtreeSearch
/-!
Helper lemmas for C01/C02: the refinement invariant between the modelled `Seg` and the plain list, one lemma
per public operation, the three constructors, and the bridge between the linear scans of
`Lemmas/SegtreeSearch.lean` and the declarative `Spec.first` / `Spec.last` (`find?` over all candidates).
-/
namespace Rlib.Segtree

variable {T M A : Type}

theorem find?_congr_mem {α : Type} (l : List α) (p q : α → Bool) (h : ∀ a ∈ l, p a = q a) :
    l.find? p = l.find? q := by
  induction l with
  | nil => rfl
  | cons a as ih =>
    rw [List.find?_cons, List.find?_cons, h a (List.mem_cons_self ..),
      ih (fun b hb => h b (List.mem_cons_of_mem _ hb))]

/-- the rightward scan returns the first candidate (in increasing order) whose prefix satisfies `g` -/
theorem scanG_succ_find (h : A → A → A) (g : A → Bool) : ∀ (ys : List A) (c : A) (i : Nat),
    (scanG h (· + 1) g c ys i).2 =
      (List.range' i ys.length).find? (fun r => g ((ys.take (r - i + 1)).foldl h c)) := by
  intro ys
  induction ys with
  | nil => intro c i; rfl
  | cons a as ih =>
    intro c i
    rw [List.length_cons, List.range'_succ, List.find?_cons]
    simp only [scanG, Nat.sub_self, Nat.zero_add, List.take_succ_cons, List.take_zero, List.foldl_cons, List.foldl_nil]
    by_cases hg : g (h c a)
    · simp [hg]
    · simp only [hg, Bool.false_eq_true, if_false]
      rw [ih]
      apply find?_congr_mem
      intro r hr
      rw [List.mem_range'_1] at hr
      rw [show r - (i + 1) + 1 = r - i by omega]

/-- the leftward scan returns the first candidate (in decreasing order) whose prefix satisfies `g` -/
theorem scanG_pred_find (h : A → A → A) (g : A → Bool) : ∀ (zs : List A) (c : A) (i : Nat), zs.length ≤ i + 1 →
    (scanG h (· - 1) g c zs i).2 =
      (List.range' (i + 1 - zs.length) zs.length).reverse.find? (fun k => g ((zs.take (i - k + 1)).foldl h c)) := by
  intro zs
  induction zs with
  | nil => intro c i _; rfl
  | cons a as ih =>
    intro c i hlen
    rw [List.length_cons] at hlen
    rw [List.length_cons, List.range'_concat, List.reverse_append, List.reverse_singleton, List.singleton_append,
      List.find?_cons]
    have e0 : i + 1 - (as.length + 1) + 1 * as.length = i := by omega
    rw [e0]
    simp only [scanG, Nat.sub_self, Nat.zero_add, List.take_succ_cons, List.take_zero, List.foldl_cons, List.foldl_nil]
    by_cases hg : g (h c a)
    · simp [hg]
    · simp only [hg, Bool.false_eq_true, if_false]
      cases hl : as.length with
      | zero =>
        have : as = [] := List.eq_nil_of_length_eq_zero hl
        subst this; rfl
      | succ n =>
        rw [ih _ _ (by omega), hl]
        have e1 : i - 1 + 1 - (n + 1) = i + 1 - (n + 1 + 1) := by omega
        rw [e1]
        apply find?_congr_mem
        intro k hk
        rw [List.mem_reverse, List.mem_range'_1] at hk
        rw [show i - 1 - k + 1 = i - k by omega]

variable (I : Item T M A)

theorem val_foldl_merge (L : Lawful I) (ys : List T) (x : T) :
    I.val (ys.foldl I.merge x) = (ys.map I.val).foldl I.op (I.val x) := by
  induction ys generalizing x with
  | nil => rfl
  | cons y ys ih => rw [List.foldl_cons, ih, List.map_cons, List.foldl_cons, L.val_merge]

theorem val_foldr_merge (L : Lawful I) (ys : List T) (x : T) :
    I.val (ys.foldr I.merge x) = (ys.map I.val).foldr I.op (I.val x) := by
  induction ys with
  | nil => rfl
  | cons y ys ih => rw [List.foldr_cons, L.val_merge, ih, List.map_cons, List.foldr_cons]

theorem foldO_cons_foldl (L : Lawful I) (a : A) (as : List A) : foldO I (a :: as) = some (as.foldl I.op a) := by
  induction as generalizing a with
  | nil => rfl
  | cons b bs ih =>
    rw [foldO_cons, ih, oplus_some_some, List.foldl_cons]
    have := foldl_of_foldO I L (b :: bs) a _ (ih b)
    rw [List.foldl_cons] at this
    rw [this]

theorem take_slice {α : Type} (ys : List α) (a b k : Nat) (h : a + k ≤ b) :
    (slice ys a b).take k = slice ys a (a + k) := by
  simp only [slice, List.take_take]
  congr 1; omega

theorem slice_cons {α : Type} (ys : List α) (a b : Nat) (h1 : a < b) (h2 : a < ys.length) :
    slice ys a b = ys[a] :: slice ys (a + 1) b := by
  simp only [slice]
  rw [List.drop_eq_getElem_cons h2, show b - a = (b - (a + 1)) + 1 by omega, List.take_succ_cons]

/-! ### the refinement invariant -/

/-- the model state `s` represents the plain list `xs` -/
structure Inv (s : Seg T) (xs : List T) : Prop where
  len : s.n = xs.length
  pos : 0 < xs.length
  wf : WF I s.t
  shaped : Shaped s.t 0 (s.n - 1)
  den : den I s.t = xs.map I.val

/-- `f` is monotone along the ranges that start at `l` -/
def MonoFwd (xs : List T) (l : Nat) (f : T → Bool) : Prop :=
  ∀ i j, l ≤ i → i ≤ j → j < xs.length → f (Spec.aggFwd I xs l i) = true → f (Spec.aggFwd I xs l j) = true

/-- `f` is monotone along the ranges that end at `r` -/
def MonoBwd (xs : List T) (r : Nat) (f : T → Bool) : Prop :=
  ∀ i j, j ≤ i → i ≤ r → f (Spec.aggBwd I xs i r) = true → f (Spec.aggBwd I xs j r) = true

theorem val_aggFwd (L : Lawful I) (xs : List T) (l r : Nat) :
    I.val (Spec.aggFwd I xs l r) = (slice (xs.map I.val) l (r + 1)).foldl I.op (I.val I.dflt) := by
  rw [Spec.aggFwd, val_foldl_merge I L, slice_map]

theorem val_aggBwd (L : Lawful I) (xs : List T) (l r : Nat) :
    I.val (Spec.aggBwd I xs l r) = (slice (xs.map I.val) l (r + 1)).foldr I.op (I.val I.dflt) := by
  rw [Spec.aggBwd, val_foldr_merge I L, slice_map]

theorem monoOn_of_monoFwd (L : Lawful I) (xs : List T) (l : Nat) (f : T → Bool) (g : A → Bool)
    (hf : ∀ x, f x = g (I.val x)) (hl : l < xs.length) (hm : MonoFwd I xs l f) :
    MonoOn I.op g (I.val I.dflt) (slice (xs.map I.val) l xs.length) := by
  intro i j hi hij hj hg
  have hlen : (slice (xs.map I.val) l xs.length).length = xs.length - l := by
    rw [slice_length _ _ _ (by simp)]
  rw [hlen] at hj
  rw [take_slice _ _ _ _ (by omega)] at hg ⊢
  have := hm (l + i - 1) (l + j - 1) (by omega) (by omega) (by omega)
  rw [hf, hf, val_aggFwd I L, val_aggFwd I L, show l + i - 1 + 1 = l + i by omega,
    show l + j - 1 + 1 = l + j by omega] at this
  exact this hg

theorem reverse_slice_take {α : Type} (ys : List α) (r k : Nat) (hk : k ≤ r) (hr : r < ys.length) :
    ((slice ys 0 (r + 1)).reverse.take (r - k + 1)) = (slice ys k (r + 1)).reverse := by
  have hl : (slice ys 0 (r + 1)).length = r + 1 := by rw [slice_length ys 0 (r + 1) (by omega)]; omega
  have e : r + 1 - (r - k + 1) = k := by omega
  rw [List.take_reverse, hl, e]
  simp only [slice, List.drop_zero, Nat.sub_zero, List.drop_take]

theorem monoOn_of_monoBwd (L : Lawful I) (xs : List T) (r : Nat) (f : T → Bool) (g : A → Bool)
    (hf : ∀ x, f x = g (I.val x)) (hr : r < xs.length) (hm : MonoBwd I xs r f) :
    MonoOn (fun c a => I.op a c) g (I.val I.dflt) (slice (xs.map I.val) 0 (r + 1)).reverse := by
  intro i j hi hij hj hg
  have hlen : (slice (xs.map I.val) 0 (r + 1)).reverse.length = r + 1 := by
    rw [List.length_reverse, slice_length _ _ _ (by simp; omega)]; omega
  rw [hlen] at hj
  have ei : i = r - (r + 1 - i) + 1 := by omega
  have ej : j = r - (r + 1 - j) + 1 := by omega
  rw [ei, reverse_slice_take _ _ _ (by omega) (by simp; omega), foldlR_eq_foldr] at hg
  rw [ej, reverse_slice_take _ _ _ (by omega) (by simp; omega), foldlR_eq_foldr]
  have := hm (r + 1 - i) (r + 1 - j) (by omega) (by omega)
  rw [hf, hf, val_aggBwd I L, val_aggBwd I L] at this
  exact this hg

/-! ### one lemma per operation -/

theorem mapRange_map {α β : Type} (f : α → α) (g : β → β) (v : α → β) (hv : ∀ x, v (f x) = g (v x))
    (a b : Nat) (xs : List α) : (mapRange f a b xs).map v = mapRange g a b (xs.map v) := by
  simp only [mapRange, List.map_append, List.map_take, List.map_drop, slice_map, List.map_map]
  congr 2
  apply List.map_congr_left; intro x _; exact hv x

theorem mapRange_length {α : Type} (f : α → α) (a b : Nat) (xs : List α) (hab : a ≤ b) (hb : b ≤ xs.length) :
    (mapRange f a b xs).length = xs.length := by
  simp only [mapRange, List.length_append, List.length_take, List.length_map, List.length_drop]
  rw [slice_length _ _ _ hb]; omega

theorem set_refines (L : Lawful I) (s : Seg T) (xs : List T) (hI : Inv I s xs) (i : Nat) (x : T) (hi : i < xs.length) :
    ∃ s', s.set I i x = .ok s' ∧ Spec.set xs i x = .ok (xs.set i x) ∧ Inv I s' (xs.set i x) := by
  have hn := hI.len
  refine ⟨⟨s.n, setI I s.t i x 0 (s.n - 1)⟩, ?_, ?_, ?_⟩
  · simp [Seg.set, hn, hi]
  · simp [Spec.set, hi]
  · obtain ⟨e, w, sh⟩ := set_spec I L x s.t i 0 (s.n - 1) hI.wf hI.shaped (Nat.zero_le _) (by omega)
    exact ⟨by simp [hn], by simpa using hI.pos, w, sh, by rw [e, hI.den, Nat.sub_zero, List.map_set]⟩

theorem modify_refines (L : Lawful I) (s : Seg T) (xs : List T) (hI : Inv I s xs) (l r : Nat) (m : M)
    (hlr : l ≤ r) (hr : r < xs.length) :
    ∃ s', s.modify I l r m = .ok s' ∧
      Spec.modify I xs l r m = .ok (mapRange (fun x => I.modify x m) l (r + 1) xs) ∧
      Inv I s' (mapRange (fun x => I.modify x m) l (r + 1) xs) := by
  have hn := hI.len
  refine ⟨⟨s.n, modifyI I s.t l r m 0 (s.n - 1)⟩, ?_, ?_, ?_⟩
  · simp [Seg.modify, hn, hlr, hr]
  · simp [Spec.modify, hlr, hr]
  · obtain ⟨e, w, sh⟩ := modify_spec I L m s.t l r 0 (s.n - 1) hI.wf hI.shaped (Nat.zero_le _) hlr (by omega)
    have hlen := mapRange_length (fun x => I.modify x m) l (r + 1) xs (by omega) (by omega)
    refine ⟨by simp [hn, hlen], by rw [hlen]; exact hI.pos, w, sh, ?_⟩
    rw [e, hI.den, Nat.sub_zero, Nat.sub_zero, mapRange_map _ (I.act m) I.val (fun x => L.val_modify x m)]

theorem ask_refines (L : Lawful I) (s : Seg T) (xs : List T) (hI : Inv I s xs) (l r : Nat)
    (hlr : l ≤ r) (hr : r < xs.length) :
    ∃ x s' a, s.ask I l r = .ok (x, s') ∧ Spec.ask I xs l r = .ok a ∧ I.val x = a ∧ Inv I s' xs := by
  have hn := hI.len
  obtain ⟨e, d, w, sh⟩ := ask_spec I L s.t l r 0 (s.n - 1) hI.wf hI.shaped (Nat.zero_le _) hlr (by omega)
  refine ⟨(ask I s.t l r 0 (s.n - 1)).1, ⟨s.n, (ask I s.t l r 0 (s.n - 1)).2⟩,
    I.val ((slice xs (l + 1) (r + 1)).foldl I.merge (xs[l]'(by omega))), ?_, ?_, ?_, ?_⟩
  · simp [Seg.ask, hn, hlr, hr]
  · simp only [Spec.ask, hlr, hr, not_true_eq_false, dite_false]
  · rw [hI.den, Nat.sub_zero, Nat.sub_zero, slice_map,
      slice_cons xs l (r + 1) (by omega) (by omega), List.map_cons, foldO_cons_foldl I L,
      ← val_foldl_merge I L] at e
    exact Option.some.inj e
  · exact ⟨hn, hI.pos, w, sh, by rw [d, hI.den]⟩

theorem lowerBound_refines (L : Lawful I) (s : Seg T) (xs : List T) (hI : Inv I s xs) (l : Nat) (f : T → Bool)
    (g : A → Bool) (hf : ∀ x, f x = g (I.val x)) (hl : l < xs.length) (hm : MonoFwd I xs l f) :
    (s.lowerBound I l f).1 = Spec.first I xs l f ∧ Inv I (s.lowerBound I l f).2.2 xs ∧
    ∀ kp ∈ (s.lowerBound I l f).2.1, l ≤ kp.1 ∧ kp.1 < xs.length ∧ I.val kp.2 = I.val (Spec.aggFwd I xs l kp.1) := by
  have hn := hI.len
  have hmo := monoOn_of_monoFwd I L xs l f g hf hl hm
  have hsl : slice (den I s.t) (l - 0) (s.n - 1 + 1 - 0) = slice (xs.map I.val) l xs.length := by
    rw [hI.den, hn]; congr 1; have := hI.pos; omega
  obtain ⟨e, d, w, sh, lg⟩ := lb_spec I L f g hf s.t I.dflt l 0 (s.n - 1) hI.wf hI.shaped (Nat.zero_le _) (by omega)
    (by rw [hsl]; exact hmo)
  refine ⟨?_, (show Inv I ⟨s.n, (lb I s.t I.dflt f l 0 (s.n - 1)).tree⟩ xs from
    ⟨hn, hI.pos, w, sh, by rw [d, hI.den]⟩), ?_⟩
  · have e2 := congrArg Prod.snd e
    simp only [Seg.lowerBound] at e2 ⊢
    rw [e2, hsl, scan, scanG_succ_find, Spec.first, slice_length _ _ _ (by simp)]
    apply find?_congr_mem
    intro r hr
    rw [List.mem_range'_1] at hr
    rw [hf, val_aggFwd I L, take_slice _ _ _ _ (by omega)]
    congr 3; omega
  · intro kp hk
    obtain ⟨a, b, c⟩ := lg kp hk
    refine ⟨a, by omega, ?_⟩
    rw [c, val_aggFwd I L, hI.den]; rfl

theorem lowerBoundRev_refines (L : Lawful I) (s : Seg T) (xs : List T) (hI : Inv I s xs) (r : Nat) (f : T → Bool)
    (g : A → Bool) (hf : ∀ x, f x = g (I.val x)) (hr : r < xs.length) (hm : MonoBwd I xs r f) :
    (s.lowerBoundRev I r f).1 = Spec.last I xs r f ∧ Inv I (s.lowerBoundRev I r f).2.2 xs ∧
    ∀ kp ∈ (s.lowerBoundRev I r f).2.1, kp.1 ≤ r ∧ I.val kp.2 = I.val (Spec.aggBwd I xs kp.1 r) := by
  have hn := hI.len
  have hmo := monoOn_of_monoBwd I L xs r f g hf hr hm
  have hsl : slice (den I s.t) 0 (r + 1 - 0) = slice (xs.map I.val) 0 (r + 1) := by
    rw [hI.den]; rfl
  obtain ⟨e, d, w, sh, lg⟩ := lbr_spec I L f g hf s.t I.dflt r 0 (s.n - 1) hI.wf hI.shaped (Nat.zero_le _) (by omega)
    (by rw [hsl]; exact hmo)
  refine ⟨?_, (show Inv I ⟨s.n, (lbr I s.t I.dflt f r 0 (s.n - 1)).tree⟩ xs from
    ⟨hn, hI.pos, w, sh, by rw [d, hI.den]⟩), ?_⟩
  · have e2 := congrArg Prod.snd e
    simp only [Seg.lowerBoundRev] at e2 ⊢
    have hlen : (slice (xs.map I.val) 0 (r + 1)).reverse.length = r + 1 := by
      rw [List.length_reverse, slice_length _ _ _ (by simp; omega)]; omega
    rw [e2, hsl, scanR, scanG_pred_find _ _ _ _ _ (by omega), Spec.last, hlen, Nat.sub_self]
    apply find?_congr_mem
    intro k hk
    rw [List.mem_reverse, List.mem_range'_1] at hk
    rw [hf, val_aggBwd I L, reverse_slice_take _ _ _ (by omega) (by simp; omega), foldlR_eq_foldr]
  · intro kp hk
    obtain ⟨a, b, c⟩ := lg kp hk
    refine ⟨b, ?_⟩
    rw [c, val_aggBwd I L, hI.den]; rfl

/-- for **any** predicate (monotone or not, looking at anything): the search leaves a state that still represents
    `xs`, and every value it shows to the predicate observes the aggregate of a range `[l, k]` of the plain list -/
theorem lowerBound_probes (L : Lawful I) (s : Seg T) (xs : List T) (hI : Inv I s xs) (l : Nat) (f : T → Bool)
    (hl : l < xs.length) :
    Inv I (s.lowerBound I l f).2.2 xs ∧
    ∀ kp ∈ (s.lowerBound I l f).2.1, l ≤ kp.1 ∧ kp.1 < xs.length ∧ I.val kp.2 = I.val (Spec.aggFwd I xs l kp.1) := by
  have hn := hI.len
  obtain ⟨d, w, sh, lg, _⟩ := lb_log I L f s.t I.dflt l 0 (s.n - 1) hI.wf hI.shaped (Nat.zero_le _) (by omega)
  refine ⟨(show Inv I ⟨s.n, (lb I s.t I.dflt f l 0 (s.n - 1)).tree⟩ xs from
    ⟨hn, hI.pos, w, sh, by rw [d, hI.den]⟩), ?_⟩
  intro kp hk
  obtain ⟨a, b, c⟩ := lg kp hk
  refine ⟨a, by omega, ?_⟩
  rw [c, val_aggFwd I L, hI.den]; rfl

theorem lowerBoundRev_probes (L : Lawful I) (s : Seg T) (xs : List T) (hI : Inv I s xs) (r : Nat) (f : T → Bool)
    (hr : r < xs.length) :
    Inv I (s.lowerBoundRev I r f).2.2 xs ∧
    ∀ kp ∈ (s.lowerBoundRev I r f).2.1, kp.1 ≤ r ∧ I.val kp.2 = I.val (Spec.aggBwd I xs kp.1 r) := by
  have hn := hI.len
  obtain ⟨d, w, sh, lg, _⟩ := lbr_log I L f s.t I.dflt r 0 (s.n - 1) hI.wf hI.shaped (Nat.zero_le _) (by omega)
  refine ⟨(show Inv I ⟨s.n, (lbr I s.t I.dflt f r 0 (s.n - 1)).tree⟩ xs from
    ⟨hn, hI.pos, w, sh, by rw [d, hI.den]⟩), ?_⟩
  intro kp hk
  obtain ⟨a, b, c⟩ := lg kp hk
  refine ⟨b, ?_⟩
  rw [c, val_aggBwd I L, hI.den]; rfl

theorem debugLoop_spec (L : Lawful I) (n : Nat) (xs : List T) : ∀ (fuel i : Nat) (t : Tree T),
    Inv I ⟨n, t⟩ xs → i + fuel = n →
    (debugLoop I n t i fuel).1.map I.val = (xs.map I.val).drop i ∧ Inv I ⟨n, (debugLoop I n t i fuel).2⟩ xs := by
  intro fuel
  induction fuel with
  | zero =>
    intro i t hI hi
    have hn : n = xs.length := hI.len
    refine ⟨?_, hI⟩
    simp only [debugLoop, List.map_nil]
    rw [List.drop_eq_nil_of_le (by simp; omega)]
  | succ fuel ih =>
    intro i t hI hi
    have hn : n = xs.length := hI.len
    obtain ⟨x, s', a, e1, e2, e3, e4⟩ := ask_refines I L ⟨n, t⟩ xs hI i i (Nat.le_refl _) (by omega)
    have hq : (ask I t i i 0 (n - 1)) = (x, s'.t) ∧ s'.n = n := by
      simp only [Seg.ask, Nat.le_refl, not_true_eq_false, if_false] at e1
      rw [if_neg (by omega)] at e1
      have := Except.ok.inj e1
      obtain ⟨hx, hs⟩ := Prod.mk.inj this
      constructor
      · rw [← hx, ← hs]
      · rw [← hs]
    obtain ⟨hq1, hq2⟩ := hq
    have hI' : Inv I ⟨n, s'.t⟩ xs := by
      have : s' = ⟨n, s'.t⟩ := by cases s'; simp at hq2; subst hq2; rfl
      rw [← this]; exact e4
    obtain ⟨j1, j2⟩ := ih (i + 1) s'.t hI' (by omega)
    simp only [debugLoop, hq1]
    refine ⟨?_, j2⟩
    rw [List.map_cons, j1, e3]
    have hx : a = (xs.map I.val)[i]'(by simp; omega) := by
      simp only [Spec.ask, Nat.le_refl, not_true_eq_false, dite_false] at e2
      rw [dif_neg (by omega)] at e2
      have := Except.ok.inj e2
      rw [← this]
      simp [slice]
    rw [hx, List.getElem_cons_drop]

/-! ### constructors -/

theorem new_refines (L : Lawful I) (n : Nat) (v : T) (hn : 0 < n) :
    ∃ s, Seg.new I n v = .ok s ∧ Inv I s (List.replicate n v) := by
  refine ⟨⟨n, buildEmpty I v 0 (n - 1)⟩, by simp [Seg.new]; omega, ?_⟩
  obtain ⟨w, sh, d⟩ := buildEmpty_spec I L v 0 (n - 1) (Nat.zero_le _)
  exact ⟨by simp, by simpa using hn, w, sh, by rw [d, List.map_replicate]; congr 1; omega⟩

theorem fromSlice_refines (L : Lawful I) (xs : List T) (hx : xs ≠ []) :
    ∃ s, Seg.fromSlice I xs = .ok s ∧ Inv I s xs := by
  cases xs with
  | nil => exact absurd rfl hx
  | cons x rest =>
    obtain ⟨t, e, w, sh, d⟩ := build_spec I L x _ 0 ((x :: rest).length - 1) (x :: rest) [] rfl (Nat.zero_le _)
      (by simp)
    rw [List.append_nil] at e
    refine ⟨⟨(x :: rest).length, t⟩, ?_, ⟨rfl, by simp, w, sh, d⟩⟩
    simp only [Seg.fromSlice, e]

theorem fromIter_refines (L : Lawful I) (xs : List T) (hx : xs ≠ []) :
    ∃ s, Seg.fromIter I xs = .ok s ∧ Inv I s xs := by
  have hpos : 0 < xs.length := List.length_pos_iff.2 hx
  obtain ⟨t, e, w, sh, d⟩ := build_spec I L I.dflt _ 0 (xs.length - 1) xs [] rfl (Nat.zero_le _) (by omega)
  rw [List.append_nil] at e
  refine ⟨⟨xs.length, t⟩, ?_, ⟨rfl, hpos, w, sh, d⟩⟩
  simp only [Seg.fromIter, e, if_neg (by omega : ¬ xs.length = 0)]

/-! ### histories -/

/-- what the property assumes about one operation: searches start inside the array and use a predicate that
    only looks at the observable value and is monotone along the ranges it is asked about -/
def OpOK (xs : List T) : Op T M → Prop
  | .lb l f => l < xs.length ∧ (∃ g : A → Bool, ∀ x, f x = g (I.val x)) ∧ MonoFwd I xs l f
  | .lbr r f => r < xs.length ∧ (∃ g : A → Bool, ∀ x, f x = g (I.val x)) ∧ MonoBwd I xs r f
  | _ => True

/-- every operation of the history is admissible in the state the specification is in at that point -/
def OpsOK : List T → List (Op T M) → Prop
  | _, [] => True
  | xs, o :: os => OpOK I xs o ∧ OpsOK (Spec.step I xs o).2 os

theorem step_refines (L : Lawful I) (s : Seg T) (xs : List T) (hI : Inv I s xs) (o : Op T M) (hok : OpOK I xs o) :
    (s.step I o).1 = (Spec.step I xs o).1 ∧ Inv I (s.step I o).2 (Spec.step I xs o).2 := by
  have hn := hI.len
  cases o with
  | set i x =>
    by_cases hi : i < xs.length
    · obtain ⟨s', e1, e2, e3⟩ := set_refines I L s xs hI i x hi
      simp only [Seg.step, Spec.step, e1, e2]; exact ⟨trivial, e3⟩
    · have e1 : s.set I i x = .error .assert := by simp [Seg.set, hn, hi]
      have e2 : Spec.set xs i x = .error .assert := by simp [Spec.set, hi]
      simp only [Seg.step, Spec.step, e1, e2]; exact ⟨trivial, hI⟩
  | modify l r m =>
    by_cases hlr : l ≤ r
    · by_cases hr : r < xs.length
      · obtain ⟨s', e1, e2, e3⟩ := modify_refines I L s xs hI l r m hlr hr
        simp only [Seg.step, Spec.step, e1, e2]; exact ⟨trivial, e3⟩
      · have e1 : s.modify I l r m = .error .assert := by simp [Seg.modify, hn, hlr, hr]
        have e2 : Spec.modify I xs l r m = .error .assert := by simp [Spec.modify, hlr, hr]
        simp only [Seg.step, Spec.step, e1, e2]; exact ⟨trivial, hI⟩
    · have e1 : s.modify I l r m = .error .assert := by simp [Seg.modify, hlr]
      have e2 : Spec.modify I xs l r m = .error .assert := by simp [Spec.modify, hlr]
      simp only [Seg.step, Spec.step, e1, e2]; exact ⟨trivial, hI⟩
  | ask l r =>
    by_cases hlr : l ≤ r
    · by_cases hr : r < xs.length
      · obtain ⟨x, s', a, e1, e2, e3, e4⟩ := ask_refines I L s xs hI l r hlr hr
        simp only [Seg.step, Spec.step, e1, e2, e3]; exact ⟨trivial, e4⟩
      · have e1 : s.ask I l r = .error .assert := by simp [Seg.ask, hn, hlr, hr]
        have e2 : Spec.ask I xs l r = .error .assert := by simp [Spec.ask, hlr, hr]
        simp only [Seg.step, Spec.step, e1, e2]; exact ⟨trivial, hI⟩
    · have e1 : s.ask I l r = .error .assert := by simp [Seg.ask, hlr]
      have e2 : Spec.ask I xs l r = .error .assert := by simp [Spec.ask, hlr]
      simp only [Seg.step, Spec.step, e1, e2]; exact ⟨trivial, hI⟩
  | lb l f =>
    obtain ⟨hl, ⟨g, hf⟩, hm⟩ := hok
    obtain ⟨e1, e2, _⟩ := lowerBound_refines I L s xs hI l f g hf hl hm
    simp only [Seg.step, Spec.step, e1]; exact ⟨trivial, e2⟩
  | lbr r f =>
    obtain ⟨hr, ⟨g, hf⟩, hm⟩ := hok
    obtain ⟨e1, e2, _⟩ := lowerBoundRev_refines I L s xs hI r f g hf hr hm
    simp only [Seg.step, Spec.step, e1]; exact ⟨trivial, e2⟩
  | dbg =>
    have hI' : Inv I ⟨s.n, s.t⟩ xs := by cases s; exact hI
    obtain ⟨e1, e2⟩ := debugLoop_spec I L s.n xs s.n 0 s.t hI' (by omega)
    simp only [Seg.step, Spec.step, Seg.debug, e1, List.drop_zero]; exact ⟨trivial, e2⟩

theorem run_refines (L : Lawful I) : ∀ (ops : List (Op T M)) (s : Seg T) (xs : List T), Inv I s xs → OpsOK I xs ops →
    s.run I ops = Spec.run I xs ops := by
  intro ops
  induction ops with
  | nil => intro s xs _ _; rfl
  | cons o os ih =>
    intro s xs hI hok
    obtain ⟨e1, e2⟩ := step_refines I L s xs hI o hok.1
    simp only [Seg.run, Spec.run, e1]
    rw [ih _ _ e2 hok.2]

/-! ### the executable monotonicity test of the driver is sound -/

theorem monoFlags_sound : ∀ (bs : List Bool), Spec.monoFlags bs = true →
    ∀ i j (hi : i ≤ j) (hj : j < bs.length), bs[i]'(by omega) = true → bs[j] = true := by
  intro bs
  induction bs with
  | nil => intro _ i j _ hj; simp at hj
  | cons b bs ih =>
    intro h i j hij hj hbi
    simp only [Spec.monoFlags] at h
    cases b with
    | true =>
      simp only [if_true, List.all_eq_true, id] at h
      cases j with
      | zero => rfl
      | succ j => exact h _ (List.getElem_mem _)
    | false =>
      simp only [Bool.false_eq_true, if_false] at h
      cases i with
      | zero => simp at hbi
      | succ i =>
        cases j with
        | zero => omega
        | succ j =>
          simp only [List.getElem_cons_succ] at hbi ⊢
          exact ih h i j (by omega) (by simpa using hj) hbi

theorem monoFwd_sound (xs : List T) (l : Nat) (f : T → Bool) (h : Spec.monoFwd I xs l f = true) :
    MonoFwd I xs l f := by
  intro i j hli hij hj hfi
  have := monoFlags_sound _ h (i - l) (j - l) (by omega) (by simp; omega)
  simp only [List.getElem_map, List.getElem_range'] at this
  rw [show l + 1 * (i - l) = i by omega, show l + 1 * (j - l) = j by omega] at this
  exact this hfi

theorem monoBwd_sound (xs : List T) (r : Nat) (f : T → Bool) (h : Spec.monoBwd I xs r f = true) :
    MonoBwd I xs r f := by
  intro i j hji hir hfi
  have := monoFlags_sound _ h (r - i) (r - j) (by omega) (by simp; omega)
  simp only [List.getElem_map, List.getElem_reverse, List.getElem_range', List.length_range'] at this
  rw [show 0 + 1 * (r + 1 - 1 - (r - i)) = i by omega, show 0 + 1 * (r + 1 - 1 - (r - j)) = j by omega] at this
  exact this hfi

/-! ### what the declarative specification of the searches means -/

theorem mem_slice {α : Type} (ys : List α) (a b : Nat) (x : α) (h : x ∈ slice ys a b) : x ∈ ys :=
  List.mem_of_mem_drop (List.mem_of_mem_take h)

theorem foldO_concat_foldr (ys : List A) (z : A) : foldO I (ys ++ [z]) = some (ys.foldr I.op z) := by
  induction ys with
  | nil => rfl
  | cons a ys ih => rw [List.cons_append, foldO_cons, ih, oplus_some_some, List.foldr_cons]

/-- with `default` a left identity on the elements, the aggregate shown to a rightward search is the in-order
    fold of exactly `[l, r]` -/
theorem aggFwd_is_fold (L : Lawful I) (xs : List T) (l r : Nat) (hlr : l ≤ r) (hr : r < xs.length)
    (hid : ∀ a ∈ xs.map I.val, I.op (I.val I.dflt) a = a) :
    some (I.val (Spec.aggFwd I xs l r)) = foldO I (slice (xs.map I.val) l (r + 1)) := by
  rw [val_aggFwd I L, slice_cons (xs.map I.val) l (r + 1) (by omega) (by simp; omega), List.foldl_cons,
    hid _ (List.getElem_mem _), foldO_cons_foldl I L]

/-- mirror image, with `default` a right identity -/
theorem aggBwd_is_fold (L : Lawful I) (xs : List T) (l r : Nat) (hlr : l ≤ r) (hr : r < xs.length)
    (hid : ∀ a ∈ xs.map I.val, I.op a (I.val I.dflt) = a) :
    some (I.val (Spec.aggBwd I xs l r)) = foldO I (slice (xs.map I.val) l (r + 1)) := by
  rw [val_aggBwd I L]
  have hne : slice (xs.map I.val) l (r + 1) ≠ [] := by
    intro h
    have := slice_length (xs.map I.val) l (r + 1) (by simp; omega)
    rw [h] at this; simp at this; omega
  have hz := List.getLast_mem hne
  rw [← List.dropLast_concat_getLast hne, List.foldr_append, List.foldr_cons, List.foldr_nil,
    hid _ (mem_slice _ _ _ _ hz), foldO_concat_foldr]

theorem find?_rev_range (p : Nat → Bool) : ∀ n,
    ((List.range' 0 n).reverse.find? p = none ∧ ∀ k, k < n → p k = false) ∨
    (∃ k, (List.range' 0 n).reverse.find? p = some k ∧ k < n ∧ p k = true ∧ ∀ k', k < k' → k' < n → p k' = false) := by
  intro n
  induction n with
  | zero => left; exact ⟨rfl, fun k hk => absurd hk (Nat.not_lt_zero k)⟩
  | succ n ih =>
    rw [List.range'_concat, List.reverse_append, List.reverse_singleton, List.singleton_append, List.find?_cons]
    simp only [Nat.zero_add, Nat.one_mul]
    cases hp : p n with
    | true =>
      right
      exact ⟨n, rfl, by omega, hp, fun k' h1 h2 => by omega⟩
    | false =>
      rcases ih with ⟨h1, h2⟩ | ⟨k, h1, h2, h3, h4⟩
      · left
        refine ⟨h1, fun k hk => ?_⟩
        by_cases hkn : k = n
        · subst hkn; exact hp
        · exact h2 k (by omega)
      · right
        refine ⟨k, h1, by omega, h3, fun k' hk1 hk2 => ?_⟩
        by_cases hkn : k' = n
        · subst hkn; exact hp
        · exact h4 k' hk1 (by omega)

theorem find?_range_cases (p : Nat → Bool) (s n : Nat) :
    ((List.range' s n).find? p = none ∧ ∀ k, s ≤ k → k < s + n → p k = false) ∨
    (∃ k, (List.range' s n).find? p = some k ∧ s ≤ k ∧ k < s + n ∧ p k = true ∧ ∀ k', s ≤ k' → k' < k → p k' = false) := by
  cases h : (List.range' s n).find? p with
  | none =>
    left
    refine ⟨rfl, fun k h1 h2 => ?_⟩
    have := List.find?_range'_eq_none.1 h k h1 h2
    simpa using this
  | some k =>
    right
    obtain ⟨h1, h2, h3⟩ := List.find?_range'_eq_some.1 h
    rw [List.mem_range'_1] at h2
    exact ⟨k, rfl, h2.1, h2.2, h1, fun k' a b => by simpa using h3 k' a b⟩

end Rlib.Segtree
