import RlibModel.Lemmas.Segtree
import RlibModel.Model.SegtreeItems
import Mathlib.Data.Int.ModEq
import Mathlib.Tactic.Ring
/-!
Lawfulness of the concrete items (obligations of C01): the six built-ins, `Combinator` (closure under
products, hence every nesting) and the two exotic harness items; identity laws of their `Default` values
(obligations of C02).
-/
namespace Rlib.Segtree

theorem ite_lt_assoc (a b c : Int) :
    (if (if a < b then a else b) < c then (if a < b then a else b) else c) =
    (if a < (if b < c then b else c) then a else (if b < c then b else c)) := by
  split <;> split <;> (try split) <;> omega

theorem ite_gt_assoc (a b c : Int) :
    (if (if a > b then a else b) > c then (if a > b then a else b) else c) =
    (if a > (if b > c then b else c) then a else (if b > c then b else c)) := by
  split <;> split <;> (try split) <;> omega

theorem minItem_lawful (ty : IntTy) : Lawful (minItem ty) where
  op_assoc := ite_lt_assoc
  act_op := by intro m a b; rfl
  pa_op := by intro x a b; rfl
  val_merge := by intro x y; show (if x.v < y.v then x else y).v = (if x.v < y.v then x.v else y.v); split <;> rfl
  pa_merge := by intro x y a; rfl
  val_update := by intro _ x y; show (if x.v < y.v then x else y).v = (if x.v < y.v then x.v else y.v); split <;> rfl
  pa_update := by intro _ x y a; rfl
  val_modify := by intro x m; rfl
  pa_modify := by intro x m a; rfl
  push_val0 := by intro p l r; rfl
  push_pa0 := by intro p l r a; rfl
  push_val1 := by intro p l r; rfl
  push_pa1 := by intro p l r a; rfl
  push_val2 := by intro p l r; rfl
  push_pa2 := by intro p l r a; rfl

theorem maxItem_lawful (ty : IntTy) : Lawful (maxItem ty) where
  op_assoc := ite_gt_assoc
  act_op := by intro m a b; rfl
  pa_op := by intro x a b; rfl
  val_merge := by intro x y; show (if x.v > y.v then x else y).v = (if x.v > y.v then x.v else y.v); split <;> rfl
  pa_merge := by intro x y a; rfl
  val_update := by intro _ x y; show (if x.v > y.v then x else y).v = (if x.v > y.v then x.v else y.v); split <;> rfl
  pa_update := by intro _ x y a; rfl
  val_modify := by intro x m; rfl
  pa_modify := by intro x m a; rfl
  push_val0 := by intro p l r; rfl
  push_pa0 := by intro p l r a; rfl
  push_val1 := by intro p l r; rfl
  push_pa1 := by intro p l r a; rfl
  push_val2 := by intro p l r; rfl
  push_pa2 := by intro p l r a; rfl

theorem sumItem_lawful : Lawful sumItem where
  op_assoc := by intro a b c; exact Int.add_assoc a b c
  act_op := by intro m a b; rfl
  pa_op := by intro x a b; rfl
  val_merge := by intro x y; rfl
  pa_merge := by intro x y a; rfl
  val_update := by intro _ x y; rfl
  pa_update := by intro _ x y a; rfl
  val_modify := by intro x m; rfl
  pa_modify := by intro x m a; rfl
  push_val0 := by intro p l r; rfl
  push_pa0 := by intro p l r a; rfl
  push_val1 := by intro p l r; rfl
  push_pa1 := by intro p l r a; rfl
  push_val2 := by intro p l r; rfl
  push_pa2 := by intro p l r a; rfl

theorem minAddItem_lawful (ty : IntTy) : Lawful (minAddItem ty) where
  op_assoc := ite_lt_assoc
  act_op := by
    intro m a b
    show (if a < b then a else b) + m = (if a + m < b + m then a + m else b + m)
    split <;> split <;> omega
  pa_op := by
    intro x a b
    show (if a < b then a else b) + x.md = (if a + x.md < b + x.md then a + x.md else b + x.md)
    split <;> split <;> omega
  val_merge := by intro x y; rfl
  pa_merge := by intro x y a; show a + 0 = a; omega
  val_update := by intro _ x y; rfl
  pa_update := by intro _ x y a; show a + 0 = a; omega
  val_modify := by intro x m; rfl
  pa_modify := by intro x m a; show a + (x.md + m) = a + x.md + m; omega
  push_val0 := by intro p l r; rfl
  push_pa0 := by intro p l r a; show a + 0 = a; omega
  push_val1 := by intro p l r; rfl
  push_pa1 := by intro p l r a; show a + (l.md + p.md) = a + l.md + p.md; omega
  push_val2 := by intro p l r; rfl
  push_pa2 := by intro p l r a; show a + (r.md + p.md) = a + r.md + p.md; omega

theorem maxAddItem_lawful (ty : IntTy) : Lawful (maxAddItem ty) where
  op_assoc := ite_gt_assoc
  act_op := by
    intro m a b
    show (if a > b then a else b) + m = (if a + m > b + m then a + m else b + m)
    split <;> split <;> omega
  pa_op := by
    intro x a b
    show (if a > b then a else b) + x.md = (if a + x.md > b + x.md then a + x.md else b + x.md)
    split <;> split <;> omega
  val_merge := by intro x y; rfl
  pa_merge := by intro x y a; show a + 0 = a; omega
  val_update := by intro _ x y; rfl
  pa_update := by intro _ x y a; show a + 0 = a; omega
  val_modify := by intro x m; rfl
  pa_modify := by intro x m a; show a + (x.md + m) = a + x.md + m; omega
  push_val0 := by intro p l r; rfl
  push_pa0 := by intro p l r a; show a + 0 = a; omega
  push_val1 := by intro p l r; rfl
  push_pa1 := by intro p l r a; show a + (l.md + p.md) = a + l.md + p.md; omega
  push_val2 := by intro p l r; rfl
  push_pa2 := by intro p l r a; show a + (r.md + p.md) = a + r.md + p.md; omega

theorem sumAddItem_lawful : Lawful sumAddItem where
  op_assoc := by intro a b c; simp only [sumAddItem, Prod.mk.injEq]; omega
  act_op := by
    intro m a b; simp only [sumAddItem, Prod.mk.injEq, Int.mul_add]
    constructor <;> first | trivial | ac_rfl
  pa_op := by
    intro x a b; simp only [sumAddItem, Prod.mk.injEq, Int.mul_add]
    constructor <;> first | trivial | ac_rfl
  val_merge := by intro x y; rfl
  pa_merge := by intro x y a; simp [sumAddItem]
  val_update := by intro _ x y; rfl
  pa_update := by intro _ x y a; simp [sumAddItem]
  val_modify := by intro x m; rfl
  pa_modify := by
    intro x m a; simp only [sumAddItem, Prod.mk.injEq, Int.add_mul]
    constructor <;> first | trivial | ac_rfl
  push_val0 := by intro p l r; rfl
  push_pa0 := by intro p l r a; simp [sumAddItem]
  push_val1 := by intro p l r; rfl
  push_pa1 := by
    intro p l r a; simp only [sumAddItem, Prod.mk.injEq, Int.add_mul]
    constructor <;> first | trivial | ac_rfl
  push_val2 := by intro p l r; rfl
  push_pa2 := by
    intro p l r a; simp only [sumAddItem, Prod.mk.injEq, Int.add_mul]
    constructor <;> first | trivial | ac_rfl

/-- `Combinator<U, V>` is lawful whenever both components are: every nesting of `Combinator` is lawful. -/
theorem prodItem_lawful {T U M A B : Type} {I : Item T M A} {J : Item U M B} (LI : Lawful I) (LJ : Lawful J) :
    Lawful (prodItem I J) where
  op_assoc := by intro a b c; simp [prodItem, LI.op_assoc, LJ.op_assoc]
  act_op := by intro m a b; simp [prodItem, LI.act_op, LJ.act_op]
  pa_op := by intro x a b; simp [prodItem, LI.pa_op, LJ.pa_op]
  val_merge := by intro x y; simp [prodItem, LI.val_merge, LJ.val_merge]
  pa_merge := by intro x y a; simp [prodItem, LI.pa_merge, LJ.pa_merge]
  val_update := by intro _ x y; simp [prodItem, LI.val_merge, LJ.val_merge]
  pa_update := by intro _ x y a; simp [prodItem, LI.pa_merge, LJ.pa_merge]
  val_modify := by intro x m; simp [prodItem, LI.val_modify, LJ.val_modify]
  pa_modify := by intro x m a; simp [prodItem, LI.pa_modify, LJ.pa_modify]
  push_val0 := by intro p l r; simp [prodItem, LI.push_val0, LJ.push_val0]
  push_pa0 := by intro p l r a; simp [prodItem, LI.push_pa0, LJ.push_pa0]
  push_val1 := by intro p l r; simp [prodItem, LI.push_val1, LJ.push_val1]
  push_pa1 := by intro p l r a; simp [prodItem, LI.push_pa1, LJ.push_pa1]
  push_val2 := by intro p l r; simp [prodItem, LI.push_val2, LJ.push_val2]
  push_pa2 := by intro p l r a; simp [prodItem, LI.push_pa2, LJ.push_pa2]

/-- running an item together with the overflow flag changes nothing observable: every law is the law of `I` -/
theorem guardItem_lawful {T M A : Type} {I : Item T M A} (L : Lawful I) (G : Guard T M) : Lawful (guardItem I G) where
  op_assoc := L.op_assoc
  act_op := L.act_op
  pa_op := by intro x a b; exact L.pa_op x.1 a b
  val_merge := by intro x y; exact L.val_merge x.1 y.1
  pa_merge := by intro x y a; exact L.pa_merge x.1 y.1 a
  val_update := by intro p x y; exact L.val_update p.1 x.1 y.1
  pa_update := by intro p x y a; exact L.pa_update p.1 x.1 y.1 a
  val_modify := by intro x m; exact L.val_modify x.1 m
  pa_modify := by intro x m a; exact L.pa_modify x.1 m a
  push_val0 := by intro p l r; exact L.push_val0 p.1 l.1 r.1
  push_pa0 := by intro p l r a; exact L.push_pa0 p.1 l.1 r.1 a
  push_val1 := by intro p l r; exact L.push_val1 p.1 l.1 r.1
  push_pa1 := by intro p l r a; exact L.push_pa1 p.1 l.1 r.1 a
  push_val2 := by intro p l r; exact L.push_val2 p.1 l.1 r.1
  push_pa2 := by intro p l r a; exact L.push_pa2 p.1 l.1 r.1 a

/-! ### the guarded item against the item itself, on the plain-list specification -/

theorem guard_foldl_fst {T M A : Type} (I : Item T M A) (G : Guard T M) (ys : List (T × Bool)) (x : T × Bool) :
    (ys.foldl (guardItem I G).merge x).1 = (ys.map Prod.fst).foldl I.merge x.1 := by
  induction ys generalizing x with
  | nil => rfl
  | cons y ys ih => simp only [List.foldl_cons, List.map_cons]; rw [ih]; rfl

theorem guard_foldr_fst {T M A : Type} (I : Item T M A) (G : Guard T M) (ys : List (T × Bool)) (x : T × Bool) :
    (ys.foldr (guardItem I G).merge x).1 = (ys.map Prod.fst).foldr I.merge x.1 := by
  induction ys with
  | nil => rfl
  | cons y ys ih => simp only [List.foldr_cons, List.map_cons]; rw [← ih]; rfl

/-- the specification's `ask` for the guarded item is that of the item itself on the first components -/
theorem guard_spec_ask {T M A : Type} (I : Item T M A) (G : Guard T M) (zs : List (T × Bool)) (l r : Nat) :
    Spec.ask (guardItem I G) zs l r = Spec.ask I (zs.map Prod.fst) l r := by
  unfold Spec.ask
  by_cases h1 : l ≤ r
  · by_cases h2 : r < zs.length
    · have h2' : r < (zs.map Prod.fst).length := by simpa using h2
      simp only [h1, h2, h2', not_true_eq_false, dite_false]
      show Except.ok (I.val ((slice zs (l + 1) (r + 1)).foldl (guardItem I G).merge _).1) = _
      rw [guard_foldl_fst, slice_map]
      simp
    · simp [h1, h2]
  · simp [h1]

/-- …and so is its range modification (first components of the new list) -/
theorem guard_spec_modify {T M A : Type} (I : Item T M A) (G : Guard T M) (zs : List (T × Bool)) (l r : Nat) (m : M) :
    (match Spec.modify (guardItem I G) zs l r m with
     | .ok zs' => Except.ok (zs'.map Prod.fst)
     | .error e => .error e) = Spec.modify I (zs.map Prod.fst) l r m := by
  unfold Spec.modify
  by_cases h1 : l ≤ r
  · by_cases h2 : r < zs.length
    · have h2' : r < (zs.map Prod.fst).length := by simpa using h2
      simp only [h1, h2, h2', not_true_eq_false, if_false]
      simp only [mapRange, slice_map, List.map_append, List.map_take, List.map_drop, List.map_map]
      rfl
    · simp [h1, h2]
  · simp [h1]

/-- …and the aggregates the boundary searches are specified with -/
theorem guard_spec_agg {T M A : Type} (I : Item T M A) (G : Guard T M) (zs : List (T × Bool)) (l r : Nat) :
    (Spec.aggFwd (guardItem I G) zs l r).1 = Spec.aggFwd I (zs.map Prod.fst) l r ∧
    (Spec.aggBwd (guardItem I G) zs l r).1 = Spec.aggBwd I (zs.map Prod.fst) l r := by
  unfold Spec.aggFwd Spec.aggBwd
  rw [guard_foldl_fst, guard_foldr_fst, slice_map]
  exact ⟨rfl, rfl⟩

/-! ### `affHash` -/

theorem aff_m1 (x1 p2 x2 p3 x3 : Int) :
    ((x1 * p2 + x2) % hashP * p3 + x3) % hashP = (x1 * ((p2 * p3) % hashP) + (x2 * p3 + x3) % hashP) % hashP := by
  show _ ≡ _ [ZMOD hashP]
  calc (x1 * p2 + x2) % hashP * p3 + x3 ≡ (x1 * p2 + x2) * p3 + x3 [ZMOD hashP] :=
        ((Int.mod_modEq _ _).mul_right _).add_right _
    _ = x1 * (p2 * p3) + (x2 * p3 + x3) := by ring
    _ ≡ x1 * ((p2 * p3) % hashP) + (x2 * p3 + x3) % hashP [ZMOD hashP] :=
        (((Int.mod_modEq _ _).mul_left _).add (Int.mod_modEq _ _)).symm

theorem aff_m2 (p1 p2 p3 : Int) : ((p1 * p2) % hashP * p3) % hashP = (p1 * ((p2 * p3) % hashP)) % hashP := by
  show _ ≡ _ [ZMOD hashP]
  calc (p1 * p2) % hashP * p3 ≡ (p1 * p2) * p3 [ZMOD hashP] := (Int.mod_modEq _ _).mul_right _
    _ = p1 * (p2 * p3) := by ring
    _ ≡ p1 * ((p2 * p3) % hashP) [ZMOD hashP] := ((Int.mod_modEq _ _).mul_left _).symm

theorem aff_m3 (a b h1 p2 h2 s1 s2 : Int) :
    (a * ((h1 * p2 + h2) % hashP) + b * ((s1 * p2 + s2) % hashP)) % hashP =
    ((a * h1 + b * s1) % hashP * p2 + (a * h2 + b * s2) % hashP) % hashP := by
  show _ ≡ _ [ZMOD hashP]
  calc a * ((h1 * p2 + h2) % hashP) + b * ((s1 * p2 + s2) % hashP)
        ≡ a * (h1 * p2 + h2) + b * (s1 * p2 + s2) [ZMOD hashP] :=
        ((Int.mod_modEq _ _).mul_left _).add ((Int.mod_modEq _ _).mul_left _)
    _ = (a * h1 + b * s1) * p2 + (a * h2 + b * s2) := by ring
    _ ≡ (a * h1 + b * s1) % hashP * p2 + (a * h2 + b * s2) % hashP [ZMOD hashP] :=
        (((Int.mod_modEq _ _).mul_right _).add (Int.mod_modEq _ _)).symm

theorem aff_m4 (a b c d h s : Int) :
    ((a * c) % hashP * h + (a * d + b) % hashP * s) % hashP = (a * ((c * h + d * s) % hashP) + b * s) % hashP := by
  show _ ≡ _ [ZMOD hashP]
  calc (a * c) % hashP * h + (a * d + b) % hashP * s ≡ (a * c) * h + (a * d + b) * s [ZMOD hashP] :=
        ((Int.mod_modEq _ _).mul_right _).add ((Int.mod_modEq _ _).mul_right _)
    _ = a * (c * h + d * s) + b * s := by ring
    _ ≡ a * ((c * h + d * s) % hashP) + b * s [ZMOD hashP] :=
        (((Int.mod_modEq _ _).mul_left _).add_right _).symm

theorem affApply_op (m : Int × Int) (a b : Int × Int × Int) :
    affApply m (affHashItem.op a b) = affHashItem.op (affApply m a) (affApply m b) := by
  obtain ⟨ma, mb⟩ := m; obtain ⟨h1, p1, s1⟩ := a; obtain ⟨h2, p2, s2⟩ := b
  simp only [affApply, affHashItem, Prod.mk.injEq, and_true]
  exact aff_m3 ma mb h1 p2 h2 s1 s2

theorem affApply_compose (m o : Int × Int) (a : Int × Int × Int) :
    affApply (affCompose m o) a = affApply m (affApply o a) := by
  obtain ⟨ma, mb⟩ := m; obtain ⟨oa, ob⟩ := o; obtain ⟨h, p, s⟩ := a
  simp only [affApply, affCompose, Prod.mk.injEq, and_true]
  exact aff_m4 ma mb oa ob h s

theorem aff_val_modify (x : AffHash) (m : Int × Int) :
    affHashItem.val (affModify x m) = affApply m (affHashItem.val x) := rfl

theorem aff_pa_modify (x : AffHash) (m : Int × Int) (a : Int × Int × Int) :
    affHashItem.pa (affModify x m) a = affApply m (affHashItem.pa x a) := by
  obtain ⟨h, pw, s, md⟩ := x
  cases md with
  | none => rfl
  | some o => exact affApply_compose m o a

theorem affHashItem_lawful : Lawful affHashItem where
  op_assoc := by
    rintro ⟨h1, p1, s1⟩ ⟨h2, p2, s2⟩ ⟨h3, p3, s3⟩
    simp only [affHashItem, Prod.mk.injEq]
    exact ⟨aff_m1 h1 p2 h2 p3 h3, aff_m2 p1 p2 p3, aff_m1 s1 p2 s2 p3 s3⟩
  act_op := affApply_op
  pa_op := by
    intro x a b
    obtain ⟨h, pw, s, md⟩ := x
    cases md with
    | none => rfl
    | some o => exact affApply_op o a b
  val_merge := by intro x y; rfl
  pa_merge := by intro x y a; rfl
  val_update := by intro _ x y; rfl
  pa_update := by intro _ x y a; rfl
  val_modify := aff_val_modify
  pa_modify := aff_pa_modify
  push_val0 := by
    intro p l r; obtain ⟨h, pw, s, md⟩ := p
    cases md <;> rfl
  push_pa0 := by
    intro p l r a; obtain ⟨h, pw, s, md⟩ := p
    cases md <;> rfl
  push_val1 := by
    intro p l r; obtain ⟨h, pw, s, md⟩ := p
    cases md <;> rfl
  push_pa1 := by
    intro p l r a; obtain ⟨h, pw, s, md⟩ := p
    cases md with
    | none => rfl
    | some o => exact aff_pa_modify l o a
  push_val2 := by
    intro p l r; obtain ⟨h, pw, s, md⟩ := p
    cases md <;> rfl
  push_pa2 := by
    intro p l r a; obtain ⟨h, pw, s, md⟩ := p
    cases md with
    | none => rfl
    | some o => exact aff_pa_modify r o a

/-! ### `strCat` -/

theorem chApply_compose (m o : Nat × Nat) (c : Nat) : chApply (chCompose m o) c = chApply m (chApply o c) := by
  obtain ⟨mk, mc⟩ := m; obtain ⟨ok, oc⟩ := o
  simp only [chApply, chCompose]
  by_cases h1 : mk = 0 <;> by_cases h2 : ok = 0 <;> (simp [h1, h2]; try omega)

theorem str_pa_modify (x : StrCat) (m : Nat × Nat) (a : List Nat) :
    strCatItem.pa (strModify x m) a = (strCatItem.pa x a).map (chApply m) := by
  obtain ⟨s, md⟩ := x
  cases md with
  | none => rfl
  | some o =>
    show a.map (chApply (chCompose m o)) = (a.map (chApply o)).map (chApply m)
    rw [List.map_map]; apply List.map_congr_left; intro c _; exact chApply_compose m o c

theorem strCatItem_lawful : Lawful strCatItem where
  op_assoc := by intro a b c; exact List.append_assoc a b c
  act_op := by intro m a b; exact List.map_append
  pa_op := by
    intro x a b; obtain ⟨s, md⟩ := x
    cases md with
    | none => rfl
    | some o => exact List.map_append
  val_merge := by intro x y; rfl
  pa_merge := by intro x y a; rfl
  val_update := by intro _ x y; rfl
  pa_update := by intro _ x y a; rfl
  val_modify := by intro x m; rfl
  pa_modify := str_pa_modify
  push_val0 := by
    intro p l r; obtain ⟨s, md⟩ := p
    cases md <;> rfl
  push_pa0 := by
    intro p l r a; obtain ⟨s, md⟩ := p
    cases md <;> rfl
  push_val1 := by
    intro p l r; obtain ⟨s, md⟩ := p
    cases md <;> rfl
  push_pa1 := by
    intro p l r a; obtain ⟨s, md⟩ := p
    cases md with
    | none => rfl
    | some o => exact str_pa_modify l o a
  push_val2 := by
    intro p l r; obtain ⟨s, md⟩ := p
    cases md <;> rfl
  push_pa2 := by
    intro p l r a; obtain ⟨s, md⟩ := p
    cases md with
    | none => rfl
    | some o => exact str_pa_modify r o a

/-! ### `flipZ` / `flipB` -/

theorem flipObs_op (a b : Int × Int) :
    flipObs (a.1 + b.1, a.2 + b.2) = ((flipObs a).1 + (flipObs b).1, (flipObs a).2 + (flipObs b).2) := by
  apply Prod.ext <;> (simp only [flipObs]; try omega)

theorem flipObs_flipObs (a : Int × Int) : flipObs (flipObs a) = a := by
  obtain ⟨x, y⟩ := a
  apply Prod.ext <;> (simp only [flipObs]; try omega)

theorem flip_pa (x : Flip) (a : Int × Int) :
    (if x.flip.fl then flipObs a else a) = flipObs (if x.fl then flipObs a else a) := by
  obtain ⟨o, n, fl⟩ := x
  cases fl <;> simp [Flip.flip, flipObs_flipObs]

theorem flipZItem_lawful : Lawful flipZItem where
  op_assoc := by intro a b c; simp only [flipZItem, Prod.mk.injEq]; omega
  act_op := by intro m a b; exact flipObs_op a b
  val_modify := by intro x m; rfl
  pa_modify := by intro x m a; exact flip_pa x a
  pa_op := by
    intro x a b
    obtain ⟨o, n, fl⟩ := x
    cases fl
    · rfl
    · exact flipObs_op a b
  val_merge := by intro x y; rfl
  pa_merge := by intro x y a; rfl
  val_update := by intro _ x y; rfl
  pa_update := by intro _ x y a; rfl
  push_val0 := by intro p l r; obtain ⟨o, n, fl⟩ := p; cases fl <;> rfl
  push_pa0 := by intro p l r a; obtain ⟨o, n, fl⟩ := p; cases fl <;> rfl
  push_val1 := by intro p l r; obtain ⟨o, n, fl⟩ := p; cases fl <;> rfl
  push_pa1 := by
    intro p l r a; obtain ⟨o, n, fl⟩ := p
    cases fl
    · rfl
    · exact flip_pa l a
  push_val2 := by intro p l r; obtain ⟨o, n, fl⟩ := p; cases fl <;> rfl
  push_pa2 := by
    intro p l r a; obtain ⟨o, n, fl⟩ := p
    cases fl
    · rfl
    · exact flip_pa r a

theorem flipBItem_lawful : Lawful flipBItem where
  op_assoc := by intro a b c; simp only [flipBItem, Prod.mk.injEq]; omega
  act_op := by
    intro m a b
    show (if m % 2 = 1 then flipObs (a.1 + b.1, a.2 + b.2) else (a.1 + b.1, a.2 + b.2)) =
      ((if m % 2 = 1 then flipObs a else a).1 + (if m % 2 = 1 then flipObs b else b).1,
       (if m % 2 = 1 then flipObs a else a).2 + (if m % 2 = 1 then flipObs b else b).2)
    by_cases h : m % 2 = 1
    · simp only [h, if_true]; exact flipObs_op a b
    · simp only [h, if_false]
  val_modify := by
    intro x m
    show ((if m % 2 = 1 then x.flip else x).ones, (if m % 2 = 1 then x.flip else x).len) =
      (if m % 2 = 1 then flipObs (x.ones, x.len) else (x.ones, x.len))
    by_cases h : m % 2 = 1 <;> simp [h, Flip.flip, flipObs]
  pa_modify := by
    intro x m a
    show (if (if m % 2 = 1 then x.flip else x).fl then flipObs a else a) =
      (if m % 2 = 1 then flipObs (if x.fl then flipObs a else a) else (if x.fl then flipObs a else a))
    by_cases h : m % 2 = 1
    · simp only [h, if_true]; exact flip_pa x a
    · simp only [h, if_false]
  pa_op := by
    intro x a b
    obtain ⟨o, n, fl⟩ := x
    cases fl
    · rfl
    · exact flipObs_op a b
  val_merge := by intro x y; rfl
  pa_merge := by intro x y a; rfl
  val_update := by intro _ x y; rfl
  pa_update := by intro _ x y a; rfl
  push_val0 := by intro p l r; obtain ⟨o, n, fl⟩ := p; cases fl <;> rfl
  push_pa0 := by intro p l r a; obtain ⟨o, n, fl⟩ := p; cases fl <;> rfl
  push_val1 := by intro p l r; obtain ⟨o, n, fl⟩ := p; cases fl <;> rfl
  push_pa1 := by
    intro p l r a; obtain ⟨o, n, fl⟩ := p
    cases fl
    · rfl
    · exact flip_pa l a
  push_val2 := by intro p l r; obtain ⟨o, n, fl⟩ := p; cases fl <;> rfl
  push_pa2 := by
    intro p l r a; obtain ⟨o, n, fl⟩ := p
    cases fl
    · rfl
    · exact flip_pa r a

theorem flipItems_dflt (a : Int × Int) :
    (flipZItem.op (flipZItem.val flipZItem.dflt) a = a ∧ flipZItem.op a (flipZItem.val flipZItem.dflt) = a) ∧
    (flipBItem.op (flipBItem.val flipBItem.dflt) a = a ∧ flipBItem.op a (flipBItem.val flipBItem.dflt) = a) := by
  have h1 : ((0 : Int) + a.1, (0 : Int) + a.2) = a := by simp
  have h2 : (a.1 + (0 : Int), a.2 + (0 : Int)) = a := by simp
  exact ⟨⟨h1, h2⟩, ⟨h1, h2⟩⟩

/-! ### `Default` is the identity of `merge` (up to the observable value) on the values that occur -/

theorem minItem_dflt_left (ty : IntTy) (a : Int) (h : a ≤ ty.maxVal) :
    (minItem ty).op ((minItem ty).val (minItem ty).dflt) a = a := by
  show (if ty.maxVal < a then ty.maxVal else a) = a
  rw [if_neg (by omega)]
theorem minItem_dflt_right (ty : IntTy) (a : Int) (h : a ≤ ty.maxVal) :
    (minItem ty).op a ((minItem ty).val (minItem ty).dflt) = a := by
  show (if a < ty.maxVal then a else ty.maxVal) = a
  split <;> omega
theorem maxItem_dflt_left (ty : IntTy) (a : Int) (h : ty.minVal ≤ a) :
    (maxItem ty).op ((maxItem ty).val (maxItem ty).dflt) a = a := by
  show (if ty.minVal > a then ty.minVal else a) = a
  rw [if_neg (by omega)]
theorem maxItem_dflt_right (ty : IntTy) (a : Int) (h : ty.minVal ≤ a) :
    (maxItem ty).op a ((maxItem ty).val (maxItem ty).dflt) = a := by
  show (if a > ty.minVal then a else ty.minVal) = a
  split <;> omega
theorem sumItem_dflt_left (a : Int) : sumItem.op (sumItem.val sumItem.dflt) a = a := by
  show (0 : Int) + a = a; omega
theorem sumItem_dflt_right (a : Int) : sumItem.op a (sumItem.val sumItem.dflt) = a := by
  show a + (0 : Int) = a; omega
theorem minAddItem_dflt_left (ty : IntTy) (a : Int) (h : a ≤ ty.maxVal) :
    (minAddItem ty).op ((minAddItem ty).val (minAddItem ty).dflt) a = a := by
  show (if ty.maxVal < a then ty.maxVal else a) = a
  rw [if_neg (by omega)]
theorem minAddItem_dflt_right (ty : IntTy) (a : Int) (h : a ≤ ty.maxVal) :
    (minAddItem ty).op a ((minAddItem ty).val (minAddItem ty).dflt) = a := by
  show (if a < ty.maxVal then a else ty.maxVal) = a
  split <;> omega
theorem maxAddItem_dflt_left (ty : IntTy) (a : Int) (h : ty.minVal ≤ a) :
    (maxAddItem ty).op ((maxAddItem ty).val (maxAddItem ty).dflt) a = a := by
  show (if ty.minVal > a then ty.minVal else a) = a
  rw [if_neg (by omega)]
theorem maxAddItem_dflt_right (ty : IntTy) (a : Int) (h : ty.minVal ≤ a) :
    (maxAddItem ty).op a ((maxAddItem ty).val (maxAddItem ty).dflt) = a := by
  show (if a > ty.minVal then a else ty.minVal) = a
  split <;> omega

/-- the defaults are not identities beyond the type's bounds: `Min` at a narrower `MAX` absorbs larger values
    (what a wrong `<T as MinMax>::MAX` does to the boundary searches) -/
theorem minItem_dflt_not_identity (ty : IntTy) (a : Int) (h : ty.maxVal < a) :
    (minItem ty).op ((minItem ty).val (minItem ty).dflt) a ≠ a := by
  show (if ty.maxVal < a then ty.maxVal else a) ≠ a
  rw [if_pos h]; omega

/-- the model's type bounds at `i64` are the literals -/
theorem i64_bounds : IntTy.i64.maxVal = i64Max ∧ IntTy.i64.minVal = i64Min := by decide

theorem sumAddItem_dflt_left (a : Int × Int) : sumAddItem.op (sumAddItem.val sumAddItem.dflt) a = a := by
  show ((0 : Int) + a.1, (0 : Int) + a.2) = a; simp
theorem sumAddItem_dflt_right (a : Int × Int) : sumAddItem.op a (sumAddItem.val sumAddItem.dflt) = a := by
  show (a.1 + (0 : Int), a.2 + (0 : Int)) = a; simp
theorem strCatItem_dflt_left (a : List Nat) : strCatItem.op (strCatItem.val strCatItem.dflt) a = a := rfl
theorem strCatItem_dflt_right (a : List Nat) : strCatItem.op a (strCatItem.val strCatItem.dflt) = a :=
  List.append_nil a

/-- canonical residues: what every reachable `affHash` aggregate is -/
def AffCanon (a : Int × Int × Int) : Prop :=
  0 ≤ a.1 ∧ a.1 < hashP ∧ 0 ≤ a.2.1 ∧ a.2.1 < hashP ∧ 0 ≤ a.2.2 ∧ a.2.2 < hashP

theorem affHashItem_dflt_left (a : Int × Int × Int) (h : AffCanon a) :
    affHashItem.op (affHashItem.val affHashItem.dflt) a = a := by
  obtain ⟨x, p, s⟩ := a
  obtain ⟨h1, h2, h3, h4, h5, h6⟩ := h
  show ((0 * p + x) % hashP, (1 * p) % hashP, (0 * p + s) % hashP) = (x, p, s)
  simp only [Int.zero_mul, Int.zero_add, Int.one_mul, Prod.mk.injEq]
  exact ⟨Int.emod_eq_of_lt h1 h2, Int.emod_eq_of_lt h3 h4, Int.emod_eq_of_lt h5 h6⟩

theorem affHashItem_dflt_right (a : Int × Int × Int) (h : AffCanon a) :
    affHashItem.op a (affHashItem.val affHashItem.dflt) = a := by
  obtain ⟨x, p, s⟩ := a
  obtain ⟨h1, h2, h3, h4, h5, h6⟩ := h
  show ((x * 1 + 0) % hashP, (p * 1) % hashP, (s * 1 + 0) % hashP) = (x, p, s)
  simp only [Int.mul_one, Int.add_zero, Prod.mk.injEq]
  exact ⟨Int.emod_eq_of_lt h1 h2, Int.emod_eq_of_lt h3 h4, Int.emod_eq_of_lt h5 h6⟩

/-- identity laws lift to products -/
theorem prodItem_dflt_left {T U M A B : Type} (I : Item T M A) (J : Item U M B) (a : A × B)
    (h1 : I.op (I.val I.dflt) a.1 = a.1) (h2 : J.op (J.val J.dflt) a.2 = a.2) :
    (prodItem I J).op ((prodItem I J).val (prodItem I J).dflt) a = a := by
  show (I.op (I.val I.dflt) a.1, J.op (J.val J.dflt) a.2) = a
  rw [h1, h2]

theorem prodItem_dflt_right {T U M A B : Type} (I : Item T M A) (J : Item U M B) (a : A × B)
    (h1 : I.op a.1 (I.val I.dflt) = a.1) (h2 : J.op a.2 (J.val J.dflt) = a.2) :
    (prodItem I J).op a ((prodItem I J).val (prodItem I J).dflt) = a := by
  show (I.op a.1 (I.val I.dflt), J.op a.2 (J.val J.dflt)) = a
  rw [h1, h2]

/-! ### element types whose order ignores part of the value (`KV`): the tie rule of `merge` is part of the algebra -/

theorem kv_lt_assoc (a b c : KV) :
    (if (if a.k < b.k then a else b).k < c.k then (if a.k < b.k then a else b) else c) =
    (if a.k < (if b.k < c.k then b else c).k then a else (if b.k < c.k then b else c)) := by
  by_cases h1 : a.k < b.k <;> by_cases h2 : b.k < c.k <;> by_cases h3 : a.k < c.k <;> simp [h1, h2, h3] <;> omega

theorem kv_gt_assoc (a b c : KV) :
    (if (if a.k > b.k then a else b).k > c.k then (if a.k > b.k then a else b) else c) =
    (if a.k > (if b.k > c.k then b else c).k then a else (if b.k > c.k then b else c)) := by
  by_cases h1 : a.k > b.k <;> by_cases h2 : b.k > c.k <;> by_cases h3 : a.k > c.k <;> simp [h1, h2, h3] <;> omega

theorem kvAdd_zero (a : KV) : kvAdd a kvZero = a := by
  cases a; simp [kvAdd, kvZero]

theorem kvAdd_assoc (a b c : KV) : kvAdd a (kvAdd b c) = kvAdd (kvAdd a b) c := by
  simp [kvAdd, Int.add_assoc]

theorem kvAdd_lt (a b m : KV) :
    kvAdd (if a.k < b.k then a else b) m = (if (kvAdd a m).k < (kvAdd b m).k then kvAdd a m else kvAdd b m) := by
  by_cases h : a.k < b.k
  · rw [if_pos h, if_pos (by show a.k + m.k < b.k + m.k; omega)]
  · rw [if_neg h, if_neg (by show ¬ a.k + m.k < b.k + m.k; omega)]

theorem kvAdd_gt (a b m : KV) :
    kvAdd (if a.k > b.k then a else b) m = (if (kvAdd a m).k > (kvAdd b m).k then kvAdd a m else kvAdd b m) := by
  by_cases h : a.k > b.k
  · rw [if_pos h, if_pos (by show a.k + m.k > b.k + m.k; omega)]
  · rw [if_neg h, if_neg (by show ¬ a.k + m.k > b.k + m.k; omega)]

theorem minKItem_lawful (d : KV) : Lawful (minKItem d) where
  op_assoc := kv_lt_assoc
  act_op := by intro m a b; rfl
  pa_op := by intro x a b; rfl
  val_merge := by intro x y; rfl
  pa_merge := by intro x y a; rfl
  val_update := by intro _ x y; rfl
  pa_update := by intro _ x y a; rfl
  val_modify := by intro x m; rfl
  pa_modify := by intro x m a; rfl
  push_val0 := by intro p l r; rfl
  push_pa0 := by intro p l r a; rfl
  push_val1 := by intro p l r; rfl
  push_pa1 := by intro p l r a; rfl
  push_val2 := by intro p l r; rfl
  push_pa2 := by intro p l r a; rfl

theorem maxKItem_lawful (d : KV) : Lawful (maxKItem d) where
  op_assoc := kv_gt_assoc
  act_op := by intro m a b; rfl
  pa_op := by intro x a b; rfl
  val_merge := by intro x y; rfl
  pa_merge := by intro x y a; rfl
  val_update := by intro _ x y; rfl
  pa_update := by intro _ x y a; rfl
  val_modify := by intro x m; rfl
  pa_modify := by intro x m a; rfl
  push_val0 := by intro p l r; rfl
  push_pa0 := by intro p l r a; rfl
  push_val1 := by intro p l r; rfl
  push_pa1 := by intro p l r a; rfl
  push_val2 := by intro p l r; rfl
  push_pa2 := by intro p l r a; rfl

theorem minAddKItem_lawful (d : KV) : Lawful (minAddKItem d) where
  op_assoc := kv_lt_assoc
  act_op := by intro m a b; exact kvAdd_lt a b m
  pa_op := by intro x a b; exact kvAdd_lt a b x.md
  val_merge := by intro x y; rfl
  pa_merge := by intro x y a; exact kvAdd_zero a
  val_update := by intro _ x y; rfl
  pa_update := by intro _ x y a; exact kvAdd_zero a
  val_modify := by intro x m; rfl
  pa_modify := by intro x m a; exact kvAdd_assoc a x.md m
  push_val0 := by intro p l r; rfl
  push_pa0 := by intro p l r a; exact kvAdd_zero a
  push_val1 := by intro p l r; rfl
  push_pa1 := by intro p l r a; exact kvAdd_assoc a l.md p.md
  push_val2 := by intro p l r; rfl
  push_pa2 := by intro p l r a; exact kvAdd_assoc a r.md p.md

theorem maxAddKItem_lawful (d : KV) : Lawful (maxAddKItem d) where
  op_assoc := kv_gt_assoc
  act_op := by intro m a b; exact kvAdd_gt a b m
  pa_op := by intro x a b; exact kvAdd_gt a b x.md
  val_merge := by intro x y; rfl
  pa_merge := by intro x y a; exact kvAdd_zero a
  val_update := by intro _ x y; rfl
  pa_update := by intro _ x y a; exact kvAdd_zero a
  val_modify := by intro x m; rfl
  pa_modify := by intro x m a; exact kvAdd_assoc a x.md m
  push_val0 := by intro p l r; rfl
  push_pa0 := by intro p l r a; exact kvAdd_zero a
  push_val1 := by intro p l r; rfl
  push_pa1 := by intro p l r a; exact kvAdd_assoc a l.md p.md
  push_val2 := by intro p l r; rfl
  push_pa2 := by intro p l r a; exact kvAdd_assoc a r.md p.md

/-- the fold of `Min::merge` over equal keys returns the LAST element (ties go to the right operand) … -/
theorem minK_tie_right (d a b : KV) (h : a.k = b.k) : (minKItem d).op a b = b := by
  show (if a.k < b.k then a else b) = b
  rw [if_neg (by omega)]

/-- … so an `update` that keeps the LEFT operand on a tie (`if right.v < left.v { right } else { left }`) does not
    observe the merge of the children: it is not a lawful override -/
theorem minK_left_tie_update_not_lawful (d : KV) :
    ¬ Lawful { minKItem d with update := fun _ l r => if r.k < l.k then r else l } := by
  intro L
  have h : (if (1 : Int) < 1 then (⟨1, 1⟩ : KV) else ⟨1, 0⟩) = (if (1 : Int) < 1 then (⟨1, 0⟩ : KV) else ⟨1, 1⟩) :=
    L.val_update ⟨0, 0⟩ ⟨1, 0⟩ ⟨1, 1⟩
  revert h
  decide

/-- `Default` of the keyed min / max items: a left identity on every element whose key does not exceed the default's
    (ties return the right operand, i.e. the element), a right identity on the elements strictly inside -/
theorem minKItem_dflt_left (d a : KV) (h : a.k ≤ d.k) : (minKItem d).op ((minKItem d).val (minKItem d).dflt) a = a := by
  show (if d.k < a.k then d else a) = a
  rw [if_neg (by omega)]
theorem minKItem_dflt_right (d a : KV) (h : a.k < d.k ∨ a = d) : (minKItem d).op a ((minKItem d).val (minKItem d).dflt) = a := by
  show (if a.k < d.k then a else d) = a
  rcases h with h | h
  · rw [if_pos h]
  · subst h; rw [if_neg (by omega)]
theorem maxKItem_dflt_left (d a : KV) (h : d.k ≤ a.k) : (maxKItem d).op ((maxKItem d).val (maxKItem d).dflt) a = a := by
  show (if d.k > a.k then d else a) = a
  rw [if_neg (by omega)]
theorem maxKItem_dflt_right (d a : KV) (h : a.k > d.k ∨ a = d) : (maxKItem d).op a ((maxKItem d).val (maxKItem d).dflt) = a := by
  show (if a.k > d.k then a else d) = a
  rcases h with h | h
  · rw [if_pos h]
  · subst h; rw [if_neg (by omega)]
theorem minAddKItem_dflt_left (d a : KV) (h : a.k ≤ d.k) :
    (minAddKItem d).op ((minAddKItem d).val (minAddKItem d).dflt) a = a := minKItem_dflt_left d a h
theorem minAddKItem_dflt_right (d a : KV) (h : a.k < d.k ∨ a = d) :
    (minAddKItem d).op a ((minAddKItem d).val (minAddKItem d).dflt) = a := minKItem_dflt_right d a h
theorem maxAddKItem_dflt_left (d a : KV) (h : d.k ≤ a.k) :
    (maxAddKItem d).op ((maxAddKItem d).val (maxAddKItem d).dflt) a = a := maxKItem_dflt_left d a h
theorem maxAddKItem_dflt_right (d a : KV) (h : a.k > d.k ∨ a = d) :
    (maxAddKItem d).op a ((maxAddKItem d).val (maxAddKItem d).dflt) = a := maxKItem_dflt_right d a h

/-- a default ABOVE the type's minimum (what `MinMax::MIN = MIN_POSITIVE` is for floats) is not an identity of `Max` on the
    elements below it: the search shows the predicate the seed instead of the range maximum -/
theorem maxKItem_dflt_not_identity (d a : KV) (h : a.k < d.k) (hne : a ≠ d) :
    (maxKItem d).op ((maxKItem d).val (maxKItem d).dflt) a ≠ a := by
  show (if d.k > a.k then d else a) ≠ a
  rw [if_pos h]; exact fun e => hne e.symm

theorem catSumItem_lawful : Lawful catSumItem where
  op_assoc := List.append_assoc
  act_op := by intro m a b; rfl
  pa_op := by intro x a b; rfl
  val_merge := by intro x y; rfl
  pa_merge := by intro x y a; rfl
  val_update := by intro _ x y; rfl
  pa_update := by intro _ x y a; rfl
  val_modify := by intro x m; rfl
  pa_modify := by intro x m a; rfl
  push_val0 := by intro p l r; rfl
  push_pa0 := by intro p l r a; rfl
  push_val1 := by intro p l r; rfl
  push_pa1 := by intro p l r a; rfl
  push_val2 := by intro p l r; rfl
  push_pa2 := by intro p l r a; rfl

theorem catSumItem_dflt (a : List Nat) :
    catSumItem.op (catSumItem.val catSumItem.dflt) a = a ∧ catSumItem.op a (catSumItem.val catSumItem.dflt) = a :=
  ⟨rfl, List.append_nil a⟩

/-! ### `Ap`: add an arithmetic progression to a range — lawful, although `push` treats its children differently -/

theorem optOr_assoc (a b c : Option Int) : optOr (optOr a b) c = optOr a (optOr b c) := by
  cases a <;> rfl

theorem apShift_op (base a d : Int) (x y : ApV) :
    apShift base a d (apItem.op x y) = apItem.op (apShift base a d x) (apShift base a d y) := by
  obtain ⟨s1, c1, q1, o1⟩ := x
  obtain ⟨s2, c2, q2, o2⟩ := y
  simp only [apShift, apItem, Prod.mk.injEq, and_true]
  ring

/-- two shifts after one another are one shift: what `apply` does to a pending tag -/
theorem apShift_apply (x : Ap) (a d : Int) (v : ApV) :
    apItem.pa (x.apply a d) v = apShift (x.lo.getD 0) a d (apItem.pa x v) := by
  obtain ⟨s, c, q, o⟩ := v
  simp only [apItem, apShift, Ap.apply, Prod.mk.injEq, and_true]
  ring

theorem ap_val_apply (x : Ap) (a d : Int) :
    apItem.val (x.apply a d) = apShift (x.lo.getD 0) a d (apItem.val x) := rfl

/-- re-basing: a progression given at `base` is the progression `a + d * (b' - base)` given at `b'` -/
theorem apShift_rebase (base b' a d : Int) (v : ApV) :
    apShift b' (a + d * (b' - base)) d v = apShift base a d v := by
  obtain ⟨s, c, q, o⟩ := v
  simp only [apShift, Prod.mk.injEq, and_true]
  ring

theorem apItem_lawful : Lawful apItem where
  op_assoc := by
    rintro ⟨s1, c1, q1, o1⟩ ⟨s2, c2, q2, o2⟩ ⟨s3, c3, q3, o3⟩
    simp only [apItem, Prod.mk.injEq, optOr_assoc, and_true]
    refine ⟨?_, ?_, ?_⟩ <;> ring
  act_op := by intro m a b; exact apShift_op m.1 m.2.1 m.2.2 a b
  pa_op := by intro x a b; exact apShift_op (x.lo.getD 0) x.ta x.td a b
  val_merge := by intro x y; rfl
  pa_merge := by
    intro x y a; obtain ⟨s, c, q, o⟩ := a
    simp [apItem, apShift]
  val_update := by intro _ x y; rfl
  pa_update := by
    intro _ x y a; obtain ⟨s, c, q, o⟩ := a
    simp [apItem, apShift]
  val_modify := by
    intro x m
    show apItem.val (x.apply (m.2.1 + m.2.2 * (x.lo.getD 0 - m.1)) m.2.2) = apShift m.1 m.2.1 m.2.2 (apItem.val x)
    rw [ap_val_apply, apShift_rebase]
  pa_modify := by
    intro x m a
    show apItem.pa (x.apply (m.2.1 + m.2.2 * (x.lo.getD 0 - m.1)) m.2.2) a = apShift m.1 m.2.1 m.2.2 (apItem.pa x a)
    rw [apShift_apply, apShift_rebase]
  push_val0 := by intro p l r; rfl
  push_pa0 := by
    intro p l r a; obtain ⟨s, c, q, o⟩ := a
    simp [apItem, apShift]
  push_val1 := by
    intro p l r
    show apItem.val (l.apply (p.ta + p.td * (l.lo.getD 0 - p.lo.getD 0)) p.td) = apShift (p.lo.getD 0) p.ta p.td (apItem.val l)
    rw [ap_val_apply, apShift_rebase]
  push_pa1 := by
    intro p l r a
    show apItem.pa (l.apply (p.ta + p.td * (l.lo.getD 0 - p.lo.getD 0)) p.td) a = apShift (p.lo.getD 0) p.ta p.td (apItem.pa l a)
    rw [apShift_apply, apShift_rebase]
  push_val2 := by
    intro p l r
    show apItem.val (r.apply (p.ta + p.td * (r.lo.getD 0 - p.lo.getD 0)) p.td) = apShift (p.lo.getD 0) p.ta p.td (apItem.val r)
    rw [ap_val_apply, apShift_rebase]
  push_pa2 := by
    intro p l r a
    show apItem.pa (r.apply (p.ta + p.td * (r.lo.getD 0 - p.lo.getD 0)) p.td) a = apShift (p.lo.getD 0) p.ta p.td (apItem.pa r a)
    rw [apShift_apply, apShift_rebase]

/-- The `push` of the harness's Rust item (`left.apply(ta, td); right.apply(ta + td * left.len, td)`) IS the model's
    `push` whenever the left child starts where the node starts and the right child starts `left.len` positions later —
    at every node of a tree whose `i`-th element has position `i`. -/
theorem ap_push_code_eq (p l r : Ap) (q : Int) (hp : p.lo = some q) (hl : l.lo = some q) (hr : r.lo = some (q + l.len)) :
    apPushCode p l r = apItem.push p l r := by
  have e : q + l.len - q = l.len := by omega
  simp only [apPushCode, apItem, hp, hl, hr, Option.getD_some, Int.sub_self, Int.mul_zero, Int.add_zero, e]

/-- … and with the children swapped (what a `push_at` / `Combinator::push` that hands them over in the wrong order makes of
    it) it is not: the progression restarts in the right half. -/
theorem ap_push_code_swapped_differs :
    let p : Ap := ⟨0, 2, 1, some 0, 1, 1⟩
    let l := apLeaf 0 0
    let r := apLeaf 1 0
    apPushCode p l r = apItem.push p l r ∧
    ((apPushCode p r l).2.2, (apPushCode p r l).2.1) ≠ ((apItem.push p l r).2.1, (apItem.push p l r).2.2) := by
  decide

theorem apItem_dflt (a : ApV) :
    apItem.op (apItem.val apItem.dflt) a = a ∧ apItem.op a (apItem.val apItem.dflt) = a := by
  obtain ⟨s, c, q, o⟩ := a
  constructor
  · simp [apItem, optOr]
  · cases o <;> simp [apItem, optOr]

/-! ### the float formats: the constants the driver prints are the IEEE bit patterns -/

theorem f64_consts : f64Fmt.maxBits = 0x7FEFFFFFFFFFFFFF ∧ f64Fmt.minBits = 0xFFEFFFFFFFFFFFFF ∧
    f64Fmt.oneBits = 0x3FF0000000000000 ∧ f64Fmt.infBits = 0x7FF0000000000000 := by decide

theorem f32_consts : f32Fmt.maxBits = 0x7F7FFFFF ∧ f32Fmt.minBits = 0xFF7FFFFF ∧
    f32Fmt.oneBits = 0x3F800000 ∧ f32Fmt.infBits = 0x7F800000 := by decide

/-- `ordKey` identifies exactly the two zeros, is increasing on the non-negative patterns and decreasing on the negative ones -/
theorem ordKey_zeros (f : FloatFmt) : f.ordKey 0 = 0 ∧ f.ordKey f.signBit = 0 := by
  constructor
  · show (if 0 < f.signBit then ((0 : Nat) : Int) else _) = 0
    have : 0 < f.signBit := Nat.pos_of_ne_zero (by unfold FloatFmt.signBit; exact Nat.ne_of_gt (Nat.two_pow_pos _))
    rw [if_pos this]; rfl
  · show (if f.signBit < f.signBit then _ else -((f.signBit - f.signBit : Nat) : Int)) = 0
    rw [if_neg (by omega)]; simp

theorem ordKey_mono_pos (f : FloatFmt) (a b : Nat) (hb : b < f.signBit) (h : a < b) : f.ordKey a < f.ordKey b := by
  unfold FloatFmt.ordKey
  rw [if_pos (by omega), if_pos hb]; omega

theorem ordKey_anti_neg (f : FloatFmt) (a b : Nat) (ha : f.signBit ≤ a) (h : a < b) : f.ordKey b < f.ordKey a := by
  unfold FloatFmt.ordKey
  rw [if_neg (by omega), if_neg (by omega)]; omega

theorem ordKey_neg_le_pos (f : FloatFmt) (a b : Nat) (ha : f.signBit ≤ a) (hb : b < f.signBit) : f.ordKey a ≤ f.ordKey b := by
  unfold FloatFmt.ordKey
  rw [if_neg (by omega), if_pos hb]; omega

end Rlib.Segtree
