import RlibModel.Model.Iter
/-!
Helper lemmas for the grid-neighbour iterators of C15 (`neighbours.rs`).  Core Lean only.
-/
namespace Rlib.Iter

theorem asIsize_of_lt {v : Nat} (h : v < 2 ^ 63) : asIsize v = (v : Int) := by
  unfold asIsize wrapS
  simp only [show (64 : Nat) - 1 = 63 from rfl]
  have : ((v : Int) % 2 ^ 64) = (v : Int) := by omega
  rw [this, if_pos (by omega)]

theorem asUsize_of_nonneg {z : Int} (h0 : 0 ≤ z) (h : z < 2 ^ 64) : asUsize z = z.toNat := by
  unfold asUsize wrapU
  have : z % 2 ^ 64 = z := by omega
  rw [this]

/-- Offsets as used by the three iterators: every component is −1, 0 or 1. -/
def SmallOffsets (offs : List (Int × Int)) : Prop :=
  ∀ p ∈ offs, -1 ≤ p.1 ∧ p.1 ≤ 1 ∧ -1 ≤ p.2 ∧ p.2 ≤ 1

theorem neighbours_eq_spec (offs : List (Int × Int)) (hoffs : SmallOffsets offs) (n m i j : Nat)
    (hn : n < 2 ^ 63 - 1) (hm : m < 2 ^ 63 - 1) (hi : i < 2 ^ 63 - 1) (hj : j < 2 ^ 63 - 1) :
    neighbours offs n m i j = specNeighbours offs n m i j := by
  unfold neighbours specNeighbours
  simp only [asIsize_of_lt (show n < 2 ^ 63 by omega), asIsize_of_lt (show m < 2 ^ 63 by omega),
    asIsize_of_lt (show i < 2 ^ 63 by omega), asIsize_of_lt (show j < 2 ^ 63 by omega)]
  induction offs with
  | nil => rfl
  | cons p t ih =>
    have hp := hoffs p (List.mem_cons_self ..)
    have ht : SmallOffsets t := fun q hq => hoffs q (List.mem_cons_of_mem _ hq)
    rw [List.filterMap_cons]
    by_cases hc : 0 ≤ (i : Int) + p.1 ∧ (i : Int) + p.1 < n ∧ 0 ≤ (j : Int) + p.2 ∧ (j : Int) + p.2 < m
    · rw [List.filter_cons_of_pos (by simp only [Bool.and_eq_true, decide_eq_true_eq]; omega)]
      simp only [hc, and_self, if_true, List.map_cons]
      rw [ih ht, asUsize_of_nonneg (by omega) (by omega), asUsize_of_nonneg (by omega) (by omega)]
    · rw [List.filter_cons_of_neg (by simp only [Bool.and_eq_true, decide_eq_true_eq]; omega)]
      simp only [hc, if_false]
      exact ih ht

theorem smallOffsets4 : SmallOffsets offsets4 := by
  intro p hp; simp [offsets4] at hp; rcases hp with rfl | rfl | rfl | rfl <;> decide
theorem smallOffsets4d : SmallOffsets offsets4d := by
  intro p hp; simp [offsets4d] at hp; rcases hp with rfl | rfl | rfl | rfl <;> decide
theorem smallOffsets8 : SmallOffsets offsets8 := by
  intro p hp; simp [offsets8] at hp
  rcases hp with rfl | rfl | rfl | rfl | rfl | rfl | rfl | rfl <;> decide

/-- Membership in the specification list, for any offset list. -/
theorem specNeighbours_mem (offs : List (Int × Int)) (n m i j a b : Nat) :
    (a, b) ∈ specNeighbours offs n m i j ↔
      a < n ∧ b < m ∧ (((a : Int) - i, (b : Int) - j) ∈ offs) := by
  unfold specNeighbours
  rw [List.mem_filterMap]
  constructor
  · rintro ⟨p, hp, h⟩
    simp only at h
    split at h
    · rename_i hc
      simp only [Option.some.injEq, Prod.mk.injEq] at h
      have e : p = ((a : Int) - i, (b : Int) - j) := by
        apply Prod.ext <;> simp only <;> omega
      rw [← e]
      exact ⟨by omega, by omega, hp⟩
    · cases h
  · rintro ⟨ha, hb, hp⟩
    refine ⟨_, hp, ?_⟩
    simp only
    rw [if_pos (by omega)]
    simp only [Option.some.injEq, Prod.mk.injEq]
    omega

end Rlib.Iter
