import RlibModel.Lemmas.FftExact
/-!
Level-B lemmas for the spectral expressions of C04 (`SExpr`): in exact complex arithmetic the per-bin expression a caller
builds from forward transforms with the operators of `Complex<F>` is the transform of the SAME expression evaluated in
`ℤ[i][x]/(xⁿ - 1)` (`SExpr.den`): `*` is the cyclic convolution, `conj` the index reversal, `/` by the spectrum of a unit
monomial a cyclic shift, `+ - neg` and the scalings are pointwise.
-/
namespace Rlib.Fft
open Finset Complex

/-- a Gaussian integer `(re, im)` as a complex number -/
noncomputable def gC (v : Int × Int) : ℂ := ((v.1 : ℤ) : ℂ) + I * ((v.2 : ℤ) : ℂ)

/-- the coefficient sequence of an array of Gaussian integers -/
noncomputable def gS (x : Array (Int × Int)) (u : ℕ) : ℂ := gC (gget x u)

theorem gC_mul (a b : Int × Int) : gC (gmul a b) = gC a * gC b := by
  unfold gC gmul
  push_cast
  linear_combination (-( (a.2 : ℂ) * (b.2 : ℂ))) * I_sq

theorem gC_zero : gC (0, 0) = 0 := by simp [gC]

theorem gget_ofFn (n : ℕ) (f : Fin n → Int × Int) (u : ℕ) (hu : u < n) : gget (Array.ofFn f) u = f ⟨u, hu⟩ := by
  unfold gget
  rw [Array.getD_eq_getD_getElem?, Array.getElem?_ofFn, dif_pos hu]
  rfl

theorem pow_mul_mod (ζ : ℂ) (n : ℕ) (hζ : ζ ^ n = 1) (p k : ℕ) : ζ ^ (p * (k % n)) = ζ ^ (p * k) := by
  conv_rhs => rw [← Nat.div_add_mod k n]
  rw [Nat.mul_add, pow_add, show p * (n * (k / n)) = n * (p * (k / n)) by ring,
    show ζ ^ (n * (p * (k / n))) = (ζ ^ n) ^ (p * (k / n)) from pow_mul ζ n _, hζ, one_pow, one_mul]

theorem shift_mod_inv (n s u : ℕ) (hs : s < n) (hu : u < n) : ((u + n - s) % n + s) % n = u := by
  by_cases h : s ≤ u
  · have : u + n - s = n + (u - s) := by omega
    have e1 : (u - s) % n = u - s := Nat.mod_eq_of_lt (by omega)
    rw [this, Nat.add_mod_left, e1, show u - s + s = u by omega, Nat.mod_eq_of_lt hu]
  · have e1 : (u + n - s) % n = u + n - s := Nat.mod_eq_of_lt (by omega)
    rw [e1, show u + n - s + s = u + n by omega, Nat.add_mod_right, Nat.mod_eq_of_lt hu]

theorem shift_mod_inv' (n s t : ℕ) (hs : s < n) (ht : t < n) : ((t + s) % n + n - s) % n = t := by
  by_cases h : t + s < n
  · have e1 : (t + s) % n = t + s := Nat.mod_eq_of_lt h
    rw [e1, show t + s + n - s = n + t by omega, Nat.add_mod_left, Nat.mod_eq_of_lt ht]
  · have h2 : (t + s) % n = t + s - n := by
      rw [Nat.mod_eq_sub_mod (by omega)]
      exact Nat.mod_eq_of_lt (by omega)
    rw [h2, show t + s - n + n - s = t by omega, Nat.mod_eq_of_lt ht]

/-- **Cyclic convolution theorem**: for `ζⁿ = 1` the transform of `∑ₛ xₛ · y₍ᵤ₋ₛ mod n₎` is the product of the transforms. -/
theorem dft_cyc_conv (ζ : ℂ) (n : ℕ) (hζ : ζ ^ n = 1) (X Y : ℕ → ℂ) (p : ℕ) :
    dft ζ n (fun u => ∑ s ∈ range n, X s * Y ((u + n - s) % n)) p = dft ζ n X p * dft ζ n Y p := by
  unfold dft
  rw [sum_mul_sum]
  simp_rw [sum_mul]
  rw [sum_comm]
  apply sum_congr rfl
  intro s hs
  have hs' : s < n := mem_range.1 hs
  apply sum_nbij' (fun u => (u + n - s) % n) (fun t => (t + s) % n)
  · intro u _; exact mem_range.2 (Nat.mod_lt _ (by omega))
  · intro t _; exact mem_range.2 (Nat.mod_lt _ (by omega))
  · intro u hu; exact shift_mod_inv n s u hs' (mem_range.1 hu)
  · intro t ht; exact shift_mod_inv' n s t hs' (mem_range.1 ht)
  · intro u hu
    have hu' : u < n := mem_range.1 hu
    have e : ζ ^ (p * u) = ζ ^ (p * s) * ζ ^ (p * ((u + n - s) % n)) := by
      rw [← pow_add, ← Nat.mul_add, ← pow_mul_mod ζ n hζ p (s + (u + n - s) % n), Nat.add_comm s,
        shift_mod_inv n s u hs' hu']
    rw [e]; ring


theorem neg_mod_invol (n u : ℕ) (hu : u < n) : (n - (n - u) % n) % n = u := by
  by_cases h0 : u = 0
  · subst h0; simp
  · have e1 : (n - u) % n = n - u := Nat.mod_eq_of_lt (by omega)
    rw [e1, show n - (n - u) = u by omega, Nat.mod_eq_of_lt hu]

theorem add_neg_mod (n u : ℕ) (hu : u < n) : (u + (n - u) % n) % n = 0 := by
  by_cases h0 : u = 0
  · subst h0; simp
  · have e1 : (n - u) % n = n - u := Nat.mod_eq_of_lt (by omega)
    rw [e1, show u + (n - u) = n by omega, Nat.mod_self]

/-- conjugating a transform = transforming the conjugated, index-reversed sequence -/
theorem dft_conj_seq (m : ℕ) (X : ℕ → ℂ) (p : ℕ) :
    dft (zeta m) (2^m) (fun u => (starRingEnd ℂ) (X ((2^m - u) % 2^m))) p = (starRingEnd ℂ) (dft (zeta m) (2^m) X p) := by
  have hpos := Nat.two_pow_pos m
  unfold dft
  rw [map_sum]
  apply sum_nbij' (fun u => (2^m - u) % 2^m) (fun t => (2^m - t) % 2^m)
  · intro u _; exact mem_range.2 (Nat.mod_lt _ hpos)
  · intro t _; exact mem_range.2 (Nat.mod_lt _ hpos)
  · intro u hu; exact neg_mod_invol _ u (mem_range.1 hu)
  · intro t ht; exact neg_mod_invol _ t (mem_range.1 ht)
  · intro u hu
    have hu' : u < 2^m := mem_range.1 hu
    rw [map_mul, map_pow, conj_zeta]
    congr 1
    rw [inv_pow]
    apply eq_inv_of_mul_eq_one_left
    rw [← pow_add, ← Nat.mul_add, ← pow_mul_mod (zeta m) (2^m) (zeta_pow_two_pow m), add_neg_mod _ u hu']
    simp

theorem normSq_zeta_pow (m k : ℕ) : Complex.normSq (zeta m ^ k) = 1 := by
  have h1 : ((Complex.normSq (zeta m) : ℝ) : ℂ) = 1 := by
    rw [← Complex.mul_conj, conj_zeta, mul_inv_cancel₀ (zeta_ne_zero m)]
  have h2 : Complex.normSq (zeta m) = 1 := by exact_mod_cast h1
  rw [map_pow, h2, one_pow]

theorem gC_normSq (v : Int × Int) : Complex.normSq (gC v) = ((v.1 * v.1 + v.2 * v.2 : ℤ) : ℝ) := by
  unfold gC
  rw [Complex.normSq_apply]
  simp

/-- the transform of a unit monomial has modulus 1 in every bin -/
theorem unitMonomial_normSq (m : ℕ) (y : Array (Int × Int)) (h : isUnitMonomial (2^m) y = true) (p : ℕ) :
    Complex.normSq (dft (zeta m) (2^m) (gS y) p) = 1 := by
  unfold isUnitMonomial at h
  rw [List.any_eq_true] at h
  obtain ⟨j, hj, hc⟩ := h
  rw [Bool.and_eq_true, List.all_eq_true] at hc
  obtain ⟨h1, h2⟩ := hc
  have hj' : j < 2^m := List.mem_range.1 hj
  have hz : ∀ u, u < 2^m → u ≠ j → gS y u = 0 := by
    intro u hu hne
    have := h2 u (List.mem_range.2 hu)
    rw [Bool.or_eq_true, Bool.and_eq_true] at this
    rcases this with h | ⟨ha, hb⟩
    · exact absurd (by simpa using h) hne
    · unfold gS gC
      rw [show (gget y u).1 = 0 by simpa using ha, show (gget y u).2 = 0 by simpa using hb]
      simp
  unfold dft
  rw [sum_eq_single j (fun u hu hne => by rw [hz u (mem_range.1 hu) hne, zero_mul])
    (fun hn => absurd (mem_range.2 hj') hn)]
  rw [map_mul, normSq_zeta_pow, mul_one]
  unfold gS
  rw [gC_normSq]
  have : (gget y j).1 * (gget y j).1 + (gget y j).2 * (gget y j).2 = 1 := by simpa using h1
  rw [this]; simp

theorem gS_ofFn (n : ℕ) (f : Fin n → Int × Int) (u : ℕ) (hu : u < n) : gS (Array.ofFn f) u = gC (f ⟨u, hu⟩) := by
  unfold gS; rw [gget_ofFn n f u hu]

theorem dft_gS_ofFn (ζ : ℂ) (n : ℕ) (f : Fin n → Int × Int) (g : ℕ → ℂ) (hg : ∀ u (hu : u < n), gC (f ⟨u, hu⟩) = g u) (p : ℕ) :
    dft ζ n (gS (Array.ofFn f)) p = dft ζ n g p :=
  dft_congr ζ n _ _ (fun u hu => by rw [gS_ofFn n f u hu, hg u hu]) p

theorem gS_cycConv (n : ℕ) (x y : Array (Int × Int)) (u : ℕ) (hu : u < n) :
    gS (cycConv n x y) u = ∑ s ∈ range n, gS x s * gS y ((u + n - s) % n) := by
  unfold cycConv
  rw [gS_ofFn n _ u hu]
  unfold gC
  simp only []
  rw [sumTo_eq_sum, sumTo_eq_sum, Int.cast_sum, Int.cast_sum, mul_sum, ← sum_add_distrib]
  apply sum_congr rfl
  intro s _
  have := gC_mul (gget x s) (gget y ((u + n - s) % n))
  unfold gC at this
  unfold gS gC
  rw [← this]

theorem gS_conjSeq (n : ℕ) (x : Array (Int × Int)) (u : ℕ) (hu : u < n) :
    gS (conjSeq n x) u = (starRingEnd ℂ) (gS x ((n - u) % n)) := by
  unfold conjSeq
  rw [gS_ofFn n _ u hu]
  unfold gS gC
  simp only [map_add, map_mul, conj_I, map_intCast]
  push_cast
  ring


theorem lift2_some {α : Type} (f : α → α → Option α) (a b : Option α) (r : α) (h : lift2 f a b = some r) :
    ∃ x y, a = some x ∧ b = some y ∧ f x y = some r := by
  cases a with
  | none => simp [lift2] at h
  | some x =>
    cases b with
    | none => simp [lift2] at h
    | some y => exact ⟨x, y, rfl, rfl, h⟩

theorem dft_zero_seq (ζ : ℂ) (n p : ℕ) : dft ζ n (fun _ => (0 : ℂ)) p = 0 := by
  unfold dft; simp

theorem dft_delta (ζ c : ℂ) (n p : ℕ) (hn : 0 < n) : dft ζ n (fun u => if u = 0 then c else 0) p = c := by
  unfold dft
  rw [sum_eq_single 0 (fun u _ hne => by simp only [if_neg hne, zero_mul]) (fun h => absurd (mem_range.2 hn) h)]
  simp

/-- **The expression on the transforms is the transform of the expression on the sequences** (exact arithmetic):
    if every operand spectrum is the transform of its coefficient vector, then at every bin `p` the value of the
    expression is the transform of `SExpr.den` — whenever that is defined. -/
theorem den_exact (m : ℕ) (vs : List (Array Int)) (leaves : List (Array ℂ))
    (hl : ∀ i p, p < 2^m → rdA arithC (leaves.getD i #[]) p = dft (zeta m) (2^m) (cz (vs.getD i #[])) p) :
    ∀ (e : SExpr) (x : Array (Int × Int)), e.den (2^m) vs = some x →
      ∀ p, p < 2^m → e.eval arithC leaves p = dft (zeta m) (2^m) (gS x) p := by
  have hpos := Nat.two_pow_pos m
  intro e
  induction e with
  | leaf i =>
    intro x h p hp
    simp only [SExpr.den, Option.some.injEq] at h
    subst h
    show rdA arithC (leaves.getD i #[]) p = _
    rw [hl i p hp]
    exact (dft_gS_ofFn _ _ _ _ (fun u _ => by unfold gC cz; simp) p).symm
  | zero =>
    intro x h p hp
    simp only [SExpr.den, Option.some.injEq] at h
    subst h
    rw [dft_gS_ofFn _ _ _ (fun _ => 0) (fun u _ => gC_zero) p, dft_zero_seq]
    rfl
  | one =>
    intro x h p hp
    simp only [SExpr.den, Option.some.injEq] at h
    subst h
    rw [dft_gS_ofFn _ _ _ (fun u => if u = 0 then (1 : ℂ) else 0)
      (fun u _ => by by_cases h0 : u = 0 <;> simp [h0, gC]) p, dft_delta _ _ _ _ hpos]
    rfl
  | ci =>
    intro x h p hp
    simp only [SExpr.den, Option.some.injEq] at h
    subst h
    rw [dft_gS_ofFn _ _ _ (fun u => if u = 0 then I else 0)
      (fun u _ => by by_cases h0 : u = 0 <;> simp [h0, gC]) p, dft_delta _ _ _ _ hpos]
    rfl
  | add a b iha ihb =>
    intro x h p hp
    rw [SExpr.den] at h
    obtain ⟨xa, xb, ha, hb, hr⟩ := lift2_some _ _ _ _ h
    simp only [Option.some.injEq] at hr
    subst hr
    show (a.eval arithC leaves p) + (b.eval arithC leaves p) = _
    rw [iha xa ha p hp, ihb xb hb p hp,
      dft_gS_ofFn _ _ _ (fun u => gS xa u + 1 * gS xb u) (fun u _ => by unfold gS gC; push_cast; ring) p, dft_lin, one_mul]
  | sub a b iha ihb =>
    intro x h p hp
    rw [SExpr.den] at h
    obtain ⟨xa, xb, ha, hb, hr⟩ := lift2_some _ _ _ _ h
    simp only [Option.some.injEq] at hr
    subst hr
    show (a.eval arithC leaves p) - (b.eval arithC leaves p) = _
    rw [iha xa ha p hp, ihb xb hb p hp,
      dft_gS_ofFn _ _ _ (fun u => gS xa u + (-1) * gS xb u) (fun u _ => by unfold gS gC; push_cast; ring) p, dft_lin]
    ring
  | mul a b iha ihb =>
    intro x h p hp
    rw [SExpr.den] at h
    obtain ⟨xa, xb, ha, hb, hr⟩ := lift2_some _ _ _ _ h
    simp only [Option.some.injEq] at hr
    subst hr
    show (a.eval arithC leaves p) * (b.eval arithC leaves p) = _
    rw [iha xa ha p hp, ihb xb hb p hp, ← dft_cyc_conv _ _ (zeta_pow_two_pow m)]
    exact dft_congr _ _ _ _ (fun u hu => (gS_cycConv _ xa xb u hu).symm) p
  | div a b iha ihb =>
    intro x h p hp
    rw [SExpr.den] at h
    obtain ⟨xa, xb, ha, hb, hr⟩ := lift2_some _ _ _ _ h
    by_cases hu : isUnitMonomial (2^m) xb = true
    · rw [if_pos hu] at hr
      simp only [Option.some.injEq] at hr
      subst hr
      show (a.eval arithC leaves p) * (starRingEnd ℂ) (b.eval arithC leaves p)
        / ((Complex.normSq (b.eval arithC leaves p) : ℝ) : ℂ) = _
      rw [iha xa ha p hp, ihb xb hb p hp, unitMonomial_normSq m xb hu p, ← dft_conj_seq,
        ← dft_cyc_conv _ _ (zeta_pow_two_pow m)]
      simp only [ofReal_one, div_one]
      apply dft_congr
      intro u hu'
      rw [gS_cycConv _ xa _ u hu']
      apply sum_congr rfl
      intro s _
      rw [gS_conjSeq _ xb _ (Nat.mod_lt _ hpos)]
    · rw [if_neg hu] at hr
      exact absurd hr (by simp)
  | neg a iha =>
    intro x h p hp
    rw [SExpr.den] at h
    cases ha : a.den (2^m) vs with
    | none => rw [ha] at h; simp at h
    | some xa =>
      rw [ha] at h
      simp only [Option.map_some, Option.some.injEq] at h
      subst h
      show -(a.eval arithC leaves p) = _
      rw [iha xa ha p hp,
        dft_gS_ofFn _ _ _ (fun u => 0 + (-1) * gS xa u) (fun u _ => by unfold gS gC; push_cast; ring) p, dft_lin,
        dft_zero_seq]
      ring
  | conj a iha =>
    intro x h p hp
    rw [SExpr.den] at h
    cases ha : a.den (2^m) vs with
    | none => rw [ha] at h; simp at h
    | some xa =>
      rw [ha] at h
      simp only [Option.map_some, Option.some.injEq] at h
      subst h
      show (starRingEnd ℂ) (a.eval arithC leaves p) = _
      rw [iha xa ha p hp, ← dft_conj_seq]
      exact dft_congr _ _ _ _ (fun u hu => (gS_conjSeq _ xa u hu).symm) p
  | abs2 a iha =>
    intro x h p hp
    rw [SExpr.den] at h
    cases ha : a.den (2^m) vs with
    | none => rw [ha] at h; simp at h
    | some xa =>
      rw [ha] at h
      simp only [Option.map_some, Option.some.injEq] at h
      subst h
      show ((Complex.normSq (a.eval arithC leaves p) : ℝ) : ℂ) = _
      rw [← Complex.mul_conj, iha xa ha p hp, ← dft_conj_seq, ← dft_cyc_conv _ _ (zeta_pow_two_pow m)]
      apply dft_congr
      intro u hu'
      rw [gS_cycConv _ xa _ u hu']
      apply sum_congr rfl
      intro s _
      rw [gS_conjSeq _ xa _ (Nat.mod_lt _ hpos)]
  | absq a iha =>
    intro x h p hp
    rw [SExpr.den] at h
    cases ha : a.den (2^m) vs with
    | none => rw [ha] at h; simp at h
    | some xa =>
      rw [ha] at h
      simp only [Option.map_some, Option.some.injEq] at h
      subst h
      show ((‖a.eval arithC leaves p‖ * ‖a.eval arithC leaves p‖ : ℝ) : ℂ) = _
      rw [← pow_two, ← Complex.normSq_eq_norm_sq, ← Complex.mul_conj, iha xa ha p hp, ← dft_conj_seq,
        ← dft_cyc_conv _ _ (zeta_pow_two_pow m)]
      apply dft_congr
      intro u hu'
      rw [gS_cycConv _ xa _ u hu']
      apply sum_congr rfl
      intro s _
      rw [gS_conjSeq _ xa _ (Nat.mod_lt _ hpos)]
  | scale k a iha =>
    intro x h p hp
    rw [SExpr.den] at h
    cases ha : a.den (2^m) vs with
    | none => rw [ha] at h; simp at h
    | some xa =>
      rw [ha] at h
      simp only [Option.map_some, Option.some.injEq] at h
      subst h
      show (a.eval arithC leaves p) * ((k : ℤ) : ℂ) = _
      rw [iha xa ha p hp,
        dft_gS_ofFn _ _ _ (fun u => 0 + ((k : ℤ) : ℂ) * gS xa u) (fun u _ => by unfold gS gC; push_cast; ring) p, dft_lin,
        dft_zero_seq]
      ring
  | divS k a iha =>
    intro x h p hp
    rw [SExpr.den] at h
    cases ha : a.den (2^m) vs with
    | none => rw [ha] at h; simp at h
    | some xa =>
      rw [ha] at h
      simp only [] at h
      by_cases hc : k ≠ 0 ∧ ((List.range (2^m)).all (fun u => (gget xa u).1 % k == 0 && (gget xa u).2 % k == 0)) = true
      · rw [if_pos hc] at h
        simp only [Option.some.injEq] at h
        subst h
        obtain ⟨hk, hall⟩ := hc
        rw [List.all_eq_true] at hall
        have hkC : ((k : ℤ) : ℂ) ≠ 0 := by exact_mod_cast hk
        show (a.eval arithC leaves p) / ((k : ℤ) : ℂ) = _
        rw [iha xa ha p hp, div_eq_iff hkC, mul_comm, ← zero_add (((k : ℤ) : ℂ) * _), ← dft_zero_seq (zeta m) (2^m) p, ← dft_lin]
        apply dft_congr
        intro u hu
        have := hall u (List.mem_range.2 hu)
        rw [Bool.and_eq_true] at this
        obtain ⟨d1, d2⟩ := this
        have e1 : (gget xa u).1 = k * ((gget xa u).1 / k) :=
          (Int.mul_ediv_cancel' (Int.dvd_of_emod_eq_zero (by simpa using d1))).symm
        have e2 : (gget xa u).2 = k * ((gget xa u).2 / k) :=
          (Int.mul_ediv_cancel' (Int.dvd_of_emod_eq_zero (by simpa using d2))).symm
        rw [gS_ofFn _ _ u hu]
        unfold gS gC
        simp only []
        conv_lhs => rw [e1, e2]
        push_cast
        ring
      · rw [if_neg hc] at h
        exact absurd h (by simp)


theorem fftAllRef?_exact (m : ℕ) : ∀ (vs : List (Array Int)), (∀ v ∈ vs, v.size ≤ 2^m) →
    fftAllRef? arithC vs (2^m)
      = .ok (vs.map (fun v => fftIntoRef arithC v m (Array.replicate (2^m) arithC.zero))) := by
  intro vs
  induction vs with
  | nil => intro _; rfl
  | cons v vs ih =>
    intro h
    unfold fftAllRef?
    rw [fftIntoRef?_zero_exact v m (h v (by simp))]
    simp only []
    rw [ih (fun w hw => h w (by simp [hw]))]
    rfl

theorem leaves_exact (m : ℕ) (vs : List (Array Int)) (i p : ℕ) (hp : p < 2^m) :
    rdA arithC ((vs.map (fun v => fftIntoRef arithC v m (Array.replicate (2^m) arithC.zero))).getD i #[]) p
      = dft (zeta m) (2^m) (cz (vs.getD i #[])) p := by
  rw [List.getD_eq_getElem?_getD, List.getD_eq_getElem?_getD, List.getElem?_map]
  cases vs[i]? with
  | none =>
    simp only [Option.map_none, Option.getD_none]
    have : ∀ s, cz (#[] : Array Int) s = 0 := fun s => cz_of_le _ s (by simp)
    rw [dft_congr _ _ _ (fun _ => 0) (fun s _ => this s), dft_zero_seq]
    unfold rdA
    simp
    rfl
  | some v =>
    simp only [Option.map_some, Option.getD_some]
    exact (fftIntoRef_zero_exact v m).2 p hp

/-- **forward transforms, any expression over the operators of `Complex<F>`, `fft_inv_into`** adds to the destination
    exactly the integer sequence the same expression denotes in `ℤ[i][x]/(xⁿ-1)` (table-free form). -/
theorem spectralRef?_exact (m : ℕ) (e : SExpr) (vs : List (Array Int)) (hvs : ∀ v ∈ vs, v.size ≤ 2^m)
    (c : List Int) (hc : e.expected (2^m) vs = some c) (res : List Int) :
    spectralRef? arithC e vs (2^m) res = .ok (addPrefix res c) := by
  unfold spectralRef?
  rw [fftAllRef?_exact m vs hvs]
  simp only []
  unfold SExpr.expected at hc
  cases hden : e.den (2^m) vs with
  | none => rw [hden] at hc; simp at hc
  | some x =>
    rw [hden] at hc
    simp only [] at hc
    by_cases hall : ((List.range (2^m)).all (fun u => (gget x u).2 == 0)) = true
    · rw [if_pos hall] at hc
      simp only [Option.some.injEq] at hc
      subst hc
      rw [List.all_eq_true] at hall
      unfold fftInvIntoRef?
      have hsz : (spectrum arithC e (vs.map (fun v => fftIntoRef arithC v m (Array.replicate (2^m) arithC.zero))) (2^m)).size = 2^m := by
        unfold spectrum; rw [Array.size_ofFn]
      rw [hsz, isPow2_two_pow]
      simp only [Bool.not_true, Bool.false_eq_true, if_false]
      rw [fftInvIntoRef_exact_into m (fun u => (gget x u).1) _ hsz (fun p hp => by
        have e1 : rdA arithC (spectrum arithC e (vs.map (fun v => fftIntoRef arithC v m (Array.replicate (2^m) arithC.zero))) (2^m)) p
            = e.eval arithC (vs.map (fun v => fftIntoRef arithC v m (Array.replicate (2^m) arithC.zero))) p := by
          apply rdA_of_getElem?
          unfold spectrum
          rw [Array.getElem?_ofFn, dif_pos hp]
        rw [e1, den_exact m vs _ (fun i q hq => leaves_exact m vs i q hq) e x hden p hp]
        apply dft_congr
        intro u hu
        have := hall u (List.mem_range.2 hu)
        unfold gS gC
        rw [show (gget x u).2 = 0 by simpa using this]
        simp) res]
    · rw [if_neg hall] at hc
      exact absurd hc (by simp)

end Rlib.Fft
