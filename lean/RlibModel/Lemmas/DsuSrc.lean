import RlibModel.Generated.DsuSrc
import RlibModel.Lemmas.DsuOps
import RlibModel.Lemmas.VecSrc
/-!
# The definitions regenerated from `rlib/dsu/src/lib.rs` equal the hand-written model of `DSU`

`Rlib.DsuSrc.*` is written by `tools/rs2lean_typed.py` from the Rust source text on every run of `./check C05`: the two
`Vec<usize>` fields are `Array Int`s with checked indexing (`SrcVec.index/store`, `Generated/VecPrelude.lean`), `+=` is a checked
`usize` addition, `par` recurses and the `for` loops of `reset` run on `fuel`.  The hand-written model `Rlib.Dsu.*` works on
`Array Nat`.  The two are related through the embedding `emb : Array Nat → Array Int` (`Nat → Int` on every element; `Lemmas/VecSrc.lean`):

* `new`, `reset` (budget `n + 1 ≤ fuel` for the two loops) — equal;
* `par`, `un`, `check`, `size` — `Agree`: the generated definition returns what the model returns (value or the same panic),
  with ONE exception that cannot be avoided: when the model's recursion budget runs out at a vertex that is out of range the
  model says `index` (it checks the index before it looks at the fuel) where the generated text says `fuel`.  `un` additionally
  needs the sum of two stored sizes to fit `usize` (the source checks that addition, the model does not have the check).

The proofs unfold both sides and split on the checks; they do not depend on the names of the generated variables.
-/
set_option linter.unusedTactic false
set_option linter.unreachableTactic false
set_option linter.unusedSimpArgs false
set_option linter.unusedVariables false
namespace Rlib.DsuSrc
open Rlib Rlib.Dsu Rlib.SrcVec

/-- what the generated functions return for a model result `(state, value)` -/
def outN : S × Nat → Array Int × Array Int × Int := fun x => (emb x.1.p, emb x.1.sz, (x.2 : Int))
def outB : S × Bool → Array Int × Array Int × Bool := fun x => (emb x.1.p, emb x.1.sz, x.2)

/-- "the same result", up to the one place where the model answers `index` and the generated text `fuel` -/
def Agree {β γ : Type} (out : β → γ) (src : Except Panic γ) (model : Except Panic β) : Prop :=
  src = model.map out ∨ (src = .error .fuel ∧ model = .error .index)

theorem Agree.eq_of_src {β γ : Type} {out : β → γ} {src : Except Panic γ} {model : Except Panic β}
    (h : Agree out src model) (hs : src ≠ .error .fuel) : src = model.map out := by
  rcases h with h | ⟨h, _⟩
  · exact h
  · exact absurd h hs

theorem Agree.eq_of_model {β γ : Type} {out : β → γ} {src : Except Panic γ} {model : Except Panic β}
    (h : Agree out src model) (hm : model ≠ .error .index) : src = model.map out := by
  rcases h with h | ⟨_, h⟩
  · exact h
  · exact absurd h hm

theorem resize_emb (a : Array Nat) (n d : Nat) :
    SrcVec.resize (emb a) (n : Int) (d : Int) = emb (Dsu.resize a n d) := by
  unfold SrcVec.resize Dsu.resize
  simp only [size_emb, Int.toNat_natCast]
  split
  · simp [emb]
  · simp [emb]

theorem resize_emb0 (a : Array Nat) (n : Nat) : SrcVec.resize (emb a) (n : Int) 0 = emb (Dsu.resize a n 0) := by
  have h := resize_emb a n 0
  simpa using h

/-- Normalises the conditions and vector accesses of the generated text: comparisons of embedded naturals in whatever form the
    source writes them (`!=`, `!(a == b)`, `>` or `<` with the operands exchanged …) become the model's comparisons of naturals;
    accesses to embedded vectors become `dite`s on the model's bounds.  Extra facts are passed as `cond_simp [h1, h2]`. -/
syntax "cond_simp" (" [" Lean.Parser.Tactic.simpLemma,* "]")? : tactic
macro_rules
  | `(tactic| cond_simp) => `(tactic| cond_simp [])
  | `(tactic| cond_simp [$ls,*]) =>
    `(tactic| simp only [ne_eq, gt_iff_lt, ge_iff_le, not_not, not_lt, not_le, Int.ofNat_inj, Int.ofNat_lt, Int.ofNat_le,
        not_false_eq_true, not_true_eq_false, if_true, if_false, eq_self_iff_true, and_self, and_true, true_and, false_and, and_false,
        Array.size_set, Array.getElem_set_self, decide_nat,
        index_emb, store_emb, index_set_emb, ↓reduceDIte, ↓reduceIte, Except.map, $ls,*])

/-! ### `new`, `reset` -/

/-- `DSU::new` — for every `n`. -/
theorem new_eq_model (fuel n : Nat) : DsuSrc.new fuel (n : Int) = .ok (emb (Dsu.new n).p, emb (Dsu.new n).sz) := by
  unfold DsuSrc.new Dsu.new
  simp only [range_emb, replicate_emb1]

/-- the model's `fillWith`, started in the middle -/
theorem fill_emb (f : Nat → Nat) (l : List Nat) (a : Array Nat) :
    emb (l.foldl (fun a i => a.setIfInBounds i (f i)) a) = l.foldl (fun A i => A.setIfInBounds i ((f i : Nat) : Int)) (emb a) := by
  induction l generalizing a with
  | nil => rfl
  | cons x l ih => simp only [List.foldl_cons]; rw [ih]; simp [emb]

theorem size_fill (g : Nat → Int) (l : List Nat) (A : Array Int) :
    (l.foldl (fun A i => A.setIfInBounds i (g i)) A).size = A.size := by
  induction l generalizing A with
  | nil => rfl
  | cons x l ih => simp only [List.foldl_cons]; rw [ih]; simp

/-- first loop of `reset`: `for i in k..n { p[i] = i }` on a vector of length `n` -/
theorem reset_loop0_eq (n : Nat) : ∀ (m k fuel : Nat) (P SZ : Array Int), k + m = n → m + 1 ≤ fuel → P.size = n →
    reset_loop0 fuel (k : Int) (n : Int) P SZ =
      .ok ((n : Int), (List.range' k m).foldl (fun A i => A.setIfInBounds i ((i : Nat) : Int)) P, SZ) := by
  intro m
  induction m with
  | zero =>
    intro k fuel P SZ hk hf hP
    obtain ⟨f, rfl⟩ : ∃ f, fuel = f + 1 := ⟨fuel - 1, by omega⟩
    have : k = n := by omega
    subst this
    simp [reset_loop0]
  | succ m ih =>
    intro k fuel P SZ hk hf hP
    obtain ⟨f, rfl⟩ : ∃ f, fuel = f + 1 := ⟨fuel - 1, by omega⟩
    have hlt : (k : Int) < (n : Int) := by omega
    have e : ((k : Int) + 1) = ((k + 1 : Nat) : Int) := by omega
    rw [reset_loop0]
    simp only [hlt, if_true]
    rw [store_nat P k _ (by omega)]
    simp only [e]
    rw [ih (k + 1) f _ SZ (by omega) (by omega) (by simpa using hP)]
    simp [List.range'_succ]

/-- second loop of `reset`: `for i in k..n { sz[i] = 1 }` -/
theorem reset_loop1_eq (n : Nat) : ∀ (m k fuel : Nat) (P SZ : Array Int), k + m = n → m + 1 ≤ fuel → SZ.size = n →
    reset_loop1 fuel (k : Int) (n : Int) P SZ =
      .ok ((n : Int), P, (List.range' k m).foldl (fun A i => A.setIfInBounds i (1 : Int)) SZ) := by
  intro m
  induction m with
  | zero =>
    intro k fuel P SZ hk hf hP
    obtain ⟨f, rfl⟩ : ∃ f, fuel = f + 1 := ⟨fuel - 1, by omega⟩
    have : k = n := by omega
    subst this
    simp [reset_loop1]
  | succ m ih =>
    intro k fuel P SZ hk hf hP
    obtain ⟨f, rfl⟩ : ∃ f, fuel = f + 1 := ⟨fuel - 1, by omega⟩
    have hlt : (k : Int) < (n : Int) := by omega
    have e : ((k : Int) + 1) = ((k + 1 : Nat) : Int) := by omega
    rw [reset_loop1]
    simp only [hlt, if_true]
    rw [store_nat SZ k _ (by omega)]
    simp only [e]
    rw [ih (k + 1) f P _ (by omega) (by omega) (by simpa using hP)]
    simp [List.range'_succ]

/-- `reset(n)` — for every state and `n`, budget `n + 1 ≤ fuel` (each `for` loop makes `n + 1` rounds). -/
theorem reset_eq_model (fuel : Nat) (s : S) (n : Nat) (hf : n + 1 ≤ fuel) :
    DsuSrc.reset fuel (emb s.p) (emb s.sz) (n : Int) = .ok (emb (Dsu.reset s n).p, emb (Dsu.reset s n).sz) := by
  unfold DsuSrc.reset Dsu.reset Dsu.fillWith
  have l0 := fun P SZ h => reset_loop0_eq n n 0 fuel P SZ (by omega) hf h
  have l1 := fun P SZ h => reset_loop1_eq n n 0 fuel P SZ (by omega) hf h
  have h0 : ((0 : Nat) : Int) = 0 := rfl
  rw [h0] at l0 l1
  simp only [resize_emb0]
  rw [l0 _ _ (by simp [size_resize])]
  simp only [resize_emb0]
  rw [l1 _ _ (by simp [size_resize])]
  simp only [fill_emb, List.range_eq_range']
  rfl

/-! ### `par` -/

/-- `par` (recursive find with path compression) — for every fuel, state and vertex. -/
theorem par_agree : ∀ (fuel : Nat) (s : S) (v : Nat),
    Agree outN (DsuSrc.par fuel (emb s.p) (emb s.sz) (v : Int)) (Dsu.par fuel s v) := by
  intro fuel
  induction fuel with
  | zero =>
    intro s v
    unfold DsuSrc.par Dsu.par
    by_cases h : v < s.p.size
    · left; simp [h, Except.map]
    · right; simp [h]
  | succ f ih =>
    intro s v
    rw [DsuSrc.par, Dsu.par]
    by_cases h : v < s.p.size
    · by_cases hr : s.p[v] = v
      · left
        cond_simp [h, hr, outN]
      · cond_simp [h, hr]
        rcases ih s s.p[v] with e | ⟨e1, e2⟩
        · rw [e]
          cases hm : Dsu.par f s s.p[v] with
          | error err => left; cond_simp
          | ok x =>
            obtain ⟨⟨p', sz'⟩, r⟩ := x
            left
            by_cases h' : v < p'.size
            · cond_simp [h', outN]
            · cond_simp [h', outN]
        · right
          rw [e1, e2]
          exact ⟨rfl, rfl⟩
    · left
      cond_simp [h]

/-- `par` never touches the sizes. -/
theorem par_sz : ∀ (fuel : Nat) (s s' : S) (v r : Nat), Dsu.par fuel s v = .ok (s', r) → s'.sz = s.sz := by
  intro fuel
  induction fuel with
  | zero => intro s s' v r h; unfold Dsu.par at h; split at h <;> cases h
  | succ f ih =>
    intro s s' v r h
    rw [Dsu.par] at h
    split at h
    · split at h
      · cases h; rfl
      · split at h
        · cases h
        · rename_i p' sz' r' hm
          split at h
          · cases h; exact ih s ⟨p', sz'⟩ _ _ hm
          · cases h
    · cases h

/-! ### `check`, `size`, `un` -/

/-- `check(u, v)` — for every fuel, state and pair. -/
theorem check_agree (fuel : Nat) (s : S) (u v : Nat) :
    Agree outB (DsuSrc.check fuel (emb s.p) (emb s.sz) (u : Int) (v : Int)) (Dsu.check fuel s u v) := by
  unfold DsuSrc.check Dsu.check
  rcases par_agree fuel s u with e | ⟨e1, e2⟩
  · rw [e]
    cases hm : Dsu.par fuel s u with
    | error err => left; simp [Except.map]
    | ok x =>
      obtain ⟨s1, ru⟩ := x
      simp only [Except.map, outN]
      rcases par_agree fuel s1 v with e' | ⟨e1, e2⟩
      · rw [e']
        cases hm' : Dsu.par fuel s1 v with
        | error err => left; simp [Except.map]
        | ok x =>
          obtain ⟨s2, rv⟩ := x
          left
          cond_simp [outN, outB, decide_cast]
      · right; rw [e1, e2]; exact ⟨rfl, rfl⟩
  · right; rw [e1, e2]; exact ⟨rfl, rfl⟩

/-- `size(v)` — for every fuel, state and vertex. -/
theorem size_agree (fuel : Nat) (s : S) (v : Nat) :
    Agree outN (DsuSrc.size fuel (emb s.p) (emb s.sz) (v : Int)) (Dsu.size fuel s v) := by
  unfold DsuSrc.size Dsu.size
  rcases par_agree fuel s v with e | ⟨e1, e2⟩
  · rw [e]
    left
    cases hm : Dsu.par fuel s v with
    | error err => simp [Except.map]
    | ok x =>
      obtain ⟨s1, r⟩ := x
      by_cases h : r < s1.sz.size
      · cond_simp [h, outN]
      · cond_simp [h, outN]
  · right; rw [e1, e2]; exact ⟨rfl, rfl⟩

/-- `par` keeps the length of the parent vector. -/
theorem par_psize : ∀ (fuel : Nat) (s s' : S) (v r : Nat), Dsu.par fuel s v = .ok (s', r) → s'.p.size = s.p.size := by
  intro fuel
  induction fuel with
  | zero => intro s s' v r h; unfold Dsu.par at h; split at h <;> cases h
  | succ f ih =>
    intro s s' v r h
    rw [Dsu.par] at h
    split at h
    · split at h
      · cases h; rfl
      · split at h
        · cases h
        · rename_i p' sz' r' hm
          split at h
          · cases h
            have := ih s ⟨p', sz'⟩ _ _ hm
            simpa using this
          · cases h
    · cases h

/-- `un(u, v)` — for every fuel, every state whose two vectors have the same length (always the case for a `DSU`: the fields
    are private and `new`/`reset` build them with equal lengths; on other states the model is stricter than the code — it
    checks `u` and `v` against both vectors, the code only the entry of `p` it assigns) and every pair, provided the sum of
    any two stored sizes fits `usize` (the source's `+=` is overflow-checked, the model's addition is not). -/
theorem un_agree (fuel : Nat) (s : S) (u v : Nat) (hlen : s.p.size = s.sz.size)
    (hsz : ∀ (i j : Nat) (hi : i < s.sz.size) (hj : j < s.sz.size), s.sz[i] + s.sz[j] < 2 ^ 64) :
    Agree outB (DsuSrc.un fuel (emb s.p) (emb s.sz) (u : Int) (v : Int)) (Dsu.un fuel s u v) := by
  unfold DsuSrc.un Dsu.un
  rcases par_agree fuel s u with e | ⟨e1, e2⟩
  · rw [e]
    cases hm : Dsu.par fuel s u with
    | error err => left; simp [Except.map]
    | ok x =>
      obtain ⟨s1, ru⟩ := x
      simp only [Except.map, outN]
      rcases par_agree fuel s1 v with e' | ⟨e1, e2⟩
      · rw [e']
        cases hm' : Dsu.par fuel s1 v with
        | error err => left; simp [Except.map]
        | ok x =>
          obtain ⟨⟨p2, sz2⟩, rv⟩ := x
          left
          have hs2 : sz2 = s.sz := by
            have h1 := par_sz fuel s s1 u ru hm
            have h2 := par_sz fuel s1 ⟨p2, sz2⟩ v rv hm'
            simpa [h1] using h2
          have hp2 : p2.size = s.sz.size := by
            have h1 := par_psize fuel s s1 u ru hm
            have h2 := par_psize fuel s1 ⟨p2, sz2⟩ v rv hm'
            simp only at h2
            omega
          subst hs2
          by_cases hc : ru = rv
          · cond_simp [hc, outN, outB]
          · by_cases h1 : ru < s.sz.size
            · by_cases h2 : rv < s.sz.size
              · have hsum := hsz ru rv h1 h2
                have ck1 : checked (IntTy.mk false 64) (((s.sz[ru] : Nat) : Int) + ((s.sz[rv] : Nat) : Int)) =
                    .ok (((s.sz[ru] + s.sz[rv] : Nat)) : Int) := by
                  rw [checked_usize (by omega) (by omega)]; simp
                have ck2 : checked (IntTy.mk false 64) (((s.sz[rv] : Nat) : Int) + ((s.sz[ru] : Nat) : Int)) =
                    .ok (((s.sz[rv] + s.sz[ru] : Nat)) : Int) := by
                  rw [checked_usize (by omega) (by omega)]; simp
                have h3 : ru < p2.size := by omega
                have h4 : rv < p2.size := by omega
                by_cases hg : s.sz[rv] < s.sz[ru]
                · cond_simp [hc, h1, h2, h3, h4, hg, ck1, ck2, outN, outB]
                · have hg' : s.sz[ru] ≤ s.sz[rv] := by omega
                  cond_simp [hc, h1, h2, h3, h4, hg, hg', ck1, ck2, outN, outB]
              · have hall : ¬ ((ru < s.sz.size ∧ rv < s.sz.size) ∧ (ru < p2.size ∧ rv < p2.size)) := by tauto
                cond_simp [hc, h1, h2, hall, outN, outB]
            · have hall : ¬ ((ru < s.sz.size ∧ rv < s.sz.size) ∧ (ru < p2.size ∧ rv < p2.size)) := by tauto
              cond_simp [hc, h1, hall, outN, outB]
      · right; rw [e1, e2]; exact ⟨rfl, rfl⟩
  · right; rw [e1, e2]; exact ⟨rfl, rfl⟩

end Rlib.DsuSrc
