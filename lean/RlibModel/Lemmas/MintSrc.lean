import RlibModel.Generated.MintSrc
import RlibModel.Lemmas.Mint
/-!
# The definitions regenerated from `rlib/mint/src/lib.rs` equal the hand-written model of `Modular<M>`

`Rlib.MintSrc.*` is written by `tools/rs2lean_typed.py` from the Rust source text on every run of `./check C06`
(every cast a `wrap`, every `+ - * /` a `checked`, const generic `M` = the parameter after `fuel`).  Each theorem says
that the generated definition returns exactly what `Rlib.Mint.*` returns — the value or the same panic.
`add sub neg` agree for all integers; `new` for every `u32` modulus and every argument; `mul pow inv div` under the
guard of C06 (`2 ≤ M < 2^31`, canonical operands), where the widening casts of the source are the identity.
The proofs unfold both sides and let `simp` normalise, so harmless rewrites of the source keep them valid; a change
of meaning makes them fail to compile.
-/
set_option linter.unusedTactic false
set_option linter.unreachableTactic false
set_option linter.unusedSimpArgs false
namespace Rlib.MintSrc
open Rlib Rlib.Mint

theorem wrap_i64_id {z : Int} (h0 : -2 ^ 63 ≤ z) (h1 : z < 2 ^ 63) : IntTy.wrap (IntTy.mk true 64) z = z := by
  simp only [IntTy.wrap, wrapS, if_true]; omega

@[simp] theorem wrap_i32 (z : Int) : IntTy.wrap (IntTy.mk true 32) z = wrapS 32 z := rfl
@[simp] theorem wrap_u32 (z : Int) : IntTy.wrap (IntTy.mk false 32) z = wrapU 32 z := rfl

/-- Closes goals `generated = model` once both sides are unfolded: split every `if` / `match`, then rewrite with the
    equations the splits produced. -/
macro "close_except" : tactic =>
  `(tactic| ((repeat' split) <;> simp_all [bind, Except.bind, pure, Except.pure]))

/-- `Modular::new` — for every `u32` modulus (0 included: both divide by zero) and every argument. -/
theorem new_eq_model (fuel : Nat) (M v : Int) (hM : 0 ≤ M) (hM2 : M < 2 ^ 32) :
    MintSrc.new fuel M v = Mint.new M v := by
  have hw : IntTy.wrap (IntTy.mk true 64) M = M := wrap_i64_id (by omega) (by omega)
  have h1 : ¬ M = -1 := by omega
  unfold MintSrc.new Mint.new
  simp only [hw, h1, and_false, if_false, wrap_i32, wrap_u32, i32]
  close_except

/-- Unfolds the accessor `md()` if the source still has (and uses) one: nothing here depends on its existence. -/
macro "unfold_md" : tactic => `(tactic| try (simp only [MintSrc.md]))

/-- `Add::add` — for all integers. -/
theorem add_eq_model (fuel : Nat) (M a b : Int) : MintSrc.add fuel M a b = Mint.add M a b := by
  unfold MintSrc.add Mint.add
  simp only [u32]
  close_except

/-- `Sub::sub` — for all integers. -/
theorem sub_eq_model (fuel : Nat) (M a b : Int) : MintSrc.sub fuel M a b = Mint.sub M a b := by
  unfold MintSrc.sub Mint.sub
  simp only [u32]
  unfold_md
  close_except

/-- `Neg::neg` — for all integers. -/
theorem neg_eq_model (fuel : Nat) (M a : Int) : MintSrc.neg fuel M a = Mint.neg M a := by
  unfold MintSrc.neg Mint.neg
  simp only [u32]
  unfold_md
  close_except

/-- `Mul::mul` — for every `u32` modulus and operands that fit `i64` (in particular all `u32` field values): the
    widening casts `as i64` are the identity there. -/
theorem mul_eq_model (fuel : Nat) (M a b : Int) (hM : 0 ≤ M) (hM2 : M < 2 ^ 32)
    (ha : -2 ^ 63 ≤ a ∧ a < 2 ^ 63) (hb : -2 ^ 63 ≤ b ∧ b < 2 ^ 63) :
    MintSrc.mul fuel M a b = Mint.mul M a b := by
  unfold MintSrc.mul Mint.mul
  simp only [wrap_i64_id ha.1 ha.2, wrap_i64_id hb.1 hb.2, new_eq_model fuel M _ hM hM2, i64]
  close_except

theorem mul_assign_eq_model (fuel : Nat) (M a b : Int) (hM : 0 ≤ M) (hM2 : M < 2 ^ 32)
    (ha : -2 ^ 63 ≤ a ∧ a < 2 ^ 63) (hb : -2 ^ 63 ≤ b ∧ b < 2 ^ 63) :
    MintSrc.mul_assign fuel M a b = Mint.mul M a b := by
  unfold MintSrc.mul_assign
  rw [mul_eq_model fuel M a b hM hM2 ha hb]
  close_except

/-! ### `pow` — under the guard of C06 -/

theorem R_i64 {M a : Int} (hM2 : M < 2 ^ 31) (h : R M a) : -2 ^ 63 ≤ a ∧ a < 2 ^ 63 := by
  obtain ⟨h0, h1⟩ := h; omega

/-- The translated `while d != 0` loop of `pow`: with budget `n + 1` for exponents below `2^n` its `res` component is
    what the model's (well-founded) loop returns, panics included. -/
theorem pow_loop0_eq (M : Int) (hM : 2 ≤ M) (hM2 : M < 2 ^ 31) :
    ∀ (n : Nat) (d : Nat) (res a : Int), d < 2 ^ n → d < 2 ^ 64 → R M res → R M a →
      (MintSrc.pow_loop0 (n + 1) M (d : Int) res a).map (fun s => s.2.1) = Mint.powLoop M res a d := by
  intro n
  induction n with
  | zero =>
    intro d res a hd _ _ _
    have : d = 0 := by omega
    subst this
    rw [powLoop, dif_pos rfl]
    simp [MintSrc.pow_loop0, Except.map]
  | succ n ih =>
    intro d res a hd hd64 hres ha
    have hM0 : 0 ≤ M := by omega
    have hM32 : M < 2 ^ 32 := by omega
    rw [powLoop]
    by_cases hd0 : d = 0
    · subst hd0
      simp [MintSrc.pow_loop0, Except.map]
    · have hfit : checked (IntTy.mk false 64) ((d : Int) / 2) = .ok ((d : Int) / 2) := by
        apply checked_ok
        simp [IntTy.fits, IntTy.minVal, IntTy.maxVal]
        omega
      have hd2 : d / 2 < 2 ^ n := by
        have : 2 ^ (n + 1) = 2 * 2 ^ n := by rw [Nat.pow_succ]; omega
        omega
      have haa := mul_eq M a a hM hM2 ha ha
      have e2 := mul_assign_eq_model (n + 1) M a a hM0 hM32 (R_i64 hM2 ha) (R_i64 hM2 ha)
      have e2' := mul_eq_model (n + 1) M a a hM0 hM32 (R_i64 hM2 ha) (R_i64 hM2 ha)
      have hRaa : R M (a * a % M) := R_red (by omega) _
      rw [dif_neg hd0]
      unfold MintSrc.pow_loop0
      by_cases hodd : d % 2 = 1
      · have hoddI : (d : Int).tmod 2 = 1 := by
          rw [Int.tmod_eq_emod_of_nonneg (by omega)]; omega
        have hra := mul_eq M res a hM hM2 hres ha
        have e1 := mul_assign_eq_model (n + 1) M res a hM0 hM32 (R_i64 hM2 hres) (R_i64 hM2 ha)
        have e1' := mul_eq_model (n + 1) M res a hM0 hM32 (R_i64 hM2 hres) (R_i64 hM2 ha)
        have hR : R M (res * a % M) := R_red (by omega) _
        have := ih (d / 2) _ _ hd2 (by omega) hR hRaa
        simp [hd0, hodd, hoddI, e1, e1', e2, e2', hra, haa, hfit]
        simpa using this
      · have hoddI : ¬ (d : Int).tmod 2 = 1 := by
          rw [Int.tmod_eq_emod_of_nonneg (by omega)]; omega
        have := ih (d / 2) _ _ hd2 (by omega) hres hRaa
        simp [hd0, hodd, hoddI, e2, e2', haa, hfit]
        simpa using this

/-- `pow` — guard of C06, any `u64` exponent, budget 65 (one round per bit of the exponent plus the exit test). -/
theorem pow_eq_model (fuel : Nat) (M a d : Int) (hM : 2 ≤ M) (hM2 : M < 2 ^ 31) (ha : R M a)
    (hd : 0 ≤ d ∧ d < 2 ^ 64) (hf : 65 ≤ fuel) :
    MintSrc.pow fuel M a d = Mint.pow M a d.toNat := by
  have h64 : (2 : Nat) ^ 64 ≤ 2 ^ (fuel - 1) := Nat.pow_le_pow_right (by decide) (by omega)
  have hdn : d.toNat < 2 ^ 64 := by omega
  have key := pow_loop0_eq M hM hM2 (fuel - 1) d.toNat 1 a (by omega) hdn ⟨by omega, by omega⟩ ha
  rw [show fuel - 1 + 1 = fuel by omega, Int.toNat_of_nonneg hd.1] at key
  unfold MintSrc.pow Mint.pow
  rw [← key]
  rcases h : MintSrc.pow_loop0 fuel M d 1 a with e | ⟨x, y, z⟩ <;> simp [h, Except.map]

/-! ### `inv`, `div` -/

/-- The translated `while a != 0` loop of `inv`: with `|a| + 1` rounds of budget its `x` component is what the model's
    (well-founded) loop returns, every `i32` overflow check included — for all integers. -/
theorem inv_loop0_eq : ∀ (fuel : Nat) (M a b x y : Int), a.natAbs + 1 ≤ fuel →
    (MintSrc.inv_loop0 fuel M a b x y).map (fun s => s.2.2.1) = Mint.invLoop a b x y := by
  intro fuel
  induction fuel with
  | zero => intro M a b x y h; omega
  | succ n ih =>
    intro M a b x y h
    rw [invLoop]
    by_cases ha : a = 0
    · subst ha
      simp [MintSrc.inv_loop0, Except.map]
    · have e : b - b.tdiv a * a = b.tmod a := by rw [Int.tmod_def, Int.mul_comm]
      have hlt : (b - b.tdiv a * a).natAbs < a.natAbs := by
        rw [e, Int.natAbs_tmod]; exact Nat.mod_lt _ (by omega)
      have hrec := ih M (b - b.tdiv a * a) a y (x - b.tdiv a * y) (by omega)
      rw [dif_neg ha]
      unfold MintSrc.inv_loop0
      simp only [ne_eq, ha, not_false_eq_true, if_true, if_false, checked, i32]
      -- all five `i32` checks up front: whatever order the source performs them in, the first one that fails yields the same
      -- `overflow`, and if none fails both sides continue with the same state
      by_cases h1 : (IntTy.mk true 32).fits (b.tdiv a) = true <;>
      by_cases h2 : (IntTy.mk true 32).fits (b.tdiv a * a) = true <;>
      by_cases h3 : (IntTy.mk true 32).fits (b - b.tdiv a * a) = true <;>
      by_cases h4 : (IntTy.mk true 32).fits (b.tdiv a * y) = true <;>
      by_cases h5 : (IntTy.mk true 32).fits (x - b.tdiv a * y) = true <;>
      simp only [h1, h2, h3, h4, h5, not_true, not_false_eq_true, if_true, if_false, Except.map] <;>
      first | rfl | exact hrec

/-- `inv` — guard of C06, canonical operand, budget `a + 1`. -/
theorem inv_eq_model (fuel : Nat) (M a : Int) (hM : 2 ≤ M) (hM2 : M < 2 ^ 31) (ha : R M a) (hf : a.natAbs + 1 ≤ fuel) :
    MintSrc.inv fuel M a = Mint.inv M a := by
  obtain ⟨ha0, ha1⟩ := ha
  obtain ⟨r0, hr0, _, hlo, hhi⟩ := invLoop_spec M a hM2 (a.toNat + 1) a M 0 1 0 1 1 (Or.inl rfl) (by ring) (by ring)
    (le_refl _) (by omega) (by omega) (by omega) ha0 (by omega) hM2 (by omega) (by ring) ⟨0, by ring⟩ ⟨-1, by ring⟩ (by omega)
  have key := inv_loop0_eq fuel M a M 0 1 hf
  rw [hr0] at key
  unfold MintSrc.inv Mint.inv
  simp only [wrap_i32, wrapS32_id (z := a) (by omega) (by omega), wrapS32_id (z := M) (by omega) (by omega), hr0]
  rcases hl : MintSrc.inv_loop0 fuel M a M 0 1 with e | ⟨p, q, r, s⟩
  · simp [hl, Except.map] at key
  · simp only [hl, Except.map, Except.ok.injEq] at key
    subst key
    simp only [wrap_i64_id (z := r) (by omega) (by omega), new_eq_model fuel M r (by omega) (by omega)]
    close_except

/-- `Div::div` — guard of C06, canonical operands, budget `y + 1`. -/
theorem div_eq_model (fuel : Nat) (M x y : Int) (hM : 2 ≤ M) (hM2 : M < 2 ^ 31) (hx : R M x) (hy : R M y)
    (hf : y.natAbs + 1 ≤ fuel) : MintSrc.div fuel M x y = Mint.div M x y := by
  obtain ⟨r, hr, hrR, _⟩ := inv_eq M y hM hM2 hy
  unfold MintSrc.div Mint.div
  simp only [inv_eq_model fuel M y hM hM2 hy hf, hr,
    mul_eq_model fuel M x r (by omega) (by omega) (R_i64 hM2 hx) (R_i64 hM2 hrR)]
  close_except

end Rlib.MintSrc
