import RlibModel.Model.Bitset
/-!
Helper lemmas for C12 (bitset).  Core Lean only.

§1 words (`Nat.testBit` facts for `|`, `&`, `^`, `!`, shifts; ported from `spikes/BitsetWord.lean`)
§2 the abstraction function `bit` and `test`
§3 point operations, constructors, word-wise operators
§4 `count`
§5 `BitsIter`
§6 `==`, `Display`
§7 histories
-/
namespace Rlib.Bitset

/-! ## §1 words -/

theorem testBit_one_shl (k j : Nat) : (1 <<< k).testBit j = decide (j = k) := by
  rw [Nat.one_shiftLeft, Nat.testBit_two_pow]
  by_cases h : k = j <;> simp [h, eq_comm]

theorem one_shl_lt {k : Nat} (hk : k < 64) : 1 <<< k < 2 ^ 64 := by
  rw [Nat.one_shiftLeft]; exact Nat.pow_lt_pow_right (by omega) hk

/-- `!w` on a `u64` word flips every bit below 64. -/
theorem testBit_not64 (w j : Nat) (hw : w < 2 ^ 64) :
    (not64 w).testBit j = (decide (j < 64) && !w.testBit j) := by
  unfold not64
  rw [show 2 ^ 64 - 1 - w = 2 ^ 64 - (w + 1) by omega]
  exact Nat.testBit_two_pow_sub_succ hw j

theorem not64_lt (w : Nat) : not64 w < 2 ^ 64 := by
  unfold not64; omega

theorem word_set (w k j : Nat) : (w ||| (1 <<< k)).testBit j = (w.testBit j || decide (j = k)) := by
  rw [Nat.testBit_or, testBit_one_shl]

theorem word_flip (w k j : Nat) : (w ^^^ (1 <<< k)).testBit j = (w.testBit j ^^ decide (j = k)) := by
  rw [Nat.testBit_xor, testBit_one_shl]

theorem word_remove (w k j : Nat) (hk : k < 64) (hj : j < 64) :
    (w &&& not64 (1 <<< k)).testBit j = (w.testBit j && !decide (j = k)) := by
  rw [Nat.testBit_and, testBit_not64 _ _ (one_shl_lt hk), testBit_one_shl]
  simp [hj]

/-- the expression of `Bitset::test` is `Nat.testBit`. -/
theorem word_test (w k : Nat) : decide (((w >>> k) &&& 1) > 0) = w.testBit k := by
  unfold Nat.testBit
  rw [Nat.and_comm]
  generalize 1 &&& w >>> k = a
  cases a <;> simp

theorem testBit_high {w j : Nat} (hw : w < 2 ^ 64) (hj : 64 ≤ j) : w.testBit j = false := by
  apply Nat.testBit_lt_two_pow
  exact Nat.lt_of_lt_of_le hw (Nat.pow_le_pow_right (by omega) hj)

/-! ## §2 abstraction function -/

/-- Bit `y % 64` of word `y / 64` (proof-level reading of a bitset; `false` outside). -/
def bit (b : Bits) (y : Nat) : Bool := (b[y / 64]?.getD 0).testBit (y % 64)

theorem test_ok {b : Bits} {y : Nat} (h : y / 64 < b.length) : test b y = .ok (bit b y) := by
  unfold test bit
  rw [List.getElem?_eq_getElem h]
  simp only [Option.getD_some, word_test]

theorem test_err {b : Bits} {y : Nat} (h : b.length ≤ y / 64) : test b y = .error .index := by
  unfold test
  rw [List.getElem?_eq_none h]

theorem bit_set {b : Bits} {i : Nat} (v y : Nat) (hi : i < b.length) :
    bit (List.set b i v) y = if y / 64 = i then v.testBit (y % 64) else bit b y := by
  unfold bit
  rw [List.getElem?_set]
  by_cases h : i = y / 64
  · subst h; simp [hi]
  · have h' : ¬ y / 64 = i := fun e => h e.symm
    simp [h, h']

theorem abs_iff {n : Nat} {b : Bits} {m : Spec} :
    Abs n b m ↔ WF n b ∧ ∀ y, y < 64 * n → bit b y = m.mem y := by
  constructor
  · rintro ⟨hw, ht⟩
    refine ⟨hw, fun y hy => ?_⟩
    have := ht y hy
    rw [test_ok (by rw [hw.1]; omega)] at this
    exact Except.ok.inj this
  · rintro ⟨hw, ht⟩
    refine ⟨hw, fun y hy => ?_⟩
    rw [test_ok (by rw [hw.1]; omega), ht y hy]

/-! ## §3 point operations, constructors, word-wise operators -/

theorem wf_set {n : Nat} {b : Bits} {i v : Nat} (hw : WF n b) (hv : v < 2 ^ 64) :
    WF n (List.set b i v) := by
  refine ⟨by rw [List.length_set]; exact hw.1, fun w hm => ?_⟩
  rcases List.mem_or_eq_of_mem_set hm with h | h
  · exact hw.2 w h
  · rw [h]; exact hv

theorem wf_getElem {n : Nat} {b : Bits} (hw : WF n b) {i : Nat} (hi : i < b.length) : b[i] < 2 ^ 64 :=
  hw.2 _ (List.getElem_mem hi)

/-- A point operation `data[x/64] = f(data[x/64])` whose effect on bit `j` of the word is
    `g (old bit) (j = x % 64)` acts on the set as `g (member) (y = x)`. -/
theorem point_abs {n : Nat} {b : Bits} {m : Spec} {x : Nat} (f : Nat → Nat) (g : Bool → Bool → Bool)
    (hf : ∀ w, w < 2 ^ 64 → f w < 2 ^ 64)
    (hg : ∀ w j, w < 2 ^ 64 → j < 64 → (f w).testBit j = g (w.testBit j) (decide (j = x % 64)))
    (hg0 : ∀ t, g t false = t)
    (h : Abs n b m) (hx : x < 64 * n) :
    ∃ w, b[x / 64]? = some w ∧
      Abs n (List.set b (x / 64) (f w)) ⟨fun y => g (m.mem y) (decide (y = x))⟩ := by
  obtain ⟨hw, hb⟩ := abs_iff.1 h
  have hi : x / 64 < b.length := by rw [hw.1]; omega
  refine ⟨b[x / 64], List.getElem?_eq_getElem hi, abs_iff.2 ⟨wf_set hw (hf _ (wf_getElem hw hi)), fun y hy => ?_⟩⟩
  rw [bit_set _ _ hi]
  have hby := hb y hy
  show _ = g (m.mem y) (decide (y = x))
  by_cases hq : y / 64 = x / 64
  · rw [if_pos hq, hg _ _ (wf_getElem hw hi) (Nat.mod_lt _ (by omega)), ← hby]
    have e1 : bit b y = (b[x / 64]).testBit (y % 64) := by
      unfold bit; rw [hq, List.getElem?_eq_getElem hi]; rfl
    have e2 : decide (y % 64 = x % 64) = decide (y = x) := by
      apply decide_eq_decide.2; omega
    rw [e1, e2]
  · rw [if_neg hq, hby]
    have e2 : decide (y = x) = false := by
      apply decide_eq_false; intro e; exact hq (by rw [e])
    rw [e2, hg0]

theorem set_abs {n : Nat} {b : Bits} {m : Spec} {x : Nat} (h : Abs n b m) (hx : x < 64 * n) :
    ∃ b', set b x = .ok b' ∧ Abs n b' (m.set x) := by
  obtain ⟨w, hw, ha⟩ := point_abs (x := x) (fun w => w ||| (1 <<< (x % 64))) (fun t e => e || t)
    (fun w hw => Nat.or_lt_two_pow hw (one_shl_lt (Nat.mod_lt _ (by omega))))
    (fun w j _ _ => by rw [word_set, Bool.or_comm]) (fun t => by simp) h hx
  exact ⟨_, by simp only [set, hw], ha⟩

theorem remove_abs {n : Nat} {b : Bits} {m : Spec} {x : Nat} (h : Abs n b m) (hx : x < 64 * n) :
    ∃ b', remove b x = .ok b' ∧ Abs n b' (m.remove x) := by
  obtain ⟨w, hw, ha⟩ := point_abs (x := x) (fun w => w &&& not64 (1 <<< (x % 64))) (fun t e => !e && t)
    (fun w hw => Nat.and_lt_two_pow _ (not64_lt _))
    (fun w j _ hj => by rw [word_remove _ _ _ (Nat.mod_lt _ (by omega)) hj, Bool.and_comm])
    (fun t => by simp) h hx
  exact ⟨_, by simp only [remove, hw], ha⟩

theorem flip_abs {n : Nat} {b : Bits} {m : Spec} {x : Nat} (h : Abs n b m) (hx : x < 64 * n) :
    ∃ b', flip b x = .ok b' ∧ Abs n b' (m.flip x) := by
  obtain ⟨w, hw, ha⟩ := point_abs (x := x) (fun w => w ^^^ (1 <<< (x % 64))) (fun t e => Bool.xor e t)
    (fun w hw => Nat.xor_lt_two_pow hw (one_shl_lt (Nat.mod_lt _ (by omega))))
    (fun w j _ _ => by rw [word_flip, Bool.xor_comm]) (fun t => by simp) h hx
  exact ⟨_, by simp only [flip, hw], ha⟩

theorem bit_replicate_zero (n y : Nat) : bit (List.replicate n 0) y = false := by
  unfold bit
  rw [List.getElem?_replicate]
  split <;> simp

theorem new_abs (n : Nat) : Abs n (new n) Spec.empty := by
  refine abs_iff.2 ⟨⟨by simp [new], fun w hw => ?_⟩, fun y _ => ?_⟩
  · have := (List.mem_replicate.1 hw).2; omega
  · exact bit_replicate_zero n y

theorem clear_abs {n : Nat} {b : Bits} {m : Spec} (h : Abs n b m) : Abs n (clear b) Spec.empty := by
  have e : clear b = new n := by
    unfold clear new
    rw [← h.1.1]
    exact List.map_const'
  rw [e]; exact new_abs n

theorem fromU64_abs {n v : Nat} (hn : 0 < n) (hv : v < 2 ^ 64) :
    ∃ b, fromU64 n v = .ok b ∧ Abs n b (Spec.fromU64 v) := by
  refine ⟨List.set (List.replicate n 0) 0 v, by simp only [fromU64, if_pos hn],
    abs_iff.2 ⟨wf_set (new_abs n).1 hv, fun y _ => ?_⟩⟩
  rw [bit_set _ _ (by simpa using hn), bit_replicate_zero]
  show _ = (decide (y < 64) && v.testBit y)
  by_cases hy : y < 64
  · have e : y / 64 = 0 := by omega
    have e' : y % 64 = y := by omega
    simp [e, e', hy]
  · have e : ¬ y / 64 = 0 := by omega
    simp [e, hy]

/-- Word-wise binary operators. -/
theorem zip_abs {n : Nat} {a b : Bits} {ma mb : Spec} (f : Nat → Nat → Nat) (g : Bool → Bool → Bool)
    (hf : ∀ x y, x < 2 ^ 64 → y < 2 ^ 64 → f x y < 2 ^ 64)
    (hg : ∀ x y j, (f x y).testBit j = g (x.testBit j) (y.testBit j))
    (ha : Abs n a ma) (hb : Abs n b mb) :
    Abs n (List.zipWith f a b) ⟨fun y => g (ma.mem y) (mb.mem y)⟩ := by
  obtain ⟨hwa, hba⟩ := abs_iff.1 ha
  obtain ⟨hwb, hbb⟩ := abs_iff.1 hb
  have hlen : (List.zipWith f a b).length = n := by
    rw [List.length_zipWith, hwa.1, hwb.1]; exact Nat.min_self n
  refine abs_iff.2 ⟨⟨hlen, fun w hw => ?_⟩, fun y hy => ?_⟩
  · obtain ⟨i, hi, rfl⟩ := List.mem_iff_getElem.1 hw
    rw [List.getElem_zipWith]
    rw [hlen] at hi
    exact hf _ _ (wf_getElem hwa (by rw [hwa.1]; exact hi)) (wf_getElem hwb (by rw [hwb.1]; exact hi))
  · show _ = g (ma.mem y) (mb.mem y)
    rw [← hba y hy, ← hbb y hy]
    have h1 : y / 64 < a.length := by rw [hwa.1]; omega
    have h2 : y / 64 < b.length := by rw [hwb.1]; omega
    unfold bit
    rw [List.getElem?_zipWith, List.getElem?_eq_getElem h1, List.getElem?_eq_getElem h2]
    exact hg _ _ _

theorem band_abs {n : Nat} {a b : Bits} {ma mb : Spec} (ha : Abs n a ma) (hb : Abs n b mb) :
    Abs n (band a b) (ma.inter mb) :=
  zip_abs (· &&& ·) (· && ·) (fun x _ _ hy => Nat.and_lt_two_pow x hy) (fun _ _ _ => Nat.testBit_and ..) ha hb

theorem bor_abs {n : Nat} {a b : Bits} {ma mb : Spec} (ha : Abs n a ma) (hb : Abs n b mb) :
    Abs n (bor a b) (ma.union mb) :=
  zip_abs (· ||| ·) (· || ·) (fun _ _ hx hy => Nat.or_lt_two_pow hx hy) (fun _ _ _ => Nat.testBit_or ..) ha hb

theorem bxor_abs {n : Nat} {a b : Bits} {ma mb : Spec} (ha : Abs n a ma) (hb : Abs n b mb) :
    Abs n (bxor a b) (ma.symm mb) :=
  zip_abs (· ^^^ ·) Bool.xor (fun _ _ hx hy => Nat.xor_lt_two_pow hx hy) (fun _ _ _ => Nat.testBit_xor ..) ha hb

theorem bnot_abs {n : Nat} {b : Bits} {m : Spec} (h : Abs n b m) : Abs n (bnot b) m.compl := by
  obtain ⟨hw, hb⟩ := abs_iff.1 h
  refine abs_iff.2 ⟨⟨by simp [bnot, hw.1], fun w hm => ?_⟩, fun y hy => ?_⟩
  · obtain ⟨v, _, rfl⟩ := List.mem_map.1 hm
    exact not64_lt v
  · show _ = !m.mem y
    rw [← hb y hy]
    have h1 : y / 64 < b.length := by rw [hw.1]; omega
    unfold bit bnot
    rw [List.getElem?_map, List.getElem?_eq_getElem h1]
    simp only [Option.map_some, Option.getD_some]
    rw [testBit_not64 _ _ (wf_getElem hw h1)]
    simp [Nat.mod_lt y (show 64 > 0 by omega)]

/-! ## §4 count -/

theorem popGo_spec : ∀ k w, popGo k w = ((List.range k).filter (fun i => w.testBit i)).length := by
  intro k
  induction k with
  | zero => intro w; simp [popGo]
  | succ k ih =>
    intro w
    rw [popGo, ih, List.range_succ_eq_map, List.filter_cons, List.filter_map]
    have e : ((fun i => w.testBit i) ∘ Nat.succ) = (fun i => (w / 2).testBit i) := by
      funext i; simp [Nat.testBit_succ]
    rw [e, Nat.testBit_zero]
    rcases Nat.mod_two_eq_zero_or_one w with h | h <;> simp [h] <;> omega

theorem bit_cons_low (w : Nat) (bs : Bits) {i : Nat} (hi : i < 64) : bit (w :: bs) i = w.testBit i := by
  unfold bit
  have e : i / 64 = 0 := by omega
  have e' : i % 64 = i := by omega
  simp [e, e']

theorem bit_cons_high (w : Nat) (bs : Bits) (i : Nat) : bit (w :: bs) (64 + i) = bit bs i := by
  unfold bit
  have e : (64 + i) / 64 = i / 64 + 1 := by omega
  have e' : (64 + i) % 64 = i % 64 := by omega
  simp [e, e']

theorem filter_bit_cons (w : Nat) (bs : Bits) (k : Nat) :
    (List.range (64 + k)).filter (bit (w :: bs)) =
      (List.range 64).filter (fun i => w.testBit i) ++ ((List.range k).filter (bit bs)).map (64 + ·) := by
  rw [List.range_add, List.filter_append, List.filter_map]
  have h1 : (List.range 64).filter (bit (w :: bs)) = (List.range 64).filter (fun i => w.testBit i) :=
    List.filter_congr (fun i hi => bit_cons_low w bs (List.mem_range.1 hi))
  have h2 : (List.range k).filter (bit (w :: bs) ∘ fun x => 64 + x) = (List.range k).filter (bit bs) :=
    List.filter_congr (fun i _ => bit_cons_high w bs i)
  rw [h1, h2]

theorem sum_popcnt (b : Bits) :
    (b.map popcnt).sum = ((List.range (64 * b.length)).filter (bit b)).length := by
  induction b with
  | nil => simp
  | cons w bs ih =>
    rw [List.map_cons, List.sum_cons, List.length_cons, Nat.mul_succ, Nat.add_comm (64 * bs.length) 64,
      filter_bit_cons, List.length_append, List.length_map, ← ih, popcnt, popGo_spec]

theorem ckU_ok {z : Nat} (h : z < 2 ^ 64) : ckU z = .ok z := by
  unfold ckU; rw [if_pos h]

theorem filter_bit_congr {n : Nat} {b : Bits} {m : Spec} (hb : ∀ y, y < 64 * n → bit b y = m.mem y) :
    (List.range (64 * n)).filter (bit b) = (List.range (64 * n)).filter m.mem :=
  List.filter_congr (fun y hy => hb y (List.mem_range.1 hy))

theorem count_abs {n : Nat} {b : Bits} {m : Spec} (h : Abs n b m) (hcap : Cap n) :
    count b = .ok (m.count (64 * n)) := by
  obtain ⟨hw, hb⟩ := abs_iff.1 h
  unfold count Spec.count Spec.members
  rw [sum_popcnt, hw.1, filter_bit_congr hb]
  apply ckU_ok
  have := List.length_filter_le m.mem (List.range (64 * n))
  rw [List.length_range] at this
  unfold Cap at hcap
  omega

/-! ## §5 the iterator -/

theorem tzGo_spec : ∀ k v, v ≠ 0 → v < 2 ^ k →
    v.testBit (tzGo k v) = true ∧ ∀ j, j < tzGo k v → v.testBit j = false := by
  intro k
  induction k with
  | zero => intro v h0 hv; simp at hv; exact absurd hv h0
  | succ k ih =>
    intro v h0 hv
    rw [tzGo]
    by_cases h : v % 2 = 1
    · rw [if_pos h]
      refine ⟨by rw [Nat.testBit_zero]; simp [h], fun j hj => by omega⟩
    · rw [if_neg h]
      have h2 : v / 2 ≠ 0 := by omega
      have h3 : v / 2 < 2 ^ k := by rw [Nat.pow_succ] at hv; omega
      obtain ⟨i1, i2⟩ := ih (v / 2) h2 h3
      refine ⟨by rw [Nat.add_comm, Nat.testBit_succ]; exact i1, fun j hj => ?_⟩
      cases j with
      | zero => rw [Nat.testBit_zero]; simp; omega
      | succ j => rw [Nat.testBit_succ]; exact i2 j (by omega)

/-- `s & !63usize` rounds down to a multiple of 64. -/
theorem and_not63 {s : Nat} (hs : s < 2 ^ 64) : s &&& not64 63 = s / 64 * 64 := by
  apply Nat.eq_of_testBit_eq
  intro j
  rw [Nat.testBit_and, testBit_not64 _ _ (by omega), show (63 : Nat) = 2 ^ 6 - 1 by rfl, Nat.testBit_two_pow_sub_one,
    show (64 : Nat) = 2 ^ 6 by rfl, Nat.testBit_mul_two_pow, Nat.testBit_div_two_pow]
  by_cases h6 : j < 6
  · simp [h6]; omega
  · have e : j - 6 + 6 = j := by omega
    rw [e]
    by_cases h64 : j < 2 ^ 6
    · simp [h6, h64]; omega
    · rw [testBit_high hs (by simpa using h64)]; simp

theorem bit_eq_word {d : Bits} {y : Nat} (h : y / 64 < d.length) : bit d y = (d[y / 64]).testBit (y % 64) := by
  unfold bit; rw [List.getElem?_eq_getElem h]; rfl

theorem getW_ok {d : Bits} {i : Nat} (h : i < d.length) : getW d i = .ok d[i] := by
  unfold getW; rw [List.getElem?_eq_getElem h]

theorem skipLoop_spec {n : Nat} {d : Bits} (hw : WF n d) (hcap : Cap n) :
    ∀ fuel idx, idx ≤ 64 * n → n - idx / 64 < fuel →
      ∃ i, skipLoop d (64 * n) fuel idx = .ok i ∧ idx ≤ i ∧ i ≤ 64 * n ∧
        (∀ y, idx ≤ y → y < i → bit d y = false) ∧
        (∀ h : i / 64 < d.length, i < 64 * n → d[i / 64] >>> (i % 64) ≠ 0) := by
  intro fuel
  induction fuel with
  | zero => intro idx _ hf; omega
  | succ fuel ih =>
    intro idx hidx hf
    rw [skipLoop]
    by_cases hlt : idx < 64 * n
    · rw [if_pos hlt]
      have hq : idx / 64 < d.length := by rw [hw.1]; omega
      rw [getW_ok hq]
      simp only []
      by_cases hz : d[idx / 64] >>> (idx % 64) = 0
      · rw [if_pos hz]
        have hc : idx + 64 < 2 ^ 64 := by unfold Cap at hcap; omega
        rw [ckU_ok hc]
        simp only []
        rw [and_not63 hc]
        have hnew : (idx + 64) / 64 * 64 = (idx / 64 + 1) * 64 := by omega
        rw [hnew]
        have hle : (idx / 64 + 1) * 64 ≤ 64 * n := by omega
        have hdiv : (idx / 64 + 1) * 64 / 64 = idx / 64 + 1 := by omega
        obtain ⟨i, e, h1, h2, h3, h4⟩ := ih ((idx / 64 + 1) * 64) hle (by rw [hdiv]; omega)
        refine ⟨i, e, by omega, h2, fun y hy1 hy2 => ?_, h4⟩
        by_cases hy : y < (idx / 64 + 1) * 64
        · have hyq : y / 64 = idx / 64 := by omega
          rw [bit_eq_word (by rw [hyq]; exact hq)]
          have e2 : d[y / 64] = d[idx / 64] := by congr 1
          rw [e2]
          have : (d[idx / 64] >>> (idx % 64)).testBit (y % 64 - idx % 64) = false := by rw [hz]; simp
          rw [Nat.testBit_shiftRight] at this
          rw [← this]; congr 1; omega
        · exact h3 y (by omega) hy2
      · rw [if_neg hz]
        exact ⟨idx, rfl, Nat.le_refl _, hidx, fun y h1 h2 => by omega, fun _ _ => hz⟩
    · rw [if_neg hlt]
      exact ⟨idx, rfl, Nat.le_refl _, hidx, fun y h1 h2 => by omega, fun _ h => absurd h hlt⟩

/-- One call of `next`: either the least member at or after `idx` (and the position moves just past it),
    or `None` and there is no member at or after `idx`. -/
theorem next_spec {n : Nat} {d : Bits} (hw : WF n d) (hcap : Cap n) (idx : Nat) (hidx : idx ≤ 64 * n) :
    (∃ j, idx ≤ j ∧ j < 64 * n ∧ bit d j = true ∧ (∀ y, idx ≤ y → y < j → bit d y = false) ∧
        next d idx = .ok (some j, j + 1)) ∨
    ((∀ y, idx ≤ y → y < 64 * n → bit d y = false) ∧ ∃ i, next d idx = .ok (none, i) ∧ idx ≤ i ∧ i ≤ 64 * n) := by
  have hcap' : 64 * n + 64 ≤ 2 ^ 64 := hcap
  have hlim : d.length * 64 = 64 * n := by rw [hw.1]; omega
  obtain ⟨i, e, h1, h2, h3, h4⟩ := skipLoop_spec hw hcap (d.length + 1) idx hidx (by rw [hw.1]; omega)
  unfold next
  rw [hlim, ckU_ok (by omega)]
  simp only []
  rw [e]
  simp only []
  by_cases hge : i ≥ 64 * n
  · right
    rw [if_pos hge]
    exact ⟨fun y hy1 hy2 => h3 y hy1 (by omega), i, rfl, h1, h2⟩
  · left
    rw [if_neg hge]
    have hq : i / 64 < d.length := by rw [hw.1]; omega
    rw [getW_ok hq]
    simp only []
    have hv0 := h4 hq (by omega)
    have hwd : d[i / 64] < 2 ^ 64 := wf_getElem hw hq
    have hvlt : d[i / 64] >>> (i % 64) < 2 ^ 64 := by
      rw [Nat.shiftRight_eq_div_pow]
      exact Nat.lt_of_le_of_lt (Nat.div_le_self _ _) hwd
    obtain ⟨t1, t2⟩ := tzGo_spec 64 _ hv0 hvlt
    rw [Nat.testBit_shiftRight] at t1
    have hk : i % 64 + tz (d[i / 64] >>> (i % 64)) < 64 := by
      apply Classical.byContradiction
      intro hc
      have := testBit_high hwd (show 64 ≤ i % 64 + tzGo 64 (d[i / 64] >>> (i % 64)) by unfold tz at hc; omega)
      rw [this] at t1; exact absurd t1 (by simp)
    have hj : i + tz (d[i / 64] >>> (i % 64)) < 64 * n := by omega
    rw [ckU_ok (by omega), ]
    simp only []
    rw [ckU_ok (by omega)]
    simp only []
    refine ⟨i + tz (d[i / 64] >>> (i % 64)), by omega, hj, ?_, fun y hy1 hy2 => ?_, by simp⟩
    · have hjq : (i + tz (d[i / 64] >>> (i % 64))) / 64 = i / 64 := by omega
      rw [bit_eq_word (by rw [hjq]; exact hq)]
      have e2 : d[(i + tz (d[i / 64] >>> (i % 64))) / 64] = d[i / 64] := by congr 1
      rw [e2, ← t1]; congr 1; unfold tz; unfold tz at hk; omega
    · by_cases hy : y < i
      · exact h3 y hy1 hy
      · have hyq : y / 64 = i / 64 := by omega
        rw [bit_eq_word (by rw [hyq]; exact hq)]
        have e2 : d[y / 64] = d[i / 64] := by congr 1
        rw [e2]
        have := t2 (y - i) (by unfold tz at hy2; omega)
        rw [Nat.testBit_shiftRight] at this
        rw [← this]; congr 1; omega

theorem filter_range'_none {p : Nat → Bool} {s k : Nat} (h : ∀ y, s ≤ y → y < s + k → p y = false) :
    (List.range' s k).filter p = [] := by
  apply List.filter_eq_nil_iff.2
  intro y hy
  have := List.mem_range'_1.1 hy
  rw [h y this.1 this.2]; simp

theorem filter_range'_first {p : Nat → Bool} {s e j : Nat} (h1 : s ≤ j) (h2 : j < e) (hp : p j = true)
    (h : ∀ y, s ≤ y → y < j → p y = false) :
    (List.range' s (e - s)).filter p = j :: (List.range' (j + 1) (e - (j + 1))).filter p := by
  have e1 : e - s = (j - s) + (1 + (e - (j + 1))) := by omega
  rw [e1, ← List.range'_append_1, ← List.range'_append_1, List.filter_append, List.filter_append,
    filter_range'_none (fun y a b => h y a (by omega))]
  have e2 : s + (j - s) = j := by omega
  rw [e2]
  simp [List.range', hp]

theorem collect_spec {n : Nat} {d : Bits} (hw : WF n d) (hcap : Cap n) :
    ∀ fuel idx, idx ≤ 64 * n → 64 * n - idx < fuel →
      collect d fuel idx = .ok ((List.range' idx (64 * n - idx)).filter (bit d)) := by
  intro fuel
  induction fuel with
  | zero => intro idx _ hf; omega
  | succ fuel ih =>
    intro idx hidx hf
    rw [collect]
    rcases next_spec hw hcap idx hidx with ⟨j, j1, j2, j3, j4, e⟩ | ⟨hnone, i, e, _, _⟩
    · rw [e]
      simp only []
      rw [ih (j + 1) (by omega) (by omega)]
      simp only []
      rw [filter_range'_first j1 j2 j3 j4]
    · rw [e]
      simp only []
      rw [filter_range'_none (fun y a b => hnone y a (by omega))]

theorem iter_abs {n : Nat} {b : Bits} {m : Spec} (h : Abs n b m) (hcap : Cap n) :
    iterBits b = .ok (m.members (64 * n)) := by
  obtain ⟨hw, hb⟩ := abs_iff.1 h
  unfold iterBits Spec.members
  rw [collect_spec hw hcap _ 0 (Nat.zero_le _) (by rw [hw.1]; omega), Nat.sub_zero, ← List.range_eq_range',
    filter_bit_congr hb]

/-- `k` calls of `next` drop the `k` smallest remaining members and nothing else. -/
theorem advance_spec {n : Nat} {d : Bits} (hw : WF n d) (hcap : Cap n) :
    ∀ k idx, idx ≤ 64 * n → ∃ idx', advance d k idx = .ok idx' ∧ idx' ≤ 64 * n ∧
      (List.range' idx' (64 * n - idx')).filter (bit d) =
        ((List.range' idx (64 * n - idx)).filter (bit d)).drop k := by
  intro k
  induction k with
  | zero => intro idx hidx; exact ⟨idx, rfl, hidx, by simp⟩
  | succ k ih =>
    intro idx hidx
    rw [advance]
    rcases next_spec hw hcap idx hidx with ⟨j, j1, j2, j3, j4, e⟩ | ⟨hnone, i, e, i1, i2⟩
    · rw [e]
      simp only []
      obtain ⟨idx', e', b', f'⟩ := ih (j + 1) (by omega)
      refine ⟨idx', e', b', ?_⟩
      rw [f', filter_range'_first j1 j2 j3 j4, List.drop_succ_cons]
    · rw [e]
      simp only []
      obtain ⟨idx', e', b', f'⟩ := ih i i2
      refine ⟨idx', e', b', ?_⟩
      rw [f', filter_range'_none (fun y a b => hnone y (by omega) (by omega)),
        filter_range'_none (fun y a b => hnone y a (by omega))]
      simp

theorem restAfter_abs {n : Nat} {b : Bits} {m : Spec} (h : Abs n b m) (hcap : Cap n) (k : Nat) :
    restAfter b k = .ok ((m.members (64 * n)).drop k) := by
  obtain ⟨hw, hb⟩ := abs_iff.1 h
  obtain ⟨idx', e, hle, f⟩ := advance_spec hw hcap k 0 (Nat.zero_le _)
  unfold restAfter Spec.members
  rw [e]
  simp only []
  rw [collect_spec hw hcap _ idx' hle (by rw [hw.1]; omega), f, Nat.sub_zero, ← List.range_eq_range',
    filter_bit_congr hb]

/-! ## §6 `==` and `Display` -/

theorem abs_congr {n : Nat} {b : Bits} {m m' : Spec} (h : Abs n b m)
    (e : ∀ y, y < 64 * n → m.mem y = m'.mem y) : Abs n b m' :=
  ⟨h.1, fun y hy => by rw [h.2 y hy, e y hy]⟩

/-- Two well-formed bitsets are the same array iff they have the same members. -/
theorem eq_iff_bits {n : Nat} {a b : Bits} (ha : WF n a) (hb : WF n b) :
    a = b ↔ ∀ y, y < 64 * n → bit a y = bit b y := by
  constructor
  · intro e y _; rw [e]
  · intro h
    apply List.ext_getElem (by rw [ha.1, hb.1])
    intro i h1 h2
    apply Nat.eq_of_testBit_eq
    intro j
    by_cases hj : j < 64
    · have := h (64 * i + j) (by rw [ha.1] at h1; omega)
      have e1 : (64 * i + j) / 64 = i := by omega
      have e2 : (64 * i + j) % 64 = j := by omega
      rw [bit_eq_word (by rw [e1]; exact h1), bit_eq_word (by rw [e1]; exact h2)] at this
      rw [e2] at this
      have c1 : a[(64 * i + j) / 64] = a[i] := by congr 1
      have c2 : b[(64 * i + j) / 64] = b[i] := by congr 1
      rw [c1, c2] at this
      exact this
    · rw [testBit_high (wf_getElem ha h1) (by omega), testBit_high (wf_getElem hb h2) (by omega)]

theorem table_eq_iff {k : Nat} {ma mb : Spec} :
    Spec.table k ma = Spec.table k mb ↔ ∀ y, y < k → ma.mem y = mb.mem y := by
  unfold Spec.table
  rw [List.map_inj_left]
  constructor
  · intro h y hy; exact h y (List.mem_range.2 hy)
  · intro h y hy; exact h y (List.mem_range.1 hy)

theorem beq_abs {n : Nat} {a b : Bits} {ma mb : Spec} (ha : Abs n a ma) (hb : Abs n b mb) :
    beq a b = Spec.eq (64 * n) ma mb := by
  obtain ⟨hwa, hba⟩ := abs_iff.1 ha
  obtain ⟨hwb, hbb⟩ := abs_iff.1 hb
  unfold beq Spec.eq
  apply decide_eq_decide.2
  rw [eq_iff_bits hwa hwb, table_eq_iff]
  constructor
  · intro h y hy; rw [← hba y hy, ← hbb y hy]; exact h y hy
  · intro h y hy; rw [hba y hy, hbb y hy]; exact h y hy

theorem mapM_ok {α β : Type} (f : α → Except Panic β) (g : α → β) :
    ∀ l : List α, (∀ x, x ∈ l → f x = .ok (g x)) → l.mapM f = .ok (l.map g) := by
  intro l
  induction l with
  | nil => intro _; rfl
  | cons a l ih =>
    intro h
    rw [List.mapM_cons, h a (List.mem_cons_self), ih (fun x hx => h x (List.mem_cons_of_mem _ hx))]
    rfl

theorem display_abs {n : Nat} {b : Bits} {m : Spec} (h : Abs n b m) (hcap : Cap n) :
    display b = .ok (m.display (64 * n)) := by
  have hcap' : 64 * n + 64 ≤ 2 ^ 64 := hcap
  unfold display Spec.display
  rw [show b.length * 64 = 64 * n by rw [h.1.1]; omega, ckU_ok (by omega)]
  simp only []
  rw [mapM_ok (fun i => (test b i).map digit) (fun y => digit (m.mem y)) _
    (fun y hy => by rw [h.2 y (List.mem_range.1 hy)]; rfl)]

/-! ## §7 histories over named bitsets -/

theorem tests_abs {n : Nat} {b : Bits} {m : Spec} (h : Abs n b m) :
    (List.range (64 * n)).mapM (test b) = .ok (Spec.table (64 * n) m) :=
  mapM_ok (test b) m.mem _ (fun y hy => h.2 y (List.mem_range.1 hy))

theorem observeReg_abs {n : Nat} {b : Bits} {m : Spec} (h : Abs n b m) (hcap : Cap n) :
    observeReg n b = .ok (specObserveReg n m) := by
  unfold observeReg debug
  rw [tests_abs h, count_abs h hcap, iter_abs h hcap, display_abs h hcap]
  simp only []
  rw [mapM_ok (fun k => (restAfter b k).map (Probe.mk k)) (fun k => ⟨k, (m.members (64 * n)).drop k⟩) _
    (fun k _ => by rw [restAfter_abs h hcap k]; rfl)]
  rfl

theorem regsAbs_length {n : Nat} : ∀ {bs : List Bits} {ms : List Spec}, RegsAbs n bs ms → bs.length = ms.length
  | [], [], _ => rfl
  | _ :: bs, _ :: ms, h => by
    simp only [RegsAbs] at h
    simp [regsAbs_length h.2]
  | [], _ :: _, h => by simp [RegsAbs] at h
  | _ :: _, [], h => by simp [RegsAbs] at h

theorem regsAbs_get {n : Nat} : ∀ {bs : List Bits} {ms : List Spec} {r : Nat}, RegsAbs n bs ms → r < bs.length →
    ∃ b, bs[r]? = some b ∧ Abs n b (specGet ms r)
  | [], _, _, _, hr => by simp at hr
  | _ :: _, [], _, h, _ => by simp [RegsAbs] at h
  | b :: bs, m :: ms, 0, h, _ => by
    simp only [RegsAbs] at h
    exact ⟨b, rfl, by simpa [specGet] using h.1⟩
  | b :: bs, m :: ms, r + 1, h, hr => by
    simp only [RegsAbs] at h
    obtain ⟨b', e, ha⟩ := regsAbs_get (r := r) h.2 (by simpa using hr)
    exact ⟨b', by simpa using e, by simpa [specGet] using ha⟩

theorem regsAbs_set {n : Nat} {b : Bits} {m : Spec} (hbm : Abs n b m) :
    ∀ {bs : List Bits} {ms : List Spec} (d : Nat), RegsAbs n bs ms → RegsAbs n (List.set bs d b) (List.set ms d m)
  | [], [], _, _ => by simp [RegsAbs]
  | [], _ :: _, _, h => by simp [RegsAbs] at h
  | _ :: _, [], _, h => by simp [RegsAbs] at h
  | _ :: bs, _ :: ms, 0, h => by
    simp only [RegsAbs] at h
    simp only [List.set_cons_zero, RegsAbs]
    exact ⟨hbm, h.2⟩
  | _ :: bs, _ :: ms, d + 1, h => by
    simp only [RegsAbs] at h
    simp only [List.set_cons_succ, RegsAbs]
    exact ⟨h.1, regsAbs_set hbm d h.2⟩

theorem regsAbs_replicate (n : Nat) : ∀ k, RegsAbs n (List.replicate k (new n)) (List.replicate k Spec.empty)
  | 0 => by simp [RegsAbs]
  | k + 1 => by
    simp only [List.replicate_succ, RegsAbs]
    exact ⟨new_abs n, regsAbs_replicate n k⟩

theorem getReg_abs {n : Nat} {bs : List Bits} {ms : List Spec} {r : Nat} (h : RegsAbs n bs ms) (hr : r < bs.length) :
    ∃ b, getReg bs r = .ok b ∧ Abs n b (specGet ms r) := by
  obtain ⟨b, e, ha⟩ := regsAbs_get h hr
  exact ⟨b, by simp only [getReg, e], ha⟩

theorem bin1_refines {n : Nat} {s : St} {ms : List Spec} {d r : Nat} (hr : RegsAbs n s.regs ms)
    (hd : d < s.regs.length) (hr' : r < s.regs.length) (f : Bits → Except Panic Bits) (m' : Spec)
    (hf : ∀ b, Abs n b (specGet ms r) → ∃ b', f b = .ok b' ∧ Abs n b' m') :
    ∃ s', bin1 s d r f = .ok s' ∧ RegsAbs n s'.regs (List.set ms d m') ∧ s'.log = s.log ∧
      s'.regs.length = s.regs.length := by
  obtain ⟨b, e, ha⟩ := getReg_abs hr hr'
  obtain ⟨b', e', ha'⟩ := hf b ha
  refine ⟨{ s with regs := List.set s.regs d b' }, ?_, regsAbs_set ha' d hr, rfl, by simp⟩
  simp only [bin1, e, e', putReg, if_pos hd]

theorem bin2_refines {n : Nat} {s : St} {ms : List Spec} {d a b : Nat} (hr : RegsAbs n s.regs ms)
    (hd : d < s.regs.length) (ha : a < s.regs.length) (hb : b < s.regs.length)
    (f : Bits → Bits → Bits) (g : Spec → Spec → Spec)
    (hf : ∀ x y mx my, Abs n x mx → Abs n y my → Abs n (f x y) (g mx my)) :
    ∃ s', bin2 s d a b f = .ok s' ∧ RegsAbs n s'.regs (List.set ms d (g (specGet ms a) (specGet ms b))) ∧
      s'.log = s.log ∧ s'.regs.length = s.regs.length := by
  obtain ⟨x, ex, hx⟩ := getReg_abs hr ha
  obtain ⟨y, ey, hy⟩ := getReg_abs hr hb
  refine ⟨{ s with regs := List.set s.regs d (f x y) }, ?_, regsAbs_set (hf _ _ _ _ hx hy) d hr, rfl, by simp⟩
  simp only [bin2, ex, ey, putReg, if_pos hd]

/-- `for x in xs { b.set(x) }` adds exactly the listed positions. -/
theorem setAll_abs {n : Nat} : ∀ (xs : List Nat) {b : Bits} {m : Spec}, Abs n b m → (∀ x, x ∈ xs → x < 64 * n) →
    ∃ b', setAll b xs = .ok b' ∧ ∀ m' : Spec, (∀ y, y < 64 * n → m'.mem y = (xs.contains y || m.mem y)) → Abs n b' m'
  | [], b, m, h, _ => ⟨b, rfl, fun m' e => abs_congr h (fun y hy => by rw [e y hy]; simp)⟩
  | x :: xs, b, m, h, hx => by
    obtain ⟨b1, e1, h1⟩ := set_abs h (hx x List.mem_cons_self)
    obtain ⟨b', e', h'⟩ := setAll_abs xs h1 (fun z hz => hx z (List.mem_cons_of_mem _ hz))
    refine ⟨b', by simp only [setAll, e1, e'], fun m' e => h' m' (fun y hy => ?_)⟩
    rw [e y hy, List.contains_cons]
    show _ = (xs.contains y || (decide (y = x) || m.mem y))
    cases xs.contains y <;> cases m.mem y <;> by_cases hyx : y = x <;> simp [hyx]

theorem loadBits_abs {n : Nat} {ws : List Nat} (hl : ws.length ≤ n) :
    ∃ b, loadBits n ws = .ok b ∧ Abs n b (Spec.ofWords ws) := by
  obtain ⟨b, e, h⟩ := setAll_abs (Spec.members (64 * ws.length) (Spec.ofWords ws)) (new_abs n)
    (fun x hx => by
      have := (List.mem_filter.1 hx).1
      have := List.mem_range.1 this
      omega)
  refine ⟨b, e, h _ (fun y _ => ?_)⟩
  by_cases hy : y < 64 * ws.length
  · have : ((Spec.members (64 * ws.length) (Spec.ofWords ws)).contains y) = (Spec.ofWords ws).mem y := by
      cases hm : (Spec.ofWords ws).mem y
      · apply Bool.eq_false_iff.2
        intro hc
        have := (List.mem_filter.1 (List.contains_iff_mem.1 hc)).2
        rw [hm] at this; exact absurd this (by simp)
      · exact List.contains_iff_mem.2 (List.mem_filter.2 ⟨List.mem_range.2 hy, hm⟩)
    rw [this]; simp [Spec.empty]
  · have h0 : (Spec.ofWords ws).mem y = false := by
      show (ws.getD (y / 64) 0).testBit (y % 64) = false
      rw [List.getD_eq_getElem?_getD, List.getElem?_eq_none (by omega)]
      simp
    have h1 : ((Spec.members (64 * ws.length) (Spec.ofWords ws)).contains y) = false := by
      apply Bool.eq_false_iff.2
      intro hc
      have := List.mem_range.1 (List.mem_filter.1 (List.contains_iff_mem.1 hc)).1
      exact hy this
    rw [h0, h1]; simp [Spec.empty]

theorem step_refines {n k : Nat} (hn : 0 < n) {s : St} {t : SpecSt} (hr : RegsAbs n s.regs t.regs)
    (hl : s.log = t.log) (hk : s.regs.length = k) (op : Op) (hd : op.inDomain n k = true) :
    ∃ s', step n s op = .ok s' ∧ RegsAbs n s'.regs (specStep t op).regs ∧ s'.log = (specStep t op).log ∧
      s'.regs.length = k := by
  cases op with
  | new d =>
    simp only [Op.inDomain, decide_eq_true_eq] at hd
    obtain ⟨s', e, h1, h2, h3⟩ := bin1_refines hr (d := d) (r := d) (by omega) (by omega) (fun _ => .ok (new n)) Spec.empty
      (fun _ _ => ⟨_, rfl, new_abs n⟩)
    exact ⟨s', e, h1, by rw [h2, hl]; rfl, by omega⟩
  | fromU64 d v =>
    simp only [Op.inDomain, Bool.and_eq_true, decide_eq_true_eq] at hd
    obtain ⟨s', e, h1, h2, h3⟩ := bin1_refines hr (d := d) (r := d) (by omega) (by omega) (fun _ => fromU64 n v) (Spec.fromU64 v)
      (fun _ _ => fromU64_abs hn hd.2)
    exact ⟨s', e, h1, by rw [h2, hl]; rfl, by omega⟩
  | set d x =>
    simp only [Op.inDomain, Bool.and_eq_true, decide_eq_true_eq] at hd
    obtain ⟨s', e, h1, h2, h3⟩ := bin1_refines hr (d := d) (r := d) (by omega) (by omega) (fun b => set b x) _
      (fun _ hb => set_abs hb hd.2)
    exact ⟨s', e, h1, by rw [h2, hl]; rfl, by omega⟩
  | remove d x =>
    simp only [Op.inDomain, Bool.and_eq_true, decide_eq_true_eq] at hd
    obtain ⟨s', e, h1, h2, h3⟩ := bin1_refines hr (d := d) (r := d) (by omega) (by omega) (fun b => remove b x) _
      (fun _ hb => remove_abs hb hd.2)
    exact ⟨s', e, h1, by rw [h2, hl]; rfl, by omega⟩
  | flip d x =>
    simp only [Op.inDomain, Bool.and_eq_true, decide_eq_true_eq] at hd
    obtain ⟨s', e, h1, h2, h3⟩ := bin1_refines hr (d := d) (r := d) (by omega) (by omega) (fun b => flip b x) _
      (fun _ hb => flip_abs hb hd.2)
    exact ⟨s', e, h1, by rw [h2, hl]; rfl, by omega⟩
  | clear d =>
    simp only [Op.inDomain, decide_eq_true_eq] at hd
    obtain ⟨s', e, h1, h2, h3⟩ := bin1_refines hr (d := d) (r := d) (by omega) (by omega) (fun b => .ok (clear b))
      Spec.empty (fun _ hb => ⟨_, rfl, clear_abs hb⟩)
    exact ⟨s', e, h1, by rw [h2, hl]; rfl, by omega⟩
  | and d a b =>
    simp only [Op.inDomain, Bool.and_eq_true, decide_eq_true_eq] at hd
    obtain ⟨s', e, h1, h2, h3⟩ := bin2_refines hr (d := d) (a := a) (b := b) (by omega) (by omega) (by omega)
      band Spec.inter (fun _ _ _ _ => band_abs)
    exact ⟨s', e, h1, by rw [h2, hl]; rfl, by omega⟩
  | or d a b =>
    simp only [Op.inDomain, Bool.and_eq_true, decide_eq_true_eq] at hd
    obtain ⟨s', e, h1, h2, h3⟩ := bin2_refines hr (d := d) (a := a) (b := b) (by omega) (by omega) (by omega)
      bor Spec.union (fun _ _ _ _ => bor_abs)
    exact ⟨s', e, h1, by rw [h2, hl]; rfl, by omega⟩
  | xor d a b =>
    simp only [Op.inDomain, Bool.and_eq_true, decide_eq_true_eq] at hd
    obtain ⟨s', e, h1, h2, h3⟩ := bin2_refines hr (d := d) (a := a) (b := b) (by omega) (by omega) (by omega)
      bxor Spec.symm (fun _ _ _ _ => bxor_abs)
    exact ⟨s', e, h1, by rw [h2, hl]; rfl, by omega⟩
  | andA d r =>
    simp only [Op.inDomain, Bool.and_eq_true, decide_eq_true_eq] at hd
    obtain ⟨s', e, h1, h2, h3⟩ := bin2_refines hr (d := d) (a := d) (b := r) (by omega) (by omega) (by omega)
      bandAssign Spec.inter (fun _ _ _ _ => band_abs)
    exact ⟨s', e, h1, by rw [h2, hl]; rfl, by omega⟩
  | orA d r =>
    simp only [Op.inDomain, Bool.and_eq_true, decide_eq_true_eq] at hd
    obtain ⟨s', e, h1, h2, h3⟩ := bin2_refines hr (d := d) (a := d) (b := r) (by omega) (by omega) (by omega)
      borAssign Spec.union (fun _ _ _ _ => bor_abs)
    exact ⟨s', e, h1, by rw [h2, hl]; rfl, by omega⟩
  | xorA d r =>
    simp only [Op.inDomain, Bool.and_eq_true, decide_eq_true_eq] at hd
    obtain ⟨s', e, h1, h2, h3⟩ := bin2_refines hr (d := d) (a := d) (b := r) (by omega) (by omega) (by omega)
      bxorAssign Spec.symm (fun _ _ _ _ => bxor_abs)
    exact ⟨s', e, h1, by rw [h2, hl]; rfl, by omega⟩
  | not d r =>
    simp only [Op.inDomain, Bool.and_eq_true, decide_eq_true_eq] at hd
    obtain ⟨s', e, h1, h2, h3⟩ := bin1_refines hr (d := d) (r := r) (by omega) (by omega) (fun b => .ok (bnot b)) _
      (fun _ hb => ⟨_, rfl, bnot_abs hb⟩)
    exact ⟨s', e, h1, by rw [h2, hl]; rfl, by omega⟩
  | clone d r =>
    simp only [Op.inDomain, Bool.and_eq_true, decide_eq_true_eq] at hd
    obtain ⟨s', e, h1, h2, h3⟩ := bin1_refines hr (d := d) (r := r) (by omega) (by omega) (fun b => .ok b) _
      (fun _ hb => ⟨_, rfl, hb⟩)
    exact ⟨s', e, h1, by rw [h2, hl]; rfl, by omega⟩
  | test r x =>
    simp only [Op.inDomain, Bool.and_eq_true, decide_eq_true_eq] at hd
    obtain ⟨b, e, hb⟩ := getReg_abs hr (r := r) (by omega)
    refine ⟨{ s with log := s.log ++ [(specGet t.regs r).mem x] }, ?_, hr, by rw [hl]; rfl, hk⟩
    simp only [step, e, hb.2 x hd.2]
  | load d ws =>
    simp only [Op.inDomain, Bool.and_eq_true, decide_eq_true_eq] at hd
    obtain ⟨s', e, h1, h2, h3⟩ := bin1_refines hr (d := d) (r := d) (by omega) (by omega) (fun _ => loadBits n ws)
      (Spec.ofWords ws) (fun _ _ => loadBits_abs hd.1.2)
    exact ⟨s', e, h1, by rw [h2, hl]; rfl, by omega⟩
  | obs r =>
    simp only [Op.inDomain, Bool.and_eq_true, decide_eq_true_eq] at hd
    obtain ⟨b, e, hb⟩ := getReg_abs hr (r := r) (by omega)
    refine ⟨{ s with olog := s.olog ++ [specObserveReg n (specGet t.regs r)] }, ?_, hr, hl, hk⟩
    simp only [step, e, observeReg_abs hb hd.2]

/-- Operations other than `obs` leave the observation log alone. -/
theorem bin1_olog {s s' : St} {d r : Nat} {f : Bits → Except Panic Bits} (h : bin1 s d r f = .ok s') :
    s'.olog = s.olog := by
  unfold bin1 at h
  split at h
  · cases h
  · split at h
    · cases h
    · split at h
      · cases h
      · cases h; rfl

theorem bin2_olog {s s' : St} {d a b : Nat} {f : Bits → Bits → Bits} (h : bin2 s d a b f = .ok s') :
    s'.olog = s.olog := by
  unfold bin2 at h
  split at h
  · cases h
  · split at h
    · cases h
    · split at h
      · cases h
      · cases h; rfl

/-- The mid-history observations (`obs r`) of the model are the specification's: if the logs agree before a step,
    they agree after it. -/
theorem step_olog {n k : Nat} {s s' : St} {t : SpecSt} (hr : RegsAbs n s.regs t.regs) (hk : s.regs.length = k)
    (ho : s.olog = t.olog.map (specObserveReg n)) (op : Op) (hd : op.inDomain n k = true)
    (e : step n s op = .ok s') : s'.olog = (specStep t op).olog.map (specObserveReg n) := by
  cases op with
  | obs r =>
    simp only [Op.inDomain, Bool.and_eq_true, decide_eq_true_eq] at hd
    obtain ⟨b, eb, hb⟩ := getReg_abs hr (r := r) (by omega)
    simp only [step, eb, observeReg_abs hb hd.2] at e
    cases e
    simp only [specStep, List.map_append, List.map_cons, List.map_nil, ho]
  | test r x =>
    simp only [step] at e
    split at e
    · cases e
    · split at e
      · cases e
      · cases e; exact ho
  | new d => simp only [step] at e; rw [bin1_olog e]; exact ho
  | fromU64 d v => simp only [step] at e; rw [bin1_olog e]; exact ho
  | set d x => simp only [step] at e; rw [bin1_olog e]; exact ho
  | remove d x => simp only [step] at e; rw [bin1_olog e]; exact ho
  | flip d x => simp only [step] at e; rw [bin1_olog e]; exact ho
  | clear d => simp only [step] at e; rw [bin1_olog e]; exact ho
  | and d a b => simp only [step] at e; rw [bin2_olog e]; exact ho
  | or d a b => simp only [step] at e; rw [bin2_olog e]; exact ho
  | xor d a b => simp only [step] at e; rw [bin2_olog e]; exact ho
  | andA d r => simp only [step] at e; rw [bin2_olog e]; exact ho
  | orA d r => simp only [step] at e; rw [bin2_olog e]; exact ho
  | xorA d r => simp only [step] at e; rw [bin2_olog e]; exact ho
  | not d r => simp only [step] at e; rw [bin1_olog e]; exact ho
  | clone d r => simp only [step] at e; rw [bin1_olog e]; exact ho
  | load d ws => simp only [step] at e; rw [bin1_olog e]; exact ho

theorem run_refines {n k : Nat} (hn : 0 < n) : ∀ (ops : List Op) {s : St} {t : SpecSt},
    RegsAbs n s.regs t.regs → s.log = t.log → s.regs.length = k → (∀ op, op ∈ ops → op.inDomain n k = true) →
    ∃ s', run n s ops = .ok s' ∧ RegsAbs n s'.regs (specRun t ops).regs ∧ s'.log = (specRun t ops).log ∧
      s'.regs.length = k
  | [], s, t, hr, hl, hk, _ => ⟨s, rfl, hr, hl, hk⟩
  | op :: ops, s, t, hr, hl, hk, hd => by
    obtain ⟨s1, e1, r1, l1, k1⟩ := step_refines hn hr hl hk op (hd op List.mem_cons_self)
    obtain ⟨s', e', r', l', k'⟩ := run_refines hn ops r1 l1 k1 (fun o ho => hd o (List.mem_cons_of_mem _ ho))
    exact ⟨s', by simp only [run, e1, e'], r', l', k'⟩

/-- `run_refines` together with the observation log. -/
theorem run_refines_obs {n k : Nat} (hn : 0 < n) : ∀ (ops : List Op) {s : St} {t : SpecSt},
    RegsAbs n s.regs t.regs → s.log = t.log → s.olog = t.olog.map (specObserveReg n) → s.regs.length = k →
    (∀ op, op ∈ ops → op.inDomain n k = true) →
    ∃ s', run n s ops = .ok s' ∧ RegsAbs n s'.regs (specRun t ops).regs ∧ s'.log = (specRun t ops).log ∧
      s'.olog = (specRun t ops).olog.map (specObserveReg n) ∧ s'.regs.length = k
  | [], s, t, hr, hl, ho, hk, _ => ⟨s, rfl, hr, hl, ho, hk⟩
  | op :: ops, s, t, hr, hl, ho, hk, hd => by
    obtain ⟨s1, e1, r1, l1, k1⟩ := step_refines hn hr hl hk op (hd op List.mem_cons_self)
    have o1 := step_olog hr hk ho op (hd op List.mem_cons_self) e1
    obtain ⟨s', e', r', l', o', k'⟩ := run_refines_obs hn ops r1 l1 o1 k1 (fun o ho => hd o (List.mem_cons_of_mem _ ho))
    exact ⟨s', by simp only [run, e1, e'], r', l', o', k'⟩

theorem observeRegs_abs {n : Nat} (hcap : Cap n) : ∀ {bs : List Bits} {ms : List Spec}, RegsAbs n bs ms →
    bs.mapM (observeReg n) = .ok (ms.map (specObserveReg n))
  | [], [], _ => rfl
  | [], _ :: _, h => by simp [RegsAbs] at h
  | _ :: _, [], h => by simp [RegsAbs] at h
  | b :: bs, m :: ms, h => by
    simp only [RegsAbs] at h
    rw [List.mapM_cons, observeReg_abs h.1 hcap, observeRegs_abs hcap h.2]
    rfl

theorem eqRow_abs {n : Nat} {a : Bits} {ma : Spec} (ha : Abs n a ma) : ∀ {bs : List Bits} {ms : List Spec},
    RegsAbs n bs ms → bs.map (fun b => beq a b) =
      (ms.map (Spec.table (64 * n))).map (fun tb => decide (Spec.table (64 * n) ma = tb))
  | [], [], _ => rfl
  | [], _ :: _, h => by simp [RegsAbs] at h
  | _ :: _, [], h => by simp [RegsAbs] at h
  | b :: bs, m :: ms, h => by
    simp only [RegsAbs] at h
    simp only [List.map_cons]
    rw [eqRow_abs ha h.2, beq_abs ha h.1]
    rfl

theorem eqMatrix_abs {n : Nat} {cs : List Bits} {ns : List Spec} (hc : RegsAbs n cs ns) :
    ∀ {bs : List Bits} {ms : List Spec}, RegsAbs n bs ms →
      bs.map (fun a => cs.map (fun b => beq a b)) =
        (ms.map (Spec.table (64 * n))).map (fun ta => (ns.map (Spec.table (64 * n))).map (fun tb => decide (ta = tb)))
  | [], [], _ => rfl
  | [], _ :: _, h => by simp [RegsAbs] at h
  | _ :: _, [], h => by simp [RegsAbs] at h
  | b :: bs, m :: ms, h => by
    simp only [RegsAbs] at h
    simp only [List.map_cons]
    rw [eqMatrix_abs hc h.2, eqRow_abs h.1 hc]

/-- the `!=` matrix is the negated `==` matrix on both sides. -/
theorem neMatrix_abs {n : Nat} {bs : List Bits} {ms : List Spec} (h : RegsAbs n bs ms) :
    bs.map (fun a => bs.map (fun b => bitsNe a b)) =
      (ms.map (Spec.table (64 * n))).map (fun ta => (ms.map (Spec.table (64 * n))).map (fun tb => !decide (ta = tb))) := by
  have e1 : bs.map (fun a => bs.map (fun b => bitsNe a b)) =
      (bs.map (fun a => bs.map (fun b => beq a b))).map (fun row => row.map (fun x => !x)) := by
    simp [List.map_map, Function.comp_def, bitsNe]
  rw [e1, eqMatrix_abs h h]
  simp [List.map_map, Function.comp_def]

theorem observe_refines {n : Nat} (hcap : Cap n) {s : St} {t : SpecSt} (hr : RegsAbs n s.regs t.regs)
    (hl : s.log = t.log) (ho : s.olog = t.olog.map (specObserveReg n)) : observe n s = .ok (specObserve n t) := by
  unfold observe specObserve
  rw [observeRegs_abs hcap hr]
  simp only []
  rw [eqMatrix_abs hr hr, neMatrix_abs hr, hl, ho]

theorem runCase_refines {n k : Nat} (hn : 0 < n) (hcap : Cap n) (ops : List Op)
    (hd : ∀ op, op ∈ ops → op.inDomain n k = true) : runCase n k ops = .ok (specRunCase n k ops) := by
  obtain ⟨s', e, hr, hl, ho, _⟩ := run_refines_obs (k := k) hn ops (s := ⟨List.replicate k (new n), [], []⟩)
    (t := ⟨List.replicate k Spec.empty, [], []⟩) (regsAbs_replicate n k) rfl rfl (by simp) hd
  unfold runCase specRunCase
  rw [e]
  exact observe_refines hcap hr hl ho

/-! ### wave 4: the array-backed twins the driver executes are the list originals -/

theorem test_eq_testA (b : Bits) : test b = testA b.toArray := by
  funext x
  simp only [test, testA, List.getElem?_toArray]

theorem display_eq_displayA (b : Bits) : display b = displayA b.toArray := by
  simp only [display, displayA, test_eq_testA, List.size_toArray]

theorem getW_eq_getWA (b : Bits) : getW b = getWA b.toArray := by
  funext i
  simp only [getW, getWA, List.getElem?_toArray]

theorem skipLoop_eq_A (b : Bits) (lim fuel idx : Nat) : skipLoop b lim fuel idx = skipLoopA b.toArray lim fuel idx := by
  induction fuel generalizing idx with
  | zero => rfl
  | succ f ih =>
    simp only [skipLoop, skipLoopA, getW_eq_getWA]
    split
    · cases getWA b.toArray (idx / 64) <;> try rfl
      rename_i w
      show (if w >>> (idx % 64) = 0 then _ else _) = (if w >>> (idx % 64) = 0 then _ else _)
      split
      · cases ckU (idx + 64) <;> try rfl
        exact ih _
      · rfl
    · rfl

theorem next_eq_A (b : Bits) (idx : Nat) : next b idx = nextA b.toArray idx := by
  simp only [next, nextA, skipLoop_eq_A, getW_eq_getWA, List.size_toArray]

theorem collect_eq_A (b : Bits) (fuel idx : Nat) : collect b fuel idx = collectA b.toArray fuel idx := by
  induction fuel generalizing idx with
  | zero => rfl
  | succ f ih =>
    simp only [collect, collectA, next_eq_A]
    cases nextA b.toArray idx <;> try rfl
    rename_i r
    obtain ⟨o, i'⟩ := r
    cases o <;> try rfl
    rename_i v
    show (match collect b f i' with | Except.error e => Except.error e | Except.ok vs => Except.ok (v :: vs)) = _
    rw [ih]
    rfl

theorem advance_eq_A (b : Bits) (k idx : Nat) : advance b k idx = advanceA b.toArray k idx := by
  induction k generalizing idx with
  | zero => rfl
  | succ k ih =>
    simp only [advance, advanceA, next_eq_A]
    cases nextA b.toArray idx <;> try rfl
    exact ih _

theorem restAfter_eq_A (b : Bits) : restAfter b = restAfterA b.toArray := by
  funext k
  simp only [restAfter, restAfterA, advance_eq_A, collect_eq_A, List.size_toArray]

theorem iterBits_eq_A (b : Bits) : iterBits b = collectA b.toArray (b.length * 64 + 1) 0 := by
  simp only [iterBits, collect_eq_A]

/-- The array-backed observation of a register is the list one. -/
theorem observeReg_eq_fast : @observeReg = @observeRegFast := by
  funext n b
  simp only [observeReg, observeRegFast, debug, display_eq_displayA, test_eq_testA, iterBits_eq_A, restAfter_eq_A, List.size_toArray]
  cases (List.range (64 * n)).mapM (testA b.toArray) <;> try rfl
  cases count b <;> try rfl
  cases collectA b.toArray (b.length * 64 + 1) 0 <;> try rfl
  cases displayA b.toArray <;> rfl

theorem ofWords_eq_fast : @Spec.ofWords = @ofWordsA := by
  funext ws
  simp [Spec.ofWords, ofWordsA]

theorem loadBits_eq_fast (n : Nat) (ws : List Nat) : loadBits n ws = loadBitsFast n ws := by
  simp only [loadBits, loadBitsFast, ofWords_eq_fast]

theorem step_eq_fast (n : Nat) (s : St) (op : Op) : step n s op = stepFast n s op := by
  cases op <;> first
    | rfl
    | simp only [step, stepFast, loadBits_eq_fast, observeReg_eq_fast]

theorem run_eq_fast (n : Nat) (s : St) (ops : List Op) : run n s ops = runFast n s ops := by
  induction ops generalizing s with
  | nil => rfl
  | cons op ops ih =>
    simp only [run, runFast, step_eq_fast]
    cases stepFast n s op <;> try rfl
    exact ih _

theorem observe_eq_fast (n : Nat) (s : St) : observe n s = observeFast n s := by
  simp only [observe, observeFast, observeReg_eq_fast]

/-- The driver's model side: `runCaseFast` is `runCase`. -/
theorem runCaseFast_eq (n k : Nat) (ops : List Op) : runCaseFast n k ops = runCase n k ops := by
  simp only [runCase, runCaseFast, run_eq_fast]
  cases runFast n ⟨List.replicate k (new n), [], []⟩ ops <;> try rfl
  exact (observe_eq_fast n _).symm

theorem specStep_eq_fast (s : SpecSt) (op : Op) : specStep s op = specStepFast s op := by
  cases op <;> first
    | rfl
    | simp only [specStep, specStepFast, ofWords_eq_fast]

theorem specRun_eq_fast (s : SpecSt) (ops : List Op) : specRun s ops = specRunFast s ops := by
  have : specStep = specStepFast := by funext s op; exact specStep_eq_fast s op
  simp only [specRun, specRunFast, this]

/-- The driver's specification side: `specRunCaseFast` is `specRunCase`. -/
theorem specRunCaseFast_eq (n k : Nat) (ops : List Op) : specRunCaseFast n k ops = specRunCase n k ops := by
  simp only [specRunCase, specRunCaseFast, specRun_eq_fast]

end Rlib.Bitset
