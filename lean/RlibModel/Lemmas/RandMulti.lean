import RlibModel.Model.RandMulti
import RlibModel.Lemmas.RandLcg
/-! Helper lemmas for C14, several live generators: one operation of the model (`Multi.step`, states) is the
operation of the specification (`Multi.specStep`, lineages) seen through `Lin.state`. -/
namespace Rlib.Rand.Multi
open Rlib.Rand

theorem rawStream_state (g : Gen) (l : Lin) (c : Nat) :
    (rawStream g c (l.state g)).2 = (⟨l.seed, l.k + c⟩ : Lin).state g := by
  rw [rawStream_snd]
  unfold Lin.state
  simp only
  rw [Nat.add_comm, iter_add]

theorem words_eq (g : Gen) (l : Lin) (c : Nat) : l.words g c = (List.range c).map (fun j => rawAt g l.seed (l.k + j)) := by
  unfold Lin.words
  rw [rawStream_fst, List.range_add, List.map_append, List.drop_left' (by simp), List.map_map]
  rfl

theorem rawStream_words (g : Gen) (l : Lin) (c : Nat) : (rawStream g c (l.state g)).1 = l.words g c := by
  rw [rawStream_fst, words_eq]
  unfold Lin.state
  apply List.map_congr_left
  intro j _
  exact rawAt_shift g l.seed l.k j

theorem nextRaw_state (g : Gen) (l : Lin) : (nextRaw g (l.state g)).1 = (⟨l.seed, l.k + 1⟩ : Lin).state g := by
  unfold Lin.state nextRaw
  simp only
  rw [iter_succ']

theorem nextRaw_word (g : Gen) (l : Lin) : (nextRaw g (l.state g)).2 = rawAt g l.seed l.k := by
  unfold Lin.state nextRaw rawAt
  simp only
  rw [iter_succ']

theorem words_one (g : Gen) (l : Lin) : l.words g 1 = [rawAt g l.seed l.k] := by
  rw [words_eq]
  rfl

theorem fresh_state (g : Gen) (seeds : List Nat) : (fresh seeds).map (Lin.state g) = seeds := by
  unfold fresh
  rw [List.map_map]
  conv => rhs; rw [← List.map_id seeds]
  apply List.map_congr_left
  intro s _
  rfl

/-- one operation: model on the states = specification on the lineages -/
theorem step_eq_spec (g : Gen) (ls : List Lin) (op : Op) :
    step g (ls.map (Lin.state g)) op = ((specStep g ls op).1.map (Lin.state g), (specStep g ls op).2) := by
  cases op with
  | new seed =>
    simp only [step, specStep, List.map_append, List.map_cons, List.map_nil]
    rfl
  | use i c =>
    simp only [step, specStep, List.length_map, List.getElem?_map]
    cases h : ls[i % ls.length]? with
    | none => simp
    | some l =>
      simp only [Option.map_some, List.map_set]
      rw [rawStream_state, rawStream_words]
  | fork i =>
    simp only [step, specStep, List.length_map, List.getElem?_map]
    cases h : ls[i % ls.length]? with
    | none => simp
    | some l =>
      simp only [Option.map_some, List.map_set, List.map_append, List.map_cons, List.map_nil]
      rw [nextRaw_state, nextRaw_word, words_one]
      rfl
  | dup i =>
    simp only [step, specStep, List.length_map, List.getElem?_map]
    cases h : ls[i % ls.length]? with
    | none => simp
    | some l => simp
  | assign i j =>
    simp only [step, specStep, List.length_map, List.getElem?_map]
    cases h : ls[i % ls.length]? with
    | none => simp
    | some l => simp [List.map_set]
  | dupAll =>
    simp only [step, specStep, List.length_map]
    split <;> simp

/-- a history: model on the states = specification on the lineages -/
theorem run_eq_spec (g : Gen) (ls : List Lin) (ops : List Op) :
    run g (ls.map (Lin.state g)) ops = ((specRun g ls ops).1, (specRun g ls ops).2.map (Lin.state g)) := by
  induction ops generalizing ls with
  | nil => rfl
  | cons op ops ih =>
    simp only [run, specRun]
    rw [step_eq_spec]
    simp only
    rw [ih]

end Rlib.Rand.Multi
