import RlibModel.Model.F80Prog
import RlibModel.Lemmas.F80
import RlibModel.Lemmas.F80Soft
/-!
Lemmas for the register programs of C18 (`Model/F80Prog.lean`): every result the model stores has a significand
below `2^64` (so the value-level rendering `canonBits` is faithful along a whole program), and the NaN case of `abs`.
Core Lean only.
-/
namespace Rlib.F80

theorem shiftInt_lt (m : Nat) (j : Int) (k : Nat) (_hm : m ≠ 0) (h : (m.log2 : Int) + 1 + j ≤ k) :
    shiftInt m j < 2 ^ k := by
  unfold shiftInt
  have hlt : m < 2 ^ (m.log2 + 1) := Nat.lt_log2_self
  split
  · rename_i hj
    rw [Nat.shiftLeft_eq]
    have e : k = (m.log2 + 1 + j.toNat) + (k - (m.log2 + 1 + j.toNat)) := by omega
    calc m * 2 ^ j.toNat < 2 ^ (m.log2 + 1) * 2 ^ j.toNat := Nat.mul_lt_mul_of_pos_right hlt (Nat.two_pow_pos _)
      _ = 2 ^ (m.log2 + 1 + j.toNat) := (Nat.pow_add _ _ _).symm
      _ ≤ 2 ^ k := Nat.pow_le_pow_right (by decide) (by omega)
  · rename_i hj
    rw [Nat.shiftRight_eq_div_pow]
    rw [Nat.div_lt_iff_lt_mul (Nat.two_pow_pos _)]
    calc m < 2 ^ (m.log2 + 1) := hlt
      _ ≤ 2 ^ (k + (-j).toNat) := Nat.pow_le_pow_right (by decide) (by omega)
      _ = 2 ^ k * 2 ^ (-j).toNat := Nat.pow_add _ _ _

/-- whatever class is encoded, the significand field fits its 64 bits -/
theorem encode80_sig_lt (c : Class) : (encode80 c).sig < 2 ^ 64 := by
  cases c with
  | nan => decide
  | inf s => show two63 < 2 ^ 64; decide
  | fin d =>
    unfold encode80
    by_cases hm : d.m = 0
    · simp [hm]
    · simp only [hm, if_false]
      split
      · rename_i ht
        exact shiftInt_lt d.m _ 64 hm (by omega)
      · split
        · show two63 < 2 ^ 64; decide
        · exact shiftInt_lt d.m _ 64 hm (by omega)

theorem neg_sig (a : F80) : (neg a).sig = a.sig := rfl

theorem min_sig_lt (a b : F80) (ha : a.sig < 2 ^ 64) (hb : b.sig < 2 ^ 64) : (min a b).sig < 2 ^ 64 := by
  rw [min_eq]; split <;> assumption

theorem max_sig_lt (a b : F80) (ha : a.sig < 2 ^ 64) (hb : b.sig < 2 ^ 64) : (max a b).sig < 2 ^ 64 := by
  rw [max_eq]; split <;> assumption

theorem BinOp.model_sig_lt (o : BinOp) (a b : F80) : (o.model a b).sig < 2 ^ 64 := by
  cases o <;> exact encode80_sig_lt _

theorem ofF64_sig_lt (x : F64) : (ofF64 x).sig < 2 ^ 64 := encode80_sig_lt _

theorem ofNat_sig_lt (n : Nat) : (F80.ofNat n).sig < 2 ^ 64 := by
  unfold F80.ofNat
  exact Nat.mod_lt _ (by decide)

theorem canonBits_of_nan (a : F80) (h : classify a = .nan) : canonBits a = none := by
  unfold canonBits; rw [h]

/-- `abs` of a NaN, seen as a value, is a NaN, like the operand with the sign cleared -/
theorem abs_view_nan (a : F80) (ha : (classify a).isNaN = true) : canonBits (abs a) = canonBits (specAbs a) := by
  have hc : classify a = .nan := by
    cases h : classify a <;> simp [h, Class.isNaN] at ha ⊢
  have h1 : abs a = a := by
    rw [abs_eq, hc]; rfl
  rw [h1, canonBits_of_nan a hc, canonBits_of_nan (specAbs a) (by rw [classify_specAbs, hc]; rfl)]

theorem Regs.set_get (R : Regs) (i j : Fin 4) (c : Cell) : (R.set i c) j = if j = i then c else R j := rfl

theorem Regs.set_wf (R : Regs) (h : R.wf) (i : Fin 4) (c : Cell) (hc : c.v.sig < 2 ^ 64) : (R.set i c).wf := by
  intro j
  rw [Regs.set_get]
  split
  · exact hc
  · exact h j

end Rlib.F80
