import RlibModel.Generated.WriterSrc
import RlibModel.Lemmas.Writer
/-!
Second tie of C09: the definitions regenerated from `rlib/io/src/writer.rs` (`Generated/WriterSrc.lean`, written by
`tools/rs2lean_writer.py` on every run) do what the hand-written model (`Model/Writer.lean`) does.

The generated functions work on the Rust struct as the triple `St = (buf, end, sink)`; the model's state keeps only `pend = buf[..end]`
(the stale bytes behind `end` are not part of it) and the two sink fields.  `abs` is that reading; `Wf c st` says that the buffer has
`c.buf` bytes and `end` lies inside it; `Sim c r m` — the statement form of every theorem here — says that the generated call `r` and the
model computation `m` agree: both panic with the same `Panic`, or both return, the new triple is again well formed and its abstraction is
the model's new state.  A `Writable::write` body is compared with `runActs c ACTS`, the model's list of actions for that instance.
-/
set_option linter.unusedSimpArgs false
set_option linter.unusedVariables false
namespace Rlib.WriterSrc
open Rlib Rlib.Writer Rlib.SrcIoW Rlib.SrcIo Rlib.Decimal

/-- the Rust struct: buffer, `end`, sink -/
abbrev St := Array UInt8 × Nat × Sink

/-- the model state a struct value stands for: `pend = buf[..end]`, the bytes the sink holds, the number of `write_all` calls -/
def abs (st : St) : WState := ⟨⟨st.1.extract 0 st.2.1⟩, st.2.2.data, st.2.2.calls⟩

/-- the buffer has `c.buf` bytes and `end` is inside it (established by `new`, kept by every function) -/
def Wf (c : Cfg) (st : St) : Prop := st.1.size = c.buf ∧ st.2.1 ≤ c.buf

/-- the generated call `r` and the model computation `m` agree: the same panic, or results related by `abs` (and `Wf` is kept) -/
def Sim (c : Cfg) (r : Except Panic St) (m : Except Panic WState) : Prop :=
  match r with
  | .ok st' => Wf c st' ∧ m = .ok (abs st')
  | .error p => m = .error p

theorem mk_empty (buf : Array UInt8) : (ByteArray.mk (buf.extract 0 0)) = ByteArray.empty := by
  simp
  rfl

theorem pend_size (buf : Array UInt8) (e : Nat) (h : e ≤ buf.size) : (ByteArray.mk (buf.extract 0 e)).size = e := by
  simp [ByteArray.size]
  omega

theorem overwrite_size (b s : Array UInt8) (lo : Nat) (h : lo + s.size ≤ b.size) : (overwrite b lo s).size = b.size := by
  simp [overwrite]
  omega

theorem overwrite_prefix (b s : Array UInt8) (lo : Nat) (h : lo + s.size ≤ b.size) :
    (overwrite b lo s).extract 0 (lo + s.size) = b.extract 0 lo ++ s := by
  simp only [overwrite]
  apply Array.ext
  · simp; omega
  · intro i h1 h2
    simp at h1 h2
    simp only [Array.getElem_extract, Array.getElem_append, Array.size_append, Array.size_extract]
    split <;> split <;> (try split) <;> (try rfl) <;> (try (congr 1; omega)) <;> (try omega)

theorem mk_append (a b : Array UInt8) : ByteArray.mk (a ++ b) = ByteArray.mk a ++ ByteArray.mk b := by
  ext1
  simp

theorem flush_sim (c : Cfg) (fuel : Nat) (dbg : Bool) (buf : Array UInt8) (e : Nat) (k : Sink) (hg : Wf c (buf, e, k)) :
    Sim c (flush fuel dbg buf e k) (.ok (Writer.flush (abs (buf, e, k)))) := by
  obtain ⟨h1, h2⟩ := hg
  simp only at h1 h2
  have hs : (ByteArray.mk (buf.extract 0 e)).size = e := pend_size buf e (by omega)
  by_cases he : e = 0
  · subst he
    simp [flush, Sim, Wf, Writer.flush, abs, h1, ByteArray.size]
  · have hsl : (0 : Nat) ≤ e ∧ e ≤ buf.size := ⟨by omega, by omega⟩
    simp only [flush, he, ne_eq, not_false_eq_true, if_false, SrcIoW.slice, hsl, and_self, if_true, SrcIoW.writeAll, Sim, Wf, Writer.flush, abs, hs]
    refine ⟨⟨h1, by omega⟩, ?_⟩
    simp
    rfl

theorem reserve_sim (c : Cfg) (hc : c.buf < 2 ^ 63) (fuel : Nat) (dbg : Bool) (buf : Array UInt8) (e : Nat) (k : Sink) (n : Nat)
    (hn : n < 2 ^ 63) (hg : Wf c (buf, e, k)) :
    Sim c (reserve fuel dbg buf e k n) (.ok (Writer.reserve c n (abs (buf, e, k)))) := by
  have hf := flush_sim c fuel dbg buf e k hg
  obtain ⟨h1, h2⟩ := hg
  simp only at h1 h2
  have hs : (ByteArray.mk (buf.extract 0 e)).size = e := pend_size buf e (by omega)
  have ha : e + n < 2 ^ 64 := by omega
  simp only [reserve, uadd, ha, if_true, Writer.reserve, abs, hs, h1] at hf ⊢
  by_cases hgt : e + n > c.buf
  · simp only [hgt, if_true]
    cases hfl : flush fuel dbg buf e k with
    | error p => rw [hfl] at hf; simp [Sim] at hf
    | ok st => rw [hfl] at hf; obtain ⟨a, b, d⟩ := st; exact hf
  · simp only [hgt, if_false]
    exact ⟨⟨h1, h2⟩, rfl⟩

theorem Sim.ok_inv {c : Cfg} {r : Except Panic St} {s : WState} (h : Sim c r (.ok s)) : ∃ st, r = .ok st ∧ Wf c st ∧ s = abs st := by
  cases r with
  | error p => simp [Sim] at h
  | ok st => exact ⟨st, rfl, h.1, by simpa using h.2⟩

theorem write_bytes_sim (c : Cfg) (hc : c.buf < 2 ^ 63) (fuel : Nat) (dbg : Bool) (buf : Array UInt8) (e : Nat) (k : Sink) (bs : Array UInt8)
    (hb : bs.size < 2 ^ 63) (hg : Wf c (buf, e, k)) :
    Sim c (write_bytes fuel dbg buf e k bs) (Writer.writeBytes c ⟨bs⟩ (abs (buf, e, k))) := by
  obtain ⟨⟨b1, e1, k1⟩, hr, ⟨g1, g2⟩, ha⟩ := (reserve_sim c hc fuel dbg buf e k bs.size hb hg).ok_inv
  simp only at g1 g2
  have hs : (ByteArray.mk (b1.extract 0 e1)).size = e1 := pend_size b1 e1 (by omega)
  have hadd : e1 + bs.size < 2 ^ 64 := by omega
  simp only [write_bytes, hr, uadd, hadd, if_true, Writer.writeBytes, ByteArray.size, ha]
  simp only [abs, ByteArray.size] at hs ⊢
  simp only [hs]
  by_cases hfit : e1 + bs.size > c.buf
  · have : ¬ (e1 + bs.size ≤ b1.size) := by omega
    simp [copyFromSlice, this, hfit, Sim]
  · have h1 : e1 ≤ e1 + bs.size ∧ e1 + bs.size ≤ b1.size := by omega
    have h2 : e1 + bs.size - e1 = bs.size := by omega
    simp only [copyFromSlice, h1, and_self, if_true, h2, hfit, if_false, Sim, Wf, abs]
    refine ⟨⟨by rw [overwrite_size _ _ _ (by omega)]; exact g1, by omega⟩, ?_⟩
    rw [overwrite_prefix _ _ _ (by omega), mk_append]

theorem Sim.cases {c : Cfg} {r : Except Panic St} {m : Except Panic WState} (h : Sim c r m) :
    (∃ p, r = .error p ∧ m = .error p) ∨ (∃ st, r = .ok st ∧ Wf c st ∧ m = .ok (abs st)) := by
  cases r with
  | error p => exact Or.inl ⟨p, rfl, h⟩
  | ok st => exact Or.inr ⟨st, rfl, h.1, h.2⟩

theorem Sim.error (c : Cfg) (p : Panic) : Sim c (.error p) (.error p) := rfl

/-- one call of the generated text whose refinement `h : Sim c CALL M` is known: case split on its result, rewrite both sides -/
syntax "sim_call " term " with " ident ident ident ident : tactic
macro_rules
  | `(tactic| sim_call $h with $b $e $k $hw) => `(tactic| (
      rcases Sim.cases $h with ⟨p, hcall, hm⟩ | ⟨⟨b', e', k'⟩, hcall, hwst, hm⟩
      · simp only [hcall, hm]; exact Sim.error _ _
      simp only [hcall, hm]
      clear hcall hm
      rename_i $b:ident $e:ident $k:ident $hw:ident))

theorem dflush_sim (c : Cfg) (fuel : Nat) (st : St) (hg : Wf c st) :
    Sim c (if c.dbg = true then (match flush fuel c.dbg st.1 st.2.1 st.2.2 with | .error e => .error e | .ok (v3, v4, v5) => .ok (v3, v4, v5)) else .ok st)
      (runActs c [.dflush] (abs st)) := by
  obtain ⟨b, e, k⟩ := st
  have hf := flush_sim c fuel c.dbg b e k hg
  simp only [runActs, step]
  by_cases hd : c.dbg = true
  · simp only [hd, if_true] at hf ⊢
    obtain ⟨⟨b1, e1, k1⟩, hr, hw, ha⟩ := hf.ok_inv
    simp only [hr, ha]
    exact ⟨hw, rfl⟩
  · simp only [hd, if_false]
    exact ⟨hg, rfl⟩

theorem singleton_bytes (b : UInt8) : [b].toByteArray = ByteArray.mk #[b] := rfl

theorem write_char_sim (c : Cfg) (hc : c.buf < 2 ^ 63) (fuel : Nat) (st : St) (code : Nat) (hg : Wf c st) :
    Sim c (write_char fuel c.dbg st.1 st.2.1 st.2.2 code) (runActs c (writeCharActs (UInt8.ofNat code)) (abs st)) := by
  obtain ⟨b, e, k⟩ := st
  simp only [write_char, writeCharActs, runActs, step, singleton_bytes]
  sim_call (write_bytes_sim c hc fuel c.dbg b e k #[UInt8.ofNat code] (by simp) hg) with b1 e1 k1 hw1
  have h2 := dflush_sim c fuel (b1, e1, k1) hw1
  simp only [runActs, step] at h2
  exact h2

theorem write_sim (c : Cfg) (fuel : Nat) {T : Type} (w : Writable_write T) (x : T) (as : List Act) (st : St) (hg : Wf c st)
    (hw : ∀ st, Wf c st → Sim c (w fuel c.dbg x st.1 st.2.1 st.2.2) (runActs c as (abs st))) :
    Sim c (write w fuel c.dbg st.1 st.2.1 st.2.2 x) (runActs c (as ++ [.dflush]) (abs st)) := by
  obtain ⟨b, e, k⟩ := st
  simp only [write, runActs_append]
  sim_call (hw (b, e, k) hg) with b1 e1 k1 hw1
  have h2 := dflush_sim c fuel (b1, e1, k1) hw1
  simp only [runActs, step] at h2 ⊢
  exact h2

theorem drop_sim (c : Cfg) (fuel : Nat) (dbg : Bool) (st : St) (hg : Wf c st) :
    Sim c (drop fuel dbg st.1 st.2.1 st.2.2) (.ok (Writer.drop (abs st))) := by
  obtain ⟨b, e, k⟩ := st
  simp only [drop, Writer.drop]
  sim_call (flush_sim c fuel dbg b e k hg) with b1 e1 k1 hw1
  exact ⟨hw1, rfl⟩

theorem mk_extract (s : Array UInt8) (a b : Nat) : (ByteArray.mk s).extract a b = ByteArray.mk (s.extract a b) := by
  ext1; simp

theorem str_write_loop0_sim (c : Cfg) (hc : c.buf < 2 ^ 63) (s : Array UInt8) (n : Nat) (hn : n ≠ 0) (hn2 : n < 2 ^ 63) :
    ∀ (fuel off : Nat) (st : St), Wf c st → (s.size - off) + 1 ≤ fuel →
      Sim c (str_write_loop0 fuel c.dbg ⟨s.extract off s.size, n⟩ st.1 st.2.1 st.2.2) (runActs c (chunkActs n ⟨s⟩ off) (abs st)) := by
  intro fuel
  induction fuel with
  | zero => intro off st _ h; omega
  | succ fuel ih =>
    intro off st hg hf
    obtain ⟨b, e, k⟩ := st
    rw [chunkActs, dif_neg hn]
    by_cases ho : off < s.size
    · have hsize : (s.extract off s.size).size = s.size - off := by simp
      have hsz : (s.extract off s.size).size ≠ 0 := by omega
      have hpos : off < (ByteArray.mk s).size := ho
      simp only [str_write_loop0, Chunks.next, hsz, if_false, hpos, if_true, Array.extract_extract, mk_extract, ByteArray.size]
      simp only [hsize, Nat.add_zero, ho, if_true, runActs, step]
      have e1 : min (off + min (s.size - off) n) s.size = min (off + n) s.size := by omega
      have e2 : off + min (s.size - off) n = min (off + n) s.size := by omega
      have e3 : min (off + (s.size - off)) s.size = s.size := by omega
      have e4 : min (min (off + n) s.size) s.size = min (off + n) s.size := by omega
      simp only [e1, e2, e3, e4]
      sim_call (write_bytes_sim c hc fuel c.dbg b e k (s.extract off (min (off + n) s.size)) (by simp; omega) hg) with b1 e1 k1 hw1
      have := ih (off + n) (b1, e1, k1) hw1 (by omega)
      by_cases hlt : off + n ≤ s.size
      · rw [Nat.min_eq_left hlt]; exact this
      · have hz : ∀ a, a ≥ s.size → s.extract a s.size = #[] := by intro a ha; simp; omega
        rw [hz _ (by omega)] at this
        rw [Nat.min_eq_right (by omega), hz _ (by omega)]
        exact this
    · have hsz : (s.extract off s.size).size = 0 := by simp; omega
      have hpos : ¬ off < (ByteArray.mk s).size := ho
      simp only [str_write_loop0, Chunks.next, hsz, if_true, hpos, if_false, runActs]
      exact ⟨hg, rfl⟩
theorem digit_add : ∀ d : Nat, d < 10 → UInt8.ofNat d + 48 = UInt8.ofNat (d + 48) := by decide

theorem digit_badd (n : Nat) : badd (toU8 (Int.tmod (n : Int) 10)) (48 : UInt8) = .ok (digitByte n) := by
  have h1 : Int.tmod (n : Int) 10 = ((n % 10 : Nat) : Int) := by
    rw [Int.tmod_eq_emod_of_nonneg (by omega)]; omega
  have h2 : n % 10 < 10 := Nat.mod_lt _ (by omega)
  have h3 : (((n % 10 : Nat) : Int) % 256).toNat = n % 10 := by omega
  have h4 : (UInt8.ofNat (n % 10)).toNat = n % 10 := by simp; omega
  simp only [badd, toU8, h1, h3, h4, digitByte]
  have : n % 10 + (48 : UInt8).toNat < 256 := by simp; omega
  simp only [this, if_true, digit_add _ h2]

theorem minVal_le_zero (t : IntTy) : t.minVal ≤ 0 := by
  unfold IntTy.minVal
  split
  · have : (0 : Int) < 2 ^ (t.bits - 1) := Int.pow_pos (by omega)
    omega
  · omega

theorem idiv_ok (t : IntTy) (n : Nat) (h : (n : Int) ≤ t.maxVal) : idiv t (n : Int) 10 = .ok ((n / 10 : Nat) : Int) := by
  have h1 : Int.tdiv (n : Int) 10 = ((n / 10 : Nat) : Int) := by
    rw [Int.tdiv_eq_ediv_of_nonneg (by omega)]; omega
  have h2 := minVal_le_zero t
  have h3 : ((n / 10 : Nat) : Int) ≤ (n : Int) := by omega
  simp only [idiv, h1, checked, IntTy.fits]
  simp
  constructor <;> omega

theorem irem_ok (t : IntTy) (n : Nat) : irem t (n : Int) 10 = .ok (Int.tmod (n : Int) 10) := by
  simp [irem]

theorem write_unsigned_loop0_eq (t : IntTy) (dbg : Bool) : ∀ (fuel n idx : Nat) (buf : Array UInt8),
    (n : Int) ≤ t.maxVal → ndig n < fuel →
    write_unsigned_loop0 t fuel dbg (n : Int) idx buf =
      match renderLoop buf.toList idx n with
      | .ok (l, i) => .ok ((0 : Int), i, l.toArray)
      | .error e => .error e := by
  intro fuel
  induction fuel with
  | zero => intro n idx buf _ h; omega
  | succ fuel ih =>
    intro n idx buf hmax hf
    by_cases hn : n = 0
    · subst hn
      simp [write_unsigned_loop0, renderLoop_zero]
    · have hn' : (n : Int) ≠ 0 := by omega
      rw [renderLoop, dif_neg hn]
      simp only [write_unsigned_loop0, hn', ne_eq, not_false_eq_true, if_true, usub]
      by_cases hi : idx = 0
      · subst hi; simp
      · have h1 : 1 ≤ idx := by omega
        simp only [h1, if_true, hi, if_false, irem_ok, digit_badd, store, Array.length_toList]
        by_cases hs : idx - 1 < buf.size
        · simp only [hs, if_true, idiv_ok t n hmax]
          rw [ih (n / 10) (idx - 1) _ (by omega) (by rw [ndig_pos hn] at hf; omega)]
          simp
        · simp [hs]

theorem renderLoop_inv : ∀ (n : Nat) (buf : List UInt8) (i : Nat) (l : List UInt8) (j : Nat),
    renderLoop buf i n = .ok (l, j) → j ≤ i ∧ l.length = buf.length := by
  intro n
  induction n using Nat.strongRecOn with
  | _ n ih =>
    intro buf i l j h
    by_cases hn : n = 0
    · subst hn; rw [renderLoop_zero] at h; cases h; exact ⟨Nat.le_refl _, rfl⟩
    · rw [renderLoop, dif_neg hn] at h
      by_cases hi : i = 0
      · simp [hi] at h
      · rw [if_neg hi] at h
        by_cases hs : i - 1 < buf.length
        · rw [if_pos hs] at h
          have := ih (n / 10) (by omega) _ _ _ _ h
          simp at this
          omega
        · simp [hs] at h

theorem list_mk (l : List UInt8) : l.toByteArray = ByteArray.mk l.toArray := by
  ext1; simp

theorem write_unsigned_sim (c : Cfg) (hc : c.buf < 2 ^ 63) (t : IntTy) (hbits : t.bits ≤ 128) (fuel n : Nat)
    (hmax : (n : Int) ≤ t.maxVal) (hf : ndig n < fuel) (st : St) (hg : Wf c st) :
    Sim c (write_unsigned t fuel c.dbg (n : Int) st.1 st.2.1 st.2.2) (runActs c (unsignedActs t.bits n) (abs st)) := by
  obtain ⟨b, e, k⟩ := st
  by_cases hn : n = 0
  · subst hn
    simp only [write_unsigned, unsignedActs, Int.natCast_zero, ne_eq, not_true_eq_false, if_true, if_false]
    have h48 := write_char_sim c hc fuel (b, e, k) 48 hg
    rw [show UInt8.ofNat 48 = (48 : UInt8) from rfl] at h48
    sim_call h48 with b1 e1 k1 hw1
    exact ⟨hw1, rfl⟩
  · have hn' : ¬ ((n : Int) = 0) := by omega
    simp only [write_unsigned, unsignedActs, hn, hn', ne_eq, not_false_eq_true, if_true, if_false, renderDigits, base10Len, Array.size_replicate,
      write_unsigned_loop0_eq t c.dbg fuel n _ _ hmax hf, Array.toList_replicate]
    cases hr : renderLoop (List.replicate (base10len t.bits) 0) (base10len t.bits) n with
    | error p => simp only [runActs, step]; exact Sim.error _ _
    | ok r =>
      obtain ⟨l, j⟩ := r
      obtain ⟨hj, hl⟩ := renderLoop_inv _ _ _ _ _ hr
      simp only [List.length_replicate] at hl
      have hL : base10len t.bits ≤ 39 := by rw [← base10len_128]; exact base10len_mono hbits
      have hsl : j ≤ l.toArray.size ∧ l.toArray.size ≤ l.toArray.size := by simp; omega
      have hex : l.toArray.extract j l.toArray.size = (l.drop j).toArray := by
        simp
        exact List.take_of_length_le (by simp)
      simp only [SrcIoW.slice, hsl, and_self, if_true, hex, runActs, step, list_mk]
      sim_call (write_bytes_sim c hc fuel c.dbg b e k (l.drop j).toArray (by simp; omega) hg) with b1 e1 k1 hw1
      exact ⟨hw1, rfl⟩

theorem natAbs_le_umax (t : IntTy) (v : Int) (hb : 1 ≤ t.bits) (hfit : t.fits v = true) : (v.natAbs : Int) ≤ (unsignedOf t).maxVal := by
  have h := (natAbs_lt_of_fits hb hfit).1
  have hc : ((2 ^ t.bits : Nat) : Int) = (2 : Int) ^ t.bits := by simp
  have : (v.natAbs : Int) < ((2 ^ t.bits : Nat) : Int) := Int.ofNat_lt.mpr h
  simp only [unsignedOf, IntTy.maxVal]
  simp
  omega

theorem write_signed_sim (c : Cfg) (hc : c.buf < 2 ^ 63) (t : IntTy) (hb1 : 1 ≤ t.bits) (hbits : t.bits ≤ 128) (fuel : Nat) (v : Int)
    (hfit : t.fits v = true) (hf : ndig v.natAbs < fuel) (st : St) (hg : Wf c st) :
    Sim c (write_signed t fuel c.dbg v st.1 st.2.1 st.2.2) (runActs c (signedActs t.bits v) (abs st)) := by
  obtain ⟨b, e, k⟩ := st
  have hmax := natAbs_le_umax t v hb1 hfit
  have hu : ∀ st, Wf c st → Sim c (write (write_unsigned (unsignedOf t)) fuel c.dbg st.1 st.2.1 st.2.2 (v.natAbs : Int))
      (runActs c (unsignedActs t.bits v.natAbs ++ [.dflush]) (abs st)) := fun st hst =>
    write_sim c fuel (write_unsigned (unsignedOf t)) (v.natAbs : Int) (unsignedActs t.bits v.natAbs) st hst
      (fun st' hst' => write_unsigned_sim c hc (unsignedOf t) hbits fuel v.natAbs hmax hf st' hst')
  simp only [write_signed, signedActs, unsignedAbs]
  by_cases hneg : v < 0
  · simp only [hneg, if_true, runActs_append c (writeCharActs 45)]
    have h45 := write_char_sim c hc fuel (b, e, k) 45 hg
    rw [show UInt8.ofNat 45 = (45 : UInt8) from rfl] at h45
    sim_call h45 with b1 e1 k1 hw1
    sim_call (hu (b1, e1, k1) hw1) with b2 e2 k2 hw2
    exact ⟨hw2, rfl⟩
  · simp only [hneg, if_false, List.nil_append]
    sim_call (hu (b, e, k) hg) with b2 e2 k2 hw2
    exact ⟨hw2, rfl⟩

/-! ### sequences: `Vec<T>` and tuples -/

/-- the model's `actsSeq` over any element type: `write_char(' ')` before every element but the first, then `writer.write(elem)` -/
def seqActs {T : Type} (toActs : T → List Act) : Bool → List T → List Act
  | _, [] => []
  | first, x :: xs => (if first then [] else writeCharActs 32) ++ (toActs x ++ (.dflush :: seqActs toActs false xs))

theorem actsSeq_eq (buf : Nat) : ∀ (first : Bool) (vs : List Val), actsSeq buf first vs = seqActs (acts buf) first vs := by
  intro first vs
  induction vs generalizing first with
  | nil => simp [actsSeq, seqActs]
  | cons x xs ih => simp only [actsSeq, seqActs, ih]

/-- what `writer.write(x)` does when `x.write(writer)` does `A` -/
def wr (A : List Act) : List Act := A ++ [.dflush]

theorem run_wr (c : Cfg) (A R : List Act) (s : WState) :
    runActs c (A ++ (.dflush :: R)) s = match runActs c (wr A) s with | .ok s' => runActs c R s' | .error e => .error e := by
  have : A ++ (.dflush :: R) = wr A ++ R := by simp [wr]
  rw [this, runActs_append]
  cases runActs c (wr A) s <;> rfl

theorem write_sim' (c : Cfg) (fuel : Nat) {T : Type} (w : Writable_write T) (x : T) (as : List Act) (st : St) (hg : Wf c st)
    (hw : ∀ st, Wf c st → Sim c (w fuel c.dbg x st.1 st.2.1 st.2.2) (runActs c as (abs st))) :
    Sim c (write w fuel c.dbg st.1 st.2.1 st.2.2 x) (runActs c (wr as) (abs st)) := write_sim c fuel w x as st hg hw

theorem space_sim (c : Cfg) (hc : c.buf < 2 ^ 63) (fuel : Nat) (st : St) (hg : Wf c st) :
    Sim c (write_char fuel c.dbg st.1 st.2.1 st.2.2 32) (runActs c (writeCharActs 32) (abs st)) := by
  have h := write_char_sim c hc fuel st 32 hg
  rw [show UInt8.ofNat 32 = (32 : UInt8) from rfl] at h
  exact h

theorem Vec_write_loop0_sim (c : Cfg) (hc : c.buf < 2 ^ 63) {T : Type} (w : Writable_write T) (toActs : T → List Act) (N : Nat)
    (items : Array T)
    (hw : ∀ fuel, N ≤ fuel → ∀ (x : T), x ∈ items → ∀ (st : St), Wf c st → Sim c (w fuel c.dbg x st.1 st.2.1 st.2.2) (runActs c (toActs x) (abs st))) :
    ∀ (fuel pos : Nat) (st : St), Wf c st → (items.size - pos) + 1 + N ≤ fuel →
      Sim c (Vec_write_loop0 w fuel c.dbg ⟨items, pos⟩ st.1 st.2.1 st.2.2)
        (runActs c (seqActs toActs (decide (pos = 0)) (items.toList.drop pos)) (abs st)) := by
  intro fuel
  induction fuel with
  | zero => intro pos st _ h; omega
  | succ fuel ih =>
    intro pos st hg hf
    obtain ⟨b, e, k⟩ := st
    by_cases hp : pos < items.size
    · have hget : items[pos]? = some items[pos] := by simp [hp]
      have hdrop : items.toList.drop pos = items[pos] :: items.toList.drop (pos + 1) := by
        rw [List.drop_eq_getElem_cons (by simpa using hp)]; simp
      have hrec : ∀ st, Wf c st → Sim c (Vec_write_loop0 w fuel c.dbg ⟨items, pos + 1⟩ st.1 st.2.1 st.2.2)
          (runActs c (seqActs toActs false (items.toList.drop (pos + 1))) (abs st)) := by
        intro st hst
        have := ih (pos + 1) st hst (by omega)
        simpa using this
      have hel : ∀ st, Wf c st → Sim c (write w fuel c.dbg st.1 st.2.1 st.2.2 items[pos]) (runActs c (wr (toActs items[pos])) (abs st)) :=
        fun st hst => write_sim' c fuel w _ _ st hst (hw fuel (by omega) _ (Array.getElem_mem hp))
      simp only [Vec_write_loop0, Enumerate.next, hget, hdrop, seqActs, run_wr]
      by_cases h0 : pos = 0
      · simp only [h0, ne_eq, not_true_eq_false, if_false, decide_true, if_true, List.nil_append, run_wr] at hel hrec ⊢
        sim_call (hel (b, e, k) hg) with b1 e1 k1 hw1
        exact hrec (b1, e1, k1) hw1
      · simp only [h0, ne_eq, not_false_eq_true, if_true, decide_false, Bool.false_eq_true, if_false, runActs_append c (writeCharActs 32), run_wr]
        sim_call (space_sim c hc fuel (b, e, k) hg) with b1 e1 k1 hw1
        sim_call (hel (b1, e1, k1) hw1) with b2 e2 k2 hw2
        exact hrec (b2, e2, k2) hw2
    · have hget : items[pos]? = none := by simp; omega
      have hdrop : items.toList.drop pos = [] := by simp; omega
      simp only [Vec_write_loop0, Enumerate.next, hget, hdrop, seqActs, runActs]
      exact ⟨hg, rfl⟩

theorem Vec_write_sim (c : Cfg) (hc : c.buf < 2 ^ 63) {T : Type} (w : Writable_write T) (toActs : T → List Act) (N : Nat)
    (items : Array T)
    (hw : ∀ fuel, N ≤ fuel → ∀ (x : T), x ∈ items → ∀ (st : St), Wf c st → Sim c (w fuel c.dbg x st.1 st.2.1 st.2.2) (runActs c (toActs x) (abs st)))
    (fuel : Nat) (hf : items.size + 1 + N ≤ fuel) (st : St) (hg : Wf c st) :
    Sim c (Vec_write w fuel c.dbg items st.1 st.2.1 st.2.2) (runActs c (seqActs toActs true items.toList) (abs st)) := by
  obtain ⟨b, e, k⟩ := st
  simp only [Vec_write, enumerate]
  have := Vec_write_loop0_sim c hc w toActs N items hw fuel 0 (b, e, k) hg (by omega)
  simp only [decide_true, List.drop_zero] at this
  sim_call this with b1 e1 k1 hw1
  exact ⟨hw1, rfl⟩

theorem tuple2_write_sim (c : Cfg) (hc : c.buf < 2 ^ 63) (fuel : Nat) {T0 T1 : Type} (w0 : Writable_write T0) (w1 : Writable_write T1)
    (x0 : T0) (x1 : T1) (A0 A1 : List Act)
    (h0 : ∀ st, Wf c st → Sim c (w0 fuel c.dbg x0 st.1 st.2.1 st.2.2) (runActs c A0 (abs st)))
    (h1 : ∀ st, Wf c st → Sim c (w1 fuel c.dbg x1 st.1 st.2.1 st.2.2) (runActs c A1 (abs st)))
    (st : St) (hg : Wf c st) :
    Sim c (tuple2_write w0 w1 fuel c.dbg (x0, x1) st.1 st.2.1 st.2.2) (runActs c (seqActs id true [A0, A1]) (abs st)) := by
  obtain ⟨b, e, k⟩ := st
  simp only [tuple2_write, seqActs, id, if_true, if_false, List.nil_append, Bool.false_eq_true, run_wr, runActs_append c (writeCharActs 32)]
  sim_call (write_sim' c fuel w0 x0 A0 (b, e, k) hg h0) with b e k hg
  sim_call (space_sim c hc fuel (b, e, k) hg) with b e k hg
  sim_call (write_sim' c fuel w1 x1 A1 (b, e, k) hg h1) with b e k hg
  exact ⟨hg, rfl⟩

theorem tuple3_write_sim (c : Cfg) (hc : c.buf < 2 ^ 63) (fuel : Nat) {T0 T1 T2 : Type} (w0 : Writable_write T0) (w1 : Writable_write T1) (w2 : Writable_write T2)
    (x0 : T0) (x1 : T1) (x2 : T2) (A0 A1 A2 : List Act)
    (h0 : ∀ st, Wf c st → Sim c (w0 fuel c.dbg x0 st.1 st.2.1 st.2.2) (runActs c A0 (abs st)))
    (h1 : ∀ st, Wf c st → Sim c (w1 fuel c.dbg x1 st.1 st.2.1 st.2.2) (runActs c A1 (abs st)))
    (h2 : ∀ st, Wf c st → Sim c (w2 fuel c.dbg x2 st.1 st.2.1 st.2.2) (runActs c A2 (abs st)))
    (st : St) (hg : Wf c st) :
    Sim c (tuple3_write w0 w1 w2 fuel c.dbg (x0, x1, x2) st.1 st.2.1 st.2.2) (runActs c (seqActs id true [A0, A1, A2]) (abs st)) := by
  obtain ⟨b, e, k⟩ := st
  simp only [tuple3_write, seqActs, id, if_true, if_false, List.nil_append, Bool.false_eq_true, run_wr, runActs_append c (writeCharActs 32)]
  sim_call (write_sim' c fuel w0 x0 A0 (b, e, k) hg h0) with b e k hg
  sim_call (space_sim c hc fuel (b, e, k) hg) with b e k hg
  sim_call (write_sim' c fuel w1 x1 A1 (b, e, k) hg h1) with b e k hg
  sim_call (space_sim c hc fuel (b, e, k) hg) with b e k hg
  sim_call (write_sim' c fuel w2 x2 A2 (b, e, k) hg h2) with b e k hg
  exact ⟨hg, rfl⟩

theorem tuple4_write_sim (c : Cfg) (hc : c.buf < 2 ^ 63) (fuel : Nat) {T0 T1 T2 T3 : Type} (w0 : Writable_write T0) (w1 : Writable_write T1) (w2 : Writable_write T2) (w3 : Writable_write T3)
    (x0 : T0) (x1 : T1) (x2 : T2) (x3 : T3) (A0 A1 A2 A3 : List Act)
    (h0 : ∀ st, Wf c st → Sim c (w0 fuel c.dbg x0 st.1 st.2.1 st.2.2) (runActs c A0 (abs st)))
    (h1 : ∀ st, Wf c st → Sim c (w1 fuel c.dbg x1 st.1 st.2.1 st.2.2) (runActs c A1 (abs st)))
    (h2 : ∀ st, Wf c st → Sim c (w2 fuel c.dbg x2 st.1 st.2.1 st.2.2) (runActs c A2 (abs st)))
    (h3 : ∀ st, Wf c st → Sim c (w3 fuel c.dbg x3 st.1 st.2.1 st.2.2) (runActs c A3 (abs st)))
    (st : St) (hg : Wf c st) :
    Sim c (tuple4_write w0 w1 w2 w3 fuel c.dbg (x0, x1, x2, x3) st.1 st.2.1 st.2.2) (runActs c (seqActs id true [A0, A1, A2, A3]) (abs st)) := by
  obtain ⟨b, e, k⟩ := st
  simp only [tuple4_write, seqActs, id, if_true, if_false, List.nil_append, Bool.false_eq_true, run_wr, runActs_append c (writeCharActs 32)]
  sim_call (write_sim' c fuel w0 x0 A0 (b, e, k) hg h0) with b e k hg
  sim_call (space_sim c hc fuel (b, e, k) hg) with b e k hg
  sim_call (write_sim' c fuel w1 x1 A1 (b, e, k) hg h1) with b e k hg
  sim_call (space_sim c hc fuel (b, e, k) hg) with b e k hg
  sim_call (write_sim' c fuel w2 x2 A2 (b, e, k) hg h2) with b e k hg
  sim_call (space_sim c hc fuel (b, e, k) hg) with b e k hg
  sim_call (write_sim' c fuel w3 x3 A3 (b, e, k) hg h3) with b e k hg
  exact ⟨hg, rfl⟩

theorem tuple5_write_sim (c : Cfg) (hc : c.buf < 2 ^ 63) (fuel : Nat) {T0 T1 T2 T3 T4 : Type} (w0 : Writable_write T0) (w1 : Writable_write T1) (w2 : Writable_write T2) (w3 : Writable_write T3) (w4 : Writable_write T4)
    (x0 : T0) (x1 : T1) (x2 : T2) (x3 : T3) (x4 : T4) (A0 A1 A2 A3 A4 : List Act)
    (h0 : ∀ st, Wf c st → Sim c (w0 fuel c.dbg x0 st.1 st.2.1 st.2.2) (runActs c A0 (abs st)))
    (h1 : ∀ st, Wf c st → Sim c (w1 fuel c.dbg x1 st.1 st.2.1 st.2.2) (runActs c A1 (abs st)))
    (h2 : ∀ st, Wf c st → Sim c (w2 fuel c.dbg x2 st.1 st.2.1 st.2.2) (runActs c A2 (abs st)))
    (h3 : ∀ st, Wf c st → Sim c (w3 fuel c.dbg x3 st.1 st.2.1 st.2.2) (runActs c A3 (abs st)))
    (h4 : ∀ st, Wf c st → Sim c (w4 fuel c.dbg x4 st.1 st.2.1 st.2.2) (runActs c A4 (abs st)))
    (st : St) (hg : Wf c st) :
    Sim c (tuple5_write w0 w1 w2 w3 w4 fuel c.dbg (x0, x1, x2, x3, x4) st.1 st.2.1 st.2.2) (runActs c (seqActs id true [A0, A1, A2, A3, A4]) (abs st)) := by
  obtain ⟨b, e, k⟩ := st
  simp only [tuple5_write, seqActs, id, if_true, if_false, List.nil_append, Bool.false_eq_true, run_wr, runActs_append c (writeCharActs 32)]
  sim_call (write_sim' c fuel w0 x0 A0 (b, e, k) hg h0) with b e k hg
  sim_call (space_sim c hc fuel (b, e, k) hg) with b e k hg
  sim_call (write_sim' c fuel w1 x1 A1 (b, e, k) hg h1) with b e k hg
  sim_call (space_sim c hc fuel (b, e, k) hg) with b e k hg
  sim_call (write_sim' c fuel w2 x2 A2 (b, e, k) hg h2) with b e k hg
  sim_call (space_sim c hc fuel (b, e, k) hg) with b e k hg
  sim_call (write_sim' c fuel w3 x3 A3 (b, e, k) hg h3) with b e k hg
  sim_call (space_sim c hc fuel (b, e, k) hg) with b e k hg
  sim_call (write_sim' c fuel w4 x4 A4 (b, e, k) hg h4) with b e k hg
  exact ⟨hg, rfl⟩

theorem tuple6_write_sim (c : Cfg) (hc : c.buf < 2 ^ 63) (fuel : Nat) {T0 T1 T2 T3 T4 T5 : Type} (w0 : Writable_write T0) (w1 : Writable_write T1) (w2 : Writable_write T2) (w3 : Writable_write T3) (w4 : Writable_write T4) (w5 : Writable_write T5)
    (x0 : T0) (x1 : T1) (x2 : T2) (x3 : T3) (x4 : T4) (x5 : T5) (A0 A1 A2 A3 A4 A5 : List Act)
    (h0 : ∀ st, Wf c st → Sim c (w0 fuel c.dbg x0 st.1 st.2.1 st.2.2) (runActs c A0 (abs st)))
    (h1 : ∀ st, Wf c st → Sim c (w1 fuel c.dbg x1 st.1 st.2.1 st.2.2) (runActs c A1 (abs st)))
    (h2 : ∀ st, Wf c st → Sim c (w2 fuel c.dbg x2 st.1 st.2.1 st.2.2) (runActs c A2 (abs st)))
    (h3 : ∀ st, Wf c st → Sim c (w3 fuel c.dbg x3 st.1 st.2.1 st.2.2) (runActs c A3 (abs st)))
    (h4 : ∀ st, Wf c st → Sim c (w4 fuel c.dbg x4 st.1 st.2.1 st.2.2) (runActs c A4 (abs st)))
    (h5 : ∀ st, Wf c st → Sim c (w5 fuel c.dbg x5 st.1 st.2.1 st.2.2) (runActs c A5 (abs st)))
    (st : St) (hg : Wf c st) :
    Sim c (tuple6_write w0 w1 w2 w3 w4 w5 fuel c.dbg (x0, x1, x2, x3, x4, x5) st.1 st.2.1 st.2.2) (runActs c (seqActs id true [A0, A1, A2, A3, A4, A5]) (abs st)) := by
  obtain ⟨b, e, k⟩ := st
  simp only [tuple6_write, seqActs, id, if_true, if_false, List.nil_append, Bool.false_eq_true, run_wr, runActs_append c (writeCharActs 32)]
  sim_call (write_sim' c fuel w0 x0 A0 (b, e, k) hg h0) with b e k hg
  sim_call (space_sim c hc fuel (b, e, k) hg) with b e k hg
  sim_call (write_sim' c fuel w1 x1 A1 (b, e, k) hg h1) with b e k hg
  sim_call (space_sim c hc fuel (b, e, k) hg) with b e k hg
  sim_call (write_sim' c fuel w2 x2 A2 (b, e, k) hg h2) with b e k hg
  sim_call (space_sim c hc fuel (b, e, k) hg) with b e k hg
  sim_call (write_sim' c fuel w3 x3 A3 (b, e, k) hg h3) with b e k hg
  sim_call (space_sim c hc fuel (b, e, k) hg) with b e k hg
  sim_call (write_sim' c fuel w4 x4 A4 (b, e, k) hg h4) with b e k hg
  sim_call (space_sim c hc fuel (b, e, k) hg) with b e k hg
  sim_call (write_sim' c fuel w5 x5 A5 (b, e, k) hg h5) with b e k hg
  exact ⟨hg, rfl⟩

theorem tuple7_write_sim (c : Cfg) (hc : c.buf < 2 ^ 63) (fuel : Nat) {T0 T1 T2 T3 T4 T5 T6 : Type} (w0 : Writable_write T0) (w1 : Writable_write T1) (w2 : Writable_write T2) (w3 : Writable_write T3) (w4 : Writable_write T4) (w5 : Writable_write T5) (w6 : Writable_write T6)
    (x0 : T0) (x1 : T1) (x2 : T2) (x3 : T3) (x4 : T4) (x5 : T5) (x6 : T6) (A0 A1 A2 A3 A4 A5 A6 : List Act)
    (h0 : ∀ st, Wf c st → Sim c (w0 fuel c.dbg x0 st.1 st.2.1 st.2.2) (runActs c A0 (abs st)))
    (h1 : ∀ st, Wf c st → Sim c (w1 fuel c.dbg x1 st.1 st.2.1 st.2.2) (runActs c A1 (abs st)))
    (h2 : ∀ st, Wf c st → Sim c (w2 fuel c.dbg x2 st.1 st.2.1 st.2.2) (runActs c A2 (abs st)))
    (h3 : ∀ st, Wf c st → Sim c (w3 fuel c.dbg x3 st.1 st.2.1 st.2.2) (runActs c A3 (abs st)))
    (h4 : ∀ st, Wf c st → Sim c (w4 fuel c.dbg x4 st.1 st.2.1 st.2.2) (runActs c A4 (abs st)))
    (h5 : ∀ st, Wf c st → Sim c (w5 fuel c.dbg x5 st.1 st.2.1 st.2.2) (runActs c A5 (abs st)))
    (h6 : ∀ st, Wf c st → Sim c (w6 fuel c.dbg x6 st.1 st.2.1 st.2.2) (runActs c A6 (abs st)))
    (st : St) (hg : Wf c st) :
    Sim c (tuple7_write w0 w1 w2 w3 w4 w5 w6 fuel c.dbg (x0, x1, x2, x3, x4, x5, x6) st.1 st.2.1 st.2.2) (runActs c (seqActs id true [A0, A1, A2, A3, A4, A5, A6]) (abs st)) := by
  obtain ⟨b, e, k⟩ := st
  simp only [tuple7_write, seqActs, id, if_true, if_false, List.nil_append, Bool.false_eq_true, run_wr, runActs_append c (writeCharActs 32)]
  sim_call (write_sim' c fuel w0 x0 A0 (b, e, k) hg h0) with b e k hg
  sim_call (space_sim c hc fuel (b, e, k) hg) with b e k hg
  sim_call (write_sim' c fuel w1 x1 A1 (b, e, k) hg h1) with b e k hg
  sim_call (space_sim c hc fuel (b, e, k) hg) with b e k hg
  sim_call (write_sim' c fuel w2 x2 A2 (b, e, k) hg h2) with b e k hg
  sim_call (space_sim c hc fuel (b, e, k) hg) with b e k hg
  sim_call (write_sim' c fuel w3 x3 A3 (b, e, k) hg h3) with b e k hg
  sim_call (space_sim c hc fuel (b, e, k) hg) with b e k hg
  sim_call (write_sim' c fuel w4 x4 A4 (b, e, k) hg h4) with b e k hg
  sim_call (space_sim c hc fuel (b, e, k) hg) with b e k hg
  sim_call (write_sim' c fuel w5 x5 A5 (b, e, k) hg h5) with b e k hg
  sim_call (space_sim c hc fuel (b, e, k) hg) with b e k hg
  sim_call (write_sim' c fuel w6 x6 A6 (b, e, k) hg h6) with b e k hg
  exact ⟨hg, rfl⟩

theorem tuple8_write_sim (c : Cfg) (hc : c.buf < 2 ^ 63) (fuel : Nat) {T0 T1 T2 T3 T4 T5 T6 T7 : Type} (w0 : Writable_write T0) (w1 : Writable_write T1) (w2 : Writable_write T2) (w3 : Writable_write T3) (w4 : Writable_write T4) (w5 : Writable_write T5) (w6 : Writable_write T6) (w7 : Writable_write T7)
    (x0 : T0) (x1 : T1) (x2 : T2) (x3 : T3) (x4 : T4) (x5 : T5) (x6 : T6) (x7 : T7) (A0 A1 A2 A3 A4 A5 A6 A7 : List Act)
    (h0 : ∀ st, Wf c st → Sim c (w0 fuel c.dbg x0 st.1 st.2.1 st.2.2) (runActs c A0 (abs st)))
    (h1 : ∀ st, Wf c st → Sim c (w1 fuel c.dbg x1 st.1 st.2.1 st.2.2) (runActs c A1 (abs st)))
    (h2 : ∀ st, Wf c st → Sim c (w2 fuel c.dbg x2 st.1 st.2.1 st.2.2) (runActs c A2 (abs st)))
    (h3 : ∀ st, Wf c st → Sim c (w3 fuel c.dbg x3 st.1 st.2.1 st.2.2) (runActs c A3 (abs st)))
    (h4 : ∀ st, Wf c st → Sim c (w4 fuel c.dbg x4 st.1 st.2.1 st.2.2) (runActs c A4 (abs st)))
    (h5 : ∀ st, Wf c st → Sim c (w5 fuel c.dbg x5 st.1 st.2.1 st.2.2) (runActs c A5 (abs st)))
    (h6 : ∀ st, Wf c st → Sim c (w6 fuel c.dbg x6 st.1 st.2.1 st.2.2) (runActs c A6 (abs st)))
    (h7 : ∀ st, Wf c st → Sim c (w7 fuel c.dbg x7 st.1 st.2.1 st.2.2) (runActs c A7 (abs st)))
    (st : St) (hg : Wf c st) :
    Sim c (tuple8_write w0 w1 w2 w3 w4 w5 w6 w7 fuel c.dbg (x0, x1, x2, x3, x4, x5, x6, x7) st.1 st.2.1 st.2.2) (runActs c (seqActs id true [A0, A1, A2, A3, A4, A5, A6, A7]) (abs st)) := by
  obtain ⟨b, e, k⟩ := st
  simp only [tuple8_write, seqActs, id, if_true, if_false, List.nil_append, Bool.false_eq_true, run_wr, runActs_append c (writeCharActs 32)]
  sim_call (write_sim' c fuel w0 x0 A0 (b, e, k) hg h0) with b e k hg
  sim_call (space_sim c hc fuel (b, e, k) hg) with b e k hg
  sim_call (write_sim' c fuel w1 x1 A1 (b, e, k) hg h1) with b e k hg
  sim_call (space_sim c hc fuel (b, e, k) hg) with b e k hg
  sim_call (write_sim' c fuel w2 x2 A2 (b, e, k) hg h2) with b e k hg
  sim_call (space_sim c hc fuel (b, e, k) hg) with b e k hg
  sim_call (write_sim' c fuel w3 x3 A3 (b, e, k) hg h3) with b e k hg
  sim_call (space_sim c hc fuel (b, e, k) hg) with b e k hg
  sim_call (write_sim' c fuel w4 x4 A4 (b, e, k) hg h4) with b e k hg
  sim_call (space_sim c hc fuel (b, e, k) hg) with b e k hg
  sim_call (write_sim' c fuel w5 x5 A5 (b, e, k) hg h5) with b e k hg
  sim_call (space_sim c hc fuel (b, e, k) hg) with b e k hg
  sim_call (write_sim' c fuel w6 x6 A6 (b, e, k) hg h6) with b e k hg
  sim_call (space_sim c hc fuel (b, e, k) hg) with b e k hg
  sim_call (write_sim' c fuel w7 x7 A7 (b, e, k) hg h7) with b e k hg
  exact ⟨hg, rfl⟩

/-! ### strings -/

theorem str_write_sim (c : Cfg) (hc : c.buf < 2 ^ 63) (hB : BUF_SIZE < 2 ^ 63) (fuel : Nat) (s : Array UInt8) (hf : s.size + 1 ≤ fuel)
    (st : St) (hg : Wf c st) :
    Sim c (str_write fuel c.dbg s st.1 st.2.1 st.2.2) (runActs c (chunkActs BUF_SIZE ⟨s⟩ 0) (abs st)) := by
  obtain ⟨b, e, k⟩ := st
  by_cases h0 : BUF_SIZE = 0
  · rw [chunkActs, dif_pos h0]
    simp only [str_write, chunks, h0, if_true, runActs, step]
    exact Sim.error _ _
  · have := str_write_loop0_sim c hc s BUF_SIZE h0 hB fuel 0 (b, e, k) hg (by omega)
    simp only [Array.extract_size] at this
    simp only [str_write, chunks, h0, if_false]
    sim_call this with b1 e1 k1 hw1
    exact ⟨hw1, rfl⟩
theorem String_write_loop0_sim (c : Cfg) (hc : c.buf < 2 ^ 63) (s : Array UInt8) (n : Nat) (hn : n ≠ 0) (hn2 : n < 2 ^ 63) :
    ∀ (fuel off : Nat) (st : St), Wf c st → (s.size - off) + 1 ≤ fuel →
      Sim c (String_write_loop0 fuel c.dbg ⟨s.extract off s.size, n⟩ st.1 st.2.1 st.2.2) (runActs c (chunkActs n ⟨s⟩ off) (abs st)) := by
  intro fuel
  induction fuel with
  | zero => intro off st _ h; omega
  | succ fuel ih =>
    intro off st hg hf
    obtain ⟨b, e, k⟩ := st
    rw [chunkActs, dif_neg hn]
    by_cases ho : off < s.size
    · have hsize : (s.extract off s.size).size = s.size - off := by simp
      have hsz : (s.extract off s.size).size ≠ 0 := by omega
      have hpos : off < (ByteArray.mk s).size := ho
      simp only [String_write_loop0, Chunks.next, hsz, if_false, hpos, if_true, Array.extract_extract, mk_extract, ByteArray.size]
      simp only [hsize, Nat.add_zero, ho, if_true, runActs, step]
      have e1 : min (off + min (s.size - off) n) s.size = min (off + n) s.size := by omega
      have e2 : off + min (s.size - off) n = min (off + n) s.size := by omega
      have e3 : min (off + (s.size - off)) s.size = s.size := by omega
      have e4 : min (min (off + n) s.size) s.size = min (off + n) s.size := by omega
      simp only [e1, e2, e3, e4]
      sim_call (write_bytes_sim c hc fuel c.dbg b e k (s.extract off (min (off + n) s.size)) (by simp; omega) hg) with b1 e1 k1 hw1
      have := ih (off + n) (b1, e1, k1) hw1 (by omega)
      by_cases hlt : off + n ≤ s.size
      · rw [Nat.min_eq_left hlt]; exact this
      · have hz : ∀ a, a ≥ s.size → s.extract a s.size = #[] := by intro a ha; simp; omega
        rw [hz _ (by omega)] at this
        rw [Nat.min_eq_right (by omega), hz _ (by omega)]
        exact this
    · have hsz : (s.extract off s.size).size = 0 := by simp; omega
      have hpos : ¬ off < (ByteArray.mk s).size := ho
      simp only [String_write_loop0, Chunks.next, hsz, if_true, hpos, if_false, runActs]
      exact ⟨hg, rfl⟩



theorem String_write_sim (c : Cfg) (hc : c.buf < 2 ^ 63) (hB : BUF_SIZE < 2 ^ 63) (fuel : Nat) (s : Array UInt8) (hf : s.size + 1 ≤ fuel)
    (st : St) (hg : Wf c st) :
    Sim c (String_write fuel c.dbg s st.1 st.2.1 st.2.2) (runActs c (chunkActs BUF_SIZE ⟨s⟩ 0) (abs st)) := by
  obtain ⟨b, e, k⟩ := st
  by_cases h0 : BUF_SIZE = 0
  · rw [chunkActs, dif_pos h0]
    simp only [String_write, chunks, h0, if_true, runActs, step]
    exact Sim.error _ _
  · have := String_write_loop0_sim c hc s BUF_SIZE h0 hB fuel 0 (b, e, k) hg (by omega)
    simp only [Array.extract_size] at this
    simp only [String_write, chunks, h0, if_false]
    sim_call this with b1 e1 k1 hw1
    exact ⟨hw1, rfl⟩

/-! ### `new`, the constant, the macro invocations -/

theorem buf_size_bound : BUF_SIZE < 2 ^ 63 ∧ 39 ≤ BUF_SIZE := by decide

theorem new_eq (fuel : Nat) (dbg : Bool) (k : Sink) :
    new fuel dbg k = .ok (Array.replicate BUF_SIZE 0, 0, k) ∧ Wf ⟨BUF_SIZE, dbg⟩ (Array.replicate BUF_SIZE 0, 0, k) ∧
      abs (Array.replicate BUF_SIZE 0, 0, k) = ⟨ByteArray.empty, k.data, k.calls⟩ := by
  refine ⟨rfl, ⟨by simp, by simp⟩, ?_⟩
  simp [abs]
  rfl

/-- the instance of `Writable` rustc picks for the integer type `t`: `write_signed!` was invoked for the signed types, `write_unsigned!` for the unsigned ones -/
def intWriter (t : IntTy) : Writable_write Int := if t.signed then write_signed t else write_unsigned t

theorem ndig_le_39 {n : Nat} (h : n < 2 ^ 128) : ndig n ≤ 39 := by
  have := ndig_le_base10len h
  rw [base10len_128] at this
  exact this

theorem intWriter_sim (c : Cfg) (hc : c.buf < 2 ^ 63) (t : IntTy) (v : Int) (hv : (Val.int t v).valid = true) (fuel : Nat) (hf : 40 ≤ fuel)
    (st : St) (hg : Wf c st) :
    Sim c (intWriter t fuel c.dbg v st.1 st.2.1 st.2.2) (runActs c (acts c.buf (.int t v)) (abs st)) := by
  have hv' := hv
  simp only [Val.valid, Bool.and_eq_true, Bool.or_eq_true, beq_iff_eq] at hv'
  obtain ⟨hbits, hfit⟩ := hv'
  have hb1 : 1 ≤ t.bits := by omega
  have hb2 : t.bits ≤ 128 := by omega
  obtain ⟨hlt, hnn⟩ := natAbs_lt_of_fits hb1 hfit
  have hp : (2 : Nat) ^ t.bits ≤ 2 ^ 128 := Nat.pow_le_pow_right (by omega) hb2
  have hnd : ndig v.natAbs < fuel := by have := ndig_le_39 (n := v.natAbs) (by omega); omega
  simp only [intWriter, acts]
  cases hs : t.signed with
  | true =>
    simp only [if_true]
    exact write_signed_sim c hc t hb1 hb2 fuel v hfit hnd st hg
  | false =>
    have h0 := hnn hs
    have e1 : ((v.toNat : Nat) : Int) = v := by omega
    have e2 : v.toNat = v.natAbs := by omega
    have hmax : ((v.toNat : Nat) : Int) ≤ t.maxVal := by
      rw [e1]; simp only [IntTy.fits, Bool.and_eq_true, decide_eq_true_eq] at hfit; exact hfit.2
    have := write_unsigned_sim c hc t hb2 fuel v.toNat hmax (by rw [e2]; exact hnd) st hg
    rw [e1] at this
    simpa using this

/-! ### scripts of calls on the regenerated definitions -/

/-- a call a user makes on the writer (a sample of the `Writable` instances: integers of the twelve types, `&str`, `String`, `Vec` of
    integers, a pair of integers), `write_char`, `flush` -/
inductive SOp where
  | int (t : IntTy) (v : Int)
  | str (s : Array UInt8)
  | string (s : Array UInt8)
  | ints (t : IntTy) (vs : Array Int)
  | pair (t u : IntTy) (a b : Int)
  | chr (code : Nat)
  | flush

/-- … executed with the regenerated functions -/
def SOp.run (fuel : Nat) (dbg : Bool) : SOp → Array UInt8 → Nat → Sink → Except Panic St
  | .int t v, b, e, k => write (intWriter t) fuel dbg b e k v
  | .str s, b, e, k => write str_write fuel dbg b e k s
  | .string s, b, e, k => write String_write fuel dbg b e k s
  | .ints t vs, b, e, k => write (Vec_write (intWriter t)) fuel dbg b e k vs
  | .pair t u x y, b, e, k => write (tuple2_write (intWriter t) (intWriter u)) fuel dbg b e k (x, y)
  | .chr code, b, e, k => write_char fuel dbg b e k code
  | .flush, b, e, k => Rlib.WriterSrc.flush fuel dbg b e k

/-- … and the operation of the hand-written model it corresponds to -/
def SOp.toOp : SOp → Op
  | .int t v => .write (.int t v)
  | .str s => .write (.str ⟨s⟩)
  | .string s => .write (.str ⟨s⟩)
  | .ints t vs => .write (.seq false (vs.toList.map (Val.int t)))
  | .pair t u x y => .write (.seq true [.int t x, .int u y])
  | .chr code => .wchar code
  | .flush => .flush

/-- fuel that suffices for one call: 40 rounds for a digit loop, one round per chunk / element -/
def SOp.need : SOp → Nat
  | .int _ _ => 41
  | .str s => s.size + 2
  | .string s => s.size + 2
  | .ints _ vs => vs.size + 44
  | .pair _ _ _ _ => 43
  | .chr _ => 1
  | .flush => 1

def runSrc (fuel : Nat) (dbg : Bool) : List SOp → St → Except Panic St
  | [], st => .ok st
  | o :: os, st =>
    match o.run fuel dbg st.1 st.2.1 st.2.2 with
    | .ok st' => runSrc fuel dbg os st'
    | .error e => .error e

theorem seqActs_map {T U : Type} (f : T → U) (g : U → List Act) : ∀ (first : Bool) (l : List T),
    seqActs g first (l.map f) = seqActs (fun x => g (f x)) first l := by
  intro first l
  induction l generalizing first with
  | nil => rfl
  | cons x xs ih => simp only [List.map, seqActs, ih]

theorem validList_map_int (t : IntTy) : ∀ (l : List Int), Val.validList (l.map (Val.int t)) = true → ∀ v ∈ l, (Val.int t v).valid = true := by
  intro l
  induction l with
  | nil => intro _ v hv; simp at hv
  | cons x xs ih =>
    intro h v hv
    simp only [List.map, Val.validList, Bool.and_eq_true] at h
    rcases List.mem_cons.mp hv with rfl | hm
    · exact h.1
    · exact ih h.2 v hm

theorem SOp.run_sim (c : Cfg) (hc : c.buf < 2 ^ 63) (hB : c.buf = BUF_SIZE) (o : SOp) (hv : o.toOp.valid = true) (fuel : Nat) (hf : o.need ≤ fuel)
    (st : St) (hg : Wf c st) :
    Sim c (o.run fuel c.dbg st.1 st.2.1 st.2.2) (runOp c (abs st) o.toOp) := by
  have hB2 : BUF_SIZE < 2 ^ 63 := by omega
  cases o with
  | int t v =>
    simp only [SOp.toOp, Op.valid, SOp.need] at hv hf
    simp only [SOp.run, SOp.toOp, runOp, opActs]
    exact write_sim c fuel _ v _ st hg (fun st' h' => intWriter_sim c hc t v hv fuel (by omega) st' h')
  | str s =>
    simp only [SOp.need] at hf
    simp only [SOp.run, SOp.toOp, runOp, opActs, acts, hB]
    exact write_sim c fuel _ s _ st hg (fun st' h' => str_write_sim c hc hB2 fuel s (by omega) st' h')
  | string s =>
    simp only [SOp.need] at hf
    simp only [SOp.run, SOp.toOp, runOp, opActs, acts, hB]
    exact write_sim c fuel _ s _ st hg (fun st' h' => String_write_sim c hc hB2 fuel s (by omega) st' h')
  | ints t vs =>
    simp only [SOp.toOp, Op.valid, Val.valid, SOp.need] at hv hf
    have hel := validList_map_int t vs.toList hv
    simp only [SOp.run, SOp.toOp, runOp, opActs, acts, actsSeq_eq, seqActs_map]
    refine write_sim c fuel _ vs _ st hg (fun st' h' => ?_)
    exact Vec_write_sim c hc (intWriter t) (fun v => acts c.buf (.int t v)) 40 vs
      (fun fuel' hf' x hx st'' h'' => intWriter_sim c hc t x (hel x (by simpa using hx)) fuel' hf' st'' h'') fuel (by omega) st' h'
  | pair t u x y =>
    simp only [SOp.need] at hf
    have hv : (Val.int t x).valid = true ∧ (Val.int u y).valid = true := by
      simpa [SOp.toOp, Op.valid, Val.valid, Val.validList] using hv
    simp only [SOp.run, SOp.toOp, runOp, opActs, acts, actsSeq_eq]
    refine write_sim c fuel _ (x, y) _ st hg (fun st' h' => ?_)
    have := tuple2_write_sim c hc fuel (intWriter t) (intWriter u) x y (acts c.buf (.int t x)) (acts c.buf (.int u y))
      (fun s1 h1 => intWriter_sim c hc t x hv.1 fuel (by omega) s1 h1) (fun s1 h1 => intWriter_sim c hc u y hv.2 fuel (by omega) s1 h1) st' h'
    simpa [seqActs] using this
  | chr code =>
    simp only [SOp.run, SOp.toOp, runOp, opActs]
    exact write_char_sim c hc fuel st code hg
  | flush =>
    obtain ⟨b, e, k⟩ := st
    simp only [SOp.run, SOp.toOp, runOp, opActs, runActs, step]
    sim_call (flush_sim c fuel c.dbg b e k hg) with b1 e1 k1 hw1
    exact ⟨hw1, rfl⟩

theorem runSrc_sim (c : Cfg) (hc : c.buf < 2 ^ 63) (hB : c.buf = BUF_SIZE) (fuel : Nat) : ∀ (ops : List SOp),
    Op.validAll (ops.map SOp.toOp) = true → (∀ o ∈ ops, o.need ≤ fuel) → ∀ (st : St), Wf c st →
    Sim c (runSrc fuel c.dbg ops st) (runOps c (ops.map SOp.toOp) (abs st)) := by
  intro ops
  induction ops with
  | nil => intro _ _ st hg; exact ⟨hg, rfl⟩
  | cons o os ih =>
    intro hv hf st hg
    simp only [List.map, Op.validAll, Bool.and_eq_true] at hv
    simp only [runSrc, List.map, runOps]
    rcases Sim.cases (SOp.run_sim c hc hB o hv.1 fuel (hf o (by simp)) st hg) with ⟨p, h1, h2⟩ | ⟨st', h1, hw, h2⟩
    · simp only [h1, h2]; exact Sim.error _ _
    · simp only [h1, h2]
      exact ih hv.2 (fun o' ho' => hf o' (by simp [ho'])) st' hw
end Rlib.WriterSrc
