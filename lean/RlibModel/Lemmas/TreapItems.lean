import RlibModel.Model.TreapItems
import Mathlib.Tactic.Ring
/-!
The two items the correspondence harness runs are lawful (obligations of C03): the theorems of
C03 therefore apply to exactly the items the implementation is compared on. Neither the monoid
of `affHash` nor its modifiers commute.
-/
namespace Rlib.Treap

theorem sumAdd_lawful' : Lawful sumAdd where
  mul_assoc a b c := by simp only [sumAdd]; ext <;> simp <;> omega
  one_mul a := by simp [sumAdd]
  mul_one a := by simp [sumAdd]
  new_sz v := rfl
  new_agg v := rfl
  paG_one x := by simp [sumAdd]
  paG_mul x g h := by simp only [sumAdd]; ext <;> simp; ring
  paG_inj x e := by simp [sumAdd]
  actG_one m := by simp [sumAdd]
  actG_mul m g h := by simp only [sumAdd]; ext <;> simp; ring
  actG_inj m e := by simp [sumAdd]
  update_own x l r := rfl
  update_pa x l r a := rfl
  update_sz x l r := by cases l <;> cases r <;> simp [sumAdd] <;> omega
  update_agg x l r := by cases l <;> cases r <;> simp [sumAdd] <;> omega
  push_own0 p l r := rfl
  push_pa0 p l r a := by simp [sumAdd]
  push_sz0 p l r := rfl
  push_agg0 p l r := rfl
  push_l p l r := ⟨SumIt.modify p.md l, rfl, by simp [sumAdd, SumIt.modify], by intro a; simp [sumAdd, SumIt.modify]; omega,
    rfl, by simp [sumAdd, SumIt.modify]⟩
  push_r p l r := ⟨SumIt.modify p.md r, by simp [sumAdd], by simp [sumAdd, SumIt.modify], by intro a; simp [sumAdd, SumIt.modify]; omega,
    rfl, by simp [sumAdd, SumIt.modify]⟩
  tag_own m x := by simp [sumAdd, SumIt.modify]
  tag_pa m x a := by simp [sumAdd, SumIt.modify]; omega
  tag_sz m x := rfl
  tag_agg m x := by simp [sumAdd, SumIt.modify]

theorem hashMul_assoc (a b c : Int × Int) : hashMul (hashMul a b) c = hashMul a (hashMul b c) := by
  simp only [hashMul]; ext <;> simp <;> ring

theorem affHash_lawful' : Lawful affHash where
  mul_assoc := hashMul_assoc
  one_mul a := by simp [affHash, hashMul]
  mul_one a := by simp [affHash, hashMul]
  new_sz v := rfl
  new_agg v := rfl
  paG_one x := by simp [affHash]
  paG_mul x g h := by simp only [affHash, hashMul]; ext <;> simp; ring
  paG_inj x e := by simp [affHash]
  actG_one m := by simp [affHash]
  actG_mul m g h := by simp only [affHash, hashMul]; ext <;> simp; ring
  actG_inj m e := by simp [affHash]
  update_own x l r := rfl
  update_pa x l r a := rfl
  update_sz x l r := by cases l <;> cases r <;> simp [affHash] <;> omega
  update_agg x l r := by cases l <;> cases r <;> simp [affHash]
  push_own0 p l r := rfl
  push_pa0 p l r a := by simp [affHash]
  push_sz0 p l r := rfl
  push_agg0 p l r := rfl
  push_l p l r := ⟨AffIt.modify (p.ma, p.mb) l, rfl, by simp [affHash, AffIt.modify],
    by intro a; simp [affHash, AffIt.modify]; ring, rfl, by simp [affHash, AffIt.modify]⟩
  push_r p l r := ⟨AffIt.modify (p.ma, p.mb) r, by simp [affHash], by simp [affHash, AffIt.modify],
    by intro a; simp [affHash, AffIt.modify]; ring, rfl, by simp [affHash, AffIt.modify]⟩
  tag_own m x := by simp [affHash, AffIt.modify]
  tag_pa m x a := by simp [affHash, AffIt.modify]; ring
  tag_sz m x := rfl
  tag_agg m x := by simp [affHash, AffIt.modify]

theorem keyOnly_lawful' : Lawful keyOnly where
  mul_assoc a b c := rfl
  one_mul a := rfl
  mul_one a := rfl
  new_sz v := rfl
  new_agg v := rfl
  paG_one x := rfl
  paG_mul x g h := rfl
  paG_inj x e := rfl
  actG_one m := rfl
  actG_mul m g h := rfl
  actG_inj m e := rfl
  update_own x l r := rfl
  update_pa x l r a := rfl
  update_sz x l r := by cases l <;> cases r <;> simp [keyOnly] <;> omega
  update_agg x l r := rfl
  push_own0 p l r := rfl
  push_pa0 p l r a := rfl
  push_sz0 p l r := rfl
  push_agg0 p l r := rfl
  push_l p l r := ⟨l, rfl, rfl, fun _ => rfl, rfl, rfl⟩
  push_r p l r := ⟨r, rfl, rfl, fun _ => rfl, rfl, rfl⟩
  tag_own m x := rfl
  tag_pa m x a := rfl
  tag_sz m x := rfl
  tag_agg m x := rfl

end Rlib.Treap
