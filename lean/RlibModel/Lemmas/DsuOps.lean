import RlibModel.Lemmas.Dsu
/-!
C05 helper lemmas, part 2: `new` / `reset` establish the invariant, linking two roots preserves it
(union by size: rank bump), and the results of `un` / `check` / `size`.
-/
namespace Rlib.Dsu

/-! ### new, reset -/

theorem get_range (n i : Nat) : get (Array.range n) i = if i < n then i else 0 := by
  unfold get
  rw [Array.getD_eq_getD_getElem?, Array.getElem?_range]
  split <;> rfl

theorem get_replicate (n v i : Nat) : get (Array.replicate n v) i = if i < n then v else 0 := by
  unfold get
  rw [Array.getD_eq_getD_getElem?, Array.getElem?_replicate]
  split <;> rfl

theorem inv_new_rank (n : Nat) : InvR (new n) n (fun _ => 0) := by
  have hp : ∀ v, v < n → get (new n).p v = v := by
    intro v hv; show get (Array.range n) v = v; rw [get_range, if_pos hv]
  constructor
  · simp [new]
  · simp [new]
  · intro v hv; rw [hp v hv]; exact hv
  · intro v hv hne; exact absurd (hp v hv) hne
  · intro r hr _
    show 2 ^ 0 ≤ get (Array.replicate n 1) r
    rw [get_replicate, if_pos hr]
  · intro r hr hroot
    refine ⟨[r], by simp, fun x => ?_, ?_⟩
    · simp only [List.mem_singleton]
      constructor
      · rintro rfl; exact ⟨hr, Reach.root hroot⟩
      · rintro ⟨hx, hxr⟩; exact (Reach.of_root (hp x hx) hxr).symm
    · show get (Array.replicate n 1) r = 1
      rw [get_replicate, if_pos hr]

theorem fillWith_aux (f : Nat → Nat) (a : Array Nat) : ∀ k,
    ((List.range k).foldl (fun a i => a.setIfInBounds i (f i)) a).size = a.size ∧
    ∀ i, ((List.range k).foldl (fun a i => a.setIfInBounds i (f i)) a)[i]? =
      if i < k ∧ i < a.size then some (f i) else a[i]? := by
  intro k
  induction k with
  | zero => simp
  | succ k ih =>
    obtain ⟨h1, h2⟩ := ih
    rw [List.range_succ, List.foldl_append]
    simp only [List.foldl_cons, List.foldl_nil]
    refine ⟨by rw [Array.size_setIfInBounds, h1], fun i => ?_⟩
    rw [Array.getElem?_setIfInBounds, h1, h2 i]
    by_cases hki : k = i
    · subst hki
      by_cases hk : k < a.size
      · simp [hk]
      · simp [hk]
    · by_cases h : i < k
      · simp [hki, h, Nat.lt_succ_of_lt h]
      · have : ¬ i < k + 1 := by omega
        simp [hki, h, this]

theorem size_resize (a : Array Nat) (n d : Nat) : (resize a n d).size = n := by
  unfold resize
  split
  · rw [Array.size_append, Array.size_replicate]; omega
  · simp; omega

theorem fillWith_eq (f : Nat → Nat) (a : Array Nat) (n : Nat) (h : a.size = n) :
    fillWith a n f = (Array.range n).map f := by
  apply Array.ext_getElem?
  intro i
  unfold fillWith
  rw [(fillWith_aux f a n).2 i, h]
  by_cases hi : i < n
  · simp [hi]
  · simp [hi, Array.getElem?_eq_none (by rw [h]; omega : a.size ≤ i)]

/-- `reset(n)` leaves exactly the state `DSU::new(n)`, whatever was there before (growing or shrinking). -/
theorem reset_eq_new (s : S) (n : Nat) : reset s n = new n := by
  unfold reset new
  rw [fillWith_eq _ _ n (size_resize _ _ _), fillWith_eq _ _ n (size_resize _ _ _)]
  congr 1
  · apply Array.ext_getElem?; intro i; simp
  · apply Array.ext_getElem?; intro i
    by_cases hi : i < n <;> simp [hi]

/-! ### linking a root below another root -/

/-- state after `p[a] = b; sz[b] += sz[a]` -/
def link (s : S) (a b : Nat) (ha : a < s.p.size) (hb : b < s.sz.size) : S :=
  ⟨s.p.set a b ha, s.sz.set b (get s.sz b + get s.sz a) hb⟩

/-- where each vertex's root goes when root `a` is hung below root `b` -/
theorem link_reach {s : S} {n : Nat} {rank : Nat → Nat} (hi : InvR s n rank) {a b : Nat}
    (hroota : get s.p a = a) (hrootb : get s.p b = b) (hab : a ≠ b)
    (ha : a < s.p.size) :
    ∀ x q, x < n → Reach s.p x q → Reach (s.p.set a b ha) x (if q = a then b else q) := by
  intro x q hx hxq
  have hb' : get (s.p.set a b ha) b = b := by rw [get_set, if_neg hab]; exact hrootb
  induction hxq with
  | @root w hw =>
    by_cases hwa : w = a
    · subst hwa
      rw [if_pos rfl]
      exact Reach.step (by rw [get_set, if_pos rfl]; exact Ne.symm hab)
        (by rw [get_set, if_pos rfl]; exact Reach.root hb')
    · rw [if_neg hwa]
      exact Reach.root (by rw [get_set, if_neg (Ne.symm hwa)]; exact hw)
  | @step w q hne _ ih =>
    have hwa : w ≠ a := fun e => hne (e ▸ hroota)
    have e : get (s.p.set a b ha) w = get s.p w := by rw [get_set, if_neg (Ne.symm hwa)]
    exact Reach.step (by rw [e]; exact hne) (by rw [e]; exact ih (hi.bound w hx))

theorem link_inv {s : S} {n : Nat} {rank : Nat → Nat} (hi : InvR s n rank) {a b : Nat}
    (han : a < n) (hbn : b < n)
    (hroota : get s.p a = a) (hrootb : get s.p b = b) (hab : a ≠ b)
    (hsz : get s.sz a ≤ get s.sz b)
    (ha : a < s.p.size) (hb : b < s.sz.size) :
    InvR (link s a b ha hb) n (fun x => if x = b then max (rank b) (rank a + 1) else rank x) := by
  have hreach := link_reach hi hroota hrootb hab ha
  have hge : ∀ x, rank x ≤ (fun x => if x = b then max (rank b) (rank a + 1) else rank x) x := by
    intro x; simp only; split
    · rename_i h; subst h; omega
    · omega
  have hp' : ∀ x, get (link s a b ha hb).p x = if a = x then b else get s.p x := by
    intro x; show get (s.p.set a b ha) x = _; rw [get_set]
  have hsz' : ∀ x, get (link s a b ha hb).sz x = if b = x then get s.sz b + get s.sz a else get s.sz x := by
    intro x; show get (s.sz.set b _ hb) x = _; rw [get_set]
  -- roots of the new forest: old roots other than a
  have hroot_old : ∀ q, get (link s a b ha hb).p q = q → get s.p q = q ∧ q ≠ a := by
    intro q hq
    rw [hp'] at hq
    by_cases haq : a = q
    · rw [if_pos haq] at hq; exact absurd (hq.trans haq.symm).symm hab
    · rw [if_neg haq] at hq; exact ⟨hq, Ne.symm haq⟩
  constructor
  · show (s.p.set a b ha).size = n; simp [hi.lp]
  · show (s.sz.set b _ hb).size = n; simp [hi.ls]
  · intro v hv; rw [hp']; split
    · exact hbn
    · exact hi.bound v hv
  · intro v hv hne
    rw [hp'] at hne ⊢
    by_cases hav : a = v
    · subst hav
      show (if a = b then max (rank b) (rank a + 1) else rank a) <
        (if (if a = a then b else get s.p a) = b then max (rank b) (rank a + 1) else rank (if a = a then b else get s.p a))
      rw [if_neg hab, if_pos rfl, if_pos rfl]
      omega
    · rw [if_neg hav] at hne ⊢
      have hvb : v ≠ b := fun e => hne (e ▸ hrootb)
      have h1 := hi.mono v hv hne
      have h2 := hge (get s.p v)
      show (if v = b then max (rank b) (rank a + 1) else rank v) < _
      rw [if_neg hvb]
      exact Nat.lt_of_lt_of_le h1 h2
  · intro q hq hrq
    obtain ⟨hold, hqa⟩ := hroot_old q hrq
    rw [hsz']
    by_cases hbq : b = q
    · subst hbq
      show 2 ^ (if b = b then max (rank b) (rank a + 1) else rank b) ≤ if b = b then get s.sz b + get s.sz a else get s.sz b
      rw [if_pos rfl, if_pos rfl]
      have h1 := hi.big b hbn hrootb
      have h2 := hi.big a han hroota
      rcases Nat.le_total (rank b) (rank a + 1) with h | h
      · rw [Nat.max_eq_right h, Nat.pow_succ]; omega
      · rw [Nat.max_eq_left h]; omega
    · show 2 ^ (if q = b then max (rank b) (rank a + 1) else rank q) ≤ if b = q then get s.sz b + get s.sz a else get s.sz q
      rw [if_neg hbq, if_neg (Ne.symm hbq)]
      exact hi.big q hq hold
  · intro q hq hrq
    obtain ⟨hold, hqa⟩ := hroot_old q hrq
    by_cases hbq : b = q
    · subst hbq
      obtain ⟨ma, hnda, hmema, hlena⟩ := hi.card a han hroota
      obtain ⟨mb, hndb, hmemb, hlenb⟩ := hi.card b hbn hrootb
      refine ⟨mb ++ ma, ?_, fun x => ?_, ?_⟩
      · rw [List.nodup_append]
        refine ⟨hndb, hnda, ?_⟩
        intro x hxb y hya hxy
        subst hxy
        exact hab (Reach.det ((hmema x).mp hya).2 ((hmemb x).mp hxb).2)
      · rw [List.mem_append, hmema, hmemb]
        constructor
        · rintro (⟨hx, h⟩ | ⟨hx, h⟩)
          · have := hreach x b hx h; rw [if_neg (Ne.symm hab)] at this; exact ⟨hx, this⟩
          · have := hreach x a hx h; rw [if_pos rfl] at this; exact ⟨hx, this⟩
        · rintro ⟨hx, h⟩
          obtain ⟨⟨q0, hq0⟩, _⟩ := hi.root_exists x hx
          have h2 := hreach x q0 hx hq0
          have e := Reach.det h2 h
          by_cases hq0a : q0 = a
          · subst hq0a; exact Or.inr ⟨hx, hq0⟩
          · rw [if_neg hq0a] at e; subst e; exact Or.inl ⟨hx, hq0⟩
      · rw [hsz', if_pos rfl, List.length_append, hlena, hlenb]
    · obtain ⟨ms, hnd, hmem, hlen⟩ := hi.card q hq hold
      refine ⟨ms, hnd, fun x => ?_, ?_⟩
      · rw [hmem]
        constructor
        · rintro ⟨hx, h⟩
          have := hreach x q hx h; rw [if_neg hqa] at this; exact ⟨hx, this⟩
        · rintro ⟨hx, h⟩
          obtain ⟨⟨q0, hq0⟩, _⟩ := hi.root_exists x hx
          have h2 := hreach x q0 hx hq0
          have e := Reach.det h2 h
          by_cases hq0a : q0 = a
          · subst hq0a; rw [if_pos rfl] at e; exact absurd e hbq
          · rw [if_neg hq0a] at e; subst e; exact ⟨hx, hq0⟩
      · rw [hsz', if_neg hbq]; exact hlen

end Rlib.Dsu
