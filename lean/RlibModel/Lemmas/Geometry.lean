import RlibModel.Model.Geometry
import Mathlib.Analysis.Real.Sqrt
import Mathlib.Tactic.Linarith
import Mathlib.Tactic.Ring
import Mathlib.Tactic.LinearCombination
/-!
Helper lemmas for C10: the real-number instance of the geometry arithmetic and the plain
real-arithmetic facts behind the property theorems of `Props/C10.lean`.
-/
namespace Rlib.Geometry
open Real

/-- exact real arithmetic (`sqrt` = `Real.sqrt`, comparisons decided classically) -/
noncomputable def realGeo (eps : ℝ) : Geo ℝ where
  add := fun a b => a + b
  sub := fun a b => a - b
  mul := fun a b => a * b
  div := fun a b => a / b
  neg := fun a => -a
  sqrt := Real.sqrt
  abs := fun a => |a|
  max := fun a b => max a b
  lt := fun a b => decide (a < b)
  ne := fun a b => decide (a ≠ b)
  ofInt := fun z => (z : ℝ)
  eps := eps

/-! ### vocabulary of the specification -/

/-- `p` satisfies the line equation exactly -/
def OnLine (l : Line ℝ) (p : Point ℝ) : Prop := l.a * p.x + l.b * p.y + l.c = 0

/-- `p` satisfies the circle equation exactly -/
def OnCircle (c : Circle ℝ) (p : Point ℝ) : Prop := (p.x - c.c.x) ^ 2 + (p.y - c.c.y) ^ 2 = c.r ^ 2

/-- Euclidean distance of two points -/
noncomputable def edist (p q : Point ℝ) : ℝ := Real.sqrt ((p.x - q.x) ^ 2 + (p.y - q.y) ^ 2)

/-- the stored normal has unit length (what `Line::new` establishes, see `line_new_unit`) -/
def UnitLine (l : Line ℝ) : Prop := l.a ^ 2 + l.b ^ 2 = 1

/-- signed distance of `p` from a unit-normal line -/
def sdist (l : Line ℝ) (p : Point ℝ) : ℝ := l.a * p.x + l.b * p.y + l.c

theorem sqrt_unit {a b : ℝ} (h : a ^ 2 + b ^ 2 = 1) : Real.sqrt (a * a + b * b) = 1 := by
  have : a * a + b * b = 1 := by linear_combination h
  rw [this, Real.sqrt_one]

/-- the two-point branch of `intersect_cl` in plain real terms (ported from `spikes/GeoCircleLine.lean`):
    `o` is the unit normal after the sign flip, `sgn = ±1` selects the point. -/
theorem two_point_core (a b c cx cy r : ℝ) (hunit : a ^ 2 + b ^ 2 = 1)
    (hd : |a * cx + b * cy + c| ≤ r) (sgn : ℝ) (hs : sgn = 1 ∨ sgn = -1) :
    let sd := a * cx + b * cy + c
    let d := |sd|
    let ox := if 0 < sd then a * (-1) else a
    let oy := if 0 < sd then b * (-1) else b
    let side := Real.sqrt (max (r * r - d * d) 0)
    let px := cx + ox * d + sgn * (-oy * side)
    let py := cy + oy * d + sgn * (ox * side)
    a * px + b * py + c = 0 ∧ (px - cx) ^ 2 + (py - cy) ^ 2 = r ^ 2 := by
  intro sd d ox oy side px py
  have hdd : d ^ 2 ≤ r ^ 2 := by
    have h0 : 0 ≤ d := abs_nonneg _
    have : d ≤ r := hd
    nlinarith
  have hside : side ^ 2 = r ^ 2 - d ^ 2 := by
    simp only [side]
    rw [max_eq_left (by nlinarith), Real.sq_sqrt (by nlinarith)]
    ring
  have hsg : sgn ^ 2 = 1 := by rcases hs with rfl | rfl <;> norm_num
  by_cases hpos : 0 < sd
  · have hd' : d = sd := abs_of_pos hpos
    simp only [px, py, ox, oy, hpos, if_true]
    constructor
    · rw [hd']; simp only [sd]; linear_combination (-(a * cx + b * cy + c)) * hunit
    · linear_combination (d ^ 2 + sgn ^ 2 * side ^ 2) * hunit + side ^ 2 * hsg + hside
  · have hd' : d = -sd := abs_of_nonpos (not_lt.mp hpos)
    simp only [px, py, ox, oy, hpos, if_false]
    constructor
    · rw [hd']; simp only [sd]; linear_combination (-(a * cx + b * cy + c)) * hunit
    · linear_combination (d ^ 2 + sgn ^ 2 * side ^ 2) * hunit + side ^ 2 * hsg + hside

/-! ### normal forms of the model over the reals

Each lemma rewrites one model function, instantiated with `realGeo eps`, into ordinary real-number
notation (same branches, same formulas), so that the property proofs are plain real arithmetic. -/

/-- the unit normal of `l`, flipped so that it points from `c` towards the line -/
noncomputable def ortX (l : Line ℝ) (c : Point ℝ) : ℝ := if 0 < sdist l c then -l.a else l.a
noncomputable def ortY (l : Line ℝ) (c : Point ℝ) : ℝ := if 0 < sdist l c then -l.b else l.b
/-- half of the chord the line cuts out of the circle -/
noncomputable def halfChord (l : Line ℝ) (c : Circle ℝ) : ℝ :=
  Real.sqrt (max (c.r * c.r - |sdist l c.c| * |sdist l c.c|) 0)

theorem intersectCL_real (eps : ℝ) (c : Circle ℝ) (l : Line ℝ) (hu : UnitLine l) :
    intersectCL (realGeo eps) c l =
      if c.r + eps < |sdist l c.c| then CL.none
      else if c.r - eps < |sdist l c.c| then
        CL.touch ⟨c.c.x + ortX l c.c * |sdist l c.c|, c.c.y + ortY l c.c * |sdist l c.c|⟩
      else CL.intersect
        ⟨c.c.x + ortX l c.c * |sdist l c.c| + -ortY l c.c * halfChord l c,
         c.c.y + ortY l c.c * |sdist l c.c| + ortX l c.c * halfChord l c⟩
        ⟨c.c.x + ortX l c.c * |sdist l c.c| - -ortY l c.c * halfChord l c,
         c.c.y + ortY l c.c * |sdist l c.c| - ortX l c.c * halfChord l c⟩ := by
  have h1 : Real.sqrt (l.a * l.a + l.b * l.b) = 1 := sqrt_unit hu
  simp only [intersectCL, realGeo, lineDist, lineEval, flipToLine, len, slen, pdiv, pmul, padd, psub,
    decide_eq_true_eq, h1, ortX, ortY, halfChord, sdist, Int.cast_zero, Int.cast_neg, Int.cast_one, div_one,
    mul_neg, mul_one, ne_eq, one_ne_zero, not_false_eq_true, if_true]
  by_cases hA : c.r + eps < |l.a * c.c.x + l.b * c.c.y + l.c| <;>
  by_cases hB : c.r - eps < |l.a * c.c.x + l.b * c.c.y + l.c| <;>
  by_cases hC : 0 < l.a * c.c.x + l.b * c.c.y + l.c <;>
    simp only [hA, hB, hC, if_true, if_false]

theorem dist_real (eps : ℝ) (p q : Point ℝ) : dist (realGeo eps) p q = edist p q := by
  simp only [dist, len, slen, psub, realGeo, edist]
  congr 1; ring

theorem edist_comm (p q : Point ℝ) : edist p q = edist q p := by
  simp only [edist]; congr 1; ring

theorem edist_nonneg (p q : Point ℝ) : 0 ≤ edist p q := Real.sqrt_nonneg _

theorem edist_sq (p q : Point ℝ) : edist p q ^ 2 = (p.x - q.x) ^ 2 + (p.y - q.y) ^ 2 :=
  Real.sq_sqrt (by positivity)

/-- distance from `a.c` to the radical line, measured along the line of centres -/
noncomputable def ccH (a b : Circle ℝ) : ℝ :=
  (edist a.c b.c * edist a.c b.c + a.r * a.r - b.r * b.r) / (2 * edist a.c b.c)

theorem intersectCCOrdered_real (eps : ℝ) (a b : Circle ℝ) :
    intersectCCOrdered (realGeo eps) a b =
      let d := edist a.c b.c
      if d < eps ∧ a.r < b.r + eps then CC.same
      else if d < a.r - b.r - eps then CC.none
      else if d < a.r - b.r + eps then
        if d ≠ 0 then CC.touchInside ⟨a.c.x + (b.c.x - a.c.x) / d * a.r, a.c.y + (b.c.y - a.c.y) / d * a.r⟩
        else CC.same
      else if d < a.r + b.r - eps then
        let h := ccH a b
        let s := Real.sqrt (max (a.r * a.r - h * h) 0)
        CC.intersect
          ⟨a.c.x + (b.c.x - a.c.x) / d * h + -((b.c.y - a.c.y) / d) * s,
           a.c.y + (b.c.y - a.c.y) / d * h + (b.c.x - a.c.x) / d * s⟩
          ⟨a.c.x + (b.c.x - a.c.x) / d * h - -((b.c.y - a.c.y) / d) * s,
           a.c.y + (b.c.y - a.c.y) / d * h - (b.c.x - a.c.x) / d * s⟩
      else if d < a.r + b.r + eps then
        CC.touchOutside ⟨a.c.x + (b.c.x - a.c.x) / d * a.r, a.c.y + (b.c.y - a.c.y) / d * a.r⟩
      else CC.none := by
  unfold intersectCCOrdered
  simp only [dist_real]
  simp only [realGeo, towards, pdiv, pmul, padd, psub, ccH, Bool.and_eq_true,
    decide_eq_true_eq, Int.cast_zero, Int.cast_ofNat, ne_eq]

theorem intersectCC_real (eps : ℝ) (a b : Circle ℝ) :
    intersectCC (realGeo eps) a b =
      if a.r < b.r then intersectCCOrdered (realGeo eps) b a else intersectCCOrdered (realGeo eps) a b := by
  simp only [intersectCC, realGeo, decide_eq_true_eq]

/-- `cp` of the two stored normals -/
def crossN (u v : Line ℝ) : ℝ := u.a * v.b - u.b * v.a

theorem parallel_real (eps : ℝ) (u v : Line ℝ) :
    parallel (realGeo eps) u v = true ↔ |crossN u v| < eps := by
  simp only [parallel, cp, lineOrt, realGeo, crossN, decide_eq_true_eq]

theorem intersectLL_real (eps : ℝ) (u v : Line ℝ) :
    intersectLL (realGeo eps) u v =
      if |crossN u v| < eps then none
      else some ⟨-(u.c * v.b - u.b * v.c) / (u.a * v.b - u.b * v.a),
                 -(u.c * v.a - u.a * v.c) / (u.b * v.a - u.a * v.b)⟩ := by
  unfold intersectLL
  simp only [parallel_real]
  simp only [realGeo]

theorem position_real (eps : ℝ) (c : Circle ℝ) (p : Point ℝ) :
    position (realGeo eps) c p =
      if (edist p c.c - c.r) / c.r < -eps then Position.inside
      else if eps < (edist p c.c - c.r) / c.r then Position.outside
      else Position.border := by
  have e : len (realGeo eps) (psub (realGeo eps) c.c p) = edist p c.c := by
    rw [edist_comm, ← dist_real eps]; rfl
  unfold position
  simp only [e]
  simp only [realGeo, decide_eq_true_eq]

theorem lineContains_real (eps : ℝ) (l : Line ℝ) (p : Point ℝ) :
    lineContains (realGeo eps) l p = true ↔ |sdist l p| < eps := by
  simp only [lineContains, lineDist, lineEval, realGeo, sdist, decide_eq_true_eq]

/-! ### plain real-arithmetic facts -/

theorem ort_unit (l : Line ℝ) (c : Point ℝ) (hu : UnitLine l) : ortX l c ^ 2 + ortY l c ^ 2 = 1 := by
  unfold ortX ortY; unfold UnitLine at hu
  split_ifs <;> linear_combination hu

/-- `a·ox + b·oy = -sign(sd)` in the form needed: moving by `|sd|` along `ort` lands on the line -/
theorem ort_foot (l : Line ℝ) (c : Point ℝ) (hu : UnitLine l) :
    l.a * (c.x + ortX l c * |sdist l c|) + l.b * (c.y + ortY l c * |sdist l c|) + l.c = 0 := by
  unfold UnitLine at hu
  unfold ortX ortY
  by_cases hpos : 0 < sdist l c
  · simp only [hpos, if_true, abs_of_pos hpos]
    unfold sdist; linear_combination (-(l.a * c.x + l.b * c.y + l.c)) * hu
  · simp only [hpos, if_false, abs_of_nonpos (not_lt.mp hpos)]
    unfold sdist; linear_combination (-(l.a * c.x + l.b * c.y + l.c)) * hu

theorem ort_par (l : Line ℝ) (c : Point ℝ) : l.a * (-ortY l c) + l.b * ortX l c = 0 := by
  unfold ortX ortY; split_ifs <;> ring

theorem halfChord_sq (l : Line ℝ) (c : Circle ℝ) (h : |sdist l c.c| ≤ c.r) :
    halfChord l c ^ 2 = c.r ^ 2 - |sdist l c.c| ^ 2 := by
  have h0 : 0 ≤ |sdist l c.c| := abs_nonneg _
  unfold halfChord
  rw [max_eq_left (by nlinarith), Real.sq_sqrt (by nlinarith)]
  ring
/-- Cauchy–Schwarz in the plane -/
theorem dot_le (u1 u2 v1 v2 R s : ℝ) (hR : 0 ≤ R) (hs : 0 ≤ s)
    (hu : u1 ^ 2 + u2 ^ 2 = R ^ 2) (hv : v1 ^ 2 + v2 ^ 2 = s ^ 2) : u1 * v1 + u2 * v2 ≤ R * s := by
  have h : (u1 * v1 + u2 * v2) ^ 2 ≤ (R * s) ^ 2 := by
    nlinarith [sq_nonneg (u1 * v2 - u2 * v1)]
  exact (abs_le_of_sq_le_sq' h (mul_nonneg hR hs)).2

/-- a point of a unit-normal line is at least `|sdist l c|` away from `c` -/
theorem sdist_le_of_onLine (l : Line ℝ) (hu : UnitLine l) (c p : Point ℝ) (r : ℝ) (hr : 0 ≤ r)
    (hp : OnLine l p) (hc : (p.x - c.x) ^ 2 + (p.y - c.y) ^ 2 = r ^ 2) : |sdist l c| ≤ r := by
  unfold OnLine at hp
  unfold UnitLine at hu
  have e1 : sdist l c = l.a * (c.x - p.x) + l.b * (c.y - p.y) := by unfold sdist; linear_combination hp
  have h1 := dot_le l.a l.b (c.x - p.x) (c.y - p.y) 1 r zero_le_one hr (by linear_combination hu) (by linear_combination hc)
  have h2 := dot_le l.a l.b (-(c.x - p.x)) (-(c.y - p.y)) 1 r zero_le_one hr (by linear_combination hu) (by linear_combination hc)
  rw [e1, abs_le]
  constructor <;> nlinarith

/-- the unit vector from `A` to `B` -/
theorem dir_exists (ax ay bx by' d : ℝ) (hd : 0 < d) (hd2 : d ^ 2 = (ax - bx) ^ 2 + (ay - by') ^ 2) :
    ∃ ux uy : ℝ, ux ^ 2 + uy ^ 2 = 1 ∧ bx = ax + ux * d ∧ by' = ay + uy * d ∧
      (bx - ax) / d = ux ∧ (by' - ay) / d = uy := by
  refine ⟨(bx - ax) / d, (by' - ay) / d, ?_, ?_, ?_, rfl, rfl⟩
  · rw [div_pow, div_pow, ← add_div, div_eq_one_iff_eq (pow_pos hd 2).ne']
    linear_combination -hd2
  · rw [div_mul_cancel₀ _ hd.ne']; ring
  · rw [div_mul_cancel₀ _ hd.ne']; ring

/-- touch point `A + u·R` of the tangent branches: on the circle around `A`, at distance `|d - R|` from `B = A + u·d` -/
theorem towards_geom (ax ay ux uy R d : ℝ) (hu : ux ^ 2 + uy ^ 2 = 1) :
    (ax + ux * R - ax) ^ 2 + (ay + uy * R - ay) ^ 2 = R ^ 2 ∧
    (ax + ux * R - (ax + ux * d)) ^ 2 + (ay + uy * R - (ay + uy * d)) ^ 2 = (d - R) ^ 2 := by
  constructor
  · linear_combination R ^ 2 * hu
  · linear_combination (d - R) ^ 2 * hu

/-- crossing points `A + u·h ± par·t`: on both circles when `2 d h = d² + R² - s²` and `t² = R² - h²` -/
theorem cross_geom (ax ay ux uy R s d h t : ℝ) (hu : ux ^ 2 + uy ^ 2 = 1)
    (hh : 2 * d * h = d ^ 2 + R ^ 2 - s ^ 2) (ht : t ^ 2 = R ^ 2 - h ^ 2) :
    (ax + ux * h + -uy * t - ax) ^ 2 + (ay + uy * h + ux * t - ay) ^ 2 = R ^ 2 ∧
    (ax + ux * h + -uy * t - (ax + ux * d)) ^ 2 + (ay + uy * h + ux * t - (ay + uy * d)) ^ 2 = s ^ 2 ∧
    (ax + ux * h - -uy * t - ax) ^ 2 + (ay + uy * h - ux * t - ay) ^ 2 = R ^ 2 ∧
    (ax + ux * h - -uy * t - (ax + ux * d)) ^ 2 + (ay + uy * h - ux * t - (ay + uy * d)) ^ 2 = s ^ 2 := by
  refine ⟨?_, ?_, ?_, ?_⟩
  · linear_combination (h ^ 2 + t ^ 2) * hu + ht
  · linear_combination ((h - d) ^ 2 + t ^ 2) * hu + ht - hh
  · linear_combination (h ^ 2 + t ^ 2) * hu + ht
  · linear_combination ((h - d) ^ 2 + t ^ 2) * hu + ht - hh

/-- two circles whose centres are farther apart than `R + s` have no common point -/
theorem no_common_outside (a b : Circle ℝ) (ha : 0 ≤ a.r) (hb : 0 ≤ b.r) (h : a.r + b.r < edist a.c b.c) (p : Point ℝ) :
    ¬(OnCircle a p ∧ OnCircle b p) := by
  rintro ⟨h1, h2⟩
  unfold OnCircle at h1 h2
  have hd := edist_sq a.c b.c
  have hdot := dot_le (p.x - a.c.x) (p.y - a.c.y) (-(p.x - b.c.x)) (-(p.y - b.c.y)) a.r b.r ha hb h1 (by linear_combination h2)
  have h0 := edist_nonneg a.c b.c
  nlinarith

/-- a circle strictly inside another (`d < R - s`) has no point in common with it -/
theorem no_common_inside (a b : Circle ℝ) (hb : 0 ≤ b.r) (h : edist a.c b.c < a.r - b.r) (p : Point ℝ) :
    ¬(OnCircle a p ∧ OnCircle b p) := by
  rintro ⟨h1, h2⟩
  unfold OnCircle at h1 h2
  have hd := edist_sq a.c b.c
  have h0 := edist_nonneg a.c b.c
  have hdot := dot_le (p.x - b.c.x) (p.y - b.c.y) (b.c.x - a.c.x) (b.c.y - a.c.y) b.r (edist a.c b.c) hb h0 h2
    (by linear_combination -hd)
  nlinarith

/-- what C10 says about the points of a circle–circle result, relative to the two circles -/
def CCPointsOK (eps : ℝ) (a b : Circle ℝ) : CC ℝ → Prop
  | .none => True
  | .same => True
  | .touchInside p => (OnCircle a p ∨ OnCircle b p) ∧ |edist p a.c - a.r| ≤ eps ∧ |edist p b.c - b.r| ≤ eps
  | .touchOutside p => (OnCircle a p ∨ OnCircle b p) ∧ |edist p a.c - a.r| ≤ eps ∧ |edist p b.c - b.r| ≤ eps
  | .intersect p q => OnCircle a p ∧ OnCircle b p ∧ OnCircle a q ∧ OnCircle b q

theorem edist_of_sq (p q : Point ℝ) (r : ℝ) (h : (p.x - q.x) ^ 2 + (p.y - q.y) ^ 2 = r ^ 2) : edist p q = |r| := by
  unfold edist; rw [h, Real.sqrt_sq_eq_abs]

theorem ccOrdered_points_pos (eps : ℝ) (a b : Circle ℝ) (heps : 0 ≤ eps) (hb : 0 ≤ b.r) (hle : b.r ≤ a.r)
    (hd : 0 < edist a.c b.c) : CCPointsOK eps a b (intersectCCOrdered (realGeo eps) a b) := by
  rw [intersectCCOrdered_real]
  have hd2 := edist_sq a.c b.c
  obtain ⟨⟨ax, ay⟩, R⟩ := a
  obtain ⟨⟨bx, by'⟩, s⟩ := b
  simp only [ccH] at hd hd2 hle hb ⊢
  generalize edist ⟨ax, ay⟩ ⟨bx, by'⟩ = d at hd hd2 ⊢
  obtain ⟨ux, uy, hu, rfl, rfl, e1, e2⟩ := dir_exists ax ay bx by' d hd hd2
  simp only [e1, e2]
  have hR : 0 ≤ R := le_trans hb hle
  have htw := towards_geom ax ay ux uy R d hu
  have htouch : ∀ p : Point ℝ, p = ⟨ax + ux * R, ay + uy * R⟩ → |d - R| - s ≤ eps → -eps ≤ |d - R| - s →
      (OnCircle ⟨⟨ax, ay⟩, R⟩ p ∨ OnCircle ⟨⟨ax + ux * d, ay + uy * d⟩, s⟩ p) ∧
      |edist p ⟨ax, ay⟩ - R| ≤ eps ∧ |edist p ⟨ax + ux * d, ay + uy * d⟩ - s| ≤ eps := by
    rintro p rfl h1 h2
    refine ⟨Or.inl htw.1, ?_, ?_⟩
    · rw [edist_of_sq _ _ R htw.1, abs_of_nonneg hR, sub_self, abs_zero]; exact heps
    · rw [edist_of_sq _ _ (d - R) htw.2, abs_le]; exact ⟨h2, h1⟩
  by_cases c1 : d < eps ∧ R < s + eps
  · simp only [c1, and_self, if_true, CCPointsOK]
  rw [if_neg c1]
  by_cases c2 : d < R - s - eps
  · simp only [c2, if_true, CCPointsOK]
  rw [if_neg c2]
  by_cases c3 : d < R - s + eps
  · rw [if_pos c3, if_pos hd.ne']
    apply htouch _ rfl
    · rcases abs_cases (d - R) with ⟨e, _⟩ | ⟨e, _⟩ <;> rw [e] <;> linarith
    · rcases abs_cases (d - R) with ⟨e, _⟩ | ⟨e, _⟩ <;> rw [e] <;> linarith
  rw [if_neg c3]
  by_cases c4 : d < R + s - eps
  · rw [if_pos c4]
    simp only [CCPointsOK, OnCircle]
    generalize hhdef : (d * d + R * R - s * s) / (2 * d) = h
    have hh : 2 * d * h = d ^ 2 + R ^ 2 - s ^ 2 := by
      rw [← hhdef]; field_simp
    have hRh : 0 ≤ R - h := by
      have : 0 ≤ (R - h) * (2 * d) := by nlinarith
      exact nonneg_of_mul_nonneg_left this (by linarith)
    have hRh' : 0 ≤ R + h := by
      have : 0 ≤ (R + h) * (2 * d) := by nlinarith
      exact nonneg_of_mul_nonneg_left this (by linarith)
    have hnn : 0 ≤ R * R - h * h := by nlinarith
    have ht : Real.sqrt (max (R * R - h * h) 0) ^ 2 = R ^ 2 - h ^ 2 := by
      rw [max_eq_left hnn, Real.sq_sqrt hnn]; ring
    exact cross_geom ax ay ux uy R s d h _ hu hh ht
  rw [if_neg c4]
  by_cases c5 : d < R + s + eps
  · rw [if_pos c5]
    apply htouch _ rfl
    · rcases abs_cases (d - R) with ⟨e, _⟩ | ⟨e, _⟩ <;> rw [e] <;> linarith
    · rcases abs_cases (d - R) with ⟨e, _⟩ | ⟨e, _⟩ <;> rw [e] <;> linarith
  · simp only [c5, if_false, CCPointsOK]

theorem edist_pos {p q : Point ℝ} (h : p ≠ q) : 0 < edist p q := by
  unfold edist
  apply Real.sqrt_pos.mpr
  by_contra hn
  have h0 : (p.x - q.x) ^ 2 + (p.y - q.y) ^ 2 = 0 := le_antisymm (not_lt.mp hn) (by positivity)
  have hx : p.x - q.x = 0 := by nlinarith [sq_nonneg (p.x - q.x), sq_nonneg (p.y - q.y)]
  have hy : p.y - q.y = 0 := by nlinarith [sq_nonneg (p.x - q.x), sq_nonneg (p.y - q.y)]
  apply h
  cases p; cases q
  simp only [Point.mk.injEq]
  constructor <;> linarith

theorem edist_self (p : Point ℝ) : edist p p = 0 := by
  unfold edist; simp

theorem intersectCC_cases (eps : ℝ) (a b : Circle ℝ) :
    (a.r < b.r ∧ intersectCC (realGeo eps) a b = intersectCCOrdered (realGeo eps) b a) ∨
    (b.r ≤ a.r ∧ intersectCC (realGeo eps) a b = intersectCCOrdered (realGeo eps) a b) := by
  rw [intersectCC_real]
  by_cases h : a.r < b.r
  · exact Or.inl ⟨h, by rw [if_pos h]⟩
  · exact Or.inr ⟨not_lt.mp h, by rw [if_neg h]⟩

theorem CCPointsOK_symm (eps : ℝ) (a b : Circle ℝ) (r : CC ℝ) : CCPointsOK eps a b r → CCPointsOK eps b a r := by
  cases r <;> simp only [CCPointsOK] <;> tauto

/-- concentric circles (fix 542ea35): the result carries no point at all -/
theorem ccOrdered_points_zero (eps : ℝ) (a b : Circle ℝ) (heps : 0 < eps) (hle : b.r ≤ a.r)
    (hd : edist a.c b.c = 0) : CCPointsOK eps a b (intersectCCOrdered (realGeo eps) a b) := by
  rw [intersectCCOrdered_real]
  simp only [hd]
  by_cases c1 : (0 : ℝ) < eps ∧ a.r < b.r + eps
  · rw [if_pos c1]; trivial
  rw [if_neg c1]
  by_cases c2 : (0 : ℝ) < a.r - b.r - eps
  · rw [if_pos c2]; trivial
  rw [if_neg c2, if_pos (by linarith), if_neg (by simp)]
  trivial

/-- concentric circles: `Same` or `None`, nothing else (fix 542ea35) -/
theorem ccOrdered_zero_kind (eps : ℝ) (a b : Circle ℝ) (heps : 0 < eps) (hle : b.r ≤ a.r)
    (hd : edist a.c b.c = 0) :
    intersectCCOrdered (realGeo eps) a b = CC.same ∨ intersectCCOrdered (realGeo eps) a b = CC.none := by
  rw [intersectCCOrdered_real]
  simp only [hd]
  by_cases c1 : (0 : ℝ) < eps ∧ a.r < b.r + eps
  · rw [if_pos c1]; exact Or.inl rfl
  rw [if_neg c1]
  by_cases c2 : (0 : ℝ) < a.r - b.r - eps
  · rw [if_pos c2]; exact Or.inr rfl
  rw [if_neg c2, if_pos (by linarith), if_neg (by simp)]
  exact Or.inl rfl

theorem ccOrdered_points (eps : ℝ) (a b : Circle ℝ) (heps : 0 < eps) (hb : 0 ≤ b.r) (hle : b.r ≤ a.r) :
    CCPointsOK eps a b (intersectCCOrdered (realGeo eps) a b) := by
  rcases (edist_nonneg a.c b.c).eq_or_lt with h | h
  · exact ccOrdered_points_zero eps a b heps hle h.symm
  · exact ccOrdered_points_pos eps a b heps.le hb hle h

theorem cc_points (eps : ℝ) (a b : Circle ℝ) (heps : 0 < eps) (ha : 0 ≤ a.r) (hb : 0 ≤ b.r) :
    CCPointsOK eps a b (intersectCC (realGeo eps) a b) := by
  rcases intersectCC_cases eps a b with ⟨h, e⟩ | ⟨h, e⟩
  · rw [e]
    exact CCPointsOK_symm _ _ _ _ (ccOrdered_points eps b a heps ha h.le)
  · rw [e]
    exact ccOrdered_points eps a b heps hb h

theorem ccOrdered_none_outside (eps : ℝ) (a b : Circle ℝ) (heps : 0 ≤ eps) (hb : 0 ≤ b.r) (hle : b.r ≤ a.r)
    (h : a.r + b.r + eps ≤ edist a.c b.c) : intersectCCOrdered (realGeo eps) a b = CC.none := by
  rw [intersectCCOrdered_real]
  simp only []
  rw [if_neg (fun c => by linarith [c.1]), if_neg (by linarith), if_neg (by linarith), if_neg (by linarith),
    if_neg (by linarith)]

theorem ccOrdered_none_inside (eps : ℝ) (a b : Circle ℝ)
    (h : edist a.c b.c < a.r - b.r - eps) : intersectCCOrdered (realGeo eps) a b = CC.none := by
  rw [intersectCCOrdered_real]
  have h0 := edist_nonneg a.c b.c
  simp only []
  rw [if_neg (fun c => by linarith [c.2]), if_pos h]

theorem ccOrdered_touch_inside (eps : ℝ) (a b : Circle ℝ) (heps : 0 < eps) (h0 : eps ≤ edist a.c b.c)
    (h1 : a.r - b.r - eps ≤ edist a.c b.c) (h2 : edist a.c b.c < a.r - b.r + eps) :
    ∃ p, intersectCCOrdered (realGeo eps) a b = CC.touchInside p := by
  rw [intersectCCOrdered_real]
  simp only []
  rw [if_neg (fun c => by linarith [c.1]), if_neg (by linarith), if_pos h2, if_pos (by linarith : edist a.c b.c ≠ 0)]
  exact ⟨_, rfl⟩

theorem ccOrdered_touch_outside (eps : ℝ) (a b : Circle ℝ) (hb : eps ≤ b.r) (hle : b.r ≤ a.r)
    (h1 : a.r + b.r - eps ≤ edist a.c b.c) (h2 : edist a.c b.c < a.r + b.r + eps) :
    ∃ p, intersectCCOrdered (realGeo eps) a b = CC.touchOutside p := by
  rw [intersectCCOrdered_real]
  simp only []
  rw [if_neg (fun c => by linarith [c.1]), if_neg (by linarith), if_neg (by linarith), if_neg (by linarith), if_pos h2]
  exact ⟨_, rfl⟩

theorem ccOrdered_same (eps : ℝ) (a b : Circle ℝ) (heps : 0 < eps) (hc : a.c = b.c) (hr : a.r = b.r) :
    intersectCCOrdered (realGeo eps) a b = CC.same := by
  rw [intersectCCOrdered_real]
  simp only []
  rw [hc, edist_self, hr, if_pos ⟨heps, by linarith⟩]

theorem ccOrdered_intersect (eps : ℝ) (a b : Circle ℝ) (heps : 0 < eps) (hb : 0 ≤ b.r) (hle : b.r ≤ a.r)
    (h1 : a.r - b.r + eps ≤ edist a.c b.c) (h2 : edist a.c b.c < a.r + b.r - eps) :
    ∃ p q, intersectCCOrdered (realGeo eps) a b = CC.intersect p q ∧ p ≠ q := by
  rw [intersectCCOrdered_real]
  have hd2 := edist_sq a.c b.c
  obtain ⟨⟨ax, ay⟩, R⟩ := a
  obtain ⟨⟨bx, by'⟩, s⟩ := b
  simp only [ccH] at h1 h2 hd2 hle hb ⊢
  generalize edist ⟨ax, ay⟩ ⟨bx, by'⟩ = d at h1 h2 hd2 ⊢
  have hd : 0 < d := by linarith
  obtain ⟨ux, uy, hu, rfl, rfl, e1, e2⟩ := dir_exists ax ay bx by' d hd hd2
  simp only [e1, e2]
  rw [if_neg (fun c => by linarith [c.1]), if_neg (by linarith), if_neg (by linarith), if_pos h2]
  refine ⟨_, _, rfl, ?_⟩
  generalize hhdef : (d * d + R * R - s * s) / (2 * d) = h
  have hh : 2 * d * h = d ^ 2 + R ^ 2 - s ^ 2 := by
    rw [← hhdef]; field_simp
  have hRh : 0 < R - h := by
    have : 0 < (R - h) * (2 * d) := by nlinarith
    exact pos_of_mul_pos_left this (by linarith)
  have hRh' : 0 < R + h := by
    have : 0 < (R + h) * (2 * d) := by nlinarith
    exact pos_of_mul_pos_left this (by linarith)
  have hnn : 0 < R * R - h * h := by nlinarith
  have ht : Real.sqrt (max (R * R - h * h) 0) ^ 2 = R * R - h * h := by
    rw [max_eq_left hnn.le, Real.sq_sqrt hnn.le]
  generalize Real.sqrt (max (R * R - h * h) 0) = t at ht
  intro heq
  rw [Point.mk.injEq] at heq
  obtain ⟨hx, hy⟩ := heq
  have e1 : uy * t = 0 := by linarith
  have e2 : ux * t = 0 := by linarith
  have : t ^ 2 = 0 := by linear_combination (t ^ 2) * (-hu) + (ux * t) * e2 + (uy * t) * e1
  linarith

/-- a 3-4-5 triangle, used by the non-vacuity examples of `Props/C10.lean` -/
theorem edist_345 : edist ⟨0, 0⟩ ⟨3, 4⟩ = 5 := by
  unfold edist
  rw [show ((0:ℝ) - 3) ^ 2 + (0 - 4) ^ 2 = 5 ^ 2 by norm_num, Real.sqrt_sq (by norm_num)]

theorem edist_345' : edist ⟨3, 4⟩ ⟨0, 0⟩ = 5 := by rw [edist_comm, edist_345]

end Rlib.Geometry
