import RlibModel.Model.Dsu
import Mathlib.Logic.Relation
import Mathlib.Data.List.Perm.Subperm
import Mathlib.Data.List.Range
/-!
Helper lemmas for C05 (DSU).  The find/path-compression part is ported from `spikes/DsuFind.lean`
(lists → arrays, `Option` → `Except Panic`, plus the size-equals-cardinality field of the invariant).
-/
namespace Rlib.Dsu

/-- proof-level read (the model itself uses checked accesses) -/
def get (a : Array Nat) (i : Nat) : Nat := a.getD i 0

theorem get_eq (a : Array Nat) (i : Nat) (h : i < a.size) : a[i] = get a i := by
  unfold get
  rw [Array.getD_eq_getD_getElem?, Array.getElem?_eq_getElem h]; rfl

theorem get_set (a : Array Nat) (i j v : Nat) (h : i < a.size) :
    get (a.set i v h) j = if i = j then v else get a j := by
  unfold get
  simp only [Array.getD_eq_getD_getElem?, Array.getElem?_set]
  by_cases hij : i = j
  · simp [hij]
  · simp [hij]

/-- `r` is the root reached from `v` by following parent pointers -/
inductive Reach (p : Array Nat) : Nat → Nat → Prop
  | root {v} : get p v = v → Reach p v v
  | step {v r} : get p v ≠ v → Reach p (get p v) r → Reach p v r

/-- … in exactly `k` steps -/
inductive ReachN (p : Array Nat) : Nat → Nat → Nat → Prop
  | root {v} : get p v = v → ReachN p v v 0
  | step {v r k} : get p v ≠ v → ReachN p (get p v) r k → ReachN p v r (k + 1)

theorem ReachN.reach {p v r k} (h : ReachN p v r k) : Reach p v r := by
  induction h with
  | root h => exact Reach.root h
  | step hne _ ih => exact Reach.step hne ih

theorem Reach.reachN {p v r} (h : Reach p v r) : ∃ k, ReachN p v r k := by
  induction h with
  | root h => exact ⟨0, ReachN.root h⟩
  | step hne _ ih => obtain ⟨k, hk⟩ := ih; exact ⟨k + 1, ReachN.step hne hk⟩

theorem Reach.isRoot {p v r} (h : Reach p v r) : get p r = r := by
  induction h with
  | root h => exact h
  | step _ _ ih => exact ih

theorem Reach.det {p v a b} (h1 : Reach p v a) (h2 : Reach p v b) : a = b := by
  induction h1 with
  | root h => cases h2 with
    | root _ => rfl
    | step hne _ => exact absurd h hne
  | step hne _ ih => cases h2 with
    | root h => exact absurd h hne
    | step _ h2' => exact ih h2'

theorem Reach.of_root {p v r} (hv : get p v = v) (h : Reach p v r) : r = v :=
  Reach.det h (Reach.root hv)

/-- The invariant, for a given rank function. -/
structure InvR (s : S) (n : Nat) (rank : Nat → Nat) : Prop where
  lp : s.p.size = n
  ls : s.sz.size = n
  bound : ∀ v, v < n → get s.p v < n
  mono : ∀ v, v < n → get s.p v ≠ v → rank v < rank (get s.p v)
  big : ∀ r, r < n → get s.p r = r → 2 ^ rank r ≤ get s.sz r
  card : ∀ r, r < n → get s.p r = r →
    ∃ ms : List Nat, ms.Nodup ∧ (∀ x, x ∈ ms ↔ x < n ∧ Reach s.p x r) ∧ get s.sz r = ms.length

/-- The invariant of DESIGN §6 C05: there exists a rank function. -/
def Inv (s : S) (n : Nat) : Prop := ∃ rank, InvR s n rank

theorem Reach.lt {s n rank v r} (hi : InvR s n rank) (hv : v < n) (h : Reach s.p v r) : r < n := by
  induction h with
  | root _ => exact hv
  | step _ _ ih => exact ih (hi.bound _ hv)

theorem ReachN.rank_le {s n rank v r k} (hi : InvR s n rank) (hv : v < n) (h : ReachN s.p v r k) :
    rank v + k ≤ rank r := by
  induction h with
  | root _ => omega
  | @step v r k hne _ ih =>
    have := hi.mono v hv hne
    have := ih (hi.bound v hv)
    omega

theorem Reach.rank_le {s n rank v r} (hi : InvR s n rank) (hv : v < n) (h : Reach s.p v r) :
    rank v ≤ rank r ∧ (v ≠ r → rank v < rank r) := by
  obtain ⟨k, hk⟩ := h.reachN
  have h1 := hk.rank_le hi hv
  refine ⟨by omega, fun hne => ?_⟩
  cases hk with
  | root _ => exact absurd rfl hne
  | step _ _ => omega

/-! ### the number of listed members is at most `n`; ranks are at most `log2 n` -/

theorem nodup_lt_length_le {ms : List Nat} {n : Nat} (hnd : ms.Nodup) (hlt : ∀ x ∈ ms, x < n) :
    ms.length ≤ n := by
  have hsub : ms ⊆ List.range n := fun x hx => List.mem_range.mpr (hlt x hx)
  have := (List.subperm_of_subset hnd hsub).length_le
  simpa using this

theorem InvR.sz_le {s n rank} (hi : InvR s n rank) {r : Nat} (hr : r < n) (hroot : get s.p r = r) :
    get s.sz r ≤ n := by
  obtain ⟨ms, hnd, hmem, hlen⟩ := hi.card r hr hroot
  rw [hlen]
  exact nodup_lt_length_le hnd (fun x hx => ((hmem x).mp hx).1)

theorem InvR.root_rank_le {s n rank} (hi : InvR s n rank) {r : Nat} (hr : r < n) (hroot : get s.p r = r) :
    rank r ≤ Nat.log2 n := by
  have h1 := hi.big r hr hroot
  have h2 := hi.sz_le hr hroot
  rw [Nat.le_log2 (by omega)]
  omega

theorem exists_bound (rank : Nat → Nat) (n : Nat) : ∃ B, ∀ u, u < n → rank u ≤ B := by
  induction n with
  | zero => exact ⟨0, fun u hu => by omega⟩
  | succ m ih =>
    obtain ⟨B, hB⟩ := ih
    refine ⟨max B (rank m), fun u hu => ?_⟩
    by_cases h : u < m
    · have := hB u h; omega
    · have : u = m := by omega
      subst this; omega

/-- every vertex has a root, and its rank is at most `log2 n` -/
theorem InvR.root_exists {s n rank} (hi : InvR s n rank) :
    ∀ v, v < n → (∃ r, Reach s.p v r) ∧ rank v ≤ Nat.log2 n := by
  obtain ⟨B, hB⟩ := exists_bound rank n
  have key : ∀ d v, v < n → B - rank v ≤ d → (∃ r, Reach s.p v r) ∧ rank v ≤ Nat.log2 n := by
    intro d
    induction d with
    | zero =>
      intro v hv hd
      by_cases hroot : get s.p v = v
      · exact ⟨⟨v, Reach.root hroot⟩, hi.root_rank_le hv hroot⟩
      · have h1 := hi.mono v hv hroot
        have h2 := hB _ (hi.bound v hv)
        have h3 := hB v hv
        omega
    | succ d ih =>
      intro v hv hd
      by_cases hroot : get s.p v = v
      · exact ⟨⟨v, Reach.root hroot⟩, hi.root_rank_le hv hroot⟩
      · have h1 := hi.mono v hv hroot
        have h3 := hB v hv
        obtain ⟨⟨r, hr⟩, hle⟩ := ih (get s.p v) (hi.bound v hv) (by omega)
        exact ⟨⟨r, Reach.step hroot hr⟩, by omega⟩
  intro v hv
  exact key (B - rank v) v hv (Nat.le_refl _)

theorem log2_lt_self {n : Nat} (hn : 0 < n) : Nat.log2 n < n := by
  have h := (Nat.le_log2 (n := n) (k := Nat.log2 n) (by omega)).mp (Nat.le_refl _)
  have : Nat.log2 n < 2 ^ Nat.log2 n := Nat.lt_two_pow_self
  omega

/-! ### path compression -/

/-- redirecting `v` to its own root keeps every vertex's root -/
theorem compress_fwd {s : S} {n : Nat} {rank : Nat → Nat} (hi : InvR s n rank) {v r : Nat} (hv : v < n)
    (hvr : Reach s.p v r) (h : v < s.p.size) :
    ∀ u q, u < n → Reach s.p u q → Reach (s.p.set v r h) u q := by
  intro u q hu huq
  induction huq with
  | @root w hw =>
    by_cases hwv : w = v
    · subst hwv
      have : r = w := Reach.of_root hw hvr
      subst this
      exact Reach.root (by rw [get_set]; simp)
    · exact Reach.root (by rw [get_set, if_neg (Ne.symm hwv)]; exact hw)
  | @step w q hne hrest ih =>
    by_cases hwv : w = v
    · subst hwv
      have hq : q = r := Reach.det (Reach.step hne hrest) hvr
      subst hq
      have hrootq : get s.p q = q := hvr.isRoot
      have hqw : q ≠ w := fun e => hne (e ▸ hrootq)
      refine Reach.step (by rw [get_set, if_pos rfl]; exact hqw) ?_
      rw [get_set, if_pos rfl]
      exact Reach.root (by rw [get_set, if_neg (Ne.symm hqw)]; exact hrootq)
    · have e : get (s.p.set v r h) w = get s.p w := by rw [get_set, if_neg (Ne.symm hwv)]
      exact Reach.step (by rw [e]; exact hne) (by rw [e]; exact ih (hi.bound w hu))

theorem compress_inv {s : S} {n : Nat} {rank : Nat → Nat} (hi : InvR s n rank) {v r : Nat} (hv : v < n)
    (hvr : Reach s.p v r) (h : v < s.p.size) :
    InvR ⟨s.p.set v r h, s.sz⟩ n rank := by
  have hrn : r < n := hvr.lt hi hv
  have hrk := hvr.rank_le hi hv
  have hrootr : get s.p r = r := hvr.isRoot
  have hfwd := compress_fwd hi hv hvr h
  -- a root of the new forest is a root of the old one
  have hroot_old : ∀ q, get (s.p.set v r h) q = q → get s.p q = q := by
    intro q hq
    rw [get_set] at hq
    by_cases hvq : v = q
    · subst hvq
      rw [if_pos rfl] at hq
      subst hq; exact hrootr
    · rw [if_neg hvq] at hq; exact hq
  constructor
  · simp [hi.lp]
  · exact hi.ls
  · intro u hu
    show get (s.p.set v r h) u < n
    rw [get_set]; split
    · exact hrn
    · exact hi.bound u hu
  · intro u hu
    show get (s.p.set v r h) u ≠ u → rank u < rank (get (s.p.set v r h) u)
    rw [get_set]; split
    · rename_i hvu; subst hvu; intro hne; exact hrk.2 (Ne.symm hne)
    · exact hi.mono u hu
  · intro q hq hrq
    exact hi.big q hq (hroot_old q hrq)
  · intro q hq hrq
    obtain ⟨ms, hnd, hmem, hlen⟩ := hi.card q hq (hroot_old q hrq)
    refine ⟨ms, hnd, fun x => ?_, hlen⟩
    rw [hmem x]
    constructor
    · rintro ⟨hx, hxq⟩; exact ⟨hx, hfwd x q hx hxq⟩
    · rintro ⟨hx, hxq⟩
      obtain ⟨⟨q0, hq0⟩, _⟩ := hi.root_exists x hx
      have := Reach.det (hfwd x q0 hx hq0) hxq
      subst this
      exact ⟨hx, hq0⟩

/-- find with path compression: terminates within `B − rank v + 1` frames, returns the root, keeps the sizes,
    every vertex's root, and the invariant with the same rank function. -/
theorem par_spec_rank (n B : Nat) (rank : Nat → Nat) :
    ∀ (fuel : Nat) (s : S) (v : Nat), InvR s n rank → v < n → (∀ u, u < n → rank u ≤ B) →
      B - rank v < fuel →
      ∃ s' r, par fuel s v = .ok (s', r) ∧ Reach s.p v r ∧ InvR s' n rank ∧ s'.sz = s.sz ∧
        (∀ u q, u < n → Reach s.p u q → Reach s'.p u q) := by
  intro fuel
  induction fuel with
  | zero => intro s v _ _ _ h; omega
  | succ f ih =>
    intro s v hi hv hB hf
    have hvs : v < s.p.size := by rw [hi.lp]; exact hv
    unfold par
    rw [dif_pos hvs, get_eq _ _ hvs]
    by_cases hroot : get s.p v = v
    · rw [if_pos hroot]
      exact ⟨s, v, rfl, Reach.root hroot, hi, rfl, fun _ _ _ h => h⟩
    · rw [if_neg hroot]
      have hb := hi.bound v hv
      have hm := hi.mono v hv hroot
      have hBp := hB _ hb
      obtain ⟨s1, r, e, hr, hi1, hsz, hpres⟩ := ih s (get s.p v) hi hb hB (by omega)
      rw [e]
      have hvs1 : v < s1.p.size := by rw [hi1.lp]; exact hv
      have hvr1 : Reach s1.p v r := hpres v r hv (Reach.step hroot hr)
      cases s1 with
      | mk p1 sz1 =>
        simp only [dif_pos hvs1]
        refine ⟨_, r, rfl, Reach.step hroot hr, compress_inv hi1 hv hvr1 hvs1, hsz, ?_⟩
        intro u q hu huq
        exact compress_fwd hi1 hv hvr1 hvs1 u q hu (hpres u q hu huq)

/-- the form used everywhere: `log2 n + 1` frames are enough -/
theorem par_ok {s : S} {n : Nat} {rank : Nat → Nat} (hi : InvR s n rank) {v : Nat} (hv : v < n)
    {fuel : Nat} (hf : Nat.log2 n < fuel) :
    ∃ s' r, par fuel s v = .ok (s', r) ∧ Reach s.p v r ∧ InvR s' n rank ∧ s'.sz = s.sz ∧
      (∀ u q, u < n → Reach s.p u q → Reach s'.p u q) := by
  have hB : ∀ u, u < n → rank u ≤ Nat.log2 n := fun u hu => (hi.root_exists u hu).2
  exact par_spec_rank n (Nat.log2 n) rank fuel s v hi hv hB (by omega)

end Rlib.Dsu
