import RlibModel.Model.Writer
import RlibModel.Lemmas.Decimal
/-! Helper lemmas for the writer model (`Model/Writer.lean`). -/
namespace Rlib.Writer
open Rlib.Decimal

/-! ### flush / write_bytes -/

theorem flush_total (s : WState) : total (flush s) = total s := by
  unfold flush total
  split
  · rfl
  · simp [ByteArray.append_empty]

theorem flush_pend_size (s : WState) : (flush s).pend.size = 0 := by
  unfold flush
  split
  · assumption
  · rfl

theorem flush_pend (s : WState) : (flush s).pend = ByteArray.empty :=
  ByteArray.size_eq_zero_iff.mp (flush_pend_size s)

theorem flush_sink (s : WState) : (flush s).sink = total s := by
  have h := flush_total s
  unfold total at h
  rw [flush_pend, ByteArray.append_empty] at h
  exact h

theorem writeBytes_spec (c : Cfg) (bs : ByteArray) (s : WState) (hb : bs.size ≤ c.buf)
    (_hs : s.pend.size ≤ c.buf) :
    ∃ s', writeBytes c bs s = .ok s' ∧ total s' = total s ++ bs ∧ s'.pend.size ≤ c.buf := by
  unfold writeBytes reserve
  by_cases h : s.pend.size + bs.size > c.buf
  · simp only [if_pos h]
    have h0 := flush_pend_size s
    rw [if_neg (by omega)]
    refine ⟨_, rfl, ?_, ?_⟩
    · have := flush_total s
      unfold total at this ⊢
      simp only
      rw [← ByteArray.append_assoc, this]
    · simp only [ByteArray.size_append]; omega
  · simp only [if_neg h]
    refine ⟨_, rfl, ?_, ?_⟩
    · unfold total; simp only; rw [ByteArray.append_assoc]
    · simp only [ByteArray.size_append]; omega

/-- A piece larger than the buffer is the slice-index panic (unreachable through the public API,
    see `pieces_fit`). -/
theorem writeBytes_too_big (c : Cfg) (bs : ByteArray) (s : WState) (hb : c.buf < bs.size) :
    writeBytes c bs s = .error .index := by
  unfold writeBytes
  simp only
  rw [if_pos (by omega)]

/-! ### action lists -/

theorem piecesConcat_append (a b : List Act) : piecesConcat (a ++ b) = piecesConcat a ++ piecesConcat b := by
  induction a with
  | nil => simp [piecesConcat, ByteArray.empty_append]
  | cons x xs ih =>
    cases x <;> simp [piecesConcat, ih, ByteArray.append_assoc]

theorem runActs_spec (c : Cfg) : ∀ (as : List Act) (s : WState), ActsOK c.buf as → s.pend.size ≤ c.buf →
    ∃ s', runActs c as s = .ok s' ∧ total s' = total s ++ piecesConcat as ∧ s'.pend.size ≤ c.buf := by
  intro as
  induction as with
  | nil => intro s _ hs; exact ⟨s, rfl, by simp [piecesConcat, ByteArray.append_empty], hs⟩
  | cons a as ih =>
    intro s hok hs
    have ha : a.ok c.buf := hok a (by simp)
    have hrest : ActsOK c.buf as := fun x hx => hok x (by simp [hx])
    cases a with
    | piece bs =>
      obtain ⟨s1, e1, t1, p1⟩ := writeBytes_spec c bs s ha hs
      obtain ⟨s2, e2, t2, p2⟩ := ih s1 hrest p1
      refine ⟨s2, ?_, ?_, p2⟩
      · simp only [runActs, step, e1, e2]
      · rw [t2, t1, piecesConcat, ByteArray.append_assoc]
    | dflush =>
      cases hd : c.dbg with
      | true =>
        obtain ⟨s2, e2, t2, p2⟩ := ih (flush s) hrest (by rw [flush_pend_size]; omega)
        refine ⟨s2, ?_, ?_, p2⟩
        · simp [runActs, step, hd, e2]
        · rw [t2, flush_total, piecesConcat]
      | false =>
        obtain ⟨s2, e2, t2, p2⟩ := ih s hrest hs
        refine ⟨s2, ?_, ?_, p2⟩
        · simp [runActs, step, hd, e2]
        · rw [t2, piecesConcat]
    | flush =>
      obtain ⟨s2, e2, t2, p2⟩ := ih (flush s) hrest (by rw [flush_pend_size]; omega)
      refine ⟨s2, ?_, ?_, p2⟩
      · simp only [runActs, step, e2]
      · rw [t2, flush_total, piecesConcat]
    | fail p => exact absurd ha (by simp [Act.ok])

theorem runActs_append (c : Cfg) : ∀ (a b : List Act) (s : WState),
    runActs c (a ++ b) s = match runActs c a s with
      | .ok s' => runActs c b s'
      | .error e => .error e := by
  intro a
  induction a with
  | nil => intro b s; rfl
  | cons x xs ih =>
    intro b s
    simp only [List.cons_append, runActs]
    cases step c s x with
    | ok s' => simp only [ih]
    | error e => rfl

/-- `Good buf as bs`: the action list can never panic on a writer whose buffer has `buf` bytes,
    and the bytes it hands over are exactly `bs`. -/
def Good (buf : Nat) (as : List Act) (bs : ByteArray) : Prop := ActsOK buf as ∧ piecesConcat as = bs

theorem Good.nil (buf : Nat) : Good buf [] ByteArray.empty := ⟨fun _ h => by simp at h, rfl⟩

theorem Good.append {buf : Nat} {a b : List Act} {x y : ByteArray} (ha : Good buf a x) (hb : Good buf b y) :
    Good buf (a ++ b) (x ++ y) := by
  refine ⟨?_, ?_⟩
  · intro z hz
    rcases List.mem_append.mp hz with h | h
    · exact ha.1 z h
    · exact hb.1 z h
  · rw [piecesConcat_append, ha.2, hb.2]

theorem Good.dflush_cons {buf : Nat} {a : List Act} {x : ByteArray} (ha : Good buf a x) :
    Good buf (.dflush :: a) x := by
  refine ⟨?_, ?_⟩
  · intro z hz
    rcases List.mem_cons.mp hz with h | h
    · subst h; trivial
    · exact ha.1 z h
  · rw [piecesConcat]; exact ha.2

theorem Good.dflush_single (buf : Nat) : Good buf [.dflush] ByteArray.empty := Good.dflush_cons (Good.nil buf)

theorem Good.snoc_dflush {buf : Nat} {a : List Act} {x : ByteArray} (ha : Good buf a x) :
    Good buf (a ++ [.dflush]) x := by
  have := Good.append ha (Good.dflush_single buf)
  rwa [ByteArray.append_empty] at this

theorem Good.piece {buf : Nat} {bs : ByteArray} (h : bs.size ≤ buf) : Good buf [.piece bs] bs := by
  refine ⟨?_, ?_⟩
  · intro z hz
    simp at hz; subst hz; exact h
  · simp [piecesConcat, ByteArray.append_empty]

theorem writeChar_good {buf : Nat} (b : UInt8) (h : 1 ≤ buf) : Good buf (writeCharActs b) [b].toByteArray := by
  have := Good.append (Good.piece (buf := buf) (bs := [b].toByteArray) (by simpa using h)) (Good.dflush_single buf)
  rwa [ByteArray.append_empty] at this

/-! ### the `Writable` instances -/

theorem chunk_good (n : Nat) (hn : n ≠ 0) (bs : ByteArray) : ∀ off : Nat,
    Good n (chunkActs n bs off) (bs.extract off bs.size) := by
  intro off
  induction h : bs.size - off using Nat.strongRecOn generalizing off with
  | _ k ih =>
    rw [chunkActs, dif_neg hn]
    by_cases ho : off < bs.size
    · rw [if_pos ho]
      have hrec := ih (bs.size - (off + n)) (by omega) (off + n) rfl
      have hp : Good n [.piece (bs.extract off (min (off + n) bs.size))] (bs.extract off (min (off + n) bs.size)) :=
        Good.piece (by rw [ByteArray.size_extract]; omega)
      have := Good.append hp hrec
      simp only [List.singleton_append] at this
      by_cases hlt : off + n < bs.size
      · rw [Nat.min_eq_left (by omega)] at this ⊢
        rw [ByteArray.extract_append_extract, Nat.min_eq_left (by omega), Nat.max_eq_right (by omega)] at this
        exact this
      · rw [Nat.min_eq_right (by omega)] at this ⊢
        have he : bs.extract (off + n) bs.size = ByteArray.empty :=
          ByteArray.extract_eq_empty_iff.mpr (by omega)
        rw [he, ByteArray.append_empty] at this
        exact this
    · rw [if_neg ho]
      have he : bs.extract off bs.size = ByteArray.empty :=
        ByteArray.extract_eq_empty_iff.mpr (by omega)
      rw [he]; exact Good.nil n

theorem Good.mono {buf buf' : Nat} {a : List Act} {x : ByteArray} (h : buf ≤ buf') (ha : Good buf a x) :
    Good buf' a x := by
  refine ⟨?_, ha.2⟩
  intro z hz
  have := ha.1 z hz
  cases z <;> simp_all [Act.ok]
  omega

theorem str_good (buf : Nat) (hb : buf ≠ 0) (bs : ByteArray) : Good buf (chunkActs buf bs 0) bs := by
  have := chunk_good buf hb bs 0
  rwa [ByteArray.extract_zero_size] at this

theorem unsigned_good {buf bits n : Nat} (hb : 39 ≤ buf) (hbits : bits ≤ 128) (hn : n < 2 ^ bits) :
    Good buf (unsignedActs bits n) (decimalU n).toByteArray := by
  unfold unsignedActs
  by_cases h0 : n = 0
  · subst h0
    rw [if_pos rfl, decimalU_zero]
    exact writeChar_good 48 (by omega)
  · rw [if_neg h0, renderDigits_spec _ _ (ndig_le_base10len hn), decimalU_eq_digs n h0]
    apply Good.piece
    rw [List.size_toByteArray, length_digs]
    have := ndig_le_base10len hn
    have := base10len_mono hbits
    rw [base10len_128] at this
    omega

theorem signed_good {buf bits : Nat} {v : Int} (hb : 39 ≤ buf) (hbits : bits ≤ 128)
    (hn : v.natAbs < 2 ^ bits) : Good buf (signedActs bits v) (decimalS v).toByteArray := by
  unfold signedActs decimalS
  have hu := Good.snoc_dflush (unsigned_good hb hbits hn)
  by_cases hv : v < 0
  · rw [if_pos hv, if_pos hv]
    have : (45 :: decimalU v.natAbs) = [45] ++ decimalU v.natAbs := rfl
    rw [this, List.toByteArray_append]
    exact Good.append (writeChar_good 45 (by omega)) hu
  · rw [if_neg hv, if_neg hv]
    have := Good.append (Good.nil buf) hu
    rwa [ByteArray.empty_append] at this

theorem natAbs_lt_of_fits {t : IntTy} {v : Int} (hbits : 1 ≤ t.bits) (hf : t.fits v = true) :
    v.natAbs < 2 ^ t.bits ∧ (t.signed = false → 0 ≤ v) := by
  unfold IntTy.fits IntTy.minVal IntTy.maxVal at hf
  have e : (2 : Int) ^ t.bits = 2 * 2 ^ (t.bits - 1) := by
    have : t.bits = (t.bits - 1) + 1 := by omega
    conv => lhs; rw [this, Int.pow_succ]
    omega
  have hc : ((2 ^ t.bits : Nat) : Int) = (2 : Int) ^ t.bits := by simp
  have hp : (0 : Int) < 2 ^ (t.bits - 1) := Int.pow_pos (by omega)
  have key : (v.natAbs : Int) < ((2 ^ t.bits : Nat) : Int) ∧ (t.signed = false → 0 ≤ v) := by
    rw [hc]
    cases hs : t.signed
    · simp [hs] at hf; exact ⟨by omega, fun _ => by omega⟩
    · simp [hs] at hf; exact ⟨by omega, fun h => by cases h⟩
  exact ⟨Int.ofNat_lt.mp key.1, key.2⟩

theorem int_good {buf : Nat} {t : IntTy} {v : Int} (hb : 39 ≤ buf) (hv : (Val.int t v).valid = true) :
    Good buf (acts buf (.int t v)) (specVal (.int t v)) := by
  simp only [Val.valid, Bool.and_eq_true, Bool.or_eq_true, beq_iff_eq] at hv
  have hbits : 1 ≤ t.bits ∧ t.bits ≤ 128 := by omega
  obtain ⟨hn, hpos⟩ := natAbs_lt_of_fits hbits.1 hv.2
  simp only [acts, specVal]
  by_cases hs : t.signed = true
  · rw [if_pos hs]; exact signed_good hb hbits.2 hn
  · rw [if_neg hs]
    have h0 : 0 ≤ v := hpos (by simpa using hs)
    have e : v.toNat = v.natAbs := by omega
    have : decimalS v = decimalU v.natAbs := by unfold decimalS; rw [if_neg (by omega)]
    rw [this, e]
    exact unsigned_good hb hbits.2 hn

mutual
theorem acts_good {buf : Nat} (hb : 39 ≤ buf) : ∀ v : Val, v.valid = true → Good buf (acts buf v) (specVal v)
  | .int t v, hv => int_good hb hv
  | .str bs, _ => by simp only [acts, specVal]; exact str_good buf (by omega) bs
  | .seq _ xs, hv => by
    simp only [acts, specVal]
    exact actsSeq_good hb true xs (by simpa [Val.valid] using hv)
theorem actsSeq_good {buf : Nat} (hb : 39 ≤ buf) : ∀ (first : Bool) (xs : List Val), Val.validList xs = true →
    Good buf (actsSeq buf first xs) (specSeq first xs)
  | _, [], _ => by simp only [actsSeq, specSeq]; exact Good.nil buf
  | first, x :: xs, hv => by
    simp only [Val.validList, Bool.and_eq_true] at hv
    simp only [actsSeq, specSeq]
    have h1 : Good buf (if first then [] else writeCharActs 32)
        (if first then ByteArray.empty else [32].toByteArray) := by
      cases first
      · exact writeChar_good 32 (by omega)
      · exact Good.nil buf
    exact Good.append h1 (Good.append (acts_good hb x hv.1) (Good.dflush_cons (actsSeq_good hb false xs hv.2)))
end

theorem outActs_good {buf : Nat} (hb : 39 ≤ buf) : ∀ xs : List Val, Val.validList xs = true →
    Good buf (outActs buf xs) (specSeq true xs)
  | [], _ => by simp only [outActs, specSeq]; exact Good.nil buf
  | [x], hv => by
    simp only [Val.validList, Bool.and_eq_true] at hv
    have e : specSeq true [x] = specVal x := by
      simp [specSeq, ByteArray.empty_append, ByteArray.append_empty]
    rw [e]
    exact Good.snoc_dflush (acts_good hb x hv.1)
  | x :: y :: rest, hv => by
    have hv' := hv
    simp only [Val.validList, Bool.and_eq_true] at hv
    have ih := outActs_good hb (y :: rest) (by simp only [Val.validList, Bool.and_eq_true]; exact hv.2)
    simp only [outActs]
    have e : specSeq true (x :: y :: rest) = specVal x ++ ([32].toByteArray ++ specSeq true (y :: rest)) := by
      simp only [specSeq, ByteArray.empty_append, if_true, Bool.false_eq_true, if_false]
    rw [e]
    exact Good.append (acts_good hb x hv.1) (Good.dflush_cons (Good.append (writeChar_good 32 (by omega)) ih))

theorem opActs_good {buf : Nat} (hb : 39 ≤ buf) (o : Op) (hv : o.valid = true) :
    Good buf (opActs buf o) (specOp o) := by
  cases o with
  | write v => exact Good.snoc_dflush (acts_good hb v hv)
  | wchar code => exact writeChar_good _ (by omega)
  | flush =>
    refine ⟨?_, rfl⟩
    intro z hz; simp [opActs] at hz; subst hz; trivial
  | out nl vs =>
    simp only [opActs, specOp]
    apply Good.append (outActs_good hb vs hv)
    cases nl
    · exact Good.nil buf
    · exact writeChar_good 10 (by omega)

/-! ### scripts -/

theorem runOps_spec (c : Cfg) (hb : 39 ≤ c.buf) : ∀ (ops : List Op) (s : WState), Op.validAll ops = true →
    s.pend.size ≤ c.buf →
    ∃ s', runOps c ops s = .ok s' ∧ total s' = total s ++ specOps ops ∧ s'.pend.size ≤ c.buf := by
  intro ops
  induction ops with
  | nil => intro s _ hs; exact ⟨s, rfl, by simp [specOps, ByteArray.append_empty], hs⟩
  | cons o os ih =>
    intro s hv hs
    simp only [Op.validAll, Bool.and_eq_true] at hv
    have hg := opActs_good hb o hv.1
    obtain ⟨s1, e1, t1, p1⟩ := runActs_spec c (opActs c.buf o) s hg.1 hs
    obtain ⟨s2, e2, t2, p2⟩ := ih s1 hv.2 p1
    refine ⟨s2, ?_, ?_, p2⟩
    · simp only [runOps, runOp, e1, e2]
    · rw [t2, t1, hg.2, specOps, ByteArray.append_assoc]

/-! ### flush-per-write builds keep nothing pending -/

/-- The action list is empty or ends with a (debug) flush. -/
def EndsFlushed (as : List Act) : Prop := as = [] ∨ ∃ pre, as = pre ++ [.dflush] ∨ as = pre ++ [.flush]

theorem endsFlushed_snoc_dflush (pre : List Act) : EndsFlushed (pre ++ [.dflush]) := Or.inr ⟨pre, Or.inl rfl⟩

theorem endsFlushed_append_nonempty {a b : List Act} (hb : EndsFlushed b) (hne : b ≠ []) : EndsFlushed (a ++ b) := by
  rcases hb with h | ⟨pre, h | h⟩
  · exact absurd h hne
  · exact Or.inr ⟨a ++ pre, Or.inl (by rw [h, List.append_assoc])⟩
  · exact Or.inr ⟨a ++ pre, Or.inr (by rw [h, List.append_assoc])⟩

theorem writeChar_endsFlushed (b : UInt8) : EndsFlushed (writeCharActs b) ∧ writeCharActs b ≠ [] :=
  ⟨Or.inr ⟨[.piece [b].toByteArray], Or.inl rfl⟩, by simp [writeCharActs]⟩

theorem outActs_endsFlushed (buf : Nat) : ∀ xs : List Val, xs ≠ [] → EndsFlushed (outActs buf xs) ∧ outActs buf xs ≠ []
  | [], h => absurd rfl h
  | [x], _ => by
    simp only [outActs]
    exact ⟨endsFlushed_snoc_dflush _, by simp⟩
  | x :: y :: rest, _ => by
    have ih := outActs_endsFlushed buf (y :: rest) (by simp)
    simp only [outActs]
    refine ⟨?_, by simp⟩
    have h1 : EndsFlushed (writeCharActs 32 ++ outActs buf (y :: rest)) := endsFlushed_append_nonempty ih.1 ih.2
    have h2 : (Act.dflush :: (writeCharActs 32 ++ outActs buf (y :: rest))) ≠ [] := by simp
    have h3 : EndsFlushed (Act.dflush :: (writeCharActs 32 ++ outActs buf (y :: rest))) := by
      have := endsFlushed_append_nonempty (a := [Act.dflush]) h1 (by simp [writeCharActs])
      simpa using this
    exact endsFlushed_append_nonempty h3 h2

theorem opActs_endsFlushed (buf : Nat) (o : Op) : EndsFlushed (opActs buf o) := by
  cases o with
  | write v => exact endsFlushed_snoc_dflush _
  | wchar code => exact (writeChar_endsFlushed _).1
  | flush => exact Or.inr ⟨[], Or.inr rfl⟩
  | out nl vs =>
    simp only [opActs]
    cases nl
    · simp only [Bool.false_eq_true, if_false, List.append_nil]
      cases vs with
      | nil => exact Or.inl rfl
      | cons x xs => exact (outActs_endsFlushed buf (x :: xs) (by simp)).1
    · simp only [if_true]
      exact endsFlushed_append_nonempty (writeChar_endsFlushed 10).1 (writeChar_endsFlushed 10).2

/-- In a flush-per-write build nothing stays pending across an operation. -/
theorem runActs_debug_empty (c : Cfg) (hd : c.dbg = true) (as : List Act) (hE : EndsFlushed as) (s s' : WState)
    (h0 : s.pend.size = 0) (hr : runActs c as s = .ok s') : s'.pend.size = 0 := by
  rcases hE with h | ⟨pre, h | h⟩
  · subst h; simp [runActs] at hr; subst hr; exact h0
  · subst h
    rw [runActs_append] at hr
    cases hp : runActs c pre s with
    | error e => rw [hp] at hr; simp at hr
    | ok s1 =>
      rw [hp] at hr
      simp [runActs, step, hd] at hr
      subst hr; exact flush_pend_size s1
  · subst h
    rw [runActs_append] at hr
    cases hp : runActs c pre s with
    | error e => rw [hp] at hr; simp at hr
    | ok s1 =>
      rw [hp] at hr
      simp [runActs, step] at hr
      subst hr; exact flush_pend_size s1

theorem runOps_debug_empty (c : Cfg) (hd : c.dbg = true) : ∀ (ops : List Op) (s s' : WState),
    s.pend.size = 0 → runOps c ops s = .ok s' → s'.pend.size = 0 := by
  intro ops
  induction ops with
  | nil => intro s s' h0 hr; simp [runOps] at hr; subst hr; exact h0
  | cons o os ih =>
    intro s s' h0 hr
    simp only [runOps] at hr
    cases hp : runOp c s o with
    | error e => rw [hp] at hr; simp at hr
    | ok s1 =>
      rw [hp] at hr
      exact ih s1 s' (runActs_debug_empty c hd _ (opActs_endsFlushed c.buf o) s s1 h0 hp) hr


/-! ### reading the text back -/

theorem txt_append (a b : ByteArray) : txt (a ++ b) = txt a ++ txt b := by
  simp [txt, ByteArray.data_append]

theorem txt_empty : txt ByteArray.empty = [] := by simp [txt]

theorem txt_toByteArray (l : List UInt8) : txt l.toByteArray = l := by
  simp [txt, List.data_toByteArray]

/-- `t`, when followed by a boundary, contributes exactly the tokens `ws`. -/
def TokOf (t : List UInt8) (ws : List (List UInt8)) : Prop :=
  ∀ rest, Bdry rest → tokenize (t ++ rest) = ws ++ tokenize rest

/-- `t` contributes exactly the tokens `ws` whatever follows. -/
def TokClosed (t : List UInt8) (ws : List (List UInt8)) : Prop :=
  ∀ rest, tokenize (t ++ rest) = ws ++ tokenize rest

theorem TokOf.nil : TokOf [] [] := fun _ _ => rfl

theorem TokOf.ws_cons {b : UInt8} {t : List UInt8} {ws : List (List UInt8)} (hb : isWs b = true)
    (h : TokOf t ws) : TokOf (b :: t) ws := by
  intro rest hr
  rw [List.cons_append, tokenize_ws_cons hb, h rest hr]

theorem TokOf.word {w : List UInt8} (hne : w ≠ []) (hw : ∀ b ∈ w, isWs b = false) : TokOf w [w] := by
  intro rest hr
  rw [tokenize_word_append w rest hne hw hr]; rfl

theorem bdry_append {b rest : List UInt8} (hb : Bdry b) (hr : Bdry rest) : Bdry (b ++ rest) := by
  cases b with
  | nil => exact hr
  | cons x xs => exact hb

theorem TokOf.append {a b : List UInt8} {wa wb : List (List UInt8)} (ha : TokOf a wa) (hb : TokOf b wb)
    (hbd : Bdry b) : TokOf (a ++ b) (wa ++ wb) := by
  intro rest hr
  rw [List.append_assoc, ha (b ++ rest) (bdry_append hbd hr), hb rest hr, List.append_assoc]

theorem TokOf.close {a : List UInt8} {wa : List (List UInt8)} {b : UInt8} (ha : TokOf a wa)
    (hb : isWs b = true) : TokClosed (a ++ [b]) wa := by
  intro rest
  rw [List.append_assoc, ha ([b] ++ rest) hb]
  simp only [List.singleton_append]
  rw [tokenize_ws_cons hb]

theorem TokClosed.append_tokOf {a b : List UInt8} {wa wb : List (List UInt8)} (ha : TokClosed a wa)
    (hb : TokOf b wb) : TokOf (a ++ b) (wa ++ wb) := by
  intro rest hr
  rw [List.append_assoc, ha (b ++ rest), hb rest hr, List.append_assoc]

theorem isWord_spec {l : List UInt8} (h : isWord l = true) : l ≠ [] ∧ ∀ b ∈ l, isWs b = false := by
  unfold isWord at h
  simp only [Bool.and_eq_true, Bool.not_eq_true', List.all_eq_true, decide_eq_true_eq] at h
  refine ⟨?_, fun b hb => (h.2 b hb).1⟩
  intro e; subst e; simp at h

theorem seq_bdry (xs : List Val) : Bdry (txt (specSeq false xs)) := by
  cases xs with
  | nil => simp [specSeq, txt_empty, Bdry]
  | cons x xs =>
    simp only [specSeq, Bool.false_eq_true, if_false, txt_append, txt_toByteArray, List.singleton_append]
    show isWs 32 = true
    decide

mutual
theorem val_tok : ∀ v : Val, v.wordy = true → TokOf (txt (specVal v)) ((leaves v).map leafText)
  | .int t v, _ => by
    simp only [specVal, leaves, List.map_cons, List.map_nil, leafText, txt_toByteArray]
    exact TokOf.word (decimalS_ne_nil v) (fun b hb => (decimalS_bytes v b hb).1)
  | .str bs, hw => by
    simp only [specVal, leaves, List.map_cons, List.map_nil, leafText]
    have := isWord_spec (by simpa [Val.wordy] using hw : isWord bs.data.toList = true)
    exact TokOf.word this.1 this.2
  | .seq _ xs, hw => by
    simp only [specVal, leaves]
    exact seq_tok true xs (by simpa [Val.wordy] using hw)
theorem seq_tok : ∀ (first : Bool) (xs : List Val), Val.wordyList xs = true →
    TokOf (txt (specSeq first xs)) ((leavesList xs).map leafText)
  | _, [], _ => by simp only [specSeq, leavesList, List.map_nil, txt_empty]; exact TokOf.nil
  | first, x :: xs, hw => by
    simp only [Val.wordyList, Bool.and_eq_true] at hw
    simp only [specSeq, leavesList, List.map_append, txt_append]
    have h := (val_tok x hw.1).append (seq_tok false xs hw.2) (seq_bdry xs)
    cases first
    · simp only [Bool.false_eq_true, if_false, txt_toByteArray, List.singleton_append]
      exact TokOf.ws_cons (by decide) h
    · simp only [if_true, txt_empty, List.nil_append]
      exact h
end

theorem nextBoundary_bdry : ∀ os : List Op, nextBoundary os = true → Bdry (txt (specOps os))
  | [], _ => by simp [specOps, txt_empty, Bdry]
  | .flush :: os, h => by
    simp only [specOps, specOp, ByteArray.empty_append]
    exact nextBoundary_bdry os (by simpa [nextBoundary] using h)
  | .wchar code :: os, h => by
    simp only [specOps, specOp, txt_append, txt_toByteArray, List.singleton_append]
    exact (by simpa [nextBoundary] using h : isWs (UInt8.ofNat code) = true)
  | .write _ :: _, h => by simp [nextBoundary] at h
  | .out _ _ :: _, h => by simp [nextBoundary] at h

theorem ops_tok : ∀ ops : List Op, sepOK ops = true →
    TokOf (txt (specOps ops)) ((opsLeaves ops).map leafText)
  | [], _ => by simp only [specOps, opsLeaves, List.map_nil, txt_empty]; exact TokOf.nil
  | .flush :: os, h => by
    simp only [specOps, specOp, ByteArray.empty_append, opsLeaves, opLeaves, List.nil_append]
    exact ops_tok os (by simpa [sepOK] using h)
  | .wchar code :: os, h => by
    simp only [sepOK, Bool.and_eq_true] at h
    simp only [specOps, specOp, txt_append, txt_toByteArray, List.singleton_append, opsLeaves, opLeaves,
      List.nil_append]
    exact TokOf.ws_cons h.1 (ops_tok os h.2)
  | .write v :: os, h => by
    simp only [sepOK, Bool.and_eq_true] at h
    simp only [specOps, specOp, txt_append, opsLeaves, opLeaves, List.map_append]
    exact (val_tok v h.1.1).append (ops_tok os h.2) (nextBoundary_bdry os h.1.2)
  | .out false vs :: os, h => by
    simp only [sepOK, Bool.and_eq_true] at h
    simp only [specOps, specOp, txt_append, opsLeaves, opLeaves, List.map_append, Bool.false_eq_true, if_false,
      txt_empty, List.append_nil]
    exact (seq_tok true vs h.1.1).append (ops_tok os h.2) (nextBoundary_bdry os h.1.2)
  | .out true vs :: os, h => by
    simp only [sepOK, Bool.and_eq_true] at h
    simp only [specOps, specOp, txt_append, opsLeaves, opLeaves, List.map_append, if_true, txt_toByteArray]
    exact ((seq_tok true vs h.1).close (by decide)).append_tokOf (ops_tok os h.2)

/-- The tokens of a readable script's text are exactly the texts of its leaves. -/
theorem tokenize_ops (ops : List Op) (h : sepOK ops = true) :
    tokenize (txt (specOps ops)) = (opsLeaves ops).map leafText := by
  have := ops_tok ops h [] trivial
  simpa [tokenize_nil] using this

theorem int_reads_back {t : IntTy} {v : Int} (hv : (Val.int t v).valid = true) :
    leafReadsBack (.int t v) (leafText (.int t v)) = true := by
  simp only [Val.valid, Bool.and_eq_true, Bool.or_eq_true, beq_iff_eq] at hv
  have hbits : 1 ≤ t.bits := by omega
  obtain ⟨_, hpos⟩ := natAbs_lt_of_fits hbits hv.2
  simp only [leafReadsBack, leafText]
  by_cases hs : t.signed = true
  · rw [if_pos hs, parseS_decimalS]; simp
  · rw [if_neg hs]
    have h0 : 0 ≤ v := hpos (by simpa using hs)
    have : decimalS v = decimalU v.natAbs := by unfold decimalS; rw [if_neg (by omega)]
    rw [this, parseU_decimalU]
    simp; omega

mutual
theorem leaves_read_back : ∀ v : Val, v.valid = true → ∀ l ∈ leaves v, leafReadsBack l (leafText l) = true
  | .int t v, hv, l, hl => by
    simp only [leaves, List.mem_singleton] at hl
    subst hl; exact int_reads_back hv
  | .str bs, _, l, hl => by
    simp only [leaves, List.mem_singleton] at hl
    subst hl; simp [leafReadsBack, leafText]
  | .seq _ xs, hv, l, hl => by
    simp only [leaves] at hl
    exact leavesList_read_back xs (by simpa [Val.valid] using hv) l hl
theorem leavesList_read_back : ∀ xs : List Val, Val.validList xs = true →
    ∀ l ∈ leavesList xs, leafReadsBack l (leafText l) = true
  | [], _, l, hl => by simp [leavesList] at hl
  | x :: xs, hv, l, hl => by
    simp only [Val.validList, Bool.and_eq_true] at hv
    simp only [leavesList, List.mem_append] at hl
    rcases hl with hl | hl
    · exact leaves_read_back x hv.1 l hl
    · exact leavesList_read_back xs hv.2 l hl
end

theorem opsLeaves_read_back : ∀ ops : List Op, Op.validAll ops = true →
    ∀ l ∈ opsLeaves ops, leafReadsBack l (leafText l) = true
  | [], _, l, hl => by simp [opsLeaves] at hl
  | o :: os, hv, l, hl => by
    simp only [Op.validAll, Bool.and_eq_true] at hv
    simp only [opsLeaves, List.mem_append] at hl
    rcases hl with hl | hl
    · cases o with
      | write v => exact leaves_read_back v hv.1 l hl
      | out nl vs => exact leavesList_read_back vs hv.1 l hl
      | wchar c => simp [opLeaves] at hl
      | flush => simp [opLeaves] at hl
    · exact opsLeaves_read_back os hv.2 l hl

/-! ### `write_all` delivers the whole slice whatever the sink accepts per call -/

theorem writeAll_spec (k j : Nat) (hj : j ≠ 1) : ∀ (fuel : Nat) (st : SinkSt) (buf : ByteArray),
    2 * buf.size + (if j > 0 ∧ (st.calls + 1) % j = 0 then 1 else 0) < fuel →
    ∃ st', writeAll k j fuel st buf = .ok st' ∧ st'.data = st.data ++ buf := by
  intro fuel
  induction fuel with
  | zero => intro st buf h; omega
  | succ fuel ih =>
    intro st buf h
    by_cases h0 : buf.size = 0
    · refine ⟨st, by simp [writeAll, h0], ?_⟩
      rw [ByteArray.size_eq_zero_iff.mp h0, ByteArray.append_empty]
    · by_cases hi : j > 0 ∧ (st.calls + 1) % j = 0
      · -- interrupted: the next call is not (j ≥ 2)
        have hnext : ¬ (j > 0 ∧ (st.calls + 1 + 1) % j = 0) := by
          intro hn
          have h2 : 2 ≤ j := by omega
          have a := hi.2
          have b := hn.2
          have : (st.calls + 1 + 1) % j = ((st.calls + 1) % j + 1 % j) % j := Nat.add_mod _ _ _
          rw [a, Nat.mod_eq_of_lt (by omega : 1 < j)] at this
          rw [Nat.zero_add, Nat.mod_eq_of_lt (by omega : 1 < j)] at this
          omega
        rw [if_pos hi] at h
        obtain ⟨st', e, d⟩ := ih ⟨st.data, st.calls + 1⟩ buf (by simp only [if_neg hnext]; omega)
        refine ⟨st', ?_, d⟩
        simp only [writeAll, if_neg h0, sinkWrite, if_pos hi]
        exact e
      · rw [if_neg hi] at h
        -- accepted `m + 1 ≥ 1` bytes
        obtain ⟨m, hm⟩ : ∃ m, (if k = 0 then buf.size else min buf.size k) = m + 1 := by
          refine ⟨(if k = 0 then buf.size else min buf.size k) - 1, ?_⟩
          split <;> omega
        have hnle : m + 1 ≤ buf.size := by
          rw [← hm]; split <;> omega
        have hsz : (buf.extract (m + 1) buf.size).size = buf.size - (m + 1) := by
          rw [ByteArray.size_extract]; omega
        obtain ⟨st', e, d⟩ := ih ⟨st.data ++ buf.extract 0 (m + 1), st.calls + 1⟩ (buf.extract (m + 1) buf.size)
          (by simp only [hsz]; split <;> omega)
        refine ⟨st', ?_, ?_⟩
        · simp only [writeAll, if_neg h0, sinkWrite, if_neg hi, hm]
          exact e
        · rw [d]
          simp only
          rw [ByteArray.append_assoc, ByteArray.extract_append_extract, Nat.min_eq_left (by omega),
            Nat.max_eq_right hnle, ByteArray.extract_zero_size]

end Rlib.Writer
