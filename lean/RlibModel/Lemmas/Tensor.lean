import RlibModel.Model.Tensor
import Mathlib.Tactic.Ring
import Mathlib.Tactic.Linarith
/-! Helper lemmas for C19 (`Tensor<T, D>`). -/
namespace Rlib.Tensor

/-! ### products -/

theorem prod_append (a b : List Nat) : prod (a ++ b) = prod a * prod b := by
  induction a with
  | nil => simp [prod]
  | cons d ds ih => simp [prod, ih, Nat.mul_assoc]

theorem prod_reverse (a : List Nat) : prod a.reverse = prod a := by
  induction a with
  | nil => rfl
  | cons d ds ih => simp [prod, prod_append, ih, Nat.mul_comm]

theorem prod_pos {dims : List Nat} (h : ∀ d ∈ dims, 0 < d) : 0 < prod dims := by
  induction dims with
  | nil => simp [prod]
  | cons d ds ih =>
    simp only [prod]
    exact Nat.mul_pos (h d (by simp)) (ih (fun x hx => h x (by simp [hx])))

theorem contains_zero_iff (dims : List Nat) : dims.contains 0 = true ↔ 0 ∈ dims := by
  simp

theorem no_zero_iff (dims : List Nat) : ¬ (0 ∈ dims) ↔ ∀ d ∈ dims, 0 < d := by
  constructor
  · intro h d hd
    rcases Nat.eq_zero_or_pos d with h0 | h0
    · subst h0; exact absurd hd h
    · exact h0
  · intro h h0
    exact absurd (h 0 h0) (by omega)

/-! ### `InRange`, `SomeOob` -/

theorem InRange.length_eq : ∀ {dims idx : List Nat}, InRange dims idx → idx.length = dims.length
  | [], [], _ => rfl
  | _ :: ds, _ :: is, h => by simp [InRange.length_eq (dims := ds) (idx := is) h.2]
  | [], _ :: _, h => h.elim
  | _ :: _, [], h => h.elim

theorem inRange_append : ∀ (A B : List Nat) (d i : Nat), A.length = B.length →
    (InRange (A ++ [d]) (B ++ [i]) ↔ InRange A B ∧ i < d)
  | [], [], d, i, _ => by simp [InRange]
  | a :: A, b :: B, d, i, h => by
    have := inRange_append A B d i (by simpa using h)
    simp [InRange, this, and_assoc]
  | [], _ :: _, _, _, h => by simp at h
  | _ :: _, [], _, _, h => by simp at h

theorem inRange_reverse : ∀ (dims idx : List Nat), InRange dims idx → InRange dims.reverse idx.reverse
  | [], [], _ => by simp [InRange]
  | d :: ds, i :: is, h => by
    have hl := InRange.length_eq h.2
    simp only [List.reverse_cons]
    rw [inRange_append _ _ _ _ (by simp [hl])]
    exact ⟨inRange_reverse ds is h.2, h.1⟩
  | [], _ :: _, h => h.elim
  | _ :: _, [], h => h.elim

theorem someOob_append : ∀ (A B : List Nat) (d i : Nat), A.length = B.length →
    (SomeOob (A ++ [d]) (B ++ [i]) ↔ SomeOob A B ∨ d ≤ i)
  | [], [], d, i, _ => by simp [SomeOob]
  | a :: A, b :: B, d, i, h => by
    have := someOob_append A B d i (by simpa using h)
    simp [SomeOob, this, or_assoc]
  | [], _ :: _, _, _, h => by simp at h
  | _ :: _, [], _, _, h => by simp at h

theorem someOob_reverse : ∀ (dims idx : List Nat), idx.length = dims.length → SomeOob dims idx →
    SomeOob dims.reverse idx.reverse
  | d :: ds, i :: is, hl, h => by
    have hl' : is.length = ds.length := by simpa using hl
    simp only [List.reverse_cons]
    rw [someOob_append _ _ _ _ (by simp [hl'])]
    rcases h with h | h
    · exact Or.inr h
    · exact Or.inl (someOob_reverse ds is hl' h)
  | [], _, _, h => by simp [SomeOob] at h
  | _ :: _, [], _, h => by simp [SomeOob] at h

/-- pointwise reading of `InRange` -/
theorem inRange_iff_forall : ∀ (dims idx : List Nat),
    InRange dims idx ↔ idx.length = dims.length ∧ ∀ k (h1 : k < idx.length) (h2 : k < dims.length), idx[k] < dims[k]
  | [], [] => by simp [InRange]
  | d :: ds, i :: is => by
    rw [InRange, inRange_iff_forall ds is]
    constructor
    · rintro ⟨h0, hl, h⟩
      refine ⟨by simp [hl], ?_⟩
      intro k h1 h2
      cases k with
      | zero => simpa using h0
      | succ k => simpa using h k (by simpa using h1) (by simpa using h2)
    · rintro ⟨hl, h⟩
      have h0 := h 0 (by simp) (by simp)
      simp only [List.getElem_cons_zero] at h0
      refine ⟨h0, by simpa using hl, ?_⟩
      intro k h1 h2
      have hk := h (k + 1) (by simpa using h1) (by simpa using h2)
      simp only [List.getElem_cons_succ] at hk
      exact hk
  | [], _ :: _ => by simp [InRange]
  | _ :: _, [] => by simp [InRange]

/-- pointwise reading of `SomeOob` -/
theorem someOob_iff_exists : ∀ (dims idx : List Nat), idx.length = dims.length →
    (SomeOob dims idx ↔ ∃ k, ∃ (h1 : k < idx.length) (h2 : k < dims.length), dims[k] ≤ idx[k])
  | [], [], _ => by simp [SomeOob]
  | d :: ds, i :: is, hl => by
    rw [SomeOob, someOob_iff_exists ds is (by simpa using hl)]
    constructor
    · rintro (h | ⟨k, h1, h2, h⟩)
      · exact ⟨0, by simp, by simp, by simpa using h⟩
      · exact ⟨k + 1, by simpa using h1, by simpa using h2, by simpa using h⟩
    · rintro ⟨k, h1, h2, h⟩
      cases k with
      | zero => exact Or.inl (by simpa using h)
      | succ k => exact Or.inr ⟨k, by simpa using h1, by simpa using h2, by simpa using h⟩
  | [], _ :: _, hl => by simp at hl
  | _ :: _, [], hl => by simp at hl

theorem inRange_or_someOob : ∀ (dims idx : List Nat), idx.length = dims.length →
    InRange dims idx ∨ SomeOob dims idx
  | [], [], _ => Or.inl trivial
  | d :: ds, i :: is, hl => by
    rcases Nat.lt_or_ge i d with h | h
    · rcases inRange_or_someOob ds is (by simpa using hl) with h' | h'
      · exact Or.inl ⟨h, h'⟩
      · exact Or.inr (Or.inr h')
    · exact Or.inr (Or.inl h)
  | [], _ :: _, hl => by simp at hl
  | _ :: _, [], hl => by simp at hl

/-! ### the loop of `get_index` -/

/-- least-significant-first Horner form (the order in which the loop runs) -/
def flatRev : List Nat → List Nat → Nat
  | d :: ds, i :: is => i + d * flatRev ds is
  | _, _ => 0

theorem getIndexRev_ok : ∀ (ds is : List Nat) (r sz : Nat), InRange ds is →
    getIndexRev ds is r sz = .ok (r + sz * flatRev ds is)
  | [], [], r, sz, _ => by simp [getIndexRev, flatRev]
  | d :: ds, i :: is, r, sz, h => by
    rw [getIndexRev, if_pos h.1, getIndexRev_ok ds is _ _ h.2, flatRev]
    congr 1
    ring
  | [], _ :: _, _, _, h => h.elim
  | _ :: _, [], _, _, h => h.elim

theorem getIndexRev_oob : ∀ (ds is : List Nat) (r sz : Nat), is.length = ds.length → SomeOob ds is →
    getIndexRev ds is r sz = .error .assert
  | d :: ds, i :: is, r, sz, hl, h => by
    rw [getIndexRev]
    by_cases hi : i < d
    · rw [if_pos hi]
      rcases h with h | h
      · omega
      · exact getIndexRev_oob ds is _ _ (by simpa using hl) h
    · rw [if_neg hi]
  | [], _, _, _, _, h => by simp [SomeOob] at h
  | _ :: _, [], _, _, _, h => by simp [SomeOob] at h

theorem flatRev_append : ∀ (A B : List Nat) (d i : Nat), A.length = B.length →
    flatRev (A ++ [d]) (B ++ [i]) = flatRev A B + prod A * i
  | [], [], d, i, _ => by simp [flatRev, prod]
  | a :: A, b :: B, d, i, h => by
    have := flatRev_append A B d i (by simpa using h)
    simp only [List.cons_append, flatRev, this, prod]
    ring
  | [], _ :: _, _, _, h => by simp at h
  | _ :: _, [], _, _, h => by simp at h

theorem flatRev_reverse : ∀ (dims idx : List Nat), idx.length = dims.length →
    flatRev dims.reverse idx.reverse = flat dims idx
  | [], [], _ => rfl
  | d :: ds, i :: is, hl => by
    have hl' : is.length = ds.length := by simpa using hl
    simp only [List.reverse_cons]
    rw [flatRev_append _ _ _ _ (by simp [hl']), flatRev_reverse ds is hl', prod_reverse, flat]
    ring
  | [], _ :: _, hl => by simp at hl
  | _ :: _, [], hl => by simp at hl

theorem getIndex_eq_flat (dims idx : List Nat) (h : InRange dims idx) :
    getIndex dims idx = .ok (flat dims idx) := by
  unfold getIndex
  rw [getIndexRev_ok _ _ _ _ (inRange_reverse _ _ h), flatRev_reverse _ _ h.length_eq]
  simp

theorem getIndex_assert (dims idx : List Nat) (hl : idx.length = dims.length) (h : SomeOob dims idx) :
    getIndex dims idx = .error .assert := by
  unfold getIndex
  exact getIndexRev_oob _ _ _ _ (by simp [hl]) (someOob_reverse _ _ hl h)

/-! ### `flat` is a bijection onto `[0, product)`, monotone for the lexicographic order -/

theorem flat_lt_prod : ∀ (dims idx : List Nat), InRange dims idx → flat dims idx < prod dims
  | [], [], _ => by simp [flat, prod]
  | d :: ds, i :: is, h => by
    have ih := flat_lt_prod ds is h.2
    have h1 : (i + 1) * prod ds ≤ d * prod ds := Nat.mul_le_mul_right _ h.1
    simp only [flat, prod]
    nlinarith
  | [], _ :: _, h => h.elim
  | _ :: _, [], h => h.elim

theorem flat_lex : ∀ (dims a b : List Nat), InRange dims a → InRange dims b → LexLt a b →
    flat dims a < flat dims b
  | d :: ds, i :: is, j :: js, ha, hb, h => by
    have fa := flat_lt_prod ds is ha.2
    simp only [flat]
    rcases h with h | ⟨h1, h2⟩
    · have : (i + 1) * prod ds ≤ j * prod ds := Nat.mul_le_mul_right _ h
      nlinarith
    · subst h1
      have := flat_lex ds is js ha.2 hb.2 h2
      omega
  | [], [], _, _, _, h => by simp [LexLt] at h
  | [], _ :: _, _, ha, _, _ => ha.elim
  | _ :: _, [], _, ha, _, _ => ha.elim
  | _ :: _, _ :: _, [], _, hb, _ => hb.elim

theorem lex_total : ∀ (a b : List Nat), a.length = b.length → a ≠ b → LexLt a b ∨ LexLt b a
  | [], [], _, h => absurd rfl h
  | i :: is, j :: js, hl, h => by
    rcases Nat.lt_trichotomy i j with h1 | h1 | h1
    · exact Or.inl (Or.inl h1)
    · subst h1
      have : is ≠ js := fun e => h (by rw [e])
      rcases lex_total is js (by simpa using hl) this with h2 | h2
      · exact Or.inl (Or.inr ⟨rfl, h2⟩)
      · exact Or.inr (Or.inr ⟨rfl, h2⟩)
    · exact Or.inr (Or.inl h1)
  | [], _ :: _, hl, _ => by simp at hl
  | _ :: _, [], hl, _ => by simp at hl

theorem unflat_inRange : ∀ (dims : List Nat) (n : Nat), n < prod dims →
    InRange dims (unflat dims n) ∧ flat dims (unflat dims n) = n
  | [], n, h => by simp [prod] at h; simp [unflat, InRange, flat, h]
  | d :: ds, n, h => by
    simp only [prod] at h
    have hP : 0 < prod ds := by
      rcases Nat.eq_zero_or_pos (prod ds) with h0 | h0
      · rw [h0] at h; omega
      · exact h0
    have hq : n / prod ds < d := (Nat.div_lt_iff_lt_mul hP).2 h
    have hr : n % prod ds < prod ds := Nat.mod_lt _ hP
    obtain ⟨h1, h2⟩ := unflat_inRange ds (n % prod ds) hr
    refine ⟨⟨hq, h1⟩, ?_⟩
    simp only [unflat, flat, h2]
    rw [Nat.mul_comm]
    exact Nat.div_add_mod n (prod ds)

theorem unflat_flat : ∀ (dims idx : List Nat), InRange dims idx → unflat dims (flat dims idx) = idx
  | [], [], _ => rfl
  | d :: ds, i :: is, h => by
    have fa := flat_lt_prod ds is h.2
    have hP : 0 < prod ds := by omega
    simp only [flat, unflat]
    have e1 : (i * prod ds + flat ds is) / prod ds = i := by
      rw [Nat.add_comm, Nat.add_mul_div_right _ _ hP, Nat.div_eq_of_lt fa]; simp
    have e2 : (i * prod ds + flat ds is) % prod ds = flat ds is := by
      rw [Nat.add_comm, Nat.add_mul_mod_self_right, Nat.mod_eq_of_lt fa]
    rw [e1, e2, unflat_flat ds is h.2]
  | [], _ :: _, h => h.elim
  | _ :: _, [], h => h.elim

/-! ### `t[idx]`, `t[idx] = v` -/

theorem index_ok {α} (t : Tensor α) (idx : List Nat) (hwf : WF t) (h : InRange t.dims idx) :
    ∃ a, t.data[flat t.dims idx]? = some a ∧ index t idx = .ok a := by
  have hlt : flat t.dims idx < t.data.length := by rw [hwf.2]; exact flat_lt_prod _ _ h
  refine ⟨t.data[flat t.dims idx], List.getElem?_eq_getElem hlt, ?_⟩
  unfold index
  rw [getIndex_eq_flat _ _ h]
  simp [List.getElem?_eq_getElem hlt]

theorem index_oob {α} (t : Tensor α) (idx : List Nat) (hl : idx.length = t.dims.length)
    (h : SomeOob t.dims idx) : index t idx = .error .assert := by
  unfold index
  rw [getIndex_assert _ _ hl h]

theorem setAt_ok {α} (t : Tensor α) (idx : List Nat) (v : α) (hwf : WF t) (h : InRange t.dims idx) :
    setAt t idx v = .ok ⟨t.dims, t.data.set (flat t.dims idx) v⟩ := by
  have hlt : flat t.dims idx < t.data.length := by rw [hwf.2]; exact flat_lt_prod _ _ h
  unfold setAt
  rw [getIndex_eq_flat _ _ h]
  simp [hlt]

theorem setAt_oob {α} (t : Tensor α) (idx : List Nat) (v : α) (hl : idx.length = t.dims.length)
    (h : SomeOob t.dims idx) : setAt t idx v = .error .assert := by
  unfold setAt
  rw [getIndex_assert _ _ hl h]

/-! ### the odometer -/

theorem unflat_length : ∀ (dims : List Nat) (n : Nat), (unflat dims n).length = dims.length
  | [], _ => rfl
  | _ :: ds, n => by simp [unflat, unflat_length ds]

theorem unflat_zero : ∀ (dims : List Nat), unflat dims 0 = List.replicate dims.length 0
  | [] => rfl
  | _ :: ds => by simp [unflat, unflat_zero ds, List.replicate_succ]

theorem rpos_cons (i d : Nat) (is ds : List Nat) :
    rpos (i :: is) (d :: ds) =
      match rpos is ds with
      | some k => some (k + 1)
      | none => if i + 1 = d then none else some 0 := by
  unfold rpos
  simp only [List.zip_cons_cons, rposition]
  cases rposition (fun p : Nat × Nat => p.1 + 1 != p.2) (is.zip ds) <;> simp

theorem sepCount_cons (d : Nat) (ds : List Nat) (n : Nat) :
    sepCount (d :: ds) n = (if n % (d * prod ds) = 0 then 1 else 0) + sepCount ds n := rfl

theorem sepCount_add_mul : ∀ (ds : List Nat) (q m : Nat), sepCount ds (q * prod ds + m) = sepCount ds m
  | [], _, _ => rfl
  | e :: es, q, m => by
    have ih := sepCount_add_mul es (q * e) m
    have e1 : (q * (e * prod es) + m) % (e * prod es) = m % (e * prod es) := by
      rw [show q * (e * prod es) + m = m + (e * prod es) * q by ring, Nat.add_mul_mod_self_left]
    rw [prod, sepCount_cons, sepCount_cons, e1, show q * (e * prod es) + m = q * e * prod es + m by ring, ih]

theorem sepCount_zero : ∀ (ds : List Nat), sepCount ds 0 = ds.length
  | [] => rfl
  | e :: es => by simp [sepCount, sepCount_zero es]; omega

theorem sepCount_mul (ds : List Nat) (c : Nat) : sepCount ds (c * prod ds) = ds.length := by
  have := sepCount_add_mul ds c 0
  simpa [sepCount_zero] using this

theorem odometer_step : ∀ (dims : List Nat) (n : Nat), n < prod dims →
    (n + 1 < prod dims → ∃ pos, rpos (unflat dims n) dims = some pos ∧ pos < dims.length ∧
        bump (unflat dims n) pos = unflat dims (n + 1) ∧ dims.length - pos - 1 = sepCount dims (n + 1)) ∧
    (n + 1 = prod dims → rpos (unflat dims n) dims = none)
  | [], n, h => by
    simp [prod] at h
    subst h
    simp [prod, rpos, rposition, unflat]
  | d :: ds, n, h => by
    simp only [prod] at h
    have hP : 0 < prod ds := by
      rcases Nat.eq_zero_or_pos (prod ds) with h0 | h0
      · rw [h0] at h; omega
      · exact h0
    have hq : n / prod ds < d := (Nat.div_lt_iff_lt_mul hP).2 h
    have hr : n % prod ds < prod ds := Nat.mod_lt _ hP
    have hn : prod ds * (n / prod ds) + n % prod ds = n := Nat.div_add_mod n (prod ds)
    obtain ⟨ih1, ih2⟩ := odometer_step ds (n % prod ds) hr
    generalize hqe : n / prod ds = q at *
    generalize hme : n % prod ds = m at *
    have hqP : (q + 1) * prod ds ≤ d * prod ds := Nat.mul_le_mul_right _ hq
    simp only [unflat, hqe, hme, prod, List.length_cons]
    rw [rpos_cons]
    by_cases hm : m + 1 < prod ds
    · obtain ⟨k, hk1, hk2, hk3, hk4⟩ := ih1 hm
      have e1 : (n + 1) / prod ds = q := by
        rw [← hn, show prod ds * q + m + 1 = (m + 1) + prod ds * q by ring, Nat.add_mul_div_left _ _ hP,
          Nat.div_eq_of_lt hm]; simp
      have e2 : (n + 1) % prod ds = m + 1 := by
        rw [← hn, show prod ds * q + m + 1 = (m + 1) + prod ds * q by ring, Nat.add_mul_mod_self_left,
          Nat.mod_eq_of_lt hm]
      have hlt : n + 1 < d * prod ds := by nlinarith
      constructor
      · intro _
        refine ⟨k + 1, by simp [hk1], by omega, ?_, ?_⟩
        · simp only [bump, hk3, e1, e2]
        · have hne : (n + 1) % (d * prod ds) ≠ 0 := by rw [Nat.mod_eq_of_lt hlt]; omega
          rw [sepCount_cons, if_neg hne]
          rw [show n + 1 = q * prod ds + (m + 1) by rw [← hn]; ring, sepCount_add_mul, ← hk4]
          omega
      · intro he; omega
    · have hm' : m + 1 = prod ds := by omega
      have hnone := ih2 hm'
      simp only [hnone]
      have hn1 : n + 1 = (q + 1) * prod ds := by rw [← hn, ← hm']; ring
      by_cases hq1 : q + 1 = d
      · constructor
        · intro hlt; rw [hn1, hq1] at hlt; omega
        · intro _; simp [hq1]
      · have hq2 : q + 1 < d := by omega
        have hlt : n + 1 < d * prod ds := by
          rw [hn1]; exact Nat.mul_lt_mul_of_pos_right hq2 hP
        constructor
        · intro _
          refine ⟨0, by simp [hq1], by omega, ?_, ?_⟩
          · have e1 : (n + 1) / prod ds = q + 1 := by rw [hn1, Nat.mul_div_cancel _ hP]
            have e2 : (n + 1) % prod ds = 0 := by rw [hn1, Nat.mul_mod_left]
            simp only [bump, e1, e2, unflat_zero, unflat_length]
          · have hne : (n + 1) % (d * prod ds) ≠ 0 := by rw [Nat.mod_eq_of_lt hlt]; omega
            rw [sepCount_cons, if_neg hne, hn1, sepCount_mul]
            omega
        · intro he; omega

theorem index_unflat {α} (t : Tensor α) (hwf : WF t) (n : Nat) (hn : n < t.data.length) :
    index t (unflat t.dims n) = .ok t.data[n] := by
  have hn' : n < prod t.dims := by rw [← hwf.2]; exact hn
  obtain ⟨h1, h2⟩ := unflat_inRange t.dims n hn'
  obtain ⟨a, ha, hi⟩ := index_ok t _ hwf h1
  rw [h2, List.getElem?_eq_getElem hn] at ha
  rw [hi]; congr 1; exact (Option.some.inj ha).symm

theorem writeLoop_spec {α} (t : Tensor α) (hwf : WF t) :
    ∀ (fuel n : Nat) (acc : List (Piece α)), n < prod t.dims → prod t.dims - n ≤ fuel →
      writeLoop t fuel (unflat t.dims n) acc = .ok (acc ++ specPiecesFrom t.dims n (t.data.drop n)) := by
  intro fuel
  induction fuel with
  | zero => intro n acc h1 h2; omega
  | succ fuel ih =>
    intro n acc h1 h2
    have hlen : n < t.data.length := by rw [hwf.2]; exact h1
    have hf' : n + 1 < prod t.dims → prod t.dims - (n + 1) ≤ fuel := by intro _; omega
    have hlt' : ¬ n + 1 = prod t.dims → n + 1 < prod t.dims := by intro _; omega
    have hdrop : n + 1 = prod t.dims → t.data.length ≤ n + 1 := by intro _; rw [hwf.2]; omega
    obtain ⟨o1, o2⟩ := odometer_step t.dims n h1
    rw [writeLoop, index_unflat t hwf n hlen]
    simp only []
    by_cases hlast : n + 1 = prod t.dims
    · rw [o2 hlast]
      simp only []
      have : t.data.drop n = [t.data[n]] := by
        rw [List.drop_eq_getElem_cons hlen, List.drop_of_length_le (hdrop hlast)]
      rw [this]
      rfl
    · have hlt : n + 1 < prod t.dims := hlt' hlast
      have hf := hf' hlt
      obtain ⟨pos, hp1, hp2, hp3, hp4⟩ := o1 hlt
      rw [hp1]
      simp only []
      have hs : (if pos + 1 = t.dims.length then Piece.sep 0 else Piece.sep (t.dims.length - pos - 1) : Piece α)
          = Piece.sep (sepCount t.dims (n + 1)) := by
        rw [← hp4]
        split
        · congr 1; omega
        · rfl
      rw [hs, hp3, ih (n + 1) _ hlt hf]
      have hlen2 : n + 1 < t.data.length := by rw [hwf.2]; exact hlt
      rw [List.drop_eq_getElem_cons hlen, List.drop_eq_getElem_cons hlen2]
      simp [specPiecesFrom]

theorem writePieces_spec {α} (t : Tensor α) (hwf : WF t) :
    writePieces t = .ok (specPieces t.dims t.data) := by
  have hpos : 0 < prod t.dims := prod_pos hwf.1
  unfold writePieces specPieces
  rw [← unflat_zero, writeLoop_spec t hwf _ 0 [] hpos (by omega)]
  simp

/-- the elements of a piece list, in order -/
def elems {α} : List (Piece α) → List α
  | [] => []
  | .elem a :: ps => a :: elems ps
  | .sep _ :: ps => elems ps

theorem elems_specPiecesFrom {α} (dims : List Nat) : ∀ (data : List α) (k : Nat),
    elems (specPiecesFrom dims k data) = data
  | [], _ => rfl
  | [a], _ => rfl
  | a :: b :: rest, k => by
    simp [specPiecesFrom, elems, elems_specPiecesFrom dims (b :: rest) (k + 1)]

/-! ### tokenising the written text -/

theorem splitWsGo_nonws : ∀ (tok cur rest : List Char), (∀ c ∈ tok, isWs c = false) →
    splitWsGo cur (tok ++ rest) = splitWsGo (tok.reverse ++ cur) rest
  | [], cur, rest, _ => by simp
  | c :: cs, cur, rest, h => by
    have hc : isWs c = false := h c (by simp)
    simp only [List.cons_append, splitWsGo, hc]
    rw [splitWsGo_nonws cs (c :: cur) rest (fun x hx => h x (by simp [hx]))]
    simp

theorem splitWsGo_ws : ∀ (ws rest : List Char), (∀ c ∈ ws, isWs c = true) →
    splitWsGo [] (ws ++ rest) = splitWsGo [] rest
  | [], rest, _ => by simp
  | c :: cs, rest, h => by
    have hc : isWs c = true := h c (by simp)
    simp only [List.cons_append, splitWsGo, hc]
    simp only [List.isEmpty_nil, if_true]
    exact splitWsGo_ws cs rest (fun x hx => h x (by simp [hx]))

theorem splitWsGo_sep (cur ws rest : List Char) (hcur : cur ≠ []) (hws : ws ≠ [])
    (h : ∀ c ∈ ws, isWs c = true) :
    splitWsGo cur (ws ++ rest) = cur.reverse :: splitWsGo [] rest := by
  cases ws with
  | nil => exact absurd rfl hws
  | cons c cs =>
    have hc : isWs c = true := h c (by simp)
    simp only [List.cons_append, splitWsGo, hc, if_true]
    have : cur.isEmpty = false := by cases cur <;> simp_all
    simp only [this]
    rw [splitWsGo_ws cs rest (fun x hx => h x (by simp [hx]))]
    simp

theorem renderPiece_sep_ws {α} (render : α → List Char) (k : Nat) :
    renderPiece render (Piece.sep k) ≠ [] ∧ ∀ c ∈ renderPiece render (Piece.sep k), isWs c = true := by
  cases k with
  | zero => simp [renderPiece, isWs]
  | succ k => simp [renderPiece, isWs]

theorem renderPieces_cons {α} (render : α → List Char) (p : Piece α) (ps : List (Piece α)) :
    renderPieces render (p :: ps) = renderPiece render p ++ renderPieces render ps := by
  simp [renderPieces]

theorem renderPieces_nil {α} (render : α → List Char) : renderPieces render ([] : List (Piece α)) = [] := rfl

theorem renderPiece_elem {α} (render : α → List Char) (a : α) : renderPiece render (.elem a) = render a := rfl

theorem splitWs_specPiecesFrom {α} (render : α → List Char) (dims : List Nat) :
    ∀ (data : List α) (k : Nat), (∀ a ∈ data, render a ≠ [] ∧ ∀ c ∈ render a, isWs c = false) →
      splitWsGo [] (renderPieces render (specPiecesFrom dims k data)) = data.map render
  | [], _, _ => by simp [specPiecesFrom, renderPieces, splitWsGo]
  | [a], _, h => by
    obtain ⟨h1, h2⟩ := h a (by simp)
    rw [specPiecesFrom, renderPieces_cons, renderPieces_nil, renderPiece_elem,
      splitWsGo_nonws (render a) [] [] h2]
    have : (render a).reverse.isEmpty = false := by cases hr : render a <;> simp_all
    simp [splitWsGo, this]
  | a :: b :: rest, k, h => by
    obtain ⟨h1, h2⟩ := h a (by simp)
    obtain ⟨s1, s2⟩ := renderPiece_sep_ws render (sepCount dims (k + 1))
    have ih := splitWs_specPiecesFrom render dims (b :: rest) (k + 1) (fun x hx => h x (by simp [hx]))
    rw [specPiecesFrom, renderPieces_cons, renderPieces_cons, renderPiece_elem,
      splitWsGo_nonws (render a) [] _ h2, List.append_nil,
      splitWsGo_sep _ _ _ (by simpa using h1) s1 s2, List.reverse_reverse, ih]
    simp

theorem readVec_tokRd {α} (parse : List Char → α) (dflt : α) : ∀ (toks : List (List Char)),
    readVec (tokRd parse dflt) toks.length toks = (toks.map parse, [])
  | [] => rfl
  | t :: ts => by
    simp [readVec, tokRd, readVec_tokRd parse dflt ts]

theorem flat_inj (dims a b : List Nat) (ha : InRange dims a) (hb : InRange dims b)
    (h : flat dims a = flat dims b) : a = b := by
  by_contra hne
  rcases lex_total a b (by rw [ha.length_eq, hb.length_eq]) hne with h1 | h1
  · have := flat_lex dims a b ha hb h1; omega
  · have := flat_lex dims b a hb ha h1; omega

theorem index_setAt {α} (t : Tensor α) (hwf : WF t) (idx idx' : List Nat) (v : α)
    (h : InRange t.dims idx) (h' : InRange t.dims idx') :
    index ⟨t.dims, t.data.set (flat t.dims idx) v⟩ idx' = if idx' = idx then .ok v else index t idx' := by
  have hwf' : WF (⟨t.dims, t.data.set (flat t.dims idx) v⟩ : Tensor α) := ⟨hwf.1, by simp [hwf.2]⟩
  have hlt : flat t.dims idx < t.data.length := by rw [hwf.2]; exact flat_lt_prod _ _ h
  obtain ⟨a, ha, hi⟩ := index_ok _ idx' hwf' h'
  obtain ⟨b, hb, hj⟩ := index_ok t idx' hwf h'
  rw [hi]
  simp only at ha
  by_cases he : idx' = idx
  · subst he
    rw [if_pos rfl]
    rw [List.getElem?_set_self hlt] at ha
    rw [Option.some.inj ha]
  · rw [if_neg he, hj]
    have hne : flat t.dims idx ≠ flat t.dims idx' := fun e => he (flat_inj _ _ _ h' h e.symm)
    rw [List.getElem?_set_ne hne, hb] at ha
    rw [Option.some.inj ha]

/-! ### `usize` arithmetic inside `get_index` never overflows -/

theorem getIndexRevU_eq : ∀ (ds is : List Nat) (r sz : Nat), (∀ d ∈ ds, 0 < d) → r < sz →
    sz * prod ds < 2 ^ 64 → getIndexRevU ds is r sz = getIndexRev ds is r sz
  | [], [], _, _, _, _, _ => rfl
  | [], _ :: _, _, _, _, _, _ => rfl
  | _ :: _, [], _, _, _, _, _ => rfl
  | d :: ds, i :: is, r, sz, hpos, hr, hb => by
    rw [getIndexRevU, getIndexRev]
    by_cases hi : i < d
    · rw [if_pos hi, if_pos hi]
      have hP : 0 < prod ds := prod_pos (fun x hx => hpos x (by simp [hx]))
      have hd : 0 < d := hpos d (by simp)
      simp only [prod] at hb
      have h1 : sz * (i + 1) ≤ sz * d := Nat.mul_le_mul_left _ hi
      have h2 : sz * d ≤ sz * d * prod ds := Nat.le_mul_of_pos_right _ hP
      have h3 : sz * d * prod ds < 2 ^ 64 := by rw [Nat.mul_assoc]; exact hb
      have h4 : sz * (i + 1) = sz * i + sz := by ring
      have e1 : sz * i < 2 ^ 64 := by omega
      have e2 : r + sz * i < 2 ^ 64 := by omega
      have e3 : sz * d < 2 ^ 64 := by omega
      simp only [e1, e2, e3, not_true_eq_false, if_false]
      exact getIndexRevU_eq ds is _ _ (fun x hx => hpos x (by simp [hx])) (by omega) h3
    · rw [if_neg hi, if_neg hi]

theorem getIndexU_eq (dims idx : List Nat) (hpos : ∀ d ∈ dims, 0 < d) (hb : prod dims < 2 ^ 64) :
    getIndexU dims idx = getIndex dims idx := by
  unfold getIndexU getIndex
  exact getIndexRevU_eq _ _ _ _ (fun d hd => hpos d (by simpa using hd)) (by omega)
    (by rw [prod_reverse]; omega)

/-! ### the checked product of the constructors -/

theorem prodUFrom_ok : ∀ (ds : List Nat) (acc : Nat), (∀ d ∈ ds, 0 < d) → acc * prod ds < 2 ^ 64 →
    prodUFrom acc ds = .ok (acc * prod ds)
  | [], acc, _, _ => by simp [prodUFrom, prod]
  | d :: ds, acc, hpos, hb => by
    have hP : 0 < prod ds := prod_pos (fun x hx => hpos x (by simp [hx]))
    simp only [prod] at hb ⊢
    have h1 : acc * d ≤ acc * d * prod ds := Nat.le_mul_of_pos_right _ hP
    have h2 : acc * d * prod ds = acc * (d * prod ds) := Nat.mul_assoc _ _ _
    rw [prodUFrom, if_pos (by omega), prodUFrom_ok ds (acc * d) (fun x hx => hpos x (by simp [hx])) (by omega), h2]

theorem prodUFrom_sound : ∀ (ds : List Nat) (acc p : Nat), prodUFrom acc ds = .ok p → p = acc * prod ds
  | [], acc, p, h => by simp [prodUFrom, prod] at h ⊢; exact h.symm
  | d :: ds, acc, p, h => by
    rw [prodUFrom] at h
    split at h
    · rw [prodUFrom_sound ds _ p h, prod, Nat.mul_assoc]
    · cases h

theorem prodUFrom_error : ∀ (ds : List Nat) (acc : Nat) (e : Panic), prodUFrom acc ds = .error e → e = .overflow
  | [], _, _, h => by simp [prodUFrom] at h
  | d :: ds, acc, e, h => by
    rw [prodUFrom] at h
    split at h
    · exact prodUFrom_error ds _ e h
    · cases h; rfl

theorem prodU_ok (dims : List Nat) (hpos : ∀ d ∈ dims, 0 < d) (hb : prod dims < 2 ^ 64) :
    prodU dims = .ok (prod dims) := by
  unfold prodU
  rw [prodUFrom_ok dims 1 hpos (by omega), Nat.one_mul]

theorem prodUFrom_lt : ∀ (ds : List Nat) (acc p : Nat), acc < 2 ^ 64 → prodUFrom acc ds = .ok p → p < 2 ^ 64
  | [], acc, p, ha, h => by simp [prodUFrom] at h; omega
  | d :: ds, acc, p, ha, h => by
    rw [prodUFrom] at h
    split at h
    · exact prodUFrom_lt ds _ p (by assumption) h
    · cases h

theorem prodU_overflow (dims : List Nat) (hb : 2 ^ 64 ≤ prod dims) : prodU dims = .error .overflow := by
  unfold prodU
  cases h : prodUFrom 1 dims with
  | error e => rw [prodUFrom_error dims 1 e h]
  | ok p =>
    have h1 := prodUFrom_sound dims 1 p h
    have h2 := prodUFrom_lt dims 1 p (by omega) h
    omega

/-! ### separators = trailing zero coordinates -/

theorem flat_all_zero : ∀ (ds is : List Nat), is.all (· == 0) = true → flat ds is = 0
  | [], _, _ => by simp [flat]
  | _ :: _, [], _ => by simp [flat]
  | d :: ds, i :: is, h => by
    simp only [List.all_cons, Bool.and_eq_true, beq_iff_eq] at h
    simp [flat, h.1, flat_all_zero ds is h.2]

theorem unflat_all_zero_iff (ds : List Nat) (m : Nat) (hm : m < prod ds) :
    (unflat ds m).all (· == 0) = true ↔ m = 0 := by
  constructor
  · intro h
    have := (unflat_inRange ds m hm).2
    rw [flat_all_zero ds _ h] at this
    exact this.symm
  · intro h; subst h; rw [unflat_zero]; simp

theorem sepCount_eq_trailingZeros : ∀ (dims : List Nat) (n : Nat), 0 < n → n < prod dims →
    sepCount dims n = trailingZeros (unflat dims n)
  | [], n, h0, h => by simp [prod] at h; omega
  | d :: ds, n, h0, h => by
    simp only [prod] at h
    have hP : 0 < prod ds := by
      rcases Nat.eq_zero_or_pos (prod ds) with hz | hz
      · rw [hz] at h; omega
      · exact hz
    have hr : n % prod ds < prod ds := Nat.mod_lt _ hP
    have hn : prod ds * (n / prod ds) + n % prod ds = n := Nat.div_add_mod n (prod ds)
    have hne : n % (d * prod ds) ≠ 0 := by rw [Nat.mod_eq_of_lt h]; omega
    rw [sepCount_cons, if_neg hne, Nat.zero_add, unflat, trailingZeros]
    have hsc : sepCount ds n = sepCount ds (n % prod ds) := by
      conv_lhs => rw [← hn, Nat.mul_comm]
      exact sepCount_add_mul ds _ _
    by_cases hm : n % prod ds = 0
    · have hall : (unflat ds (n % prod ds)).all (· == 0) = true := (unflat_all_zero_iff ds _ hr).2 hm
      have hq : n / prod ds ≠ 0 := by
        intro hq; rw [hq, hm] at hn; omega
      rw [if_pos hall, if_neg hq, hsc, hm, sepCount_zero, unflat_length]; omega
    · have hall : ¬ (unflat ds (n % prod ds)).all (· == 0) = true := fun h' => hm ((unflat_all_zero_iff ds _ hr).1 h')
      rw [if_neg hall, hsc]
      exact sepCount_eq_trailingZeros ds _ (by omega) hr

/-! ### `Clone` / histories: one step of the model is the specified step -/

theorem getIndexRev_not_inRange : ∀ (ds is : List Nat) (r sz : Nat), ¬ InRange ds is →
    ∃ e, getIndexRev ds is r sz = .error e
  | [], [], _, _, h => absurd trivial h
  | d :: ds, i :: is, r, sz, h => by
    rw [getIndexRev]
    by_cases hi : i < d
    · rw [if_pos hi]
      exact getIndexRev_not_inRange ds is _ _ (fun h' => h ⟨hi, h'⟩)
    · rw [if_neg hi]; exact ⟨_, rfl⟩
  | [], _ :: _, _, _, _ => ⟨_, rfl⟩
  | _ :: _, [], _, _, _ => ⟨_, rfl⟩

/-- Whatever the lengths: an index that is not in range is rejected (a panic), never an offset. -/
theorem getIndex_not_inRange (dims idx : List Nat) (h : ¬ InRange dims idx) :
    ∃ e, getIndex dims idx = .error e := by
  unfold getIndex
  apply getIndexRev_not_inRange
  intro h'
  have := inRange_reverse _ _ h'
  rw [List.reverse_reverse, List.reverse_reverse] at this
  exact h this

theorem eq_decide {α} [BEq α] [LawfulBEq α] [DecidableEq α] (t u : Tensor α) :
    eq t u = decide (t.dims = u.dims ∧ t.data = u.data) := by
  rw [Bool.eq_iff_iff]
  simp [eq]

theorem seqData_length (n : Nat) (start : Int) : (seqData n start).length = n := by
  simp [seqData]

/-- every slot holds a well-formed tensor -/
def HWF (st : HState) : Prop := ∀ s t, st s = some t → WF t

theorem HWF_empty : HWF HState.empty := fun _ _ h => by simp [HState.empty] at h

theorem HWF_set (st : HState) (s : Nat) (t : Tensor Int) (h : HWF st) (ht : WF t) : HWF (st.set s t) := by
  intro k u hk
  unfold HState.set at hk
  by_cases e : k = s
  · rw [if_pos e] at hk; cases hk; exact ht
  · rw [if_neg e] at hk; exact h k u hk

/-- One step: same next state, the view of the model's observation is the specified observation, and
    well-formedness of every slot is kept. -/
theorem stepModel_spec (st : HState) (h : HWF st) (op : HOp) :
    (stepModel st op).1 = (stepSpec st op).1 ∧ (stepModel st op).2.view = (stepSpec st op).2 ∧
      HWF (stepModel st op).1 := by
  cases op with
  | mk s dims start =>
    rw [stepModel, stepSpec, fromVec]
    by_cases h0 : 0 ∈ dims
    · simp [h0, Obs.view, h]
    · have hpos := (no_zero_iff dims).1 h0
      have hc : ¬ (dims.contains 0 = true) := fun hc => h0 ((contains_zero_iff dims).1 hc)
      rw [if_neg hc, if_neg (fun hne => hne (seqData_length _ _).symm), if_neg h0]
      exact ⟨rfl, rfl, HWF_set _ _ _ h ⟨hpos, seqData_length _ _⟩⟩
  | cl s r =>
    rw [stepModel, stepSpec]
    cases hr : st r with
    | none => exact ⟨rfl, rfl, h⟩
    | some t => exact ⟨rfl, rfl, HWF_set _ _ _ h (h r t hr)⟩
  | cf s r =>
    rw [stepModel, stepSpec]
    cases hs : st s with
    | none => exact ⟨rfl, rfl, h⟩
    | some a =>
      cases hr : st r with
      | none => exact ⟨rfl, rfl, h⟩
      | some b => exact ⟨rfl, rfl, HWF_set _ _ _ h (h r b hr)⟩
  | eq s r =>
    rw [stepModel, stepSpec]
    cases hs : st s with
    | none => exact ⟨rfl, rfl, h⟩
    | some a =>
      cases hr : st r with
      | none => exact ⟨rfl, rfl, h⟩
      | some b => exact ⟨rfl, by simp [Obs.view, eq_decide], h⟩
  | dims s =>
    rw [stepModel, stepSpec]
    cases hs : st s with
    | none => exact ⟨rfl, rfl, h⟩
    | some t => exact ⟨rfl, rfl, h⟩
  | dim s i =>
    rw [stepModel, stepSpec]
    cases hs : st s with
    | none => exact ⟨rfl, rfl, h⟩
    | some t =>
      refine ⟨rfl, ?_, h⟩
      by_cases hi : i < t.dims.length
      · simp [hi, dim, obsE, Obs.view]
      · simp [hi, dim, obsE, Obs.view]
  | get s idx =>
    rw [stepModel, stepSpec]
    cases hs : st s with
    | none => exact ⟨rfl, rfl, h⟩
    | some t =>
      refine ⟨rfl, ?_, h⟩
      by_cases hr : InRange t.dims idx
      · simp [hr, getIndex_eq_flat _ _ hr, obsE, Obs.view]
      · obtain ⟨e, he⟩ := getIndex_not_inRange _ _ hr
        simp [hr, he, obsE, Obs.view]
  | rd s idx =>
    rw [stepModel, stepSpec]
    cases hs : st s with
    | none => exact ⟨rfl, rfl, h⟩
    | some t =>
      refine ⟨rfl, ?_, h⟩
      by_cases hr : InRange t.dims idx
      · obtain ⟨a, ha, hi⟩ := index_ok t idx (h s t hs) hr
        simp [hr, ha, hi, obsE, Obs.view]
      · obtain ⟨e, he⟩ := getIndex_not_inRange _ _ hr
        simp [hr, index, he, obsE, Obs.view]
  | wr s idx v =>
    rw [stepModel, stepSpec]
    cases hs : st s with
    | none => exact ⟨rfl, rfl, h⟩
    | some t =>
      have hwf := h s t hs
      by_cases hr : InRange t.dims idx
      · dsimp only
        rw [if_pos hr, setAt_ok t idx v hwf hr]
        exact ⟨rfl, rfl, HWF_set _ _ _ h ⟨hwf.1, by simp [hwf.2]⟩⟩
      · obtain ⟨e, he⟩ := getIndex_not_inRange _ _ hr
        simp [hr, setAt, he, Obs.view, h]
  | it s =>
    rw [stepModel, stepSpec]
    cases hs : st s with
    | none => exact ⟨rfl, rfl, h⟩
    | some t => exact ⟨rfl, rfl, h⟩
  | w s =>
    rw [stepModel, stepSpec]
    cases hs : st s with
    | none => exact ⟨rfl, rfl, h⟩
    | some t =>
      refine ⟨rfl, ?_, h⟩
      simp [writePieces_spec t (h s t hs), obsE, Obs.view]

theorem runWith_spec : ∀ (ops : List HOp) (st : HState), HWF st →
    (runWith stepModel st ops).map Obs.view = runWith stepSpec st ops
  | [], _, _ => rfl
  | op :: ops, st, h => by
    obtain ⟨h1, h2, h3⟩ := stepModel_spec st h op
    simp only [runWith, List.map_cons]
    rw [h2, ← h1, runWith_spec ops _ h3]

end Rlib.Tensor
