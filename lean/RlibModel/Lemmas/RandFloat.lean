import RlibModel.Model.RandFloat
import Mathlib.Algebra.Order.Field.Rat
import Mathlib.Algebra.Order.Field.Basic
import Mathlib.Data.Rat.Floor
import Mathlib.Tactic.Ring
import Mathlib.Tactic.Linarith
/-! Helper lemmas for C14, float part.

* `genF_guard`  — for **any** arithmetic (IEEE with NaN/∞/overflow included): a non-empty range
  never panics and the returned value compares `< end` (the final guard of the code);
* `roundedOps`  — exact rational arithmetic followed by a rounding function `rnd`;
  `genF_rounded_in` — if `rnd` is monotone, fixes `0` and the bound `start`, then
  `start ≤ x < end`.
-/
namespace Rlib.Rand

variable {α : Type}

theorem genF_empty (o : FloatOps α) (sh b : Nat) (s e : α) (raw : Nat) (h : o.lt s e = false) :
    genF o sh b s e raw = .error .assert := by
  unfold genF
  rw [if_pos (by simp [h])]

/-- whatever the arithmetic does, the result passes the test `x < end` -/
theorem genF_guard (o : FloatOps α) (sh b : Nat) (s e : α) (raw : Nat) (h : o.lt s e = true) :
    ∃ x, genF o sh b s e raw = .ok x ∧ o.lt x e = true ∧
      (x = s ∨ x = o.add (o.mul (o.div (o.ofU64 (raw >>> sh)) (o.ofU64 (1 <<< b))) (o.sub e s)) s) := by
  unfold genF
  rw [if_neg (by simp [h])]
  simp only []
  split
  · rename_i hx
    exact ⟨_, rfl, hx, Or.inr rfl⟩
  · exact ⟨_, rfl, h, Or.inl rfl⟩

/-- exact rational arithmetic followed by a rounding function -/
def roundedOps (rnd : ℚ → ℚ) : FloatOps ℚ where
  ofU64 n := rnd n
  add a b := rnd (a + b)
  sub a b := rnd (a - b)
  mul a b := rnd (a * b)
  div a b := rnd (a / b)
  lt a b := decide (a < b)

theorem genF_rounded_in (rnd : ℚ → ℚ) (hmono : ∀ a b, a ≤ b → rnd a ≤ rnd b) (h0 : rnd 0 = 0)
    (sh b : Nat) (s e : ℚ) (hs : rnd s = s) (hlt : s < e) (raw : Nat) :
    ∃ x, genF (roundedOps rnd) sh b s e raw = .ok x ∧ s ≤ x ∧ x < e := by
  have hnn : ∀ a, 0 ≤ a → 0 ≤ rnd a := fun a ha => h0 ▸ hmono 0 a ha
  obtain ⟨x, hx, hxe, hcase⟩ := genF_guard (roundedOps rnd) sh b s e raw (by simp [roundedOps, hlt])
  refine ⟨x, hx, ?_, by simpa [roundedOps] using hxe⟩
  rcases hcase with rfl | rfl
  · exact le_refl _
  · simp only [roundedOps]
    have hlen : 0 ≤ rnd (e - s) := hnn _ (by linarith)
    have hunit : 0 ≤ rnd (rnd ((raw >>> sh : Nat) : ℚ) / rnd ((1 <<< b : Nat) : ℚ)) :=
      hnn _ (div_nonneg (hnn _ (Nat.cast_nonneg _)) (hnn _ (Nat.cast_nonneg _)))
    have hprod : 0 ≤ rnd (rnd (rnd ((raw >>> sh : Nat) : ℚ) / rnd ((1 <<< b : Nat) : ℚ)) * rnd (e - s)) :=
      hnn _ (mul_nonneg hunit hlen)
    calc s = rnd s := hs.symm
      _ ≤ _ := hmono _ _ (by linarith)

/-- a concrete rounding that satisfies the hypotheses: round down to a multiple of `1/8` -/
def floor8 (x : ℚ) : ℚ := (⌊x * 8⌋ : ℤ) / 8

theorem floor8_mono (a b : ℚ) (h : a ≤ b) : floor8 a ≤ floor8 b := by
  unfold floor8
  have : ⌊a * 8⌋ ≤ ⌊b * 8⌋ := Int.floor_mono (by linarith)
  have h2 : ((⌊a * 8⌋ : ℤ) : ℚ) ≤ ((⌊b * 8⌋ : ℤ) : ℚ) := by exact_mod_cast this
  linarith

theorem floor8_zero : floor8 0 = 0 := by simp [floor8]

theorem floor8_fix (k : ℤ) : floor8 (k / 8) = k / 8 := by
  unfold floor8
  have : (k : ℚ) / 8 * 8 = k := by ring
  rw [this, Int.floor_intCast]

end Rlib.Rand
