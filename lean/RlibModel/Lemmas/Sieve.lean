import RlibModel.Model.Sieve
import Mathlib.Data.Nat.Prime.Basic
import Mathlib.Tactic.Linarith
import Mathlib.Data.Nat.Factorization.Basic
import Mathlib.Data.List.Sort
import Mathlib.NumberTheory.ArithmeticFunction.Misc
/-! Helper lemmas for C13 (linear sieve invariant; ported from `spikes/SieveProof.lean`). -/
namespace Rlib.Sieve

/-- the index loop over the prime array is the list recursion on the remaining primes -/
theorem innerA_eq (n i : Nat) (ps : Array Nat) (j : Nat) (m : Array Nat) :
    innerA n i ps j m = inner n i (ps.toList.drop j) m := by
  fun_induction innerA n i ps j m with
  | case1 j m h p hbrk =>
    rw [List.drop_eq_getElem_cons (by simpa using h)]
    simp only [inner, Array.getElem_toList]
    rw [if_pos hbrk]
  | case2 j m h p hbrk ih =>
    rw [List.drop_eq_getElem_cons (by simpa using h)]
    simp only [inner, Array.getElem_toList]
    rw [if_neg hbrk, ih]
  | case3 j m h =>
    rw [List.drop_of_length_le (by simpa using h)]
    rfl

/-- `stepI` in the form the invariant proof uses: optional "record a prime" followed by the inner loop -/
theorem stepI_eq (n : Nat) (s : St) (i : Nat) : stepI n s i =
    (let s1 : St := if s.mnp.getD i 0 = 0 then
        { isp := s.isp.setIfInBounds i true, mnp := s.mnp.setIfInBounds i i, primes := s.primes.push i }
      else s
     { s1 with mnp := inner n i s1.primes.toList s1.mnp }) := by
  cases s with
  | mk isp mnp primes =>
    unfold stepI
    by_cases h : mnp.getD i 0 = 0
    · simp only [h, if_true, innerA_eq, List.drop_zero]
    · simp only [h, if_false, innerA_eq, List.drop_zero]


theorem getD_set (m : Array Nat) (j c v : Nat) :
    (m.setIfInBounds j v).getD c 0 = if j = c ∧ j < m.size then v else m.getD c 0 := by
  simp only [Array.getD_eq_getD_getElem?, Array.getElem?_setIfInBounds]
  by_cases h : j = c
  · subst h
    by_cases hl : j < m.size
    · simp [hl]
    · simp [hl]
  · simp [h]

theorem minFac_mul {p i : Nat} (hp : p.Prime) (hi : 2 ≤ i) (hle : p ≤ i.minFac) :
    (p * i).minFac = p := by
  have h1 : (p * i).minFac ≤ p := Nat.minFac_le_of_dvd hp.two_le (Dvd.intro _ rfl)
  have hpi : p * i ≠ 1 := by
    have := hp.two_le; nlinarith
  have hq := Nat.minFac_prime hpi
  have hd := Nat.minFac_dvd (p * i)
  rcases (Nat.Prime.dvd_mul hq).mp hd with h | h
  · exact (Nat.prime_dvd_prime_iff_eq hq hp).mp h
  · have : i.minFac ≤ (p * i).minFac := Nat.minFac_le_of_dvd hq.two_le h
    omega

/-- effect of the inner loop: exactly the indices `p*i` with `p` a listed prime `≤ q` and `p*i < n` are written -/
theorem inner_spec (n i q : Nat) (hi : 2 ≤ i) :
    ∀ (ps : List Nat) (m : Array Nat), m.size = n → m.getD i 0 = q →
      ps.Pairwise (· < ·) → (∀ p ∈ ps, 2 ≤ p) →
      (inner n i ps m).size = n ∧
      ∀ c, (inner n i ps m).getD c 0 =
        if _h : ∃ p ∈ ps, p ≤ q ∧ p * i < n ∧ c = p * i then c / i else m.getD c 0 := by
  intro ps
  induction ps with
  | nil => intro m hm _ _ _; simp [inner, hm]
  | cons p ps ih =>
    intro m hm hq hsorted hge
    have hp2 : 2 ≤ p := hge p (List.mem_cons_self ..)
    rw [List.pairwise_cons] at hsorted
    unfold inner
    by_cases hbrk : p > m.getD i 0 ∨ p * i ≥ n
    · simp only [hbrk, if_true]
      refine ⟨hm, fun c => ?_⟩
      rw [dif_neg]
      rintro ⟨p', hp', h1, h2, _⟩
      rcases List.mem_cons.mp hp' with rfl | hmem
      · rw [hq] at hbrk; omega
      · have := hsorted.1 p' hmem
        rw [hq] at hbrk
        rcases hbrk with hb | hb
        · omega
        · have : p * i < p' * i := Nat.mul_lt_mul_of_pos_right this (by omega)
          omega
    · simp only [hbrk, if_false]
      have hb1 : p ≤ q := by rw [hq] at hbrk; omega
      have hb2 : p * i < n := by omega
      have hne : p * i ≠ i := by nlinarith
      have hm' : (m.setIfInBounds (p * i) p).size = n := by simp [hm]
      have hq' : (m.setIfInBounds (p * i) p).getD i 0 = q := by
        rw [getD_set]; simp [hne, hq]
      obtain ⟨r1, r2⟩ := ih _ hm' hq' hsorted.2 (fun x hx => hge x (List.mem_cons_of_mem _ hx))
      refine ⟨r1, fun c => ?_⟩
      rw [r2 c]
      by_cases hc : ∃ p' ∈ ps, p' ≤ q ∧ p' * i < n ∧ c = p' * i
      · rw [dif_pos hc, dif_pos]
        obtain ⟨p', hp', h⟩ := hc
        exact ⟨p', List.mem_cons_of_mem _ hp', h⟩
      · rw [dif_neg hc, getD_set]
        by_cases hcp : c = p * i
        · subst hcp
          rw [dif_pos ⟨p, List.mem_cons_self .., hb1, hb2, rfl⟩]
          simp [hm, hb2]; exact (Nat.mul_div_cancel _ (by omega)).symm
        · have : ¬ (p * i = c ∧ p * i < m.size) := fun h => hcp h.1.symm
          rw [if_neg this, dif_neg]
          rintro ⟨p', hp', h1, h2, h3⟩
          rcases List.mem_cons.mp hp' with rfl | hmem
          · exact hcp h3
          · exact hc ⟨p', hmem, h1, h2, h3⟩

/-- `c`'s table entry is final after all `i < k` have been processed -/
def Good (k c : Nat) : Prop := 2 ≤ c ∧ ((c.Prime ∧ c < k) ∨ (¬ c.Prime ∧ c / c.minFac < k))

structure Inv (n k : Nat) (s : St) : Prop where
  szm : s.mnp.size = n
  szi : s.isp.size = n
  primes : s.primes.toList = (List.range k).filter Nat.Prime
  good : ∀ c, c < n → Good k c → s.mnp.getD c 0 = c.minFac
  bad : ∀ c, c < n → ¬ Good k c → s.mnp.getD c 0 = 0
  isp : ∀ c, c < n → (s.isp.getD c false = true ↔ c.Prime ∧ c < k)

theorem composite_facts {c : Nat} (h2 : 2 ≤ c) (hc : ¬ c.Prime) :
    c = c.minFac * (c / c.minFac) ∧ c.minFac ≤ c / c.minFac ∧ 2 ≤ c / c.minFac ∧
    c.minFac ≤ (c / c.minFac).minFac ∧ c.minFac.Prime := by
  have hp : c.minFac.Prime := Nat.minFac_prime (by omega)
  have hd := Nat.minFac_dvd c
  have e : c = c.minFac * (c / c.minFac) := (Nat.mul_div_cancel' hd).symm
  have hsq := Nat.minFac_sq_le_self (by omega) hc
  have hle : c.minFac ≤ c / c.minFac := by
    rw [Nat.le_div_iff_mul_le hp.pos]; nlinarith [hsq, sq c.minFac]
  have h2k : 2 ≤ c / c.minFac := le_trans hp.two_le hle
  refine ⟨e, hle, h2k, ?_, hp⟩
  have hk1 : c / c.minFac ≠ 1 := by omega
  have : (c / c.minFac).minFac ∣ c :=
    Dvd.dvd.trans (Nat.minFac_dvd _) (Nat.div_dvd_of_dvd hd)
  exact Nat.minFac_le_of_dvd (Nat.minFac_prime hk1).two_le this

theorem getDb_set (m : Array Bool) (j c : Nat) (v : Bool) :
    (m.setIfInBounds j v).getD c false = if j = c ∧ j < m.size then v else m.getD c false := by
  simp only [Array.getD_eq_getD_getElem?, Array.getElem?_setIfInBounds]
  by_cases h : j = c
  · subst h
    by_cases hl : j < m.size
    · simp [hl]
    · simp [hl]
  · simp [h]

theorem sorted_filter_range (k : Nat) : ((List.range k).filter Nat.Prime).Pairwise (· < ·) :=
  List.Pairwise.filter _ (List.pairwise_lt_range)

theorem step_inv (n k : Nat) (s : St) (hk : 2 ≤ k) (hkn : k < n) (hi : Inv n k s) :
    Inv n (k + 1) (stepI n s k) := by
  -- value at k before the step
  have hv : s.mnp.getD k 0 = 0 ↔ k.Prime := by
    constructor
    · intro h0
      by_contra hnp
      have hg : Good k k := ⟨hk, Or.inr ⟨hnp, by
        have := (composite_facts hk hnp); have hp := this.2.2.2.2.two_le
        exact Nat.div_lt_self (by omega) hp⟩⟩
      have := hi.good k hkn hg
      have hp := (Nat.minFac_prime (by omega : k ≠ 1)).two_le
      omega
    · intro hp
      exact hi.bad k hkn (by rintro ⟨_, ⟨_, h⟩ | ⟨h, _⟩⟩ <;> [omega; exact h hp])
  have hrange : (List.range (k + 1)).filter Nat.Prime =
      (List.range k).filter Nat.Prime ++ (if k.Prime then [k] else []) := by
    rw [List.range_succ, List.filter_append]
    by_cases hp : k.Prime <;> simp [hp]
  obtain ⟨s1, hs1, h1szm, h1szi, h1primes, h1k, h1good, h1bad, h1isp⟩ :
     ∃ s1 : St, stepI n s k = { s1 with mnp := inner n k s1.primes.toList s1.mnp } ∧
       s1.mnp.size = n ∧ s1.isp.size = n ∧
       s1.primes.toList = (List.range (k+1)).filter Nat.Prime ∧
       s1.mnp.getD k 0 = k.minFac ∧
       (∀ c, c < n → (Good k c ∨ (c = k ∧ k.Prime)) → s1.mnp.getD c 0 = c.minFac) ∧
       (∀ c, c < n → ¬(Good k c ∨ (c = k ∧ k.Prime)) → s1.mnp.getD c 0 = 0) ∧
       (∀ c, c < n → (s1.isp.getD c false = true ↔ c.Prime ∧ c < k+1)) := by
    by_cases hp : k.Prime
    · have h0 := hv.mpr hp
      refine ⟨{ isp := s.isp.setIfInBounds k true, mnp := s.mnp.setIfInBounds k k,
                primes := s.primes.push k }, by rw [stepI_eq]; simp only [if_pos h0], by simp [hi.szm], by simp [hi.szi],
              by simp [hi.primes, hrange, hp], ?_, ?_, ?_, ?_⟩
      · rw [getD_set, if_pos ⟨rfl, by rw [hi.szm]; exact hkn⟩, hp.minFac_eq]
      · intro c hc hg
        simp only [getD_set, hi.szm]
        by_cases hck : k = c
        · subst hck; rw [if_pos ⟨rfl, hkn⟩, hp.minFac_eq]
        · rcases hg with hg | ⟨rfl, _⟩
          · rw [if_neg (by rintro ⟨h, _⟩; exact hck h)]; exact hi.good c hc hg
          · exact absurd rfl hck
      · intro c hc hg
        simp only [getD_set, hi.szm]
        by_cases hck : k = c
        · subst hck; exact absurd (Or.inr ⟨rfl, hp⟩) hg
        · rw [if_neg (by rintro ⟨h, _⟩; exact hck h)]; exact hi.bad c hc (fun h => hg (Or.inl h))
      · intro c hc
        simp only [getDb_set, hi.szi]
        by_cases hck : k = c
        · subst hck; simp [hkn, hp]
        · simp only [hck, false_and, if_false]
          rw [hi.isp c hc]
          constructor
          · rintro ⟨a, b⟩; exact ⟨a, by omega⟩
          · rintro ⟨a, b⟩; exact ⟨a, by omega⟩
    · have h0 : ¬ s.mnp.getD k 0 = 0 := fun h => hp (hv.mp h)
      have hgk : Good k k := ⟨hk, Or.inr ⟨hp, by
        have := (composite_facts hk hp); have hp2 := this.2.2.2.2.two_le
        exact Nat.div_lt_self (by omega) hp2⟩⟩
      refine ⟨s, by rw [stepI_eq]; simp only [if_neg h0], hi.szm, hi.szi, by simp [hi.primes, hrange, hp],
        hi.good k hkn hgk, ?_, ?_, ?_⟩
      · intro c hc hg
        rcases hg with hg | ⟨_, h⟩
        · exact hi.good c hc hg
        · exact absurd h hp
      · intro c hc hg; exact hi.bad c hc (fun h => hg (Or.inl h))
      · intro c hc
        rw [hi.isp c hc]
        constructor
        · rintro ⟨a, b⟩; exact ⟨a, by omega⟩
        · rintro ⟨a, b⟩
          refine ⟨a, ?_⟩
          rcases Nat.lt_succ_iff_lt_or_eq.mp b with h | h
          · exact h
          · subst h; exact absurd a hp
  have hmem : ∀ p, p ∈ s1.primes.toList ↔ p.Prime ∧ p < k + 1 := by
    rw [h1primes]; intro p; simp [List.mem_filter, List.mem_range, and_comm]
  have hL2 : ∀ p ∈ s1.primes.toList, 2 ≤ p := fun p hp => ((hmem p).mp hp).1.two_le
  obtain ⟨r1, r2⟩ := inner_spec n k k.minFac hk s1.primes.toList s1.mnp h1szm h1k
    (by rw [h1primes]; exact sorted_filter_range _) hL2
  have hform : ∀ c, c < n → ((∃ p ∈ s1.primes.toList, p ≤ k.minFac ∧ p * k < n ∧ c = p * k) ↔
      (2 ≤ c ∧ ¬ c.Prime ∧ c / c.minFac = k)) := by
    intro c hc
    constructor
    · rintro ⟨p, hp, hle, _, rfl⟩
      have hpp := ((hmem p).mp hp).1
      have hmf := minFac_mul hpp hk hle
      refine ⟨by have := hpp.two_le; nlinarith, Nat.not_prime_mul (by have := hpp.two_le; omega) (by omega), ?_⟩
      rw [hmf]; exact Nat.mul_div_cancel_left _ hpp.pos
    · rintro ⟨h2, hnp, hdiv⟩
      obtain ⟨e, hle, _, hmf, hpp⟩ := composite_facts h2 hnp
      rw [hdiv] at e hle hmf
      exact ⟨c.minFac, (hmem _).mpr ⟨hpp, by omega⟩, hmf, by rw [← e]; exact hc, e⟩
  have hmono : ∀ c, Good k c → Good (k + 1) c := by
    rintro c ⟨h2, ⟨a, b⟩ | ⟨a, b⟩⟩
    · exact ⟨h2, Or.inl ⟨a, by omega⟩⟩
    · exact ⟨h2, Or.inr ⟨a, by omega⟩⟩
  rw [hs1]
  refine ⟨r1, h1szi, h1primes, ?_, ?_, h1isp⟩
  · intro c hc hg
    show (inner n k s1.primes.toList s1.mnp).getD c 0 = c.minFac
    rw [r2 c]
    by_cases hw : ∃ p ∈ s1.primes.toList, p ≤ k.minFac ∧ p * k < n ∧ c = p * k
    · rw [dif_pos hw]
      obtain ⟨p, hp, hle, _, rfl⟩ := hw
      have hpp := ((hmem p).mp hp).1
      rw [minFac_mul hpp hk hle]; exact Nat.mul_div_cancel _ (by omega)
    · rw [dif_neg hw]
      apply h1good c hc
      obtain ⟨h2, ⟨a, b⟩ | ⟨a, b⟩⟩ := hg
      · rcases Nat.lt_succ_iff_lt_or_eq.mp b with h | h
        · exact Or.inl ⟨h2, Or.inl ⟨a, h⟩⟩
        · subst h; exact Or.inr ⟨rfl, a⟩
      · rcases Nat.lt_succ_iff_lt_or_eq.mp b with h | h
        · exact Or.inl ⟨h2, Or.inr ⟨a, h⟩⟩
        · exact absurd ((hform c hc).mpr ⟨h2, a, h⟩) hw
  · intro c hc hg
    show (inner n k s1.primes.toList s1.mnp).getD c 0 = 0
    rw [r2 c]
    have hw : ¬ ∃ p ∈ s1.primes.toList, p ≤ k.minFac ∧ p * k < n ∧ c = p * k := by
      intro hw
      obtain ⟨h2, hnp, hdiv⟩ := (hform c hc).mp hw
      exact hg ⟨h2, Or.inr ⟨hnp, by omega⟩⟩
    rw [dif_neg hw]
    apply h1bad c hc
    rintro (h | ⟨rfl, hp⟩)
    · exact hg (hmono c h)
    · exact hg ⟨hk, Or.inl ⟨hp, by omega⟩⟩

theorem init_inv (n : Nat) : Inv n 2 (init n) := by
  refine ⟨by simp [init], by simp [init], by simp [init]; decide, ?_, ?_, ?_⟩
  · rintro c hc ⟨h2, ⟨a, b⟩ | ⟨a, b⟩⟩
    · omega
    · obtain ⟨_, hle, _, _, hp⟩ := composite_facts h2 a
      have := hp.two_le; omega
  · intro c hc _
    simp [init, Array.getD_eq_getD_getElem?, hc]
  · intro c hc
    simp only [init, Array.getD_eq_getD_getElem?]
    constructor
    · intro h; simp [hc] at h
    · rintro ⟨a, b⟩; have := a.two_le; omega

theorem fold_inv (n : Nat) : ∀ (len k : Nat) (s : St), Inv n k s → 2 ≤ k → k + len ≤ n →
    Inv n (k + len) ((List.range' k len).foldl (stepI n) s) := by
  intro len
  induction len with
  | zero => intro k s h _ _; simpa using h
  | succ l ih =>
    intro k s h hk hle
    rw [List.range'_succ, List.foldl_cons]
    have := ih (k + 1) (stepI n s k) (step_inv n k s hk (by omega) h) (by omega) (by omega)
    rw [show k + (l + 1) = k + 1 + l by omega]; exact this


/-- the invariant reached by `Sieve::new(N)`: all `i ≤ N` processed (for `N = 0` nothing to do) -/
theorem sieve_inv (N : Nat) : ∃ k, N + 1 ≤ k ∧ Inv (N + 1) k (sieve N) := by
  by_cases hN : N = 0
  · subst hN
    exact ⟨2, by omega, init_inv 1⟩
  · have h := fold_inv (N + 1) (N + 1 - 2) 2 (init (N + 1)) (init_inv _) (by omega) (by omega)
    rw [show 2 + (N + 1 - 2) = N + 1 by omega] at h
    exact ⟨N + 1, Nat.le_refl _, h⟩

theorem good_of_le {k c : Nat} (h2 : 2 ≤ c) (hc : c < k) : Good k c := by
  refine ⟨h2, ?_⟩
  by_cases hp : c.Prime
  · exact Or.inl ⟨hp, hc⟩
  · refine Or.inr ⟨hp, ?_⟩
    have := (composite_facts h2 hp).2.2.2.2.two_le
    have : c / c.minFac < c := Nat.div_lt_self (by omega) this
    omega

/-- the tables of `sieve N` as `getD` facts (all entries `c ≤ N`) -/
theorem sieve_tables (N : Nat) :
    (sieve N).mnp.size = N + 1 ∧ (sieve N).isp.size = N + 1 ∧
    (∀ c, 2 ≤ c → c ≤ N → (sieve N).mnp.getD c 0 = c.minFac) ∧
    (∀ c, c < 2 → (sieve N).mnp.getD c 0 = 0) ∧
    (∀ c, c ≤ N → ((sieve N).isp.getD c false = true ↔ c.Prime)) ∧
    (sieve N).primes.toList = (List.range (N + 1)).filter Nat.Prime := by
  obtain ⟨k, hk, h⟩ := sieve_inv N
  refine ⟨h.szm, h.szi, ?_, ?_, ?_, ?_⟩
  · intro c h2 hc
    exact h.good c (by omega) (good_of_le h2 (by omega))
  · intro c hc
    by_cases hcN : c < N + 1
    · exact h.bad c hcN (fun hg => by have := hg.1; omega)
    · rw [Array.getD_eq_getD_getElem?, Array.getElem?_eq_none (by rw [h.szm]; omega)]; rfl
  · intro c hc
    rw [h.isp c (by omega)]
    constructor
    · exact fun h => h.1
    · exact fun h => ⟨h, by omega⟩
  · rw [h.primes]
    -- primes below k that are listed are exactly the primes ≤ N: k = N+1 or (N = 0, k = 2)
    by_cases hN : N = 0
    · subst hN
      have hk2 : (sieve 0) = init 1 := rfl
      have := (init_inv 1).primes
      rw [← hk2] at this
      rw [← h.primes, this]; decide
    · -- here the invariant was produced with k = N + 1; recover it from the list of primes
      have h' := fold_inv (N + 1) (N + 1 - 2) 2 (init (N + 1)) (init_inv _) (by omega) (by omega)
      rw [show 2 + (N + 1 - 2) = N + 1 by omega] at h'
      rw [← h.primes]
      exact h'.primes

/-! ### accessors -/

theorem minPrime_eq_getD (s : St) (n : Nat) (h : n < s.mnp.size) : minPrime s n = .ok (s.mnp.getD n 0) := by
  unfold minPrime
  rw [dif_pos h, Array.getD_eq_getD_getElem?, Array.getElem?_eq_getElem h]; rfl

theorem isPrime_eq_getD (s : St) (n : Nat) (h : n < s.isp.size) : isPrime s n = .ok (s.isp.getD n false) := by
  unfold isPrime
  rw [dif_pos h, Array.getD_eq_getD_getElem?, Array.getElem?_eq_getElem h]; rfl

/-! ### factorize -/

/-- what `factorize` needs from the table -/
structure MinTable (s : St) (N : Nat) : Prop where
  ge2 : ∀ c, 2 ≤ c → c ≤ N → minPrime s c = .ok c.minFac
  one : 1 ≤ N → minPrime s 1 = .ok 0

theorem sieve_minTable (N : Nat) : MinTable (sieve N) N := by
  obtain ⟨hm, _, h2, h0, _, _⟩ := sieve_tables N
  constructor
  · intro c hc2 hcN
    rw [minPrime_eq_getD _ _ (by rw [hm]; omega), h2 c hc2 hcN]
  · intro h1
    rw [minPrime_eq_getD _ _ (by rw [hm]; omega), h0 1 (by omega)]

/-- the `while min_prime(n) == p` loop strips exactly the `p`-part of `n` -/
theorem nextP_spec {s : St} {N : Nat} (hT : MinTable s N) {p : Nat} (hp : p.Prime) :
    ∀ (fuel n cnt : Nat), 1 ≤ n → n ≤ N → n < 2 ^ fuel → (n = 1 ∨ p ≤ n.minFac) →
      nextP s fuel n p cnt = .ok (cnt + n.factorization p, n / p ^ n.factorization p) := by
  intro fuel
  induction fuel with
  | zero => intro n cnt h1 _ h2 _; simp at h2; omega
  | succ f ih =>
    intro n cnt h1 hN hlt hmin
    unfold nextP
    by_cases hn1 : n = 1
    · subst hn1
      rw [hT.one hN]
      have : (0 : Nat) ≠ p := by have := hp.two_le; omega
      simp [this]
    · have hn2 : 2 ≤ n := by omega
      rw [hT.ge2 n hn2 hN]
      have hmin' : p ≤ n.minFac := by rcases hmin with h | h; exact absurd h hn1; exact h
      by_cases hq : n.minFac = p
      · simp only [hq, if_true]
        have hp0 : p ≠ 0 := by have := hp.two_le; omega
        rw [if_neg hp0]
        have hdvd : p ∣ n := hq ▸ Nat.minFac_dvd n
        have hpos : 1 ≤ n / p := Nat.div_pos (Nat.le_of_dvd (by omega) hdvd) hp.pos
        have hle : n / p ≤ N := le_trans (Nat.div_le_self _ _) hN
        have hlt' : n / p < 2 ^ f := by
          have : n / p ≤ n / 2 := Nat.div_le_div_left hp.two_le (by omega)
          have : n < 2 * 2 ^ f := by rw [pow_succ] at hlt; omega
          omega
        have hmin2 : n / p = 1 ∨ p ≤ (n / p).minFac := by
          by_cases h1' : n / p = 1
          · exact Or.inl h1'
          · right
            have : n.minFac ≤ (n / p).minFac :=
              Nat.minFac_le_of_dvd (Nat.minFac_prime h1').two_le
                (Dvd.dvd.trans (Nat.minFac_dvd _) (Nat.div_dvd_of_dvd hdvd))
            omega
        rw [ih (n / p) (cnt + 1) hpos hle hlt' hmin2]
        have hfac : (n / p).factorization p + 1 = n.factorization p := by
          rw [Nat.factorization_div hdvd]
          simp only [Finsupp.coe_tsub, Pi.sub_apply, hp.factorization_self]
          have := hp.factorization_pos_of_dvd (by omega : n ≠ 0) hdvd
          omega
        rw [← hfac, Nat.div_div_eq_div_mul, pow_succ, Nat.mul_comm]
        congr 2
        omega
      · simp only [hq, if_false]
        have hnd : ¬ p ∣ n := by
          intro hd
          have := Nat.minFac_le_of_dvd hp.two_le hd
          omega
        rw [Nat.factorization_eq_zero_of_not_dvd hnd]
        simp

/-- the property's description of a factorisation of `n`: strictly increasing primes, exact exponents,
    nothing missing (the product is `n`) -/
structure IsFactorization (n : Nat) (l : List (Nat × Nat)) : Prop where
  increasing : (l.map Prod.fst).Pairwise (· < ·)
  exact : ∀ pe ∈ l, pe.1.Prime ∧ pe.2 = n.factorization pe.1 ∧ 0 < pe.2
  prod : (l.map (fun pe => pe.1 ^ pe.2)).prod = n

theorem factorize_ok {s : St} {N : Nat} (hT : MinTable s N) :
    ∀ (fuel n : Nat), 1 ≤ n → n ≤ N → n < 2 ^ fuel →
      ∃ l, factorize s fuel n = .ok l ∧ IsFactorization n l ∧ (∀ pe ∈ l, n.minFac ≤ pe.1) := by
  intro fuel
  induction fuel with
  | zero => intro n h1 _ h2; simp at h2; omega
  | succ f ih =>
    intro n h1 hN hlt
    unfold factorize
    by_cases hn1 : n = 1
    · subst hn1
      exact ⟨[], by simp, ⟨by simp, by simp, by simp⟩, by simp⟩
    · have hn2 : 2 ≤ n := by omega
      have hn0 : n ≠ 0 := by omega
      rw [if_neg hn1, hT.ge2 n hn2 hN]
      have hp : n.minFac.Prime := Nat.minFac_prime hn1
      have hpd : n.minFac ∣ n := Nat.minFac_dvd n
      simp only []
      rw [nextP_spec hT hp (f + 1) n 0 h1 hN hlt (Or.inr (Nat.le_refl _))]
      simp only [Nat.zero_add]
      have hkpos : 0 < n.factorization n.minFac := hp.factorization_pos_of_dvd hn0 hpd
      -- the cofactor
      have hc1 : 1 ≤ n / n.minFac ^ n.factorization n.minFac := Nat.ordCompl_pos _ hn0
      have hcle : n / n.minFac ^ n.factorization n.minFac ≤ n / n.minFac := by
        apply Nat.div_le_div_left _ hp.pos
        calc n.minFac = n.minFac ^ 1 := (pow_one _).symm
          _ ≤ n.minFac ^ n.factorization n.minFac := Nat.pow_le_pow_right hp.pos hkpos
      have hclt : n / n.minFac ^ n.factorization n.minFac < 2 ^ f := by
        have : n / n.minFac ≤ n / 2 := Nat.div_le_div_left hp.two_le (by omega)
        have : n < 2 * 2 ^ f := by rw [pow_succ] at hlt; omega
        omega
      have hcN : n / n.minFac ^ n.factorization n.minFac ≤ N := le_trans (Nat.ordCompl_le _ _) hN
      obtain ⟨l', e, hF, hmin⟩ := ih _ hc1 hcN hclt
      rw [e]
      refine ⟨_, rfl, ?_, ?_⟩
      · -- every prime of the cofactor is a prime of n other than minFac n, hence larger
        have hbig : ∀ pe ∈ l', n.minFac < pe.1 ∧ pe.2 = n.factorization pe.1 := by
          intro pe hpe
          obtain ⟨hq, he, hpos⟩ := hF.exact pe hpe
          have hqd' : pe.1 ∣ n / n.minFac ^ n.factorization n.minFac := by
            by_contra hnd
            rw [Nat.factorization_eq_zero_of_not_dvd hnd] at he; omega
          have hqd : pe.1 ∣ n := Dvd.dvd.trans hqd' (Nat.ordCompl_dvd _ _)
          have hne : pe.1 ≠ n.minFac := by
            intro h; rw [h] at hqd'; exact Nat.not_dvd_ordCompl hp hn0 hqd'
          have hge : n.minFac ≤ pe.1 := Nat.minFac_le_of_dvd hq.two_le hqd
          refine ⟨by omega, ?_⟩
          rw [he, Nat.factorization_ordCompl, Finsupp.erase_ne hne]
        constructor
        · simp only [List.map_cons, List.pairwise_cons]
          refine ⟨?_, hF.increasing⟩
          intro q hq
          obtain ⟨pe, hpe, rfl⟩ := List.mem_map.mp hq
          exact (hbig pe hpe).1
        · intro pe hpe
          rcases List.mem_cons.mp hpe with rfl | hpe
          · exact ⟨hp, rfl, hkpos⟩
          · obtain ⟨hq, _, hpos⟩ := hF.exact pe hpe
            exact ⟨hq, (hbig pe hpe).2, hpos⟩
        · simp only [List.map_cons, List.prod_cons]
          rw [hF.prod]
          exact Nat.ordProj_mul_ordCompl_eq_self n _
      · intro pe hpe
        rcases List.mem_cons.mp hpe with rfl | hpe
        · exact Nat.le_refl _
        · obtain ⟨hq, he, hpos⟩ := hF.exact pe hpe
          have hqd' : pe.1 ∣ n / n.minFac ^ n.factorization n.minFac := by
            by_contra hnd
            rw [Nat.factorization_eq_zero_of_not_dvd hnd] at he; omega
          exact Nat.minFac_le_of_dvd hq.two_le (Dvd.dvd.trans hqd' (Nat.ordCompl_dvd _ _))

/-- nothing is missing from a factorisation in the sense above: every prime divisor is listed -/
theorem IsFactorization.complete {n : Nat} {l : List (Nat × Nat)} (h : IsFactorization n l)
    {p : Nat} (hp : p.Prime) (hd : p ∣ n) : ∃ e, (p, e) ∈ l := by
  have hprod := h.prod
  have : p ∣ (l.map (fun pe => pe.1 ^ pe.2)).prod := by rw [hprod]; exact hd
  obtain ⟨x, hx, hpx⟩ := (Prime.dvd_prod_iff (Nat.Prime.prime hp)).mp this
  obtain ⟨pe, hpe, rfl⟩ := List.mem_map.mp hx
  have hq := (h.exact pe hpe).1
  have := (Nat.prime_dvd_prime_iff_eq hp hq).mp (hp.dvd_of_dvd_pow hpx)
  exact ⟨pe.2, by rw [this]; exact hpe⟩


/-! ### the executable specification (trial division) is the arithmetic definition -/

theorem specMinFacFrom_eq (n : Nat) (hn : 2 ≤ n) :
    ∀ (fuel d : Nat), 2 ≤ d → (∀ k, 2 ≤ k → k < d → ¬ k ∣ n) → n < (d + fuel) * (d + fuel) →
      specMinFacFrom n fuel d = n.minFac := by
  have hmf : n.minFac.Prime := Nat.minFac_prime (by omega)
  have hge : ∀ d, (∀ k, 2 ≤ k → k < d → ¬ k ∣ n) → d ≤ n.minFac := by
    intro d hd
    by_contra hlt
    exact hd n.minFac hmf.two_le (by omega) (Nat.minFac_dvd n)
  have hprime : ∀ d, (∀ k, 2 ≤ k → k < d → ¬ k ∣ n) → n < d * d → n.minFac = n := by
    intro d hd hlt
    by_contra hne
    have hnp : ¬ n.Prime := fun hp => hne hp.minFac_eq
    have h1 := Nat.minFac_sq_le_self (by omega) hnp
    have h2 := hge d hd
    have : d * d ≤ n.minFac * n.minFac := Nat.mul_le_mul h2 h2
    rw [sq] at h1
    omega
  intro fuel
  induction fuel with
  | zero =>
    intro d _ hd hlt
    simp only [specMinFacFrom]
    exact (hprime d hd (by simpa using hlt)).symm
  | succ f ih =>
    intro d hd2 hd hlt
    unfold specMinFacFrom
    by_cases h1 : d * d > n
    · rw [if_pos h1]; exact (hprime d hd h1).symm
    · rw [if_neg h1]
      by_cases h2 : n % d = 0
      · rw [if_pos h2]
        have := Nat.minFac_le_of_dvd hd2 (Nat.dvd_of_mod_eq_zero h2)
        have := hge d hd
        omega
      · rw [if_neg h2]
        apply ih (d + 1) (by omega)
        · intro k hk2 hkd
          by_cases hkd' : k < d
          · exact hd k hk2 hkd'
          · have : k = d := by omega
            subst this
            exact fun hdvd => h2 (Nat.mod_eq_zero_of_dvd hdvd)
        · rw [show d + 1 + f = d + (f + 1) by omega]; exact hlt

theorem specMinFac_eq (n : Nat) (hn : 2 ≤ n) : specMinFac n = n.minFac := by
  unfold specMinFac
  apply specMinFacFrom_eq n hn n 2 (Nat.le_refl _)
  · intro k h1 h2; omega
  · nlinarith

theorem specIsPrime_eq (n : Nat) : specIsPrime n = decide n.Prime := by
  unfold specIsPrime
  by_cases hn : 2 ≤ n
  · rw [specMinFac_eq n hn]
    by_cases hp : n.Prime
    · simp [hp, hn]
    · have : ¬ n.minFac = n := fun h => hp (Nat.prime_def_minFac.mpr ⟨hn, h⟩)
      simp [hp, this]
  · have hp : ¬ n.Prime := fun hp => hn hp.two_le
    simp [hn, hp]

theorem specPrimes_eq (N : Nat) : specPrimes N = (List.range (N + 1)).filter Nat.Prime := by
  unfold specPrimes
  apply List.filter_congr
  intro x _
  rw [specIsPrime_eq]


/-! ### the trial-division factorisation spec, and uniqueness of factorisations in the sense of `IsFactorization` -/

/-- prepend the least prime with its full exponent to a factorisation of the cofactor -/
theorem IsFactorization.cons_minFac {n : Nat} (hn2 : 2 ≤ n) {l' : List (Nat × Nat)}
    (hF : IsFactorization (n / n.minFac ^ n.factorization n.minFac) l') :
    IsFactorization n ((n.minFac, n.factorization n.minFac) :: l') := by
  have hn0 : n ≠ 0 := by omega
  have hp : n.minFac.Prime := Nat.minFac_prime (by omega)
  have hkpos : 0 < n.factorization n.minFac := hp.factorization_pos_of_dvd hn0 (Nat.minFac_dvd n)
  have hbig : ∀ pe ∈ l', n.minFac < pe.1 ∧ pe.2 = n.factorization pe.1 := by
    intro pe hpe
    obtain ⟨hq, he, hpos⟩ := hF.exact pe hpe
    have hqd' : pe.1 ∣ n / n.minFac ^ n.factorization n.minFac := by
      by_contra hnd
      rw [Nat.factorization_eq_zero_of_not_dvd hnd] at he; omega
    have hqd : pe.1 ∣ n := Dvd.dvd.trans hqd' (Nat.ordCompl_dvd _ _)
    have hne : pe.1 ≠ n.minFac := by
      intro h; rw [h] at hqd'; exact Nat.not_dvd_ordCompl hp hn0 hqd'
    have hge : n.minFac ≤ pe.1 := Nat.minFac_le_of_dvd hq.two_le hqd
    refine ⟨by omega, ?_⟩
    rw [he, Nat.factorization_ordCompl, Finsupp.erase_ne hne]
  constructor
  · simp only [List.map_cons, List.pairwise_cons]
    refine ⟨?_, hF.increasing⟩
    intro q hq
    obtain ⟨pe, hpe, rfl⟩ := List.mem_map.mp hq
    exact (hbig pe hpe).1
  · intro pe hpe
    rcases List.mem_cons.mp hpe with rfl | hpe
    · exact ⟨hp, rfl, hkpos⟩
    · obtain ⟨hq, _, hpos⟩ := hF.exact pe hpe
      exact ⟨hq, (hbig pe hpe).2, hpos⟩
  · simp only [List.map_cons, List.prod_cons]
    rw [hF.prod]
    exact Nat.ordProj_mul_ordCompl_eq_self n _

theorem specStrip_eq {p : Nat} (hp : p.Prime) :
    ∀ (fuel n e : Nat), 1 ≤ n → n < 2 ^ fuel →
      specStrip fuel n p e = (e + n.factorization p, n / p ^ n.factorization p) := by
  intro fuel
  induction fuel with
  | zero => intro n e h1 h2; simp at h2; omega
  | succ f ih =>
    intro n e h1 hlt
    unfold specStrip
    by_cases hd : n % p = 0
    · have hdvd : p ∣ n := Nat.dvd_of_mod_eq_zero hd
      rw [if_pos ⟨hp.two_le, h1, hd⟩]
      have hpos : 1 ≤ n / p := Nat.div_pos (Nat.le_of_dvd (by omega) hdvd) hp.pos
      have hlt' : n / p < 2 ^ f := by
        have : n / p ≤ n / 2 := Nat.div_le_div_left hp.two_le (by omega)
        have : n < 2 * 2 ^ f := by rw [pow_succ] at hlt; omega
        omega
      rw [ih (n / p) (e + 1) hpos hlt']
      have hfac : (n / p).factorization p + 1 = n.factorization p := by
        rw [Nat.factorization_div hdvd]
        simp only [Finsupp.coe_tsub, Pi.sub_apply, hp.factorization_self]
        have := hp.factorization_pos_of_dvd (by omega : n ≠ 0) hdvd
        omega
      rw [← hfac]
      have e1 : e + 1 + (n / p).factorization p = e + ((n / p).factorization p + 1) := by omega
      have e2 : n / p / p ^ (n / p).factorization p = n / p ^ ((n / p).factorization p + 1) := by
        rw [Nat.div_div_eq_div_mul, pow_succ, Nat.mul_comm]
      rw [e1, e2]
    · rw [if_neg (fun h => hd h.2.2)]
      have hnd : ¬ p ∣ n := fun h => hd (Nat.mod_eq_zero_of_dvd h)
      rw [Nat.factorization_eq_zero_of_not_dvd hnd]
      simp

theorem specFactorize_ok : ∀ (fuel n : Nat), 1 ≤ n → n < 2 ^ fuel →
    IsFactorization n (specFactorize fuel n) := by
  intro fuel
  induction fuel with
  | zero => intro n h1 h2; simp at h2; omega
  | succ f ih =>
    intro n h1 hlt
    unfold specFactorize
    by_cases hn1 : n ≤ 1
    · have : n = 1 := by omega
      subst this
      rw [if_pos hn1]
      exact ⟨by simp, by simp, by simp⟩
    · have hn2 : 2 ≤ n := by omega
      have hn0 : n ≠ 0 := by omega
      have hp : n.minFac.Prime := Nat.minFac_prime (by omega)
      rw [if_neg hn1]
      simp only [specMinFac_eq n hn2, specStrip_eq hp (f + 1) n 0 h1 hlt, Nat.zero_add]
      have hkpos : 0 < n.factorization n.minFac := hp.factorization_pos_of_dvd hn0 (Nat.minFac_dvd n)
      have hc1 : 1 ≤ n / n.minFac ^ n.factorization n.minFac := Nat.ordCompl_pos _ hn0
      have hcle : n / n.minFac ^ n.factorization n.minFac ≤ n / n.minFac := by
        apply Nat.div_le_div_left _ hp.pos
        calc n.minFac = n.minFac ^ 1 := (pow_one _).symm
          _ ≤ n.minFac ^ n.factorization n.minFac := Nat.pow_le_pow_right hp.pos hkpos
      have hclt : n / n.minFac ^ n.factorization n.minFac < 2 ^ f := by
        have : n / n.minFac ≤ n / 2 := Nat.div_le_div_left hp.two_le (by omega)
        have : n < 2 * 2 ^ f := by rw [pow_succ] at hlt; omega
        omega
      exact (ih _ hc1 hclt).cons_minFac hn2

/-- a factorisation in the sense of `IsFactorization` is unique -/
theorem IsFactorization.unique {n : Nat} {l₁ l₂ : List (Nat × Nat)}
    (h₁ : IsFactorization n l₁) (h₂ : IsFactorization n l₂) : l₁ = l₂ := by
  have hmem : ∀ {l : List (Nat × Nat)}, IsFactorization n l → ∀ p, p ∈ l.map Prod.fst ↔ p.Prime ∧ p ∣ n := by
    intro l h p
    constructor
    · intro hp
      obtain ⟨pe, hpe, rfl⟩ := List.mem_map.mp hp
      obtain ⟨hq, he, hpos⟩ := h.exact pe hpe
      refine ⟨hq, ?_⟩
      by_contra hnd
      rw [Nat.factorization_eq_zero_of_not_dvd hnd] at he; omega
    · rintro ⟨hp, hd⟩
      obtain ⟨e, he⟩ := h.complete hp hd
      exact List.mem_map.mpr ⟨(p, e), he, rfl⟩
  have hfst : l₁.map Prod.fst = l₂.map Prod.fst := by
    apply List.Perm.eq_of_pairwise (le := (· < ·)) (fun a b _ _ hab hba => absurd hab (Nat.lt_asymm hba))
      h₁.increasing h₂.increasing
    rw [List.perm_ext_iff_of_nodup (h₁.increasing.imp (fun h => Nat.ne_of_lt h))
      (h₂.increasing.imp (fun h => Nat.ne_of_lt h))]
    intro p; rw [hmem h₁, hmem h₂]
  have hrebuild : ∀ {l : List (Nat × Nat)}, IsFactorization n l →
      l = (l.map Prod.fst).map (fun p => (p, n.factorization p)) := by
    intro l h
    rw [List.map_map]
    conv_lhs => rw [← List.map_id l]
    apply List.map_congr_left
    intro pe hpe
    have := (h.exact pe hpe).2.1
    simp only [id, Function.comp]
    rw [← this]
  rw [hrebuild h₁, hrebuild h₂, hfst]

/-! ### tables of a smaller limit read off a larger table (`primesUpTo`) -/

theorem takeWhile_eq_nil_of_forall_not {α} (p : α → Bool) : ∀ (l : List α), (∀ a ∈ l, p a = false) → l.takeWhile p = []
  | [], _ => rfl
  | a :: l, h => by
    rw [List.takeWhile_cons, h a (by simp)]
    rfl

/-- cutting the increasing list of the `P`-numbers below `M + 1` at `N ≤ M` gives the `P`-numbers below `N + 1` -/
theorem takeWhile_le_filter_range (P : Nat → Bool) (N M : Nat) (h : N ≤ M) :
    ((List.range (M + 1)).filter P).takeWhile (fun p => decide (p ≤ N)) = (List.range (N + 1)).filter P := by
  have hsplit : List.range (M + 1) = List.range (N + 1) ++ List.range' (N + 1) (M - N) := by
    rw [List.range_eq_range', List.range_eq_range']
    have := List.range'_append_1 (s := 0) (m := N + 1) (n := M - N)
    rw [Nat.zero_add] at this
    rw [this]; congr 1; omega
  rw [hsplit, List.filter_append, List.takeWhile_append_of_pos, takeWhile_eq_nil_of_forall_not, List.append_nil]
  · intro a ha
    have := (List.mem_filter.mp ha).1
    rw [List.mem_range'] at this
    obtain ⟨i, hi, rfl⟩ := this
    simp; omega
  · intro a ha
    have := (List.mem_filter.mp ha).1
    rw [List.mem_range] at this
    simp; omega

theorem foldUpTo_eq {β : Type} (f : β → Nat → β) (N : Nat) : ∀ (ps : List Nat) (b : β),
    foldUpTo f N ps b = (primesUpToL ps N).foldl f b
  | [], b => rfl
  | p :: ps, b => by
    unfold foldUpTo primesUpToL
    rw [List.takeWhile_cons]
    by_cases h : p ≤ N
    · rw [if_pos h, decide_eq_true h]
      exact foldUpTo_eq f N ps (f b p)
    · rw [if_neg h, decide_eq_false h]
      rfl

/-! ### what the consumption modes of the factorisation iterator mean arithmetically -/

theorem IsFactorization.fst_toFinset {n : Nat} {l : List (Nat × Nat)} (h : IsFactorization n l) (hn : n ≠ 0) :
    (l.map Prod.fst).toFinset = n.primeFactors := by
  ext p
  rw [List.mem_toFinset, Nat.mem_primeFactors]
  constructor
  · intro hp
    obtain ⟨pe, hpe, rfl⟩ := List.mem_map.mp hp
    obtain ⟨hq, he, hpos⟩ := h.exact pe hpe
    refine ⟨hq, ?_, hn⟩
    by_contra hnd
    rw [Nat.factorization_eq_zero_of_not_dvd hnd] at he; omega
  · rintro ⟨hp, hd, _⟩
    obtain ⟨e, he⟩ := h.complete hp hd
    exact List.mem_map.mpr ⟨(p, e), he, rfl⟩

theorem IsFactorization.nodup {n : Nat} {l : List (Nat × Nat)} (h : IsFactorization n l) : (l.map Prod.fst).Nodup :=
  h.increasing.imp (fun h => Nat.ne_of_lt h)

theorem IsFactorization.length_eq {n : Nat} {l : List (Nat × Nat)} (h : IsFactorization n l) (hn : n ≠ 0) :
    l.length = n.primeFactors.card := by
  rw [← h.fst_toFinset hn, List.toFinset_card_of_nodup h.nodup, List.length_map]

theorem IsFactorization.prod_succ_eq_card_divisors {n : Nat} {l : List (Nat × Nat)} (h : IsFactorization n l) (hn : n ≠ 0) :
    (l.map (fun pe => pe.2 + 1)).prod = n.divisors.card := by
  rw [Nat.card_divisors hn, ← h.fst_toFinset hn, List.prod_toFinset _ h.nodup, List.map_map]
  congr 1
  apply List.map_congr_left
  intro pe hpe
  simp only [Function.comp]
  rw [← (h.exact pe hpe).2.1]

end Rlib.Sieve
