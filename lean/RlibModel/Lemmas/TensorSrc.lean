import RlibModel.Generated.TensorSrc
import RlibModel.Lemmas.Tensor
import RlibModel.Lemmas.ArrSrc
/-!
# The definitions regenerated from `rlib/tensor/src/lib.rs` equal the hand-written model of `Tensor<T, D>`

`Rlib.TensorSrc.*` is written by `tools/rs2lean_typed.py` from the Rust source text on every run of `./check C19`: `dims : [usize; D]`
and an index `[usize; D]` are `Array Int`s with checked indexing, `data : Vec<T>` is an `Array E0` over an abstract element type,
`dims.contains(&0)` / `dims.iter().product()` are `SrcVec.contains` / `SrcVec.product` (checked `usize` multiplications), the loop
`for i in (0..D).rev()` of `get_index` runs on `fuel` with its three `usize` operations checked.  The hand-written model
(`Model/Tensor.lean`) works on `List Nat` / `List α`.  `embl` embeds a list of naturals.
-/
set_option linter.unusedSimpArgs false
set_option linter.unusedVariables false
namespace Rlib.TensorSrc
open Rlib Rlib.Tensor Rlib.SrcVec

theorem contains_embl (l : List Nat) : SrcVec.contains (embl l) 0 = l.contains 0 := by
  unfold SrcVec.contains embl
  rw [Bool.eq_iff_iff]
  simp

theorem productFrom_emb : ∀ (l : List Nat) (acc : Nat),
    productFrom usizeT (acc : Int) (l.map (fun (x : Nat) => (x : Int))) = (prodUFrom acc l).map (fun (x : Nat) => (x : Int))
  | [], acc => rfl
  | x :: xs, acc => by
    rw [List.map_cons, productFrom, prodUFrom]
    have hc : ((acc : Int) * (x : Int)) = ((acc * x : Nat) : Int) := by push_cast; rfl
    rw [hc, checked_nat]
    by_cases h : acc * x < 2 ^ 64
    · rw [if_pos h, if_pos h]
      exact productFrom_emb xs (acc * x)
    · rw [if_neg h, if_neg h]; rfl

theorem product_embl (l : List Nat) :
    SrcVec.product usizeT (embl l) = (prodU l).map (fun (x : Nat) => (x : Int)) := by
  unfold SrcVec.product prodU embl
  exact productFrom_emb l 1

/-- what a constructor returns, as the translator reads it: `(dims, data)` -/
def outT {α : Type} (t : Tensor α) : Array Int × Array α := (embl t.dims, t.data.toArray)

theorem from_vec_eq_model {α : Type} (fuel : Nat) (D : Int) (dims : List Nat) (data : Array α) :
    from_vec fuel D (embl dims) data = (fromVecU dims data.toList).map outT := by
  unfold from_vec fromVecU
  rw [contains_embl, product_embl]
  by_cases h0 : 0 ∈ dims
  · simp [h0, Except.map]
  · cases hp : prodU dims with
    | error e => simp [h0, Except.map]
    | ok p =>
      by_cases hl : p = data.size
      · simp [h0, Except.map, SrcVec.len, hl, outT]
      · have : ¬ ((p : Int) = (data.size : Int)) := by
          intro h; apply hl; exact_mod_cast h
        simp [h0, Except.map, SrcVec.len, hl, this]

theorem from_slice_eq_model {α : Type} (fuel : Nat) (D : Int) (dims : List Nat) (data : Array α) :
    from_slice fuel D (embl dims) data = (fromSliceU dims data.toList).map outT := by
  unfold from_slice fromSliceU
  rw [contains_embl, product_embl]
  by_cases h0 : 0 ∈ dims
  · simp [h0, Except.map]
  · cases hp : prodU dims with
    | error e => simp [h0, Except.map]
    | ok p =>
      by_cases hl : p = data.size
      · simp [h0, Except.map, SrcVec.len, hl, outT]
      · have : ¬ ((p : Int) = (data.size : Int)) := by
          intro h; apply hl; exact_mod_cast h
        simp [h0, Except.map, SrcVec.len, hl, this]

theorem new_eq_model {α : Type} (fuel : Nat) (D : Int) (dims : List Nat) (value : α) :
    new fuel D (embl dims) value = (newU dims value).map outT := by
  unfold new newU
  rw [contains_embl, product_embl]
  by_cases h0 : 0 ∈ dims
  · simp [h0, Except.map]
  · cases hp : prodU dims with
    | error e => simp [h0, Except.map]
    | ok p => simp [h0, Except.map, outT, SrcVec.replicate]

theorem dims_eq_model {α : Type} (fuel : Nat) (D : Int) (t : Tensor α) :
    TensorSrc.dims fuel D (embl t.dims) t.data.toArray = .ok (embl t.dims) := rfl

theorem dim_eq_model {α : Type} (fuel : Nat) (D : Int) (t : Tensor α) (i : Nat) :
    TensorSrc.dim fuel D (embl t.dims) t.data.toArray (i : Int) = (Tensor.dim t i).map (fun (x : Nat) => (x : Int)) := by
  unfold TensorSrc.dim Tensor.dim
  rw [index_embl]
  by_cases h : i < t.dims.length
  · simp [h, Except.map]
  · simp [h, Except.map]

theorem take_succ_reverse (l : List Nat) (k : Nat) (h : k < l.length) :
    (l.take (k + 1)).reverse = l[k] :: (l.take k).reverse := by
  rw [List.take_succ, List.getElem?_eq_getElem h]
  simp

/-- the loop `for i in (0..D).rev()` of `get_index`, started at counter `k`, is `getIndexRevU` on the first `k` dimensions reversed -/
theorem get_index_loop0_eq {α : Type} (c0 : Int) (dims idx : List Nat) (data : Array α) :
    ∀ (k fuel r s : Nat), k ≤ dims.length → k ≤ idx.length → k + 1 ≤ fuel →
      (get_index_loop0 fuel c0 0 (k : Int) (embl idx) (embl dims) data (r : Int) (s : Int)).map (fun x => x.2.1) =
        (getIndexRevU (dims.take k).reverse (idx.take k).reverse r s).map (fun (x : Nat) => (x : Int)) := by
  intro k
  induction k with
  | zero =>
    intro fuel r s _ _ hf
    obtain ⟨f, rfl⟩ : ∃ f, fuel = f + 1 := ⟨fuel - 1, by omega⟩
    simp [get_index_loop0, getIndexRevU, Except.map]
  | succ k ih =>
    intro fuel r s hd hi hf
    obtain ⟨f, rfl⟩ : ∃ f, fuel = f + 1 := ⟨fuel - 1, by omega⟩
    have hkd : k < dims.length := by omega
    have hki : k < idx.length := by omega
    rw [take_succ_reverse dims k hkd, take_succ_reverse idx k hki, getIndexRevU, get_index_loop0]
    have hc : ((0 : Int) < ((k + 1 : Nat) : Int)) := by omega
    have hv : (((k + 1 : Nat) : Int) - 1) = (k : Int) := by omega
    simp only [hc, if_true, hv, index_embl, hki, hkd, dite_true]
    by_cases hlt : idx[k] < dims[k]
    · have hlt' : ((idx[k] : Nat) : Int) < ((dims[k] : Nat) : Int) := by exact_mod_cast hlt
      have e1 : ((s : Int) * ((idx[k] : Nat) : Int)) = ((s * idx[k] : Nat) : Int) := by push_cast; rfl
      have e3 : ((s : Int) * ((dims[k] : Nat) : Int)) = ((s * dims[k] : Nat) : Int) := by push_cast; rfl
      have hle' : ¬ (((dims[k] : Nat) : Int) ≤ ((idx[k] : Nat) : Int)) := by omega
      -- the assertion in any of the forms `a < b`, `b > a`, `!(a >= b)`, `!(b <= a)`
      simp only [ge_iff_le, gt_iff_lt, hlt', hle', not_true_eq_false, not_false_eq_true, if_false, hlt, if_true, e1, e3, checked_nat]
      by_cases h1 : s * idx[k] < 2 ^ 64
      · have e2 : ((r : Int) + ((s * idx[k] : Nat) : Int)) = ((r + s * idx[k] : Nat) : Int) := by push_cast; rfl
        simp only [h1, if_true, not_true_eq_false, if_false, e2, checked_nat]
        by_cases h2 : r + s * idx[k] < 2 ^ 64
        · simp only [h2, if_true, not_true_eq_false, if_false]
          by_cases h3 : s * dims[k] < 2 ^ 64
          · simp only [h3, if_true, not_true_eq_false, if_false]
            exact ih f (r + s * idx[k]) (s * dims[k]) (by omega) (by omega) (by omega)
          · have h3' : ¬ s * dims[k] < 18446744073709551616 := h3
            have h3'' : 18446744073709551616 ≤ s * dims[k] := by omega
            simp [h3', h3'', Except.map]
        · have h2' : ¬ r + s * idx[k] < 18446744073709551616 := h2
          have h2'' : 18446744073709551616 ≤ r + s * idx[k] := by omega
          simp [h2', h2'', Except.map]
      · have h1' : ¬ s * idx[k] < 18446744073709551616 := h1
        have h1'' : 18446744073709551616 ≤ s * idx[k] := by omega
        simp [h1', h1'', Except.map]
    · have hlt' : ¬ ((idx[k] : Nat) : Int) < ((dims[k] : Nat) : Int) := by
        intro h; apply hlt; exact_mod_cast h
      have hle' : (((dims[k] : Nat) : Int) ≤ ((idx[k] : Nat) : Int)) := by omega
      simp [hlt, hlt', hle', Except.map]

/-- `get_index`: for index and shape lists of length `D` and `D + 1` rounds of fuel the regenerated function returns what the
    checked model `getIndexU` returns — the offset, `panic:assert`, or `panic:overflow` — whatever the magnitudes. -/
theorem get_index_eq_model {α : Type} (fuel D : Nat) (dims idx : List Nat) (data : Array α)
    (hd : dims.length = D) (hi : idx.length = D) (hf : D + 1 ≤ fuel) :
    get_index fuel (D : Int) (embl dims) data (embl idx) = (getIndexU dims idx).map (fun (x : Nat) => (x : Int)) := by
  have h := get_index_loop0_eq (D : Int) dims idx data D fuel 0 1 (by omega) (by omega) hf
  rw [List.take_of_length_le (by omega), List.take_of_length_le (by omega)] at h
  unfold get_index getIndexU
  simp only []
  rw [← h]
  cases get_index_loop0 fuel (D : Int) 0 (D : Int) (embl idx) (embl dims) data ((0 : Nat) : Int) ((1 : Nat) : Int) with
  | error e => simp [Except.map]
  | ok x => obtain ⟨a, b, c⟩ := x; simp [Except.map]

theorem index_eq_model {α : Type} (fuel D : Nat) (t : Tensor α) (idx : List Nat)
    (hd : t.dims.length = D) (hi : idx.length = D) (hf : D + 1 ≤ fuel)
    (hpos : ∀ d ∈ t.dims, 0 < d) (hb : prod t.dims < 2 ^ 64) :
    TensorSrc.index fuel (D : Int) (embl t.dims) t.data.toArray (embl idx) = Tensor.index t idx := by
  unfold TensorSrc.index Tensor.index
  rw [get_index_eq_model fuel D t.dims idx _ hd hi hf, getIndexU_eq _ _ hpos hb]
  cases getIndex t.dims idx with
  | error e => rfl
  | ok k =>
    simp only [Except.map, index_nat]
    by_cases h : k < t.data.length
    · simp [h]
    · simp [h]

/-- `index_mut` returns a `&mut` place; the translator reads it as the struct (unchanged) and the current value of the place -/
theorem index_mut_eq_model {α : Type} (fuel D : Nat) (t : Tensor α) (idx : List Nat)
    (hd : t.dims.length = D) (hi : idx.length = D) (hf : D + 1 ≤ fuel)
    (hpos : ∀ d ∈ t.dims, 0 < d) (hb : prod t.dims < 2 ^ 64) :
    TensorSrc.index_mut fuel (D : Int) (embl t.dims) t.data.toArray (embl idx) =
      (Tensor.index t idx).map (fun a => (embl t.dims, t.data.toArray, a)) := by
  unfold TensorSrc.index_mut Tensor.index
  rw [get_index_eq_model fuel D t.dims idx _ hd hi hf, getIndexU_eq _ _ hpos hb]
  cases getIndex t.dims idx with
  | error e => rfl
  | ok k =>
    simp only [Except.map, index_nat]
    by_cases h : k < t.data.length
    · simp [h]
    · simp [h]

theorem eq_eq_model {α : Type} [BEq α] (fuel : Nat) (D : Int) (t u : Tensor α) :
    TensorSrc.eq fuel D (embl t.dims) t.data.toArray (embl u.dims) u.data.toArray = .ok (Tensor.eq t u) := by
  unfold TensorSrc.eq Tensor.eq
  congr 1
  rw [Bool.eq_iff_iff]
  simp only [decide_eq_true_eq, Bool.and_eq_true, beq_iff_eq]
  constructor
  · rintro ⟨h1, h2⟩
    exact ⟨embl_inj h1, by simpa using h2⟩
  · rintro ⟨h1, h2⟩
    exact ⟨by rw [h1], by simpa using h2⟩

end Rlib.TensorSrc
