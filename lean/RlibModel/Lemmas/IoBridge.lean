import RlibModel.Lemmas.Writer
import RlibModel.Lemmas.ReaderDecimal
import RlibModel.Lemmas.ReaderSched
import RlibModel.Model.IoRoundTrip
/-!
Bridge between the two halves of the `io` engine (core Lean only):

* the Writer model (C09: `Model/{Decimal,Writer}.lean`, `Lemmas/{Decimal,Writer}.lean`) with its own
  decimal text `decimalU/decimalS` (`Nat.toDigits 10`) and its own spec tokenizer `Decimal.tokenize`;
* the Reader model (C08: `Model/Reader.lean`, `Lemmas/Reader*.lean`) with its decimal text
  `Reader.decimal/Reader.render` and its executable specification `specScript` on the byte list.

Nothing in either model is changed; every lemma here is about the existing definitions.

1. `decimal_eq`, `render_eq`  — the two decimal texts are the same byte strings.
2. `tokenize_skip`, `tokenize_word` — the Writer's right-to-left token scan obeys the Reader spec's
   recursion `skip whitespace; take the maximal non-whitespace run; continue`.
3. `spec_reads_back` — if the Writer's tokenizer splits a byte string into the texts of a list of
   leaves, the Reader's specification, asked to `read::<T>()` each leaf and then `is_eof()`, returns
   the leaves' values and `true`.
4. `read_back` — the same for the Reader *model* on any source that delivers those bytes (any
   chunking, any `Interrupted` placement, any buffer size ≥ 1), via C08's `runScript_spec`.
5. lines: `specLine_line`, `spec_reads_lines`, `spec_read_lines`.
6. `bytewise` — the byte-by-byte delivery with an `Interrupted` before every byte, for any input.
7. read plans (`Model/IoRoundTrip.lean`): `spec_atom_token` (continuation style: one leaf, then the tokenizer
   goes on behind it), `spec_tuple_tokens`, `spec_vec_tokens`, `spec_grp_tokens`, `spec_plan`, `read_back_plan`
   — tuples of any arity, `read_vec`, `read::<char>()` for one-byte words; `planOps_*`: the harness plan is a
   plan; `harnessSched_pos`; `readBack_eq` — what `drv_writer` computes for an `r` line.
8. `spec_reads_chars` — characters written with `write_char`, read with `read::<char>()`.
-/
namespace Rlib.IoBridge
open Rlib.Reader (Event srcBytes SrcOk)

/-! ### 1. The two decimal texts coincide -/

theorem decimal_eq_digs : ∀ v : Nat, v ≠ 0 → Reader.decimal v = Decimal.digs v := by
  intro v
  induction v using Nat.strongRecOn with
  | _ v ih =>
    intro hv
    by_cases h : v < 10
    · have h10 : v / 10 = 0 := by omega
      have hm : v % 10 + 48 = 48 + v := by omega
      rw [Reader.decimal_lt v h, Decimal.digs_pos hv, h10, Decimal.digs_zero, Decimal.digitByte, hm]
      rfl
    · have hm : v % 10 + 48 = 48 + v % 10 := by omega
      rw [Reader.decimal_ge v h, Decimal.digs_pos hv, ih (v / 10) (by omega) (by omega), Decimal.digitByte, hm]

/-- The digits the Reader-side lemmas talk about are the Writer's standard decimal text. -/
theorem decimal_eq (v : Nat) : Reader.decimal v = Decimal.decimalU v := by
  by_cases h : v = 0
  · subst h; rw [Reader.decimal_lt 0 (by omega), Decimal.decimalU_zero]; rfl
  · rw [decimal_eq_digs v h, Decimal.decimalU_eq_digs v h]

/-- `Reader.render` (what C08's `parse_render` / `read_rendered_int` invert) is `Decimal.decimalS`
    (what the Writer is proved to produce). -/
theorem render_eq (x : Int) : Reader.render x = Decimal.decimalS x := by
  unfold Reader.render Decimal.decimalS
  simp only [decimal_eq]

/-! ### 2. The two tokenizers coincide -/

theorem isWs_eq (b : UInt8) : Decimal.isWs b = Reader.isWs b := rfl

theorem dropWhile_stop (p : UInt8 → Bool) : ∀ l : List UInt8,
    l.dropWhile p = [] ∨ ∃ c r, l.dropWhile p = c :: r ∧ p c = false := by
  intro l
  induction l with
  | nil => exact Or.inl rfl
  | cons x xs ih =>
    by_cases h : p x = true
    · rw [List.dropWhile_cons, if_pos h]; exact ih
    · exact Or.inr ⟨x, xs, by rw [List.dropWhile_cons, if_neg h], by simpa using h⟩

theorem mem_takeWhile (p : UInt8 → Bool) : ∀ (l : List UInt8) (b : UInt8), b ∈ l.takeWhile p → p b = true := by
  intro l
  induction l with
  | nil => intro b hb; simp at hb
  | cons x xs ih =>
    intro b hb
    by_cases h : p x = true
    · rw [List.takeWhile_cons, if_pos h] at hb
      rcases List.mem_cons.mp hb with rfl | hb
      · exact h
      · exact ih b hb
    · rw [List.takeWhile_cons, if_neg h] at hb; simp at hb

theorem skip_head (bs : List UInt8) (c : UInt8) (r : List UInt8) (h : Reader.specSkipWs bs = c :: r) :
    Reader.isWs c = false := by
  unfold Reader.specSkipWs at h
  rcases dropWhile_stop Reader.isWs bs with h0 | ⟨x, xs, h1, hx⟩
  · rw [h0] at h; cases h
  · rw [h1] at h; cases h; exact hx

theorem tok_split (r : List UInt8) : r = (Reader.specTok r).1 ++ (Reader.specTok r).2 := by
  simp only [Reader.specTok]
  exact (List.takeWhile_append_dropWhile).symm

theorem tok_tail (r : List UInt8) :
    (Reader.specTok r).2 = [] ∨ ∃ c x, (Reader.specTok r).2 = c :: x ∧ Reader.isWs c = true := by
  rcases dropWhile_stop (fun c => !Reader.isWs c) r with h | ⟨c, x, h, hc⟩
  · exact Or.inl h
  · exact Or.inr ⟨c, x, h, by simpa using hc⟩

theorem tok_word (r : List UInt8) : ∀ b ∈ (Reader.specTok r).1, Reader.isWs b = false := by
  intro b hb
  have := mem_takeWhile _ _ b hb
  simpa using this

/-- Leading whitespace: the Writer's tokenizer ignores exactly what `skip_whitespace` drops. -/
theorem tokenize_skip : ∀ bs : List UInt8, Decimal.tokenize bs = Decimal.tokenize (Reader.specSkipWs bs) := by
  intro bs
  induction bs with
  | nil => rfl
  | cons b rest ih =>
    unfold Reader.specSkipWs at ih ⊢
    by_cases h : Reader.isWs b = true
    · rw [List.dropWhile_cons, if_pos h, Decimal.tokenize_ws_cons (b := b) h rest]; exact ih
    · rw [List.dropWhile_cons, if_neg h]

/-- On a byte string that starts with a non-whitespace byte the first token of the Writer's
    tokenizer is the Reader spec's token `specTok`, and tokenizing continues behind it. -/
theorem tokenize_word (r : List UInt8) (c : UInt8) (r' : List UInt8) (hr : r = c :: r')
    (hc : Reader.isWs c = false) :
    Decimal.tokenize r = (Reader.specTok r).1 :: Decimal.tokenize (Reader.specTok r).2 := by
  have hne : (Reader.specTok r).1 ≠ [] := by
    subst hr; simp [Reader.specTok, hc]
  have hb : Decimal.Bdry (Reader.specTok r).2 := by
    rcases tok_tail r with h | ⟨x, xs, h, hx⟩
    · rw [h]; exact True.intro
    · rw [h]; exact hx
  have := Decimal.tokenize_word_append (Reader.specTok r).1 (Reader.specTok r).2 hne (tok_word r) hb
  rw [← tok_split r] at this
  exact this

/-- **The two independent spec tokenizers agree**: `Decimal.tokenize` (C09's round trip) satisfies
    the recursion of the Reader specification (`specSkipWs`, `specString`). -/
theorem tokenize_unfold (bs : List UInt8) :
    Decimal.tokenize bs =
      if Reader.specSkipWs bs = [] then []
      else (Reader.specString bs).1 :: Decimal.tokenize (Reader.specString bs).2 := by
  rw [tokenize_skip]
  cases hsk : Reader.specSkipWs bs with
  | nil => rfl
  | cons c r =>
    rw [if_neg (by simp), tokenize_word _ c r rfl (skip_head bs c r hsk), Reader.specString, hsk]

/-! ### 3. Reading the leaves back, specification level -/

/-- The `Readable` type a written leaf is read back with: `read::<$t>()` for an integer of type `$t`,
    `read::<String>()` for a string. -/
def atomOf : Writer.Val → Reader.Atom
  | .int t _ => .int t
  | _ => .str

def readOf (l : Writer.Val) : Reader.Op := .read (atomOf l)

/-- What the reader has to return for a written leaf: the integer, or the bytes of the string. -/
def expect : Writer.Val → Reader.Res
  | .int _ v => .out (.val (.int v))
  | .str bs => .out (.val (.str bs.data.toList))
  | .seq _ _ => .undef

/-- A scalar leaf that exists in Rust (an integer that fits its type of width 8…128, or a string). -/
def LeafOK : Writer.Val → Prop
  | .int t v => (Writer.Val.int t v).valid = true
  | .str _ => True
  | .seq _ _ => False

mutual
theorem leaves_ok : ∀ v : Writer.Val, v.valid = true → ∀ l ∈ Writer.leaves v, LeafOK l
  | .int t v, hv, l, hl => by
    simp only [Writer.leaves, List.mem_singleton] at hl
    subst hl; exact hv
  | .str bs, _, l, hl => by
    simp only [Writer.leaves, List.mem_singleton] at hl
    subst hl; exact True.intro
  | .seq _ xs, hv, l, hl => by
    simp only [Writer.leaves] at hl
    exact leavesList_ok xs (by simpa [Writer.Val.valid] using hv) l hl
theorem leavesList_ok : ∀ xs : List Writer.Val, Writer.Val.validList xs = true →
    ∀ l ∈ Writer.leavesList xs, LeafOK l
  | [], _, l, hl => by simp [Writer.leavesList] at hl
  | x :: xs, hv, l, hl => by
    simp only [Writer.Val.validList, Bool.and_eq_true] at hv
    simp only [Writer.leavesList, List.mem_append] at hl
    rcases hl with hl | hl
    · exact leaves_ok x hv.1 l hl
    · exact leavesList_ok xs hv.2 l hl
end

theorem opsLeaves_ok : ∀ ops : List Writer.Op, Writer.Op.validAll ops = true →
    ∀ l ∈ Writer.opsLeaves ops, LeafOK l
  | [], _, l, hl => by simp [Writer.opsLeaves] at hl
  | o :: os, hv, l, hl => by
    simp only [Writer.Op.validAll, Bool.and_eq_true] at hv
    simp only [Writer.opsLeaves, List.mem_append] at hl
    rcases hl with hl | hl
    · cases o with
      | write v => exact leaves_ok v hv.1 l hl
      | out nl vs => exact leavesList_ok vs hv.1 l hl
      | wchar c => simp [Writer.opLeaves] at hl
      | flush => simp [Writer.opLeaves] at hl
    · exact opsLeaves_ok os hv.2 l hl

/-- Side conditions of C08's `specInt_render`, from the Writer's notion of a valid integer. -/
theorem int_side {t : IntTy} {v : Int} (h : (Writer.Val.int t v).valid = true) :
    8 ≤ t.bits ∧ t.fits v = true ∧ (v < 0 → t.signed = true) := by
  simp only [Writer.Val.valid, Bool.and_eq_true, Bool.or_eq_true, beq_iff_eq] at h
  have hbits : 8 ≤ t.bits := by omega
  obtain ⟨_, hpos⟩ := Writer.natAbs_lt_of_fits (t := t) (v := v) (by omega) h.2
  refine ⟨hbits, h.2, ?_⟩
  intro hneg
  cases hs : t.signed with
  | true => rfl
  | false => have := hpos hs; omega

/-- The Reader specification reads an integer back from a byte string whose next token (in the
    sense of the Reader spec) is the Writer's decimal text of that integer. -/
theorem specInt_of_token (t : IntTy) (v : Int) (hok : (Writer.Val.int t v).valid = true)
    (bs : List UInt8) (c : UInt8) (r : List UInt8) (hsk : Reader.specSkipWs bs = c :: r)
    (h1 : (Reader.specTok (c :: r)).1 = Decimal.decimalS v) :
    Reader.specInt t bs = .ok (v, (Reader.specTok (c :: r)).2) := by
  obtain ⟨h8, hx, hs⟩ := int_side hok
  have hws : ∀ b ∈ bs.takeWhile Reader.isWs, Reader.isWs b = true := mem_takeWhile _ bs
  have key := Reader.specInt_render t h8 v hx hs (bs.takeWhile Reader.isWs) (Reader.specTok (c :: r)).2
    hws (tok_tail (c :: r))
  have hbs : bs.takeWhile Reader.isWs ++ Reader.render v ++ (Reader.specTok (c :: r)).2 = bs := by
    rw [List.append_assoc, render_eq, ← h1, ← tok_split (c :: r), ← hsk]
    exact List.takeWhile_append_dropWhile
  rw [hbs] at key
  exact key

/-- **Specification-level read-back.** If the Writer's tokenizer splits `bs` into exactly the texts
    of the leaves `ls`, then the Reader specification, asked to read every leaf with its own type and
    then `is_eof()`, returns the leaves' values in order and `true`. -/
theorem spec_reads_back : ∀ (ls : List Writer.Val) (bs : List UInt8), (∀ l ∈ ls, LeafOK l) →
    Decimal.tokenize bs = ls.map Writer.leafText →
    Reader.specScript (ls.map readOf ++ [Reader.Op.eof]) bs = ls.map expect ++ [.out (.bool true)] := by
  intro ls
  induction ls with
  | nil =>
    intro bs _ ht
    rw [tokenize_unfold] at ht
    by_cases hsk : Reader.specSkipWs bs = []
    · simp [Reader.specScript, Reader.specOp, Reader.specIsEof, hsk]
    · rw [if_neg hsk] at ht; simp at ht
  | cons l ls ih =>
    intro bs hok ht
    have hl := hok l (List.mem_cons_self)
    have hrest : ∀ x ∈ ls, LeafOK x := fun x hx => hok x (List.mem_cons_of_mem _ hx)
    rw [tokenize_skip] at ht
    cases hsk : Reader.specSkipWs bs with
    | nil => rw [hsk] at ht; simp [Decimal.tokenize_nil] at ht
    | cons c r =>
      have hc := skip_head bs c r hsk
      rw [hsk, tokenize_word _ c r rfl hc, List.map_cons] at ht
      injection ht with h1 h2
      have ihr := ih (Reader.specTok (c :: r)).2 hrest h2
      cases l with
      | int t v =>
        have hI := specInt_of_token t v hl bs c r hsk h1
        simp only [List.map_cons, List.cons_append, readOf, atomOf, expect, Reader.specScript, Reader.specOp,
          Reader.specAtom, hI]
        rw [ihr]
      | str b =>
        have hstr : Reader.specString bs = Reader.specTok (c :: r) := by rw [Reader.specString, hsk]
        simp only [List.map_cons, List.cons_append, readOf, atomOf, expect, Reader.specScript, Reader.specOp,
          Reader.specAtom, hstr, h1, Writer.leafText]
        rw [ihr]
      | seq _ _ => exact absurd hl (by simp [LeafOK])

theorem expect_no_undef (ls : List Writer.Val) (hok : ∀ l ∈ ls, LeafOK l) :
    Reader.Res.undef ∉ ls.map expect ++ [Reader.Res.out (.bool true)] := by
  intro hmem
  rcases List.mem_append.mp hmem with h | h
  · obtain ⟨l, hl, he⟩ := List.mem_map.mp h
    have := hok l hl
    cases l with
    | int t v => simp [expect] at he
    | str b => simp [expect] at he
    | seq _ _ => exact this
  · simp at h

/-! ### 4. The Writer's text through the Reader model -/

/-- Fresh writer, script, drop: the sink is the specification text (as `fresh_writer_delivers`). -/
theorem fresh_drop (c : Writer.Cfg) (hb : 39 ≤ c.buf) (ops : List Writer.Op)
    (hv : Writer.Op.validAll ops = true) :
    ∃ s, Writer.runOps c ops Writer.WState.init = .ok s ∧ (Writer.drop s).sink = Writer.specOps ops := by
  obtain ⟨s, e, t, _⟩ := Writer.runOps_spec c hb ops Writer.WState.init hv (by simp [Writer.WState.init])
  refine ⟨s, e, ?_⟩
  show (Writer.flush s).sink = _
  rw [Writer.flush_sink, t]
  simp [Writer.total, Writer.WState.init, ByteArray.empty_append]

/-- The Reader **model**, started on any well-formed source that delivers the text of a readable
    Writer script, with any buffer size ≥ 1 and enough fuel, reads all leaves back and then reports
    end of input. -/
theorem read_back (ops : List Writer.Op) (hv : Writer.Op.validAll ops = true) (hs : Writer.sepOK ops = true)
    (src : List Event) (ok : SrcOk src) (hsrc : srcBytes src = Writer.txt (Writer.specOps ops))
    (BUF : Nat) (hB : 0 < BUF) (fuel : Nat) (hf : (srcBytes src).length < fuel) :
    Reader.runScript fuel ((Writer.opsLeaves ops).map readOf ++ [Reader.Op.eof]) (Reader.init BUF src)
      = (Writer.opsLeaves ops).map expect ++ [.out (.bool true)] := by
  have hok := opsLeaves_ok ops hv
  have hspec := spec_reads_back (Writer.opsLeaves ops) (srcBytes src) hok
    (by rw [hsrc]; exact Writer.tokenize_ops ops hs)
  have := Reader.runScript_spec BUF hB fuel ((Writer.opsLeaves ops).map readOf ++ [Reader.Op.eof])
    (Reader.init BUF src) (Reader.init_inv BUF src ok) (by rw [Reader.init_R]; exact hf)
    (by rw [Reader.init_R, hspec]; exact expect_no_undef _ hok)
  rw [this, Reader.init_R, hspec]

/-! ### 5. Lines -/

/-- A line that `read_line` returns unchanged: no LF inside, and not ending in CR (a CR directly
    before the terminating LF is stripped by the reader). Spaces, tabs, empty lines are fine. -/
def LineOK (l : List UInt8) : Prop := (∀ b ∈ l, b ≠ 10) ∧ l.getLast? ≠ some 13

instance (l : List UInt8) : Decidable (LineOK l) := by unfold LineOK; infer_instance

theorem specLine_line (l rest : List UInt8) (h : LineOK l) :
    Reader.specLine (l ++ 10 :: rest) = (some l, rest) := by
  have hp : ∀ c ∈ l, (fun c : UInt8 => c != 10) c = true := by
    intro c hc; simpa using h.1 c hc
  obtain ⟨t1, t2⟩ := Reader.takeWhile_append_stop (fun c : UInt8 => c != 10) l (10 :: rest) hp
    (Or.inr ⟨10, rest, rfl, by decide⟩)
  have hne : ¬ (l ++ 10 :: rest = []) := by simp
  simp only [Reader.specLine, if_neg hne, t1, t2, if_neg h.2]

/-- The text of a list of lines, each terminated by LF. -/
def linesText : List (List UInt8) → List UInt8
  | [] => []
  | l :: ls => l ++ 10 :: linesText ls

/-- `read_line()` once per line, then once more (`None`), then `is_eof()`. -/
theorem spec_reads_lines : ∀ (ls : List (List UInt8)), (∀ l ∈ ls, LineOK l) →
    Reader.specScript (ls.map (fun _ => Reader.Op.line) ++ [.line, .eof]) (linesText ls)
      = ls.map (fun l => Reader.Res.out (.line (some l))) ++ [.out (.line none), .out (.bool true)] := by
  intro ls
  induction ls with
  | nil => intro _; decide
  | cons l ls ih =>
    intro hok
    have e := specLine_line l (linesText ls) (hok l List.mem_cons_self)
    simp only [List.map_cons, List.cons_append, linesText, Reader.specScript, Reader.specOp, e]
    rw [ih (fun x hx => hok x (List.mem_cons_of_mem _ hx))]

theorem specLines_linesText : ∀ (ls : List (List UInt8)), (∀ l ∈ ls, LineOK l) →
    ∀ n, (linesText ls).length < n → Reader.specLines n (linesText ls) = ls := by
  intro ls
  induction ls with
  | nil =>
    intro _ n hn
    cases n with
    | zero => rfl
    | succ n => simp [linesText, Reader.specLines, Reader.specLine]
  | cons l ls ih =>
    intro hok n hn
    cases n with
    | zero => omega
    | succ n =>
      have e := specLine_line l (linesText ls) (hok l List.mem_cons_self)
      simp only [linesText] at hn ⊢
      simp only [Reader.specLines, e]
      rw [ih (fun x hx => hok x (List.mem_cons_of_mem _ hx)) n (by simp at hn; omega)]

/-- `read_lines()` returns all of them. -/
theorem spec_read_lines (ls : List (List UInt8)) (hok : ∀ l ∈ ls, LineOK l) :
    Reader.specScript [.lines, .eof] (linesText ls) = [.out (.lines ls), .out (.bool true)] := by
  simp only [Reader.specScript, Reader.specOp, specLines_linesText ls hok _ (Nat.lt_succ_self _)]
  rfl

/-- `outln!(line)` for every line. -/
def lineOps (ls : List ByteArray) : List Writer.Op := ls.map (fun l => Writer.Op.out true [.str l])

theorem lineOps_valid : ∀ ls : List ByteArray, Writer.Op.validAll (lineOps ls) = true
  | [] => rfl
  | l :: ls => by
    have := lineOps_valid ls
    simp only [lineOps, List.map_cons, Writer.Op.validAll, Bool.and_eq_true] at this ⊢
    exact ⟨by simp [Writer.Op.valid, Writer.Val.validList, Writer.Val.valid], this⟩

theorem lineOps_text : ∀ ls : List ByteArray,
    Writer.txt (Writer.specOps (lineOps ls)) = linesText (ls.map Writer.txt)
  | [] => by simp [lineOps, Writer.specOps, Writer.txt_empty, linesText]
  | l :: ls => by
    have ih := lineOps_text ls
    simp only [lineOps] at ih
    simp only [lineOps, List.map_cons, Writer.specOps, Writer.specOp, Writer.specSeq, Writer.specVal,
      if_true, ByteArray.empty_append, ByteArray.append_empty, Writer.txt_append, Writer.txt_toByteArray,
      linesText, ih]
    simp

/-! ### 6. A delivery schedule that exists for every input -/

/-- Byte-by-byte delivery with an `Interrupted` error before every byte (and one at the end). -/
def bytewise : List UInt8 → List Event
  | [] => [.intr]
  | b :: bs => .intr :: .data [b] :: bytewise bs

theorem bytewise_spec : ∀ bs : List UInt8, srcBytes (bytewise bs) = bs ∧ SrcOk (bytewise bs)
  | [] => by simp [bytewise, srcBytes, SrcOk]
  | b :: bs => by
    have := bytewise_spec bs
    simp [bytewise, srcBytes, SrcOk, this.1, this.2]

/-- Delivery in chunks of `k + 1` bytes. -/
def chunked (k : Nat) (bs : List UInt8) : List Event :=
  if _h : bs = [] then [] else .data (bs.take (k + 1)) :: chunked k (bs.drop (k + 1))
termination_by bs.length
decreasing_by
  have : 0 < bs.length := List.length_pos_iff.mpr _h
  simp only [List.length_drop]; omega

theorem chunked_spec (k : Nat) : ∀ bs : List UInt8, srcBytes (chunked k bs) = bs ∧ SrcOk (chunked k bs) := by
  intro bs
  induction hn : bs.length using Nat.strongRecOn generalizing bs with
  | _ n ih =>
    by_cases h : bs = []
    · subst h; rw [chunked]; simp [srcBytes, SrcOk]
    · have hl : 0 < bs.length := List.length_pos_iff.mpr h
      have := ih (bs.drop (k + 1)).length (by simp only [List.length_drop]; omega) (bs.drop (k + 1)) rfl
      rw [chunked, dif_neg h]
      simp only [srcBytes, SrcOk, this.1, this.2, List.take_append_drop, and_true, true_and]
      intro h0
      rcases List.take_eq_nil_iff.mp h0 with h1 | h1
      · omega
      · exact h h1

/-! ### 7. Read plans: tuples, `read_vec`, `char` -/
open Rlib.IoRT

/-- Continuation style: if the Writer's tokenizer sees the text of leaf `p` first and `toks` behind it, the Reader
    specification reads `p` with its atom (integer type, `String`, or `char` for a one-byte word) and leaves a
    byte string whose tokens are `toks`. -/
theorem spec_atom_token (p : P) (hl : LeafOK p.1) (bs : List UInt8) (toks : List (List UInt8))
    (ht : Decimal.tokenize bs = Writer.leafText p.1 :: toks) :
    ∃ r, Reader.specAtom (atomA p) bs = some (.ok (valA p, r)) ∧ Decimal.tokenize r = toks := by
  rw [tokenize_skip] at ht
  cases hsk : Reader.specSkipWs bs with
  | nil => rw [hsk] at ht; simp [Decimal.tokenize_nil] at ht
  | cons c r =>
    have hc := skip_head bs c r hsk
    rw [hsk, tokenize_word _ c r rfl hc] at ht
    injection ht with h1 h2
    have hstr : Reader.specString bs = Reader.specTok (c :: r) := by rw [Reader.specString, hsk]
    obtain ⟨l, alt⟩ := p
    cases l with
    | int t v =>
      have hI := specInt_of_token t v hl bs c r hsk h1
      exact ⟨_, by simp only [atomA, valA, Reader.specAtom, hI], h2⟩
    | seq _ _ => exact False.elim hl
    | str b =>
      simp only [Writer.leafText] at h1
      have hS : Reader.specAtom .str bs = some (.ok (.str b.data.toList, (Reader.specTok (c :: r)).2)) := by
        simp only [Reader.specAtom, hstr, h1]
      cases alt with
      | false => exact ⟨_, by simp only [atomA, valA]; exact hS, h2⟩
      | true =>
        cases hb : b.data.toList with
        | nil => exact ⟨_, by simp only [atomA, valA, hb]; rw [hS, hb], h2⟩
        | cons c0 tl =>
          cases tl with
          | cons c1 tl' => exact ⟨_, by simp only [atomA, valA, hb]; rw [hS, hb], h2⟩
          | nil =>
            rw [hb] at h1
            simp only [Reader.specTok, List.takeWhile_cons, hc, Bool.not_false, if_true, List.cons.injEq] at h1
            have hdrop : (Reader.specTok (c :: r)).2 = r := by
              have := List.takeWhile_append_dropWhile (p := fun c => !Reader.isWs c) (l := r)
              rw [h1.2, List.nil_append] at this
              simp only [Reader.specTok, List.dropWhile_cons, hc, Bool.not_false, if_true]
              exact this
            refine ⟨r, ?_, by rw [← hdrop]; exact h2⟩
            simp only [atomA, valA, hb, Reader.specAtom, Reader.specChar, hsk, h1.1]

theorem spec_tuple_tokens : ∀ (ps : List P) (bs : List UInt8) (toks : List (List UInt8)),
    (∀ p ∈ ps, LeafOK p.1) → Decimal.tokenize bs = ps.map (fun p => Writer.leafText p.1) ++ toks →
    ∃ r, Reader.specTuple (ps.map atomA) bs = some (.ok (ps.map valA, r)) ∧ Decimal.tokenize r = toks := by
  intro ps
  induction ps with
  | nil => intro bs toks _ ht; exact ⟨bs, rfl, by simpa using ht⟩
  | cons p ps ih =>
    intro bs toks hok ht
    obtain ⟨r1, e1, t1⟩ := spec_atom_token p (hok p List.mem_cons_self) bs _ (by simpa using ht)
    obtain ⟨r2, e2, t2⟩ := ih r1 toks (fun q hq => hok q (List.mem_cons_of_mem _ hq)) t1
    exact ⟨r2, by simp only [List.map_cons, Reader.specTuple, e1, e2], t2⟩

theorem spec_vec_tokens (as : List Reader.Atom) : ∀ (rows : List (List P)) (bs : List UInt8) (toks : List (List UInt8)),
    (∀ r ∈ rows, r.map atomA = as) → (∀ r ∈ rows, ∀ p ∈ r, LeafOK p.1) →
    Decimal.tokenize bs = rows.flatten.map (fun p => Writer.leafText p.1) ++ toks →
    ∃ r, Reader.specVec as rows.length bs = some (.ok (rows.map (fun r => r.map valA), r)) ∧
      Decimal.tokenize r = toks := by
  intro rows
  induction rows with
  | nil => intro bs toks _ _ ht; exact ⟨bs, rfl, by simpa using ht⟩
  | cons row rows ih =>
    intro bs toks hat hok ht
    rw [List.flatten_cons, List.map_append, List.append_assoc] at ht
    obtain ⟨r1, e1, t1⟩ := spec_tuple_tokens row bs _ (hok row List.mem_cons_self) ht
    rw [hat row List.mem_cons_self] at e1
    obtain ⟨r2, e2, t2⟩ := ih r1 toks (fun q hq => hat q (List.mem_cons_of_mem _ hq))
      (fun q hq => hok q (List.mem_cons_of_mem _ hq)) t1
    exact ⟨r2, by simp only [List.length_cons, List.map_cons, Reader.specVec, e1, e2], t2⟩

theorem spec_grp_tokens (g : Grp) (hg : g.okB = true) (hok : ∀ p ∈ g.leaves, LeafOK p.1) (bs : List UInt8)
    (toks : List (List UInt8)) (ht : Decimal.tokenize bs = g.leaves.map (fun p => Writer.leafText p.1) ++ toks) :
    ∃ r, Reader.specOp g.op bs = some (.ok (g.out, r)) ∧ Decimal.tokenize r = toks := by
  cases g with
  | one p =>
    obtain ⟨r, e, t⟩ := spec_atom_token p (hok p (by simp [Grp.leaves])) bs toks (by simpa [Grp.leaves] using ht)
    exact ⟨r, by simp only [Grp.op, Grp.out, Reader.specOp, e], t⟩
  | tup ps =>
    obtain ⟨r, e, t⟩ := spec_tuple_tokens ps bs toks hok ht
    exact ⟨r, by simp only [Grp.op, Grp.out, Reader.specOp, e], t⟩
  | vec as rows =>
    have hat : ∀ r ∈ rows, r.map atomA = as := by
      intro r hr
      simp only [Grp.okB, List.all_eq_true] at hg
      exact eq_of_beq (hg r hr)
    have hok' : ∀ r ∈ rows, ∀ p ∈ r, LeafOK p.1 :=
      fun r hr p hp => hok p (by simp only [Grp.leaves, List.mem_flatten]; exact ⟨r, hr, hp⟩)
    obtain ⟨r, e, t⟩ := spec_vec_tokens as rows bs toks hat hok' ht
    exact ⟨r, by simp only [Grp.op, Grp.out, Reader.specOp, e], t⟩

/-- **Specification-level read-back for every read plan.** -/
theorem spec_plan : ∀ (gs : List Grp) (bs : List UInt8), (∀ g ∈ gs, g.okB = true) →
    (∀ g ∈ gs, ∀ p ∈ g.leaves, LeafOK p.1) →
    Decimal.tokenize bs = (gs.flatMap Grp.leaves).map (fun p => Writer.leafText p.1) →
    Reader.specScript (script gs) bs = expected gs := by
  intro gs
  induction gs with
  | nil =>
    intro bs _ _ ht
    rw [tokenize_unfold] at ht
    by_cases hsk : Reader.specSkipWs bs = []
    · simp [script, expected, Reader.specScript, Reader.specOp, Reader.specIsEof, hsk]
    · rw [if_neg hsk] at ht; simp at ht
  | cons g gs ih =>
    intro bs hg hok ht
    rw [List.flatMap_cons, List.map_append] at ht
    obtain ⟨r, e, t⟩ := spec_grp_tokens g (hg g List.mem_cons_self) (hok g List.mem_cons_self) bs _ ht
    have := ih r (fun q hq => hg q (List.mem_cons_of_mem _ hq)) (fun q hq => hok q (List.mem_cons_of_mem _ hq)) t
    simp only [script, expected] at this ⊢
    simp only [List.map_cons, List.cons_append, Reader.specScript, e, this]

theorem expected_no_undef (gs : List Grp) : Reader.Res.undef ∉ expected gs := by
  simp [expected]

/-- The Reader **model** on any well-formed source delivering `bytes`, any buffer size ≥ 1, for every read plan
    over the leaves that `bytes` tokenizes into. -/
theorem read_back_plan (gs : List Grp) (hg : ∀ g ∈ gs, g.okB = true) (hok : ∀ g ∈ gs, ∀ p ∈ g.leaves, LeafOK p.1)
    (src : List Event) (ok : SrcOk src)
    (ht : Decimal.tokenize (srcBytes src) = (gs.flatMap Grp.leaves).map (fun p => Writer.leafText p.1))
    (BUF : Nat) (hB : 0 < BUF) (fuel : Nat) (hf : (srcBytes src).length < fuel) :
    Reader.runScript fuel (script gs) (Reader.init BUF src) = expected gs := by
  have hspec := spec_plan gs (srcBytes src) hg hok ht
  have := Reader.runScript_spec BUF hB fuel (script gs) (Reader.init BUF src) (Reader.init_inv BUF src ok)
    (by rw [Reader.init_R]; exact hf) (by rw [Reader.init_R, hspec]; exact expected_no_undef gs)
  rw [this, Reader.init_R, hspec]

/-! #### The harness plan is a plan -/

theorem homog_spec : ∀ (xs : List Writer.Val) (t : IntTy), homog xs = some t →
    xs ≠ [] ∧ ∀ x ∈ xs, ∃ v, x = Writer.Val.int t v := by
  intro xs t h
  cases xs with
  | nil => simp [homog] at h
  | cons x xs =>
    cases x with
    | str _ => simp [homog] at h
    | seq _ _ => simp [homog] at h
    | int t0 v0 =>
      simp only [homog] at h
      split at h
      · rename_i hall
        cases h
        refine ⟨by simp, ?_⟩
        intro x hx
        rcases List.mem_cons.mp hx with rfl | hx
        · exact ⟨v0, rfl⟩
        · have := List.all_eq_true.mp hall x hx
          cases x with
          | int t' v' => simp at this; subst this; exact ⟨v', rfl⟩
          | str _ => simp at this
          | seq _ _ => simp at this
      · cases h

theorem leavesList_ints (t : IntTy) : ∀ xs : List Writer.Val, (∀ x ∈ xs, ∃ v, x = Writer.Val.int t v) →
    Writer.leavesList xs = xs
  | [], _ => rfl
  | x :: xs, h => by
    obtain ⟨v, rfl⟩ := h x List.mem_cons_self
    simp only [Writer.leavesList, Writer.leaves, List.singleton_append,
      leavesList_ints t xs (fun y hy => h y (List.mem_cons_of_mem _ hy))]

theorem flatten_singletons {α : Type} (f : α → P) : ∀ xs : List α, (xs.map (fun x => [f x])).flatten = xs.map f
  | [] => rfl
  | x :: xs => by simp [flatten_singletons f xs]

mutual
theorem planVal_spec (alt : Bool) : ∀ v : Writer.Val,
    ((planVal alt v).flatMap Grp.leaves).map Prod.fst = Writer.leaves v ∧ ∀ g ∈ planVal alt v, g.okB = true
  | .int t v => by simp [planVal, Grp.leaves, Writer.leaves, Grp.okB]
  | .str bs => by simp [planVal, Grp.leaves, Writer.leaves, Grp.okB]
  | .seq tuple xs => by
    simp only [planVal, Writer.leaves]
    cases hh : (if alt = true then homog xs else none) with
    | none => exact planList_spec alt xs
    | some t =>
      have hh' : homog xs = some t := by
        cases alt with
        | false => simp at hh
        | true => simpa using hh
      obtain ⟨_, hall⟩ := homog_spec xs t hh'
      have hl := leavesList_ints t xs hall
      simp only
      split
      · refine ⟨?_, by simp [Grp.okB]⟩
        simp [Grp.leaves, hl, List.map_map, Function.comp_def]
      · refine ⟨?_, ?_⟩
        · simp [Grp.leaves, hl, flatten_singletons, List.map_map, Function.comp_def]
        · intro g hg
          simp only [List.mem_singleton] at hg
          subst hg
          simp only [Grp.okB, List.all_eq_true, List.mem_map]
          rintro r ⟨x, hx, rfl⟩
          obtain ⟨v, rfl⟩ := hall x hx
          simp [atomA]
theorem planList_spec (alt : Bool) : ∀ xs : List Writer.Val,
    ((planList alt xs).flatMap Grp.leaves).map Prod.fst = Writer.leavesList xs ∧ ∀ g ∈ planList alt xs, g.okB = true
  | [] => by simp [planList, Writer.leavesList]
  | x :: xs => by
    obtain ⟨a1, b1⟩ := planVal_spec alt x
    obtain ⟨a2, b2⟩ := planList_spec alt xs
    simp only [planList, Writer.leavesList, List.flatMap_append, List.map_append, a1, a2, true_and]
    intro g hg
    rcases List.mem_append.mp hg with h | h
    · exact b1 g h
    · exact b2 g h
end

theorem planOps_spec (alt : Bool) : ∀ ops : List Writer.Op,
    ((planOps alt ops).flatMap Grp.leaves).map Prod.fst = Writer.opsLeaves ops ∧ ∀ g ∈ planOps alt ops, g.okB = true
  | [] => by simp [planOps, Writer.opsLeaves]
  | o :: os => by
    obtain ⟨a2, b2⟩ := planOps_spec alt os
    have h1 : ((planOp alt o).flatMap Grp.leaves).map Prod.fst = Writer.opLeaves o ∧ ∀ g ∈ planOp alt o, g.okB = true := by
      cases o with
      | write v => exact planVal_spec alt v
      | out nl vs => exact planList_spec alt vs
      | wchar c => simp [planOp, Writer.opLeaves]
      | flush => simp [planOp, Writer.opLeaves]
    simp only [planOps, Writer.opsLeaves, List.flatMap_append, List.map_append, h1.1, a2, true_and]
    intro g hg
    rcases List.mem_append.mp hg with h | h
    · exact h1.2 g h
    · exact b2 g h

/-- Hypotheses of `read_back_plan` for a plan `gs` whose leaves are the leaves of a valid script. -/
theorem plan_hyps (ops : List Writer.Op) (hv : Writer.Op.validAll ops = true) (gs : List Grp)
    (hl : (gs.flatMap Grp.leaves).map Prod.fst = Writer.opsLeaves ops) :
    (∀ g ∈ gs, ∀ p ∈ g.leaves, LeafOK p.1) ∧
    (gs.flatMap Grp.leaves).map (fun p => Writer.leafText p.1) = (Writer.opsLeaves ops).map Writer.leafText := by
  constructor
  · intro g hg p hp
    apply opsLeaves_ok ops hv
    rw [← hl]
    exact List.mem_map.mpr ⟨p, List.mem_flatMap.mpr ⟨g, hg, hp⟩, rfl⟩
  · rw [← hl, List.map_map]; rfl

theorem harnessSched_pos (rc len : Nat) : ∀ k n, (some k, n) ∈ harnessSched rc len → 0 < k := by
  intro k n h
  unfold harnessSched at h
  split at h
  · simp at h
  · rename_i hrc
    rcases List.mem_append.mp h with h | h
    · obtain ⟨l, hl, hm⟩ := List.mem_flatten.mp h
      rw [List.eq_of_mem_replicate hl] at hm
      simp at hm
      omega
    · simp at h; omega

/-- The harness source, as the Reader model's event list, is well formed and delivers exactly the text. -/
theorem harness_src (rc : Nat) (text : List UInt8) :
    srcBytes (Reader.mkEvents (harnessSched rc text.length) text #[]) = text ∧
    SrcOk (Reader.mkEvents (harnessSched rc text.length) text #[]) := by
  have h := Reader.mkEvents_spec (harnessSched rc text.length) text #[] (harnessSched_pos rc text.length) (by simp [SrcOk])
  simpa [srcBytes] using h

/-! ### 8. Characters written with `write_char` -/

theorem specOp_chr_ws (b : UInt8) (hb : Reader.isWs b = true) (rest : List UInt8) :
    Reader.specOp (.read .chr) (b :: rest) = Reader.specOp (.read .chr) rest ∧
    Reader.specOp .eof (b :: rest) = Reader.specOp .eof rest := by
  have : Reader.specSkipWs (b :: rest) = Reader.specSkipWs rest := by
    simp only [Reader.specSkipWs, List.dropWhile_cons, hb, if_true]
  simp only [Reader.specOp, Reader.specAtom, Reader.specChar, Reader.specIsEof, this, and_self]

/-- Every non-whitespace byte of a text is returned by one `read::<char>()`, in order; whitespace is skipped. -/
theorem spec_reads_chars : ∀ bs : List UInt8,
    Reader.specScript ((bs.filter (fun c => !Reader.isWs c)).map (fun _ => Reader.Op.read .chr) ++ [.eof]) bs
      = (bs.filter (fun c => !Reader.isWs c)).map (fun c => Reader.Res.out (.val (.chr c))) ++ [.out (.bool true)] := by
  intro bs
  induction bs with
  | nil => decide
  | cons b rest ih =>
    by_cases hb : Reader.isWs b = true
    · obtain ⟨e1, e2⟩ := specOp_chr_ws b hb rest
      have hf : (b :: rest).filter (fun c => !Reader.isWs c) = rest.filter (fun c => !Reader.isWs c) := by
        simp [hb]
      rw [hf, ← ih]
      cases rest.filter (fun c => !Reader.isWs c) with
      | nil => simp only [List.map_nil, List.nil_append, Reader.specScript, e2]
      | cons x xs => simp only [List.map_cons, List.cons_append, Reader.specScript, e1]
    · have hb' : Reader.isWs b = false := by simpa using hb
      have hf : (b :: rest).filter (fun c => !Reader.isWs c) = b :: rest.filter (fun c => !Reader.isWs c) := by
        simp [hb']
      have hsk : Reader.specSkipWs (b :: rest) = b :: rest := by
        simp [Reader.specSkipWs, hb']
      rw [hf]
      simp only [List.map_cons, List.cons_append, Reader.specScript, Reader.specOp, Reader.specAtom, Reader.specChar, hsk, ih]

/-- `write_char` for every code point. -/
def charOps (codes : List Nat) : List Writer.Op := codes.map Writer.Op.wchar

theorem charOps_valid : ∀ codes : List Nat, Writer.Op.validAll (charOps codes) = true
  | [] => rfl
  | c :: cs => by
    have := charOps_valid cs
    simp only [charOps] at this
    simp [charOps, Writer.Op.validAll, Writer.Op.valid, this]

theorem charOps_text : ∀ codes : List Nat,
    Writer.txt (Writer.specOps (charOps codes)) = codes.map UInt8.ofNat
  | [] => by simp [charOps, Writer.specOps, Writer.txt_empty]
  | c :: cs => by
    have ih := charOps_text cs
    simp only [charOps] at ih
    simp only [charOps, List.map_cons, Writer.specOps, Writer.specOp, Writer.txt_append, Writer.txt_toByteArray, ih]
    rfl

end Rlib.IoBridge
