import RlibModel.Lemmas.Treap
/-!
C03: one step of the operation language on trees refines the same step on plain lists
(`step_refines`), hence whole histories do (`run_refines`).
-/
namespace Rlib.Treap
variable {T E G M V : Type} (I : TItem T E G M V)

/-- every live treap is well-formed -/
def AllWF (ts : List (Tree T)) : Prop := ∀ t ∈ ts, WFt I t

theorem map_eraseIdx {α β : Type} (f : α → β) (l : List α) (j : Nat) :
    (l.eraseIdx j).map f = (l.map f).eraseIdx j := by
  induction l generalizing j with
  | nil => rfl
  | cons a l ih => cases j with
    | zero => rfl
    | succ j => simp [List.eraseIdx, ih]

theorem map_set_same {α β : Type} (f : α → β) (l : List α) (i : Nat) (t x : α) (h : l[i]? = some t) (hx : f x = f t) :
    (l.set i x).map f = l.map f := by
  induction l generalizing i with
  | nil => rfl
  | cons a l ih => cases i with
    | zero => simp at h; simp [hx, h]
    | succ i => simp at h; simp [ih i h]

variable {I}

theorem AllWF.get {ts : List (Tree T)} (h : AllWF I ts) {i : Nat} {t : Tree T} (ht : ts[i]? = some t) : WFt I t :=
  h t (List.mem_of_getElem? ht)

theorem AllWF.set {ts : List (Tree T)} (h : AllWF I ts) (i : Nat) {x : Tree T} (hx : WFt I x) : AllWF I (ts.set i x) := by
  intro t ht
  rcases List.mem_or_eq_of_mem_set ht with h' | h'
  · exact h t h'
  · exact h' ▸ hx

theorem AllWF.push {ts : List (Tree T)} (h : AllWF I ts) {x : Tree T} (hx : WFt I x) : AllWF I (ts ++ [x]) := by
  intro t ht
  rcases List.mem_append.1 ht with h' | h'
  · exact h t h'
  · exact (List.mem_singleton.1 h') ▸ hx

theorem AllWF.erase {ts : List (Tree T)} (h : AllWF I ts) (j : Nat) : AllWF I (ts.eraseIdx j) :=
  fun t ht => h t (List.mem_of_mem_eraseIdx ht)

variable (I)

/-- One operation: the spec step on the represented sequences is the image of the model step,
    observation for observation, and well-formedness is kept. -/
theorem step_refines (hI : Lawful I) (ts : List (Tree T)) (op : Op E M V) (hwf : AllWF I ts)
    (hd : opInDomB (ts.map (seq I)) op = true) :
    stepS I (ts.map (seq I)) op = (stepM I ts op).map (fun r => (r.1.map (seq I), r.2)) ∧
    ∀ r, stepM I ts op = some r → AllWF I r.1 := by
  cases op with
  | new =>
    refine ⟨by simp [stepM, stepS, seq], ?_⟩
    intro r h; simp only [stepM, Option.some.injEq] at h; subst h
    exact hwf.push trivial
  | item v p =>
    refine ⟨by simp [stepM, stepS, seq, single], ?_⟩
    intro r h; simp only [stepM, Option.some.injEq] at h; subst h
    exact hwf.push (WFt_single I hI v p)
  | merge i j =>
    simp only [stepM, stepS, List.getElem?_map]
    by_cases hij : i = j
    · simp [hij]
    · simp only [hij, if_false]
      cases hti : ts[i]? with
      | none => simp
      | some a =>
        cases htj : ts[j]? with
        | none => simp
        | some b =>
          have ha := hwf.get hti
          have hb := hwf.get htj
          have hm := merge_WFt I hI a b ha hb
          refine ⟨?_, ?_⟩
          · simp [map_eraseIdx, List.map_set, merge_seq' I hI, size_eq I _ hm]
          · intro r h; simp only [Option.some.injEq] at h; subst h
            exact (hwf.set i hm).erase j
  | splitAt i k =>
    simp only [stepM, stepS, List.getElem?_map]
    cases hti : ts[i]? with
    | none => simp
    | some t =>
      have ht := hwf.get hti
      obtain ⟨s1, s2, s3, s4⟩ := splitAt_spec I hI t k ht
      refine ⟨?_, ?_⟩
      · simp [List.map_set, s1, s2, size_eq I _ s3, size_eq I _ s4]
      · intro r h; simp only [Option.some.injEq] at h; subst h
        exact (hwf.set i s3).push s4
  | splitBy i g =>
    simp only [stepM, stepS, List.getElem?_map]
    cases hti : ts[i]? with
    | none => simp
    | some t =>
      have ht := hwf.get hti
      simp only [opInDomB, List.getElem?_map, hti, Option.map_some] at hd
      obtain ⟨s1, s2, s3, s4⟩ := splitBy_spec I hI g t ht ((prefixMonoB_iff g _).1 hd)
      refine ⟨?_, ?_⟩
      · simp [List.map_set, s1, s2, size_eq I _ s3, size_eq I _ s4]
      · intro r h; simp only [Option.some.injEq] at h; subst h
        exact (hwf.set i s3).push s4
  | insertAt i k v p =>
    simp only [stepM, stepS, List.getElem?_map]
    cases hti : ts[i]? with
    | none => simp
    | some t =>
      have ht := hwf.get hti
      obtain ⟨s1, s2⟩ := insertAt_spec I hI t k v p ht
      refine ⟨?_, ?_⟩
      · simp [List.map_set, s1, size_eq I _ s2]
      · intro r h; simp only [Option.some.injEq] at h; subst h
        exact hwf.set i s2
  | removeAt i k =>
    simp only [stepM, stepS, List.getElem?_map]
    cases hti : ts[i]? with
    | none => simp
    | some t =>
      have ht := hwf.get hti
      obtain ⟨s1, s2, s3⟩ := removeAt_spec I hI t k ht
      refine ⟨?_, ?_⟩
      · simp only [Option.map_some]
        cases hk : (seq I t)[k]? with
        | none =>
          rw [hk] at s1 s2
          simp [s1, map_set_same (seq I) ts i t _ hti s2]
        | some x =>
          rw [hk] at s1 s2
          simp [s1, List.map_set, s2]
      · intro r h; simp only [Option.some.injEq] at h; subst h
        exact hwf.set i s3
  | first i =>
    simp only [stepM, stepS, List.getElem?_map]
    cases hti : ts[i]? with
    | none => simp
    | some t =>
      have ht := hwf.get hti
      obtain ⟨s1, s2, s3⟩ := first_spec' I hI t ht
      refine ⟨?_, ?_⟩
      · simp [s1, map_set_same (seq I) ts i t _ hti s2]
      · intro r h; simp only [Option.some.injEq] at h; subst h
        exact hwf.set i s3
  | last i =>
    simp only [stepM, stepS, List.getElem?_map]
    cases hti : ts[i]? with
    | none => simp
    | some t =>
      have ht := hwf.get hti
      obtain ⟨s1, s2, s3⟩ := last_spec' I hI t ht
      refine ⟨?_, ?_⟩
      · simp [s1, map_set_same (seq I) ts i t _ hti s2]
      · intro r h; simp only [Option.some.injEq] at h; subst h
        exact hwf.set i s3
  | collect i =>
    simp only [stepM, stepS, List.getElem?_map]
    cases hti : ts[i]? with
    | none => simp
    | some t =>
      have ht := hwf.get hti
      obtain ⟨s1, s2, s3⟩ := collect_spec' I hI t ht
      refine ⟨?_, ?_⟩
      · simp [s1, map_set_same (seq I) ts i t _ hti s2]
      · intro r h; simp only [Option.some.injEq] at h; subst h
        exact hwf.set i s3
  | size i =>
    simp only [stepM, stepS, List.getElem?_map]
    cases hti : ts[i]? with
    | none => simp
    | some t =>
      refine ⟨by simp [size_eq I _ (hwf.get hti)], ?_⟩
      intro r h; simp only [Option.some.injEq] at h; subst h; exact hwf
  | agg i =>
    simp only [stepM, stepS, List.getElem?_map]
    cases hti : ts[i]? with
    | none => simp
    | some t =>
      refine ⟨by simp [rootAgg_spec I _ (hwf.get hti)], ?_⟩
      intro r h; simp only [Option.some.injEq] at h; subst h; exact hwf
  | tag i m =>
    simp only [stepM, stepS, List.getElem?_map]
    cases hti : ts[i]? with
    | none => simp
    | some t =>
      obtain ⟨s1, s2⟩ := tagRoot_spec I hI m t (hwf.get hti)
      refine ⟨by simp [List.map_set, s1], ?_⟩
      intro r h; simp only [Option.some.injEq] at h; subst h; exact hwf.set i s2
  | drop i =>
    simp only [stepM, stepS, List.getElem?_map]
    cases hti : ts[i]? with
    | none => simp
    | some t =>
      refine ⟨by simp [map_eraseIdx], ?_⟩
      intro r h; simp only [Option.some.injEq] at h; subst h; exact hwf.erase i

/-- Whole histories: the spec run on the represented sequences is the image of the model run. -/
theorem run_refines (hI : Lawful I) (ops : List (Op E M V)) (ts : List (Tree T)) (hwf : AllWF I ts)
    (hd : runInDomB (G := G) I (ts.map (seq I)) ops = true) :
    runS I (ts.map (seq I)) ops = (runM I ts ops).map (fun r => (r.1.map (seq I), r.2)) ∧
    ∀ r, runM I ts ops = some r → AllWF I r.1 := by
  induction ops generalizing ts with
  | nil => exact ⟨rfl, fun r h => by simp only [runM, Option.some.injEq] at h; subst h; exact hwf⟩
  | cons op ops ih =>
    simp only [runInDomB, Bool.and_eq_true] at hd
    obtain ⟨e1, w1⟩ := step_refines I hI ts op hwf hd.1
    simp only [runM, runS]
    cases hm : stepM I ts op with
    | none => rw [hm] at e1; simp [e1]
    | some r =>
      obtain ⟨ts', o⟩ := r
      rw [hm] at e1
      simp only [Option.map_some] at e1
      have hd2 := hd.2
      rw [e1] at hd2
      obtain ⟨e2, w2⟩ := ih ts' (w1 _ hm) hd2
      rw [e1]
      simp only [e2]
      cases hr : runM I ts' ops with
      | none => simp
      | some r2 =>
        obtain ⟨ts'', os⟩ := r2
        refine ⟨by simp, ?_⟩
        intro r h; simp only [Option.some.injEq] at h; subst h
        exact w2 (ts'', os) hr

end Rlib.Treap
