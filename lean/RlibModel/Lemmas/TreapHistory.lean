import RlibModel.Lemmas.Treap
/-!
C03: one step of the operation language on trees refines the same step on plain lists
(`step_refines`), hence whole histories do (`run_refines`).
-/
namespace Rlib.Treap
variable {T E G M V : Type} (I : TItem T E G M V)

/-- every live treap is well-formed -/
def AllWF (ts : List (Tree T)) : Prop := ∀ t ∈ ts, WFt I t

theorem map_eraseIdx {α β : Type} (f : α → β) (l : List α) (j : Nat) :
    (l.eraseIdx j).map f = (l.map f).eraseIdx j := by
  induction l generalizing j with
  | nil => rfl
  | cons a l ih => cases j with
    | zero => rfl
    | succ j => simp [List.eraseIdx, ih]

theorem map_set_same {α β : Type} (f : α → β) (l : List α) (i : Nat) (t x : α) (h : l[i]? = some t) (hx : f x = f t) :
    (l.set i x).map f = l.map f := by
  induction l generalizing i with
  | nil => rfl
  | cons a l ih => cases i with
    | zero => simp at h; simp [hx, h]
    | succ i => simp at h; simp [ih i h]

variable {I}

theorem AllWF.get {ts : List (Tree T)} (h : AllWF I ts) {i : Nat} {t : Tree T} (ht : ts[i]? = some t) : WFt I t :=
  h t (List.mem_of_getElem? ht)

theorem AllWF.set {ts : List (Tree T)} (h : AllWF I ts) (i : Nat) {x : Tree T} (hx : WFt I x) : AllWF I (ts.set i x) := by
  intro t ht
  rcases List.mem_or_eq_of_mem_set ht with h' | h'
  · exact h t h'
  · exact h' ▸ hx

theorem AllWF.push {ts : List (Tree T)} (h : AllWF I ts) {x : Tree T} (hx : WFt I x) : AllWF I (ts ++ [x]) := by
  intro t ht
  rcases List.mem_append.1 ht with h' | h'
  · exact h t h'
  · exact (List.mem_singleton.1 h') ▸ hx

theorem AllWF.erase {ts : List (Tree T)} (h : AllWF I ts) (j : Nat) : AllWF I (ts.eraseIdx j) :=
  fun t ht => h t (List.mem_of_mem_eraseIdx ht)

variable (I)

/-- One operation: the spec step on the represented sequences is the image of the model step,
    observation for observation, and well-formedness is kept. -/
theorem step_refines (hI : Lawful I) (ts : List (Tree T)) (op : Op E M V) (hwf : AllWF I ts)
    (hd : opInDomB (ts.map (seq I)) op = true) :
    stepS I (ts.map (seq I)) op = (stepM I ts op).map (fun r => (r.1.map (seq I), r.2)) ∧
    ∀ r, stepM I ts op = some r → AllWF I r.1 := by
  cases op with
  | new =>
    refine ⟨by simp [stepM, stepS, seq], ?_⟩
    intro r h; simp only [stepM, Option.some.injEq] at h; subst h
    exact hwf.push trivial
  | item v p =>
    refine ⟨by simp [stepM, stepS, seq, single], ?_⟩
    intro r h; simp only [stepM, Option.some.injEq] at h; subst h
    exact hwf.push (WFt_single I hI v p)
  | merge i j =>
    simp only [stepM, stepS, List.getElem?_map]
    by_cases hij : i = j
    · simp [hij]
    · simp only [hij, if_false]
      cases hti : ts[i]? with
      | none => simp
      | some a =>
        cases htj : ts[j]? with
        | none => simp
        | some b =>
          have ha := hwf.get hti
          have hb := hwf.get htj
          have hm := merge_WFt I hI a b ha hb
          refine ⟨?_, ?_⟩
          · simp [map_eraseIdx, List.map_set, merge_seq' I hI, size_eq I _ hm]
          · intro r h; simp only [Option.some.injEq] at h; subst h
            exact (hwf.set i hm).erase j
  | splitAt i k =>
    simp only [stepM, stepS, List.getElem?_map]
    cases hti : ts[i]? with
    | none => simp
    | some t =>
      have ht := hwf.get hti
      obtain ⟨s1, s2, s3, s4⟩ := splitAt_spec I hI t k ht
      refine ⟨?_, ?_⟩
      · simp [List.map_set, s1, s2, size_eq I _ s3, size_eq I _ s4]
      · intro r h; simp only [Option.some.injEq] at h; subst h
        exact (hwf.set i s3).push s4
  | splitBy i g =>
    simp only [stepM, stepS, List.getElem?_map]
    cases hti : ts[i]? with
    | none => simp
    | some t =>
      have ht := hwf.get hti
      simp only [opInDomB, List.getElem?_map, hti, Option.map_some] at hd
      obtain ⟨s1, s2, s3, s4⟩ := splitBy_spec I hI g t ht ((prefixMonoB_iff g _).1 hd)
      refine ⟨?_, ?_⟩
      · simp [List.map_set, s1, s2, size_eq I _ s3, size_eq I _ s4]
      · intro r h; simp only [Option.some.injEq] at h; subst h
        exact (hwf.set i s3).push s4
  | insertAt i k v p =>
    simp only [stepM, stepS, List.getElem?_map]
    cases hti : ts[i]? with
    | none => simp
    | some t =>
      have ht := hwf.get hti
      obtain ⟨s1, s2⟩ := insertAt_spec I hI t k v p ht
      refine ⟨?_, ?_⟩
      · simp [List.map_set, s1, size_eq I _ s2]
      · intro r h; simp only [Option.some.injEq] at h; subst h
        exact hwf.set i s2
  | removeAt i k =>
    simp only [stepM, stepS, List.getElem?_map]
    cases hti : ts[i]? with
    | none => simp
    | some t =>
      have ht := hwf.get hti
      obtain ⟨s1, s2, s3⟩ := removeAt_spec I hI t k ht
      refine ⟨?_, ?_⟩
      · simp only [Option.map_some]
        cases hk : (seq I t)[k]? with
        | none =>
          rw [hk] at s1 s2
          simp [s1, map_set_same (seq I) ts i t _ hti s2]
        | some x =>
          rw [hk] at s1 s2
          simp [s1, List.map_set, s2]
      · intro r h; simp only [Option.some.injEq] at h; subst h
        exact hwf.set i s3
  | first i =>
    simp only [stepM, stepS, List.getElem?_map]
    cases hti : ts[i]? with
    | none => simp
    | some t =>
      have ht := hwf.get hti
      obtain ⟨s1, s2, s3⟩ := first_spec' I hI t ht
      refine ⟨?_, ?_⟩
      · simp [s1, map_set_same (seq I) ts i t _ hti s2]
      · intro r h; simp only [Option.some.injEq] at h; subst h
        exact hwf.set i s3
  | last i =>
    simp only [stepM, stepS, List.getElem?_map]
    cases hti : ts[i]? with
    | none => simp
    | some t =>
      have ht := hwf.get hti
      obtain ⟨s1, s2, s3⟩ := last_spec' I hI t ht
      refine ⟨?_, ?_⟩
      · simp [s1, map_set_same (seq I) ts i t _ hti s2]
      · intro r h; simp only [Option.some.injEq] at h; subst h
        exact hwf.set i s3
  | collect i =>
    simp only [stepM, stepS, List.getElem?_map]
    cases hti : ts[i]? with
    | none => simp
    | some t =>
      have ht := hwf.get hti
      obtain ⟨s1, s2, s3⟩ := collect_spec' I hI t ht
      refine ⟨?_, ?_⟩
      · simp [s1, map_set_same (seq I) ts i t _ hti s2]
      · intro r h; simp only [Option.some.injEq] at h; subst h
        exact hwf.set i s3
  | size i =>
    simp only [stepM, stepS, List.getElem?_map]
    cases hti : ts[i]? with
    | none => simp
    | some t =>
      refine ⟨by simp [size_eq I _ (hwf.get hti)], ?_⟩
      intro r h; simp only [Option.some.injEq] at h; subst h; exact hwf
  | agg i =>
    simp only [stepM, stepS, List.getElem?_map]
    cases hti : ts[i]? with
    | none => simp
    | some t =>
      refine ⟨by simp [rootAgg_spec I _ (hwf.get hti)], ?_⟩
      intro r h; simp only [Option.some.injEq] at h; subst h; exact hwf
  | tag i m =>
    simp only [stepM, stepS, List.getElem?_map]
    cases hti : ts[i]? with
    | none => simp
    | some t =>
      obtain ⟨s1, s2⟩ := tagRoot_spec I hI m t (hwf.get hti)
      refine ⟨by simp [List.map_set, s1], ?_⟩
      intro r h; simp only [Option.some.injEq] at h; subst h; exact hwf.set i s2
  | drop i =>
    simp only [stepM, stepS, List.getElem?_map]
    cases hti : ts[i]? with
    | none => simp
    | some t =>
      refine ⟨by simp [map_eraseIdx], ?_⟩
      intro r h; simp only [Option.some.injEq] at h; subst h; exact hwf.erase i

  | moveAt i k j pos p =>
    simp only [stepM, stepS, List.getElem?_map]
    cases hti : ts[i]? with
    | none => simp
    | some t =>
      cases htj : ts[j]? with
      | none => simp
      | some u0 =>
        have ht := hwf.get hti
        obtain ⟨s1, s2, s3⟩ := removeAt_spec I hI t k ht
        have hwf1 : AllWF I (ts.set i (removeAt I t k).2) := hwf.set i s3
        simp only [Option.map_some]
        cases hr : (removeAt I t k).1 with
        | error e =>
          have hk : (seq I t)[k]? = none := by
            cases hk : (seq I t)[k]? with
            | none => rfl
            | some x => rw [hk, hr] at s1; simp [Except.map] at s1
          rw [hk] at s2
          rw [hk, hr] at s1
          have he : e = Panic.unwrap := by simpa [Except.map] using s1
          subst he
          refine ⟨by simp [hk, map_set_same (seq I) ts i t _ hti s2], ?_⟩
          intro r h; simp only [Option.some.injEq] at h; subst h; exact hwf1
        | ok it =>
          obtain ⟨x, hk⟩ : ∃ x, (seq I t)[k]? = some x := by
            cases hk : (seq I t)[k]? with
            | none => rw [hk, hr] at s1; simp [Except.map] at s1
            | some x => exact ⟨x, rfl⟩
          rw [hk] at s2
          rw [hk, hr] at s1
          have hx : I.own it = x := by simpa [Except.map] using s1
          have hsing := (removeAt_item I hI t k ht it hr).1
          have hmap1 : (ts.map (seq I)).set i ((seq I t).eraseIdx k) = (ts.set i (removeAt I t k).2).map (seq I) := by
            rw [List.map_set, s2]
          obtain ⟨u, huj⟩ : ∃ u, (ts.set i (removeAt I t k).2)[j]? = some u := by
            rw [List.getElem?_set]
            split
            · split
              · exact ⟨_, rfl⟩
              · rename_i h1 h2
                have := (List.getElem?_eq_some_iff.1 hti).1
                omega
            · exact ⟨u0, htj⟩
          have hu := hwf1.get huj
          obtain ⟨q1, q2⟩ := insertAt_item_spec I hI u pos it p hu hsing
          simp only [hk, hmap1, List.getElem?_map, huj, Option.map_some]
          refine ⟨?_, ?_⟩
          · simp [List.map_set, q1, size_eq I _ q2, hx]
          · intro r h; simp only [Option.some.injEq] at h; subst h
            exact hwf1.set j q2
  | takeAt i k p =>
    simp only [stepM, stepS, List.getElem?_map]
    cases hti : ts[i]? with
    | none => simp
    | some t =>
      have ht := hwf.get hti
      obtain ⟨s1, s2, s3⟩ := removeAt_spec I hI t k ht
      have hwf1 : AllWF I (ts.set i (removeAt I t k).2) := hwf.set i s3
      simp only [Option.map_some]
      cases hr : (removeAt I t k).1 with
      | error e =>
        have hk : (seq I t)[k]? = none := by
          cases hk : (seq I t)[k]? with
          | none => rfl
          | some x => rw [hk, hr] at s1; simp [Except.map] at s1
        rw [hk] at s2
        rw [hk, hr] at s1
        have he : e = Panic.unwrap := by simpa [Except.map] using s1
        subst he
        refine ⟨by simp [hk, map_set_same (seq I) ts i t _ hti s2], ?_⟩
        intro r h; simp only [Option.some.injEq] at h; subst h; exact hwf1
      | ok it =>
        obtain ⟨x, hk⟩ : ∃ x, (seq I t)[k]? = some x := by
          cases hk : (seq I t)[k]? with
          | none => rw [hk, hr] at s1; simp [Except.map] at s1
          | some x => exact ⟨x, rfl⟩
        rw [hk] at s2
        rw [hk, hr] at s1
        have hx : I.own it = x := by simpa [Except.map] using s1
        have hsing := (removeAt_item I hI t k ht it hr).1
        refine ⟨by simp [hk, List.map_set, s2, single, seq, hx], ?_⟩
        intro r h; simp only [Option.some.injEq] at h; subst h
        exact hwf1.push ((WFt_single_iff I hI it p).2 hsing)
  | dup i w p =>
    simp only [stepM, stepS, List.getElem?_map]
    cases hti : ts[i]? with
    | none => simp
    | some t =>
      have ht := hwf.get hti
      simp only [Option.map_some, size_eq I t ht]
      by_cases hc : (seq I t).length ≤ 1
      · obtain ⟨c1, c2, c3, c4, c5⟩ := pick_spec I hI w t ht hc p
        simp only [if_pos hc]
        refine ⟨by simp [c1, c4, map_set_same (seq I) ts i t _ hti c2], ?_⟩
        intro r h; simp only [Option.some.injEq] at h; subst h
        exact (hwf.set i c3).push c5
      · simp only [if_neg hc]
        refine ⟨by simp [seq], ?_⟩
        intro r h; simp only [Option.some.injEq] at h; subst h
        exact hwf.push trivial
  | collect2 i j =>
    simp only [stepM, stepS, List.getElem?_map]
    by_cases hij : i = j
    · simp [hij]
    · simp only [hij, if_false]
      cases hti : ts[i]? with
      | none => simp
      | some a =>
        cases htj : ts[j]? with
        | none => simp
        | some b =>
          obtain ⟨a1, a2, a3⟩ := collect_spec' I hI a (hwf.get hti)
          obtain ⟨b1, b2, b3⟩ := collect_spec' I hI b (hwf.get htj)
          have htj' : (ts.set i (collect I a).2)[j]? = some b := by
            rw [List.getElem?_set, if_neg hij]; exact htj
          refine ⟨?_, ?_⟩
          · simp only [Option.map_some, List.map_append, a1, b1]
            rw [map_set_same (seq I) _ j b _ htj' b2, map_set_same (seq I) ts i a _ hti a2]
          · intro r h; simp only [Option.some.injEq] at h; subst h
            exact (hwf.set i a3).set j b3
  | insertTag i k v m p =>
    simp only [stepM, stepS, List.getElem?_map]
    cases hti : ts[i]? with
    | none => simp
    | some t =>
      have ht := hwf.get hti
      have hsing := Singleton_tag I hI m _ (Singleton_new I hI v)
      obtain ⟨s1, s2⟩ := insertAt_item_spec I hI t k _ p ht hsing
      refine ⟨?_, ?_⟩
      · simp [List.map_set, s1, size_eq I _ s2, hI.tag_own]
      · intro r h; simp only [Option.some.injEq] at h; subst h
        exact hwf.set i s2
  | moveRoot i w j pos p =>
    simp only [stepM, stepS, List.getElem?_map]
    cases hti : ts[i]? with
    | none => simp
    | some t =>
      cases htj : ts[j]? with
      | none => simp
      | some u0 =>
        have ht := hwf.get hti
        simp only [Option.map_some]
        cases ho : onlyItem? I t with
        | none =>
          have hlen := onlyItem_none I t ht ho
          refine ⟨?_, ?_⟩
          · cases hs : seq I t with
            | nil => simp
            | cons x xs =>
              cases xs with
              | nil => rw [hs] at hlen; simp at hlen
              | cons y ys => simp
          · intro r h; simp only [Option.some.injEq] at h; subst h; exact hwf
        | some it =>
          obtain ⟨_, hseq, hsing⟩ := onlyItem_some I hI t ht it ho
          have hx : WFt I (if w = 0 then Tree.nil else t) := by
            split
            · trivial
            · exact ht
          have hwf1 : AllWF I (ts.set i (if w = 0 then Tree.nil else t)) := hwf.set i hx
          have hmap1 : (ts.map (seq I)).set i (if w = 0 then [] else [I.own it]) =
              (ts.set i (if w = 0 then Tree.nil else t)).map (seq I) := by
            rw [List.map_set]; congr 1
            split
            · rfl
            · exact hseq.symm
          obtain ⟨u, huj⟩ : ∃ u, (ts.set i (if w = 0 then Tree.nil else t))[j]? = some u := by
            rw [List.getElem?_set]
            split
            · split
              · exact ⟨_, rfl⟩
              · rename_i h1 h2
                have := (List.getElem?_eq_some_iff.1 hti).1
                omega
            · exact ⟨u0, htj⟩
          have hu := hwf1.get huj
          obtain ⟨q1, q2⟩ := insertAt_item_spec I hI u pos it p hu hsing
          rw [hseq]
          simp only [hmap1, List.getElem?_map, huj, Option.map_some]
          refine ⟨?_, ?_⟩
          · simp [List.map_set, q1, size_eq I _ q2]
          · intro r h; simp only [Option.some.injEq] at h; subst h
            exact hwf1.set j q2

/-- Whole histories: the spec run on the represented sequences is the image of the model run. -/
theorem run_refines (hI : Lawful I) (ops : List (Op E M V)) (ts : List (Tree T)) (hwf : AllWF I ts)
    (hd : runInDomB (G := G) I (ts.map (seq I)) ops = true) :
    runS I (ts.map (seq I)) ops = (runM I ts ops).map (fun r => (r.1.map (seq I), r.2)) ∧
    ∀ r, runM I ts ops = some r → AllWF I r.1 := by
  induction ops generalizing ts with
  | nil => exact ⟨rfl, fun r h => by simp only [runM, Option.some.injEq] at h; subst h; exact hwf⟩
  | cons op ops ih =>
    simp only [runInDomB, Bool.and_eq_true] at hd
    obtain ⟨e1, w1⟩ := step_refines I hI ts op hwf hd.1
    simp only [runM, runS]
    cases hm : stepM I ts op with
    | none => rw [hm] at e1; simp [e1]
    | some r =>
      obtain ⟨ts', o⟩ := r
      rw [hm] at e1
      simp only [Option.map_some] at e1
      have hd2 := hd.2
      rw [e1] at hd2
      obtain ⟨e2, w2⟩ := ih ts' (w1 _ hm) hd2
      rw [e1]
      simp only [e2]
      cases hr : runM I ts' ops with
      | none => simp
      | some r2 =>
        obtain ⟨ts'', os⟩ := r2
        refine ⟨by simp, ?_⟩
        intro r h; simp only [Option.some.injEq] at h; subst h
        exact w2 (ts'', os) hr

end Rlib.Treap
