import RlibModel.Model.Rand
import Mathlib.Tactic.Ring
import Mathlib.Tactic.Linarith
import Mathlib.Tactic.Positivity
/-! Helper lemmas for C14, integer part: machine casts, `genRange`/`genIncl` in closed form. -/
namespace Rlib.Rand

/-! ### two's-complement casts, for every width -/

/-- `2^w = 2 * 2^(w-1)` packaged so that `omega` can work with the two powers as atoms. -/
theorem pow_split (w : Nat) (hw : 1 ≤ w) :
    ∃ H : Int, 0 < H ∧ (2 : Int) ^ (w - 1) = H ∧ (2 : Int) ^ w = 2 * H := by
  refine ⟨2 ^ (w - 1), by positivity, rfl, ?_⟩
  obtain ⟨k, rfl⟩ : ∃ k, w = k + 1 := ⟨w - 1, by omega⟩
  simp only [Nat.add_sub_cancel, pow_succ]
  ring

theorem wrapU_of_fits (w : Nat) (z : Int) (h0 : 0 ≤ z) (h1 : z < 2 ^ w) : wrapU w z = z :=
  Int.emod_eq_of_lt h0 h1

theorem wrapU_nonneg (w : Nat) (z : Int) : 0 ≤ wrapU w z :=
  Int.emod_nonneg _ (by positivity)

theorem wrapU_lt (w : Nat) (z : Int) : wrapU w z < 2 ^ w :=
  Int.emod_lt_of_pos _ (by positivity)

theorem wrapU_wrapU_sub (w : Nat) (a b : Int) : wrapU w (wrapU w a - wrapU w b) = wrapU w (a - b) := by
  unfold wrapU
  exact (Int.sub_emod a b _).symm

theorem wrapU_add_wrapU (w : Nat) (a b : Int) : wrapU w (a + wrapU w b) = wrapU w (a + b) := by
  unfold wrapU
  exact Int.add_emod_emod a b _

theorem wrapS_wrapU (w : Nat) (z : Int) : wrapS w (wrapU w z) = wrapS w z := by
  unfold wrapS wrapU
  simp only [Int.emod_emod_of_dvd _ (dvd_refl _)]

/-- a value of the signed type is unchanged by `as $it` -/
theorem wrapS_of_fits (w : Nat) (hw : 1 ≤ w) (z : Int) (h0 : -(2 ^ (w - 1) : Int) ≤ z) (h1 : z < 2 ^ (w - 1)) :
    wrapS w z = z := by
  obtain ⟨H, hH, e1, e2⟩ := pow_split w hw
  unfold wrapS
  rw [e1] at h0 h1
  simp only [e1, e2]
  by_cases hz : 0 ≤ z
  · have : z % (2 * H) = z := Int.emod_eq_of_lt hz (by omega)
    rw [this, if_pos h1]
  · have h2 : (z + 2 * H) % (2 * H) = z + 2 * H := Int.emod_eq_of_lt (by omega) (by omega)
    have h3 : (z + 2 * H) % (2 * H) = z % (2 * H) := Int.add_emod_right _ _
    rw [← h3, h2, if_neg (by omega)]
    omega

/-- `as $it` always lands in the type -/
theorem wrapS_range (w : Nat) (hw : 1 ≤ w) (z : Int) :
    -(2 ^ (w - 1) : Int) ≤ wrapS w z ∧ wrapS w z < 2 ^ (w - 1) := by
  obtain ⟨H, hH, e1, e2⟩ := pow_split w hw
  unfold wrapS
  simp only [e1, e2]
  have h0 : 0 ≤ z % (2 * H) := Int.emod_nonneg _ (by omega)
  have h1 : z % (2 * H) < 2 * H := Int.emod_lt_of_pos _ (by omega)
  split <;> omega

/-! ### `IntTy` bounds as propositions -/

theorem fits_iff (t : IntTy) (z : Int) : t.fits z = true ↔ t.minVal ≤ z ∧ z ≤ t.maxVal := by
  simp [IntTy.fits]

theorem minVal_le_maxVal (t : IntTy) (hw : 1 ≤ t.bits) : t.minVal ≤ t.maxVal := by
  obtain ⟨H, hH, e1, e2⟩ := pow_split t.bits hw
  unfold IntTy.minVal IntTy.maxVal
  cases t.signed <;> simp only [e1, e2, if_true, if_false, Bool.false_eq_true] <;> omega

theorem checked_of_fits (t : IntTy) (z : Int) (h : t.minVal ≤ z ∧ z ≤ t.maxVal) : checked t z = .ok z := by
  unfold checked
  rw [if_pos ((fits_iff t z).2 h)]

/-- `rng as $t` lands in the type -/
theorem wrap_range (t : IntTy) (hw : 1 ≤ t.bits) (z : Int) : t.minVal ≤ t.wrap z ∧ t.wrap z ≤ t.maxVal := by
  unfold IntTy.wrap IntTy.minVal IntTy.maxVal
  cases hsg : t.signed
  · simp only [if_false, Bool.false_eq_true]
    have := wrapU_nonneg t.bits z
    have := wrapU_lt t.bits z
    omega
  · simp only [if_true]
    have := wrapS_range t.bits hw z
    omega

/-- `rng as $t` reproduces a value of the type -/
theorem wrap_of_fits (t : IntTy) (hw : 1 ≤ t.bits) (z : Int) (h : t.minVal ≤ z ∧ z ≤ t.maxVal) : t.wrap z = z := by
  unfold IntTy.wrap
  unfold IntTy.minVal IntTy.maxVal at h
  cases hsg : t.signed
  · simp only [hsg, if_false, Bool.false_eq_true] at h ⊢
    exact wrapU_of_fits _ _ h.1 (by omega)
  · simp only [hsg, if_true] at h ⊢
    exact wrapS_of_fits _ hw _ h.1 (by omega)

/-- wrapping is invariant under adding multiples of `2^w` -/
theorem wrap_emod (t : IntTy) (z : Int) : t.wrap (z % 2 ^ t.bits) = t.wrap z := by
  unfold IntTy.wrap
  cases t.signed
  · simp only [if_false, Bool.false_eq_true]
    unfold wrapU
    exact Int.emod_emod_of_dvd _ (dvd_refl _)
  · simp only [if_true]
    exact wrapS_wrapU _ _

/-- width of the type: `maxVal - minVal + 1 = 2^w` -/
theorem width_eq (t : IntTy) (hw : 1 ≤ t.bits) : t.maxVal - t.minVal + 1 = 2 ^ t.bits := by
  obtain ⟨H, hH, e1, e2⟩ := pow_split t.bits hw
  unfold IntTy.minVal IntTy.maxVal
  cases t.signed <;> simp only [e1, e2, if_true, if_false, Bool.false_eq_true] <;> omega

/-! ### the half-open range in closed form -/

theorem genRange_empty (t : IntTy) (s e : Int) (raw : Nat) (h : e ≤ s) : genRange t s e raw = .error .assert := by
  unfold genRange
  rw [if_pos (by omega)]

/-- For bounds that are values of the type and `s < e`, the machine computation (casts to the
    unsigned type, wrapping subtraction/addition, cast back) yields `s + raw mod (e - s)`. -/
theorem genRange_eq (t : IntTy) (hw : 1 ≤ t.bits) (s e : Int) (raw : Nat)
    (hs : t.minVal ≤ s ∧ s ≤ t.maxVal) (he : t.minVal ≤ e ∧ e ≤ t.maxVal) (hlt : s < e) :
    genRange t s e raw = .ok (s + (raw : Int) % (e - s)) := by
  obtain ⟨H, hH, e1, e2⟩ := pow_split t.bits hw
  have hk0 : 0 ≤ (raw : Int) % (e - s) := Int.emod_nonneg _ (by omega)
  have hk1 : (raw : Int) % (e - s) < e - s := Int.emod_lt_of_pos _ (by omega)
  unfold genRange
  rw [if_neg (by omega)]
  unfold IntTy.minVal IntTy.maxVal at hs he
  cases hsg : t.signed
  · -- unsigned
    simp only [hsg, if_false, Bool.false_eq_true] at hs he ⊢
    rw [e2] at hs he
    rw [checked_of_fits t (e - s) (by unfold IntTy.minVal IntTy.maxVal; simp only [hsg, if_false, Bool.false_eq_true]; omega)]
    simp only []
    rw [if_neg (by omega)]
    rw [wrapU_of_fits _ _ hk0 (by rw [e2]; omega)]
    rw [checked_of_fits t _ (by unfold IntTy.minVal IntTy.maxVal; simp only [hsg, if_false, Bool.false_eq_true]; omega)]
    congr 1
    omega
  · -- signed
    simp only [hsg, if_true] at hs he ⊢
    rw [e1] at hs he
    have hlen : wrapU t.bits (wrapU t.bits e - wrapU t.bits s) = e - s := by
      rw [wrapU_wrapU_sub]
      exact wrapU_of_fits _ _ (by omega) (by rw [e2]; omega)
    rw [hlen, if_neg (by omega)]
    rw [wrapU_of_fits _ ((raw : Int) % (e - s)) hk0 (by rw [e2]; omega)]
    rw [wrapU_add_wrapU, wrapS_wrapU]
    rw [wrapS_of_fits _ hw _ (by rw [e1]; omega) (by rw [e1]; omega)]
    congr 1
    omega

/-! ### the inclusive range in closed form -/

theorem genIncl_empty (t : IntTy) (s e : Int) (raw : Nat)
    (hs : t.minVal ≤ s ∧ s ≤ t.maxVal) (he : t.minVal ≤ e ∧ e ≤ t.maxVal) (h : e < s) :
    genIncl t s e raw = .error .assert := by
  unfold genIncl
  have hne : s ≠ t.minVal := by omega
  rw [if_pos hne, checked_of_fits t (s - 1) (by omega)]
  simp only []
  rw [genRange_empty t (s - 1) e raw (by omega)]

/-- not the whole type: `s + raw mod (e - s + 1)` -/
theorem genIncl_eq (t : IntTy) (hw : 1 ≤ t.bits) (s e : Int) (raw : Nat)
    (hs : t.minVal ≤ s ∧ s ≤ t.maxVal) (he : t.minVal ≤ e ∧ e ≤ t.maxVal) (hle : s ≤ e)
    (hnf : ¬ (s = t.minVal ∧ e = t.maxVal)) :
    genIncl t s e raw = .ok (s + (raw : Int) % (e - s + 1)) := by
  have hk0 : 0 ≤ (raw : Int) % (e - s + 1) := Int.emod_nonneg _ (by omega)
  have hk1 : (raw : Int) % (e - s + 1) < e - s + 1 := Int.emod_lt_of_pos _ (by omega)
  unfold genIncl
  by_cases h1 : s = t.minVal
  · have h2 : e ≠ t.maxVal := fun h => hnf ⟨h1, h⟩
    rw [if_neg (by simpa using h1), if_pos h2, checked_of_fits t (e + 1) (by omega)]
    simp only []
    rw [genRange_eq t hw s (e + 1) raw hs (by omega) (by omega)]
    have : e + 1 - s = e - s + 1 := by omega
    rw [this]
  · rw [if_pos h1, checked_of_fits t (s - 1) (by omega)]
    simp only []
    rw [genRange_eq t hw (s - 1) e raw (by omega) he (by omega)]
    simp only []
    have : e - (s - 1) = e - s + 1 := by omega
    rw [this, checked_of_fits t _ (by omega)]
    congr 1
    omega

/-- the whole type: `rng as $t` -/
theorem genIncl_full (t : IntTy) (raw : Nat) : genIncl t t.minVal t.maxVal raw = .ok (t.wrap raw) := by
  unfold genIncl
  rw [if_neg (by simp), if_neg (by simp)]

/-! ### in range / onto, per range constructor -/

theorem zero_fits (t : IntTy) (hw : 1 ≤ t.bits) : t.minVal ≤ 0 ∧ 0 ≤ t.maxVal := by
  obtain ⟨H, hH, e1, e2⟩ := pow_split t.bits hw
  unfold IntTy.minVal IntTy.maxVal
  cases t.signed <;> simp only [e1, e2, if_true, if_false, Bool.false_eq_true] <;> omega

theorem genRange_in (t : IntTy) (hw : 1 ≤ t.bits) (s e : Int) (raw : Nat)
    (hs : t.minVal ≤ s ∧ s ≤ t.maxVal) (he : t.minVal ≤ e ∧ e ≤ t.maxVal) (hlt : s < e) :
    ∃ v, genRange t s e raw = .ok v ∧ s ≤ v ∧ v ≤ e - 1 := by
  refine ⟨_, genRange_eq t hw s e raw hs he hlt, ?_, ?_⟩
  · have := Int.emod_nonneg (raw : Int) (b := e - s) (by omega)
    omega
  · have := Int.emod_lt_of_pos (raw : Int) (b := e - s) (by omega)
    omega

/-- a natural number below `2^w` with the given integer value -/
theorem exists_raw (w : Nat) (z : Int) (h0 : 0 ≤ z) (h1 : z < 2 ^ w) : ∃ raw : Nat, raw < 2 ^ w ∧ (raw : Int) = z := by
  refine ⟨z.toNat, ?_, Int.toNat_of_nonneg h0⟩
  have h2 : ((z.toNat : Nat) : Int) < ((2 ^ w : Nat) : Int) := by
    rw [Int.toNat_of_nonneg h0]
    push_cast
    exact h1
  exact_mod_cast h2

theorem genRange_onto (t : IntTy) (hw : 1 ≤ t.bits) (s e v : Int)
    (hs : t.minVal ≤ s ∧ s ≤ t.maxVal) (he : t.minVal ≤ e ∧ e ≤ t.maxVal) (h1 : s ≤ v) (h2 : v ≤ e - 1) :
    ∃ raw : Nat, raw < 2 ^ t.bits ∧ genRange t s e raw = .ok v := by
  have hwd := width_eq t hw
  obtain ⟨raw, hr, hc⟩ := exists_raw t.bits (v - s) (by omega) (by omega)
  refine ⟨raw, hr, ?_⟩
  rw [genRange_eq t hw s e raw hs he (by omega), hc, Int.emod_eq_of_lt (by omega) (by omega)]
  congr 1
  omega

theorem genIncl_in (t : IntTy) (hw : 1 ≤ t.bits) (s e : Int) (raw : Nat)
    (hs : t.minVal ≤ s ∧ s ≤ t.maxVal) (he : t.minVal ≤ e ∧ e ≤ t.maxVal) (hle : s ≤ e) :
    ∃ v, genIncl t s e raw = .ok v ∧ s ≤ v ∧ v ≤ e := by
  by_cases hf : s = t.minVal ∧ e = t.maxVal
  · obtain ⟨rfl, rfl⟩ := hf
    exact ⟨_, genIncl_full t raw, wrap_range t hw raw⟩
  · refine ⟨_, genIncl_eq t hw s e raw hs he hle hf, ?_, ?_⟩
    · have := Int.emod_nonneg (raw : Int) (b := e - s + 1) (by omega)
      omega
    · have := Int.emod_lt_of_pos (raw : Int) (b := e - s + 1) (by omega)
      omega

theorem genIncl_onto (t : IntTy) (hw : 1 ≤ t.bits) (s e v : Int)
    (hs : t.minVal ≤ s ∧ s ≤ t.maxVal) (he : t.minVal ≤ e ∧ e ≤ t.maxVal) (h1 : s ≤ v) (h2 : v ≤ e) :
    ∃ raw : Nat, raw < 2 ^ t.bits ∧ genIncl t s e raw = .ok v := by
  have hwd := width_eq t hw
  by_cases hf : s = t.minVal ∧ e = t.maxVal
  · obtain ⟨rfl, rfl⟩ := hf
    have hp : (0 : Int) < 2 ^ t.bits := by positivity
    obtain ⟨raw, hr, hc⟩ := exists_raw t.bits (v % 2 ^ t.bits) (Int.emod_nonneg _ (by omega)) (Int.emod_lt_of_pos _ hp)
    refine ⟨raw, hr, ?_⟩
    rw [genIncl_full, hc, wrap_emod, wrap_of_fits t hw v ⟨h1, h2⟩]
  · obtain ⟨raw, hr, hc⟩ := exists_raw t.bits (v - s) (by omega) (by omega)
    refine ⟨raw, hr, ?_⟩
    rw [genIncl_eq t hw s e raw hs he (by omega) hf, hc, Int.emod_eq_of_lt (by omega) (by omega)]
    congr 1
    omega

end Rlib.Rand
