import Mathlib.RingTheory.RootsOfUnity.Complex
import RlibModel.Lemmas.FftLoops
/-!
Level-B lemmas for C04: the algebra.  In exact arithmetic (a commutative ring with a root of unity; then ℂ with
`tw i cur = exp(iπ·i/cur)`) the iterative transform of `fft_internal` is the discrete Fourier transform, and
`multiply` is the integer convolution.
-/
namespace Rlib.Fft
open Finset

section Algebra
variable {R : Type} [CommRing R]

/-- The discrete Fourier sum `∑_{s<N} x_s ρ^{ks}`. -/
def dft (ρ : R) (N : ℕ) (x : ℕ → R) (k : ℕ) : R := ∑ s ∈ range N, x s * ρ ^ (k * s)

theorem sum_range_even_odd (f : ℕ → R) (L : ℕ) :
    ∑ s ∈ range (2 * L), f s = ∑ s ∈ range L, f (2 * s) + ∑ s ∈ range L, f (2 * s + 1) := by
  induction L with
  | zero => simp
  | succ L ih =>
    rw [show 2 * (L + 1) = 2 * L + 1 + 1 by ring, sum_range_succ, sum_range_succ, ih, sum_range_succ, sum_range_succ]
    ring

/-- radix-2 decimation in time -/
theorem dft_split (σ : R) (L : ℕ) (z : ℕ → R) (k : ℕ) :
    dft σ (2 * L) z k = dft (σ ^ 2) L (fun s => z (2 * s)) k + σ ^ k * dft (σ ^ 2) L (fun s => z (2 * s + 1)) k := by
  unfold dft
  rw [sum_range_even_odd, mul_sum]
  congr 1
  · apply sum_congr rfl; intro s _
    rw [← pow_mul]; congr 2; ring
  · apply sum_congr rfl; intro s _
    rw [← pow_mul, mul_left_comm, ← pow_add]; congr 2; ring

theorem dft_add_period (τ : R) (L : ℕ) (h : τ ^ L = 1) (z : ℕ → R) (j : ℕ) : dft τ L z (j + L) = dft τ L z j := by
  unfold dft
  apply sum_congr rfl; intro s _
  rw [add_mul, pow_add, mul_comm L s, pow_mul τ s L, pow_right_comm, h, one_pow, mul_one]

end Algebra

section Exact
variable {R : Type} [CommRing R]

/-- The arithmetic record computes in the ring `R` (the three operations `fft_internal` uses). -/
structure RingOps (A : Arith R) : Prop where
  add : ∀ x y, A.add x y = x + y
  sub : ∀ x y, A.sub x y = x - y
  mul : ∀ x y, A.mul x y = x * y

/-- Invariant of the iterative transform before the stage with half-size `2^t` (`e = m - t`): the block
    `b` holds the DFT of length `2^t` of the subsequence `x₀[s·2^e + rev_e(b)]`. -/
def BlockInv (ρ : R) (x₀ : ℕ → R) (t e : ℕ) (x : ℕ → R) : Prop :=
  ∀ b j, b < 2^e → j < 2^t → x (b * 2^t + j) = dft (ρ ^ (2^e)) (2^t) (fun s => x₀ (s * 2^e + revC e b)) j

theorem blockInv_step (A : Arith R) (hA : RingOps A) (ρ : R) (x₀ : ℕ → R) (t d : ℕ) (w : ℕ → R)
    (hneg : ρ ^ (2^(t+d)) = -1) (hw : ∀ j, j < 2^t → w j = ρ ^ (j * 2^d))
    (x : ℕ → R) (h : BlockInv ρ x₀ t (d+1) x) : BlockInv ρ x₀ (t+1) d (stageF A w (2^t) x) := by
  intro B j' hB hj'
  have hL : 0 < 2^t := Nat.two_pow_pos t
  have h2 : 2^(t+1) = 2 * 2^t := by rw [pow_succ]; ring
  have hmod : (B * 2^(t+1) + j') % (2 * 2^t) = j' := by
    rw [← h2, Nat.add_comm, Nat.add_mul_mod_self_right, Nat.mod_eq_of_lt hj']
  have h2B : 2 * B < 2^(d+1) := by rw [pow_succ]; omega
  have h2B1 : 2 * B + 1 < 2^(d+1) := by rw [pow_succ]; omega
  -- the two half-blocks
  have e0 := revC_low d B 0 hB (by omega)
  have e1 := revC_low d B 1 hB (by omega)
  simp only [Nat.add_zero, Nat.zero_mul] at e0
  rw [Nat.one_mul] at e1
  set σ : R := ρ ^ (2^d) with hσ
  have hσ2 : σ ^ 2 = ρ ^ (2^(d+1)) := by rw [hσ, ← pow_mul, pow_succ]
  have hσL : σ ^ (2^t) = -1 := by rw [hσ, ← pow_mul, ← pow_add, Nat.add_comm]; exact hneg
  have hτL : (σ ^ 2) ^ (2^t) = 1 := by rw [pow_right_comm, hσL]; norm_num
  have hwσ : ∀ j, ρ ^ (j * 2^d) = σ ^ j := by intro j; rw [hσ, ← pow_mul, mul_comm]
  -- the even / odd halves
  let E := dft (σ^2) (2^t) (fun s => x₀ (s * 2^(d+1) + revC (d+1) (2*B)))
  let O := dft (σ^2) (2^t) (fun s => x₀ (s * 2^(d+1) + revC (d+1) (2*B+1)))
  have hE : ∀ j, j < 2^t → x ((2*B) * 2^t + j) = E j := by
    intro j hj; rw [h (2*B) j h2B hj, ← hσ2]
  have hO : ∀ j, j < 2^t → x ((2*B+1) * 2^t + j) = O j := by
    intro j hj; rw [h (2*B+1) j h2B1 hj, ← hσ2]
  have hrhs : ∀ k, dft σ (2^(t+1)) (fun s => x₀ (s * 2^d + revC d B)) k = E k + σ ^ k * O k := by
    intro k
    have z0 : (fun s => (fun s => x₀ (s * 2^d + revC d B)) (2 * s)) = fun s => x₀ (s * 2^(d+1) + revC (d+1) (2*B)) := by
      funext s
      show x₀ (2 * s * 2^d + revC d B) = _
      rw [e0]; congr 1; rw [pow_succ]; ring
    have z1 : (fun s => (fun s => x₀ (s * 2^d + revC d B)) (2 * s + 1)) = fun s => x₀ (s * 2^(d+1) + revC (d+1) (2*B+1)) := by
      funext s
      show x₀ ((2 * s + 1) * 2^d + revC d B) = _
      rw [e1]; congr 1; rw [pow_succ]; ring
    rw [h2, dft_split, z0, z1]
  unfold stageF
  rw [hmod]
  by_cases hlt : j' < 2^t
  · rw [if_pos hlt, hA.add, hA.mul, hw j' hlt]
    have p0 : B * 2^(t+1) + j' = (2*B) * 2^t + j' := by rw [h2]; ring
    have p1 : B * 2^(t+1) + j' + 2^t = (2*B+1) * 2^t + j' := by rw [h2]; ring
    rw [p1, p0, hE j' hlt, hO j' hlt, hrhs j', hwσ]
    ring
  · rw [if_neg hlt, hA.sub, hA.mul, hw (j' - 2^t) (by omega)]
    obtain ⟨j, rfl⟩ : ∃ j, j' = j + 2^t := ⟨j' - 2^t, by omega⟩
    have hj : j < 2^t := by omega
    have p0 : B * 2^(t+1) + (j + 2^t) - 2^t = (2*B) * 2^t + j := by
      rw [← Nat.add_assoc, Nat.add_sub_cancel, h2]; ring
    have p1 : B * 2^(t+1) + (j + 2^t) = (2*B+1) * 2^t + j := by rw [h2]; ring
    have hEp : E (j + 2^t) = E j := dft_add_period _ _ hτL _ _
    have hOp : O (j + 2^t) = O j := dft_add_period _ _ hτL _ _
    rw [p0, p1, hE j hj, hO j hj, hrhs (j + 2^t), Nat.add_sub_cancel, hEp, hOp, pow_add, hσL, hwσ]
    ring


theorem stagesF_dft (A : Arith R) (hA : RingOps A) (ρ : R) (x₀ : ℕ → R) (m : ℕ) (W : ℕ → ℕ → R)
    (hρ : ∀ m', m = m' + 1 → ρ ^ (2^m') = -1)
    (hW : ∀ t j, t < m → j < 2^t → W t j = ρ ^ (j * 2^(m-t-1))) :
    ∀ (d t : ℕ) (x : ℕ → R), t + d = m → BlockInv ρ x₀ t d x →
      ∀ p, p < 2^m → stagesF A W d t x p = dft ρ (2^m) x₀ p := by
  intro d
  induction d with
  | zero =>
    intro t x ht h p hp
    have : t = m := by omega
    subst this
    have := h 0 p (by simp) hp
    simpa [stagesF, revC] using this
  | succ d ih =>
    intro t x ht h p hp
    simp only [stagesF]
    apply ih (t+1) _ (by omega) _ p hp
    apply blockInv_step A hA ρ x₀ t d (W t) (hρ (t+d) (by omega)) _ x h
    intro j hj
    rw [hW t j (by omega) hj, show m - t - 1 = d by omega]

theorem blockInv_init (ρ : R) (x₀ : ℕ → R) (m : ℕ) : BlockInv ρ x₀ 0 m (fun q => x₀ (revC m q)) := by
  intro b j _ hj
  have : j = 0 := by simpa using hj
  subst this
  simp [dft]

/-- **Iterative Cooley–Tukey with the bit-reversal table computes the DFT** (any commutative ring,
    any `ρ` with `ρ^(n/2) = -1`, twiddles `ρ^(j·n/(2L))`). -/
theorem fftF_dft (A : Arith R) (hA : RingOps A) (ρ : R) (rd : ℕ → R) (maxN m : ℕ) (inv : Bool)
    (hρ : ∀ m', m = m' + 1 → ρ ^ (2^m') = -1)
    (hW : ∀ t j, t < m → j < 2^t → stageTw rd maxN inv t j = ρ ^ (j * 2^(m-t-1)))
    (x : ℕ → R) (p : ℕ) (hp : p < 2^m) :
    fftF A rd (revC m) maxN m inv x p
      = if inv then A.scaleInv (2^m) (dft ρ (2^m) x p) else dft ρ (2^m) x p := by
  unfold fftF
  simp only []
  rw [stagesF_dft A hA ρ x m _ hρ hW m 0 _ (by omega) (blockInv_init ρ x m) p hp]

end Exact


section Algebra2
variable {R : Type} [CommRing R]

theorem dft_congr (ρ : R) (N : ℕ) (x y : ℕ → R) (h : ∀ s, s < N → x s = y s) (k : ℕ) : dft ρ N x k = dft ρ N y k := by
  unfold dft
  exact sum_congr rfl (fun s hs => by rw [h s (mem_range.1 hs)])

theorem dft_lin (ρ c : R) (N : ℕ) (x y : ℕ → R) (k : ℕ) :
    dft ρ N (fun s => x s + c * y s) k = dft ρ N x k + c * dft ρ N y k := by
  unfold dft
  rw [mul_sum, ← sum_add_distrib]
  exact sum_congr rfl (fun s _ => by ring)

theorem sumTo_eq_sum (n : ℕ) (f : ℕ → ℤ) : sumTo n f = ∑ s ∈ range n, f s := by
  induction n with
  | zero => rfl
  | succ n ih => rw [sumTo, ih, sum_range_succ]

/-- Convolution theorem for finite sequences (no wrap-around: `la + lb - 1 ≤ n`), any `ρ`. -/
theorem dft_conv (ρ : R) (n la lb : ℕ) (hla : 0 < la) (hlb : 0 < lb) (hn : la + lb - 1 ≤ n) (x y : ℕ → R)
    (hx : ∀ s, la ≤ s → x s = 0) (hy : ∀ t, lb ≤ t → y t = 0) (k : ℕ) :
    dft ρ n x k * dft ρ n y k
      = dft ρ n (fun u => ∑ s ∈ range la, if s ≤ u ∧ u - s < lb then x s * y (u - s) else 0) k := by
  unfold dft
  -- truncate the two factors to their supports
  have tx : ∑ s ∈ range n, x s * ρ ^ (k * s) = ∑ s ∈ range la, x s * ρ ^ (k * s) := by
    symm
    apply sum_subset (fun a ha => by simp only [mem_range] at ha ⊢; omega)
    intro s _ hs
    rw [hx s (by simpa using hs), zero_mul]
  have ty : ∑ t ∈ range n, y t * ρ ^ (k * t) = ∑ t ∈ range lb, y t * ρ ^ (k * t) := by
    symm
    apply sum_subset (fun a ha => by simp only [mem_range] at ha ⊢; omega)
    intro t _ ht
    rw [hy t (by simpa using ht), zero_mul]
  rw [tx, ty, sum_mul_sum]
  -- right-hand side: swap the sums, then substitute u = s + t
  have rhs : ∑ u ∈ range n, (∑ s ∈ range la, if s ≤ u ∧ u - s < lb then x s * y (u - s) else 0) * ρ ^ (k * u)
      = ∑ s ∈ range la, ∑ u ∈ range n, if s ≤ u ∧ u - s < lb then x s * y (u - s) * ρ ^ (k * u) else 0 := by
    rw [sum_comm]
    apply sum_congr rfl; intro u _
    rw [sum_mul]
    apply sum_congr rfl; intro s _
    split <;> simp
  rw [rhs]
  apply sum_congr rfl
  intro s hs
  have hs' : s < la := mem_range.1 hs
  rw [← sum_filter]
  have hfil : (range n).filter (fun u => s ≤ u ∧ u - s < lb) = Ico s (s + lb) := by
    ext u
    simp only [mem_filter, mem_range, mem_Ico]
    omega
  rw [hfil, sum_Ico_eq_sum_range, Nat.add_sub_cancel_left]
  apply sum_congr rfl
  intro t _
  rw [Nat.add_sub_cancel_left, mul_add, pow_add]
  ring

end Algebra2

section ComplexInstance
open Complex

/-- Exact complex arithmetic: every field is the real-number meaning of the corresponding operation of
    `complex.rs` / `num_traits` (`tw i cur = (cos x, sin x)` with `x = π·i·(1/cur)`; `round` is exact on integers). -/
noncomputable def arithC : Arith ℂ where
  zero := 0
  one := 1
  i8 := I / 8
  add x y := x + y
  sub x y := x - y
  mul x y := x * y
  conj := starRingEnd ℂ
  half z := z * (1 / 2)
  scaleInv n z := z * (1 / (n : ℂ))
  tw i cur := ⟨Real.cos (Real.pi * i * (1 / cur)), Real.sin (Real.pi * i * (1 / cur))⟩
  setRe c v := ⟨(v : ℝ), c.im⟩
  setIm c v := ⟨c.re, (v : ℝ)⟩
  roundRe c := round c.re
  roundIm c := round c.im
  neg z := -z
  scale k z := z * ((k : ℤ) : ℂ)
  divS k z := z / ((k : ℤ) : ℂ)
  div a b := a * (starRingEnd ℂ) b / ((Complex.normSq b : ℝ) : ℂ)
  abs2 z := ((Complex.normSq z : ℝ) : ℂ)
  absq z := ((‖z‖ * ‖z‖ : ℝ) : ℂ)
  ci := I

theorem ringOps_arithC : RingOps arithC := ⟨fun _ _ => rfl, fun _ _ => rfl, fun _ _ => rfl⟩

/-- `e^{2πi/2^k}` -/
noncomputable def zeta (k : ℕ) : ℂ := exp (2 * Real.pi * I / ((2^k : ℕ) : ℂ))

theorem zeta_pow_two_pow (k : ℕ) : zeta k ^ (2^k) = 1 := by
  unfold zeta
  rw [← exp_nat_mul]
  have h : ((2^k : ℕ) : ℂ) ≠ 0 := by exact_mod_cast (Nat.two_pow_pos k).ne'
  rw [mul_div_cancel₀ _ h]
  exact exp_two_pi_mul_I

theorem zeta_succ_sq (k : ℕ) : zeta (k+1) ^ 2 = zeta k := by
  unfold zeta
  rw [← exp_nat_mul]
  congr 1
  have h : ((2^k : ℕ) : ℂ) ≠ 0 := by exact_mod_cast (Nat.two_pow_pos k).ne'
  push_cast
  rw [pow_succ]
  field_simp

theorem zeta_succ_half (k : ℕ) : zeta (k+1) ^ (2^k) = -1 := by
  unfold zeta
  rw [← exp_nat_mul]
  have h : ((2 : ℂ)^k) ≠ 0 := pow_ne_zero _ two_ne_zero
  have : ((2^k : ℕ) : ℂ) * (2 * Real.pi * I / ((2^(k+1) : ℕ) : ℂ)) = Real.pi * I := by
    push_cast
    rw [pow_succ]
    field_simp
  rw [this, exp_pi_mul_I]

theorem tw_eq (i k : ℕ) : arithC.tw i (2^k) = zeta (k+1) ^ i := by
  unfold zeta
  rw [← exp_nat_mul]
  have h : ((2 : ℂ)^k) ≠ 0 := pow_ne_zero _ two_ne_zero
  have e : (i : ℂ) * (2 * Real.pi * I / ((2^(k+1) : ℕ) : ℂ)) = ((Real.pi * i * (1 / (2^k : ℕ)) : ℝ) : ℂ) * I := by
    push_cast
    rw [pow_succ]
    field_simp
  rw [e]
  apply Complex.ext
  · rw [exp_ofReal_mul_I_re]; rfl
  · rw [exp_ofReal_mul_I_im]; rfl

/-- The canonical twiddle table in exact arithmetic: `w[j] = e^{2πi·j/2^k}`. -/
theorem wC_eq : ∀ (k j : ℕ), j ≤ 2^k → wC arithC.tw arithC.one k j = zeta k ^ j := by
  intro k
  induction k with
  | zero =>
    intro j _
    have : zeta 0 = 1 := by simpa using zeta_pow_two_pow 0
    rw [this, one_pow]; rfl
  | succ k ih =>
    intro j hj
    rw [wC]
    by_cases h0 : j = 0
    · subst h0; simp; rfl
    · by_cases hl : j = 2^(k+1)
      · subst hl; rw [if_pos (Or.inr rfl), zeta_pow_two_pow]; rfl
      · rw [if_neg (by tauto)]
        by_cases hev : j % 2 = 0
        · rw [if_pos hev, ih (j/2) (by rw [pow_succ] at hj; omega), ← zeta_succ_sq, ← pow_mul]
          congr 1; omega
        · rw [if_neg hev, tw_eq]


theorem stageTw_fwd (m t j : ℕ) (ht : t < m) (hj : j < 2^t) :
    stageTw (wC arithC.tw arithC.one m) (2^m) false t j = zeta m ^ (j * 2^(m-t-1)) := by
  unfold stageTw
  simp only [Bool.false_eq_true, if_false]
  rw [twIdx_fwd m t j ht]
  apply wC_eq
  have : (2^m : ℕ) = 2^t * 2 * 2^(m-t-1) := by
    rw [← Nat.pow_succ, ← Nat.pow_add]; congr 1; omega
  rw [this]
  exact Nat.mul_le_mul_right _ (by omega)

theorem stageTw_inv (m t j : ℕ) (ht : t < m) (hj : j < 2^t) :
    stageTw (wC arithC.tw arithC.one m) (2^m) true t j = (zeta m)⁻¹ ^ (j * 2^(m-t-1)) := by
  unfold stageTw
  simp only [if_true]
  rw [twIdx_inv m t j ht hj, wC_eq m _ (Nat.sub_le _ _)]
  have hle : j * 2^(m-t-1) ≤ 2^m := by
    have : (2^m : ℕ) = 2^t * 2 * 2^(m-t-1) := by
      rw [← Nat.pow_succ, ← Nat.pow_add]; congr 1; omega
    rw [this]
    exact Nat.mul_le_mul_right _ (by omega)
  have hz : zeta m ≠ 0 := by unfold zeta; exact exp_ne_zero _
  rw [inv_pow]
  apply eq_inv_of_mul_eq_one_left
  rw [← pow_add, Nat.sub_add_cancel hle, zeta_pow_two_pow]

theorem zeta_half (m' : ℕ) : zeta (m'+1) ^ (2^m') = -1 := zeta_succ_half m'

theorem zeta_inv_half (m' : ℕ) : (zeta (m'+1))⁻¹ ^ (2^m') = -1 := by
  rw [inv_pow, zeta_succ_half]; norm_num

/-- **`fft_internal` is the DFT** (exact complex arithmetic): forward `∑ v_s ζ^{ps}`, inverse
    `(1/n) ∑ v_s ζ^{-ps}`, `ζ = e^{2πi/n}`, `n = 2^m`. -/
theorem fftRef_dft (m : ℕ) (inv : Bool) (v : Array ℂ) (hv : v.size = 2^m) :
    (fftRef arithC m inv v).size = 2^m ∧
    ∀ p, p < 2^m → rdA arithC (fftRef arithC m inv v) p
      = if inv then dft (zeta m)⁻¹ (2^m) (rdA arithC v) p * (1 / ((2^m : ℕ) : ℂ))
        else dft (zeta m) (2^m) (rdA arithC v) p := by
  unfold fftRef
  obtain ⟨h1, h2⟩ := fftCore_spec arithC (wC arithC.tw arithC.one m) (revC m) (2^m) m inv v hv
    (fun i _ => revC_lt m i) (revC_revC m) (revC_zero m)
  refine ⟨h1, fun p hp => ?_⟩
  rw [h2 p hp]
  cases inv with
  | false =>
    rw [fftF_dft arithC ringOps_arithC (zeta m) _ (2^m) m false
      (fun m' h => by subst h; exact zeta_half m') (fun t j ht hj => stageTw_fwd m t j ht hj) _ p hp]
    simp
  | true =>
    rw [fftF_dft arithC ringOps_arithC (zeta m)⁻¹ _ (2^m) m true
      (fun m' h => by subst h; exact zeta_inv_half m') (fun t j ht hj => stageTw_inv m t j ht hj) _ p hp]
    simp only [if_true]
    rfl


theorem zeta_primitive (k : ℕ) : IsPrimitiveRoot (zeta k) (2^k) :=
  Complex.isPrimitiveRoot_exp (2^k) (Nat.two_pow_pos k).ne'

theorem zeta_ne_zero (k : ℕ) : zeta k ≠ 0 := by unfold zeta; exact exp_ne_zero _

theorem conj_zeta (k : ℕ) : (starRingEnd ℂ) (zeta k) = (zeta k)⁻¹ := by
  unfold zeta
  rw [← exp_conj, ← exp_neg]
  congr 1
  rw [map_div₀, map_mul, map_mul, conj_I, conj_ofReal, map_ofNat, map_natCast]
  ring

/-- Fourier inversion on `2^k` points. -/
theorem dft_inversion (k : ℕ) (x : ℕ → ℂ) (q : ℕ) (hq : q < 2^k) :
    dft (zeta k)⁻¹ (2^k) (fun p => dft (zeta k) (2^k) x p) q * (1 / ((2^k : ℕ) : ℂ)) = x q := by
  unfold dft
  have hN : ((2^k : ℕ) : ℂ) ≠ 0 := by exact_mod_cast (Nat.two_pow_pos k).ne'
  have hz := zeta_ne_zero k
  -- swap the sums
  have sw : ∑ p ∈ range (2^k), (∑ t ∈ range (2^k), x t * zeta k ^ (p * t)) * (zeta k)⁻¹ ^ (q * p)
      = ∑ t ∈ range (2^k), x t * ∑ p ∈ range (2^k), (zeta k ^ t * (zeta k)⁻¹ ^ q) ^ p := by
    simp_rw [sum_mul, mul_sum]
    rw [sum_comm]
    apply sum_congr rfl; intro t _
    apply sum_congr rfl; intro p _
    rw [mul_pow, ← pow_mul, ← pow_mul, mul_comm t p, mul_comm q p]
    ring
  rw [sw]
  have inner : ∀ t, t < 2^k → ∑ p ∈ range (2^k), (zeta k ^ t * (zeta k)⁻¹ ^ q) ^ p = if t = q then ((2^k : ℕ) : ℂ) else 0 := by
    intro t ht
    by_cases htq : t = q
    · subst htq
      rw [if_pos rfl, inv_pow, mul_inv_cancel₀ (pow_ne_zero _ hz)]
      simp
    · rw [if_neg htq]
      set y := zeta k ^ t * (zeta k)⁻¹ ^ q with hy
      have hy1 : y ≠ 1 := by
        intro h1
        apply htq
        apply (zeta_primitive k).pow_inj ht hq
        rw [hy, inv_pow, mul_inv_eq_one₀ (pow_ne_zero _ hz)] at h1
        exact h1
      have hyN : y ^ (2^k) = 1 := by
        rw [hy, mul_pow, pow_right_comm, zeta_pow_two_pow, one_pow, pow_right_comm, inv_pow, zeta_pow_two_pow,
          inv_one, one_pow, mul_one]
      have := mul_geom_sum y (2^k)
      rw [hyN, sub_self] at this
      rcases mul_eq_zero.1 this with h | h
      · exact absurd (sub_eq_zero.1 h) hy1
      · exact h
  rw [sum_congr rfl (fun t ht => by rw [inner t (mem_range.1 ht)])]
  simp only [mul_ite, mul_zero]
  rw [sum_ite_eq' (range (2^k)) q, if_pos (mem_range.2 hq)]
  field_simp

/-- Conjugate symmetry of the transform of a REAL sequence (here: integers). -/
theorem dft_conj_int (k : ℕ) (r : ℕ → ℤ) (j : ℕ) (hj : j < 2^k) :
    (starRingEnd ℂ) (dft (zeta k) (2^k) (fun s => ((r s : ℤ) : ℂ)) (negIdx (2^k) j)) = dft (zeta k) (2^k) (fun s => ((r s : ℤ) : ℂ)) j := by
  unfold dft
  rw [map_sum]
  apply sum_congr rfl
  intro s _
  rw [map_mul, map_pow, conj_zeta, map_intCast]
  congr 1
  have hz := zeta_ne_zero k
  unfold negIdx
  by_cases h0 : j = 0
  · subst h0; simp
  · rw [if_neg h0, inv_pow]
    apply inv_eq_of_mul_eq_one_left
    rw [← pow_add, ← Nat.add_mul, Nat.add_sub_cancel' (by omega), pow_mul, zeta_pow_two_pow, one_pow]


/-- coefficient `s` of an `i32` vector as a complex number (0 beyond the end) -/
noncomputable def cz (a : Array Int) (s : ℕ) : ℂ := ((a.getD s 0 : ℤ) : ℂ)

theorem getD_of_le (a : Array Int) (p : ℕ) (h : a.size ≤ p) : a.getD p 0 = 0 := by
  rw [Array.getD_eq_getD_getElem?, Array.getElem?_eq_none h]; rfl

theorem cz_of_le (a : Array Int) (p : ℕ) (h : a.size ≤ p) : cz a p = 0 := by
  unfold cz; rw [getD_of_le a p h]; simp

/-- the packed input buffer `a + i·b` -/
theorem packed_spec (a b : Array Int) (n : ℕ) :
    (fillIm arithC b (fillRe arithC a (Array.replicate n arithC.zero))).size = n ∧
    ∀ p, p < n → rdA arithC (fillIm arithC b (fillRe arithC a (Array.replicate n arithC.zero))) p
      = cz a p + I * cz b p := by
  obtain ⟨r1, r2⟩ := fillRe_spec arithC a (Array.replicate n arithC.zero)
  obtain ⟨i1, i2⟩ := fillIm_spec arithC b (fillRe arithC a (Array.replicate n arithC.zero))
  rw [Array.size_replicate] at r1 r2
  rw [r1] at i1 i2
  refine ⟨i1, fun p hp => ?_⟩
  rw [i2 p hp, r2 p hp, rdA_replicate]
  unfold cz
  by_cases ha : p < a.size <;> by_cases hb : p < b.size
  · rw [if_pos hb, if_pos ha]
    apply Complex.ext <;> simp [arithC]
  · rw [if_neg hb, if_pos ha, getD_of_le b p (by omega)]
    apply Complex.ext <;> simp [arithC]
  · rw [if_pos hb, if_neg ha, getD_of_le a p (by omega)]
    apply Complex.ext <;> simp [arithC]
  · rw [if_neg hb, if_neg ha, getD_of_le a p (by omega), getD_of_le b p (by omega)]
    simp [arithC]

/-- transform of the integer convolution = product of the transforms -/
theorem dft_convAt (ρ : ℂ) (n : ℕ) (a b : Array Int) (ha : a.size ≠ 0) (hb : b.size ≠ 0) (hn : a.size + b.size - 1 ≤ n) (k : ℕ) :
    dft ρ n (cz a) k * dft ρ n (cz b) k = dft ρ n (fun u => ((convAt a b u : ℤ) : ℂ)) k := by
  rw [dft_conv ρ n a.size b.size (by omega) (by omega) hn (cz a) (cz b) (cz_of_le a) (cz_of_le b) k]
  apply dft_congr
  intro u _
  unfold convAt cz
  rw [sumTo_eq_sum, Int.cast_sum]
  apply sum_congr rfl
  intro s _
  split <;> simp

/-- The unpacking step: from the transform of `a + i·b` to half the transform of the product. -/
theorem unpackV_exact (m : ℕ) (a b : Array Int) (ha : a.size ≠ 0) (hb : b.size ≠ 0) (hn : a.size + b.size - 1 ≤ 2^m)
    (q : ℕ) (hq : q < 2^m) :
    unpackV arithC (2^m) (fun p => dft (zeta m) (2^m) (fun s => cz a s + I * cz b s) p) q
      = dft (zeta m) (2^m) (fun u => ((convAt a b u : ℤ) : ℂ)) q / 2 := by
  unfold unpackV
  simp only [arithC]
  rw [dft_lin, dft_lin, map_add, map_mul, conj_I]
  have ca := dft_conj_int m (fun s => a.getD s 0) q hq
  have cb := dft_conj_int m (fun s => b.getD s 0) q hq
  change (starRingEnd ℂ) (dft (zeta m) (2^m) (cz a) (negIdx (2^m) q)) = dft (zeta m) (2^m) (cz a) q at ca
  change (starRingEnd ℂ) (dft (zeta m) (2^m) (cz b) (negIdx (2^m) q)) = dft (zeta m) (2^m) (cz b) q at cb
  rw [ca, cb, ← dft_convAt (zeta m) (2^m) a b ha hb hn q]
  ring_nf
  rw [I_sq]
  ring


theorem zeta_quarter (k : ℕ) : zeta (k+2) ^ (2^k) = I := by
  unfold zeta
  rw [← exp_nat_mul]
  have h : ((2 : ℂ)^k) ≠ 0 := pow_ne_zero _ two_ne_zero
  have : ((2^k : ℕ) : ℂ) * (2 * Real.pi * I / ((2^(k+2) : ℕ) : ℂ)) = Real.pi / 2 * I := by
    push_cast
    rw [pow_add]
    field_simp
  rw [this, exp_pi_div_two_mul_I]

theorem fold_index (N m p : ℕ) (hN : 2 ≤ N) (hmN : m ≤ N) :
    2^N - 2^N >>> 2 - 2^N / 2^m * p = 3 * 2^(N-2) - 2^(N-m) * p := by
  rw [Nat.shiftRight_eq_div_pow, Nat.pow_div hmN (by omega), Nat.pow_div hN (by omega)]
  have : 2^N = 4 * 2^(N-2) := by
    rw [show (4 : Nat) = 2^2 from rfl, ← Nat.pow_add]; congr 1; omega
  omega

/-- the twiddle read by the folding loop times `ζ^p` is `-i` -/
theorem foldTw (m p : ℕ) (hm : 1 ≤ m) (hp : p < 2^(m-1)) :
    (wArr arithC (max m 2)).getD (2^(max m 2) - 2^(max m 2) >>> 2 - 2^(max m 2) / 2^m * p) arithC.zero * zeta m ^ p = -I := by
  rw [fold_index (max m 2) m p (by omega) (by omega)]
  by_cases h1 : m = 1
  · subst h1
    have : p = 0 := by simpa using hp
    subst this
    rw [show max 1 2 = 2 by rfl, getD_wArr arithC 2 _ (by norm_num), wC_eq 2 _ (by norm_num)]
    have hq := zeta_quarter 0
    simp only [Nat.zero_add, pow_zero, pow_one] at hq
    simp only [Nat.sub_self, pow_zero, Nat.mul_zero, Nat.sub_zero, mul_one, hq]
    rw [pow_succ, pow_two, I_mul_I]; ring
  · have hm2 : 2 ≤ m := by omega
    rw [show max m 2 = m by omega, Nat.sub_self, Nat.pow_zero, Nat.one_mul]
    obtain ⟨k, rfl⟩ : ∃ k, m = k + 2 := ⟨m - 2, by omega⟩
    have hp' : p < 2 * 2^k := by
      have : 2^(k+2-1) = 2 * 2^k := by rw [show k + 2 - 1 = k + 1 by omega, pow_succ]; ring
      omega
    rw [show k + 2 - 2 = k by omega]
    rw [getD_wArr arithC (k+2) _ (by rw [pow_add]; omega), wC_eq (k+2) _ (by rw [pow_add]; omega),
      ← pow_add, Nat.sub_add_cancel (by omega), mul_comm 3, pow_mul, zeta_quarter]
    rw [pow_succ, pow_two, I_mul_I]; ring

/-- The folding step: from half the transform `C/2` of a sequence `x` of length `2^m` to the transform of length
    `2^(m-1)` of `x[2t] + i·x[2t+1]`. -/
theorem fold_exact (m : ℕ) (hm : 1 ≤ m) (x : ℕ → ℂ) (p : ℕ) (hp : p < 2^(m-1)) :
    (dft (zeta m) (2^m) x p / 2 + dft (zeta m) (2^m) x (p + 2^(m-1)) / 2)
      - (dft (zeta m) (2^m) x p / 2 - dft (zeta m) (2^m) x (p + 2^(m-1)) / 2)
        * (wArr arithC (max m 2)).getD (2^(max m 2) - 2^(max m 2) >>> 2 - 2^(max m 2) / 2^m * p) arithC.zero
    = dft (zeta (m-1)) (2^(m-1)) (fun t => x (2 * t) + I * x (2 * t + 1)) p := by
  obtain ⟨k, rfl⟩ : ∃ k, m = k + 1 := ⟨m - 1, by omega⟩
  simp only [Nat.add_sub_cancel] at hp ⊢
  have hw := foldTw (k+1) p (by omega) (by simpa using hp)
  set w := (wArr arithC (max (k+1) 2)).getD (2^(max (k+1) 2) - 2^(max (k+1) 2) >>> 2 - 2^(max (k+1) 2) / 2^(k+1) * p) arithC.zero
  have h2 : 2^(k+1) = 2 * 2^k := by rw [pow_succ]; ring
  have hτ : (zeta (k+1) ^ 2) ^ (2^k) = 1 := by rw [zeta_succ_sq, zeta_pow_two_pow]
  have e1 := dft_split (zeta (k+1)) (2^k) x p
  have e2 := dft_split (zeta (k+1)) (2^k) x (p + 2^k)
  rw [dft_add_period _ _ hτ, dft_add_period _ _ hτ, pow_add, zeta_succ_half] at e2
  rw [zeta_succ_sq] at e1 e2
  rw [h2, e1, e2, dft_lin]
  have hz := zeta_ne_zero (k+1)
  have hwz : w = -I * (zeta (k+1) ^ p)⁻¹ := by
    rw [← hw, mul_assoc, mul_inv_cancel₀ (pow_ne_zero _ hz), mul_one]
  rw [hwz]
  field_simp
  ring


theorem ceilPow2_ge : ∀ (d start len : Nat), len - start = d → 0 < start → len ≤ ceilPow2 start len := by
  intro d
  induction d using Nat.strongRecOn with
  | _ d ih =>
    intro start len hd hs
    rw [ceilPow2]
    by_cases h : start < len ∧ 0 < start
    · rw [dif_pos h]
      exact ih (len - start * 2) (by omega) (start * 2) len rfl (by omega)
    · rw [dif_neg h]; omega

theorem unpackV_congr (A : Arith ℂ) (n : ℕ) (x y : ℕ → ℂ) (q : ℕ) (h1 : x q = y q) (h2 : x (negIdx n q) = y (negIdx n q)) :
    unpackV A n x q = unpackV A n y q := by
  unfold unpackV; rw [h1, h2]

theorem negIdx_lt (n q : ℕ) (hn : 0 < n) (hq : q < n) : negIdx n q < n := by
  unfold negIdx; split <;> omega

/-- the values produced by the forward transform, the unpacking loop and the folding loop of `multiply_into`,
    in exact arithmetic: the length-`n/2` transform of `c[2t] + i·c[2t+1]`, `c` = the integer convolution -/
theorem multiply_pipeline (m : ℕ) (hm : 1 ≤ m) (a b : Array Int) (ha : a.size ≠ 0) (hb : b.size ≠ 0)
    (hn : a.size + b.size - 1 ≤ 2^m) :
    let buf := fftRef arithC (m - 1) true
      ((foldHalfRef arithC id m (unpack arithC (2^m) (fftRef arithC m false
        (fillIm arithC b (fillRe arithC a (Array.replicate (2^m) arithC.zero)))))).extract 0 (2^(m-1)))
    buf.size = 2^(m-1) ∧ ∀ q, q < 2^(m-1) →
      rdA arithC buf q = ((convAt a b (2 * q) : ℤ) : ℂ) + I * ((convAt a b (2 * q + 1) : ℤ) : ℂ) := by
  intro buf
  have hn2 : 2^m = 2 * 2^(m-1) := by
    obtain ⟨q, rfl⟩ : ∃ q, m = q + 1 := ⟨m - 1, by omega⟩
    rw [Nat.pow_succ]; simp; omega
  have hh : 0 < 2^(m-1) := Nat.two_pow_pos _
  -- packed input
  obtain ⟨p1, p2⟩ := packed_spec a b (2^m)
  -- forward transform
  obtain ⟨f1, f2⟩ := fftRef_dft m false _ p1
  simp only [Bool.false_eq_true, if_false] at f2
  have hF : ∀ p, p < 2^m → rdA arithC (fftRef arithC m false
      (fillIm arithC b (fillRe arithC a (Array.replicate (2^m) arithC.zero)))) p
      = dft (zeta m) (2^m) (fun s => cz a s + I * cz b s) p := by
    intro p hp
    rw [f2 p hp]
    exact dft_congr _ _ _ _ p2 p
  -- unpacking
  obtain ⟨u1, u2⟩ := unpack_spec arithC m hm _ f1
  let C := dft (zeta m) (2^m) (fun u => ((convAt a b u : ℤ) : ℂ))
  have hV : ∀ q, q < 2^m → unpackV arithC (2^m) (rdA arithC (fftRef arithC m false
      (fillIm arithC b (fillRe arithC a (Array.replicate (2^m) arithC.zero))))) q = C q / 2 := by
    intro q hq
    rw [unpackV_congr arithC (2^m) _ (fun p => dft (zeta m) (2^m) (fun s => cz a s + I * cz b s) p) q
      (hF q hq) (hF _ (negIdx_lt _ _ (by omega) hq))]
    exact unpackV_exact m a b ha hb hn q hq
  have hCconj : ∀ j, j < 2^m → (starRingEnd ℂ) (C (negIdx (2^m) j) / 2) = C j / 2 := by
    intro j hj
    rw [map_div₀, dft_conj_int m (fun u => convAt a b u) j hj, map_ofNat]
  have hU : ∀ p, p < 2^m → rdA arithC (unpack arithC (2^m) (fftRef arithC m false
      (fillIm arithC b (fillRe arithC a (Array.replicate (2^m) arithC.zero))))) p = C p / 2 := by
    intro p hp
    rw [u2 p hp]
    by_cases h0 : p = 0 ∨ p = 2^(m-1)
    · rw [if_pos h0, hV p hp]
      have hneg : negIdx (2^m) p = p := by
        unfold negIdx; rcases h0 with rfl | rfl
        · simp
        · rw [if_neg (by omega)]; omega
      have := hCconj p hp
      rw [hneg] at this
      exact this
    · rw [if_neg h0]
      by_cases hlt : p < 2^(m-1)
      · rw [if_pos hlt, hV p hp]
      · rw [if_neg hlt, hV (2^m - p) (by omega)]
        have hneg : negIdx (2^m) p = 2^m - p := by unfold negIdx; rw [if_neg (by omega)]
        have := hCconj p hp
        rw [hneg] at this
        exact this
  -- folding
  obtain ⟨g1, g2⟩ := foldHalf_spec arithC id (wArr arithC (max m 2)) (2^(max m 2)) m hm _ u1
  have hG : ∀ p, p < 2^(m-1) → rdA arithC (foldHalfRef arithC id m (unpack arithC (2^m) (fftRef arithC m false
      (fillIm arithC b (fillRe arithC a (Array.replicate (2^m) arithC.zero)))))) p
      = dft (zeta (m-1)) (2^(m-1)) (fun t => ((convAt a b (2 * t) : ℤ) : ℂ) + I * ((convAt a b (2 * t + 1) : ℤ) : ℂ)) p := by
    intro p hp
    unfold foldHalfRef
    rw [g2 p hp, hU p (by omega), hU (p + 2^(m-1)) (by omega)]
    exact fold_exact m hm _ p hp
  -- truncation
  obtain ⟨x1, x2⟩ := extract_spec arithC (foldHalfRef arithC id m (unpack arithC (2^m) (fftRef arithC m false
      (fillIm arithC b (fillRe arithC a (Array.replicate (2^m) arithC.zero)))))) (2^(m-1))
      (by unfold foldHalfRef; rw [g1]; omega)
  -- inverse transform
  obtain ⟨i1, i2⟩ := fftRef_dft (m-1) true _ x1
  refine ⟨i1, fun q hq => ?_⟩
  rw [i2 q hq]
  simp only [if_true]
  rw [dft_congr _ _ _ (fun p => dft (zeta (m-1)) (2^(m-1))
      (fun t => ((convAt a b (2 * t) : ℤ) : ℂ) + I * ((convAt a b (2 * t + 1) : ℤ) : ℂ)) p)
      (fun p hp => by rw [x2 p hp, hG p hp]) q]
  exact dft_inversion (m-1) _ q hq


theorem ceilPow2_two_spec (len : ℕ) : ∃ m, 1 ≤ m ∧ ceilPow2 2 len = 2^m ∧ len ≤ 2^m := by
  obtain ⟨m, hm1, hm2⟩ := ceilPow2_spec _ 1 len rfl
  rw [Nat.pow_one] at hm2
  exact ⟨m, hm1, hm2, by rw [← hm2]; exact ceilPow2_ge _ 2 len rfl (by omega)⟩

/-- rounding the exact values `c[2q] + i·c[2q+1]` gives back the integers -/
theorem roundPairs_exact (buf : Array ℂ) (c : ℕ → ℤ)
    (h : ∀ q, q < buf.size → rdA arithC buf q = ((c (2 * q) : ℤ) : ℂ) + I * ((c (2 * q + 1) : ℤ) : ℂ)) :
    roundPairs arithC buf = (List.range (2 * buf.size)).map c := by
  apply List.ext_getElem?
  intro u
  by_cases hu : u < 2 * buf.size
  · rw [roundPairs_getElem? arithC buf u hu, List.getElem?_map, List.getElem?_range hu, h (u / 2) (by omega)]
    simp only [Option.map_some, Option.some.injEq]
    by_cases hev : u % 2 = 0
    · rw [if_pos hev, show 2 * (u / 2) = u by omega]
      simp [arithC]
    · rw [if_neg hev, show 2 * (u / 2) + 1 = u by omega]
      simp [arithC]
  · rw [List.getElem?_eq_none (by rw [length_roundPairs]; omega),
      List.getElem?_eq_none (by simp; omega)]

/-- The single-transform part of `multiply_into` in exact arithmetic adds the integer convolution (table-free form). -/
theorem multiplyDirectRef_exact (a b : Array Int) (res : List Int) (ha : a.size ≠ 0) (hb : b.size ≠ 0) :
    multiplyDirectRef arithC a b res = addPrefix res (convSpec a b) := by
  unfold multiplyDirectRef convSpec
  have he : ¬(a.size = 0 ∨ b.size = 0) := by omega
  rw [if_neg he]
  obtain ⟨m, hm1, hm2, hm3⟩ := ceilPow2_two_spec (a.size + b.size - 1)
  simp only []
  rw [hm2, Nat.log2_two_pow, two_pow_shiftRight_one m hm1]
  obtain ⟨s1, s2⟩ := multiply_pipeline m hm1 a b (by omega) (by omega) hm3
  rw [roundPairs_exact _ (convAt a b) (fun q hq => s2 q (by rw [← s1]; exact hq)), s1]
  congr 1
  have hn2 : 2 * 2^(m-1) = 2^m := by
    obtain ⟨q, rfl⟩ : ∃ q, m = q + 1 := ⟨m - 1, by omega⟩
    rw [Nat.pow_succ]; simp; omega
  rw [hn2, ← List.map_take, List.take_range, Nat.min_eq_left hm3]

/-! ### the convolution is additive in the long operand: the block recursion of `multiply_into` -/

theorem convAt_of_ge (a b : Array Int) (u : ℕ) (h : a.size + b.size - 1 ≤ u) : convAt a b u = 0 := by
  unfold convAt
  rw [sumTo_eq_sum]
  apply sum_eq_zero
  intro s hs
  have := mem_range.1 hs
  rw [if_neg (by omega)]

/-- coefficient `u` with the second operand read as zero beyond its end -/
theorem convAt_eq_sumZ (a b : Array Int) (u : ℕ) :
    convAt a b u = ∑ s ∈ range a.size, if s ≤ u then a.getD s 0 * b.getD (u - s) 0 else 0 := by
  unfold convAt
  rw [sumTo_eq_sum]
  apply sum_congr rfl
  intro s _
  by_cases h1 : s ≤ u
  · rw [if_pos h1]
    by_cases h2 : u - s < b.size
    · rw [if_pos ⟨h1, h2⟩]
    · rw [if_neg (by omega), getD_of_le b (u - s) (by omega), mul_zero]
  · rw [if_neg h1, if_neg (by omega)]

/-- coefficient `u` as the sum over all pairs `(s, t)` with `s + t = u` -/
theorem convAt_eq_double (a b : Array Int) (u : ℕ) :
    convAt a b u = ∑ s ∈ range a.size, ∑ t ∈ range b.size, if s + t = u then a.getD s 0 * b.getD t 0 else 0 := by
  unfold convAt
  rw [sumTo_eq_sum]
  apply sum_congr rfl
  intro s _
  by_cases h : s ≤ u ∧ u - s < b.size
  · rw [if_pos h, sum_eq_single (u - s)]
    · rw [if_pos (by omega)]
    · intro t _ ht
      rw [if_neg (by omega)]
    · intro hn
      exact absurd (mem_range.2 h.2) hn
  · rw [if_neg h]
    symm
    apply sum_eq_zero
    intro t ht
    have := mem_range.1 ht
    rw [if_neg (by omega)]

/-- the integer convolution is commutative -/
theorem convAt_comm (a b : Array Int) (u : ℕ) : convAt a b u = convAt b a u := by
  rw [convAt_eq_double, convAt_eq_double, sum_comm]
  apply sum_congr rfl
  intro t _
  apply sum_congr rfl
  intro s _
  rw [Nat.add_comm s t, mul_comm]

theorem convSpec_comm (a b : Array Int) : convSpec a b = convSpec b a := by
  unfold convSpec
  by_cases he : a.size = 0 ∨ b.size = 0
  · rw [if_pos he, if_pos (by omega)]
  · rw [if_neg he, if_neg (by omega), Nat.add_comm b.size a.size]
    apply List.map_congr_left
    intro u _
    exact convAt_comm a b u

/-- entry `i` of the product, read as zero beyond its end, is coefficient `i` -/
theorem getD0_convSpec (a b : Array Int) (i : ℕ) : (convSpec a b)[i]?.getD 0 = convAt a b i := by
  unfold convSpec
  by_cases he : a.size = 0 ∨ b.size = 0
  · rw [if_pos he]
    symm
    unfold convAt
    rw [sumTo_eq_sum]
    rcases he with he | he
    · rw [he]; simp
    · apply sum_eq_zero
      intro s _
      rw [if_neg (by omega)]
  · rw [if_neg he]
    by_cases hi : i < a.size + b.size - 1
    · rw [List.getElem?_map, List.getElem?_range hi]; rfl
    · rw [List.getElem?_eq_none (by simpa using hi), convAt_of_ge a b i (by omega)]; rfl

theorem getD_extract_to_end (long : Array Int) (off j : ℕ) :
    (long.extract off long.size).getD j 0 = long.getD (off + j) 0 := by
  by_cases h : off + j < long.size
  · have h' : j < (long.extract off long.size).size := by simp only [Array.size_extract]; omega
    rw [Array.getD_eq_getD_getElem?, Array.getD_eq_getD_getElem?, Array.getElem?_eq_getElem h', Array.getElem?_eq_getElem h]
    simp
  · rw [getD_of_le _ _ (by simp only [Array.size_extract]; omega), getD_of_le _ _ (by omega)]

theorem getD_extract_block (long : Array Int) (off ss j : ℕ) :
    (long.extract off (off + ss)).getD j 0 = if j < ss then long.getD (off + j) 0 else 0 := by
  by_cases h : j < ss
  · rw [if_pos h]
    by_cases h2 : off + j < long.size
    · have h' : j < (long.extract off (off + ss)).size := by simp only [Array.size_extract]; omega
      rw [Array.getD_eq_getD_getElem?, Array.getD_eq_getD_getElem?, Array.getElem?_eq_getElem h', Array.getElem?_eq_getElem h2]
      simp
    · rw [getD_of_le _ _ (by simp only [Array.size_extract]; omega), getD_of_le _ _ (by omega)]
  · rw [if_neg h, getD_of_le _ _ (by simp only [Array.size_extract]; omega)]

/-- **Additivity of the convolution in the long operand**: the product with `long[off..]` is the product with the
    block `long[off..off+ss]` plus the product with `long[off+ss..]` shifted by `ss`. -/
theorem convAt_block_split (short long : Array Int) (off ss i : ℕ) :
    convAt short (long.extract off long.size) i
      = convAt short (long.extract off (off + ss)) i
        + if ss ≤ i then convAt short (long.extract (off + ss) long.size) (i - ss) else 0 := by
  rw [convAt_eq_sumZ, convAt_eq_sumZ]
  by_cases hi : ss ≤ i
  · rw [if_pos hi, convAt_eq_sumZ, ← sum_add_distrib]
    apply sum_congr rfl
    intro s _
    rw [getD_extract_to_end, getD_extract_block]
    by_cases h1 : s ≤ i
    · rw [if_pos h1, if_pos h1]
      by_cases h2 : s ≤ i - ss
      · rw [if_pos h2, getD_extract_to_end, if_neg (by omega), show off + ss + (i - ss - s) = off + (i - s) by omega]
        ring
      · rw [if_neg h2, if_pos (by omega)]
        ring
    · rw [if_neg h1, if_neg h1, if_neg (by omega)]
      ring
  · rw [if_neg hi, add_zero]
    apply sum_congr rfl
    intro s _
    rw [getD_extract_to_end, getD_extract_block]
    by_cases h1 : s ≤ i
    · rw [if_pos h1, if_pos h1, if_pos (by omega)]
    · rw [if_neg h1, if_neg h1]

/-- the block loop of `multiply_into`, every block adding its exact product: the exact product with the rest of `long` -/
theorem blockLoop_exact {σ : Type} (short long : Array Int)
    (rec : (blk : Array Int) → blk.size ≤ short.size → σ → List Int → σ × List Int)
    (hrec : ∀ blk h s r, blk.size ≠ 0 → (rec blk h s r).2 = addPrefix r (convSpec short blk)) :
    ∀ (n k : ℕ) (s : σ) (rest : List Int), long.size - k * short.size = n →
      (blockLoop short long rec k s #[] rest).2
        = addPrefix rest (convSpec short (long.extract (k * short.size) long.size)) := by
  intro n
  induction n using Nat.strongRecOn with
  | _ n ih =>
    intro k s rest hn
    by_cases hc : k * short.size < long.size ∧ 0 < short.size
    · by_cases hr : rest = []
      · rw [hr, blockLoop_break, nil_addPrefix]
      · have hlt : long.size - (k + 1) * short.size < n := by rw [Nat.add_mul]; omega
        rw [blockLoop_step short long rec k s rest hc hr, ih _ hlt (k + 1) _ _ rfl,
          hrec _ _ _ _ (by rw [size_extract_block]; omega)]
        apply addPrefix_slide
        intro i
        rw [getD0_convSpec, getD0_convSpec, getD0_convSpec, show (k + 1) * short.size = k * short.size + short.size by
          rw [Nat.add_mul, Nat.one_mul]]
        exact convAt_block_split short long (k * short.size) short.size i
    · rw [blockLoop_stop short long rec k s rest hc]
      have : convSpec short (long.extract (k * short.size) long.size) = [] := by
        unfold convSpec
        by_cases h0 : short.size = 0
        · rw [if_pos (Or.inl h0)]
        · rw [if_pos (Or.inr (by simp only [Array.size_extract]; omega))]
      rw [this, addPrefix_nil]

/-- **The block recursion of `multiply_into` around an exact single-transform part is exact**: operand order,
    blocks of the longer operand, ragged last block, destination of any length. -/
theorem mulBlocks_exact {σ : Type} (direct : σ → Array Int → Array Int → List Int → σ × List Int)
    (hd : ∀ s a b res, a.size ≠ 0 → b.size ≠ 0 → (direct s a b res).2 = addPrefix res (convSpec a b)) :
    ∀ (n : ℕ) (a b : Array Int), a.size + b.size = n → ∀ s res,
      (mulBlocks direct s a b res).2 = addPrefix res (convSpec a b) := by
  intro n
  induction n using Nat.strongRecOn with
  | _ n ih =>
    intro a b hn s res
    rw [mulBlocks_eq]
    by_cases he : a.size = 0 ∨ b.size = 0
    · rw [if_pos he]
      unfold convSpec
      rw [if_pos he, addPrefix_nil]
    · rw [if_neg he]
      by_cases hab : a.size ≤ b.size
      · rw [if_pos hab]
        by_cases h : b.size > 2 * a.size
        · rw [if_pos h, blockLoop_exact a b _
            (fun blk hb s r h0 => ih (a.size + blk.size) (by omega) a blk rfl s r) _ 0 s res rfl]
          simp
        · rw [if_neg h]; exact hd s a b res (by omega) (by omega)
      · rw [if_neg hab]
        by_cases h : a.size > 2 * b.size
        · rw [if_pos h, blockLoop_exact b a _
            (fun blk hb' s r h0 => ih (b.size + blk.size) (by omega) b blk rfl s r) _ 0 s res rfl]
          simp only [Nat.zero_mul, Array.extract_size]
          rw [convSpec_comm]
        · rw [if_neg h]; exact hd s a b res (by omega) (by omega)

/-- **`multiply_into` in exact arithmetic adds the integer convolution** (table-free form). -/
theorem multiplyIntoRef_exact (a b : Array Int) (res : List Int) :
    multiplyIntoRef arithC a b res = addPrefix res (convSpec a b) := by
  unfold multiplyIntoRef
  exact mulBlocks_exact _ (fun _ a b res ha hb => multiplyDirectRef_exact a b res ha hb) _ a b rfl () res


theorem accC_spec {K : Type} (A : Arith K) (res buf : Array K) :
    (accC A res buf).size = res.size ∧
    ∀ p, p < res.size → rdA A (accC A res buf) p =
      if p < buf.size then A.add (rdA A res p) (rdA A buf p) else rdA A res p := by
  unfold accC
  obtain ⟨h1, h2⟩ := forRange_modify_spec 0 (min res.size buf.size) (fun i x => A.add x (buf.getD i A.zero)) res
  refine ⟨h1, fun p hp => ?_⟩
  apply rdA_of_getElem?
  rw [h2 p, getElem?_eq_rdA A res p hp]
  by_cases h : p < buf.size
  · rw [if_pos ⟨Nat.zero_le _, by omega⟩, if_pos h]; rfl
  · rw [if_neg (by omega), if_neg h]

theorem ext_rdA {K : Type} (A : Arith K) (x y : Array K) (hs : x.size = y.size) (h : ∀ p, p < x.size → rdA A x p = rdA A y p) : x = y := by
  apply Array.ext hs
  intro i h1 h2
  have := h i h1
  unfold rdA at this
  rw [Array.getD_eq_getD_getElem?, Array.getD_eq_getD_getElem?, Array.getElem?_eq_getElem h1, Array.getElem?_eq_getElem h2] at this
  exact this

/-- `fft_into(v, n, res)` adds to `res` (common prefix, `Complex +=`) what `fft(v, n)` returns — in every arithmetic in
    which adding `ZERO + y` is the same as adding `y` (exact arithmetic; IEEE whenever the destination entry is not `-0.0`). -/
theorem fftIntoRef_adds {K : Type} (A : Arith K) (hz : ∀ x y, A.add x (A.add A.zero y) = A.add x y)
    (v : Array Int) (m : ℕ) (res : Array K) :
    fftIntoRef A v m res = accC A res (fftIntoRef A v m (Array.replicate (2^m) A.zero)) := by
  unfold fftIntoRef
  have r1 : (fillRe A v (Array.replicate (2^m) A.zero)).size = 2^m := by
    rw [(fillRe_spec A v (Array.replicate (2^m) A.zero)).1, Array.size_replicate]
  have f1 := size_fftRef A m false _ r1
  obtain ⟨z1, z2⟩ := accC_spec A (Array.replicate (2^m) A.zero) (fftRef A m false (fillRe A v (Array.replicate (2^m) A.zero)))
  rw [Array.size_replicate] at z1 z2
  obtain ⟨a1, a2⟩ := accC_spec A res (fftRef A m false (fillRe A v (Array.replicate (2^m) A.zero)))
  obtain ⟨b1, b2⟩ := accC_spec A res (accC A (Array.replicate (2^m) A.zero) (fftRef A m false (fillRe A v (Array.replicate (2^m) A.zero))))
  apply ext_rdA A _ _ (by rw [a1, b1])
  intro p hp
  rw [a1] at hp
  rw [a2 p hp, b2 p hp, z1, f1]
  by_cases hpm : p < 2^m
  · rw [if_pos hpm, if_pos hpm, z2 p hpm, f1, if_pos hpm, rdA_replicate, hz]
  · rw [if_neg hpm, if_neg hpm]

theorem ceilPow2_one_pos (len : ℕ) : 0 < ceilPow2 1 len := by
  obtain ⟨m, _, hm⟩ := ceilPow2_spec (len - 2^0) 0 len rfl
  rw [Nat.pow_zero] at hm
  rw [hm]; exact Nat.two_pow_pos m

/-- `fft(v, 0)` is `fft(v, n)` with `n` the smallest power of two `≥ v.len()` (1 for an empty or one-element input). -/
theorem fft?_autosize {K : Type} (A : Arith K) (s : State K) (v : Array Int) :
    fft? A s v 0 = fft? A s v (ceilPow2 1 v.size) := by
  have hp := ceilPow2_one_pos v.size
  have h0 : ¬ ceilPow2 1 v.size = 0 := by omega
  unfold fft? fftInto? fftSize
  simp only [if_true, if_neg h0]

/-- `fft` in exact arithmetic: the DFT of the coefficient vector -/
theorem fftIntoRef_zero_exact (v : Array Int) (m : ℕ) :
    (fftIntoRef arithC v m (Array.replicate (2^m) arithC.zero)).size = 2^m ∧
    ∀ p, p < 2^m → rdA arithC (fftIntoRef arithC v m (Array.replicate (2^m) arithC.zero)) p
      = dft (zeta m) (2^m) (cz v) p := by
  unfold fftIntoRef
  obtain ⟨r1, r2⟩ := fillRe_spec arithC v (Array.replicate (2^m) arithC.zero)
  rw [Array.size_replicate] at r1 r2
  obtain ⟨f1, f2⟩ := fftRef_dft m false _ r1
  obtain ⟨a1, a2⟩ := accC_spec arithC (Array.replicate (2^m) arithC.zero) (fftRef arithC m false
    (fillRe arithC v (Array.replicate (2^m) arithC.zero)))
  rw [Array.size_replicate] at a1 a2
  refine ⟨a1, fun p hp => ?_⟩
  rw [a2 p hp, if_pos (by rw [f1]; exact hp), rdA_replicate, f2 p hp]
  simp only [Bool.false_eq_true, if_false]
  have : arithC.add arithC.zero (dft (zeta m) (2^m) (rdA arithC (fillRe arithC v (Array.replicate (2^m) arithC.zero))) p)
      = dft (zeta m) (2^m) (rdA arithC (fillRe arithC v (Array.replicate (2^m) arithC.zero))) p := by
    simp [arithC]
  rw [this]
  apply dft_congr
  intro s hs
  rw [r2 s hs, rdA_replicate]
  unfold cz
  by_cases h : s < v.size
  · rw [if_pos h]; apply Complex.ext <;> simp [arithC]
  · rw [if_neg h, getD_of_le v s (by omega)]; simp [arithC]

theorem pointwise_spec (fa fb : Array ℂ) (n : ℕ) (ha : fa.size = n) (hb : fb.size = n) :
    (pointwise arithC fa fb).size = n ∧ ∀ p, p < n → rdA arithC (pointwise arithC fa fb) p = rdA arithC fa p * rdA arithC fb p := by
  unfold pointwise
  refine ⟨by simp [ha, hb], fun p hp => ?_⟩
  apply rdA_of_getElem?
  rw [Array.getElem?_ofFn, dif_pos (by rw [ha, hb]; simpa using hp)]
  rfl

/-- `fft_inv` applied to the transform of an integer sequence `c` of length `2^m`: the sequence itself. -/
theorem addPrefix_zeros_self : ∀ (l : List Int), addPrefix (List.replicate l.length 0) l = l := by
  intro l
  induction l with
  | nil => rfl
  | cons x l ih => rw [List.length_cons, List.replicate_succ, addPrefix, ih]; simp

/-- `fft_inv_into` applied to the transform of an integer sequence `c` of length `2^m` ADDS that sequence to the
    destination on the common prefix and leaves the rest of the destination alone (any destination length). -/
theorem fftInvIntoRef_exact_into (m : ℕ) (c : ℕ → ℤ) (v : Array ℂ) (hv : v.size = 2^m)
    (hval : ∀ p, p < 2^m → rdA arithC v p = dft (zeta m) (2^m) (fun u => ((c u : ℤ) : ℂ)) p) (res : List Int) :
    fftInvIntoRef arithC v res = addPrefix res ((List.range (2^m)).map c) := by
  unfold fftInvIntoRef
  by_cases h1 : v.size = 1
  · rw [if_pos h1]
    have hm : m = 0 := by
      cases m with
      | zero => rfl
      | succ m => rw [hv, Nat.pow_succ] at h1; have := Nat.two_pow_pos m; omega
    subst hm
    have : rdA arithC v 0 = ((c 0 : ℤ) : ℂ) := by
      rw [hval 0 (by norm_num)]; simp [dft]
    unfold rdA at this
    rw [this]
    cases res with
    | nil => rfl
    | cons r rs =>
      simp only [pow_zero, List.range_one, List.map_cons, List.map_nil, addPrefix, addPrefix_nil]
      simp [arithC]
  · rw [if_neg h1]
    have hm : 1 ≤ m := by
      cases m with
      | zero => simp at hv; exact absurd hv h1
      | succ m => omega
    simp only []
    rw [hv, Nat.log2_two_pow, two_pow_shiftRight_one m hm]
    have hn2 : 2 * 2^(m-1) = 2^m := by
      obtain ⟨q, rfl⟩ : ∃ q, m = q + 1 := ⟨m - 1, by omega⟩
      rw [Nat.pow_succ]; simp; omega
    obtain ⟨g1, g2⟩ := foldHalf_spec arithC arithC.half (wArr arithC (max m 2)) (2^(max m 2)) m hm v hv
    have hG : ∀ p, p < 2^(m-1) → rdA arithC (foldHalfRef arithC arithC.half m v) p
        = dft (zeta (m-1)) (2^(m-1)) (fun t => ((c (2 * t) : ℤ) : ℂ) + I * ((c (2 * t + 1) : ℤ) : ℂ)) p := by
      intro p hp
      unfold foldHalfRef
      have fe := fold_exact m hm (fun u => ((c u : ℤ) : ℂ)) p hp
      rw [g2 p hp, hval p (by omega), hval (p + 2^(m-1)) (by omega), ← fe]
      simp only [arithC]
      ring
    obtain ⟨x1, x2⟩ := extract_spec arithC (foldHalfRef arithC arithC.half m v) (2^(m-1))
      (by unfold foldHalfRef; rw [g1]; omega)
    obtain ⟨i1, i2⟩ := fftRef_dft (m-1) true _ x1
    have hq : ∀ q, q < (fftRef arithC (m-1) true ((foldHalfRef arithC arithC.half m v).extract 0 (2^(m-1)))).size →
        rdA arithC (fftRef arithC (m-1) true ((foldHalfRef arithC arithC.half m v).extract 0 (2^(m-1)))) q
          = ((c (2 * q) : ℤ) : ℂ) + I * ((c (2 * q + 1) : ℤ) : ℂ) := by
      intro q hq
      rw [i1] at hq
      rw [i2 q hq]
      simp only [if_true]
      rw [dft_congr _ _ _ (fun p => dft (zeta (m-1)) (2^(m-1))
          (fun t => ((c (2 * t) : ℤ) : ℂ) + I * ((c (2 * t + 1) : ℤ) : ℂ)) p)
          (fun p hp => by rw [x2 p hp, hG p hp]) q]
      exact dft_inversion (m-1) _ q hq
    rw [roundPairs_exact _ c hq, i1, hn2]

theorem fftInvIntoRef_exact (m : ℕ) (c : ℕ → ℤ) (v : Array ℂ) (hv : v.size = 2^m)
    (hval : ∀ p, p < 2^m → rdA arithC v p = dft (zeta m) (2^m) (fun u => ((c u : ℤ) : ℂ)) p) :
    fftInvIntoRef arithC v (List.replicate v.size 0) = (List.range (2^m)).map c := by
  rw [fftInvIntoRef_exact_into m c v hv hval, hv]
  have := addPrefix_zeros_self ((List.range (2^m)).map c)
  simp only [List.length_map, List.length_range] at this
  exact this


theorem fftIntoRef?_zero_exact (v : Array Int) (m : ℕ) (hv : v.size ≤ 2^m) :
    fftIntoRef? arithC v (2^m) (Array.replicate (fftSize v.size (2^m)) arithC.zero)
      = .ok (fftIntoRef arithC v m (Array.replicate (2^m) arithC.zero)) := by
  have hpos := Nat.two_pow_pos m
  have hfs : fftSize v.size (2^m) = 2^m := by unfold fftSize; rw [if_neg (by omega)]
  unfold fftIntoRef?
  simp only [hfs, isPow2_two_pow, Nat.log2_two_pow, Bool.not_true, Bool.false_eq_true, if_false]
  rw [if_neg (by omega)]

/-- **forward transforms, pointwise product, inverse transform = the integer convolution** (exact arithmetic),
    as a list of `2^m` coefficients. -/
theorem fftMulInvRef?_exact (a b : Array Int) (m : ℕ) (ha : a.size ≠ 0) (hb : b.size ≠ 0)
    (hlen : a.size + b.size - 1 ≤ 2^m) :
    fftMulInvRef? arithC a b (2^m) = .ok ((List.range (2^m)).map (convAt a b)) := by
  unfold fftMulInvRef?
  rw [fftIntoRef?_zero_exact a m (by omega), fftIntoRef?_zero_exact b m (by omega)]
  simp only []
  obtain ⟨a1, a2⟩ := fftIntoRef_zero_exact a m
  obtain ⟨b1, b2⟩ := fftIntoRef_zero_exact b m
  obtain ⟨p1, p2⟩ := pointwise_spec _ _ (2^m) a1 b1
  unfold fftInvIntoRef?
  rw [p1, isPow2_two_pow]
  simp only [Bool.not_true, Bool.false_eq_true, if_false]
  have := fftInvIntoRef_exact m (convAt a b) _ p1 (fun p hp => by
    rw [p2 p hp, a2 p hp, b2 p hp]
    exact dft_convAt (zeta m) (2^m) a b ha hb hlen p)
  rw [p1] at this
  rw [this]

theorem fftMulInvIntoRef?_exact (a b : Array Int) (m : ℕ) (ha : a.size ≠ 0) (hb : b.size ≠ 0)
    (hlen : a.size + b.size - 1 ≤ 2^m) (res : List Int) :
    fftMulInvIntoRef? arithC a b (2^m) res = .ok (addPrefix res ((List.range (2^m)).map (convAt a b))) := by
  unfold fftMulInvIntoRef?
  rw [fftIntoRef?_zero_exact a m (by omega), fftIntoRef?_zero_exact b m (by omega)]
  simp only []
  obtain ⟨a1, a2⟩ := fftIntoRef_zero_exact a m
  obtain ⟨b1, b2⟩ := fftIntoRef_zero_exact b m
  obtain ⟨p1, p2⟩ := pointwise_spec _ _ (2^m) a1 b1
  unfold fftInvIntoRef?
  rw [p1, isPow2_two_pow]
  simp only [Bool.not_true, Bool.false_eq_true, if_false]
  rw [fftInvIntoRef_exact_into m (convAt a b) _ p1 (fun p hp => by
    rw [p2 p hp, a2 p hp, b2 p hp]
    exact dft_convAt (zeta m) (2^m) a b ha hb hlen p)]

theorem range_map_convAt (a b : Array Int) (n : ℕ) (ha : a.size ≠ 0) (hb : b.size ≠ 0) (hlen : a.size + b.size - 1 ≤ n) :
    (List.range n).map (convAt a b) = convSpec a b ++ List.replicate (n - (a.size + b.size - 1)) 0 := by
  unfold convSpec
  rw [if_neg (by omega)]
  apply List.ext_getElem?
  intro u
  by_cases hu : u < a.size + b.size - 1
  · rw [List.getElem?_append_left (by simpa using hu), List.getElem?_map, List.getElem?_map,
      List.getElem?_range (by omega), List.getElem?_range hu]
  · rw [List.getElem?_append_right (by simpa using hu)]
    simp only [List.length_map, List.length_range, List.getElem?_map]
    by_cases hun : u < n
    · rw [List.getElem?_range hun, List.getElem?_replicate, if_pos (by omega)]
      simp [convAt_of_ge a b u (by omega)]
    · rw [List.getElem?_eq_none (by simpa using hun), List.getElem?_replicate, if_neg (by omega)]
      rfl

end ComplexInstance
end Rlib.Fft
