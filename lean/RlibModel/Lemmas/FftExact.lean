import Mathlib.RingTheory.RootsOfUnity.Complex
import RlibModel.Lemmas.FftLoops
/-!
Level-B lemmas for C04: the algebra.  In exact arithmetic (a commutative ring with a root of unity; then ℂ with
`tw i cur = exp(iπ·i/cur)`) the iterative transform of `fft_internal` is the discrete Fourier transform, and
`multiply` is the integer convolution.
-/
namespace Rlib.Fft
open Finset

section Algebra
variable {R : Type} [CommRing R]

/-- The discrete Fourier sum `∑_{s<N} x_s ρ^{ks}`. -/
def dft (ρ : R) (N : ℕ) (x : ℕ → R) (k : ℕ) : R := ∑ s ∈ range N, x s * ρ ^ (k * s)

theorem sum_range_even_odd (f : ℕ → R) (L : ℕ) :
    ∑ s ∈ range (2 * L), f s = ∑ s ∈ range L, f (2 * s) + ∑ s ∈ range L, f (2 * s + 1) := by
  induction L with
  | zero => simp
  | succ L ih =>
    rw [show 2 * (L + 1) = 2 * L + 1 + 1 by ring, sum_range_succ, sum_range_succ, ih, sum_range_succ, sum_range_succ]
    ring

/-- radix-2 decimation in time -/
theorem dft_split (σ : R) (L : ℕ) (z : ℕ → R) (k : ℕ) :
    dft σ (2 * L) z k = dft (σ ^ 2) L (fun s => z (2 * s)) k + σ ^ k * dft (σ ^ 2) L (fun s => z (2 * s + 1)) k := by
  unfold dft
  rw [sum_range_even_odd, mul_sum]
  congr 1
  · apply sum_congr rfl; intro s _
    rw [← pow_mul]; congr 2; ring
  · apply sum_congr rfl; intro s _
    rw [← pow_mul, mul_left_comm, ← pow_add]; congr 2; ring

theorem dft_add_period (τ : R) (L : ℕ) (h : τ ^ L = 1) (z : ℕ → R) (j : ℕ) : dft τ L z (j + L) = dft τ L z j := by
  unfold dft
  apply sum_congr rfl; intro s _
  rw [add_mul, pow_add, mul_comm L s, pow_mul τ s L, pow_right_comm, h, one_pow, mul_one]

end Algebra

section Exact
variable {R : Type} [CommRing R]

/-- The arithmetic record computes in the ring `R` (the three operations `fft_internal` uses). -/
structure RingOps (A : Arith R) : Prop where
  add : ∀ x y, A.add x y = x + y
  sub : ∀ x y, A.sub x y = x - y
  mul : ∀ x y, A.mul x y = x * y

/-- Invariant of the iterative transform before the stage with half-size `2^t` (`e = m - t`): the block
    `b` holds the DFT of length `2^t` of the subsequence `x₀[s·2^e + rev_e(b)]`. -/
def BlockInv (ρ : R) (x₀ : ℕ → R) (t e : ℕ) (x : ℕ → R) : Prop :=
  ∀ b j, b < 2^e → j < 2^t → x (b * 2^t + j) = dft (ρ ^ (2^e)) (2^t) (fun s => x₀ (s * 2^e + revC e b)) j

theorem blockInv_step (A : Arith R) (hA : RingOps A) (ρ : R) (x₀ : ℕ → R) (t d : ℕ) (w : ℕ → R)
    (hneg : ρ ^ (2^(t+d)) = -1) (hw : ∀ j, j < 2^t → w j = ρ ^ (j * 2^d))
    (x : ℕ → R) (h : BlockInv ρ x₀ t (d+1) x) : BlockInv ρ x₀ (t+1) d (stageF A w (2^t) x) := by
  intro B j' hB hj'
  have hL : 0 < 2^t := Nat.two_pow_pos t
  have h2 : 2^(t+1) = 2 * 2^t := by rw [pow_succ]; ring
  have hmod : (B * 2^(t+1) + j') % (2 * 2^t) = j' := by
    rw [← h2, Nat.add_comm, Nat.add_mul_mod_self_right, Nat.mod_eq_of_lt hj']
  have h2B : 2 * B < 2^(d+1) := by rw [pow_succ]; omega
  have h2B1 : 2 * B + 1 < 2^(d+1) := by rw [pow_succ]; omega
  -- the two half-blocks
  have e0 := revC_low d B 0 hB (by omega)
  have e1 := revC_low d B 1 hB (by omega)
  simp only [Nat.add_zero, Nat.zero_mul] at e0
  rw [Nat.one_mul] at e1
  set σ : R := ρ ^ (2^d) with hσ
  have hσ2 : σ ^ 2 = ρ ^ (2^(d+1)) := by rw [hσ, ← pow_mul, pow_succ]
  have hσL : σ ^ (2^t) = -1 := by rw [hσ, ← pow_mul, ← pow_add, Nat.add_comm]; exact hneg
  have hτL : (σ ^ 2) ^ (2^t) = 1 := by rw [pow_right_comm, hσL]; norm_num
  have hwσ : ∀ j, ρ ^ (j * 2^d) = σ ^ j := by intro j; rw [hσ, ← pow_mul, mul_comm]
  -- the even / odd halves
  let E := dft (σ^2) (2^t) (fun s => x₀ (s * 2^(d+1) + revC (d+1) (2*B)))
  let O := dft (σ^2) (2^t) (fun s => x₀ (s * 2^(d+1) + revC (d+1) (2*B+1)))
  have hE : ∀ j, j < 2^t → x ((2*B) * 2^t + j) = E j := by
    intro j hj; rw [h (2*B) j h2B hj, ← hσ2]
  have hO : ∀ j, j < 2^t → x ((2*B+1) * 2^t + j) = O j := by
    intro j hj; rw [h (2*B+1) j h2B1 hj, ← hσ2]
  have hrhs : ∀ k, dft σ (2^(t+1)) (fun s => x₀ (s * 2^d + revC d B)) k = E k + σ ^ k * O k := by
    intro k
    have z0 : (fun s => (fun s => x₀ (s * 2^d + revC d B)) (2 * s)) = fun s => x₀ (s * 2^(d+1) + revC (d+1) (2*B)) := by
      funext s
      show x₀ (2 * s * 2^d + revC d B) = _
      rw [e0]; congr 1; rw [pow_succ]; ring
    have z1 : (fun s => (fun s => x₀ (s * 2^d + revC d B)) (2 * s + 1)) = fun s => x₀ (s * 2^(d+1) + revC (d+1) (2*B+1)) := by
      funext s
      show x₀ ((2 * s + 1) * 2^d + revC d B) = _
      rw [e1]; congr 1; rw [pow_succ]; ring
    rw [h2, dft_split, z0, z1]
  unfold stageF
  rw [hmod]
  by_cases hlt : j' < 2^t
  · rw [if_pos hlt, hA.add, hA.mul, hw j' hlt]
    have p0 : B * 2^(t+1) + j' = (2*B) * 2^t + j' := by rw [h2]; ring
    have p1 : B * 2^(t+1) + j' + 2^t = (2*B+1) * 2^t + j' := by rw [h2]; ring
    rw [p1, p0, hE j' hlt, hO j' hlt, hrhs j', hwσ]
    ring
  · rw [if_neg hlt, hA.sub, hA.mul, hw (j' - 2^t) (by omega)]
    obtain ⟨j, rfl⟩ : ∃ j, j' = j + 2^t := ⟨j' - 2^t, by omega⟩
    have hj : j < 2^t := by omega
    have p0 : B * 2^(t+1) + (j + 2^t) - 2^t = (2*B) * 2^t + j := by
      rw [← Nat.add_assoc, Nat.add_sub_cancel, h2]; ring
    have p1 : B * 2^(t+1) + (j + 2^t) = (2*B+1) * 2^t + j := by rw [h2]; ring
    have hEp : E (j + 2^t) = E j := dft_add_period _ _ hτL _ _
    have hOp : O (j + 2^t) = O j := dft_add_period _ _ hτL _ _
    rw [p0, p1, hE j hj, hO j hj, hrhs (j + 2^t), Nat.add_sub_cancel, hEp, hOp, pow_add, hσL, hwσ]
    ring


theorem stagesF_dft (A : Arith R) (hA : RingOps A) (ρ : R) (x₀ : ℕ → R) (m : ℕ) (W : ℕ → ℕ → R)
    (hρ : ∀ m', m = m' + 1 → ρ ^ (2^m') = -1)
    (hW : ∀ t j, t < m → j < 2^t → W t j = ρ ^ (j * 2^(m-t-1))) :
    ∀ (d t : ℕ) (x : ℕ → R), t + d = m → BlockInv ρ x₀ t d x →
      ∀ p, p < 2^m → stagesF A W d t x p = dft ρ (2^m) x₀ p := by
  intro d
  induction d with
  | zero =>
    intro t x ht h p hp
    have : t = m := by omega
    subst this
    have := h 0 p (by simp) hp
    simpa [stagesF, revC] using this
  | succ d ih =>
    intro t x ht h p hp
    simp only [stagesF]
    apply ih (t+1) _ (by omega) _ p hp
    apply blockInv_step A hA ρ x₀ t d (W t) (hρ (t+d) (by omega)) _ x h
    intro j hj
    rw [hW t j (by omega) hj, show m - t - 1 = d by omega]

theorem blockInv_init (ρ : R) (x₀ : ℕ → R) (m : ℕ) : BlockInv ρ x₀ 0 m (fun q => x₀ (revC m q)) := by
  intro b j _ hj
  have : j = 0 := by simpa using hj
  subst this
  simp [dft]

/-- **Iterative Cooley–Tukey with the bit-reversal table computes the DFT** (any commutative ring,
    any `ρ` with `ρ^(n/2) = -1`, twiddles `ρ^(j·n/(2L))`). -/
theorem fftF_dft (A : Arith R) (hA : RingOps A) (ρ : R) (rd : ℕ → R) (maxN m : ℕ) (inv : Bool)
    (hρ : ∀ m', m = m' + 1 → ρ ^ (2^m') = -1)
    (hW : ∀ t j, t < m → j < 2^t → stageTw rd maxN inv t j = ρ ^ (j * 2^(m-t-1)))
    (x : ℕ → R) (p : ℕ) (hp : p < 2^m) :
    fftF A rd (revC m) maxN m inv x p
      = if inv then A.scaleInv (2^m) (dft ρ (2^m) x p) else dft ρ (2^m) x p := by
  unfold fftF
  simp only []
  rw [stagesF_dft A hA ρ x m _ hρ hW m 0 _ (by omega) (blockInv_init ρ x m) p hp]

end Exact

section ComplexInstance
open Complex

/-- Exact complex arithmetic: every field is the real-number meaning of the corresponding operation of
    `complex.rs` / `num_traits` (`tw i cur = (cos x, sin x)` with `x = π·i·(1/cur)`; `round` is exact on integers). -/
noncomputable def arithC : Arith ℂ where
  zero := 0
  one := 1
  i8 := I / 8
  add x y := x + y
  sub x y := x - y
  mul x y := x * y
  conj := starRingEnd ℂ
  half z := z * (1 / 2)
  scaleInv n z := z * (1 / (n : ℂ))
  tw i cur := ⟨Real.cos (Real.pi * i * (1 / cur)), Real.sin (Real.pi * i * (1 / cur))⟩
  setRe c v := ⟨(v : ℝ), c.im⟩
  setIm c v := ⟨c.re, (v : ℝ)⟩
  roundRe c := round c.re
  roundIm c := round c.im

theorem ringOps_arithC : RingOps arithC := ⟨fun _ _ => rfl, fun _ _ => rfl, fun _ _ => rfl⟩

/-- `e^{2πi/2^k}` -/
noncomputable def zeta (k : ℕ) : ℂ := exp (2 * Real.pi * I / ((2^k : ℕ) : ℂ))

theorem zeta_pow_two_pow (k : ℕ) : zeta k ^ (2^k) = 1 := by
  unfold zeta
  rw [← exp_nat_mul]
  have h : ((2^k : ℕ) : ℂ) ≠ 0 := by exact_mod_cast (Nat.two_pow_pos k).ne'
  rw [mul_div_cancel₀ _ h]
  exact exp_two_pi_mul_I

theorem zeta_succ_sq (k : ℕ) : zeta (k+1) ^ 2 = zeta k := by
  unfold zeta
  rw [← exp_nat_mul]
  congr 1
  have h : ((2^k : ℕ) : ℂ) ≠ 0 := by exact_mod_cast (Nat.two_pow_pos k).ne'
  push_cast
  rw [pow_succ]
  field_simp

theorem zeta_succ_half (k : ℕ) : zeta (k+1) ^ (2^k) = -1 := by
  unfold zeta
  rw [← exp_nat_mul]
  have h : ((2 : ℂ)^k) ≠ 0 := pow_ne_zero _ two_ne_zero
  have : ((2^k : ℕ) : ℂ) * (2 * Real.pi * I / ((2^(k+1) : ℕ) : ℂ)) = Real.pi * I := by
    push_cast
    rw [pow_succ]
    field_simp
  rw [this, exp_pi_mul_I]

theorem tw_eq (i k : ℕ) : arithC.tw i (2^k) = zeta (k+1) ^ i := by
  unfold zeta
  rw [← exp_nat_mul]
  have h : ((2 : ℂ)^k) ≠ 0 := pow_ne_zero _ two_ne_zero
  have e : (i : ℂ) * (2 * Real.pi * I / ((2^(k+1) : ℕ) : ℂ)) = ((Real.pi * i * (1 / (2^k : ℕ)) : ℝ) : ℂ) * I := by
    push_cast
    rw [pow_succ]
    field_simp
  rw [e]
  apply Complex.ext
  · rw [exp_ofReal_mul_I_re]; rfl
  · rw [exp_ofReal_mul_I_im]; rfl

/-- The canonical twiddle table in exact arithmetic: `w[j] = e^{2πi·j/2^k}`. -/
theorem wC_eq : ∀ (k j : ℕ), j ≤ 2^k → wC arithC.tw arithC.one k j = zeta k ^ j := by
  intro k
  induction k with
  | zero =>
    intro j _
    have : zeta 0 = 1 := by simpa using zeta_pow_two_pow 0
    rw [this, one_pow]; rfl
  | succ k ih =>
    intro j hj
    rw [wC]
    by_cases h0 : j = 0
    · subst h0; simp; rfl
    · by_cases hl : j = 2^(k+1)
      · subst hl; rw [if_pos (Or.inr rfl), zeta_pow_two_pow]; rfl
      · rw [if_neg (by tauto)]
        by_cases hev : j % 2 = 0
        · rw [if_pos hev, ih (j/2) (by rw [pow_succ] at hj; omega), ← zeta_succ_sq, ← pow_mul]
          congr 1; omega
        · rw [if_neg hev, tw_eq]


theorem stageTw_fwd (m t j : ℕ) (ht : t < m) (hj : j < 2^t) :
    stageTw (wC arithC.tw arithC.one m) (2^m) false t j = zeta m ^ (j * 2^(m-t-1)) := by
  unfold stageTw
  simp only [Bool.false_eq_true, if_false]
  rw [twIdx_fwd m t j ht]
  apply wC_eq
  have : (2^m : ℕ) = 2^t * 2 * 2^(m-t-1) := by
    rw [← Nat.pow_succ, ← Nat.pow_add]; congr 1; omega
  rw [this]
  exact Nat.mul_le_mul_right _ (by omega)

theorem stageTw_inv (m t j : ℕ) (ht : t < m) (hj : j < 2^t) :
    stageTw (wC arithC.tw arithC.one m) (2^m) true t j = (zeta m)⁻¹ ^ (j * 2^(m-t-1)) := by
  unfold stageTw
  simp only [if_true]
  rw [twIdx_inv m t j ht hj, wC_eq m _ (Nat.sub_le _ _)]
  have hle : j * 2^(m-t-1) ≤ 2^m := by
    have : (2^m : ℕ) = 2^t * 2 * 2^(m-t-1) := by
      rw [← Nat.pow_succ, ← Nat.pow_add]; congr 1; omega
    rw [this]
    exact Nat.mul_le_mul_right _ (by omega)
  have hz : zeta m ≠ 0 := by unfold zeta; exact exp_ne_zero _
  rw [inv_pow]
  apply eq_inv_of_mul_eq_one_left
  rw [← pow_add, Nat.sub_add_cancel hle, zeta_pow_two_pow]

theorem zeta_half (m' : ℕ) : zeta (m'+1) ^ (2^m') = -1 := zeta_succ_half m'

theorem zeta_inv_half (m' : ℕ) : (zeta (m'+1))⁻¹ ^ (2^m') = -1 := by
  rw [inv_pow, zeta_succ_half]; norm_num

/-- **`fft_internal` is the DFT** (exact complex arithmetic): forward `∑ v_s ζ^{ps}`, inverse
    `(1/n) ∑ v_s ζ^{-ps}`, `ζ = e^{2πi/n}`, `n = 2^m`. -/
theorem fftRef_dft (m : ℕ) (inv : Bool) (v : Array ℂ) (hv : v.size = 2^m) :
    (fftRef arithC m inv v).size = 2^m ∧
    ∀ p, p < 2^m → rdA arithC (fftRef arithC m inv v) p
      = if inv then dft (zeta m)⁻¹ (2^m) (rdA arithC v) p * (1 / ((2^m : ℕ) : ℂ))
        else dft (zeta m) (2^m) (rdA arithC v) p := by
  unfold fftRef
  obtain ⟨h1, h2⟩ := fftCore_spec arithC (wC arithC.tw arithC.one m) (revC m) (2^m) m inv v hv
    (fun i _ => revC_lt m i) (revC_revC m) (revC_zero m)
  refine ⟨h1, fun p hp => ?_⟩
  rw [h2 p hp]
  cases inv with
  | false =>
    rw [fftF_dft arithC ringOps_arithC (zeta m) _ (2^m) m false
      (fun m' h => by subst h; exact zeta_half m') (fun t j ht hj => stageTw_fwd m t j ht hj) _ p hp]
    simp
  | true =>
    rw [fftF_dft arithC ringOps_arithC (zeta m)⁻¹ _ (2^m) m true
      (fun m' h => by subst h; exact zeta_inv_half m') (fun t j ht hj => stageTw_inv m t j ht hj) _ p hp]
    simp only [if_true]
    rfl

end ComplexInstance
end Rlib.Fft
