import RlibModel.Model.Mint
import Mathlib.Tactic.Ring
import Mathlib.Tactic.Linarith
import Mathlib.Tactic.LinearCombination
/-! Helper lemmas for C06 (`Modular<M>`). -/
namespace Rlib.Mint

/-! ### machine ranges -/

theorem fits_i32 (z : Int) : i32.fits z = true ↔ (-2 ^ 31 ≤ z ∧ z < 2 ^ 31) := by
  simp [IntTy.fits, IntTy.minVal, IntTy.maxVal, i32]; omega

theorem fits_u32 (z : Int) : u32.fits z = true ↔ (0 ≤ z ∧ z < 2 ^ 32) := by
  simp [IntTy.fits, IntTy.minVal, IntTy.maxVal, u32]; omega

theorem fits_i64 (z : Int) : i64.fits z = true ↔ (-2 ^ 63 ≤ z ∧ z < 2 ^ 63) := by
  simp [IntTy.fits, IntTy.minVal, IntTy.maxVal, i64]; omega

theorem checked_ok {t : IntTy} {z : Int} (h : t.fits z = true) : checked t z = .ok z := by
  simp [checked, h]

theorem checked_u32 {z : Int} (h0 : 0 ≤ z) (h1 : z < 2 ^ 32) : checked u32 z = .ok z :=
  checked_ok ((fits_u32 z).2 ⟨h0, h1⟩)

theorem checked_i32 {z : Int} (h0 : -2 ^ 31 ≤ z) (h1 : z < 2 ^ 31) : checked i32 z = .ok z :=
  checked_ok ((fits_i32 z).2 ⟨h0, h1⟩)

theorem checked_i64 {z : Int} (h0 : -2 ^ 63 ≤ z) (h1 : z < 2 ^ 63) : checked i64 z = .ok z :=
  checked_ok ((fits_i64 z).2 ⟨h0, h1⟩)

theorem wrapS32_id {z : Int} (h0 : -2 ^ 31 ≤ z) (h1 : z < 2 ^ 31) : wrapS 32 z = z := by
  unfold wrapS; simp only []; omega

theorem wrapU32_id {z : Int} (h0 : 0 ≤ z) (h1 : z < 2 ^ 32) : wrapU 32 z = z := by
  unfold wrapU; omega

@[simp] theorem ok_bind {α β : Type} (z : α) (f : α → Except Panic β) :
    (Except.ok z >>= f) = f z := rfl

@[simp] theorem pure_eq_ok {α : Type} (z : α) : (pure z : Except Panic α) = .ok z := rfl

/-- The canonical range `0 ≤ a < M`. -/
def R (M a : Int) : Prop := 0 ≤ a ∧ a < M

theorem R_red {M : Int} (hM : 0 < M) (z : Int) : R M (red M z) :=
  ⟨Int.emod_nonneg _ (by omega), Int.emod_lt_of_pos _ hM⟩

/-! ### `new` -/

theorem new_eq (M v : Int) (hM : 2 ≤ M) (hM2 : M < 2 ^ 31) : new M v = .ok (v % M) := by
  have hMpos : 0 < M := by omega
  have h1 : -M < v.tmod M := Int.lt_tmod_of_pos v hMpos
  have h2 : v.tmod M < M := Int.tmod_lt_of_pos v hMpos
  have he0 : 0 ≤ v % M := Int.emod_nonneg _ (by omega)
  have he1 : v % M < M := Int.emod_lt_of_pos _ hMpos
  have hte := @Int.tmod_eq_emod v M
  have hnat : (M.natAbs : Int) = M := by omega
  unfold new
  rw [if_neg (by omega), wrapS32_id (by omega) (by omega)]
  simp only []
  by_cases hneg : v.tmod M < 0
  · rw [if_pos hneg, wrapS32_id (z := M) (by omega) (by omega), checked_i32 (by omega) (by omega)]
    simp only [ok_bind, pure_eq_ok]
    rw [wrapU32_id (by omega) (by omega)]
    congr 1
    split at hte <;> omega
  · rw [if_neg hneg]
    simp only [pure_eq_ok]
    rw [wrapU32_id (by omega) (by omega)]
    congr 1
    split at hte <;> omega

/-! ### `add`, `sub`, `neg`, `mul` -/

theorem add_eq (M a b : Int) (hM : 2 ≤ M) (hM2 : M < 2 ^ 31) (ha : R M a) (hb : R M b) :
    add M a b = .ok ((a + b) % M) := by
  obtain ⟨ha0, ha1⟩ := ha
  obtain ⟨hb0, hb1⟩ := hb
  unfold add
  rw [checked_u32 (by omega) (by omega)]
  simp only [ok_bind, pure_eq_ok]
  by_cases h : a + b ≥ M
  · rw [if_pos h, checked_u32 (by omega) (by omega)]
    congr 1
    have : (a + b) % M = (a + b - M) % M := by
      rw [Int.sub_emod, Int.emod_self]; simp
    rw [this, Int.emod_eq_of_lt (by omega) (by omega)]
  · rw [if_neg h]
    congr 1
    rw [Int.emod_eq_of_lt (by omega) (by omega)]

theorem sub_eq (M a b : Int) (hM : 2 ≤ M) (hM2 : M < 2 ^ 31) (ha : R M a) (hb : R M b) :
    sub M a b = .ok ((a - b) % M) := by
  obtain ⟨ha0, ha1⟩ := ha
  obtain ⟨hb0, hb1⟩ := hb
  unfold sub
  rw [checked_u32 (by omega) (by omega)]
  simp only [ok_bind]
  rw [checked_u32 (by omega) (by omega)]
  simp only [ok_bind, pure_eq_ok]
  by_cases h : a + M - b ≥ M
  · rw [if_pos h, checked_u32 (by omega) (by omega)]
    congr 1
    rw [show a + M - b - M = a - b by omega, Int.emod_eq_of_lt (by omega) (by omega)]
  · rw [if_neg h]
    congr 1
    have : (a - b) % M = (a - b + M) % M := by simp
    rw [this, show a + M - b = a - b + M by omega, Int.emod_eq_of_lt (by omega) (by omega)]

theorem neg_eq (M a : Int) (hM : 2 ≤ M) (hM2 : M < 2 ^ 31) (ha : R M a) :
    neg M a = .ok ((-a) % M) := by
  obtain ⟨ha0, ha1⟩ := ha
  unfold neg
  by_cases h : a = 0
  · subst h; simp
  · rw [if_neg h, checked_u32 (by omega) (by omega)]
    congr 1
    have : (-a) % M = (-a + M) % M := by simp
    rw [this, show M - a = -a + M by omega, Int.emod_eq_of_lt (by omega) (by omega)]

theorem mul_eq (M a b : Int) (hM : 2 ≤ M) (hM2 : M < 2 ^ 31) (ha : R M a) (hb : R M b) :
    mul M a b = .ok ((a * b) % M) := by
  obtain ⟨ha0, ha1⟩ := ha
  obtain ⟨hb0, hb1⟩ := hb
  have h0 : 0 ≤ a * b := Int.mul_nonneg ha0 hb0
  have h1 : a * b < 2 ^ 62 := by nlinarith
  unfold mul
  rw [checked_i64 (by omega) (by omega)]
  simp only [ok_bind]
  exact new_eq M _ hM hM2

/-! ### `pow` -/

theorem pow_emod (x M : Int) (k : Nat) : (x % M) ^ k % M = x ^ k % M := by
  induction k with
  | zero => simp
  | succ n ih => rw [pow_succ, pow_succ, Int.mul_emod, ih, ← Int.mul_emod, Int.mul_emod, Int.emod_emod, ← Int.mul_emod]

theorem pow_split (a : Int) (d : Nat) : a ^ d = (a * a) ^ (d / 2) * a ^ (d % 2) := by
  have h : d = 2 * (d / 2) + d % 2 := by omega
  conv_lhs => rw [h, pow_add, pow_mul]
  rw [pow_two]

theorem pow_step_arith (M res res' a : Int) (d : Nat) (he : res' % M = (res * a ^ (d % 2)) % M) :
    (res' * (a * a % M) ^ (d / 2)) % M = (res * a ^ d) % M := by
  rw [Int.mul_emod, pow_emod, he, ← Int.mul_emod, pow_split a d]
  congr 1
  ring

theorem powLoop_eq (M : Int) (hM : 2 ≤ M) (hM2 : M < 2 ^ 31) :
    ∀ (d : Nat) (res a : Int), R M res → R M a → powLoop M res a d = .ok ((res * a ^ d) % M) := by
  intro d
  induction d using Nat.strong_induction_on with
  | _ d ih =>
    intro res a hres ha
    rw [powLoop]
    by_cases hd : d = 0
    · subst hd
      rw [dif_pos rfl]
      simp only [pow_zero, Int.mul_one]
      rw [Int.emod_eq_of_lt hres.1 hres.2]
    · rw [dif_neg hd]
      have hMpos : 0 < M := by omega
      have haa : mul M a a = .ok ((a * a) % M) := mul_eq M a a hM hM2 ha ha
      by_cases hodd : d % 2 = 1
      · rw [if_pos hodd, mul_eq M res a hM hM2 hres ha]
        simp only [haa]
        rw [ih (d / 2) (by omega) (res * a % M) (a * a % M) (R_red hMpos _) (R_red hMpos _)]
        congr 1
        apply pow_step_arith
        rw [hodd, pow_one, Int.emod_emod]
      · rw [if_neg hodd]
        simp only [haa]
        rw [ih (d / 2) (by omega) res (a * a % M) hres (R_red hMpos _)]
        congr 1
        apply pow_step_arith
        have : d % 2 = 0 := by omega
        rw [this, pow_zero, Int.mul_one]
theorem specPow_eq (M a : Int) : ∀ d : Nat, specPow M a d = a ^ d % M := by
  intro d
  induction d using Nat.strong_induction_on with
  | _ d ih =>
    rw [specPow]
    by_cases hd : d = 0
    · subst hd; simp [red]
    · rw [dif_neg hd]
      simp only [red]
      rw [ih (d / 2) (by omega)]
      have hs := pow_split a d
      by_cases hodd : d % 2 = 1
      · rw [if_pos hodd, hs, hodd, pow_one, ← Int.mul_emod, Int.mul_emod _ a, Int.emod_emod,
          ← Int.mul_emod, mul_pow]
      · rw [if_neg hodd, hs, show d % 2 = 0 by omega, pow_zero, Int.mul_one, ← Int.mul_emod, mul_pow]

/-! ### `inv` (ported from `spikes/MintInv.lean`) -/

theorem not_fits_false {t : IntTy} {z : Int} (h : t.fits z = true) : (¬ t.fits z = true) = False := by
  simp [h]

theorem invLoop_spec (M v : Int) (hM2 : M < 2^31) :
    ∀ (fuel : Nat) (a b x y X Y s : Int), (s = 1 ∨ s = -1) → x = -s * X → y = s * Y →
      0 ≤ X → 0 ≤ Y → X ≤ M → Y ≤ M → 0 ≤ a → 0 ≤ b → b < 2^31 → a < 2^31 → a * X + b * Y = M →
      (∃ t, y * v - a = t * M) → (∃ t, x * v - b = t * M) → a.toNat < fuel →
      ∃ r, invLoop a b x y = .ok r ∧ (∃ t, r * v - (Int.gcd a b : Int) = t * M) ∧ -M ≤ r ∧ r ≤ M := by
  intro fuel
  induction fuel with
  | zero => intro a b x y X Y s _ _ _ _ _ _ _ ha _ _ _ _ _ _ hf; omega
  | succ n ih =>
    intro a b x y X Y s hs hx hy hX hY hXM hYM ha hb hb31 ha31 hinv hya hxb hf
    rw [invLoop]
    by_cases ha0 : a = 0
    · subst ha0
      rw [dif_pos rfl]
      refine ⟨x, rfl, ?_, ?_, ?_⟩
      · obtain ⟨t, ht⟩ := hxb
        refine ⟨t, ?_⟩
        have : (Int.gcd 0 b : Int) = b := by simp [abs_of_nonneg hb]
        rw [this]; exact ht
      · rcases hs with rfl | rfl <;> (subst hx; nlinarith)
      · rcases hs with rfl | rfl <;> (subst hx; nlinarith)
    · rw [dif_neg ha0]
      have hapos : 0 < a := by omega
      have hk : Int.tdiv b a = b / a := Int.tdiv_eq_ediv_of_nonneg hb
      have hk0 : 0 ≤ b / a := Int.ediv_nonneg hb ha
      have hka : b / a * a ≤ b := Int.ediv_mul_le b (by omega)
      have hkb : b / a ≤ b := by nlinarith
      have hmod : b - b / a * a = b % a := by
        have := Int.emod_add_mul_ediv b a; nlinarith
      have hmod0 : 0 ≤ b % a := Int.emod_nonneg b (by omega)
      have hmodlt : b % a < a := Int.emod_lt_of_pos b hapos
      have hY' : a * (X + b / a * Y) + (b % a) * Y = M := by rw [← hmod]; nlinarith
      have hY'M : X + b / a * Y ≤ M := by nlinarith [mul_nonneg hmod0 hY, mul_nonneg hk0 hY]
      have hkY0 : 0 ≤ b / a * Y := mul_nonneg hk0 hY
      simp only [hk]
      have e0 : i32.fits (b / a) = true := (fits_i32 _).2 ⟨by omega, by omega⟩
      have e1 : i32.fits (b / a * a) = true := (fits_i32 _).2 ⟨by nlinarith, by omega⟩
      have e2 : i32.fits (b - b / a * a) = true := by rw [hmod]; exact (fits_i32 _).2 ⟨by omega, by omega⟩
      have hky : b / a * y = s * (b / a * Y) := by rw [hy]; ring
      have e3 : i32.fits (b / a * y) = true := by
        apply (fits_i32 _).2; rw [hky]; constructor <;> rcases hs with rfl | rfl <;> nlinarith
      have hx' : x - b / a * y = -s * (X + b / a * Y) := by rw [hx, hy]; ring
      have e4 : i32.fits (x - b / a * y) = true := by
        apply (fits_i32 _).2; rw [hx']; constructor <;> rcases hs with rfl | rfl <;> nlinarith
      simp only [e0, e1, e2, e3, e4, not_true_eq_false, if_false]
      rw [hmod]
      have hgcd : Int.gcd (b % a) a = Int.gcd a b := by
        rw [← hmod, show b - b / a * a = b + (-(b / a)) * a by ring, Int.gcd_add_mul_right_left,
          Int.gcd_comm]
      obtain ⟨ty, hty⟩ := hya
      obtain ⟨tx, htx⟩ := hxb
      have c1 : (-s = 1 ∨ -s = -1) := by rcases hs with rfl | rfl <;> simp
      have c2 : y = -(-s) * Y := by rw [hy]; ring
      have c3 : x - b / a * y = -s * (X + b / a * Y) := hx'
      have c4 : 0 ≤ X + b / a * Y := by nlinarith
      have c5 : b % a < 2 ^ 31 := lt_trans hmodlt ha31
      have c6 : b % a * Y + a * (X + b / a * Y) = M := by linear_combination hY'
      have c7 : ∃ t, (x - b / a * y) * v - b % a = t * M := ⟨tx - b / a * ty, by rw [← hmod]; linear_combination htx - (b / a) * hty⟩
      have c8 : (b % a).toNat < n := by
        have h1 : (b % a).toNat < a.toNat := (Int.toNat_lt_toNat hapos).mpr hmodlt
        exact lt_of_lt_of_le h1 (Nat.lt_succ_iff.mp hf)
      obtain ⟨r, hr, ⟨t, ht⟩, hr1, hr2⟩ := ih (b % a) a y (x - b / a * y) Y (X + b / a * Y) (-s)
        c1 c2 c3 hY c4 hYM hY'M hmod0 ha ha31 c5 c6 c7 ⟨ty, hty⟩ c8
      exact ⟨r, hr, ⟨t, by rw [← hgcd]; exact ht⟩, hr1, hr2⟩

/-- `inv`: the `i32` loop never overflows, terminates, and the reduced result is a canonical
    Bézout inverse. -/
theorem inv_eq (M a : Int) (hM : 2 ≤ M) (hM2 : M < 2 ^ 31) (ha : R M a) :
    ∃ r, inv M a = .ok r ∧ R M r ∧ (r * a) % M = (Int.gcd a M : Int) % M := by
  obtain ⟨ha0, ha1⟩ := ha
  obtain ⟨r0, hr0, ⟨t, ht⟩, _, _⟩ := invLoop_spec M a hM2 (a.toNat + 1) a M 0 1 0 1 1 (Or.inl rfl) (by ring) (by ring)
    (le_refl _) (by omega) (by omega) (by omega) ha0 (by omega) hM2 (by omega) (by ring) ⟨0, by ring⟩ ⟨-1, by ring⟩ (by omega)
  refine ⟨r0 % M, ?_, R_red (by omega) r0, ?_⟩
  · unfold inv
    rw [wrapS32_id (by omega) (by omega), wrapS32_id (z := M) (by omega) (by omega), hr0]
    simp only [ok_bind]
    exact new_eq M r0 hM hM2
  · rw [Int.mul_emod, Int.emod_emod, ← Int.mul_emod]
    have : r0 * a = (Int.gcd a M : Int) + t * M := by linarith
    rw [this, Int.add_mul_emod_self_right]

theorem div_eq (M x y : Int) (hM : 2 ≤ M) (hM2 : M < 2 ^ 31) (hx : R M x) (hy : R M y) :
    ∃ z, div M x y = .ok z ∧ R M z ∧ (z * y) % M = (x * (Int.gcd y M : Int)) % M := by
  obtain ⟨r, hr, hrR, hrb⟩ := inv_eq M y hM hM2 hy
  refine ⟨(x * r) % M, ?_, R_red (by omega) _, ?_⟩
  · unfold div
    rw [hr]
    simp only [ok_bind]
    exact mul_eq M x r hM hM2 hx hrR
  · rw [Int.mul_emod, Int.emod_emod, ← Int.mul_emod, Int.mul_assoc, Int.mul_emod, hrb, ← Int.mul_emod]

/-! ### Wave 3: the independent inverse spec, and one step of a history -/

theorem mul_emod_r (x y M : Int) : (x * (y % M)) % M = (x * y) % M := by
  rw [Int.mul_emod, Int.emod_emod, ← Int.mul_emod]

theorem mul_emod_l (x y M : Int) : ((x % M) * y) % M = (x * y) % M := by
  rw [Int.mul_emod, Int.emod_emod, ← Int.mul_emod]

theorem bez_spec (a b : Nat) :
    (a : Int) * (bez a b).1 + (b : Int) * (bez a b).2 = (Nat.gcd a b : Int) := by
  induction a using Nat.strong_induction_on generalizing b with
  | _ a ih =>
    rw [bez]
    split
    · next h => subst h; simp
    · next h =>
      have hrec := ih (b % a) (Nat.mod_lt _ (by omega)) a
      have hb : (b : Int) = ((b % a : Nat) : Int) + (a : Int) * ((b / a : Nat) : Int) := by
        exact_mod_cast (Nat.mod_add_div b a).symm
      rw [Nat.gcd_rec a b, ← hrec]
      simp only
      generalize bez (b % a) a = p
      linear_combination (p.1) * hb

/-- the spec inverse is a canonical inverse for operands coprime to `M` -/
theorem specInv_spec (M a : Int) (hM : 0 < M) (ha : 0 ≤ a) (hg : Int.gcd a M = 1) :
    R M (specInv M a) ∧ (specInv M a * a) % M = 1 % M := by
  refine ⟨R_red hM _, ?_⟩
  have h := bez_spec a.toNat M.toNat
  have e1 : ((a.toNat : Nat) : Int) = a := Int.toNat_of_nonneg ha
  have e2 : ((M.toNat : Nat) : Int) = M := Int.toNat_of_nonneg (by omega)
  have e3 : Nat.gcd a.toNat M.toNat = 1 := by
    have : Int.gcd a M = Nat.gcd a.natAbs M.natAbs := rfl
    rw [this] at hg
    have ea : a.toNat = a.natAbs := by omega
    have eM : M.toNat = M.natAbs := by omega
    rw [ea, eM]; exact hg
  rw [e1, e2, e3] at h
  unfold specInv red
  rw [mul_emod_l]
  have : (bez a.toNat M.toNat).1 * a = 1 + (-(bez a.toNat M.toNat).2) * M := by
    have h' : a * (bez a.toNat M.toNat).1 + M * (bez a.toNat M.toNat).2 = 1 := by exact_mod_cast h
    linear_combination h'
  rw [this, Int.add_mul_emod_self_right]

/-- a canonical inverse is unique -/
theorem inv_unique (M a r s : Int) (hr : R M r) (hs : R M s)
    (h1 : (r * a) % M = 1 % M) (h2 : (s * a) % M = 1 % M) : r = s := by
  have e : r % M = s % M := by
    calc r % M = (r * 1) % M := by rw [Int.mul_one]
      _ = (r * (1 % M)) % M := (mul_emod_r r 1 M).symm
      _ = (r * ((s * a) % M)) % M := by rw [h2]
      _ = (r * (s * a)) % M := mul_emod_r r (s * a) M
      _ = (s * (r * a)) % M := by congr 1; ring
      _ = (s * ((r * a) % M)) % M := (mul_emod_r s (r * a) M).symm
      _ = (s * (1 % M)) % M := by rw [h1]
      _ = (s * 1) % M := mul_emod_r s 1 M
      _ = s % M := by rw [Int.mul_one]
  rwa [Int.emod_eq_of_lt hr.1 hr.2, Int.emod_eq_of_lt hs.1 hs.2] at e

/-- for an operand coprime to `M` the `i32` loop returns exactly the spec inverse -/
theorem inv_eq_specInv (M a : Int) (hM : 2 ≤ M) (hM2 : M < 2 ^ 31) (ha : R M a) (hg : Int.gcd a M = 1) :
    inv M a = .ok (specInv M a) := by
  obtain ⟨r, hr, hrR, hb⟩ := inv_eq M a hM hM2 ha
  obtain ⟨hsR, hs⟩ := specInv_spec M a (by omega) ha.1 hg
  rw [hg] at hb
  rw [hr, inv_unique M a r (specInv M a) hrR hsR hb hs]

theorem div_eq_specInv (M x y : Int) (hM : 2 ≤ M) (hM2 : M < 2 ^ 31) (hx : R M x) (hy : R M y)
    (hg : Int.gcd y M = 1) : div M x y = .ok ((x * specInv M y) % M) := by
  unfold div
  rw [inv_eq_specInv M y hM hM2 hy hg]
  simp only [ok_bind]
  exact mul_eq M x _ hM hM2 hx (specInv_spec M y (by omega) hy.1 hg).1

/-- one step of a history: inside the domain the model's step is the spec's step, and canonical -/
theorem step_eq (M acc : Int) (op : Op) (hM : 2 ≤ M) (hM2 : M < 2 ^ 31) (ha : R M acc)
    (hd : op.dom M acc = true) :
    op.stepM M acc = .ok (op.stepS M acc) ∧ R M (op.stepS M acc) := by
  have hpos : 0 < M := by omega
  have rr : ∀ z, R M (z % M) := fun z => R_red hpos z
  cases op with
  | add v => exact ⟨by simp only [Op.stepM, Op.stepS, red, new_eq M _ hM hM2, ok_bind]; rw [add_eq M _ _ hM hM2 ha (rr v), Int.add_emod_emod], rr _⟩
  | sub v => exact ⟨by simp only [Op.stepM, Op.stepS, red, new_eq M _ hM hM2, ok_bind]; rw [sub_eq M _ _ hM hM2 ha (rr v), Int.sub_emod_emod], rr _⟩
  | rsub v => exact ⟨by simp only [Op.stepM, Op.stepS, red, new_eq M _ hM hM2, ok_bind]; rw [sub_eq M _ _ hM hM2 (rr v) ha, Int.emod_sub_emod], rr _⟩
  | mul v => exact ⟨by simp only [Op.stepM, Op.stepS, red, new_eq M _ hM hM2, ok_bind]; rw [mul_eq M _ _ hM hM2 ha (rr v), mul_emod_r], rr _⟩
  | div v =>
    have hg : Int.gcd (v % M) M = 1 := by simpa [Op.dom, red] using hd
    exact ⟨by simp only [Op.stepM, Op.stepS, red, new_eq M _ hM hM2, ok_bind]; rw [div_eq_specInv M _ _ hM hM2 ha (rr v) hg], rr _⟩
  | rdiv v =>
    have hg : Int.gcd acc M = 1 := by simpa [Op.dom] using hd
    exact ⟨by simp only [Op.stepM, Op.stepS, red, new_eq M _ hM hM2, ok_bind]; rw [div_eq_specInv M _ _ hM hM2 (rr v) ha hg, mul_emod_l], rr _⟩
  | neg => exact ⟨by simp only [Op.stepM, Op.stepS, red]; exact neg_eq M acc hM hM2 ha, rr _⟩
  | inv =>
    have hg : Int.gcd acc M = 1 := by simpa [Op.dom] using hd
    exact ⟨inv_eq_specInv M acc hM hM2 ha hg, (specInv_spec M acc hpos ha.1 hg).1⟩
  | pow d =>
    refine ⟨?_, ?_⟩
    · simp only [Op.stepM, Op.stepS]
      unfold pow
      rw [powLoop_eq M hM hM2 d 1 acc ⟨by omega, by omega⟩ ha, Int.one_mul, specPow_eq]
    · simp only [Op.stepS]; rw [specPow_eq]; exact rr _
  | sq => exact ⟨mul_eq M acc acc hM hM2 ha ha, rr _⟩
  | dbl => exact ⟨add_eq M acc acc hM hM2 ha ha, rr _⟩
  | selfsub => exact ⟨by simp only [Op.stepM, Op.stepS]; rw [sub_eq M acc acc hM hM2 ha ha]; simp, ⟨le_refl _, hpos⟩⟩
  | selfdiv =>
    have hg : Int.gcd acc M = 1 := by simpa [Op.dom] using hd
    exact ⟨div_eq_specInv M acc acc hM hM2 ha ha hg, rr _⟩
  | ident => exact ⟨rfl, ha⟩
  | renew => exact ⟨new_eq M acc hM hM2, rr _⟩
  | zero => exact ⟨rfl, ⟨le_refl _, hpos⟩⟩
  | one => exact ⟨by simp only [Op.stepM, Op.stepS, red, one]; rw [Int.emod_eq_of_lt (by omega) (by omega)], rr _⟩
  | eqv v =>
    refine ⟨?_, R_red hpos _⟩
    have hn : new M v = .ok (red M v) := new_eq M v hM hM2
    simp only [Op.stepM, Op.stepS, hn, ok_bind, eq, one, zero]
    by_cases h : acc = red M v
    · have hb : (acc == red M v) = true := by simpa using h
      rw [if_pos h]
      simp only [hb, if_true]
      exact add_eq M acc 1 hM hM2 ha ⟨by omega, by omega⟩
    · have hb : (acc == red M v) = false := by simpa using h
      rw [if_neg h]
      simp only [hb, Bool.false_eq_true, if_false]
      exact add_eq M acc 0 hM hM2 ha ⟨le_refl _, hpos⟩

end Rlib.Mint
