import RlibModel.Lemmas.ReaderDecimal
/-!
C08 lemmas, part 5: inside the property's domain (`validIntTok`) the specification returns the positional
value of the token (`tokValue`, defined without `digitStep`) and never panics.
-/
set_option linter.unusedSimpArgs false
namespace Rlib.Reader

def digitF (a : Nat) (c : UInt8) : Nat := a * 10 + (c.toNat - 48)

theorem decVal_eq (ds : List UInt8) : decVal ds = ds.foldl digitF 0 := rfl

theorem foldl_digitF_ge : ∀ (ds : List UInt8) (a : Nat), a ≤ ds.foldl digitF a := by
  intro ds
  induction ds with
  | nil => intro a; exact Nat.le_refl _
  | cons c r ih =>
    intro a
    simp only [List.foldl_cons]
    have := ih (digitF a c)
    have h2 : a ≤ digitF a c := by unfold digitF; omega
    omega

theorem isDigit_facts (c : UInt8) (h : (48 ≤ c && c ≤ 57) = true) :
    ¬ (c < 48) ∧ c.toNat - 48 < 10 := by
  simp only [Bool.and_eq_true, decide_eq_true_eq] at h
  have h1 : (48 : UInt8).toNat ≤ c.toNat := UInt8.le_iff_toNat_le.mp h.1
  have h2 : c.toNat ≤ (57 : UInt8).toNat := UInt8.le_iff_toNat_le.mp h.2
  have e1 : (48 : UInt8).toNat = 48 := rfl
  have e2 : (57 : UInt8).toNat = 57 := rfl
  refine ⟨?_, by omega⟩
  intro hlt
  have := UInt8.lt_iff_toNat_lt.mp hlt
  omega

/-- The checked digit loop started at `±a` over digits `ds` yields `±(foldl digitF a ds)` when that fits. -/
theorem foldE_digits (t : IntTy) (h8 : 8 ≤ t.bits) (neg : Bool) : ∀ (ds : List UInt8) (a : Nat),
    (ds.all (fun c => 48 ≤ c && c ≤ 57)) = true →
    t.fits (if neg then -((ds.foldl digitF a : Nat) : Int) else ((ds.foldl digitF a : Nat) : Int)) = true →
    foldE (digitStep t neg) (if neg then -(a : Int) else (a : Int)) ds
      = .ok (if neg then -((ds.foldl digitF a : Nat) : Int) else ((ds.foldl digitF a : Nat) : Int)) := by
  have hmin := IntTy.min_le_zero t
  have hmax := IntTy.zero_le_max t
  intro ds
  induction ds with
  | nil => intro a _ _; rfl
  | cons c r ih =>
    intro a hall hfit
    rw [List.all_cons, Bool.and_eq_true] at hall
    obtain ⟨g2, g3⟩ := isDigit_facts c hall.1
    simp only [List.foldl_cons] at hfit ⊢
    have hge := foldl_digitF_ge r (digitF a c)
    have hf := (fits_iff t _).mp hfit
    have hd : digitF a c = a * 10 + (c.toNat - 48) := rfl
    have hten : t.fits ((if neg then -(a : Int) else (a : Int)) * 10) = true := by
      apply (fits_iff t _).mpr
      cases neg
      · simp only [Bool.false_eq_true, if_false] at hf ⊢; omega
      · simp only [if_true] at hf ⊢; omega
    have hnext : t.fits (if neg then -((digitF a c : Nat) : Int) else ((digitF a c : Nat) : Int)) = true := by
      apply (fits_iff t _).mpr
      cases neg
      · simp only [Bool.false_eq_true, if_false] at hf ⊢; omega
      · simp only [if_true] at hf ⊢; omega
    have hstep : digitStep t neg (if neg then -(a : Int) else (a : Int)) c
        = .ok (if neg then -((digitF a c : Nat) : Int) else ((digitF a c : Nat) : Int)) := by
      simp only [digitStep, checked, hten, if_true, g2, if_false, wrap_digit t h8 (c.toNat - 48) g3]
      cases neg
      · simp only [Bool.false_eq_true, if_false] at hnext ⊢
        have : (a : Int) * 10 + ((c.toNat - 48 : Nat) : Int) = ((digitF a c : Nat) : Int) := by rw [hd]; omega
        rw [this, hnext]; rfl
      · simp only [if_true] at hnext ⊢
        have : -(a : Int) * 10 - ((c.toNat - 48 : Nat) : Int) = -((digitF a c : Nat) : Int) := by rw [hd]; omega
        rw [this, hnext]; rfl
    simp only [foldE, hstep]
    exact ih (digitF a c) hall.2 hfit

theorem specTok_cons_nonws (c : UInt8) (r : List UInt8) (h : isWs c = false) :
    specTok (c :: r) = (c :: (specTok r).1, (specTok r).2) := by
  simp [specTok, List.takeWhile_cons, List.dropWhile_cons, h]

/-- **in_domain_int**: when the next token is a valid decimal rendering in range of `t`, `read::<t>()` is specified
    to return its positional value (and not to panic), leaving what follows the token. -/
theorem specInt_valid (t : IntTy) (h8 : 8 ≤ t.bits) (rest : List UInt8)
    (hv : validIntTok t (specString rest).1 = true) :
    specInt t rest = .ok (tokValue (specString rest).1, (specString rest).2) := by
  simp only [specString] at hv ⊢
  generalize hr1 : specSkipWs rest = r1 at hv ⊢
  simp only [specInt, hr1]
  cases r1 with
  | nil => simp [specTok, validIntTok, allDigits] at hv
  | cons c r =>
    by_cases h45 : c = 45
    · subst h45
      have hws : isWs 45 = false := by decide
      rw [specTok_cons_nonws 45 r hws] at hv ⊢
      simp only [validIntTok, Bool.and_eq_true, allDigits] at hv
      obtain ⟨⟨hsg, _, hall⟩, hfit⟩ := hv
      have := foldE_digits t h8 true (specTok r).1 0 hall (by simpa [decVal_eq] using hfit)
      simp only [hsg, List.head?_cons, Bool.true_and, beq_self_eq_true, if_true, List.tail_cons, specFoldTok, tokValue]
      simp only [Int.natCast_zero, Int.neg_zero, if_true] at this
      rw [this]; simp [decVal_eq]
    · have hb : (c == 45) = false := by simp [h45]
      have hneg : (t.signed && (c :: r).head? == some 45) = false := by simp [h45]
      simp only [hneg, Bool.false_eq_true, if_false, specFoldTok]
      have hv' : (allDigits (specTok (c :: r)).1 && t.fits (decVal (specTok (c :: r)).1 : Int)) = true := by
        cases htk : (specTok (c :: r)).1 with
        | nil => rw [htk] at hv; simp [validIntTok, allDigits] at hv
        | cons x y =>
          rw [htk] at hv
          by_cases hx : x = 45
          · -- the token starts with the first byte `c` of the remaining bytes, which is not `-`
            exfalso
            simp only [specTok, List.takeWhile_cons] at htk
            split at htk
            · simp only [List.cons.injEq] at htk; exact h45 (htk.1.trans hx)
            · cases htk
          · unfold validIntTok at hv
            split at hv
            · rename_i ds heq; simp only [List.cons.injEq] at heq; exact absurd heq.1 hx
            · exact hv
      simp only [Bool.and_eq_true, allDigits] at hv'
      obtain ⟨⟨_, hall⟩, hfit⟩ := hv'
      have := foldE_digits t h8 false (specTok (c :: r)).1 0 hall (by simpa [decVal_eq] using hfit)
      simp only [Bool.false_eq_true, if_false, Int.natCast_zero] at this
      rw [this]
      have htv : tokValue (specTok (c :: r)).1 = (decVal (specTok (c :: r)).1 : Int) := by
        cases htk : (specTok (c :: r)).1 with
        | nil => rfl
        | cons x y =>
          have hx : x ≠ 45 := by
            intro hx
            simp only [specTok, List.takeWhile_cons] at htk
            split at htk
            · simp only [List.cons.injEq] at htk; exact h45 (htk.1.trans hx)
            · cases htk
          unfold tokValue
          split
          · rename_i ds heq; simp only [List.cons.injEq] at heq; exact absurd heq.1 hx
          · rfl
      rw [htv]; simp [decVal_eq]

/-- Integer types of the library have at least 8 bits. -/
def atomBits8 : Atom → Prop
  | .int t => 8 ≤ t.bits
  | _ => True

/-- Inside the domain every atom read is specified (not `undef`) and does not panic; integers get the
    positional value of their token. -/
theorem specAtom_inDom (a : Atom) (rest : List UInt8) (h8 : atomBits8 a) (hd : inDomAtom a rest = true) :
    ∃ v r, specAtom a rest = some (.ok (v, r)) ∧
      (∀ t, a = .int t → v = .int (tokValue (specString rest).1)) := by
  cases a with
  | int t =>
    have := specInt_valid t h8 rest hd
    refine ⟨.int (tokValue (specString rest).1), (specString rest).2, ?_, ?_⟩
    · simp [specAtom, this]
    · intro t' _; rfl
  | str => exact ⟨_, _, rfl, by intro t h; cases h⟩
  | chr =>
    simp only [inDomAtom] at hd
    cases hh : specSkipWs rest with
    | nil => rw [hh] at hd; simp at hd
    | cons c r => exact ⟨.chr c, r, by simp [specAtom, specChar, hh], by intro t h; cases h⟩

end Rlib.Reader
