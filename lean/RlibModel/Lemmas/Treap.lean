import RlibModel.Model.Treap
/-!
Helper lemmas for C03: what `push` / `update` do as seen through `seq`, the well-formedness
invariant `WFt` (stored size and stored aggregate are the length / fold of the represented
sequence at every node), and the sequence-level meaning of every model function.
Ported from `spikes/TreapSeq.lean` (`merge_seq`, `splitAt_spec`) and extended with aggregates.
-/
namespace Rlib.Treap
variable {T E G M V : Type} (I : TItem T E G M V)

/-! ### folds -/

@[simp] theorem foldG_nil : foldG I [] = I.one := rfl
@[simp] theorem foldG_cons (e : E) (es : List E) : foldG I (e :: es) = I.mul (I.inj e) (foldG I es) := rfl

theorem foldG_append (hI : Lawful I) (A B : List E) : foldG I (A ++ B) = I.mul (foldG I A) (foldG I B) := by
  induction A with
  | nil => simp [hI.one_mul]
  | cons a A ih => simp [ih, hI.mul_assoc]

theorem foldG_map_pa (hI : Lawful I) (x : T) (es : List E) : I.paG x (foldG I es) = foldG I (es.map (I.pa x)) := by
  induction es with
  | nil => simp [hI.paG_one]
  | cons e es ih => simp [hI.paG_mul, hI.paG_inj, ih]

theorem foldG_map_act (hI : Lawful I) (m : M) (es : List E) : I.actG m (foldG I es) = foldG I (es.map (I.act m)) := by
  induction es with
  | nil => simp [hI.actG_one]
  | cons e es ih => simp [hI.actG_mul, hI.actG_inj, ih]

/-! ### `seq` under push / update -/

theorem seq_node_id (it : T) (p : Nat) (l r : Tree T) (hid : ∀ a, I.pa it a = a) :
    seq I (.node it p l r) = seq I l ++ I.own it :: seq I r := by
  have : I.pa it = id := funext hid
  simp [seq, this]

theorem seq_length (t : Tree T) : (seq I t).length = t.count := by
  induction t with
  | nil => rfl
  | node it p l r ihl ihr => simp [seq, Tree.count, ihl, ihr]; omega

/-- what `push` does to the left child, as seen through `seq` -/
theorem seq_pushed_left (hI : Lawful I) (it : T) (l : Tree T) (ro : Option T) :
    seq I (l.setItem? (I.push it l.item? ro).2.1) = (seq I l).map (I.pa it) := by
  cases l with
  | nil => simp [Tree.setItem?, seq]
  | node il pl ll rl =>
    obtain ⟨l', e, h1, h2, _⟩ := hI.push_l it il ro
    simp only [Tree.item?, e, Tree.setItem?, seq, h1, List.map_append, List.map_cons, List.map_map]
    congr 1
    · apply List.map_congr_left; intro a _; simp [h2]
    · congr 1; apply List.map_congr_left; intro a _; simp [h2]

theorem seq_pushed_right (hI : Lawful I) (it : T) (r : Tree T) (lo : Option T) :
    seq I (r.setItem? (I.push it lo r.item?).2.2) = (seq I r).map (I.pa it) := by
  cases r with
  | nil => simp [Tree.setItem?, seq]
  | node ir pr lr rr =>
    obtain ⟨r', e, h1, h2, _⟩ := hI.push_r it lo ir
    simp only [Tree.item?, e, Tree.setItem?, seq, h1, List.map_append, List.map_cons, List.map_map]
    congr 1
    · apply List.map_congr_left; intro a _; simp [h2]
    · congr 1; apply List.map_congr_left; intro a _; simp [h2]

theorem pushParts_seq (hI : Lawful I) (it : T) (p : Nat) (l r : Tree T) :
    seq I (.node it p l r) =
      seq I (pushParts I it l r).2.1 ++ I.own (pushParts I it l r).1 :: seq I (pushParts I it l r).2.2 := by
  simp only [pushParts, seq_pushed_left I hI, seq_pushed_right I hI, hI.push_own0, seq]

theorem pushParts_pa (hI : Lawful I) (it : T) (l r : Tree T) : ∀ a, I.pa (pushParts I it l r).1 a = a := by
  intro a; simp [pushParts, hI.push_pa0]

@[simp] theorem pushParts_count_l (it : T) (l r : Tree T) : (pushParts I it l r).2.1.count = l.count := by
  simp [pushParts]
@[simp] theorem pushParts_count_r (it : T) (l r : Tree T) : (pushParts I it l r).2.2.count = r.count := by
  simp [pushParts]

theorem upd_seq (hI : Lawful I) (it : T) (p : Nat) (l r : Tree T) (hid : ∀ a, I.pa it a = a) :
    seq I (upd I it p l r) = seq I l ++ I.own it :: seq I r := by
  unfold upd
  rw [seq_node_id I _ _ _ _ (by intro a; rw [hI.update_pa]; exact hid a), hI.update_own]

/-- the node as `push` leaves it (no `update`): same sequence -/
theorem pushed_node_seq (hI : Lawful I) (it : T) (p : Nat) (l r : Tree T) (l' r' : Tree T)
    (hl : seq I l' = seq I (pushParts I it l r).2.1) (hr : seq I r' = seq I (pushParts I it l r).2.2) :
    seq I (.node (pushParts I it l r).1 p l' r') = seq I (.node it p l r) := by
  rw [seq_node_id I _ _ _ _ (pushParts_pa I hI it l r), hl, hr, ← pushParts_seq I hI]

/-! ### well-formedness -/

/-- at every node the stored size is the number of nodes below it and the stored aggregate is the
    fold of the sequence the node represents -/
def WFt : Tree T → Prop
  | .nil => True
  | .node it p l r => WFt l ∧ WFt r ∧ I.sz it = (Tree.node it p l r).count ∧
      I.agg it = foldG I (seq I (.node it p l r))

theorem item_sz (t : Tree T) (h : WFt I t) : (t.item?.map I.sz).getD 0 = t.count := by
  cases t with
  | nil => rfl
  | node it p l r => simpa [Tree.item?] using h.2.2.1

theorem item_agg (t : Tree T) (h : WFt I t) : (t.item?.map I.agg).getD I.one = foldG I (seq I t) := by
  cases t with
  | nil => rfl
  | node it p l r => simpa [Tree.item?] using h.2.2.2

theorem size_eq (t : Tree T) (h : WFt I t) : size I t = (seq I t).length := by
  rw [seq_length]; exact item_sz I t h

theorem WFt_single (hI : Lawful I) (v : V) (p : Nat) : WFt I (single (I.new v) p) := by
  refine ⟨trivial, trivial, ?_, ?_⟩
  · simp [hI.new_sz, Tree.count]
  · simp [hI.new_agg, seq, hI.mul_one]

theorem WFt_pushed_left (hI : Lawful I) (it : T) (l : Tree T) (ro : Option T) (h : WFt I l) :
    WFt I (l.setItem? (I.push it l.item? ro).2.1) := by
  cases l with
  | nil => simp [Tree.setItem?, WFt]
  | node il pl ll rl =>
    have hs := seq_pushed_left I hI it (.node il pl ll rl) ro
    obtain ⟨l', e, _, _, h3, h4⟩ := hI.push_l it il ro
    simp only [Tree.item?, e, Tree.setItem?] at hs ⊢
    refine ⟨h.1, h.2.1, by rw [h3]; exact h.2.2.1, ?_⟩
    rw [hs, h4, h.2.2.2, foldG_map_pa I hI]

theorem WFt_pushed_right (hI : Lawful I) (it : T) (r : Tree T) (lo : Option T) (h : WFt I r) :
    WFt I (r.setItem? (I.push it lo r.item?).2.2) := by
  cases r with
  | nil => simp [Tree.setItem?, WFt]
  | node ir pr lr rr =>
    have hs := seq_pushed_right I hI it (.node ir pr lr rr) lo
    obtain ⟨r', e, _, _, h3, h4⟩ := hI.push_r it lo ir
    simp only [Tree.item?, e, Tree.setItem?] at hs ⊢
    refine ⟨h.1, h.2.1, by rw [h3]; exact h.2.2.1, ?_⟩
    rw [hs, h4, h.2.2.2, foldG_map_pa I hI]

theorem WFt_pushParts_l (hI : Lawful I) (it : T) (l r : Tree T) (h : WFt I l) : WFt I (pushParts I it l r).2.1 :=
  WFt_pushed_left I hI it l _ h
theorem WFt_pushParts_r (hI : Lawful I) (it : T) (l r : Tree T) (h : WFt I r) : WFt I (pushParts I it l r).2.2 :=
  WFt_pushed_right I hI it r _ h

theorem WFt_upd (hI : Lawful I) (it : T) (p : Nat) (l r : Tree T) (hid : ∀ a, I.pa it a = a)
    (hl : WFt I l) (hr : WFt I r) : WFt I (upd I it p l r) := by
  have hs := upd_seq I hI it p l r hid
  unfold upd at hs ⊢
  refine ⟨hl, hr, ?_, ?_⟩
  · rw [hI.update_sz, item_sz I l hl, item_sz I r hr]; rfl
  · rw [hs, hI.update_agg, item_agg I l hl, item_agg I r hr, foldG_append I hI, foldG_cons]

/-- the node as `push` leaves it is still well-formed when nothing else changed below -/
theorem WFt_pushed_node (hI : Lawful I) (it : T) (p : Nat) (l r l' r' : Tree T)
    (h : WFt I (.node it p l r))
    (hl : WFt I l') (hr : WFt I r')
    (hsl : seq I l' = seq I (pushParts I it l r).2.1) (hsr : seq I r' = seq I (pushParts I it l r).2.2) :
    WFt I (.node (pushParts I it l r).1 p l' r') := by
  have hs := pushed_node_seq I hI it p l r l' r' hsl hsr
  refine ⟨hl, hr, ?_, ?_⟩
  · have h1 : I.sz (pushParts I it l r).1 = I.sz it := by simp [pushParts, hI.push_sz0]
    have hc : l'.count = l.count := by rw [← seq_length I, hsl, seq_length]; simp
    have hc' : r'.count = r.count := by rw [← seq_length I, hsr, seq_length]; simp
    rw [h1, h.2.2.1]; simp [Tree.count, hc, hc']
  · have h1 : I.agg (pushParts I it l r).1 = I.agg it := by simp [pushParts, hI.push_agg0]
    rw [h1, hs, h.2.2.2]

/-! ### merge -/

/-- merge concatenates — for every assignment of priorities (no well-formedness needed) -/
theorem merge_seq' (hI : Lawful I) (a b : Tree T) : seq I (merge I a b) = seq I a ++ seq I b := by
  fun_induction merge I a b with
  | case1 b => simp [seq]
  | case2 a _ => simp [seq]
  | case3 ia pa_ la ra ib pb lb rb hlt q ih =>
    rw [upd_seq I hI _ _ _ _ (pushParts_pa I hI ia la ra), ih, pushParts_seq I hI ia pa_ la ra]
    simp [q]
  | case4 ia pa_ la ra ib pb lb rb hlt q ih =>
    rw [upd_seq I hI _ _ _ _ (pushParts_pa I hI ib lb rb), ih, pushParts_seq I hI ib pb lb rb]
    simp [q]

theorem merge_WFt (hI : Lawful I) (a b : Tree T) (ha : WFt I a) (hb : WFt I b) : WFt I (merge I a b) := by
  fun_induction merge I a b with
  | case1 b => exact hb
  | case2 a _ => exact ha
  | case3 ia pa_ la ra ib pb lb rb hlt q ih =>
    exact WFt_upd I hI _ _ _ _ (pushParts_pa I hI ia la ra) (WFt_pushParts_l I hI ia la ra ha.1)
      (ih (WFt_pushParts_r I hI ia la ra ha.2.1) hb)
  | case4 ia pa_ la ra ib pb lb rb hlt q ih =>
    exact WFt_upd I hI _ _ _ _ (pushParts_pa I hI ib lb rb) (ih ha (WFt_pushParts_l I hI ib lb rb hb.1))
      (WFt_pushParts_r I hI ib lb rb hb.2.1)

/-! ### split_at -/

theorem take_mid (A B : List E) (x : E) (pos k : Nat) (h : pos = A.length + 1 + k) :
    (A ++ x :: B).take pos = A ++ x :: B.take k := by
  subst h
  rw [List.take_append, List.take_of_length_le (l := A) (by omega),
    show A.length + 1 + k - A.length = k + 1 by omega, List.take_succ_cons]

theorem drop_mid (A B : List E) (x : E) (pos k : Nat) (h : pos = A.length + 1 + k) :
    (A ++ x :: B).drop pos = B.drop k := by
  subst h
  rw [List.drop_append, List.drop_eq_nil_of_le (as := A) (by omega),
    show A.length + 1 + k - A.length = k + 1 by omega, List.drop_succ_cons, List.nil_append]

/-- `split_at` is `take` / `drop` for **every** position (past the end everything goes left),
    and both parts are well-formed again -/
theorem splitAt_spec (hI : Lawful I) (t : Tree T) (pos : Nat) (h : WFt I t) :
    seq I (splitAt I t pos).1 = (seq I t).take pos ∧ seq I (splitAt I t pos).2 = (seq I t).drop pos ∧
    WFt I (splitAt I t pos).1 ∧ WFt I (splitAt I t pos).2 := by
  fun_induction splitAt I t pos with
  | case1 pos => simp [seq, WFt]
  | case2 pos it p l r q lsz hgt s ih =>
    have hwl : WFt I q.2.1 := WFt_pushParts_l I hI it l r h.1
    have hwr : WFt I q.2.2 := WFt_pushParts_r I hI it l r h.2.1
    have hlsz : lsz = l.count := by
      simp only [lsz]; rw [item_sz I _ hwl]; simp [q]
    have hcl : (seq I q.2.1).length = l.count := by rw [seq_length]; simp [q]
    obtain ⟨i1, i2, i3, i4⟩ := ih hwr
    rw [pushParts_seq I hI it p l r]
    refine ⟨?_, ?_, WFt_upd I hI _ _ _ _ (pushParts_pa I hI it l r) hwl i3, i4⟩
    · rw [upd_seq I hI _ _ _ _ (pushParts_pa I hI it l r), i1,
        take_mid _ _ _ pos (pos - lsz - 1) (by rw [hcl]; omega)]
    · rw [i2, drop_mid _ _ _ pos (pos - lsz - 1) (by rw [hcl]; omega)]
  | case3 pos it p l r q lsz hle s ih =>
    have hwl : WFt I q.2.1 := WFt_pushParts_l I hI it l r h.1
    have hwr : WFt I q.2.2 := WFt_pushParts_r I hI it l r h.2.1
    have hlsz : lsz = l.count := by
      simp only [lsz]; rw [item_sz I _ hwl]; simp [q]
    have hcl : (seq I (pushParts I it l r).2.1).length = l.count := by rw [seq_length]; simp
    obtain ⟨i1, i2, i3, i4⟩ := ih hwl
    rw [pushParts_seq I hI it p l r]
    refine ⟨?_, ?_, i3, WFt_upd I hI _ _ _ _ (pushParts_pa I hI it l r) i4 hwr⟩
    · rw [i1, List.take_append_of_le_length (by rw [hcl]; omega)]
    · rw [upd_seq I hI _ _ _ _ (pushParts_pa I hI it l r), i2,
        List.drop_append_of_le_length (by rw [hcl]; omega)]

/-! ### split_by -/

/-- `g` is true on a prefix and false after it -/
def PrefixMono (g : E → Bool) (l : List E) : Prop := l.Pairwise (fun a b => g b = true → g a = true)

theorem prefixMonoB_iff (g : E → Bool) (l : List E) : prefixMonoB g l = true ↔ PrefixMono g l := by
  induction l with
  | nil => simp [prefixMonoB, PrefixMono]
  | cons x xs ih =>
    unfold PrefixMono at ih ⊢
    rw [List.pairwise_cons, ← ih]
    simp only [prefixMonoB, Bool.and_eq_true, Bool.or_eq_true, List.all_eq_true, Bool.not_eq_true']
    constructor
    · rintro ⟨h1, h2⟩
      refine ⟨fun b hb hgb => ?_, h2⟩
      rcases h1 with h1 | h1
      · exact h1
      · rw [h1 b hb] at hgb; cases hgb
    · rintro ⟨h1, h2⟩
      refine ⟨?_, h2⟩
      cases hx : g x with
      | true => exact Or.inl rfl
      | false =>
        right; intro b hb
        cases hb' : g b with
        | false => rfl
        | true => rw [h1 b hb hb'] at hx; cases hx

theorem takeWhile_stop (g : E → Bool) (A B : List E) (x : E) (hx : g x = false) :
    (A ++ x :: B).takeWhile g = A.takeWhile g := by
  induction A with
  | nil => simp [List.takeWhile, hx]
  | cons a A ih => simp only [List.cons_append, List.takeWhile_cons]; split <;> simp [ih]

theorem dropWhile_stop (g : E → Bool) (A B : List E) (x : E) (hx : g x = false)
    (hm : PrefixMono g (A ++ x :: B)) :
    (A ++ x :: B).dropWhile g = A.dropWhile g ++ x :: B := by
  induction A with
  | nil => simp [List.dropWhile, hx]
  | cons a A ih =>
    unfold PrefixMono at hm ih
    rw [List.cons_append, List.pairwise_cons] at hm
    simp only [List.cons_append, List.dropWhile_cons]
    split
    · exact ih hm.2
    · rfl

theorem splitBy_spec (hI : Lawful I) (g : E → Bool) (t : Tree T) (h : WFt I t)
    (hm : PrefixMono g (seq I t)) :
    seq I (splitBy I (fun it => g (I.own it)) t).1 = (seq I t).takeWhile g ∧
    seq I (splitBy I (fun it => g (I.own it)) t).2 = (seq I t).dropWhile g ∧
    WFt I (splitBy I (fun it => g (I.own it)) t).1 ∧ WFt I (splitBy I (fun it => g (I.own it)) t).2 := by
  fun_induction splitBy I (fun it => g (I.own it)) t with
  | case1 => simp [seq, WFt]
  | case2 it p l r q hg s ih =>
    have hwl : WFt I q.2.1 := WFt_pushParts_l I hI it l r h.1
    have hwr : WFt I q.2.2 := WFt_pushParts_r I hI it l r h.2.1
    rw [pushParts_seq I hI it p l r] at hm ⊢
    unfold PrefixMono at hm
    obtain ⟨_, hm2, hm3⟩ := List.pairwise_append.1 hm
    obtain ⟨i1, i2, i3, i4⟩ := ih hwr (List.pairwise_cons.1 hm2).2
    have hall : ∀ a ∈ seq I (pushParts I it l r).2.1 ++ [I.own (pushParts I it l r).1], g a = true := by
      intro a ha
      rcases List.mem_append.1 ha with ha | ha
      · exact hm3 a ha _ (List.mem_cons_self) hg
      · rw [List.mem_singleton.1 ha]; exact hg
    refine ⟨?_, ?_, WFt_upd I hI _ _ _ _ (pushParts_pa I hI it l r) hwl i3, i4⟩
    · rw [upd_seq I hI _ _ _ _ (pushParts_pa I hI it l r), i1]
      have := List.takeWhile_append_of_pos (p := g) (l₂ := seq I (pushParts I it l r).2.2) hall
      simpa using this.symm
    · rw [i2]
      have := List.dropWhile_append_of_pos (p := g) (l₂ := seq I (pushParts I it l r).2.2) hall
      simpa using this.symm
  | case3 it p l r q hg s ih =>
    have hg' : g (I.own (pushParts I it l r).1) = false := by simpa using hg
    have hwl : WFt I q.2.1 := WFt_pushParts_l I hI it l r h.1
    have hwr : WFt I q.2.2 := WFt_pushParts_r I hI it l r h.2.1
    rw [pushParts_seq I hI it p l r] at hm ⊢
    have hm' := hm
    unfold PrefixMono at hm
    obtain ⟨hm1, _, _⟩ := List.pairwise_append.1 hm
    obtain ⟨i1, i2, i3, i4⟩ := ih hwl hm1
    refine ⟨?_, ?_, i3, WFt_upd I hI _ _ _ _ (pushParts_pa I hI it l r) i4 hwr⟩
    · rw [i1, takeWhile_stop g _ _ _ hg']
    · rw [upd_seq I hI _ _ _ _ (pushParts_pa I hI it l r), i2, dropWhile_stop g _ _ _ hg' hm']

/-! ### first / last / collect -/

theorem first_spec' (hI : Lawful I) (t : Tree T) (h : WFt I t) :
    (first I t).1.map I.own = (seq I t).head? ∧ seq I (first I t).2 = seq I t ∧ WFt I (first I t).2 := by
  fun_induction first I t with
  | case1 => simp [seq, WFt]
  | case2 it p r =>
    refine ⟨?_, rfl, h⟩
    simp [seq]
  | case3 it p il pl ll rl r q s ih =>
    have hwl : WFt I q.2.1 := WFt_pushParts_l I hI it _ r h.1
    have hwr : WFt I q.2.2 := WFt_pushParts_r I hI it _ r h.2.1
    obtain ⟨i1, i2, i3⟩ := ih hwl
    refine ⟨?_, pushed_node_seq I hI it p _ r _ _ i2 rfl, WFt_pushed_node I hI it p _ r _ _ h i3 hwr i2 rfl⟩
    have hlen : (seq I (pushParts I it (.node il pl ll rl) r).2.1).length = ll.count + 1 + rl.count := by
      rw [seq_length]; simp [Tree.count]
    have i1' : Option.map I.own (first I (pushParts I it (.node il pl ll rl) r).2.1).1 =
        (seq I (pushParts I it (.node il pl ll rl) r).2.1).head? := i1
    show Option.map I.own (first I (pushParts I it (.node il pl ll rl) r).2.1).1 = _
    rw [i1', pushParts_seq I hI it p _ r, List.head?_append]
    generalize seq I (pushParts I it (.node il pl ll rl) r).2.1 = A at hlen ⊢
    cases A with
    | nil => simp only [List.length_nil] at hlen; omega
    | cons a as => simp

theorem last_spec' (hI : Lawful I) (t : Tree T) (h : WFt I t) :
    (last I t).1.map I.own = (seq I t).getLast? ∧ seq I (last I t).2 = seq I t ∧ WFt I (last I t).2 := by
  fun_induction last I t with
  | case1 => simp [seq, WFt]
  | case2 it p l =>
    refine ⟨?_, rfl, h⟩
    simp [seq, List.getLast?_append]
  | case3 it p l ir pr lr rr q s ih =>
    have hwl : WFt I q.2.1 := WFt_pushParts_l I hI it l _ h.1
    have hwr : WFt I q.2.2 := WFt_pushParts_r I hI it l _ h.2.1
    obtain ⟨i1, i2, i3⟩ := ih hwr
    refine ⟨?_, pushed_node_seq I hI it p l _ _ _ rfl i2, WFt_pushed_node I hI it p l _ _ _ h hwl i3 rfl i2⟩
    have hlen : (seq I (pushParts I it l (.node ir pr lr rr)).2.2).length = lr.count + 1 + rr.count := by
      rw [seq_length]; simp [Tree.count]
    have i1' : Option.map I.own (last I (pushParts I it l (.node ir pr lr rr)).2.2).1 =
        (seq I (pushParts I it l (.node ir pr lr rr)).2.2).getLast? := i1
    show Option.map I.own (last I (pushParts I it l (.node ir pr lr rr)).2.2).1 = _
    rw [i1', pushParts_seq I hI it p l _, List.getLast?_append]
    generalize seq I (pushParts I it l (.node ir pr lr rr)).2.2 = A at hlen ⊢
    cases A with
    | nil => simp only [List.length_nil] at hlen; omega
    | cons a as =>
      rw [List.getLast?_cons_cons]
      cases h' : (a :: as).getLast? with
      | none => simp at h'
      | some x => simp

theorem collect_spec' (hI : Lawful I) (t : Tree T) (h : WFt I t) :
    (collect I t).1.map I.own = seq I t ∧ seq I (collect I t).2 = seq I t ∧ WFt I (collect I t).2 := by
  fun_induction collect I t with
  | case1 => simp [seq, WFt]
  | case2 it p l r q a b iha ihb =>
    have hwl : WFt I q.2.1 := WFt_pushParts_l I hI it l r h.1
    have hwr : WFt I q.2.2 := WFt_pushParts_r I hI it l r h.2.1
    obtain ⟨a1, a2, a3⟩ := iha hwl
    obtain ⟨b1, b2, b3⟩ := ihb hwr
    refine ⟨?_, pushed_node_seq I hI it p l r _ _ a2 b2, WFt_pushed_node I hI it p l r _ _ h a3 b3 a2 b2⟩
    have a1' : List.map I.own (collect I (pushParts I it l r).2.1).1 = seq I (pushParts I it l r).2.1 := a1
    have b1' : List.map I.own (collect I (pushParts I it l r).2.2).1 = seq I (pushParts I it l r).2.2 := b1
    show List.map I.own ((collect I (pushParts I it l r).2.1).1 ++ (pushParts I it l r).1 :: (collect I (pushParts I it l r).2.2).1) = _
    rw [pushParts_seq I hI it p l r, List.map_append, List.map_cons, a1', b1']

/-! ### tagRoot, root aggregate -/

theorem tagRoot_spec (hI : Lawful I) (m : M) (t : Tree T) (h : WFt I t) :
    seq I (tagRoot I m t) = (seq I t).map (I.act m) ∧ WFt I (tagRoot I m t) := by
  cases t with
  | nil => simp [tagRoot, seq, WFt]
  | node it p l r =>
    have hs : seq I (tagRoot I m (.node it p l r)) = (seq I (.node it p l r)).map (I.act m) := by
      simp only [tagRoot, seq, hI.tag_own, List.map_append, List.map_cons, List.map_map]
      congr 1
      · apply List.map_congr_left; intro a _; simp [hI.tag_pa]
      · congr 1; apply List.map_congr_left; intro a _; simp [hI.tag_pa]
    refine ⟨hs, ?_⟩
    have hs' := hs
    simp only [tagRoot] at hs' ⊢
    refine ⟨h.1, h.2.1, ?_, ?_⟩
    · rw [hI.tag_sz]; exact h.2.2.1
    · rw [hs', hI.tag_agg, h.2.2.2, foldG_map_act I hI]

theorem rootAgg_spec (t : Tree T) (h : WFt I t) :
    rootAgg I t = if (seq I t).isEmpty then none else some (foldG I (seq I t)) := by
  cases t with
  | nil => rfl
  | node it p l r =>
    have : (seq I (.node it p l r)).isEmpty = false := by simp [seq]
    rw [this]; simp [rootAgg, Tree.item?, h.2.2.2]

/-! ### insert_at / remove_at -/

theorem insertAt_spec (hI : Lawful I) (t : Tree T) (pos : Nat) (v : V) (p : Nat) (h : WFt I t) :
    seq I (insertAt I t pos (I.new v) p) = (seq I t).take pos ++ I.own (I.new v) :: (seq I t).drop pos ∧
    WFt I (insertAt I t pos (I.new v) p) := by
  obtain ⟨s1, s2, s3, s4⟩ := splitAt_spec I hI t pos h
  have hw := WFt_single I hI v p
  unfold insertAt
  refine ⟨?_, merge_WFt I hI _ _ (merge_WFt I hI _ _ s3 hw) s4⟩
  rw [merge_seq' I hI, merge_seq' I hI, s1, s2]
  simp [single, seq]

theorem removeAt_spec (hI : Lawful I) (t : Tree T) (pos : Nat) (h : WFt I t) :
    (removeAt I t pos).1.map I.own =
      (match (seq I t)[pos]? with | some x => .ok x | none => .error .unwrap) ∧
    seq I (removeAt I t pos).2 =
      (match (seq I t)[pos]? with | some _ => (seq I t).eraseIdx pos | none => seq I t) ∧
    WFt I (removeAt I t pos).2 := by
  obtain ⟨a1, a2, a3, a4⟩ := splitAt_spec I hI t pos h
  obtain ⟨b1, b2, b3, b4⟩ := splitAt_spec I hI (splitAt I t pos).2 1 a4
  have hm := merge_seq' I hI (splitAt I t pos).1 (splitAt I (splitAt I t pos).2 1).2
  have hw := merge_WFt I hI _ _ a3 b4
  rw [a1, b2, a2] at hm
  rw [a2] at b1
  simp only [removeAt]
  cases hs2 : (splitAt I (splitAt I t pos).2 1).1 with
  | nil =>
    rw [hs2] at b1
    have hd : (seq I t).drop pos = [] := by
      cases hdd : (seq I t).drop pos with
      | nil => rfl
      | cons x xs => rw [hdd] at b1; simp [seq] at b1
    have hlen : (seq I t).length ≤ pos := by
      have := congrArg List.length hd; simp at this; omega
    have hnone : (seq I t)[pos]? = none := List.getElem?_eq_none_iff.2 hlen
    simp only [hnone]
    refine ⟨rfl, ?_, hw⟩
    rw [hm, hd]; simp [List.take_of_length_le hlen]
  | node it p l r =>
    rw [hs2] at b1 b3
    have hcnt : (seq I (Tree.node it p l r)).length = ((seq I t).drop pos |>.take 1).length := by rw [b1]
    cases hdd : (seq I t).drop pos with
    | nil => rw [hdd] at b1; simp [seq] at b1
    | cons x xs =>
      rw [hdd] at b1 hm
      have hlt : pos < (seq I t).length := by
        have := congrArg List.length hdd; simp at this; omega
      have hx : (seq I t)[pos]? = some x := by
        have := List.getElem?_drop (xs := seq I t) (i := pos) (j := 0)
        rw [hdd] at this; simpa using this.symm
      -- the split-out tree is a single node whose element is `x`
      have hl : l = .nil ∧ r = .nil := by
        have h1 : (seq I (Tree.node it p l r)).length = 1 := by rw [b1]; simp
        rw [seq_length] at h1
        simp only [Tree.count] at h1
        constructor
        · cases l with
          | nil => rfl
          | node => simp [Tree.count] at h1; omega
        · cases r with
          | nil => rfl
          | node => simp [Tree.count] at h1; omega
      obtain ⟨rfl, rfl⟩ := hl
      have hown : I.own it = x := by simpa [seq] using b1
      simp only [hx]
      refine ⟨by simp [Except.map, hown], ?_, hw⟩
      rw [hm, List.eraseIdx_eq_take_drop_succ, ← List.drop_drop, hdd]

/-! ### re-using what the API hands back -/

/-- an item that can stand for a one-element sequence (what `insert_at` / `from_item` expect):
    stored size 1, stored aggregate = the aggregate of its own element -/
def Singleton (it : T) : Prop := I.sz it = 1 ∧ I.agg it = I.inj (I.own it)

theorem WFt_single_iff (hI : Lawful I) (it : T) (p : Nat) : WFt I (single it p) ↔ Singleton I it := by
  simp [single, WFt, Singleton, Tree.count, seq, hI.mul_one]

theorem Singleton_new (hI : Lawful I) (v : V) : Singleton I (I.new v) := ⟨hI.new_sz v, hI.new_agg v⟩

theorem WFt_leaf (hI : Lawful I) (it : T) (p q : Nat) (h : WFt I (.node it p .nil .nil)) : WFt I (single it q) :=
  (WFt_single_iff I hI it q).2 ((WFt_single_iff I hI it p).1 h)

/-- the roots of both results of `split_at` carry no pending modification (they were pushed) -/
theorem splitAt_root_pa (hI : Lawful I) (t : Tree T) (pos : Nat) :
    (∀ it p l r, (splitAt I t pos).1 = .node it p l r → ∀ a, I.pa it a = a) ∧
    (∀ it p l r, (splitAt I t pos).2 = .node it p l r → ∀ a, I.pa it a = a) := by
  fun_induction splitAt I t pos with
  | case1 pos =>
    constructor
    · intro it p l r h; cases h
    · intro it p l r h; cases h
  | case2 pos it p l r q lsz hgt s ih =>
    refine ⟨?_, ih.2⟩
    intro it' p' l' r' h a
    simp only [upd, Tree.node.injEq] at h
    rw [← h.1, hI.update_pa]; exact pushParts_pa I hI it l r a
  | case3 pos it p l r q lsz hle s ih =>
    refine ⟨ih.1, ?_⟩
    intro it' p' l' r' h a
    simp only [upd, Tree.node.injEq] at h
    rw [← h.1, hI.update_pa]; exact pushParts_pa I hI it l r a

/-- **what `remove_at` returns**: the item of a one-node tree — stored size 1, stored aggregate
    the aggregate of its own element, no pending modification — so that it can be handed to
    `insert_at` / `from_item` again -/
theorem removeAt_item (hI : Lawful I) (t : Tree T) (pos : Nat) (h : WFt I t) (it : T)
    (hr : (removeAt I t pos).1 = .ok it) : Singleton I it ∧ ∀ a, I.pa it a = a := by
  obtain ⟨_, _, _, a4⟩ := splitAt_spec I hI t pos h
  obtain ⟨b1, _, b3, _⟩ := splitAt_spec I hI (splitAt I t pos).2 1 a4
  have hpa := (splitAt_root_pa I hI (splitAt I t pos).2 1).1
  simp only [removeAt] at hr
  cases hs2 : (splitAt I (splitAt I t pos).2 1).1 with
  | nil => rw [hs2] at hr; cases hr
  | node it' p l r =>
    rw [hs2] at hr b1 b3
    simp only [Except.ok.injEq] at hr
    subst hr
    have h1 : (seq I (Tree.node it' p l r)).length ≤ 1 := by rw [b1]; simp [List.length_take]; omega
    rw [seq_length] at h1
    simp only [Tree.count] at h1
    have hl : l = .nil := by
      cases l with
      | nil => rfl
      | node => simp [Tree.count] at h1; omega
    have hr' : r = .nil := by
      cases r with
      | nil => rfl
      | node => simp [Tree.count] at h1; omega
    subst hl; subst hr'
    exact ⟨(WFt_single_iff I hI it' p).1 b3, hpa it' p _ _ hs2⟩

/-- `remove_at` succeeds exactly for the positions that exist -/
theorem removeAt_ok_iff (hI : Lawful I) (t : Tree T) (pos : Nat) (h : WFt I t) :
    (∃ it, (removeAt I t pos).1 = .ok it) ↔ pos < (seq I t).length := by
  have h1 := (removeAt_spec I hI t pos h).1
  constructor
  · rintro ⟨it, e⟩
    rw [e] at h1
    by_cases hp : pos < (seq I t).length
    · exact hp
    · rw [List.getElem?_eq_none_iff.2 (by omega)] at h1; simp [Except.map] at h1
  · intro hp
    rw [List.getElem?_eq_getElem hp] at h1
    cases hr : (removeAt I t pos).1 with
    | ok it => exact ⟨it, rfl⟩
    | error e => rw [hr] at h1; simp [Except.map] at h1

/-- `insert_at(k, it)` for ANY item that stands for one element (a fresh `Item::new`, or an item
    `remove_at` returned earlier) -/
theorem insertAt_item_spec (hI : Lawful I) (t : Tree T) (pos : Nat) (it : T) (p : Nat) (h : WFt I t)
    (hs : Singleton I it) :
    seq I (insertAt I t pos it p) = (seq I t).take pos ++ I.own it :: (seq I t).drop pos ∧
    WFt I (insertAt I t pos it p) := by
  obtain ⟨s1, s2, s3, s4⟩ := splitAt_spec I hI t pos h
  have hw := (WFt_single_iff I hI it p).2 hs
  unfold insertAt
  refine ⟨?_, merge_WFt I hI _ _ (merge_WFt I hI _ _ s3 hw) s4⟩
  rw [merge_seq' I hI, merge_seq' I hI, s1, s2]
  simp [single, seq]

/-- a modification applied to an item that stands for one element (`it.modify(m)` before the item is
    handed to `insert_at` / `from_item`) leaves an item that stands for the modified element — and
    that CARRIES the modification as a pending one (`tag_pa`) -/
theorem Singleton_tag (hI : Lawful I) (m : M) (it : T) (h : Singleton I it) : Singleton I (I.tag m it) :=
  ⟨by rw [hI.tag_sz]; exact h.1, by rw [hI.tag_agg, h.2, hI.actG_inj, hI.tag_own]⟩

/-- what a caller finds at the root of a treap whose `size()` is 1: the tree is that single node, it
    represents `[own it]`, and the item stands for one element (pending modification or not) -/
theorem onlyItem_some (hI : Lawful I) (t : Tree T) (h : WFt I t) (it : T) (ho : onlyItem? I t = some it) :
    (∃ p, t = .node it p .nil .nil) ∧ seq I t = [I.own it] ∧ Singleton I it := by
  cases t with
  | nil => simp [onlyItem?] at ho
  | node it' p l r =>
    simp only [onlyItem?] at ho
    split at ho
    · rename_i h1
      simp only [Option.some.injEq] at ho; subst ho
      have hc : (Tree.node it' p l r).count = 1 := by rw [← h.2.2.1]; exact h1
      simp only [Tree.count] at hc
      have hl : l = .nil := by
        cases l with
        | nil => rfl
        | node => simp [Tree.count] at hc; omega
      have hr : r = .nil := by
        cases r with
        | nil => rfl
        | node => simp [Tree.count] at hc; omega
      subst hl; subst hr
      exact ⟨⟨p, rfl⟩, by simp [seq], (WFt_single_iff I hI it' p).1 h⟩
    · cases ho

theorem onlyItem_none (t : Tree T) (h : WFt I t) (ho : onlyItem? I t = none) : (seq I t).length ≠ 1 := by
  cases t with
  | nil => simp [seq]
  | node it' p l r =>
    simp only [onlyItem?] at ho
    split at ho
    · cases ho
    · rename_i h1
      rw [seq_length, ← h.2.2.1]; exact h1

/-- cloning the only element of a treap (`first()`, `last()` or `collect()[0]`) gives an item that
    stands for that element -/
theorem pick_spec (hI : Lawful I) (w : Nat) (t : Tree T) (h : WFt I t) (hc : (seq I t).length ≤ 1) (p : Nat) :
    (pick I w t).1.map I.own = (if w = 1 then (seq I t).getLast? else (seq I t).head?) ∧
    seq I (pick I w t).2 = seq I t ∧ WFt I (pick I w t).2 ∧
    seq I (ofItem? (pick I w t).1 p) = seq I t ∧ WFt I (ofItem? (pick I w t).1 p) := by
  rw [seq_length] at hc
  cases t with
  | nil =>
    have e : pick I w (.nil : Tree T) = (none, .nil) := by
      unfold pick; split
      · simp [first]
      · split
        · simp [last]
        · simp [collect]
    rw [e]; simp [seq, WFt, ofItem?]
  | node it q l r =>
    simp only [Tree.count] at hc
    have hl : l = .nil := by
      cases l with
      | nil => rfl
      | node => simp [Tree.count] at hc; omega
    have hr : r = .nil := by
      cases r with
      | nil => rfl
      | node => simp [Tree.count] at hc; omega
    subst hl; subst hr
    have hseq : seq I (.node it q .nil .nil) = [I.own it] := by simp [seq]
    by_cases h0 : w = 0
    · have e : pick I w (.node it q .nil .nil) = (some it, .node it q .nil .nil) := by
        unfold pick; rw [if_pos h0]; simp [first]
      rw [e, hseq]
      have hw1 : ¬ w = 1 := by omega
      refine ⟨by simp [hw1], hseq, h, by simp [ofItem?, single, seq], WFt_leaf I hI it q p h⟩
    · by_cases h1 : w = 1
      · have e : pick I w (.node it q .nil .nil) = (some it, .node it q .nil .nil) := by
          unfold pick; rw [if_neg h0, if_pos h1]; simp [last]
        rw [e, hseq]
        refine ⟨by simp [h1], hseq, h, by simp [ofItem?, single, seq], WFt_leaf I hI it q p h⟩
      · obtain ⟨c1, c2, c3⟩ := collect_spec' I hI _ h
        have e : pick I w (.node it q .nil .nil) =
            ((collect I (.node it q .nil .nil)).1.head?, (collect I (.node it q .nil .nil)).2) := by
          unfold pick; rw [if_neg h0, if_neg h1]
        rw [e]
        have hcol : (collect I (.node it q .nil .nil)).1 = [(pushParts I it .nil .nil).1] := by
          rw [collect]; simp [collect, pushParts, Tree.setItem?]
        have hcol2 : (collect I (.node it q .nil .nil)).2 = .node (pushParts I it .nil .nil).1 q .nil .nil := by
          rw [collect]; simp [collect, pushParts, Tree.setItem?]
        rw [hcol2] at c3
        rw [hseq] at c1 c2 ⊢
        rw [hcol] at c1
        have hown : I.own (pushParts I it .nil .nil).1 = I.own it := by simpa using c1
        refine ⟨by simp [h1, hcol, hown], ?_, ?_, ?_, ?_⟩
        · exact c2
        · show WFt I (collect I (.node it q .nil .nil)).2
          rw [hcol2]; exact c3
        · simp [hcol, ofItem?, single, seq, hown]
        · simp only [hcol, List.head?_cons, ofItem?]
          exact WFt_leaf I hI _ q p c3

end Rlib.Treap

namespace Rlib.Treap
variable {T E G M V : Type} (I : TItem T E G M V)

/-- the user-level idiom of rlib's test: split out `[l, r]`, attach a modifier at its root,
    merge the three parts back (each step is the model function the driver executes) -/
def rangeTag (t : Tree T) (l r : Nat) (m : M) : Tree T :=
  let s1 := splitAt I t (r + 1)
  let s2 := splitAt I s1.1 l
  merge I (merge I s2.1 (tagRoot I m s2.2)) s1.2

/-- split out `[l, r]` and read the aggregate stored at the root of the middle part -/
def rangeAgg (t : Tree T) (l r : Nat) : Option G :=
  rootAgg I (splitAt I (splitAt I t (r + 1)).1 l).2

end Rlib.Treap
