import RlibModel.Lemmas.IterPerm
/-!
Helper lemmas for `iter_permutations` of C15: the iterator walks a chain of immediate lexicographic
successors from the sorted arrangement to the non-increasing one, hence lists every arrangement
exactly once; `(len)! + 1` units of fuel are enough.  Core Lean only.
-/
namespace Rlib.Iter

/-! ### the lexicographic order on `List Int` is a strict total order -/

theorem lex_trans : ∀ {a b c : List Int}, a < b → b < c → a < c
  | [], _, [], _, h2 => absurd h2 (List.not_lt_nil _)
  | [], _, _ :: _, _, _ => List.nil_lt_cons ..
  | _ :: _, [], _, h1, _ => absurd h1 (List.not_lt_nil _)
  | _ :: _, _ :: _, [], _, h2 => absurd h2 (List.not_lt_nil _)
  | x :: a, y :: b, z :: c, h1, h2 => by
    rw [lex_cons] at h1 h2 ⊢
    rcases h1 with h1 | ⟨rfl, h1⟩ <;> rcases h2 with h2 | ⟨rfl, h2⟩
    · left; omega
    · left; omega
    · left; omega
    · right; exact ⟨rfl, lex_trans h1 h2⟩

theorem lex_trichotomy : ∀ a b : List Int, a < b ∨ a = b ∨ b < a
  | [], [] => Or.inr (Or.inl rfl)
  | [], _ :: _ => Or.inl (List.nil_lt_cons ..)
  | _ :: _, [] => Or.inr (Or.inr (List.nil_lt_cons ..))
  | x :: a, y :: b => by
    rw [lex_cons, lex_cons]
    by_cases h1 : x < y
    · exact Or.inl (Or.inl h1)
    · by_cases h2 : y < x
      · exact Or.inr (Or.inr (Or.inl h2))
      · have : x = y := by omega
        subst this
        rcases lex_trichotomy a b with h | h | h
        · exact Or.inl (Or.inr ⟨rfl, h⟩)
        · exact Or.inr (Or.inl (by rw [h]))
        · exact Or.inr (Or.inr (Or.inr ⟨rfl, h⟩))

theorem lex_asymm {a b : List Int} (h1 : a < b) (h2 : b < a) : False :=
  lex_irrefl a (lex_trans h1 h2)

/-! ### sorting -/

theorem sortInts_perm (d : List Int) : (sortInts d).Perm d := List.mergeSort_perm _ _

theorem sortInts_nonDec (d : List Int) : NonDec (sortInts d) := by
  have := List.pairwise_mergeSort (le := fun a b : Int => decide (a ≤ b))
    (by intro a b c; simp only [decide_eq_true_eq]; omega)
    (by intro a b; simp only [Bool.or_eq_true, decide_eq_true_eq]; omega) d
  exact this.imp (by intro a b h; simpa using h)

/-! ### the chain walked by `PermutationIter` -/

/-- `r` is what the iterator yields after `d`: each element is the `np`-successor of the previous
    one and the last one has none. -/
def StepChain : List Int → List (List Int) → Prop
  | d, [] => np d = none
  | d, v :: r => np d = some v ∧ StepChain v r

theorem permIterRest_succ (fuel : Nat) (d : List Int) : permIterRest (fuel + 1) d =
    match np d with
    | none => .ok []
    | some v =>
      match permIterRest fuel v with
      | .error e => .error e
      | .ok r => .ok (v :: r) := by
  rw [permIterRest, nextPermutationIdx_eq]
  unfold nextPermutation
  cases np d <;> rfl

theorem permIterRest_chain : ∀ fuel d r, permIterRest fuel d = .ok r → StepChain d r := by
  intro fuel
  induction fuel with
  | zero => intro d r h; simp [permIterRest] at h
  | succ fuel ih =>
    intro d r h
    rw [permIterRest_succ] at h
    cases hnp : np d with
    | none =>
      rw [hnp] at h
      simp only [Except.ok.injEq] at h
      subst h
      exact hnp
    | some v =>
      rw [hnp] at h
      simp only at h
      cases hr : permIterRest fuel v with
      | error e => rw [hr] at h; cases h
      | ok r' =>
        rw [hr] at h
        simp only [Except.ok.injEq] at h
        subst h
        exact ⟨hnp, ih v r' hr⟩

theorem chain_perm : ∀ r d, StepChain d r → ∀ z ∈ r, z.Perm d := by
  intro r
  induction r with
  | nil => intro d _ z hz; cases hz
  | cons v r ih =>
    intro d h z hz
    have hv := (np_spec d v h.1).1
    rcases List.mem_cons.mp hz with rfl | hz
    · exact hv
    · exact (ih v h.2 z hz).trans hv

theorem chain_lt : ∀ r d, StepChain d r → ∀ z ∈ r, d < z := by
  intro r
  induction r with
  | nil => intro d _ z hz; cases hz
  | cons v r ih =>
    intro d h z hz
    have hv := (np_spec d v h.1).2.1
    rcases List.mem_cons.mp hz with rfl | hz
    · exact hv
    · exact lex_trans hv (ih v h.2 z hz)

theorem chain_sorted : ∀ r d, StepChain d r → (d :: r).Pairwise (· < ·) := by
  intro r
  induction r with
  | nil => intro d _; exact List.pairwise_singleton _ _
  | cons v r ih =>
    intro d h
    exact List.pairwise_cons.mpr ⟨chain_lt (v :: r) d h, ih v h.2⟩

/-- Nothing is skipped: every arrangement not below the start of the chain is on it. -/
theorem chain_cover : ∀ r d, StepChain d r → ∀ zs, zs.Perm d → ¬ zs < d → zs ∈ d :: r := by
  intro r
  induction r with
  | nil =>
    intro d h zs hz hge
    have hmax := nonInc_max d zs ((np_none_iff d).mp h) hz
    rcases lex_trichotomy zs d with h' | h' | h'
    · exact absurd h' hge
    · rw [h']; exact List.mem_cons_self ..
    · exact absurd h' hmax
  | cons v r ih =>
    intro d h zs hz hge
    obtain ⟨hv1, _, hv3⟩ := np_spec d v h.1
    rcases lex_trichotomy zs d with h' | h' | h'
    · exact absurd h' hge
    · rw [h']; exact List.mem_cons_self ..
    · exact List.mem_cons_of_mem _ (ih v h.2 zs (hz.trans hv1.symm) (hv3 zs hz h'))

theorem chain_last_nonInc : ∀ r d, StepChain d r → NonInc ((d :: r).getLast (by simp)) := by
  intro r
  induction r with
  | nil => intro d h; exact (np_none_iff d).mp h
  | cons v r ih =>
    intro d h
    rw [List.getLast_cons (by simp)]
    exact ih v h.2

/-! ### all arrangements, and enough fuel -/

theorem mem_insertAll_mid (x : Int) : ∀ l1 l2 : List Int, l1 ++ x :: l2 ∈ insertAll x (l1 ++ l2) := by
  intro l1
  induction l1 with
  | nil =>
    intro l2
    cases l2 <;> simp [insertAll]
  | cons a l1 ih =>
    intro l2
    simp only [List.cons_append, insertAll]
    exact List.mem_cons_of_mem _ (List.mem_map.mpr ⟨_, ih l2, rfl⟩)

theorem mem_allPerms_of_perm : ∀ (xs zs : List Int), zs.Perm xs → zs ∈ allPerms xs := by
  intro xs
  induction xs with
  | nil => intro zs h; rw [List.perm_nil.mp h]; simp [allPerms]
  | cons x xs ih =>
    intro zs h
    have hx : x ∈ zs := h.symm.subset (List.mem_cons_self ..)
    obtain ⟨l1, l2, rfl⟩ := List.mem_iff_append.mp hx
    have h' : (l1 ++ l2).Perm xs := List.Perm.cons_inv (List.perm_middle.symm.trans h)
    simp only [allPerms, List.mem_flatMap]
    exact ⟨l1 ++ l2, ih _ h', mem_insertAll_mid x l1 l2⟩

theorem length_insertAll (x : Int) : ∀ l : List Int, (insertAll x l).length = l.length + 1 := by
  intro l
  induction l with
  | nil => rfl
  | cons a l ih => simp [insertAll, ih]

theorem length_of_mem_insertAll (x : Int) : ∀ (l z : List Int), z ∈ insertAll x l → z.length = l.length + 1 := by
  intro l
  induction l with
  | nil => intro z hz; simp [insertAll] at hz; rw [hz]; rfl
  | cons a l ih =>
    intro z hz
    simp only [insertAll, List.mem_cons, List.mem_map] at hz
    rcases hz with rfl | ⟨z', hz', rfl⟩
    · simp
    · simp [ih z' hz']

theorem length_of_mem_allPerms : ∀ (xs z : List Int), z ∈ allPerms xs → z.length = xs.length := by
  intro xs
  induction xs with
  | nil => intro z hz; simp [allPerms] at hz; rw [hz]
  | cons x xs ih =>
    intro z hz
    simp only [allPerms, List.mem_flatMap] at hz
    obtain ⟨y, hy, hz⟩ := hz
    rw [length_of_mem_insertAll x y z hz, ih y hy, List.length_cons]

theorem sum_map_const {α : Type} (f : α → Nat) (c : Nat) : ∀ l : List α, (∀ a ∈ l, f a = c) →
    (l.map f).sum = l.length * c := by
  intro l
  induction l with
  | nil => intro _; simp
  | cons a l ih =>
    intro h
    rw [List.map_cons, List.sum_cons, h a (List.mem_cons_self ..),
      ih (fun b hb => h b (List.mem_cons_of_mem _ hb)), List.length_cons, Nat.succ_mul]
    omega

theorem length_allPerms : ∀ xs : List Int, (allPerms xs).length = factorial xs.length := by
  intro xs
  induction xs with
  | nil => rfl
  | cons x xs ih =>
    simp only [allPerms, List.length_flatMap]
    rw [sum_map_const _ (xs.length + 1) _ (fun y hy => by
      rw [length_insertAll, length_of_mem_allPerms xs y hy]), ih, List.length_cons, factorial,
      Nat.mul_comm]

theorem countP_lt {α : Type} (p q : α → Bool) (v : α) : ∀ l : List α,
    (∀ x ∈ l, p x = true → q x = true) → v ∈ l → q v = true → p v = false →
    l.countP p < l.countP q := by
  intro l
  induction l with
  | nil => intro _ hv; cases hv
  | cons a l ih =>
    intro himp hv hq hp
    rw [List.countP_cons, List.countP_cons]
    have hle : l.countP p ≤ l.countP q :=
      List.countP_mono_left (fun x hx => himp x (List.mem_cons_of_mem _ hx))
    rcases List.mem_cons.mp hv with rfl | hv'
    · rw [hq, hp]; simp; omega
    · have := ih (fun x hx => himp x (List.mem_cons_of_mem _ hx)) hv' hq hp
      have hpa := himp a (List.mem_cons_self ..)
      cases hpa' : p a with
      | false => simp; omega
      | true => rw [hpa hpa']; simp; omega

/-- The number of arrangements (counted in the fixed list `L`) strictly above the current one
    decreases with every step, so the iterator stops before that many `+ 1` units of fuel are used. -/
theorem permIterRest_fuel (s : List Int) : ∀ fuel u, u.Perm s →
    (allPerms s).countP (fun z => decide (u < z)) < fuel → ∃ r, permIterRest fuel u = .ok r := by
  intro fuel
  induction fuel with
  | zero => intro u _ h; omega
  | succ fuel ih =>
    intro u hu hc
    rw [permIterRest_succ]
    cases hnp : np u with
    | none => exact ⟨[], rfl⟩
    | some v =>
      obtain ⟨hv1, hv2, _⟩ := np_spec u v hnp
      have hvs : v.Perm s := hv1.trans hu
      have hlt : (allPerms s).countP (fun z => decide (v < z)) < (allPerms s).countP (fun z => decide (u < z)) := by
        apply countP_lt _ _ v _ _ (mem_allPerms_of_perm s v hvs)
        · simpa using hv2
        · simp [lex_irrefl v]
        · intro x _ hx
          simp only [decide_eq_true_eq] at hx ⊢
          exact lex_trans hv2 hx
      obtain ⟨r, hr⟩ := ih v hvs (by omega)
      exact ⟨v :: r, by simp only [hr]⟩

end Rlib.Iter
