import RlibModel.Model.ReaderMulti
import RlibModel.Lemmas.ReaderOps
import RlibModel.Lemmas.ReaderSched
/-!
Several live readers (Model/ReaderMulti.lean): the model refines the specification on the list of remaining byte
strings (`runMulti_spec`), and the specification is an interleaving of the per-reader specifications
(`projRes_specMulti_prefix`, `projRes_specMulti_eq`): what reader `k` returns does not depend on the other readers.
-/
namespace Rlib.Reader

/-- Every reader of the list is in a reachable state (its own buffer size) and has enough fuel. -/
def AllInv (fuel : Nat) (st : List RState) : Prop :=
  ∀ s ∈ st, ∃ BUF, 0 < BUF ∧ Inv BUF s ∧ (R s).length < fuel

theorem runMulti_spec (fuel : Nat) : ∀ (ops : List MOp) (st : List RState), AllInv fuel st →
    some Res.undef ∉ specMulti ops (st.map R) → runMulti fuel ops st = specMulti ops (st.map R) := by
  intro ops
  induction ops with
  | nil => intro st _ _; rfl
  | cons mop ops ih =>
    intro st hall hd
    cases mop with
    | life k =>
      simp only [runMulti, specMulti] at hd ⊢
      simp only [List.mem_cons, not_or] at hd
      rw [ih st hall hd.2]
    | run k op =>
      simp only [runMulti, specMulti, List.getElem?_map] at hd ⊢
      cases hk : st[k]? with
      | none => simp
      | some s =>
        rw [hk] at hd
        simp only [Option.map_some] at hd ⊢
        obtain ⟨BUF, hB, hi, hf⟩ := hall s (List.mem_of_getElem? hk)
        have ho := runOp_spec BUF hB fuel op s hi hf
        cases hs : specOp op (R s) with
        | none => rw [hs] at hd; simp at hd
        | some x =>
          rw [hs] at ho hd
          cases x with
          | error e => simp only [Refines] at ho; simp [ho]
          | ok p =>
            obtain ⟨s1, k1, k2, k3⟩ := ho
            have l1 := specOp_length op (R s) p.1 p.2 hs
            simp only [k1]
            simp only [List.mem_cons, not_or] at hd
            have hall' : AllInv fuel (st.set k s1) := by
              intro t ht
              rcases List.mem_or_eq_of_mem_set ht with h | h
              · exact hall t h
              · subst h; exact ⟨BUF, hB, k3, by rw [k2]; omega⟩
            have hm : (st.set k s1).map R = (st.map R).set k p.2 := by
              rw [List.map_set, k2]
            rw [ih (st.set k s1) hall' (by rw [hm]; exact hd.2), hm]

/-- The results addressed to reader `k` in a multi-reader specification trace are a prefix of the trace of its own
    script run alone on its own input (a prefix only because the multi-reader trace ends at the first panic of ANY reader). -/
theorem projRes_specMulti_prefix (k : Nat) : ∀ (ops : List MOp) (rest : List (List UInt8)) (input : List UInt8),
    rest[k]? = some input → projRes k ops (specMulti ops rest) <+: specScript (projOps k ops) input := by
  intro ops
  induction ops with
  | nil => intro rest input _; simp [projRes]
  | cons mop ops ih =>
    intro rest input hk
    cases mop with
    | life j =>
      simp only [specMulti, projRes, projOps]
      exact ih rest input hk
    | run j op =>
      simp only [specMulti, projOps]
      cases hj : rest[j]? with
      | none =>
        by_cases hjk : j = k
        · subst hjk; rw [hk] at hj; cases hj
        · simp [projRes, hjk]
      | some r =>
        simp only []
        by_cases hjk : j = k
        · subst hjk
          rw [hk] at hj; cases hj
          simp only [if_true, specScript]
          cases hs : specOp op input with
          | none => simp [projRes]
          | some x =>
            cases x with
            | error e => simp [projRes]
            | ok p =>
              simp only [projRes, if_true]
              have hlt : j < rest.length := by
                rcases List.getElem?_eq_some_iff.mp hk with ⟨h, _⟩; exact h
              have := ih (rest.set j p.2) p.2 (by simp [List.getElem?_set_self hlt])
              exact List.prefix_cons_inj _ |>.mpr this
        · simp only [if_neg hjk]
          cases hs : specOp op r with
          | none => simp [projRes, hjk]
          | some x =>
            cases x with
            | error e => simp [projRes, hjk]
            | ok p =>
              simp only [projRes, if_neg hjk]
              exact ih (rest.set j p.2) input (by rw [List.getElem?_set_ne hjk]; exact hk)

/-- … and exactly that trace when the multi-reader trace is clean (no panic, nothing undefined, in particular inside
    the property's domain). -/
theorem projRes_specMulti_eq (k : Nat) : ∀ (ops : List MOp) (rest : List (List UInt8)) (input : List UInt8),
    rest[k]? = some input → cleanTrace (specMulti ops rest) = true →
    projRes k ops (specMulti ops rest) = specScript (projOps k ops) input := by
  intro ops
  induction ops with
  | nil => intro rest input _ _; simp [projRes, projOps, specScript]
  | cons mop ops ih =>
    intro rest input hk hc
    cases mop with
    | life j =>
      simp only [specMulti, projRes, projOps, cleanTrace] at hc ⊢
      exact ih rest input hk hc
    | run j op =>
      simp only [specMulti, projOps] at hc ⊢
      cases hj : rest[j]? with
      | none => rw [hj] at hc; simp [cleanTrace] at hc
      | some r =>
        rw [hj] at hc
        simp only [] at hc ⊢
        cases hs : specOp op r with
        | none => rw [hs] at hc; simp [cleanTrace] at hc
        | some x =>
          rw [hs] at hc
          cases x with
          | error e => simp [cleanTrace] at hc
          | ok p =>
            simp only [cleanTrace] at hc
            by_cases hjk : j = k
            · subst hjk
              rw [hk] at hj; cases hj
              have hlt : j < rest.length := by
                rcases List.getElem?_eq_some_iff.mp hk with ⟨h, _⟩; exact h
              simp only [if_true, specScript, hs, projRes]
              rw [ih (rest.set j p.2) p.2 (by simp [List.getElem?_set_self hlt]) hc]
            · simp only [if_neg hjk, projRes]
              exact ih (rest.set j p.2) input (by rw [List.getElem?_set_ne hjk]; exact hk) hc

/-- a clean trace contains no `undef` -/
theorem undef_not_mem_of_clean : ∀ (rs : List MRes), cleanTrace rs = true → some Res.undef ∉ rs := by
  intro rs
  induction rs with
  | nil => intro _; simp
  | cons r rs ih =>
    intro hc
    cases r with
    | none => simp only [cleanTrace] at hc; simp [ih hc]
    | some x =>
      cases x with
      | out o => simp only [cleanTrace] at hc; simp [ih hc]
      | panic e => simp [cleanTrace] at hc
      | undef => simp [cleanTrace] at hc

/-- The in-domain prefix of the specification trace is clean. -/
theorem domPrefixM_clean : ∀ (ops : List MOp) (rest : List (List UInt8)),
    cleanTrace ((specMulti ops rest).take (domPrefixM ops rest)) = true := by
  intro ops
  induction ops with
  | nil => intro rest; simp [specMulti, domPrefixM, cleanTrace]
  | cons mop ops ih =>
    intro rest
    cases mop with
    | life j =>
      simp only [specMulti, domPrefixM]
      rw [Nat.add_comm, List.take_succ_cons]
      simp only [cleanTrace]; exact ih rest
    | run j op =>
      simp only [specMulti, domPrefixM]
      cases hj : rest[j]? with
      | none => simp [cleanTrace]
      | some r =>
        simp only []
        by_cases hd : inDomOp op r = true
        · simp only [hd, if_true]
          cases hs : specOp op r with
          | none => simp [cleanTrace]
          | some x =>
            cases x with
            | error e => simp [cleanTrace]
            | ok p =>
              simp only []
              rw [Nat.add_comm, List.take_succ_cons]
              simp only [cleanTrace]; exact ih _
        · simp [hd, cleanTrace]

theorem le_maxLen : ∀ (l : List (List UInt8)) (x : List UInt8), x ∈ l → x.length ≤ maxLen l := by
  intro l
  induction l with
  | nil => intro x h; cases h
  | cons y ys ih =>
    intro x h
    simp only [maxLen]
    rcases List.mem_cons.mp h with h | h
    · subst h; exact Nat.le_max_left _ _
    · exact Nat.le_trans (ih x h) (Nat.le_max_right _ _)

/-- The initial states of a case line satisfy the hypotheses of `runMulti_spec`, and their remaining byte strings are
    the inputs, whatever the schedules. -/
theorem initMulti_spec (BUF : Nat) (hB : 0 < BUF) (ins : List (Sched × List UInt8))
    (hpos : ∀ p ∈ ins, ∀ k n, (some k, n) ∈ p.1 → 0 < k) :
    AllInv (maxLen (ins.map (·.2)) + 1) (initMulti BUF ins) ∧ (initMulti BUF ins).map R = ins.map (·.2) := by
  constructor
  · intro s hs
    simp only [initMulti, List.mem_map] at hs
    obtain ⟨p, hp, rfl⟩ := hs
    have h := mkEvents_spec p.1 p.2 #[] (hpos p hp) (by simp [SrcOk])
    simp only [srcBytes, List.nil_append] at h
    refine ⟨BUF, hB, init_inv BUF _ h.2, ?_⟩
    rw [init_R, h.1]
    have := le_maxLen (ins.map (·.2)) p.2 (List.mem_map.mpr ⟨p, hp, rfl⟩)
    omega
  · simp only [initMulti, List.map_map]
    apply List.map_congr_left
    intro p hp
    have h := mkEvents_spec p.1 p.2 #[] (hpos p hp) (by simp [SrcOk])
    simp only [srcBytes, List.nil_append] at h
    simp only [Function.comp, init_R, h.1]

end Rlib.Reader
