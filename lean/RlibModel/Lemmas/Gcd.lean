import RlibModel.Model.Gcd
/-! Helper lemmas for C11 (gcd / lcm / egcd / crt). -/
namespace Rlib.Gcd

theorem gcdLoop_natAbs (a b : Int) : (gcdLoop a b).natAbs = Nat.gcd a.natAbs b.natAbs := by
  induction a, b using gcdLoop.induct with
  | case1 a => rw [gcdLoop]; simp
  | case2 a b hb ih =>
    rw [gcdLoop, dif_neg hb, ih, Int.natAbs_tmod, Nat.gcd_comm a.natAbs, Nat.gcd_rec b.natAbs a.natAbs, Nat.gcd_comm]

theorem gcdLoop_nonneg (a b : Int) (ha : 0 ≤ a) (hb : 0 ≤ b) : 0 ≤ gcdLoop a b := by
  induction a, b using gcdLoop.induct with
  | case1 a => rw [gcdLoop]; simpa using ha
  | case2 a b hb0 ih =>
    rw [gcdLoop, dif_neg hb0]
    exact ih hb (Int.tmod_nonneg _ ha)

end Rlib.Gcd
