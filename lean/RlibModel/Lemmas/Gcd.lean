import Mathlib.Tactic.Ring
import Mathlib.Tactic.Linarith
import Mathlib.Tactic.LinearCombination
import RlibModel.Model.Gcd
/-! Helper lemmas for C11 (gcd / lcm / egcd / crt). -/
namespace Rlib.Gcd

theorem gcdLoop_natAbs (a b : Int) : (gcdLoop a b).natAbs = Nat.gcd a.natAbs b.natAbs := by
  induction a, b using gcdLoop.induct with
  | case1 a => rw [gcdLoop]; simp
  | case2 a b hb ih =>
    rw [gcdLoop, dif_neg hb, ih, Int.natAbs_tmod, Nat.gcd_comm a.natAbs, Nat.gcd_rec b.natAbs a.natAbs, Nat.gcd_comm]

theorem gcdLoop_nonneg (a b : Int) (ha : 0 ≤ a) (hb : 0 ≤ b) : 0 ≤ gcdLoop a b := by
  induction a, b using gcdLoop.induct with
  | case1 a => rw [gcdLoop]; simpa using ha
  | case2 a b hb0 ih =>
    rw [gcdLoop, dif_neg hb0]
    exact ih hb (Int.tmod_nonneg _ ha)


theorem gcd_eq (a b : Int) : gcd a b = (Int.gcd a b : Int) := by
  have h1 := gcdLoop_natAbs (a.natAbs : Int) (b.natAbs : Int)
  have h2 := gcdLoop_nonneg (a.natAbs : Int) (b.natAbs : Int) (by omega) (by omega)
  unfold gcd
  simp only [Int.natAbs_natCast] at h1
  rw [Int.gcd]
  omega

theorem lcm_zero : lcm 0 0 = .error .divzero := by
  simp [lcm, gcd_eq]

theorem lcm_eq (a b : Int) (h : ¬(a = 0 ∧ b = 0)) : lcm a b = .ok (Int.lcm a b : Int) := by
  have hg : (Int.gcd a b : Int) ≠ 0 := by
    intro h0
    have : Int.gcd a b = 0 := by exact_mod_cast h0
    rw [Int.gcd_eq_zero_iff] at this
    exact h this
  unfold lcm
  simp only [gcd_eq, if_neg hg]
  congr 1
  rw [Int.tdiv_eq_ediv_of_nonneg (by omega)]
  simp only [Int.lcm, Int.gcd, Nat.lcm]
  norm_cast
  exact (Nat.div_mul_right_comm (Nat.gcd_dvd_left _ _) _)

theorem egcd_zero_left (b c : Int) : egcd 0 b c =
    if b = 0 then .error .divzero else if c.tmod b ≠ 0 then .ok none else .ok (some (0, c.tdiv b)) := by
  rw [egcd]; simp

theorem egcd_step (a b c : Int) (ha : a ≠ 0) : egcd a b c =
    match egcd (b.tmod a) a c with
    | .error e => .error e
    | .ok none => .ok none
    | .ok (some (y0, x0)) => .ok (some (x0 - (b.tdiv a) * y0, y0)) := by
  rw [egcd, dif_neg ha]
  rfl

theorem egcd_sound' (a b c : Int) : ∀ x y, egcd a b c = .ok (some (x, y)) → a * x + b * y = c := by
  induction a, b using egcd.induct c with
  | case1 => intro x y h; rw [egcd_zero_left] at h; simp at h
  | case2 b hb hc => intro x y h; rw [egcd_zero_left, if_neg hb, if_pos hc] at h; simp at h
  | case3 b hb hc =>
    intro x y h
    rw [egcd_zero_left, if_neg hb, if_neg hc] at h
    simp only [Except.ok.injEq, Option.some.injEq, Prod.mk.injEq] at h
    obtain ⟨rfl, rfl⟩ := h
    have h1 := Int.mul_tdiv_add_tmod c b
    have h2 : c.tmod b = 0 := by simpa using hc
    linear_combination h1 - h2
  | case4 a b ha e he ih => intro x y h; rw [egcd_step _ _ _ ha, he] at h; simp at h
  | case5 a b ha he ih => intro x y h; rw [egcd_step _ _ _ ha, he] at h; simp at h
  | case6 a b ha y0 x0 he ih =>
    intro x y h
    rw [egcd_step _ _ _ ha, he] at h
    simp only [Except.ok.injEq, Option.some.injEq, Prod.mk.injEq] at h
    obtain ⟨rfl, rfl⟩ := h
    have h0 := ih _ _ he
    have h1 := Int.mul_tdiv_add_tmod b a
    linear_combination h0 - y0 * h1

theorem gcd_tmod_left (a b : Int) : Int.gcd (b.tmod a) a = Int.gcd a b := by
  simp only [Int.gcd, Int.natAbs_tmod]
  exact (Nat.gcd_rec _ _).symm

theorem dvd_iff_tmod_eq_zero (b c : Int) : c.tmod b = 0 ↔ b ∣ c := by
  exact Iff.symm Int.dvd_iff_tmod_eq_zero

theorem egcd_complete' (a b c : Int) : ¬(a = 0 ∧ b = 0) →
    (egcd a b c = .ok none ∧ ¬ (Int.gcd a b : Int) ∣ c) ∨
    (∃ x y, egcd a b c = .ok (some (x, y)) ∧ (Int.gcd a b : Int) ∣ c) := by
  induction a, b using egcd.induct c with
  | case1 => intro h; exact absurd ⟨rfl, rfl⟩ h
  | case2 b hb hc =>
    intro _
    left
    rw [egcd_zero_left, if_neg hb, if_pos hc]
    refine ⟨rfl, ?_⟩
    rw [Int.gcd_zero_left, Int.natAbs_dvd, ← dvd_iff_tmod_eq_zero]
    exact hc
  | case3 b hb hc =>
    intro _
    right
    rw [egcd_zero_left, if_neg hb, if_neg hc]
    refine ⟨_, _, rfl, ?_⟩
    rw [Int.gcd_zero_left, Int.natAbs_dvd, ← dvd_iff_tmod_eq_zero]
    simpa using hc
  | case4 a b ha e he ih =>
    intro _
    rcases ih (fun h => ha h.2) with h | ⟨x, y, h, _⟩ <;> rw [he] at h <;> simp at h
  | case5 a b ha he ih =>
    intro _
    rcases ih (fun h => ha h.2) with h | ⟨x, y, h, _⟩
    · left
      rw [egcd_step _ _ _ ha, he]
      exact ⟨rfl, by rw [← gcd_tmod_left]; exact h.2⟩
    · rw [he] at h; simp at h
  | case6 a b ha y0 x0 he ih =>
    intro _
    rcases ih (fun h => ha h.2) with h | ⟨x, y, h, hd⟩
    · rw [he] at h; simp at h
    · right
      rw [egcd_step _ _ _ ha, he]
      exact ⟨_, _, rfl, by rw [← gcd_tmod_left]; exact hd⟩

/-- The size invariant of the pair returned by `egcd` (`K = |c| / gcd`). -/
def EgcdInv (a b : Int) (K : Nat) (x y : Int) : Prop :=
  (a = 0 → x = 0 ∧ y.natAbs = K) ∧
  (a ≠ 0 → Int.gcd a b * x.natAbs ≤ K * max (Int.gcd a b) b.natAbs ∧ Int.gcd a b * y.natAbs ≤ K * a.natAbs)

theorem egcd_inv (a b c : Int) (K : Nat) : ∀ x y, egcd a b c = .ok (some (x, y)) →
    c.natAbs = Int.gcd a b * K → EgcdInv a b K x y := by
  induction a, b using egcd.induct c with
  | case1 => intro x y h; rw [egcd_zero_left] at h; simp at h
  | case2 b hb hc => intro x y h; rw [egcd_zero_left, if_neg hb, if_pos hc] at h; simp at h
  | case3 b hb hc =>
    intro x y h hK
    rw [egcd_zero_left, if_neg hb, if_neg hc] at h
    simp only [Except.ok.injEq, Option.some.injEq, Prod.mk.injEq] at h
    obtain ⟨rfl, rfl⟩ := h
    refine ⟨fun _ => ⟨rfl, ?_⟩, fun h => absurd rfl h⟩
    rw [Int.gcd_zero_left] at hK
    rw [Int.natAbs_tdiv, hK]
    exact Nat.mul_div_cancel_left _ (by omega)
  | case4 a b ha e he ih => intro x y h; rw [egcd_step _ _ _ ha, he] at h; simp at h
  | case5 a b ha he ih => intro x y h; rw [egcd_step _ _ _ ha, he] at h; simp at h
  | case6 a b ha y0 x0 he ih =>
    intro x y h hK
    rw [egcd_step _ _ _ ha, he] at h
    simp only [Except.ok.injEq, Option.some.injEq, Prod.mk.injEq] at h
    obtain ⟨rfl, rfl⟩ := h
    have ih' := ih _ _ he (by rw [gcd_tmod_left]; exact hK)
    rw [EgcdInv, gcd_tmod_left] at ih'
    obtain ⟨ih0, ih1⟩ := ih'
    refine ⟨fun h => absurd h ha, fun _ => ?_⟩
    have hG : Int.gcd a b ≤ a.natAbs :=
      Nat.le_of_dvd (by omega) (by rw [Int.gcd]; exact Nat.gcd_dvd_left _ _)
    have hB : b.natAbs = (b.tdiv a).natAbs * a.natAbs + (b.tmod a).natAbs := by
      rw [Int.natAbs_tdiv, Int.natAbs_tmod, Nat.mul_comm]; exact (Nat.div_add_mod _ _).symm
    by_cases hr : b.tmod a = 0
    · obtain ⟨hy, hx⟩ := ih0 hr
      subst hy
      simp only [mul_zero, sub_zero, Int.natAbs_zero, Nat.zero_le, and_true]
      rw [hx, Nat.mul_comm]
      exact Nat.mul_le_mul_left _ (le_max_left _ _)
    · obtain ⟨hy, hx⟩ := ih1 hr
      rw [max_eq_right hG] at hy
      refine ⟨?_, hy⟩
      have h1 : (x0 - b.tdiv a * y0).natAbs ≤ x0.natAbs + (b.tdiv a).natAbs * y0.natAbs := by
        have := Int.natAbs_sub_le x0 (b.tdiv a * y0)
        rwa [Int.natAbs_mul] at this
      calc Int.gcd a b * (x0 - b.tdiv a * y0).natAbs
          ≤ Int.gcd a b * (x0.natAbs + (b.tdiv a).natAbs * y0.natAbs) := Nat.mul_le_mul_left _ h1
        _ = Int.gcd a b * x0.natAbs + (b.tdiv a).natAbs * (Int.gcd a b * y0.natAbs) := by ring
        _ ≤ K * (b.tmod a).natAbs + (b.tdiv a).natAbs * (K * a.natAbs) :=
            Nat.add_le_add hx (Nat.mul_le_mul_left _ hy)
        _ = K * b.natAbs := by rw [hB]; ring
        _ ≤ K * max (Int.gcd a b) b.natAbs := Nat.mul_le_mul_left _ (le_max_right _ _)

theorem egcd_bound' (a b c x y : Int) (h : egcd a b c = .ok (some (x, y))) (hd : (Int.gcd a b : Int) ∣ c) :
    x.natAbs ≤ (c.natAbs / Int.gcd a b) * max 1 (b.natAbs / Int.gcd a b) ∧
    y.natAbs ≤ (c.natAbs / Int.gcd a b) * max 1 (a.natAbs / Int.gcd a b) := by
  have hdn : Int.gcd a b ∣ c.natAbs := by
    have := Int.natAbs_dvd_natAbs.mpr hd
    simpa using this
  obtain ⟨K, hK⟩ := hdn
  have hinv := egcd_inv a b c K x y h hK
  by_cases hG : Int.gcd a b = 0
  · -- a = b = 0: egcd errors
    rw [Int.gcd_eq_zero_iff] at hG
    obtain ⟨rfl, rfl⟩ := hG
    rw [egcd_zero_left] at h; simp at h
  have hGpos : 0 < Int.gcd a b := Nat.pos_of_ne_zero hG
  have hKdiv : c.natAbs / Int.gcd a b = K := by rw [hK]; exact Nat.mul_div_cancel_left _ hGpos
  rw [hKdiv]
  obtain ⟨A, hA⟩ : Int.gcd a b ∣ a.natAbs := by rw [Int.gcd]; exact Nat.gcd_dvd_left _ _
  obtain ⟨B, hB⟩ : Int.gcd a b ∣ b.natAbs := by rw [Int.gcd]; exact Nat.gcd_dvd_right _ _
  have hAdiv : a.natAbs / Int.gcd a b = A := by rw [hA]; exact Nat.mul_div_cancel_left _ hGpos
  have hBdiv : b.natAbs / Int.gcd a b = B := by rw [hB]; exact Nat.mul_div_cancel_left _ hGpos
  rw [hAdiv, hBdiv]
  by_cases ha : a = 0
  · obtain ⟨hx, hy⟩ := hinv.1 ha
    subst hx
    refine ⟨by simp, ?_⟩
    rw [hy]; exact Nat.le_mul_of_pos_right _ (by omega)
  · obtain ⟨hx, hy⟩ := hinv.2 ha
    constructor
    · have : Int.gcd a b * x.natAbs ≤ Int.gcd a b * (K * max 1 B) := by
        calc Int.gcd a b * x.natAbs ≤ K * max (Int.gcd a b) b.natAbs := hx
          _ = Int.gcd a b * (K * max 1 B) := by
            have e : max (Int.gcd a b) (Int.gcd a b * B) = Int.gcd a b * max 1 B := by
              rw [← Nat.mul_max_mul_left, Nat.mul_one]
            rw [hB, e]; ring
      exact Nat.le_of_mul_le_mul_left this hGpos
    · have : Int.gcd a b * y.natAbs ≤ Int.gcd a b * (K * max 1 A) := by
        calc Int.gcd a b * y.natAbs ≤ K * a.natAbs := hy
          _ = Int.gcd a b * (K * A) := by rw [hA]; ring
          _ ≤ Int.gcd a b * (K * max 1 A) :=
            Nat.mul_le_mul_left _ (Nat.mul_le_mul_left _ (le_max_right _ _))
      exact Nat.le_of_mul_le_mul_left this hGpos

theorem egcd_some_dvd (a b c x y : Int) (h : egcd a b c = .ok (some (x, y))) :
    ∃ K, c.natAbs = Int.gcd a b * K := by
  have hs := egcd_sound' a b c x y h
  have hd : (Int.gcd a b : Int) ∣ c := by
    rw [← hs]
    exact Int.dvd_add (Int.dvd_trans (Int.gcd_dvd_left a b) (Int.dvd_mul_right a x))
      (Int.dvd_trans (Int.gcd_dvd_right a b) (Int.dvd_mul_right b y))
  have := Int.natAbs_dvd_natAbs.mpr hd
  simp only [Int.natAbs_natCast] at this
  exact this

theorem checked_of_fits (t : IntTy) (z : Int) (h : t.fits z = true) : checked t z = .ok z := by
  simp [checked, h]

theorem egcdT_zero_left (t : IntTy) (b c : Int) : egcdT t 0 b c =
    if b = 0 then .error .divzero else if c.tmod b ≠ 0 then .ok none else
      match checked t (c.tdiv b) with
      | .error e => .error e
      | .ok q => .ok (some (0, q)) := by
  rw [egcdT, dif_pos rfl]
  rfl

theorem egcdT_step (t : IntTy) (a b c : Int) (ha : a ≠ 0) : egcdT t a b c =
    match egcdT t (b.tmod a) a c with
    | .error e => .error e
    | .ok none => .ok none
    | .ok (some (y0, x0)) =>
      match checked t (b.tdiv a) with
      | .error e => .error e
      | .ok q =>
      match checked t (q * y0) with
      | .error e => .error e
      | .ok p =>
      match checked t (x0 - p) with
      | .error e => .error e
      | .ok x => .ok (some (x, y0)) := by
  rw [egcdT, dif_neg ha]
  rfl

/-- If the type holds every integer of magnitude `≤ M` and every integer `z` with `gcd·|z| ≤ (|c|/gcd)·M`,
    and `|a|, |b| ≤ M`, then the checked recursion never overflows and equals the unbounded one. -/
theorem egcdT_eq (t : IntTy) (M : Nat) (hfit : ∀ z : Int, z.natAbs ≤ M → t.fits z = true) (a b c : Int) :
    a.natAbs ≤ M → b.natAbs ≤ M →
    (∀ K, c.natAbs = Int.gcd a b * K → ∀ z : Int, Int.gcd a b * z.natAbs ≤ K * M → t.fits z = true) →
    egcdT t a b c = egcd a b c := by
  induction a, b using egcd.induct c with
  | case1 => intro _ _ _; rw [egcd_zero_left, egcdT_zero_left]; simp
  | case2 b hb hc => intro _ _ _; rw [egcd_zero_left, egcdT_zero_left, if_neg hb, if_pos hc, if_neg hb, if_pos hc]
  | case3 b hb hc =>
    intro _ hbM hf
    rw [egcd_zero_left, egcdT_zero_left, if_neg hb, if_neg hc, if_neg hb, if_neg hc]
    have hdvd : b ∣ c := by
      have hc' : c.tmod b = 0 := by simpa using hc
      exact Int.dvd_iff_tmod_eq_zero.mpr hc'
    obtain ⟨k, rfl⟩ := hdvd
    have : t.fits ((b * k).tdiv b) = true := by
      apply hf k.natAbs
      · rw [Int.gcd_zero_left, Int.natAbs_mul]
      · rw [Int.gcd_zero_left, Int.mul_tdiv_cancel_left _ hb, Nat.mul_comm]
        exact Nat.mul_le_mul_left _ hbM
    rw [checked_of_fits _ _ this]
  | case4 a b ha e he ih =>
    intro haM hbM hf
    have hr : (b.tmod a).natAbs ≤ M := by
      rw [Int.natAbs_tmod]; exact Nat.le_trans (Nat.le_of_lt (Nat.mod_lt _ (by omega))) haM
    have ih' := ih hr haM (by rw [gcd_tmod_left]; exact hf)
    rw [egcd_step _ _ _ ha, egcdT_step _ _ _ _ ha, ih', he]
  | case5 a b ha he ih =>
    intro haM hbM hf
    have hr : (b.tmod a).natAbs ≤ M := by
      rw [Int.natAbs_tmod]; exact Nat.le_trans (Nat.le_of_lt (Nat.mod_lt _ (by omega))) haM
    have ih' := ih hr haM (by rw [gcd_tmod_left]; exact hf)
    rw [egcd_step _ _ _ ha, egcdT_step _ _ _ _ ha, ih', he]
  | case6 a b ha y0 x0 he ih =>
    intro haM hbM hf
    have hr : (b.tmod a).natAbs ≤ M := by
      rw [Int.natAbs_tmod]; exact Nat.le_trans (Nat.le_of_lt (Nat.mod_lt _ (by omega))) haM
    have ih' := ih hr haM (by rw [gcd_tmod_left]; exact hf)
    have hres : egcd a b c = .ok (some (x0 - b.tdiv a * y0, y0)) := by rw [egcd_step _ _ _ ha, he]
    rw [hres, egcdT_step _ _ _ _ ha, ih', he]
    obtain ⟨K, hK⟩ := egcd_some_dvd _ _ _ _ _ hres
    have hf' := hf K hK
    have inv0 := egcd_inv _ _ _ K _ _ he (by rw [gcd_tmod_left]; exact hK)
    rw [EgcdInv, gcd_tmod_left] at inv0
    have inv1 := (egcd_inv _ _ _ K _ _ hres hK).2 ha
    have hG : Int.gcd a b ≤ a.natAbs :=
      Nat.le_of_dvd (by omega) (by rw [Int.gcd]; exact Nat.gcd_dvd_left _ _)
    have hB : b.natAbs = (b.tdiv a).natAbs * a.natAbs + (b.tmod a).natAbs := by
      rw [Int.natAbs_tdiv, Int.natAbs_tmod, Nat.mul_comm]; exact (Nat.div_add_mod _ _).symm
    have h1 : t.fits (b.tdiv a) = true := by
      apply hfit
      rw [Int.natAbs_tdiv]
      exact Nat.le_trans (Nat.div_le_self _ _) hbM
    have h2 : t.fits (b.tdiv a * y0) = true := by
      apply hf'
      rw [Int.natAbs_mul]
      by_cases hr0 : b.tmod a = 0
      · rw [(inv0.1 hr0).1]; simp
      · have hy := (inv0.2 hr0).1
        rw [max_eq_right hG] at hy
        calc Int.gcd a b * ((b.tdiv a).natAbs * y0.natAbs)
            = (b.tdiv a).natAbs * (Int.gcd a b * y0.natAbs) := by ring
          _ ≤ (b.tdiv a).natAbs * (K * a.natAbs) := Nat.mul_le_mul_left _ hy
          _ = K * ((b.tdiv a).natAbs * a.natAbs) := by ring
          _ ≤ K * M := Nat.mul_le_mul_left _ (by omega)
    have h3 : t.fits (x0 - b.tdiv a * y0) = true := by
      apply hf'
      exact Nat.le_trans inv1.1 (Nat.mul_le_mul_left _ (max_le (Nat.le_trans hG haM) hbM))
    simp only [checked_of_fits _ _ h1, checked_of_fits _ _ h2, checked_of_fits _ _ h3]


theorem tmod_add_tmod_eq_emod (x m : Int) (hm : 0 < m) : ((x.tmod m) + m).tmod m = x % m := by
  have h1 : (x.tmod m).natAbs < m.natAbs := by
    rw [Int.natAbs_tmod]; exact Nat.mod_lt _ (by omega)
  have h2 : 0 ≤ x.tmod m + m := by omega
  rw [Int.tmod_eq_emod_of_nonneg h2, Int.add_emod_right, Int.tmod_def, Int.sub_eq_add_neg, ← Int.mul_neg,
    Int.add_mul_emod_self_left]

theorem lcm_eq_mul_div (m1 m2 : Int) (h1 : 0 < m1) (h2 : 0 < m2) :
    (Int.lcm m1 m2 : Int) = m1 * (m2 / (Int.gcd m1 m2 : Int)) := by
  have hg : (0 : Int) < Int.gcd m1 m2 := by
    have : Int.gcd m1 m2 ≠ 0 := by rw [Ne, Int.gcd_eq_zero_iff]; omega
    omega
  obtain ⟨k, hk⟩ := Int.gcd_dvd_right m1 m2
  have e : m2 / (Int.gcd m1 m2 : Int) = k := by
    exact Int.ediv_eq_of_eq_mul_right (by omega) hk
  rw [e]
  have h := Int.gcd_mul_lcm m1 m2
  have h' : ((Int.gcd m1 m2 : Int)) * (Int.lcm m1 m2 : Int) = m1 * m2 := by
    have : ((Int.gcd m1 m2 * Int.lcm m1 m2 : Nat) : Int) = ((m1.natAbs * m2.natAbs : Nat) : Int) := by rw [h]
    rw [Int.natCast_mul, Int.natCast_mul, Int.natAbs_of_nonneg (Int.le_of_lt h1),
      Int.natAbs_of_nonneg (Int.le_of_lt h2)] at this
    exact this
  have h'' : (Int.gcd m1 m2 : Int) * (Int.lcm m1 m2 : Int) = (Int.gcd m1 m2 : Int) * (m1 * k) := by
    rw [h']; conv_lhs => rw [hk]
    ring
  exact Int.eq_of_mul_eq_mul_left (by omega) h''

theorem crt_of_none (a1 m1 a2 m2 : Int) (h : egcd m1 (-m2) (a2 - a1) = .ok none) :
    crt a1 m1 a2 m2 = .ok none := by
  simp only [crt, h]

theorem crt_of_some (a1 m1 a2 m2 x y : Int) (h : egcd m1 (-m2) (a2 - a1) = .ok (some (x, y)))
    (hg : gcd m1 m2 ≠ 0) (hm : m2.tdiv (gcd m1 m2) ≠ 0) :
    crt a1 m1 a2 m2 = .ok (some (m1 * ((x.tmod (m2.tdiv (gcd m1 m2)) + m2.tdiv (gcd m1 m2)).tmod (m2.tdiv (gcd m1 m2))) + a1)) := by
  simp only [crt, h, if_neg hg, if_neg hm]

theorem crt_main (a1 m1 a2 m2 : Int) (hm1 : 1 ≤ m1) (hm2 : 1 ≤ m2) (ha1 : 0 ≤ a1 ∧ a1 < m1) (_ha2 : 0 ≤ a2 ∧ a2 < m2) :
    (¬ (Int.gcd m1 m2 : Int) ∣ a2 - a1 ∧ crt a1 m1 a2 m2 = .ok none) ∨
    ((Int.gcd m1 m2 : Int) ∣ a2 - a1 ∧ ∃ x, crt a1 m1 a2 m2 = .ok (some x) ∧ 0 ≤ x ∧ x < (Int.lcm m1 m2 : Int) ∧
      m1 ∣ x - a1 ∧ m2 ∣ x - a2) := by
  have hgpos : (0 : Int) < Int.gcd m1 m2 := by
    have : Int.gcd m1 m2 ≠ 0 := by rw [Ne, Int.gcd_eq_zero_iff]; omega
    omega
  have hgneg : Int.gcd m1 (-m2) = Int.gcd m1 m2 := Int.gcd_neg
  rcases egcd_complete' m1 (-m2) (a2 - a1) (by omega) with ⟨h, hd⟩ | ⟨x, y, h, hd⟩
  · left
    rw [hgneg] at hd
    exact ⟨hd, crt_of_none _ _ _ _ h⟩
  · right
    rw [hgneg] at hd
    refine ⟨hd, ?_⟩
    have hs := egcd_sound' _ _ _ _ _ h
    obtain ⟨k2, hk2⟩ := Int.gcd_dvd_right m1 m2
    obtain ⟨k1, hk1⟩ := Int.gcd_dvd_left m1 m2
    have hk2pos : 0 < k2 := by
      rcases Int.lt_trichotomy k2 0 with hneg | h0 | hpos
      · have := Int.mul_neg_of_pos_of_neg hgpos hneg; omega
      · rw [h0] at hk2; omega
      · exact hpos
    have hdiv : m2.tdiv (gcd m1 m2) = k2 := by
      rw [gcd_eq, Int.tdiv_eq_ediv_of_nonneg (by omega)]
      exact Int.ediv_eq_of_eq_mul_right (by omega) hk2
    have hediv : m2 / (Int.gcd m1 m2 : Int) = k2 := Int.ediv_eq_of_eq_mul_right (by omega) hk2
    have hc := crt_of_some a1 m1 a2 m2 x y h (by rw [gcd_eq]; omega) (by rw [hdiv]; omega)
    rw [hdiv, tmod_add_tmod_eq_emod _ _ hk2pos] at hc
    refine ⟨_, hc, ?_, ?_, ?_, ?_⟩
    · have := Int.mul_nonneg (by omega : 0 ≤ m1) (Int.emod_nonneg x (by omega : k2 ≠ 0))
      omega
    · rw [lcm_eq_mul_div _ _ (by omega) (by omega), hediv]
      have h1 : x % k2 ≤ k2 - 1 := by have := Int.emod_lt_of_pos x hk2pos; omega
      have h2 : m1 * (x % k2) ≤ m1 * (k2 - 1) := Int.mul_le_mul_of_nonneg_left h1 (by omega)
      have h3 : m1 * (k2 - 1) = m1 * k2 - m1 := by ring
      omega
    · exact ⟨x % k2, by ring⟩
    · refine ⟨y - k1 * (x / k2), ?_⟩
      have hx : x % k2 = x - k2 * (x / k2) := Int.emod_def x k2
      rw [hx]
      have e1 : m1 * k2 = k1 * m2 := by
        conv_lhs => rw [hk1]
        conv_rhs => rw [hk2]
        ring
      linear_combination hs - (x / k2) * e1

/-- Two solutions of the same pair of congruences inside `[0, lcm)` coincide. -/
theorem crt_unique' (a1 m1 a2 m2 x z : Int)
    (hx : 0 ≤ x ∧ x < (Int.lcm m1 m2 : Int)) (hz : 0 ≤ z ∧ z < (Int.lcm m1 m2 : Int))
    (hx1 : m1 ∣ x - a1) (hx2 : m2 ∣ x - a2) (hz1 : m1 ∣ z - a1) (hz2 : m2 ∣ z - a2) : z = x := by
  have d1 : m1 ∣ z - x := by
    have := Int.dvd_sub hz1 hx1
    have e : z - a1 - (x - a1) = z - x := by ring
    rwa [e] at this
  have d2 : m2 ∣ z - x := by
    have := Int.dvd_sub hz2 hx2
    have e : z - a2 - (x - a2) = z - x := by ring
    rwa [e] at this
  have d : (Int.lcm m1 m2 : Int) ∣ z - x := Int.natCast_dvd.mpr (Int.lcm_dvd (Int.dvd_natAbs.mpr d1) (Int.dvd_natAbs.mpr d2))
  have h0 : z - x = 0 := Int.eq_zero_of_dvd_of_natAbs_lt_natAbs d (by omega)
  omega

theorem gcdT_eq (t : IntTy) (a b : Int) (ha : t.fits (a.natAbs : Int) = true) (hb : t.fits (b.natAbs : Int) = true) :
    gcdT t a b = .ok (Int.gcd a b : Int) := by
  simp only [gcdT, checked_of_fits _ _ ha, checked_of_fits _ _ hb, gcd_eq]
  rfl

theorem lcmT_eq (t : IntTy) (a b : Int) (ha : t.fits (a.natAbs : Int) = true) (hb : t.fits (b.natAbs : Int) = true)
    (hab : ¬(a = 0 ∧ b = 0)) (hl : t.fits (Int.lcm a b : Int) = true) :
    lcmT t a b = .ok (Int.lcm a b : Int) := by
  simp only [lcmT, checked_of_fits _ _ ha, checked_of_fits _ _ hb, lcm_eq a b hab]
  show checked t _ = _
  exact checked_of_fits _ _ hl

/-- The absolute value of a representable operand other than the minimum of a signed type is representable. -/
theorem fits_natAbs (t : IntTy) (a : Int) (ha : t.fits a = true) (hmin : t.signed = true → a ≠ t.minVal) :
    t.fits (a.natAbs : Int) = true := by
  unfold IntTy.fits IntTy.minVal IntTy.maxVal at *
  cases hs : t.signed
  · simp only [hs, Bool.false_eq_true, if_false, Bool.and_eq_true, decide_eq_true_eq] at ha ⊢
    omega
  · simp only [hs, if_true, Bool.and_eq_true, decide_eq_true_eq] at ha ⊢
    have := hmin hs
    simp only [hs, if_true] at this
    omega

/-- Inside a box `1 ≤ m1, m2 ≤ M` with reduced residues, a type that holds every integer of magnitude `≤ 2·M²`
    computes `crt` without overflow. -/
theorem crtT_eq (t : IntTy) (M : Nat) (hfit : ∀ z : Int, z.natAbs ≤ 2 * M * M → t.fits z = true)
    (a1 m1 a2 m2 : Int) (hm1 : 1 ≤ m1 ∧ m1 ≤ M) (hm2 : 1 ≤ m2 ∧ m2 ≤ M)
    (ha1 : 0 ≤ a1 ∧ a1 < m1) (ha2 : 0 ≤ a2 ∧ a2 < m2) :
    crtT t a1 m1 a2 m2 = crt a1 m1 a2 m2 := by
  have hM : 1 ≤ M := by omega
  have hMM : M ≤ 2 * M * M := by nlinarith
  have hfitM : ∀ z : Int, z.natAbs ≤ M → t.fits z = true := fun z hz => hfit z (by omega)
  have hgpos : (0 : Int) < Int.gcd m1 m2 := by
    have : Int.gcd m1 m2 ≠ 0 := by rw [Ne, Int.gcd_eq_zero_iff]; omega
    omega
  have hgneg : Int.gcd m1 (-m2) = Int.gcd m1 m2 := Int.gcd_neg
  have hE : egcdT t m1 (-m2) (a2 - a1) = egcd m1 (-m2) (a2 - a1) := by
    apply egcdT_eq t M hfitM
    · omega
    · omega
    · intro K hK z hz
      apply hfit
      rw [hgneg] at hK hz
      have hGpos : 0 < Int.gcd m1 m2 := by omega
      have hKM : K ≤ M := by
        have : K ≤ Int.gcd m1 m2 * K := Nat.le_mul_of_pos_left _ hGpos
        omega
      have h1 : z.natAbs ≤ Int.gcd m1 m2 * z.natAbs := Nat.le_mul_of_pos_left _ hGpos
      have h2 : K * M ≤ M * M := Nat.mul_le_mul_right _ hKM
      have h3 : M * M ≤ 2 * M * M := by nlinarith
      omega
  have hdiv : 0 < m2.tdiv (gcd m1 m2) ∧ m2.tdiv (gcd m1 m2) ≤ m2 := by
    rw [gcd_eq, Int.tdiv_eq_ediv_of_nonneg (by omega)]
    exact ⟨Int.ediv_pos_of_pos_of_dvd (by omega) (by omega) (Int.gcd_dvd_right m1 m2),
      Int.ediv_le_self _ (by omega)⟩
  unfold crtT
  rw [gcdT_eq t m1 m2 (hfitM _ (by omega)) (hfitM _ (by omega))]
  simp only [checked_of_fits t (-m2) (hfitM _ (by omega)), checked_of_fits t (a2 - a1) (hfitM _ (by omega)), hE]
  rcases egcd_complete' m1 (-m2) (a2 - a1) (by omega) with ⟨h, _⟩ | ⟨x, y, h, _⟩
  · rw [crt_of_none _ _ _ _ h, h]
  · have hc := crt_of_some a1 m1 a2 m2 x y h (by rw [gcd_eq]; omega) (by omega)
    rw [hc, h]
    rcases crt_main a1 m1 a2 m2 hm1.1 hm2.1 ha1 ha2 with ⟨_, hn⟩ | ⟨_, r, hr, hr0, hrl, _, _⟩
    · rw [hn] at hc; simp at hc
    rw [hr] at hc
    simp only [Except.ok.injEq, Option.some.injEq] at hc
    rw [← gcd_eq]
    generalize m2.tdiv (gcd m1 m2) = k at hdiv hc ⊢
    have hl : (Int.lcm m1 m2 : Int) ≤ M * M := by
      rw [lcm_eq_mul_div _ _ (by omega) (by omega)]
      have h1 : m2 / (Int.gcd m1 m2 : Int) ≤ m2 := Int.ediv_le_self _ (by omega)
      have h0 : 0 ≤ m2 / (Int.gcd m1 m2 : Int) := Int.ediv_nonneg (by omega) (by omega)
      exact Int.mul_le_mul hm1.2 (by omega) h0 (by omega)
    have hN1 : 2 * M ≤ 2 * M * M := by nlinarith
    have hN2 : M * M ≤ 2 * M * M := by nlinarith
    have hMMi : ((M * M : Nat) : Int) = (M : Int) * (M : Int) := by push_cast; ring
    rw [← hMMi] at hl
    generalize 2 * M * M = N at hfit hN1 hN2
    generalize M * M = P at hl hN2
    have hx1 : (x.tmod k).natAbs < k.natAbs := by
      rw [Int.natAbs_tmod]; exact Nat.mod_lt _ (by omega)
    have hs0 : 0 ≤ x.tmod k + k := by omega
    have hx' : 0 ≤ (x.tmod k + k).tmod k := Int.tmod_nonneg _ hs0
    have hp0 : 0 ≤ m1 * (x.tmod k + k).tmod k := Int.mul_nonneg (by omega) hx'
    have hk : t.fits k = true := hfitM _ (by omega)
    have hsf : t.fits (x.tmod k + k) = true := hfit _ (by omega)
    have hpf : t.fits (m1 * (x.tmod k + k).tmod k) = true := hfit _ (by omega)
    have hrf : t.fits (m1 * (x.tmod k + k).tmod k + a1) = true := hfit _ (by omega)
    have hg0 : ¬ gcd m1 m2 = 0 := by rw [gcd_eq]; omega
    have hk0 : ¬ k = 0 := by omega
    simp only [if_neg hg0, checked_of_fits _ _ hk, if_neg hk0, checked_of_fits _ _ hsf, checked_of_fits _ _ hpf,
      checked_of_fits _ _ hrf]


/-! ### The checked instantiations at any signed type, on the per-input domain `domEgcd` / `domCrt` -/

theorem fits_of_natAbs_le_max (t : IntTy) (hs : t.signed = true) (z : Int) (h : z.natAbs ≤ t.maxVal.toNat) :
    t.fits z = true := by
  have hp : (0 : Int) < 2 ^ (t.bits - 1) := Int.pow_pos (by decide)
  simp only [IntTy.fits, IntTy.minVal, IntTy.maxVal, hs, if_true, Bool.and_eq_true, decide_eq_true_eq] at h ⊢
  generalize (2 : Int) ^ (t.bits - 1) = P at hp h ⊢
  omega

theorem absFits_iff (t : IntTy) (hs : t.signed = true) (z : Int) : absFits t z = true ↔ z.natAbs ≤ t.maxVal.toNat := by
  have hp : (0 : Int) < 2 ^ (t.bits - 1) := Int.pow_pos (by decide)
  simp only [absFits, IntTy.maxVal, hs, if_true, Bool.and_eq_true, decide_eq_true_eq]
  generalize (2 : Int) ^ (t.bits - 1) = P at hp ⊢
  omega

/-- `egcd` at a signed type: operands of magnitude `≤ MAX` and - whenever a solution exists - the coefficient bound
    `(|c|/g)·max(|a|,|b|) ≤ g·MAX` ⇒ no checked operation overflows. -/
theorem egcdT_of_bound (t : IntTy) (hs : t.signed = true) (a b c : Int)
    (ha : a.natAbs ≤ t.maxVal.toNat) (hb : b.natAbs ≤ t.maxVal.toNat) (hab : ¬(a = 0 ∧ b = 0))
    (hbound : c.natAbs % Int.gcd a b = 0 →
      (c.natAbs / Int.gcd a b) * max a.natAbs b.natAbs ≤ Int.gcd a b * t.maxVal.toNat) :
    egcdT t a b c = egcd a b c := by
  have hG : 0 < Int.gcd a b := Nat.pos_of_ne_zero (by rw [Ne, Int.gcd_eq_zero_iff]; exact hab)
  apply egcdT_eq t (max a.natAbs b.natAbs)
    (fun z hz => fits_of_natAbs_le_max t hs z (Nat.le_trans hz (max_le ha hb))) a b c (le_max_left _ _) (le_max_right _ _)
  intro K hK z hz
  apply fits_of_natAbs_le_max t hs
  have hmod : c.natAbs % Int.gcd a b = 0 := by rw [hK]; exact Nat.mul_mod_right _ _
  have hdiv : c.natAbs / Int.gcd a b = K := by rw [hK]; exact Nat.mul_div_cancel_left _ hG
  have hb' := hbound hmod
  rw [hdiv] at hb'
  exact Nat.le_of_mul_le_mul_left (Nat.le_trans hz hb') hG

theorem egcdT_dom' (t : IntTy) (a b c : Int) (h : domEgcd t a b c = true) : egcdT t a b c = egcd a b c := by
  simp only [domEgcd, Bool.and_eq_true, Bool.or_eq_true, Bool.not_eq_true', decide_eq_true_eq, decide_eq_false_iff_not,
    Bool.and_eq_false_imp] at h
  obtain ⟨⟨⟨⟨⟨hs, ha⟩, hb⟩, _⟩, hab⟩, hbound⟩ := h
  apply egcdT_of_bound t hs a b c ((absFits_iff t hs a).mp ha) ((absFits_iff t hs b).mp hb)
  · intro h0; exact absurd h0.2 (hab h0.1)
  · intro hmod
    rcases hbound with h1 | h1
    · exact absurd hmod h1
    · exact h1

/-- `crt` at a signed type on `domCrt`: no checked operation overflows. -/
theorem crtT_dom' (t : IntTy) (a1 m1 a2 m2 : Int) (h : domCrt t a1 m1 a2 m2 = true) :
    crtT t a1 m1 a2 m2 = crt a1 m1 a2 m2 := by
  simp only [domCrt, Bool.and_eq_true, Bool.or_eq_true, decide_eq_true_eq] at h
  obtain ⟨⟨⟨⟨⟨⟨⟨⟨⟨hs, hm1⟩, hm2⟩, ha10⟩, ha1⟩, ha20⟩, ha2⟩, hM1⟩, hM2⟩, hcase⟩ := h
  have hN : (t.maxVal.toNat : Int) = t.maxVal := Int.toNat_of_nonneg (by omega)
  have hfitN : ∀ z : Int, z.natAbs ≤ t.maxVal.toNat → t.fits z = true := fits_of_natAbs_le_max t hs
  have hgpos : (0 : Int) < Int.gcd m1 m2 := by
    have : Int.gcd m1 m2 ≠ 0 := by rw [Ne, Int.gcd_eq_zero_iff]; omega
    omega
  have hgneg : Int.gcd m1 (-m2) = Int.gcd m1 m2 := Int.gcd_neg
  have hE : egcdT t m1 (-m2) (a2 - a1) = egcd m1 (-m2) (a2 - a1) := by
    apply egcdT_of_bound t hs m1 (-m2) (a2 - a1) (by omega) (by omega) (by omega)
    intro hmod
    rw [hgneg] at hmod ⊢
    rw [Int.natAbs_neg]
    rcases hcase with h1 | h1
    · exact absurd hmod (by simpa using h1)
    · exact h1.1.1
  have hdiv : 0 < m2.tdiv (gcd m1 m2) ∧ m2.tdiv (gcd m1 m2) ≤ m2 ∧ m2.tdiv (gcd m1 m2) = m2 / (Int.gcd m1 m2 : Int) := by
    rw [gcd_eq, Int.tdiv_eq_ediv_of_nonneg (by omega)]
    exact ⟨Int.ediv_pos_of_pos_of_dvd (by omega) (by omega) (Int.gcd_dvd_right m1 m2),
      Int.ediv_le_self _ (by omega), rfl⟩
  unfold crtT
  rw [gcdT_eq t m1 m2 (hfitN _ (by omega)) (hfitN _ (by omega))]
  simp only [checked_of_fits t (-m2) (hfitN _ (by omega)), checked_of_fits t (a2 - a1) (hfitN _ (by omega)), hE]
  rcases egcd_complete' m1 (-m2) (a2 - a1) (by omega) with ⟨h, _⟩ | ⟨x, y, h, hd⟩
  · rw [crt_of_none _ _ _ _ h, h]
  · have hc := crt_of_some a1 m1 a2 m2 x y h (by rw [gcd_eq]; omega) (by omega)
    rw [hc, h]
    rcases crt_main a1 m1 a2 m2 hm1 hm2 ⟨ha10, ha1⟩ ⟨ha20, ha2⟩ with ⟨_, hn⟩ | ⟨_, r, hr, hr0, hrl, _, _⟩
    · rw [hn] at hc; simp at hc
    rw [hr] at hc
    simp only [Except.ok.injEq, Option.some.injEq] at hc
    -- the congruences are compatible, so the second alternative of the domain applies
    rw [hgneg] at hd
    have hmod : (a2 - a1).natAbs % Int.gcd m1 m2 = 0 := Nat.mod_eq_zero_of_dvd (Int.natCast_dvd.mp hd)
    obtain ⟨⟨_, h2k⟩, hlcm⟩ : (((a2 - a1).natAbs / Int.gcd m1 m2) * max m1.natAbs m2.natAbs ≤ Int.gcd m1 m2 * t.maxVal.toNat ∧
        2 * (m2 / (Int.gcd m1 m2 : Int)) ≤ t.maxVal) ∧ (Int.lcm m1 m2 : Int) ≤ t.maxVal := by
      rcases hcase with h1 | h1
      · exact absurd hmod (by simpa using h1)
      · exact h1
    rw [← hdiv.2.2] at h2k
    rw [← gcd_eq]
    generalize m2.tdiv (gcd m1 m2) = k at hdiv hc h2k ⊢
    have hx1 : (x.tmod k).natAbs < k.natAbs := by
      rw [Int.natAbs_tmod]; exact Nat.mod_lt _ (by omega)
    have hs0 : 0 ≤ x.tmod k + k := by omega
    have hx' : 0 ≤ (x.tmod k + k).tmod k := Int.tmod_nonneg _ hs0
    have hp0 : 0 ≤ m1 * (x.tmod k + k).tmod k := Int.mul_nonneg (by omega) hx'
    have hk : t.fits k = true := hfitN _ (by omega)
    have hsf : t.fits (x.tmod k + k) = true := hfitN _ (by omega)
    have hpf : t.fits (m1 * (x.tmod k + k).tmod k) = true := hfitN _ (by omega)
    have hrf : t.fits (m1 * (x.tmod k + k).tmod k + a1) = true := hfitN _ (by omega)
    have hg0 : ¬ gcd m1 m2 = 0 := by rw [gcd_eq]; omega
    have hk0 : ¬ k = 0 := by omega
    simp only [if_neg hg0, checked_of_fits _ _ hk, if_neg hk0, checked_of_fits _ _ hsf, checked_of_fits _ _ hpf,
      checked_of_fits _ _ hrf]

/-- The property's `2^20` box lies inside the `i64` domain (so the driver's definite answers cover it). -/
theorem box_domEgcd (a b c : Int) (ha : a.natAbs ≤ 2 ^ 20) (hb : b.natAbs ≤ 2 ^ 20) (hc : c.natAbs ≤ 2 ^ 20)
    (hab : ¬(a = 0 ∧ b = 0)) : domEgcd IntTy.i64 a b c = true := by
  have hG : 0 < Int.gcd a b := Nat.pos_of_ne_zero (by rw [Ne, Int.gcd_eq_zero_iff]; exact hab)
  have hmax : (IntTy.i64).maxVal = 2 ^ 63 - 1 := by decide
  simp only [domEgcd, absFits, hmax, Bool.and_eq_true, Bool.or_eq_true, Bool.not_eq_true', decide_eq_true_eq]
  refine ⟨⟨⟨⟨⟨rfl, ?_⟩, ?_⟩, ?_⟩, ?_⟩, Or.inr ?_⟩
  · omega
  · omega
  · omega
  · simp only [Bool.and_eq_false_imp, decide_eq_true_eq, decide_eq_false_iff_not]
    intro h0 h1; exact hab ⟨h0, h1⟩
  · have h1 : c.natAbs / Int.gcd a b ≤ 2 ^ 20 := Nat.le_trans (Nat.div_le_self _ _) hc
    have h2 : max a.natAbs b.natAbs ≤ 2 ^ 20 := max_le ha hb
    have h3 : (c.natAbs / Int.gcd a b) * max a.natAbs b.natAbs ≤ 2 ^ 20 * 2 ^ 20 := Nat.mul_le_mul h1 h2
    have h4 : (2 ^ 63 - 1 : Int).toNat ≤ Int.gcd a b * (2 ^ 63 - 1 : Int).toNat := Nat.le_mul_of_pos_left _ hG
    have h5 : (2 : Nat) ^ 20 * 2 ^ 20 ≤ (2 ^ 63 - 1 : Int).toNat := by decide
    omega

theorem box_domCrt (a1 m1 a2 m2 : Int) (hm1 : 1 ≤ m1 ∧ m1 ≤ 2 ^ 20) (hm2 : 1 ≤ m2 ∧ m2 ≤ 2 ^ 20)
    (ha1 : 0 ≤ a1 ∧ a1 < m1) (ha2 : 0 ≤ a2 ∧ a2 < m2) : domCrt IntTy.i64 a1 m1 a2 m2 = true := by
  have hG : 0 < Int.gcd m1 m2 := Nat.pos_of_ne_zero (by rw [Ne, Int.gcd_eq_zero_iff]; omega)
  have hmax : (IntTy.i64).maxVal = 2 ^ 63 - 1 := by decide
  simp only [domCrt, hmax, Bool.and_eq_true, Bool.or_eq_true, decide_eq_true_eq]
  refine ⟨⟨⟨⟨⟨⟨⟨⟨⟨rfl, hm1.1⟩, hm2.1⟩, ha1.1⟩, ha1.2⟩, ha2.1⟩, ha2.2⟩, by omega⟩, by omega⟩, Or.inr ⟨⟨?_, ?_⟩, ?_⟩⟩
  · have h1 : (a2 - a1).natAbs / Int.gcd m1 m2 ≤ 2 ^ 20 := Nat.le_trans (Nat.div_le_self _ _) (by omega)
    have h2 : max m1.natAbs m2.natAbs ≤ 2 ^ 20 := max_le (by omega) (by omega)
    have h3 := Nat.mul_le_mul h1 h2
    have h4 : (2 ^ 63 - 1 : Int).toNat ≤ Int.gcd m1 m2 * (2 ^ 63 - 1 : Int).toNat := Nat.le_mul_of_pos_left _ hG
    have h5 : (2 : Nat) ^ 20 * 2 ^ 20 ≤ (2 ^ 63 - 1 : Int).toNat := by decide
    omega
  · have h1 : m2 / (Int.gcd m1 m2 : Int) ≤ m2 := Int.ediv_le_self _ (by omega)
    omega
  · rw [lcm_eq_mul_div _ _ (by omega) (by omega)]
    have h1 : m2 / (Int.gcd m1 m2 : Int) ≤ m2 := Int.ediv_le_self _ (by omega)
    have h0 : 0 ≤ m2 / (Int.gcd m1 m2 : Int) := Int.ediv_nonneg (by omega) (by omega)
    have h2 : m1 * (m2 / (Int.gcd m1 m2 : Int)) ≤ 2 ^ 20 * 2 ^ 20 := Int.mul_le_mul hm1.2 (by omega) h0 (by omega)
    omega

end Rlib.Gcd
