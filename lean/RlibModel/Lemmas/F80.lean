import RlibModel.Model.F80
/-!
Lemmas for C18, part 1: the comparison logic of `rlib_f80` on top of the compare-instruction outcome.
-/
namespace Rlib.F80

/-! ### order of dyadics -/

theorem Dy.lt_iff (x y : Dy) : x.lt y = true ↔ x.scaled (Min.min x.e y.e) < y.scaled (Min.min x.e y.e) := by
  simp [Dy.lt]

theorem Dy.veq_iff (x y : Dy) : x.veq y = true ↔ x.scaled (Min.min x.e y.e) = y.scaled (Min.min x.e y.e) := by
  simp [Dy.veq]

theorem Dy.lt_swap (x y : Dy) : y.lt x = true ↔ y.scaled (Min.min x.e y.e) < x.scaled (Min.min x.e y.e) := by
  rw [Dy.lt_iff, Int.min_comm]

theorem Dy.lt_asymm (x y : Dy) : x.lt y = true → y.lt x = false := by
  intro h
  have h1 := (Dy.lt_iff x y).1 h
  cases h2 : y.lt x
  · rfl
  · have := (Dy.lt_swap x y).1 h2; omega

theorem Dy.veq_iff_not_lt (x y : Dy) : x.veq y = true ↔ (x.lt y = false ∧ y.lt x = false) := by
  rw [Dy.veq_iff]
  constructor
  · intro h
    constructor
    · cases h1 : x.lt y
      · rfl
      · have := (Dy.lt_iff x y).1 h1; omega
    · cases h2 : y.lt x
      · rfl
      · have := (Dy.lt_swap x y).1 h2; omega
  · intro ⟨h1, h2⟩
    have n1 : ¬ (x.scaled (Min.min x.e y.e) < y.scaled (Min.min x.e y.e)) := by
      intro h; rw [← Dy.lt_iff] at h; simp [h1] at h
    have n2 : ¬ (y.scaled (Min.min x.e y.e) < x.scaled (Min.min x.e y.e)) := by
      intro h; rw [← Dy.lt_swap] at h; simp [h2] at h
    omega

theorem Dy.veq_comm (x y : Dy) : x.veq y = y.veq x := by
  have a := Dy.veq_iff_not_lt x y
  have b := Dy.veq_iff_not_lt y x
  cases h1 : x.veq y <;> cases h2 : y.veq x <;> simp_all

theorem Dy.lt_irrefl (x : Dy) : x.lt x = false := by
  cases h : x.lt x
  · rfl
  · have := (Dy.lt_iff x x).1 h; omega

theorem Dy.veq_refl (x : Dy) : x.veq x = true := by
  rw [Dy.veq_iff]

/-! ### the four-way outcome of the compare unit, in terms of the IEEE relations -/

theorem cmpClass_unordered (a b : Class) : cmpClass a b = .unordered ↔ (a.isNaN = true ∨ b.isNaN = true) := by
  cases a <;> cases b <;> simp [cmpClass, Class.isNaN] <;> (repeat' split) <;> simp_all

theorem cmpClass_less (a b : Class) : cmpClass a b = .less ↔ a.lt b = true := by
  cases a with
  | nan => cases b <;> simp [cmpClass, Class.lt]
  | inf s => cases b <;> cases s <;> simp [cmpClass, Class.lt] <;> (try split) <;> simp_all
  | fin x =>
    cases b with
    | nan => simp [cmpClass, Class.lt]
    | inf t => cases t <;> simp [cmpClass, Class.lt]
    | fin y =>
      simp only [cmpClass, Class.lt]
      cases h1 : x.lt y
      · cases h2 : y.lt x <;> simp
      · simp

theorem cmpClass_greater (a b : Class) : cmpClass a b = .greater ↔ b.lt a = true := by
  cases a with
  | nan => cases b <;> simp [cmpClass, Class.lt]
  | inf s => cases b <;> cases s <;> simp [cmpClass, Class.lt] <;> (try split) <;> simp_all
  | fin x =>
    cases b with
    | nan => simp [cmpClass, Class.lt]
    | inf t => cases t <;> simp [cmpClass, Class.lt]
    | fin y =>
      simp only [cmpClass, Class.lt]
      cases h1 : x.lt y
      · cases h2 : y.lt x <;> simp
      · have := Dy.lt_asymm x y h1
        simp [this]

theorem cmpClass_equal (a b : Class) : cmpClass a b = .equal ↔ a.eq b = true := by
  cases a with
  | nan => cases b <;> simp [cmpClass, Class.eq]
  | inf s => cases b <;> cases s <;> simp [cmpClass, Class.eq] <;> (try split) <;> simp_all
  | fin x =>
    cases b with
    | nan => simp [cmpClass, Class.eq]
    | inf t => cases t <;> simp [cmpClass, Class.eq]
    | fin y =>
      simp only [cmpClass, Class.eq]
      rw [Dy.veq_iff_not_lt]
      cases h1 : x.lt y <;> cases h2 : y.lt x <;> simp

/-! ### IEEE relations: basic facts used by the property theorems -/

theorem Class.lt_asymm (a b : Class) : a.lt b = true → b.lt a = false := by
  cases a with
  | nan => simp [Class.lt]
  | inf s => cases b <;> cases s <;> simp [Class.lt]
  | fin x =>
    cases b with
    | nan => simp [Class.lt]
    | inf t => cases t <;> simp [Class.lt]
    | fin y => simpa [Class.lt] using Dy.lt_asymm x y

theorem Class.eq_comm (a b : Class) : a.eq b = b.eq a := by
  cases a with
  | nan => cases b <;> simp [Class.eq]
  | inf s => cases b <;> simp [Class.eq, Bool.beq_comm]
  | fin x => cases b <;> simp [Class.eq, Dy.veq_comm]

theorem Class.eq_iff (a b : Class) :
    a.eq b = true ↔ (a.isNaN = false ∧ b.isNaN = false ∧ a.lt b = false ∧ b.lt a = false) := by
  cases a with
  | nan => cases b <;> simp [Class.eq, Class.isNaN]
  | inf s => cases b <;> cases s <;> simp [Class.eq, Class.isNaN, Class.lt]
  | fin x =>
    cases b with
    | nan => simp [Class.eq, Class.isNaN]
    | inf t => cases t <;> simp [Class.eq, Class.isNaN, Class.lt]
    | fin y => simp [Class.eq, Class.isNaN, Class.lt, Dy.veq_iff_not_lt]

theorem Class.lt_not_nan (a b : Class) : a.lt b = true → a.isNaN = false ∧ b.isNaN = false := by
  cases a <;> cases b <;> simp [Class.lt, Class.isNaN]

/-! ### flags of `fcomi` -/

theorem fcomi_flags (s t : F80) :
    (fcomi s t).pf = ((classify s).isNaN || (classify t).isNaN) ∧
    seta (fcomi s t) = (classify t).lt (classify s) ∧
    condNBE (fcomi s t) = (classify t).lt (classify s) ∧
    condBE (fcomi s t) = !((classify t).lt (classify s)) := by
  have hu := cmpClass_unordered (classify s) (classify t)
  have hl := cmpClass_less (classify s) (classify t)
  have hg := cmpClass_greater (classify s) (classify t)
  have he := cmpClass_equal (classify s) (classify t)
  unfold fcomi seta condNBE condBE
  cases h : cmpClass (classify s) (classify t) <;> simp [h] at hu hl hg he ⊢
  · -- unordered
    cases h1 : (classify s).isNaN <;> cases h2 : (classify t).isNaN <;> simp_all
  · -- less
    have := Class.lt_not_nan _ _ hl
    have := Class.lt_asymm _ _ hl
    simp_all
  · -- equal
    have := (Class.eq_iff _ _).1 he
    simp_all
  · -- greater
    have := Class.lt_not_nan _ _ hg
    simp_all

theorem unordered_eq (a b : F80) : unordered a b = ((classify a).isNaN || (classify b).isNaN) := by
  unfold unordered setp
  rw [(fcomi_flags b a).1, Bool.or_comm]

theorem lt_eq (a b : F80) : lt a b = (classify a).lt (classify b) := by
  unfold lt
  exact (fcomi_flags b a).2.1

/-! ### min / max / abs -/

theorem min_eq (a b : F80) : min a b = if (classify a).lt (classify b) then a else b := by
  unfold min
  rw [(fcomi_flags b a).2.2.1]

theorem max_eq (a b : F80) : max a b = if (classify a).lt (classify b) then b else a := by
  unfold max
  rw [(fcomi_flags b a).2.2.2]
  cases (classify a).lt (classify b) <;> simp

theorem Class.eq_refl (a : Class) (h : a.isNaN = false) : a.eq a = true := by
  cases a with
  | nan => simp [Class.isNaN] at h
  | inf s => simp [Class.eq]
  | fin x => simp [Class.eq, Dy.veq_refl]

theorem Class.le_refl (a : Class) (h : a.isNaN = false) : a.le a = true := by
  simp [Class.le, Class.eq_refl a h]

/-- totality of the IEEE order away from NaN -/
theorem Class.le_of_not_lt (a b : Class) (ha : a.isNaN = false) (hb : b.isNaN = false)
    (h : a.lt b = false) : b.le a = true := by
  unfold Class.le
  cases h2 : b.lt a
  · have := (Class.eq_iff b a).2 ⟨hb, ha, h2, h⟩
    simp [this]
  · simp

/-- sign replacement commutes with classification -/
def Class.withSign (s : Bool) : Class → Class
  | .nan => .nan
  | .inf _ => .inf s
  | .fin x => .fin ⟨s, x.m, x.e⟩

theorem classify_withSign (a : F80) (s : Bool) :
    classify { a with sign := s } = (classify a).withSign s := by
  unfold classify
  simp only
  (repeat' split) <;> simp_all [Class.withSign]

theorem classify_neg (a : F80) : classify (neg a) = negC (classify a) := by
  unfold neg classify
  simp only
  (repeat' split) <;> simp_all [negC]

theorem ofF64_zero : ofF64 ⟨false, 0, 0⟩ = zero := by decide

theorem classify_zero : classify zero = .fin ⟨false, 0, -16445⟩ := by decide

theorem Dy.scaled_zero (s : Bool) (e k : Int) : (Dy.mk s 0 e).scaled k = 0 := by
  unfold Dy.scaled
  cases s <;> simp

theorem shl_eq_zero (m j : Nat) : m <<< j = 0 ↔ m = 0 := by
  rw [Nat.shiftLeft_eq]
  constructor
  · intro h
    have := Nat.two_pow_pos j
    cases Nat.mul_eq_zero.1 h with
    | inl h => exact h
    | inr h => omega
  · intro h; simp [h]

theorem Dy.lt_zero_iff (x : Dy) (e : Int) : x.lt ⟨false, 0, e⟩ = (x.neg && decide (x.m ≠ 0)) := by
  unfold Dy.lt
  rw [Dy.scaled_zero]
  unfold Dy.scaled
  simp only
  have := shl_eq_zero x.m (x.e - Min.min x.e e).toNat
  generalize x.m <<< (x.e - Min.min x.e e).toNat = v at this ⊢
  cases hn : x.neg <;> by_cases hm : x.m = 0 <;> simp [hm] <;> omega

theorem Dy.zero_lt_iff (x : Dy) (e : Int) : (Dy.mk false 0 e).lt x = (!x.neg && decide (x.m ≠ 0)) := by
  unfold Dy.lt
  rw [Dy.scaled_zero]
  unfold Dy.scaled
  simp only
  have := shl_eq_zero x.m (x.e - Min.min e x.e).toNat
  generalize x.m <<< (x.e - Min.min e x.e).toNat = v at this ⊢
  cases hn : x.neg <;> by_cases hm : x.m = 0 <;> simp [hm] <;> omega

theorem Dy.veq_sign_zero (s t : Bool) (e : Int) : (Dy.mk s 0 e).veq ⟨t, 0, e⟩ = true := by
  rw [Dy.veq_iff, Dy.scaled_zero, Dy.scaled_zero]

theorem abs_eq (a : F80) : abs a = if (classify a).lt (classify zero) then neg a else a := by
  unfold abs
  rw [ofF64_zero, lt_eq]

theorem classify_abs (a : F80) :
    classify (abs a) = if (classify a).lt (classify zero) then negC (classify a) else classify a := by
  rw [abs_eq]
  cases h : (classify a).lt (classify zero)
  · simp
  · simp [classify_neg]

/-- class-level content of `abs_spec` -/
theorem Class.abs_ok (c : Class) (hc : c.isNaN = false) (e : Int) :
    let r := if c.lt (.fin ⟨false, 0, e⟩) then negC c else c
    r.eq (c.withSign false) = true ∧ r.lt (.fin ⟨false, 0, e⟩) = false := by
  cases c with
  | nan => simp [Class.isNaN] at hc
  | inf s => cases s <;> simp [Class.lt, negC, Class.withSign, Class.eq]
  | fin x =>
    obtain ⟨n, m, ex⟩ := x
    simp only [Class.lt, Dy.lt_zero_iff]
    cases n <;> by_cases hm : m = 0
    · subst hm
      simp [Class.withSign, Class.eq, Dy.lt_zero_iff, Dy.veq_refl]
    · simp [hm, Class.withSign, Class.eq, Dy.lt_zero_iff, Dy.veq_refl]
    · subst hm
      simp [Class.withSign, Class.eq, Dy.lt_zero_iff, Dy.veq_sign_zero]
    · simp [hm, negC, Class.withSign, Class.eq, Dy.lt_zero_iff, Dy.veq_refl]

theorem classify_specAbs (a : F80) : classify (specAbs a) = (classify a).withSign false :=
  classify_withSign a false

theorem isNaN_iff (a : F80) : isNaN a = (classify a).isNaN := by
  unfold isNaN
  cases classify a <;> simp [Class.isNaN]

/-! ### value-level rendering (`canonBits`) used by the driver for `min` / `max` / `abs` -/

/-- the exponent field used for the value: a (pseudo-)denormal counts as exponent field 1 -/
def canonExp (a : F80) : Nat := if a.exp = 0 then 1 else a.exp

theorem classify_fin (a : F80) (x : Dy) (h : classify a = .fin x) :
    x = ⟨a.sign, a.sig, (canonExp a : Int) - 16446⟩ ∧ a.exp ≠ 0x7FFF ∧ (a.exp ≠ 0 → two63 ≤ a.sig) := by
  unfold classify at h
  unfold canonExp
  split at h
  · split at h <;> cases h
  · split at h
    · rename_i h1 h2
      injection h with h
      subst h
      simp [h2]
    · split at h
      · cases h
      · rename_i h1 h2 h3
        injection h with h
        subst h
        simp [h2]
        exact ⟨h1, by omega⟩

theorem canonBits_fin (a : F80) (x : Dy) (h : classify a = .fin x) :
    canonBits a = if a.sig = 0 then some 0 else some (({ a with exp := canonExp a } : F80).toNat) := by
  obtain ⟨hx, _, _⟩ := classify_fin a x h
  unfold canonBits
  rw [h]
  simp only
  subst hx
  rfl

theorem shl_ge_double (m j : Nat) (hj : 0 < j) : 2 * m ≤ m <<< j := by
  rw [Nat.shiftLeft_eq]
  have : 2 ^ 1 ≤ 2 ^ j := Nat.pow_le_pow_right (by omega) hj
  calc 2 * m = m * 2 ^ 1 := by omega
    _ ≤ m * 2 ^ j := Nat.mul_le_mul_left m this

/-- IEEE-equal operands (in 64-bit-significand encodings) have the same value-level rendering -/
theorem canonBits_eq_of_eq (a b : F80) (ha : a.sig < 2 ^ 64) (hb : b.sig < 2 ^ 64)
    (h : (classify a).eq (classify b) = true) : canonBits a = canonBits b := by
  cases hca : classify a with
  | nan => rw [hca] at h; cases classify b <;> simp [Class.eq] at h
  | inf s =>
    rw [hca] at h
    cases hcb : classify b with
    | nan => rw [hcb] at h; simp [Class.eq] at h
    | fin y => rw [hcb] at h; simp [Class.eq] at h
    | inf t =>
      rw [hcb] at h
      simp only [Class.eq, beq_iff_eq] at h
      subst h
      unfold canonBits
      rw [hca, hcb]
      simp only
      -- both are the same infinity pattern
      unfold classify at hca hcb
      have ea : a = ⟨s, 0x7FFF, two63⟩ := by
        obtain ⟨sa, ea, ma⟩ := a
        simp only at hca
        (repeat' split at hca) <;> simp_all
      have eb : b = ⟨s, 0x7FFF, two63⟩ := by
        obtain ⟨sb, eb, mb⟩ := b
        simp only at hcb
        (repeat' split at hcb) <;> simp_all
      rw [ea, eb]
  | fin x =>
    rw [hca] at h
    cases hcb : classify b with
    | nan => rw [hcb] at h; simp [Class.eq] at h
    | inf t => rw [hcb] at h; simp [Class.eq] at h
    | fin y =>
      rw [hcb] at h
      simp only [Class.eq] at h
      rw [canonBits_fin a x hca, canonBits_fin b y hcb]
      obtain ⟨hx, _, hna⟩ := classify_fin a x hca
      obtain ⟨hy, _, hnb⟩ := classify_fin b y hcb
      rw [Dy.veq_iff] at h
      subst hx hy
      unfold Dy.scaled at h
      simp only at h
      have cea : 1 ≤ canonExp a := by unfold canonExp; split <;> omega
      have ceb : 1 ≤ canonExp b := by unfold canonExp; split <;> omega
      have cea' : canonExp a ≠ 1 → a.exp = canonExp a ∧ a.exp ≠ 0 := by unfold canonExp; split <;> omega
      have ceb' : canonExp b ≠ 1 → b.exp = canonExp b ∧ b.exp ≠ 0 := by unfold canonExp; split <;> omega
      generalize hk : Min.min ((canonExp a : Int) - 16446) ((canonExp b : Int) - 16446) = k at h
      have za := shl_eq_zero a.sig (((canonExp a : Int) - 16446) - k).toNat
      have zb := shl_eq_zero b.sig (((canonExp b : Int) - 16446) - k).toNat
      by_cases hsa : a.sig = 0
      · -- both zero
        have : b.sig = 0 := by
          rw [hsa] at h
          simp only [Nat.zero_shiftLeft] at h
          apply zb.1
          generalize b.sig <<< (((canonExp b : Int) - 16446) - k).toNat = v at *
          cases a.sign <;> cases b.sign <;> simp at h <;> omega
        simp [hsa, this]
      · have hsb : b.sig ≠ 0 := by
          intro hsb
          rw [hsb] at h
          simp only [Nat.zero_shiftLeft] at h
          apply hsa
          apply za.1
          generalize a.sig <<< (((canonExp a : Int) - 16446) - k).toNat = v at *
          cases a.sign <;> cases b.sign <;> simp at h <;> omega
        rw [if_neg hsa, if_neg hsb]
        -- equal signs, equal scaled magnitudes
        have hmag : a.sign = b.sign ∧
            a.sig <<< (((canonExp a : Int) - 16446) - k).toNat = b.sig <<< (((canonExp b : Int) - 16446) - k).toNat := by
          have pa : a.sig <<< (((canonExp a : Int) - 16446) - k).toNat ≠ 0 := fun hh => hsa (za.1 hh)
          have pb : b.sig <<< (((canonExp b : Int) - 16446) - k).toNat ≠ 0 := fun hh => hsb (zb.1 hh)
          generalize a.sig <<< (((canonExp a : Int) - 16446) - k).toNat = va at *
          generalize b.sig <<< (((canonExp b : Int) - 16446) - k).toNat = vb at *
          cases hsa' : a.sign <;> cases hsb' : b.sign <;> simp [hsa', hsb'] at h ⊢ <;> omega
        obtain ⟨hsign, hm⟩ := hmag
        rcases Nat.lt_trichotomy (canonExp a) (canonExp b) with hlt | heq | hgt
        · -- b has the larger exponent field, so it is normal and a.sig ≥ 2 * 2^63
          exfalso
          have hbn := ceb' (by omega)
          have := hnb hbn.2
          have e1 : (((canonExp a : Int) - 16446) - k).toNat = 0 := by omega
          rw [e1, Nat.shiftLeft_zero] at hm
          have := shl_ge_double b.sig (((canonExp b : Int) - 16446) - k).toNat (by omega)
          unfold two63 at *
          omega
        · have e1 : (((canonExp a : Int) - 16446) - k).toNat = 0 := by omega
          have e2 : (((canonExp b : Int) - 16446) - k).toNat = 0 := by omega
          rw [e1, e2, Nat.shiftLeft_zero, Nat.shiftLeft_zero] at hm
          simp only [F80.toNat, hsign, heq, hm]
        · exfalso
          have han := cea' (by omega)
          have := hna han.2
          have e1 : (((canonExp b : Int) - 16446) - k).toNat = 0 := by omega
          rw [e1, Nat.shiftLeft_zero] at hm
          have := shl_ge_double a.sig (((canonExp a : Int) - 16446) - k).toNat (by omega)
          unfold two63 at *
          omega

theorem min_view_core (a b : F80) (ha : a.sig < 2 ^ 64) (hb : b.sig < 2 ^ 64)
    (na : (classify a).isNaN = false) (nb : (classify b).isNaN = false) :
    canonBits (min a b) = canonBits (specMin a b) := by
  rw [min_eq]
  unfold specMin specLt
  cases h1 : (classify a).lt (classify b)
  · cases h2 : (classify b).lt (classify a)
    · -- equal values
      simp only [Bool.false_eq_true, if_false]
      exact (canonBits_eq_of_eq a b ha hb ((Class.eq_iff _ _).2 ⟨na, nb, h1, h2⟩)).symm
    · simp
  · rw [Class.lt_asymm _ _ h1]
    simp

theorem max_view_core (a b : F80) : max a b = specMax a b := by
  rw [max_eq]; rfl

theorem abs_sig (a : F80) : (abs a).sig = a.sig := by
  rw [abs_eq]; split <;> rfl


end Rlib.F80
