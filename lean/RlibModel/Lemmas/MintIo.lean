import RlibModel.Lemmas.Mint
import RlibModel.Lemmas.Decimal
/-! Bridge between `Modular`'s IO (`render`, `readTok`) and the decimal text of `rlib_io`
(C09 `Decimal.renderU` / `decimalU`, C08/C09 `Decimal.parseS`). -/
namespace Rlib.Mint
open Rlib

def toBytes (cs : List Char) : List UInt8 := cs.map (fun c => UInt8.ofNat c.toNat)

/-- The text the model prints for a value is the standard decimal text of its field. -/
theorem render_bytes (a : Int) : toBytes (render a).toList = Decimal.decimalU a.toNat := by
  simp [render, toBytes, Decimal.decimalU, Nat.repr]

/-- `u32::write` (C09's digit loop on a `BASE_10_LEN(u32)` buffer) produces exactly those bytes for
    every canonical value. -/
theorem writer_bytes (M a : Int) (hM2 : M < 2 ^ 31) (ha : R M a) :
    Decimal.renderU (Decimal.base10len 32) a.toNat = .ok (toBytes (render a).toList) := by
  rw [render_bytes]
  apply Decimal.renderU_of_room
  apply Decimal.ndig_le_base10len
  have := ha.1; have := ha.2
  omega

/-- Reading the written token back (`i64` parse of C08/C09, then `new`) is the identity. -/
theorem io_roundtrip_eq (M a : Int) (hM : 2 ≤ M) (hM2 : M < 2 ^ 31) (ha : R M a) :
    readTok M (Decimal.parseS (toBytes (render a).toList)) = .ok a := by
  rw [render_bytes]
  have h0 : ¬ a < 0 := by have := ha.1; omega
  have : Decimal.decimalU a.toNat = Decimal.decimalS a := by
    unfold Decimal.decimalS
    rw [if_neg h0]
    congr 1
    omega
  rw [this, Decimal.parseS_decimalS]
  unfold readTok
  rw [new_eq M a hM hM2, Int.emod_eq_of_lt ha.1 ha.2]

end Rlib.Mint
