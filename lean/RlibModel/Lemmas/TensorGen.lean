import RlibModel.Lemmas.Tensor
/-! Lemmas for the element-generic histories of `Model/Tensor.lean` (wave 4): `==` for an arbitrary element
`==`, the std iterators over the storage, and the step lemma `gStepModel_spec`. -/
namespace Rlib.Tensor

/-! ### `==` on lists for an arbitrary (not necessarily lawful) element `==` -/

theorem list_beq_zip {α} [BEq α] : ∀ (l1 l2 : List α),
    (l1 == l2) = ((l1.length == l2.length) && (l1.zip l2).all (fun p => p.1 == p.2))
  | [], [] => rfl
  | [], _ :: _ => by simp
  | _ :: _, [] => by simp
  | a :: as, b :: bs => by
    have ih := list_beq_zip as bs
    simp only [List.cons_beq_cons, List.length_cons, List.zip_cons_cons, List.all_cons, ih]
    have : ((as.length + 1 == bs.length + 1) : Bool) = (as.length == bs.length) := by
      rw [Bool.eq_iff_iff]; simp
    rw [this]
    cases (a == b) <;> cases (as.length == bs.length) <;> simp

theorem eq_specEq {α} [BEq α] (a b : Tensor α) : eq a b = specEq a b := by
  unfold eq specEq
  have : (a.dims == b.dims) = decide (a.dims = b.dims) := by
    rw [Bool.eq_iff_iff]; simp
  rw [this, list_beq_zip a.data b.data, Bool.and_assoc]

theorem zip_all_iff {α} [BEq α] (l1 l2 : List α) (hl : l1.length = l2.length) :
    (l1.zip l2).all (fun p => p.1 == p.2) = true ↔
      ∀ i (h1 : i < l1.length) (h2 : i < l2.length), (l1[i] == l2[i]) = true := by
  constructor
  · intro h i h1 h2
    rw [List.all_eq_true] at h
    have hm : (l1[i], l2[i]) ∈ l1.zip l2 := by
      rw [List.mem_iff_getElem]
      exact ⟨i, by simp [h1, h2], by simp⟩
    exact h _ hm
  · intro h
    rw [List.all_eq_true]
    intro p hp
    obtain ⟨i, hi, rfl⟩ := List.mem_iff_getElem.1 hp
    have h1 : i < l1.length := by simp at hi; omega
    have h2 : i < l2.length := by omega
    simpa using h i h1 h2

/-! ### iterators -/

theorem itNext_snd {α} (l : List α) : (itNext l).2 = l.drop 1 := by
  cases l <;> rfl

theorem itNext_fst {α} (l : List α) : (itNext l).1 = l[0]? := by
  cases l <;> rfl

theorem itSkip_eq {α} : ∀ (k : Nat) (l : List α), itSkip k l = l.drop k
  | 0, l => by simp [itSkip]
  | k + 1, l => by
    rw [itSkip, itNext_snd, itSkip_eq k, List.drop_drop]
    congr 1; omega

theorem itNextBack_snd {α} (l : List α) : (itNextBack l).2 = l.dropLast := by
  unfold itNextBack
  cases h : l.getLast? with
  | none =>
    have : l = [] := by simpa using h
    subst this; rfl
  | some a => rfl

theorem itNextBack_fst {α} (l : List α) : (itNextBack l).1 = l.getLast? := by
  unfold itNextBack
  cases h : l.getLast? <;> rfl

theorem itSkipBack_eq {α} : ∀ (j : Nat) (l : List α), itSkipBack j l = l.take (l.length - j)
  | 0, l => by simp [itSkipBack]
  | j + 1, l => by
    rw [itSkipBack, itNextBack_snd, itSkipBack_eq j, List.dropLast_eq_take, List.take_take, List.length_take]
    congr 1; omega

theorem window_eq {α} (data : List α) (k j : Nat) :
    itSkipBack j (itSkip k data) = specWindow data k j := by
  rw [itSkip_eq, itSkipBack_eq, specWindow, List.length_drop]

theorem itCount_eq {α} : ∀ (l : List α), itCount l = l.length
  | [] => rfl
  | _ :: as => by simp [itCount, itCount_eq as]

theorem itCollect_eq {α} : ∀ (l : List α), itCollect l = l
  | [] => rfl
  | a :: as => by simp [itCollect, itCollect_eq as]

theorem itLast_eq {α} : ∀ (l : List α) (acc : Option α), itLast acc l = (l.getLast?).or acc
  | [], acc => by simp [itLast]
  | a :: as, acc => by
    rw [itLast, itLast_eq as]
    cases as with
    | nil => simp
    | cons b bs =>
      obtain ⟨x, hx⟩ : ∃ x, (b :: bs).getLast? = some x := ⟨_, List.getLast?_eq_some_getLast (by simp)⟩
      rw [List.getLast?_cons_cons, hx]; rfl

theorem itRevCollect_eq {α} : ∀ (n : Nat) (l : List α), l.length = n → itRevCollect n l = l.reverse
  | 0, l, h => by
    have : l = [] := List.eq_nil_of_length_eq_zero h
    subst this; rfl
  | n + 1, l, h => by
    have hne : l ≠ [] := by intro e; subst e; simp at h
    rw [itRevCollect]
    have h1 : (itNextBack l) = (some (l.getLast hne), l.dropLast) := by
      unfold itNextBack
      rw [List.getLast?_eq_some_getLast hne]
    rw [h1]
    simp only
    rw [itRevCollect_eq n l.dropLast (by simp [h])]
    conv_rhs => rw [← List.dropLast_concat_getLast hne]
    simp

theorem nthBack_eq {α} (l : List α) (n : Nat) : (itNextBack (itSkipBack n l)).1 = l.reverse[n]? := by
  rw [itNextBack_fst, itSkipBack_eq, List.getLast?_eq_getElem?, List.length_take]
  by_cases hn : n < l.length
  · rw [List.getElem?_reverse (by omega), List.getElem?_take]
    have : min (l.length - n) l.length - 1 = l.length - 1 - n := by omega
    rw [this, if_pos (by omega)]
  · have h1 : l.reverse[n]? = none := by
      rw [List.getElem?_eq_none]; simp; omega
    rw [h1, List.getElem?_eq_none]
    simp; omega

theorem iterAnswer_spec {α} (w : List α) (q : IterQ) : iterAnswer w q = specIterAnswer w q := by
  cases q with
  | count => simp [iterAnswer, specIterAnswer, itCount_eq]
  | len => rfl
  | last => simp [iterAnswer, specIterAnswer, itLast_eq]
  | nth n => simp [iterAnswer, specIterAnswer, itNext_fst, itSkip_eq]
  | nthBack n => simp only [iterAnswer, specIterAnswer, nthBack_eq]
  | rev => simp [iterAnswer, specIterAnswer, itRevCollect_eq w.length w rfl]
  | rest => simp [iterAnswer, specIterAnswer, itCollect_eq]

/-- the window an iterator holds after `k` × `next` and `j` × `next_back`: storage positions `k ≤ p < len − j` -/
theorem specWindow_getElem? {α} (data : List α) (k j i : Nat) :
    (specWindow data k j)[i]? = if k + i + j < data.length then data[k + i]? else none := by
  unfold specWindow
  rw [List.getElem?_take]
  by_cases h : k + i + j < data.length
  · rw [if_pos (by omega), if_pos h, List.getElem?_drop]
  · rw [if_neg (by omega), if_neg h]

theorem specWindow_length {α} (data : List α) (k j : Nat) : (specWindow data k j).length = data.length - k - j := by
  unfold specWindow
  rw [List.length_take, List.length_drop]; omega

/-! ### the reader over parsed elements -/

theorem readVec_popRd {α} (dflt : α) : ∀ (n : Nat) (data : List α), n ≤ data.length →
    readVec (popRd dflt) n data = (data.take n, data.drop n)
  | 0, data, _ => by simp [readVec]
  | n + 1, [], h => by simp at h
  | n + 1, a :: as, h => by
    simp only [readVec, popRd]
    rw [readVec_popRd dflt n as (by simpa using h)]
    simp

/-! ### the step lemma -/

/-- every slot holds a well-formed tensor -/
def GWF {α} (st : GState α) : Prop := ∀ s t, st s = some t → WF t

theorem GWF_empty {α} : GWF (GState.empty : GState α) := fun _ _ h => by simp [GState.empty] at h

theorem GWF_set {α} (st : GState α) (s : Nat) (t : Tensor α) (h : GWF st) (ht : WF t) : GWF (st.set s t) := by
  intro k u hk
  unfold GState.set at hk
  by_cases e : k = s
  · rw [if_pos e] at hk; cases hk; exact ht
  · rw [if_neg e] at hk; exact h k u hk

theorem fromVec_store {α} (st : GState α) (h : GWF st) (s : Nat) (dims : List Nat) (data : List α) :
    let r := gStore st s (fromVec dims data)
    let sp : GState α × GObs α :=
      if 0 ∈ dims ∨ prod dims ≠ data.length then (st, .panic none) else (st.set s ⟨dims, data⟩, .done)
    r.1 = sp.1 ∧ r.2.view = sp.2 ∧ GWF r.1 := by
  intro r sp
  by_cases h0 : 0 ∈ dims
  · have : fromVec dims data = .error .assert := by simp [fromVec, h0]
    simp only [r, sp, this, gStore, h0, true_or, if_true, GObs.view]
    exact ⟨trivial, trivial, h⟩
  · by_cases hl : prod dims = data.length
    · have : fromVec dims data = .ok ⟨dims, data⟩ := by simp [fromVec, h0, hl]
      simp only [r, sp, this, gStore, h0, hl, ne_eq, not_true_eq_false, or_self, if_false, GObs.view]
      exact ⟨trivial, trivial, GWF_set _ _ _ h ⟨(no_zero_iff dims).1 h0, hl.symm⟩⟩
    · have : fromVec dims data = .error .assert := by simp [fromVec, h0, hl]
      simp only [r, sp, this, gStore, h0, hl, ne_eq, not_false_eq_true, or_true, if_true, GObs.view]
      exact ⟨trivial, trivial, h⟩

theorem new_store {α} (st : GState α) (h : GWF st) (s : Nat) (dims : List Nat) (v : α) :
    let r := gStore st s (new dims v)
    let sp : GState α × GObs α :=
      if 0 ∈ dims then (st, .panic none) else (st.set s ⟨dims, List.replicate (prod dims) v⟩, .done)
    r.1 = sp.1 ∧ r.2.view = sp.2 ∧ GWF r.1 := by
  intro r sp
  by_cases h0 : 0 ∈ dims
  · have : new dims v = .error .assert := by simp [new, h0]
    simp only [r, sp, this, gStore, h0, if_true, GObs.view]
    exact ⟨trivial, trivial, h⟩
  · have : new dims v = .ok ⟨dims, List.replicate (prod dims) v⟩ := by simp [new, h0]
    simp only [r, sp, this, gStore, h0, if_false, GObs.view]
    exact ⟨trivial, trivial, GWF_set _ _ _ h ⟨(no_zero_iff dims).1 h0, by simp⟩⟩

/-- One step: same next state, the view of the model's observation is the specified observation, and
    well-formedness of every slot is kept — for every element type and every element `==`. -/
theorem gStepModel_spec {α} [BEq α] (rw rd : α → List Char) (st : GState α) (h : GWF st) (op : GOp α) :
    (gStepModel rw rd st op).1 = (gStepSpec rw rd st op).1 ∧
    (gStepModel rw rd st op).2.view = (gStepSpec rw rd st op).2 ∧ GWF (gStepModel rw rd st op).1 := by
  cases op with
  | vec s dims data =>
    rw [gStepModel, gStepSpec]; exact fromVec_store st h s dims data
  | sl s dims data =>
    rw [gStepModel, gStepSpec]
    have : fromSlice dims data = fromVec dims data := rfl
    rw [this]; exact fromVec_store st h s dims data
  | new s dims v =>
    rw [gStepModel, gStepSpec]; exact new_store st h s dims v
  | rdv s dims data dflt =>
    rw [gStepModel, gStepSpec]
    by_cases h0 : 0 ∈ dims
    · have hc : dims.contains 0 = true := (contains_zero_iff dims).2 h0
      simp [h0, read, gStore, GObs.view, h]
    · have hc : ¬ (dims.contains 0 = true) := fun hc => h0 ((contains_zero_iff dims).1 hc)
      by_cases hl : data.length < prod dims
      · simp [h0, hl, h, GObs.view]
      · have hr : read dims (popRd dflt) data = .ok (⟨dims, data.take (prod dims)⟩, data.drop (prod dims)) := by
          unfold read
          rw [if_neg hc, readVec_popRd dflt _ _ (by omega)]
        rw [if_neg (fun hh => hl hh.2), if_neg h0, if_neg hl, hr]
        simp only [gStore, GObs.view]
        exact ⟨trivial, trivial, GWF_set _ _ _ h ⟨(no_zero_iff dims).1 h0, by simp; omega⟩⟩
  | like s r v =>
    rw [gStepModel, gStepSpec]
    cases hr : st r with
    | none => exact ⟨rfl, rfl, h⟩
    | some t =>
      have hwf := h r t hr
      have h0 : ¬ 0 ∈ t.dims := (no_zero_iff t.dims).2 hwf.1
      have := new_store st h s t.dims v
      simp only [h0, if_false] at this
      exact this
  | coll s r =>
    rw [gStepModel, gStepSpec]
    cases hr : st r with
    | none => exact ⟨rfl, rfl, h⟩
    | some t =>
      have hwf := h r t hr
      have h0 : ¬ 0 ∈ t.dims := (no_zero_iff t.dims).2 hwf.1
      have := fromVec_store st h s t.dims (iter (clone t))
      have hl : prod t.dims = (iter (clone t)).length := hwf.2.symm
      simp only [h0, hl, ne_eq, not_true_eq_false, or_self, if_false] at this
      exact this
  | cl s r =>
    rw [gStepModel, gStepSpec]
    cases hr : st r with
    | none => exact ⟨rfl, rfl, h⟩
    | some t => exact ⟨rfl, rfl, GWF_set _ _ _ h (h r t hr)⟩
  | cf s r =>
    rw [gStepModel, gStepSpec]
    cases hs : st s with
    | none => exact ⟨rfl, rfl, h⟩
    | some a =>
      cases hr : st r with
      | none => exact ⟨rfl, rfl, h⟩
      | some b => exact ⟨rfl, rfl, GWF_set _ _ _ h (h r b hr)⟩
  | eq s r =>
    rw [gStepModel, gStepSpec]
    cases hs : st s with
    | none => exact ⟨rfl, rfl, h⟩
    | some a =>
      cases hr : st r with
      | none => exact ⟨rfl, rfl, h⟩
      | some b => exact ⟨rfl, by simp [GObs.view, eq_specEq], h⟩
  | ne s r =>
    rw [gStepModel, gStepSpec]
    cases hs : st s with
    | none => exact ⟨rfl, rfl, h⟩
    | some a =>
      cases hr : st r with
      | none => exact ⟨rfl, rfl, h⟩
      | some b => exact ⟨rfl, by simp [GObs.view, ne, eq_specEq], h⟩
  | dims s =>
    rw [gStepModel, gStepSpec]
    cases hs : st s with
    | none => exact ⟨rfl, rfl, h⟩
    | some t => exact ⟨rfl, rfl, h⟩
  | dim s i =>
    rw [gStepModel, gStepSpec]
    cases hs : st s with
    | none => exact ⟨rfl, rfl, h⟩
    | some t =>
      refine ⟨rfl, ?_, h⟩
      by_cases hi : i < t.dims.length
      · simp [hi, dim, gobsE, GObs.view]
      · simp [hi, dim, gobsE, GObs.view]
  | get s idx =>
    rw [gStepModel, gStepSpec]
    cases hs : st s with
    | none => exact ⟨rfl, rfl, h⟩
    | some t =>
      refine ⟨rfl, ?_, h⟩
      by_cases hr : InRange t.dims idx
      · simp [hr, getIndex_eq_flat _ _ hr, gobsE, GObs.view]
      · obtain ⟨e, he⟩ := getIndex_not_inRange _ _ hr
        simp [hr, he, gobsE, GObs.view]
  | rd s idx =>
    rw [gStepModel, gStepSpec]
    cases hs : st s with
    | none => exact ⟨rfl, rfl, h⟩
    | some t =>
      refine ⟨rfl, ?_, h⟩
      by_cases hr : InRange t.dims idx
      · obtain ⟨a, ha, hi⟩ := index_ok t idx (h s t hs) hr
        simp [hr, ha, hi, gobsE, GObs.view]
      · obtain ⟨e, he⟩ := getIndex_not_inRange _ _ hr
        simp [hr, index, he, gobsE, GObs.view]
  | wr s idx v =>
    rw [gStepModel, gStepSpec]
    cases hs : st s with
    | none => exact ⟨rfl, rfl, h⟩
    | some t =>
      have hwf := h s t hs
      by_cases hr : InRange t.dims idx
      · dsimp only
        rw [if_pos hr, setAt_ok t idx v hwf hr]
        exact ⟨rfl, rfl, GWF_set _ _ _ h ⟨hwf.1, by simp [hwf.2]⟩⟩
      · obtain ⟨e, he⟩ := getIndex_not_inRange _ _ hr
        simp [hr, setAt, he, GObs.view, h]
  | it s =>
    rw [gStepModel, gStepSpec]
    cases hs : st s with
    | none => exact ⟨rfl, rfl, h⟩
    | some t => exact ⟨rfl, rfl, h⟩
  | w s =>
    rw [gStepModel, gStepSpec]
    cases hs : st s with
    | none => exact ⟨rfl, rfl, h⟩
    | some t =>
      refine ⟨rfl, ?_, h⟩
      simp [writeText, writePieces_spec t (h s t hs), gobsE, GObs.view]
  | dbg s =>
    rw [gStepModel, gStepSpec]
    cases hs : st s with
    | none => exact ⟨rfl, rfl, h⟩
    | some t =>
      refine ⟨rfl, ?_, h⟩
      simp [debugText, writePieces_spec t (h s t hs), gobsE, GObs.view]
  | itx s k j q =>
    rw [gStepModel, gStepSpec]
    cases hs : st s with
    | none => exact ⟨rfl, rfl, h⟩
    | some t =>
      refine ⟨rfl, ?_, h⟩
      simp only [iter, window_eq, iterAnswer_spec]
      cases q <;> rfl

theorem gRunWith_spec {α} [BEq α] (rw rd : α → List Char) : ∀ (ops : List (GOp α)) (st : GState α), GWF st →
    (gRunWith (gStepModel rw rd) st ops).map GObs.view = gRunWith (gStepSpec rw rd) st ops
  | [], _, _ => rfl
  | op :: ops, st, h => by
    obtain ⟨h1, h2, h3⟩ := gStepModel_spec rw rd st h op
    simp only [gRunWith, List.map_cons]
    rw [h2, ← h1, gRunWith_spec rw rd ops _ h3]

end Rlib.Tensor
