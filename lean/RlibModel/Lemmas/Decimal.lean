import RlibModel.Model.Decimal
/-! Helper lemmas for the decimal model (`Model/Decimal.lean`): digit counts, the backward digit
loop, the tie to `Nat.toDigits 10`, and parse ∘ render = id (ported from `spikes/DecimalRoundTrip.lean`). -/
namespace Rlib.Decimal

/-! ### Number of decimal digits -/

/-- Number of decimal digits of `v` (`0` for `v = 0`). -/
def ndig (v : Nat) : Nat := if _h : v = 0 then 0 else ndig (v / 10) + 1
termination_by v
decreasing_by omega

theorem ndig_zero : ndig 0 = 0 := by rw [ndig]; simp

theorem ndig_pos {v : Nat} (h : v ≠ 0) : ndig v = ndig (v / 10) + 1 := by
  rw [ndig, dif_neg h]

theorem base10lenLoop_eq : ∀ (v a : Nat), base10lenLoop v a = a + ndig v := by
  intro v
  induction v using Nat.strongRecOn with
  | _ v ih =>
    intro a
    by_cases h : v = 0
    · subst h; rw [base10lenLoop, ndig_zero]; simp
    · rw [base10lenLoop, dif_neg h, ih (v / 10) (by omega), ndig_pos h]; omega

theorem base10len_eq (w : Nat) : base10len w = ndig (2 ^ w - 1) := by
  rw [base10len, base10lenLoop_eq]; simp

theorem lt_pow_ndig : ∀ v : Nat, v < 10 ^ ndig v := by
  intro v
  induction v using Nat.strongRecOn with
  | _ v ih =>
    by_cases h : v = 0
    · subst h; rw [ndig_zero]; simp
    · rw [ndig_pos h, Nat.pow_succ]
      have := ih (v / 10) (by omega)
      omega

theorem pow_ndig_le : ∀ v : Nat, v ≠ 0 → 10 ^ (ndig v - 1) ≤ v := by
  intro v
  induction v using Nat.strongRecOn with
  | _ v ih =>
    intro h
    rw [ndig_pos h]
    by_cases h10 : v / 10 = 0
    · rw [h10, ndig_zero]; simp; omega
    · have := ih (v / 10) (by omega) h10
      have e : ndig (v / 10) + 1 - 1 = (ndig (v / 10) - 1) + 1 := by
        have := ndig_pos h10; omega
      rw [e, Nat.pow_succ]
      omega

theorem ndig_mono : ∀ (a b : Nat), a ≤ b → ndig a ≤ ndig b := by
  intro a
  induction a using Nat.strongRecOn with
  | _ a ih =>
    intro b hab
    by_cases h : a = 0
    · subst h; rw [ndig_zero]; omega
    · have hb : b ≠ 0 := by omega
      rw [ndig_pos h, ndig_pos hb]
      have := ih (a / 10) (by omega) (b / 10) (Nat.div_le_div_right hab)
      omega

/-- `ndig v` is the unique `k` with `10^(k-1) ≤ v < 10^k`. -/
theorem ndig_unique {v k : Nat} (h1 : 10 ^ (k - 1) ≤ v) (h2 : v < 10 ^ k) (_hk : k ≠ 0) : ndig v = k := by
  have hv : v ≠ 0 := by
    intro h; subst h
    have : 0 < 10 ^ (k - 1) := Nat.pow_pos (by omega)
    omega
  have a := lt_pow_ndig v
  have b := pow_ndig_le v hv
  -- 10^(k-1) ≤ v < 10^(ndig v)  ⇒ k-1 < ndig v ;  10^(ndig v - 1) ≤ v < 10^k ⇒ ndig v - 1 < k
  have c : k - 1 < ndig v := (Nat.pow_lt_pow_iff_right (a := 10) (by omega)).mp (by omega)
  have d : ndig v - 1 < k := (Nat.pow_lt_pow_iff_right (a := 10) (by omega)).mp (by omega)
  omega

/-! ### Digits as bytes -/

/-- The decimal digits of `v`, most significant first, as ASCII bytes (`[]` for `0`). -/
def digs (v : Nat) : List UInt8 := if _h : v = 0 then [] else digs (v / 10) ++ [digitByte v]
termination_by v
decreasing_by omega

theorem digs_zero : digs 0 = [] := by rw [digs]; simp

theorem digs_pos {v : Nat} (h : v ≠ 0) : digs v = digs (v / 10) ++ [digitByte v] := by
  rw [digs, dif_neg h]

theorem length_digs : ∀ v : Nat, (digs v).length = ndig v := by
  intro v
  induction v using Nat.strongRecOn with
  | _ v ih =>
    by_cases h : v = 0
    · subst h; rw [digs_zero, ndig_zero]; rfl
    · rw [digs_pos h, ndig_pos h, List.length_append, ih (v / 10) (by omega)]; rfl

theorem digitChar_byte : ∀ d : Nat, d < 10 → UInt8.ofNat (Nat.digitChar d).toNat = UInt8.ofNat (d + 48) := by
  decide

theorem digitByte_eq (v : Nat) : digitByte v = UInt8.ofNat (Nat.digitChar (v % 10)).toNat := by
  rw [digitByte, digitChar_byte _ (Nat.mod_lt _ (by omega))]

/-- `Nat.toDigits 10` peels off the last digit. -/
theorem toDigits_step {v : Nat} (_h : v ≠ 0) (h10 : v / 10 ≠ 0) :
    Nat.toDigits 10 v = Nat.toDigits 10 (v / 10) ++ [Nat.digitChar (v % 10)] := by
  have e : v = 10 * (v / 10) + v % 10 := by omega
  have := Nat.toDigits_append_toDigits (b := 10) (n := v / 10) (d := v % 10) (by omega) (by omega)
    (Nat.mod_lt _ (by omega))
  rw [← e, Nat.toDigits_of_lt_base (Nat.mod_lt _ (by omega))] at this
  exact this.symm

/-- Lean's own decimal formatting of a non-zero number is the digit list. -/
theorem decimalU_eq_digs : ∀ v : Nat, v ≠ 0 → decimalU v = digs v := by
  intro v
  induction v using Nat.strongRecOn with
  | _ v ih =>
    intro h
    rw [digs_pos h]
    by_cases h10 : v / 10 = 0
    · have hv : v < 10 := by omega
      rw [h10, digs_zero, decimalU, Nat.toDigits_of_lt_base hv, digitByte_eq, Nat.mod_eq_of_lt hv]
      rfl
    · have := ih (v / 10) (by omega) h10
      rw [decimalU, toDigits_step h h10, List.map_append, ← this, digitByte_eq]
      rfl

theorem decimalU_zero : decimalU 0 = [48] := by decide

theorem length_decimalU (v : Nat) (h : v ≠ 0) : (decimalU v).length = ndig v := by
  rw [decimalU_eq_digs v h, length_digs]

/-! ### The backward digit loop -/

theorem renderLoop_zero (buf : List UInt8) (i : Nat) : renderLoop buf i 0 = .ok (buf, i) := by
  rw [renderLoop]; simp

theorem drop_set_self (buf : List UInt8) (j : Nat) (d : UInt8) (hj : j < buf.length) :
    (buf.set j d).drop j = d :: buf.drop (j + 1) := by
  induction buf generalizing j with
  | nil => simp at hj
  | cons x xs ih =>
    cases j with
    | zero => simp
    | succ j =>
      simp only [List.set_cons_succ, List.drop_succ_cons]
      exact ih j (by simpa using hj)

/-- The loop writes the digits of `v` just below `i`, leaves everything from `i` on untouched,
    never underflows the index when there is room for `ndig v` digits, and keeps the length. -/
theorem renderLoop_spec : ∀ (v : Nat) (buf : List UInt8) (i : Nat), ndig v ≤ i → i ≤ buf.length →
    ∃ buf', renderLoop buf i v = .ok (buf', i - ndig v) ∧ buf'.length = buf.length ∧
      buf'.drop (i - ndig v) = digs v ++ buf.drop i := by
  intro v
  induction v using Nat.strongRecOn with
  | _ v ih =>
    intro buf i hi hL
    by_cases h : v = 0
    · subst h
      refine ⟨buf, ?_, rfl, ?_⟩
      · rw [renderLoop_zero, ndig_zero]; rfl
      · rw [ndig_zero, digs_zero]; simp
    · have hn := ndig_pos h
      have hi0 : i ≠ 0 := by omega
      have hlt : i - 1 < buf.length := by omega
      obtain ⟨buf', e1, e2, e3⟩ := ih (v / 10) (by omega) (buf.set (i - 1) (digitByte v)) (i - 1)
        (by omega) (by simp; omega)
      refine ⟨buf', ?_, ?_, ?_⟩
      · rw [renderLoop, dif_neg h, if_neg hi0, if_pos hlt, e1]
        have : i - 1 - ndig (v / 10) = i - ndig v := by omega
        rw [this]
      · rw [e2]; simp
      · have : i - ndig v = i - 1 - ndig (v / 10) := by omega
        rw [this, e3, drop_set_self buf (i - 1) _ hlt, digs_pos h]
        have : i - 1 + 1 = i := by omega
        rw [this]; simp

/-- With fewer than `ndig v` cells below the index the loop panics: `index -= 1` at `0`
    (this is what a too small `BASE_10_LEN` does). -/
theorem renderLoop_underflow : ∀ (v : Nat) (buf : List UInt8) (i : Nat), i < ndig v → i ≤ buf.length →
    renderLoop buf i v = .error .overflow := by
  intro v
  induction v using Nat.strongRecOn with
  | _ v ih =>
    intro buf i hi hL
    have h : v ≠ 0 := by intro h; subst h; rw [ndig_zero] at hi; omega
    rw [renderLoop, dif_neg h]
    by_cases hi0 : i = 0
    · rw [if_pos hi0]
    · rw [if_neg hi0, if_pos (by omega)]
      exact ih (v / 10) (by omega) _ _ (by rw [ndig_pos h] at hi; omega) (by simp; omega)

theorem renderDigits_spec (L v : Nat) (h : ndig v ≤ L) : renderDigits L v = .ok (digs v) := by
  obtain ⟨buf', e1, _, e3⟩ := renderLoop_spec v (List.replicate L 0) L h (by simp)
  rw [renderDigits, e1]
  simp only
  rw [e3]; simp

theorem renderU_of_room (L v : Nat) (h : ndig v ≤ L) : renderU L v = .ok (decimalU v) := by
  rw [renderU]
  by_cases hv : v = 0
  · subst hv; rw [if_pos rfl, decimalU_zero]
  · rw [if_neg hv, renderDigits_spec L v h, decimalU_eq_digs v hv]

/-- A value of a `w`-bit type has at most `base10len w` digits. -/
theorem ndig_le_base10len {w v : Nat} (h : v < 2 ^ w) : ndig v ≤ base10len w := by
  rw [base10len_eq]
  exact ndig_mono _ _ (by omega)

theorem base10len_mono {w w' : Nat} (h : w ≤ w') : base10len w ≤ base10len w' := by
  rw [base10len_eq, base10len_eq]
  apply ndig_mono
  have : 2 ^ w ≤ 2 ^ w' := Nat.pow_le_pow_right (by omega) h
  omega

theorem base10len_128 : base10len 128 = 39 := by
  rw [base10len_eq]
  exact ndig_unique (by decide) (by decide) (by decide)

/-! ### Bytes of a rendering: digits, no whitespace -/

theorem digitByte_toNat (v : Nat) : (digitByte v).toNat = v % 10 + 48 := by
  rw [digitByte]
  have : v % 10 + 48 < 256 := by omega
  simp [UInt8.toNat_ofNat', Nat.mod_eq_of_lt this]

theorem digs_digits : ∀ (v : Nat), ∀ b ∈ digs v, 48 ≤ b.toNat ∧ b.toNat ≤ 57 := by
  intro v
  induction v using Nat.strongRecOn with
  | _ v ih =>
    intro b hb
    by_cases h : v = 0
    · subst h; rw [digs_zero] at hb; simp at hb
    · rw [digs_pos h] at hb
      rcases List.mem_append.mp hb with hb | hb
      · exact ih (v / 10) (by omega) b hb
      · simp at hb; subst hb; rw [digitByte_toNat]; omega

theorem decimalU_digits (v : Nat) : ∀ b ∈ decimalU v, 48 ≤ b.toNat ∧ b.toNat ≤ 57 := by
  by_cases h : v = 0
  · subst h; rw [decimalU_zero]; decide
  · rw [decimalU_eq_digs v h]; exact digs_digits v

theorem decimalU_ne_nil (v : Nat) : decimalU v ≠ [] := by
  by_cases h : v = 0
  · subst h; rw [decimalU_zero]; decide
  · intro e
    have := length_decimalU v h
    rw [e, ndig_pos h] at this
    simp at this

theorem isWs_of_digit {b : UInt8} (h : 48 ≤ b.toNat ∧ b.toNat ≤ 57) : isWs b = false := by
  have hb : b = UInt8.ofNat b.toNat := by simp
  rw [hb]
  generalize b.toNat = n at h
  have : n = 48 ∨ n = 49 ∨ n = 50 ∨ n = 51 ∨ n = 52 ∨ n = 53 ∨ n = 54 ∨ n = 55 ∨ n = 56 ∨ n = 57 := by omega
  rcases this with h | h | h | h | h | h | h | h | h | h <;> subst h <;> decide

theorem decimalS_ne_nil (z : Int) : decimalS z ≠ [] := by
  unfold decimalS
  split
  · simp
  · exact decimalU_ne_nil _

/-- Every byte of a rendered integer is `-` or a digit: below 128 and not whitespace. -/
theorem decimalS_bytes (z : Int) : ∀ b ∈ decimalS z, isWs b = false ∧ b.toNat < 128 := by
  intro b hb
  unfold decimalS at hb
  have hd : ∀ b ∈ decimalU z.natAbs, isWs b = false ∧ b.toNat < 128 := by
    intro b hb
    have := decimalU_digits _ b hb
    exact ⟨isWs_of_digit this, by omega⟩
  split at hb
  · rcases List.mem_cons.mp hb with rfl | hb
    · decide
    · exact hd b hb
  · exact hd b hb

/-! ### parse ∘ render = id -/

theorem parseU_append (xs : List UInt8) (b : UInt8) : parseU (xs ++ [b]) = parseU xs * 10 + (b.toNat - 48) := by
  simp [parseU, List.foldl_append]

theorem parseU_digs : ∀ v : Nat, parseU (digs v) = v := by
  intro v
  induction v using Nat.strongRecOn with
  | _ v ih =>
    by_cases h : v = 0
    · subst h; rw [digs_zero]; rfl
    · rw [digs_pos h, parseU_append, ih (v / 10) (by omega), digitByte_toNat]; omega

/-- Reading back what was written returns the value, for every natural number. -/
theorem parseU_decimalU (v : Nat) : parseU (decimalU v) = v := by
  by_cases h : v = 0
  · subst h; rw [decimalU_zero]; rfl
  · rw [decimalU_eq_digs v h, parseU_digs]

theorem parseS_decimalS (z : Int) : parseS (decimalS z) = z := by
  unfold decimalS
  by_cases hz : z < 0
  · rw [if_pos hz]
    show -(parseU (decimalU z.natAbs) : Int) = z
    rw [parseU_decimalU]; omega
  · rw [if_neg hz]
    have hne := decimalU_ne_nil z.natAbs
    have hd := decimalU_digits z.natAbs
    match hm : decimalU z.natAbs with
    | [] => exact absurd hm hne
    | b :: rest =>
      have hb := hd b (by rw [hm]; simp)
      have hb45 : b ≠ 45 := by
        intro e; subst e; revert hb; decide
      have : parseS (b :: rest) = (parseU (b :: rest) : Int) := by
        unfold parseS
        split
        · rename_i heq
          simp at heq
          exact absurd heq.1 hb45
        · rfl
      rw [this, ← hm, parseU_decimalU]; omega

/-! ### Tokens -/

theorem tokScan_cons (b : UInt8) (rest : List UInt8) : tokScan (b :: rest) = tokStep b (tokScan rest) := rfl

theorem tokenize_nil : tokenize [] = [] := rfl

/-- Leading whitespace is skipped. -/
theorem tokenize_ws_cons {b : UInt8} (hb : isWs b = true) (rest : List UInt8) :
    tokenize (b :: rest) = tokenize rest := by
  unfold tokenize
  rw [tokScan_cons, tokStep, if_pos hb]
  simp

/-- A run of non-whitespace bytes is prepended to the token under construction. -/
theorem tokScan_word_append : ∀ (w rest : List UInt8), (∀ b ∈ w, isWs b = false) →
    tokScan (w ++ rest) = (w ++ (tokScan rest).1, (tokScan rest).2) := by
  intro w
  induction w with
  | nil => intro rest _; rfl
  | cons x xs ih =>
    intro rest hw
    have hx : isWs x = false := hw x (by simp)
    rw [List.cons_append, tokScan_cons, ih rest (fun b hb => hw b (by simp [hb])), tokStep]
    simp [hx]

/-- `rest` is empty or starts with whitespace. -/
def Bdry : List UInt8 → Prop
  | [] => True
  | b :: _ => isWs b = true

/-- A word followed by a boundary is the next token. -/
theorem tokenize_word_append (w rest : List UInt8) (hne : w ≠ []) (hw : ∀ b ∈ w, isWs b = false)
    (hr : Bdry rest) : tokenize (w ++ rest) = w :: tokenize rest := by
  have hwe : w.isEmpty = false := by cases w <;> simp_all
  cases rest with
  | nil =>
    unfold tokenize
    rw [tokScan_word_append w [] hw]
    simp [tokScan, hwe]
  | cons b rest' =>
    have hb : isWs b = true := hr
    rw [tokenize_ws_cons hb]
    unfold tokenize
    rw [tokScan_word_append w _ hw, tokScan_cons, tokStep, if_pos hb]
    simp [hwe]

end Rlib.Decimal
