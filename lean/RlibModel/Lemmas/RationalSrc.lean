import RlibModel.Generated.RationalSrc
import RlibModel.Lemmas.GcdSrc
import RlibModel.Lemmas.Rational
/-!
# The definitions regenerated from `rlib/rational/src/lib.rs` equal the hand-written model

`Rlib.RationalSrc.*` is written by `tools/rs2lean_generic_struct.py` from the Rust source text on every run of `./check C07`; its calls
of `gcd` are calls of `Rlib.GcdSrc.gcd`, the definition regenerated from `rlib/gcd/src/lib.rs` (proved equal to the gcd model in
`Lemmas/GcdSrc.lean`), so the tie composes.  For each function, with an explicit sufficient budget for the Euclid loop inside `norm`,
the generated definition returns exactly what the unbounded instantiation (`t = none`) of the hand-written model `Rlib.Rational.*`
returns — the fields of the value, or the same panic — for all integer arguments (zero and negative denominators included).
A struct value is the pair of its fields on the generated side (`pair`).

The proofs unfold the generated definitions with `simp only [src_def]` (never naming the private helper `norm`) and let `simp` /
`split` normalise the result, so that harmless rewrites of the source that survive translation keep them valid.
-/
set_option linter.unusedTactic false
set_option linter.unreachableTactic false
set_option linter.unusedSimpArgs false
namespace Rlib.RationalSrc
open Rlib Rlib.Rational

/-- A struct value as the translator represents it: the tuple of its fields. -/
def pair (q : Q) : Int × Int := (q.a, q.b)

@[simp] theorem map_ok {α β} (f : α → β) (x : α) : (Except.ok x : Except Panic α).map f = .ok (f x) := rfl
@[simp] theorem map_error {α β} (f : α → β) (e : Panic) : (Except.error e : Except Panic α).map f = .error e := rfl

/-- The unbounded `norm` of the model without its monadic plumbing. -/
theorem norm_none_eq (a b : Int) :
    Rational.norm none a b =
      if Gcd.gcd a b = 0 then .error .divzero
      else if b.tdiv (Gcd.gcd a b) < 0 then .ok ⟨-(a.tdiv (Gcd.gcd a b)), -(b.tdiv (Gcd.gcd a b))⟩
      else .ok ⟨a.tdiv (Gcd.gcd a b), b.tdiv (Gcd.gcd a b)⟩ := by
  simp only [Rational.norm, chk, divT, bind, Except.bind, pure, Except.pure]
  split_ifs <;> simp_all

/-- Facts about the model's gcd that let the proofs below accept other ways of moving the sign (e.g. dividing by `-g` when `b < 0`). -/
theorem gcd_nonneg (a b : Int) : 0 ≤ Gcd.gcd a b := by
  rw [Gcd.gcd_eq]; exact Int.natCast_nonneg _

theorem tdiv_gcd_neg_iff (a b : Int) (h0 : Gcd.gcd a b ≠ 0) : (b.tdiv (Gcd.gcd a b) < 0 ↔ b < 0) := by
  have hnn := gcd_nonneg a b
  have hd : Gcd.gcd a b ∣ b := by rw [Gcd.gcd_eq]; exact Int.gcd_dvd_right a b
  generalize Gcd.gcd a b = g at h0 hnn hd
  obtain ⟨k, hk⟩ := hd
  have hpos : 0 < g := by omega
  subst hk
  rw [Int.mul_tdiv_cancel_left _ h0]
  constructor
  · intro hk0; exact Int.mul_neg_of_pos_of_neg hpos hk0
  · intro hm
    by_contra hc
    have : 0 ≤ g * k := Int.mul_nonneg hnn (by omega)
    omega

/-- `new` (through the private `norm`) as translated from the source = the model's `new`, for every budget `≥ |b| + 1`.
    `simp only [src_def]` also unfolds the regenerated `gcd` of the other crate; the same call normalises `gcd_eq_model`, which then
    rewrites the unfolded Euclid loop to the model's value — whatever that loop looks like. -/
theorem new_eq_model (fuel : Nat) (a b : Int) (h : b.natAbs + 1 ≤ fuel) :
    RationalSrc.new fuel a b = (Rational.new none a b).map pair := by
  have hg := GcdSrc.gcd_eq_model fuel a b h
  simp only [src_def] at hg ⊢
  simp only [hg, Rational.new, norm_none_eq]
  have hsign := tdiv_gcd_neg_iff a b
  have hnn := gcd_nonneg a b
  split_ifs <;> (try simp_all [pair, Int.tdiv_neg]) <;> (try omega)

/-- `new_int` builds the fraction `n / 1` without normalising. -/
theorem new_int_eq_model (fuel : Nat) (n : Int) : RationalSrc.new_int fuel n = .ok (pair (Rational.newInt n)) := by
  simp only [src_def, Rational.newInt, pair]

/-- Closes `generated op = model op` once `hg` states what the regenerated `gcd` returns on the operands `norm` receives:
    both sides are unfolded to plain integer arithmetic and compared branch by branch. -/
macro "src_op" hg:ident n:term:max d:term:max : tactic =>
  `(tactic| (simp only [src_def] at $hg:ident ⊢
             simp only [$hg:ident, Rational.add, Rational.sub, Rational.mul, Rational.div, Rational.cmp, Rational.new, chk, bind,
               Except.bind, pure, Except.pure, norm_none_eq, Except.map]
             have hsign := tdiv_gcd_neg_iff $n $d
             have hnn := gcd_nonneg $n $d
             split_ifs <;> (try simp_all [pair, Int.tdiv_neg]) <;> (try omega)))

/-- `Add<&Self>::add` as translated = the model's `add`; budget: `|b·d| + 1` (the Euclid loop runs on the new denominator). -/
theorem add_ref_eq_model (fuel : Nat) (x y : Q) (h : (x.b * y.b).natAbs + 1 ≤ fuel) :
    RationalSrc.add_ref fuel x.a x.b y.a y.b = (Rational.add none x y).map pair := by
  have hg := GcdSrc.gcd_eq_model fuel (x.a * y.b + x.b * y.a) (x.b * y.b) h
  src_op hg (x.a * y.b + x.b * y.a) (x.b * y.b)

theorem sub_ref_eq_model (fuel : Nat) (x y : Q) (h : (x.b * y.b).natAbs + 1 ≤ fuel) :
    RationalSrc.sub_ref fuel x.a x.b y.a y.b = (Rational.sub none x y).map pair := by
  have hg := GcdSrc.gcd_eq_model fuel (x.a * y.b - x.b * y.a) (x.b * y.b) h
  src_op hg (x.a * y.b - x.b * y.a) (x.b * y.b)

theorem mul_ref_eq_model (fuel : Nat) (x y : Q) (h : (x.b * y.b).natAbs + 1 ≤ fuel) :
    RationalSrc.mul_ref fuel x.a x.b y.a y.b = (Rational.mul none x y).map pair := by
  have hg := GcdSrc.gcd_eq_model fuel (x.a * y.a) (x.b * y.b) h
  src_op hg (x.a * y.a) (x.b * y.b)

/-- `Div<&Self>::div`; budget `|b·c| + 1` (a zero divisor gives the same `divzero` on both sides). -/
theorem div_ref_eq_model (fuel : Nat) (x y : Q) (h : (x.b * y.a).natAbs + 1 ≤ fuel) :
    RationalSrc.div_ref fuel x.a x.b y.a y.b = (Rational.div none x y).map pair := by
  have hg := GcdSrc.gcd_eq_model fuel (x.a * y.b) (x.b * y.a) h
  src_op hg (x.a * y.b) (x.b * y.a)

/-- `Neg::neg`: no call, no budget. -/
theorem neg_eq_model (fuel : Nat) (x : Q) : RationalSrc.neg fuel x.a x.b = (Rational.neg none x).map pair := by
  simp [src_def, Rational.neg, chk, bind, Except.bind, pure, Except.pure, Except.map, pair]

/-- `Ord::cmp` (sign of the numerator of the normalised difference). -/
theorem cmp_eq_model (fuel : Nat) (x y : Q) (h : (x.b * y.b).natAbs + 1 ≤ fuel) :
    RationalSrc.cmp fuel x.a x.b y.a y.b = Rational.cmp none x y := by
  have hg := GcdSrc.gcd_eq_model fuel (x.a * y.b - x.b * y.a) (x.b * y.b) h
  src_op hg (x.a * y.b - x.b * y.a) (x.b * y.b)

/-- `PartialOrd::partial_cmp` = `Some(cmp)`. -/
theorem partial_cmp_eq_model (fuel : Nat) (x y : Q) (h : (x.b * y.b).natAbs + 1 ≤ fuel) :
    RationalSrc.partial_cmp fuel x.a x.b y.a y.b = (Rational.cmp none x y).map some := by
  have hg := GcdSrc.gcd_eq_model fuel (x.a * y.b - x.b * y.a) (x.b * y.b) h
  src_op hg (x.a * y.b - x.b * y.a) (x.b * y.b)

/-- `floor`, `ceil`: no call, no budget; a zero denominator gives `divzero` on both sides. -/
theorem floor_eq_model (fuel : Nat) (x : Q) : RationalSrc.floor fuel x.a x.b = (Rational.floor none x).map pair := by
  simp only [src_def, Rational.floor, divT, chk, bind, Except.bind, pure, Except.pure, Except.map, pair]
  split_ifs <;> (try simp_all) <;> (try omega)

theorem ceil_eq_model (fuel : Nat) (x : Q) : RationalSrc.ceil fuel x.a x.b = (Rational.ceil none x).map pair := by
  simp only [src_def, Rational.ceil, divT, chk, bind, Except.bind, pure, Except.pure, Except.map, pair]
  split_ifs <;> (try simp_all) <;> (try omega)

/-! ### The four forms of each operator are one function

`a + b` (by value, `impl_copy_op!`), `a += &b`, `a += b` (`impl_copy_assign_op!`) forward to `Add<&Self>::add`; on the generated side
a `&mut self` function returns the new value of `self`, so all four have the same type. -/

macro "same_form" : tactic =>
  `(tactic| (simp only [src_def]
             repeat' split
             all_goals simp_all))

theorem add_forms (fuel : Nat) (a b c d : Int) :
    RationalSrc.add fuel a b c d = RationalSrc.add_ref fuel a b c d ∧
    RationalSrc.add_assign_ref fuel a b c d = RationalSrc.add_ref fuel a b c d ∧
    RationalSrc.add_assign fuel a b c d = RationalSrc.add_ref fuel a b c d := by
  refine ⟨?_, ?_, ?_⟩ <;> same_form

theorem sub_forms (fuel : Nat) (a b c d : Int) :
    RationalSrc.sub fuel a b c d = RationalSrc.sub_ref fuel a b c d ∧
    RationalSrc.sub_assign_ref fuel a b c d = RationalSrc.sub_ref fuel a b c d ∧
    RationalSrc.sub_assign fuel a b c d = RationalSrc.sub_ref fuel a b c d := by
  refine ⟨?_, ?_, ?_⟩ <;> same_form

theorem mul_forms (fuel : Nat) (a b c d : Int) :
    RationalSrc.mul fuel a b c d = RationalSrc.mul_ref fuel a b c d ∧
    RationalSrc.mul_assign_ref fuel a b c d = RationalSrc.mul_ref fuel a b c d ∧
    RationalSrc.mul_assign fuel a b c d = RationalSrc.mul_ref fuel a b c d := by
  refine ⟨?_, ?_, ?_⟩ <;> same_form

theorem div_forms (fuel : Nat) (a b c d : Int) :
    RationalSrc.div fuel a b c d = RationalSrc.div_ref fuel a b c d ∧
    RationalSrc.div_assign_ref fuel a b c d = RationalSrc.div_ref fuel a b c d ∧
    RationalSrc.div_assign fuel a b c d = RationalSrc.div_ref fuel a b c d := by
  refine ⟨?_, ?_, ?_⟩ <;> same_form

end Rlib.RationalSrc
