import RlibModel.Lemmas.Segtree
/-!
Helper lemmas for C02 (boundary searches).

* `scanG` — linear scan with a carried aggregate (generic in the combining step and the index step);
  `scan` (rightwards) and `scanR` (leftwards) are its two instances.
* `MonoOn` — the predicate is monotone along the prefixes of *this* list starting from *this* carry (once true it
  stays true); nothing is required of values that do not occur.
* `lb_spec` (ported from `spikes/SegLowerBound.lean`, strengthened: relative monotonicity, probe log) and its
  mirror image `lbr_spec`.
-/
namespace Rlib.Segtree

variable {T M A : Type}

/-! ### generic linear scan -/

def scanG (h : A → A → A) (step : Nat → Nat) (g : A → Bool) : A → List A → Nat → A × Option Nat
  | c, [], _ => (c, none)
  | c, a :: as, i => if g (h c a) then (h c a, some i) else scanG h step g (h c a) as (step i)

def iter (step : Nat → Nat) : Nat → Nat → Nat
  | 0, i => i
  | k + 1, i => iter step k (step i)

theorem iter_succ (k i : Nat) : iter (· + 1) k i = i + k := by
  induction k generalizing i with
  | zero => rfl
  | succ k ih => simp only [iter, ih]; omega

theorem iter_pred (k i : Nat) : iter (· - 1) k i = i - k := by
  induction k generalizing i with
  | zero => rfl
  | succ k ih => simp only [iter, ih]; omega

theorem scanG_append (h : A → A → A) (step : Nat → Nat) (g : A → Bool) : ∀ (xs ys : List A) (c : A) (i : Nat),
    scanG h step g c (xs ++ ys) i =
      match scanG h step g c xs i with
      | (c', some j) => (c', some j)
      | (c', none) => scanG h step g c' ys (iter step xs.length i) := by
  intro xs
  induction xs with
  | nil => intro ys c i; simp [scanG, iter]
  | cons a as ih =>
    intro ys c i
    simp only [List.cons_append, scanG]
    by_cases hg : g (h c a)
    · simp [hg]
    · simp only [hg, Bool.false_eq_true, if_false, ih, List.length_cons, iter]

/-- `g` is monotone along the non-empty prefixes of `xs` folded into the carry `c` -/
def MonoOn (h : A → A → A) (g : A → Bool) (c : A) (xs : List A) : Prop :=
  ∀ i j, 1 ≤ i → i ≤ j → j ≤ xs.length → g ((xs.take i).foldl h c) = true → g ((xs.take j).foldl h c) = true

theorem MonoOn_append_left (h : A → A → A) (g : A → Bool) (c : A) (xs ys : List A)
    (hm : MonoOn h g c (xs ++ ys)) : MonoOn h g c xs := by
  intro i j hi hij hj hg
  have := hm i j hi hij (by simp; omega)
  rw [List.take_append_of_le_length (by omega), List.take_append_of_le_length (by omega)] at this
  exact this hg

theorem take_length_add_append {α : Type} (xs ys : List α) (i : Nat) :
    (xs ++ ys).take (xs.length + i) = xs ++ ys.take i := by
  rw [List.take_append, List.take_of_length_le (by omega), Nat.add_sub_cancel_left]

theorem MonoOn_append_right (h : A → A → A) (g : A → Bool) (c : A) (xs ys : List A)
    (hm : MonoOn h g c (xs ++ ys)) : MonoOn h g (xs.foldl h c) ys := by
  intro i j hi hij hj hg
  have := hm (xs.length + i) (xs.length + j) (by omega) (by omega) (by simp; omega)
  rw [take_length_add_append, take_length_add_append, List.foldl_append, List.foldl_append] at this
  exact this hg

/-- with a predicate monotone on this list, a false total means nothing inside is true -/
theorem scanG_none (h : A → A → A) (step : Nat → Nat) (g : A → Bool) :
    ∀ (xs : List A) (c : A) (i : Nat), MonoOn h g c xs → g (xs.foldl h c) = false →
      scanG h step g c xs i = (xs.foldl h c, none) := by
  intro xs
  induction xs with
  | nil => intro c i _ _; rfl
  | cons a as ih =>
    intro c i hm hfalse
    have hstep : g (h c a) = false := by
      cases hg : g (h c a) with
      | false => rfl
      | true =>
        have := hm 1 (as.length + 1) (Nat.le_refl _) (by omega) (by simp) (by simpa using hg)
        rw [List.take_of_length_le (by simp)] at this
        rw [this] at hfalse; cases hfalse
    have hm' : MonoOn h g (h c a) as := MonoOn_append_right h g c [a] as hm
    simp only [scanG, hstep, Bool.false_eq_true, if_false, List.foldl_cons]
    exact ih _ _ hm' hfalse

/-- a scan that finds nothing has folded the whole list into the carry -/
theorem scanG_none_carry (h : A → A → A) (step : Nat → Nat) (g : A → Bool) :
    ∀ (xs : List A) (c : A) (i : Nat), (scanG h step g c xs i).2 = none → (scanG h step g c xs i).1 = xs.foldl h c := by
  intro xs
  induction xs with
  | nil => intro c i _; rfl
  | cons a as ih =>
    intro c i hn
    simp only [scanG] at hn ⊢
    by_cases hg : g (h c a)
    · simp [hg] at hn
    · simp only [hg, Bool.false_eq_true, if_false] at hn ⊢
      exact ih _ _ hn

/-- what a successful scan returns: the first position whose prefix satisfies `g` -/
theorem scanG_some (h : A → A → A) (step : Nat → Nat) (g : A → Bool) :
    ∀ (xs : List A) (c : A) (i j : Nat), (scanG h step g c xs i).2 = some j →
      ∃ k, k < xs.length ∧ j = iter step k i ∧ g ((xs.take (k + 1)).foldl h c) = true ∧
        (scanG h step g c xs i).1 = (xs.take (k + 1)).foldl h c ∧
        ∀ k', k' < k → g ((xs.take (k' + 1)).foldl h c) = false := by
  intro xs
  induction xs with
  | nil => intro c i j hj; simp [scanG] at hj
  | cons a as ih =>
    intro c i j hj
    simp only [scanG] at hj ⊢
    by_cases hg : g (h c a)
    · simp only [hg, if_true] at hj ⊢
      refine ⟨0, by simp, ?_, by simpa using hg, by simp, by intro k' hk'; omega⟩
      cases hj; rfl
    · simp only [hg, Bool.false_eq_true, if_false] at hj ⊢
      obtain ⟨k, hk, e1, e2, e3, e4⟩ := ih _ _ _ hj
      refine ⟨k + 1, by simp; omega, by simpa [iter] using e1, by simpa using e2, by simpa using e3, ?_⟩
      intro k' hk'
      cases k' with
      | zero => simpa using hg
      | succ k' => simpa using e4 k' (by omega)

/-- a failed scan: no prefix satisfies `g` -/
theorem scanG_none_all (h : A → A → A) (step : Nat → Nat) (g : A → Bool) :
    ∀ (xs : List A) (c : A) (i : Nat), (scanG h step g c xs i).2 = none →
      ∀ k, k < xs.length → g ((xs.take (k + 1)).foldl h c) = false := by
  intro xs
  induction xs with
  | nil => intro c i _ k hk; simp at hk
  | cons a as ih =>
    intro c i hn k hk
    simp only [scanG] at hn
    by_cases hg : g (h c a)
    · simp [hg] at hn
    · simp only [hg, Bool.false_eq_true, if_false] at hn
      cases k with
      | zero => simpa using hg
      | succ k => simpa using ih _ _ hn k (by simpa using hk)

variable (I : Item T M A)

/-- rightward scan: indices go up -/
def scan (g : A → Bool) : A → List A → Nat → A × Option Nat := scanG I.op (· + 1) g
/-- leftward scan over the elements in right-to-left order: indices go down -/
def scanR (g : A → Bool) : A → List A → Nat → A × Option Nat := scanG (fun c a => I.op a c) (· - 1) g

/-- every logged probe `(k, p)` of a rightward search from `l`: `p` observes the carry merged with `[l, k]` -/
def LogOK (d : List A) (c : A) (l vl vr : Nat) (log : List (Nat × T)) : Prop :=
  ∀ kp ∈ log, l ≤ kp.1 ∧ kp.1 ≤ vr ∧ I.val kp.2 = (slice d (l - vl) (kp.1 + 1 - vl)).foldl I.op c

theorem LogOK_append (d : List A) (c : A) (l vl vr : Nat) (a b : List (Nat × T)) :
    LogOK I d c l vl vr (a ++ b) ↔ LogOK I d c l vl vr a ∧ LogOK I d c l vl vr b := by
  simp only [LogOK, List.mem_append]
  constructor
  · intro h; exact ⟨fun kp hk => h kp (Or.inl hk), fun kp hk => h kp (Or.inr hk)⟩
  · rintro ⟨h1, h2⟩ kp (hk | hk)
    · exact h1 kp hk
    · exact h2 kp hk

theorem LogOK_nil (d : List A) (c : A) (l vl vr : Nat) : LogOK I d c l vl vr [] := by
  intro kp hk; cases hk

theorem LogOK_left (dl dr : List A) (c : A) (l vl m vr : Nat) (log : List (Nat × T))
    (hlen : dl.length = m + 1 - vl) (hmv : m ≤ vr) (h : LogOK I dl c l vl m log) :
    LogOK I (dl ++ dr) c l vl vr log := by
  intro kp hk
  obtain ⟨a, b, e⟩ := h kp hk
  refine ⟨a, by omega, ?_⟩
  rw [slice_append_left dl dr (l - vl) (kp.1 + 1 - vl) (by omega)]; exact e

theorem LogOK_right (dl dr : List A) (c : A) (l vl m vr : Nat) (log : List (Nat × T))
    (hlen : dl.length = m + 1 - vl) (hvl : vl ≤ m) (hl : m + 1 ≤ l) (h : LogOK I dr c l (m + 1) vr log) :
    LogOK I (dl ++ dr) c l vl vr log := by
  intro kp hk
  obtain ⟨a, b, e⟩ := h kp hk
  refine ⟨a, b, ?_⟩
  have ea : l - vl - dl.length = l - (m + 1) := by omega
  have eb : kp.1 + 1 - vl - dl.length = kp.1 + 1 - (m + 1) := by omega
  rw [slice_append_right dl dr (l - vl) (kp.1 + 1 - vl) (by omega), ea, eb]; exact e

theorem LogOK_right_carry (dl dr : List A) (c c' : A) (l vl m vr : Nat) (log : List (Nat × T))
    (hlen : dl.length = m + 1 - vl) (hvl : vl ≤ l) (hl : l ≤ m)
    (hc : c' = (slice dl (l - vl) (m + 1 - vl)).foldl I.op c)
    (h : LogOK I dr c' (m + 1) (m + 1) vr log) :
    LogOK I (dl ++ dr) c l vl vr log := by
  intro kp hk
  obtain ⟨a, b, e⟩ := h kp hk
  refine ⟨by omega, b, ?_⟩
  have ea : kp.1 + 1 - vl - (m + 1 - vl) = kp.1 + 1 - (m + 1) := by omega
  rw [slice_append_mid dl dr (l - vl) (kp.1 + 1 - vl) (by omega) (by omega), List.foldl_append, e, hc, hlen, ea,
    Nat.sub_self]

/-- the value probed at a node that starts at `l` observes the carry merged with the whole node -/
theorem probe_node (L : Lawful I) (t : Tree T) (item : T) (vl vr : Nat) (hwf : WF I t) (hs : Shaped t vl vr) :
    I.val (I.merge item t.root) = (slice (den I t) (vl - vl) (vr + 1 - vl)).foldl I.op (I.val item) := by
  have hsz := (Shaped_size _ _ _ hs).1
  have hle := (Shaped_size _ _ _ hs).2
  have hlen := den_length I t
  have e : vr + 1 - vl = (den I t).length := by omega
  rw [Nat.sub_self, e, slice_all, foldl_of_foldO I L _ (I.val item) _ (WF_root I t hwf).symm, L.val_merge]

theorem lb_spec (L : Lawful I) (f : T → Bool) (g : A → Bool) (hf : ∀ x, f x = g (I.val x))
    (t : Tree T) (item : T) (l vl vr : Nat) (hwf : WF I t) (hs : Shaped t vl vr) (h1 : vl ≤ l) (h2 : l ≤ vr)
    (hm : MonoOn I.op g (I.val item) (slice (den I t) (l - vl) (vr + 1 - vl))) :
    (I.val (lb I t item f l vl vr).carry, (lb I t item f l vl vr).res) =
        scan I g (I.val item) (slice (den I t) (l - vl) (vr + 1 - vl)) l ∧
    den I (lb I t item f l vl vr).tree = den I t ∧ WF I (lb I t item f l vl vr).tree ∧
    Shaped (lb I t item f l vl vr).tree vl vr ∧
    LogOK I (den I t) (I.val item) l vl vr (lb I t item f l vl vr).log := by
  induction t, item, l, vl, vr using lb.induct I f with
  | case1 item l vl vr v next hfn =>
    have hpn := probe_node I L (.leaf v) item vl vr hwf hs
    simp only [Shaped] at hs; subst hs
    have : l = vl := by omega
    subst this
    have hg : g (I.op (I.val item) (I.val v)) = true := by rw [← L.val_merge, ← hf]; exact hfn
    rw [lb, if_pos hfn]
    refine ⟨?_, rfl, trivial, rfl, ?_⟩
    · simp [den, slice, scan, scanG, hg, L.val_merge]
    · intro kp hk
      simp only [List.mem_singleton] at hk; subst hk
      exact ⟨Nat.le_refl _, Nat.le_refl _, hpn⟩
  | case2 item l vl vr v next hfn =>
    have hpn := probe_node I L (.leaf v) item vl vr hwf hs
    simp only [Shaped] at hs; subst hs
    have : l = vl := by omega
    subst this
    have hg : g (I.op (I.val item) (I.val v)) = false := by
      rw [← L.val_merge, ← hf]; simpa using hfn
    rw [lb, if_neg hfn]
    refine ⟨?_, rfl, trivial, rfl, ?_⟩
    · simp [den, slice, scan, scanG, hg, L.val_merge]
    · intro kp hk
      simp only [List.mem_singleton] at hk; subst hk
      exact ⟨Nat.le_refl _, Nat.le_refl _, hpn⟩
  | case3 item l vl vr v lt rt hc =>
    have hpn := probe_node I L (.node v lt rt) item vl vr hwf hs
    obtain ⟨rfl, hfn⟩ := hc
    rw [lb, if_pos ⟨rfl, hfn⟩]
    refine ⟨?_, rfl, hwf, hs, ?_⟩
    · have hsz := (Shaped_size _ _ _ hs).1
      have hlen := den_length I (.node v lt rt)
      have e : vr + 1 - l = (den I (.node v lt rt)).length := by omega
      rw [Nat.sub_self, e, slice_all] at hm ⊢
      have hfold := foldl_of_foldO I L _ (I.val item) _ hwf.2.2.symm
      rw [scan, scanG_none I.op _ g _ _ _ hm (by rw [hfold, ← L.val_merge, ← hf]; simpa using hfn), hfold, L.val_merge]
    · intro kp hk
      simp only [List.mem_singleton] at hk; subst hk
      exact ⟨(Shaped_size _ _ _ hs).2, Nat.le_refl _, hpn⟩
  | case4 item l vl vr v lt rt hc p lt' m hlm q i hqi ih =>
    have hpn := probe_node I L (.node v lt rt) item vl vr hwf hs
    have hvlr := (Shaped_size _ _ _ hs).2
    obtain ⟨hs1, hs2, hs3⟩ := hs
    have hwl := (WF_pushed I L v lt rt hwf).1
    have hwr := (WF_pushed I L v lt rt hwf).2
    have hsl : Shaped lt' vl m := (Shaped_setRoot _ _ _ _).2 hs2
    have hd := den_pushed I L v lt rt
    have hsz := (Shaped_size _ _ _ hsl).1
    have hlen := den_length I lt'
    have hsplit := slice_append_mid (den I lt') (den I (rt.setRoot p.2.2)) (l - vl) (vr + 1 - vl)
      (by rw [hlen, hsz]; omega) (by rw [hlen, hsz]; omega)
    have e1 : slice (den I lt') (l - vl) (den I lt').length = slice (den I lt') (l - vl) (m + 1 - vl) := by
      rw [hlen, hsz]; congr 1; omega
    rw [hd, hsplit, e1] at hm
    obtain ⟨i1, i2, i3, i4, i5⟩ := ih hwl hsl h1 hlm (MonoOn_append_left _ _ _ _ _ hm)
    obtain ⟨w1, w2⟩ := WF_rebuild I v p.1 lt rt q.tree (rt.setRoot p.2.2) hwf
      (L.push_val0 _ _ _) (L.push_pa0 _ _ _) (by rw [i2]; exact hd) i3 hwr
    have hqi' : (lb I (lt.setRoot (I.push v lt.root rt.root).2.1) item f l vl ((vl + vr) / 2)).res = some i := hqi
    have e : lb I (.node v lt rt) item f l vl vr =
        ⟨q.carry, some i, .node p.1 q.tree (rt.setRoot p.2.2),
         (if l = vl then [(vr, I.merge item v)] else []) ++ q.log⟩ := by
      rw [lb, if_neg hc, if_pos hlm]; simp only [hqi']; rfl
    rw [e]
    refine ⟨?_, w2, w1, ⟨hs1, i4, (Shaped_setRoot _ _ _ _).2 hs3⟩, ?_⟩
    · rw [hd, hsplit, e1, scan, scanG_append]
      have i1' := i1; rw [scan] at i1'
      rw [← i1', hqi]
    · rw [LogOK_append]
      refine ⟨?_, ?_⟩
      · by_cases hlv : l = vl
        · subst hlv
          rw [if_pos rfl]
          intro kp hk
          simp only [List.mem_singleton] at hk; subst hk
          exact ⟨hvlr, Nat.le_refl _, hpn⟩
        · rw [if_neg hlv]; exact LogOK_nil I _ _ _ _ _
      · rw [hd]
        exact LogOK_left I _ _ _ _ _ m _ _ (by rw [hlen, hsz]; omega) (by omega) i5
  | case5 item l vl vr v lt rt hc p lt' rt' m hlm q hqn ih _ ih2 =>
    have hpn := probe_node I L (.node v lt rt) item vl vr hwf hs
    have hvlr := (Shaped_size _ _ _ hs).2
    obtain ⟨hs1, hs2, hs3⟩ := hs
    have hwl := (WF_pushed I L v lt rt hwf).1
    have hwr := (WF_pushed I L v lt rt hwf).2
    have hsl : Shaped lt' vl m := (Shaped_setRoot _ _ _ _).2 hs2
    have hsr : Shaped rt' (m+1) vr := (Shaped_setRoot _ _ _ _).2 hs3
    have hd := den_pushed I L v lt rt
    have hsz := (Shaped_size _ _ _ hsl).1
    have hlen := den_length I lt'
    have hsplit := slice_append_mid (den I lt') (den I rt') (l - vl) (vr + 1 - vl)
      (by rw [hlen, hsz]; omega) (by rw [hlen, hsz]; omega)
    have e1 : slice (den I lt') (l - vl) (den I lt').length = slice (den I lt') (l - vl) (m + 1 - vl) := by
      rw [hlen, hsz]; congr 1; omega
    have e3 : slice (den I rt') 0 (vr + 1 - vl - (den I lt').length) =
        slice (den I rt') (m + 1 - (m + 1)) (vr + 1 - (m + 1)) := by
      rw [hlen, hsz]; congr 1 <;> omega
    rw [hd, hsplit, e1, e3] at hm
    obtain ⟨i1, i2, i3, i4, i5⟩ := ih hwl hsl h1 hlm (MonoOn_append_left _ _ _ _ _ hm)
    have hmx : max l (m + 1) = m + 1 := by omega
    -- the carry handed to the right child is the fold of the left part
    have hcarry : I.val q.carry = (slice (den I lt') (l - vl) (m + 1 - vl)).foldl I.op (I.val item) := by
      have i1' := i1; rw [scan] at i1'
      have hn : (scanG I.op (· + 1) g (I.val item) (slice (den I lt') (l - vl) (m + 1 - vl)) l).2 = none := by
        rw [← i1']; exact hqn
      have := scanG_none_carry I.op (· + 1) g _ _ _ hn
      rw [← i1'] at this; exact this
    have hmr : MonoOn I.op g (I.val q.carry)
        (slice (den I rt') (max l (m + 1) - (m + 1)) (vr + 1 - (m + 1))) := by
      rw [hcarry, hmx]; exact MonoOn_append_right _ _ _ _ _ hm
    obtain ⟨j1, j2, j3, j4, j5⟩ := ih2 hwr hsr (by omega) (by omega) hmr
    obtain ⟨w1, w2⟩ := WF_rebuild I v p.1 lt rt q.tree (lb I rt' q.carry f (max l (m+1)) (m+1) vr).tree hwf
      (L.push_val0 _ _ _) (L.push_pa0 _ _ _) (by rw [i2, j2]; exact hd) i3 j3
    have hqn' : (lb I (lt.setRoot (I.push v lt.root rt.root).2.1) item f l vl ((vl + vr) / 2)).res = none := hqn
    have e : lb I (.node v lt rt) item f l vl vr =
        ⟨(lb I rt' q.carry f (max l (m+1)) (m+1) vr).carry, (lb I rt' q.carry f (max l (m+1)) (m+1) vr).res,
         .node p.1 q.tree (lb I rt' q.carry f (max l (m+1)) (m+1) vr).tree,
         (if l = vl then [(vr, I.merge item v)] else []) ++ (q.log ++ (lb I rt' q.carry f (max l (m+1)) (m+1) vr).log)⟩ := by
      rw [lb, if_neg hc, if_pos hlm]; simp only [hqn']; rfl
    rw [e]
    refine ⟨?_, w2, w1, ⟨hs1, i4, j4⟩, ?_⟩
    · rw [hd, hsplit, e1, e3, scan, scanG_append]
      have i1' := i1; rw [scan] at i1'
      have e2 : (slice (den I lt') (l - vl) (m + 1 - vl)).length = m + 1 - l := by
        rw [slice_length _ _ _ (by rw [hlen, hsz]; omega)]; omega
      rw [← i1', hqn]
      simp only
      rw [e2, iter_succ, show l + (m + 1 - l) = m + 1 by omega]
      rw [hmx, scan] at j1
      rw [hmx]; exact j1
    · rw [LogOK_append, LogOK_append]
      refine ⟨?_, ?_, ?_⟩
      · by_cases hlv : l = vl
        · subst hlv
          rw [if_pos rfl]
          intro kp hk
          simp only [List.mem_singleton] at hk; subst hk
          exact ⟨hvlr, Nat.le_refl _, hpn⟩
        · rw [if_neg hlv]; exact LogOK_nil I _ _ _ _ _
      · rw [hd]
        exact LogOK_left I _ _ _ _ _ m _ _ (by rw [hlen, hsz]; omega) (by omega) i5
      · rw [hd]
        have j5' : LogOK I (den I rt') (I.val q.carry) (m + 1) (m + 1) vr
            (lb I rt' q.carry f (max l (m+1)) (m+1) vr).log := by
          rw [hmx] at j5 ⊢; exact j5
        exact LogOK_right_carry I _ _ _ _ _ _ m _ _ (by rw [hlen, hsz]; omega) h1 hlm hcarry j5'
  | case6 item l vl vr v lt rt hc p rt' m hlm ih =>
    have hvlr := (Shaped_size _ _ _ hs).2
    obtain ⟨hs1, hs2, hs3⟩ := hs
    have hwl := (WF_pushed I L v lt rt hwf).1
    have hwr := (WF_pushed I L v lt rt hwf).2
    have hsl : Shaped (lt.setRoot p.2.1) vl m := (Shaped_setRoot _ _ _ _).2 hs2
    have hsr : Shaped rt' (m+1) vr := (Shaped_setRoot _ _ _ _).2 hs3
    have hmx : max l (m + 1) = l := by omega
    have hd := den_pushed I L v lt rt
    have hsz := (Shaped_size _ _ _ hsl).1
    have hlen := den_length I (lt.setRoot p.2.1)
    have e5 : slice (den I rt') (l - vl - (den I (lt.setRoot p.2.1)).length) (vr + 1 - vl - (den I (lt.setRoot p.2.1)).length) =
        slice (den I rt') (l - (m + 1)) (vr + 1 - (m + 1)) := by
      rw [hlen, hsz]; congr 1 <;> omega
    have hsplit := slice_append_right (den I (lt.setRoot p.2.1)) (den I rt') (l - vl) (vr + 1 - vl)
      (by rw [hlen, hsz]; omega)
    rw [hd, hsplit, e5] at hm
    obtain ⟨j1, j2, j3, j4, j5⟩ := ih hwr hsr (by omega) (by omega) (by rw [hmx]; exact hm)
    obtain ⟨w1, w2⟩ := WF_rebuild I v p.1 lt rt (lt.setRoot p.2.1) (lb I rt' item f (max l (m+1)) (m+1) vr).tree hwf
      (L.push_val0 _ _ _) (L.push_pa0 _ _ _) (by rw [j2]; exact hd) hwl j3
    have hlv : ¬ l = vl := by omega
    have e : lb I (.node v lt rt) item f l vl vr =
        ⟨(lb I rt' item f (max l (m+1)) (m+1) vr).carry, (lb I rt' item f (max l (m+1)) (m+1) vr).res,
         .node p.1 (lt.setRoot p.2.1) (lb I rt' item f (max l (m+1)) (m+1) vr).tree,
         (if l = vl then [(vr, I.merge item v)] else []) ++ (lb I rt' item f (max l (m+1)) (m+1) vr).log⟩ := by
      rw [lb, if_neg hc, if_neg hlm]
    rw [e]
    refine ⟨?_, w2, w1, ⟨hs1, (Shaped_setRoot _ _ _ _).2 hs2, j4⟩, ?_⟩
    · rw [hmx] at j1
      rw [hd, hsplit, e5, hmx, j1]
    · rw [if_neg hlv, List.nil_append, hd]
      have j5' : LogOK I (den I rt') (I.val item) l (m + 1) vr (lb I rt' item f (max l (m+1)) (m+1) vr).log := by
        rw [hmx] at j5 ⊢; exact j5
      exact LogOK_right I _ _ _ _ _ m _ _ (by rw [hlen, hsz]; omega) (by omega) (by omega) j5'

/-- The part of `lb_spec` that needs no assumption on the predicate at all: the pushes are harmless, every probe is
    the carry merged with a range `[l, k]`, and a search that answers `none` has folded the whole range. -/
theorem lb_log (L : Lawful I) (f : T → Bool)
    (t : Tree T) (item : T) (l vl vr : Nat) (hwf : WF I t) (hs : Shaped t vl vr) (h1 : vl ≤ l) (h2 : l ≤ vr) :
    den I (lb I t item f l vl vr).tree = den I t ∧ WF I (lb I t item f l vl vr).tree ∧
    Shaped (lb I t item f l vl vr).tree vl vr ∧
    LogOK I (den I t) (I.val item) l vl vr (lb I t item f l vl vr).log ∧
    ((lb I t item f l vl vr).res = none →
      I.val (lb I t item f l vl vr).carry = (slice (den I t) (l - vl) (vr + 1 - vl)).foldl I.op (I.val item)) := by
  induction t, item, l, vl, vr using lb.induct I f with
  | case1 item l vl vr v next hfn =>
    have hpn := probe_node I L (.leaf v) item vl vr hwf hs
    simp only [Shaped] at hs; subst hs
    have : l = vl := by omega
    subst this
    rw [lb, if_pos hfn]
    refine ⟨rfl, trivial, rfl, ?_, fun h => by cases h⟩
    intro kp hk
    simp only [List.mem_singleton] at hk; subst hk
    exact ⟨Nat.le_refl _, Nat.le_refl _, hpn⟩
  | case2 item l vl vr v next hfn =>
    have hpn := probe_node I L (.leaf v) item vl vr hwf hs
    simp only [Shaped] at hs; subst hs
    have : l = vl := by omega
    subst this
    rw [lb, if_neg hfn]
    refine ⟨rfl, trivial, rfl, ?_, fun _ => hpn⟩
    intro kp hk
    simp only [List.mem_singleton] at hk; subst hk
    exact ⟨Nat.le_refl _, Nat.le_refl _, hpn⟩
  | case3 item l vl vr v lt rt hc =>
    have hpn := probe_node I L (.node v lt rt) item vl vr hwf hs
    obtain ⟨rfl, hfn⟩ := hc
    rw [lb, if_pos ⟨rfl, hfn⟩]
    refine ⟨rfl, hwf, hs, ?_, fun _ => hpn⟩
    intro kp hk
    simp only [List.mem_singleton] at hk; subst hk
    exact ⟨(Shaped_size _ _ _ hs).2, Nat.le_refl _, hpn⟩
  | case4 item l vl vr v lt rt hc p lt' m hlm q i hqi ih =>
    have hpn := probe_node I L (.node v lt rt) item vl vr hwf hs
    have hvlr := (Shaped_size _ _ _ hs).2
    obtain ⟨hs1, hs2, hs3⟩ := hs
    have hwl := (WF_pushed I L v lt rt hwf).1
    have hwr := (WF_pushed I L v lt rt hwf).2
    have hsl : Shaped lt' vl m := (Shaped_setRoot _ _ _ _).2 hs2
    have hd := den_pushed I L v lt rt
    have hsz := (Shaped_size _ _ _ hsl).1
    have hlen := den_length I lt'
    obtain ⟨i2, i3, i4, i5, _⟩ := ih hwl hsl h1 hlm
    obtain ⟨w1, w2⟩ := WF_rebuild I v p.1 lt rt q.tree (rt.setRoot p.2.2) hwf
      (L.push_val0 _ _ _) (L.push_pa0 _ _ _) (by rw [i2]; exact hd) i3 hwr
    have hqi' : (lb I (lt.setRoot (I.push v lt.root rt.root).2.1) item f l vl ((vl + vr) / 2)).res = some i := hqi
    have e : lb I (.node v lt rt) item f l vl vr =
        ⟨q.carry, some i, .node p.1 q.tree (rt.setRoot p.2.2),
         (if l = vl then [(vr, I.merge item v)] else []) ++ q.log⟩ := by
      rw [lb, if_neg hc, if_pos hlm]; simp only [hqi']; rfl
    rw [e]
    refine ⟨w2, w1, ⟨hs1, i4, (Shaped_setRoot _ _ _ _).2 hs3⟩, ?_, fun h => by cases h⟩
    rw [LogOK_append]
    refine ⟨?_, ?_⟩
    · by_cases hlv : l = vl
      · subst hlv
        rw [if_pos rfl]
        intro kp hk
        simp only [List.mem_singleton] at hk; subst hk
        exact ⟨hvlr, Nat.le_refl _, hpn⟩
      · rw [if_neg hlv]; exact LogOK_nil I _ _ _ _ _
    · rw [hd]
      exact LogOK_left I _ _ _ _ _ m _ _ (by rw [hlen, hsz]; omega) (by omega) i5
  | case5 item l vl vr v lt rt hc p lt' rt' m hlm q hqn ih _ ih2 =>
    have hpn := probe_node I L (.node v lt rt) item vl vr hwf hs
    have hvlr := (Shaped_size _ _ _ hs).2
    obtain ⟨hs1, hs2, hs3⟩ := hs
    have hwl := (WF_pushed I L v lt rt hwf).1
    have hwr := (WF_pushed I L v lt rt hwf).2
    have hsl : Shaped lt' vl m := (Shaped_setRoot _ _ _ _).2 hs2
    have hsr : Shaped rt' (m+1) vr := (Shaped_setRoot _ _ _ _).2 hs3
    have hd := den_pushed I L v lt rt
    have hsz := (Shaped_size _ _ _ hsl).1
    have hlen := den_length I lt'
    obtain ⟨i2, i3, i4, i5, i6⟩ := ih hwl hsl h1 hlm
    have hmx : max l (m + 1) = m + 1 := by omega
    have hcarry : I.val q.carry = (slice (den I lt') (l - vl) (m + 1 - vl)).foldl I.op (I.val item) := i6 hqn
    obtain ⟨j2, j3, j4, j5, j6⟩ := ih2 hwr hsr (by omega) (by omega)
    obtain ⟨w1, w2⟩ := WF_rebuild I v p.1 lt rt q.tree (lb I rt' q.carry f (max l (m+1)) (m+1) vr).tree hwf
      (L.push_val0 _ _ _) (L.push_pa0 _ _ _) (by rw [i2, j2]; exact hd) i3 j3
    have hqn' : (lb I (lt.setRoot (I.push v lt.root rt.root).2.1) item f l vl ((vl + vr) / 2)).res = none := hqn
    have e : lb I (.node v lt rt) item f l vl vr =
        ⟨(lb I rt' q.carry f (max l (m+1)) (m+1) vr).carry, (lb I rt' q.carry f (max l (m+1)) (m+1) vr).res,
         .node p.1 q.tree (lb I rt' q.carry f (max l (m+1)) (m+1) vr).tree,
         (if l = vl then [(vr, I.merge item v)] else []) ++ (q.log ++ (lb I rt' q.carry f (max l (m+1)) (m+1) vr).log)⟩ := by
      rw [lb, if_neg hc, if_pos hlm]; simp only [hqn']; rfl
    rw [e]
    refine ⟨w2, w1, ⟨hs1, i4, j4⟩, ?_, ?_⟩
    · rw [LogOK_append, LogOK_append]
      refine ⟨?_, ?_, ?_⟩
      · by_cases hlv : l = vl
        · subst hlv
          rw [if_pos rfl]
          intro kp hk
          simp only [List.mem_singleton] at hk; subst hk
          exact ⟨hvlr, Nat.le_refl _, hpn⟩
        · rw [if_neg hlv]; exact LogOK_nil I _ _ _ _ _
      · rw [hd]
        exact LogOK_left I _ _ _ _ _ m _ _ (by rw [hlen, hsz]; omega) (by omega) i5
      · rw [hd]
        have j5' : LogOK I (den I rt') (I.val q.carry) (m + 1) (m + 1) vr
            (lb I rt' q.carry f (max l (m+1)) (m+1) vr).log := by
          rw [hmx] at j5 ⊢; exact j5
        exact LogOK_right_carry I _ _ _ _ _ _ m _ _ (by rw [hlen, hsz]; omega) h1 hlm hcarry j5'
    · intro hn
      have j6' := j6 hn
      have ea : vr + 1 - vl - (den I lt').length = vr + 1 - (m + 1) := by rw [hlen, hsz]; omega
      have eb : slice (den I lt') (l - vl) (den I lt').length = slice (den I lt') (l - vl) (m + 1 - vl) := by
        rw [hlen, hsz]; congr 1; omega
      rw [hd, slice_append_mid (den I lt') (den I rt') (l - vl) (vr + 1 - vl) (by rw [hlen, hsz]; omega)
        (by rw [hlen, hsz]; omega), List.foldl_append, ea, eb, ← hcarry]
      exact j6'.trans (by rw [hmx, Nat.sub_self])
  | case6 item l vl vr v lt rt hc p rt' m hlm ih =>
    have hvlr := (Shaped_size _ _ _ hs).2
    obtain ⟨hs1, hs2, hs3⟩ := hs
    have hwl := (WF_pushed I L v lt rt hwf).1
    have hwr := (WF_pushed I L v lt rt hwf).2
    have hsl : Shaped (lt.setRoot p.2.1) vl m := (Shaped_setRoot _ _ _ _).2 hs2
    have hsr : Shaped rt' (m+1) vr := (Shaped_setRoot _ _ _ _).2 hs3
    have hmx : max l (m + 1) = l := by omega
    have hd := den_pushed I L v lt rt
    have hsz := (Shaped_size _ _ _ hsl).1
    have hlen := den_length I (lt.setRoot p.2.1)
    obtain ⟨j2, j3, j4, j5, j6⟩ := ih hwr hsr (by omega) (by omega)
    obtain ⟨w1, w2⟩ := WF_rebuild I v p.1 lt rt (lt.setRoot p.2.1) (lb I rt' item f (max l (m+1)) (m+1) vr).tree hwf
      (L.push_val0 _ _ _) (L.push_pa0 _ _ _) (by rw [j2]; exact hd) hwl j3
    have hlv : ¬ l = vl := by omega
    have e : lb I (.node v lt rt) item f l vl vr =
        ⟨(lb I rt' item f (max l (m+1)) (m+1) vr).carry, (lb I rt' item f (max l (m+1)) (m+1) vr).res,
         .node p.1 (lt.setRoot p.2.1) (lb I rt' item f (max l (m+1)) (m+1) vr).tree,
         (if l = vl then [(vr, I.merge item v)] else []) ++ (lb I rt' item f (max l (m+1)) (m+1) vr).log⟩ := by
      rw [lb, if_neg hc, if_neg hlm]
    rw [e]
    refine ⟨w2, w1, ⟨hs1, (Shaped_setRoot _ _ _ _).2 hs2, j4⟩, ?_, ?_⟩
    · rw [if_neg hlv, List.nil_append, hd]
      have j5' : LogOK I (den I rt') (I.val item) l (m + 1) vr (lb I rt' item f (max l (m+1)) (m+1) vr).log := by
        rw [hmx] at j5 ⊢; exact j5
      exact LogOK_right I _ _ _ _ _ m _ _ (by rw [hlen, hsz]; omega) (by omega) (by omega) j5'
    · intro hn
      have j6' := j6 hn
      have ea : l - vl - (den I (lt.setRoot p.2.1)).length = l - (m + 1) := by rw [hlen, hsz]; omega
      have eb : vr + 1 - vl - (den I (lt.setRoot p.2.1)).length = vr + 1 - (m + 1) := by rw [hlen, hsz]; omega
      rw [hd, slice_append_right (den I (lt.setRoot p.2.1)) (den I rt') (l - vl) (vr + 1 - vl)
        (by rw [hlen, hsz]; omega), ea, eb]
      exact j6'.trans (by rw [hmx])

/-! ### the leftward search (mirror image) -/

/-- folding right-to-left into a carry -/
theorem foldr_of_foldO (L : Lawful I) : ∀ (xs : List A) (c a : A), foldO I xs = some a → xs.foldr I.op c = I.op a c := by
  intro xs
  induction xs with
  | nil => intro c a h; simp [foldO] at h
  | cons x xs ih =>
    intro c a h
    rw [foldO_cons] at h
    cases h2 : foldO I xs with
    | none =>
      have := foldO_eq_none I xs h2; subst this
      rw [h2, oplus_none_right] at h
      cases h; rfl
    | some b =>
      rw [h2, oplus_some_some] at h
      cases h
      rw [List.foldr_cons, ih c b h2, L.op_assoc]

theorem foldlR_eq_foldr (xs : List A) (c : A) :
    xs.reverse.foldl (fun c a => I.op a c) c = xs.foldr I.op c := by
  rw [List.foldl_reverse]

/-- every logged probe `(k, p)` of a leftward search from `r`: `p` observes `[k, r]` merged into the carry -/
def LogOKR (d : List A) (c : A) (r vl : Nat) (log : List (Nat × T)) : Prop :=
  ∀ kp ∈ log, vl ≤ kp.1 ∧ kp.1 ≤ r ∧ I.val kp.2 = (slice d (kp.1 - vl) (r + 1 - vl)).foldr I.op c

theorem LogOKR_append (d : List A) (c : A) (r vl : Nat) (a b : List (Nat × T)) :
    LogOKR I d c r vl (a ++ b) ↔ LogOKR I d c r vl a ∧ LogOKR I d c r vl b := by
  simp only [LogOKR, List.mem_append]
  constructor
  · intro h; exact ⟨fun kp hk => h kp (Or.inl hk), fun kp hk => h kp (Or.inr hk)⟩
  · rintro ⟨h1, h2⟩ kp (hk | hk)
    · exact h1 kp hk
    · exact h2 kp hk

theorem LogOKR_nil (d : List A) (c : A) (r vl : Nat) : LogOKR I d c r vl [] := by
  intro kp hk; cases hk

theorem LogOKR_right (dl dr : List A) (c : A) (r vl m : Nat) (log : List (Nat × T))
    (hlen : dl.length = m + 1 - vl) (hvl : vl ≤ m) (h : LogOKR I dr c r (m + 1) log) :
    LogOKR I (dl ++ dr) c r vl log := by
  intro kp hk
  obtain ⟨a, b, e⟩ := h kp hk
  refine ⟨by omega, b, ?_⟩
  have ea : kp.1 - vl - dl.length = kp.1 - (m + 1) := by omega
  have eb : r + 1 - vl - dl.length = r + 1 - (m + 1) := by omega
  rw [slice_append_right dl dr (kp.1 - vl) (r + 1 - vl) (by omega), ea, eb]; exact e

theorem LogOKR_left (dl dr : List A) (c : A) (r vl m : Nat) (log : List (Nat × T))
    (hlen : dl.length = m + 1 - vl) (hr : r ≤ m) (h : LogOKR I dl c r vl log) :
    LogOKR I (dl ++ dr) c r vl log := by
  intro kp hk
  obtain ⟨a, b, e⟩ := h kp hk
  refine ⟨a, b, ?_⟩
  rw [slice_append_left dl dr (kp.1 - vl) (r + 1 - vl) (by omega)]; exact e

theorem LogOKR_left_carry (dl dr : List A) (c c' : A) (r vl m : Nat) (log : List (Nat × T))
    (hlen : dl.length = m + 1 - vl) (hvl : vl ≤ m) (hr : m < r)
    (hc : c' = (slice dr 0 (r + 1 - (m + 1))).foldr I.op c)
    (h : LogOKR I dl c' m vl log) :
    LogOKR I (dl ++ dr) c r vl log := by
  intro kp hk
  obtain ⟨a, b, e⟩ := h kp hk
  refine ⟨a, by omega, ?_⟩
  have ea : r + 1 - vl - (m + 1 - vl) = r + 1 - (m + 1) := by omega
  rw [slice_append_mid dl dr (kp.1 - vl) (r + 1 - vl) (by omega) (by omega), List.foldr_append, e, hc, hlen, ea]

/-- the value probed at a node that ends at `r` observes the whole node merged into the carry -/
theorem probe_nodeR (L : Lawful I) (t : Tree T) (item : T) (vl vr : Nat) (hwf : WF I t) (hs : Shaped t vl vr) :
    I.val (I.merge t.root item) = (slice (den I t) (vl - vl) (vr + 1 - vl)).foldr I.op (I.val item) := by
  have hsz := (Shaped_size _ _ _ hs).1
  have hle := (Shaped_size _ _ _ hs).2
  have hlen := den_length I t
  have e : vr + 1 - vl = (den I t).length := by omega
  rw [Nat.sub_self, e, slice_all, foldr_of_foldO I L _ (I.val item) _ (WF_root I t hwf).symm, L.val_merge]

theorem lbr_spec (L : Lawful I) (f : T → Bool) (g : A → Bool) (hf : ∀ x, f x = g (I.val x))
    (t : Tree T) (item : T) (r vl vr : Nat) (hwf : WF I t) (hs : Shaped t vl vr) (h1 : vl ≤ r) (h2 : r ≤ vr)
    (hm : MonoOn (fun c a => I.op a c) g (I.val item) (slice (den I t) 0 (r + 1 - vl)).reverse) :
    (I.val (lbr I t item f r vl vr).carry, (lbr I t item f r vl vr).res) =
        scanR I g (I.val item) (slice (den I t) 0 (r + 1 - vl)).reverse r ∧
    den I (lbr I t item f r vl vr).tree = den I t ∧ WF I (lbr I t item f r vl vr).tree ∧
    Shaped (lbr I t item f r vl vr).tree vl vr ∧
    LogOKR I (den I t) (I.val item) r vl (lbr I t item f r vl vr).log := by
  induction t, item, r, vl, vr using lbr.induct I f with
  | case1 item r vl vr v next hfn =>
    have hpn := probe_nodeR I L (.leaf v) item vl vr hwf hs
    simp only [Shaped] at hs; subst hs
    have : r = vl := by omega
    subst this
    have hg : g (I.op (I.val v) (I.val item)) = true := by rw [← L.val_merge, ← hf]; exact hfn
    rw [lbr, if_pos hfn]
    refine ⟨?_, rfl, trivial, rfl, ?_⟩
    · simp [den, slice, scanR, scanG, hg, L.val_merge]
    · intro kp hk
      simp only [List.mem_singleton] at hk; subst hk
      exact ⟨Nat.le_refl _, Nat.le_refl _, hpn⟩
  | case2 item r vl vr v next hfn =>
    have hpn := probe_nodeR I L (.leaf v) item vl vr hwf hs
    simp only [Shaped] at hs; subst hs
    have : r = vl := by omega
    subst this
    have hg : g (I.op (I.val v) (I.val item)) = false := by
      rw [← L.val_merge, ← hf]; simpa using hfn
    rw [lbr, if_neg hfn]
    refine ⟨?_, rfl, trivial, rfl, ?_⟩
    · simp [den, slice, scanR, scanG, hg, L.val_merge]
    · intro kp hk
      simp only [List.mem_singleton] at hk; subst hk
      exact ⟨Nat.le_refl _, Nat.le_refl _, hpn⟩
  | case3 item r vl vr v lt rt hc =>
    have hpn := probe_nodeR I L (.node v lt rt) item vl vr hwf hs
    obtain ⟨rfl, hfn⟩ := hc
    rw [lbr, if_pos ⟨rfl, hfn⟩]
    refine ⟨?_, rfl, hwf, hs, ?_⟩
    · have hsz := (Shaped_size _ _ _ hs).1
      have hlen := den_length I (.node v lt rt)
      have e : r + 1 - vl = (den I (.node v lt rt)).length := by omega
      rw [e, slice_all] at hm ⊢
      have hfold := foldr_of_foldO I L _ (I.val item) _ hwf.2.2.symm
      rw [← foldlR_eq_foldr] at hfold
      rw [scanR, scanG_none _ _ g _ _ _ hm (by rw [hfold, ← L.val_merge, ← hf]; simpa using hfn), hfold, L.val_merge]
    · intro kp hk
      simp only [List.mem_singleton] at hk; subst hk
      exact ⟨Nat.le_refl _, (Shaped_size _ _ _ hs).2, hpn⟩
  | case4 item r vl vr v lt rt hc p rt' m hrm q i hqi ih =>
    have hpn := probe_nodeR I L (.node v lt rt) item vl vr hwf hs
    have hvlr := (Shaped_size _ _ _ hs).2
    obtain ⟨hs1, hs2, hs3⟩ := hs
    have hwl := (WF_pushed I L v lt rt hwf).1
    have hwr := (WF_pushed I L v lt rt hwf).2
    have hsl : Shaped (lt.setRoot p.2.1) vl m := (Shaped_setRoot _ _ _ _).2 hs2
    have hsr : Shaped rt' (m+1) vr := (Shaped_setRoot _ _ _ _).2 hs3
    have hd := den_pushed I L v lt rt
    have hsz := (Shaped_size _ _ _ hsl).1
    have hlen := den_length I (lt.setRoot p.2.1)
    have hsplit := slice_append_mid (den I (lt.setRoot p.2.1)) (den I rt') 0 (r + 1 - vl)
      (by omega) (by rw [hlen, hsz]; omega)
    have e3 : slice (den I rt') 0 (r + 1 - vl - (den I (lt.setRoot p.2.1)).length) =
        slice (den I rt') 0 (r + 1 - (m + 1)) := by
      rw [hlen, hsz]; congr 1; omega
    rw [hd, hsplit, slice_all, e3, List.reverse_append] at hm
    obtain ⟨i1, i2, i3, i4, i5⟩ := ih hwr hsr hrm h2 (MonoOn_append_left _ _ _ _ _ hm)
    obtain ⟨w1, w2⟩ := WF_rebuild I v p.1 lt rt (lt.setRoot p.2.1) q.tree hwf
      (L.push_val0 _ _ _) (L.push_pa0 _ _ _) (by rw [i2]; exact hd) hwl i3
    have hqi' : (lbr I (rt.setRoot (I.push v lt.root rt.root).2.2) item f r ((vl + vr) / 2 + 1) vr).res = some i := hqi
    have e : lbr I (.node v lt rt) item f r vl vr =
        ⟨q.carry, some i, .node p.1 (lt.setRoot p.2.1) q.tree,
         (if r = vr then [(vl, I.merge v item)] else []) ++ q.log⟩ := by
      rw [lbr, if_neg hc, if_pos hrm]; simp only [hqi']; rfl
    rw [e]
    refine ⟨?_, w2, w1, ⟨hs1, (Shaped_setRoot _ _ _ _).2 hs2, i4⟩, ?_⟩
    · rw [hd, hsplit, slice_all, e3, List.reverse_append, scanR, scanG_append]
      have i1' := i1; rw [scanR] at i1'
      rw [← i1', hqi]
    · rw [LogOKR_append]
      refine ⟨?_, ?_⟩
      · by_cases hrv : r = vr
        · subst hrv
          rw [if_pos rfl]
          intro kp hk
          simp only [List.mem_singleton] at hk; subst hk
          exact ⟨Nat.le_refl _, hvlr, hpn⟩
        · rw [if_neg hrv]; exact LogOKR_nil I _ _ _ _
      · rw [hd]
        exact LogOKR_right I _ _ _ _ _ m _ (by rw [hlen, hsz]; omega) (by omega) i5
  | case5 item r vl vr v lt rt hc p lt' rt' m hrm q hqn ih _ ih2 =>
    have hpn := probe_nodeR I L (.node v lt rt) item vl vr hwf hs
    have hvlr := (Shaped_size _ _ _ hs).2
    obtain ⟨hs1, hs2, hs3⟩ := hs
    have hwl := (WF_pushed I L v lt rt hwf).1
    have hwr := (WF_pushed I L v lt rt hwf).2
    have hsl : Shaped lt' vl m := (Shaped_setRoot _ _ _ _).2 hs2
    have hsr : Shaped rt' (m+1) vr := (Shaped_setRoot _ _ _ _).2 hs3
    have hd := den_pushed I L v lt rt
    have hsz := (Shaped_size _ _ _ hsl).1
    have hlen := den_length I lt'
    have hsplit := slice_append_mid (den I lt') (den I rt') 0 (r + 1 - vl)
      (by omega) (by rw [hlen, hsz]; omega)
    have e3 : slice (den I rt') 0 (r + 1 - vl - (den I lt').length) =
        slice (den I rt') 0 (r + 1 - (m + 1)) := by
      rw [hlen, hsz]; congr 1; omega
    rw [hd, hsplit, slice_all, e3, List.reverse_append] at hm
    obtain ⟨i1, i2, i3, i4, i5⟩ := ih hwr hsr hrm h2 (MonoOn_append_left _ _ _ _ _ hm)
    have hmn : min r m = m := by omega
    have hcarry : I.val q.carry = (slice (den I rt') 0 (r + 1 - (m + 1))).foldr I.op (I.val item) := by
      have i1' := i1; rw [scanR] at i1'
      have hn : (scanG (fun c a => I.op a c) (· - 1) g (I.val item) (slice (den I rt') 0 (r + 1 - (m + 1))).reverse r).2 = none := by
        rw [← i1']; exact hqn
      have := scanG_none_carry _ (· - 1) g _ _ _ hn
      rw [← i1', foldlR_eq_foldr] at this; exact this
    have hall : slice (den I lt') 0 (min r m + 1 - vl) = den I lt' := by
      rw [hmn, show m + 1 - vl = (den I lt').length by rw [hlen, hsz]; omega, slice_all]
    have hml : MonoOn (fun c a => I.op a c) g (I.val q.carry) (slice (den I lt') 0 (min r m + 1 - vl)).reverse := by
      rw [hall, hcarry, ← foldlR_eq_foldr]; exact MonoOn_append_right _ _ _ _ _ hm
    obtain ⟨j1, j2, j3, j4, j5⟩ := ih2 hwl hsl (by omega) (by omega) hml
    obtain ⟨w1, w2⟩ := WF_rebuild I v p.1 lt rt (lbr I lt' q.carry f (min r m) vl m).tree q.tree hwf
      (L.push_val0 _ _ _) (L.push_pa0 _ _ _) (by rw [i2, j2]; exact hd) j3 i3
    have hqn' : (lbr I (rt.setRoot (I.push v lt.root rt.root).2.2) item f r ((vl + vr) / 2 + 1) vr).res = none := hqn
    have e : lbr I (.node v lt rt) item f r vl vr =
        ⟨(lbr I lt' q.carry f (min r m) vl m).carry, (lbr I lt' q.carry f (min r m) vl m).res,
         .node p.1 (lbr I lt' q.carry f (min r m) vl m).tree q.tree,
         (if r = vr then [(vl, I.merge v item)] else []) ++ (q.log ++ (lbr I lt' q.carry f (min r m) vl m).log)⟩ := by
      rw [lbr, if_neg hc, if_pos hrm]; simp only [hqn']; rfl
    rw [e]
    refine ⟨?_, w2, w1, ⟨hs1, j4, i4⟩, ?_⟩
    · rw [hd, hsplit, slice_all, e3, List.reverse_append, scanR, scanG_append]
      have i1' := i1; rw [scanR] at i1'
      have e2 : (slice (den I rt') 0 (r + 1 - (m + 1))).reverse.length = r - m := by
        have hszr := (Shaped_size _ _ _ hsr).1
        have hlenr := den_length I rt'
        rw [List.length_reverse, slice_length _ _ _ (by rw [hlenr, hszr]; omega)]; omega
      rw [← i1', hqn]
      simp only
      rw [e2, iter_pred, show r - (r - m) = m by omega]
      rw [hall, hmn, scanR] at j1
      rw [hmn]; exact j1
    · rw [LogOKR_append, LogOKR_append]
      refine ⟨?_, ?_, ?_⟩
      · by_cases hrv : r = vr
        · subst hrv
          rw [if_pos rfl]
          intro kp hk
          simp only [List.mem_singleton] at hk; subst hk
          exact ⟨Nat.le_refl _, hvlr, hpn⟩
        · rw [if_neg hrv]; exact LogOKR_nil I _ _ _ _
      · rw [hd]
        exact LogOKR_right I _ _ _ _ _ m _ (by rw [hlen, hsz]; omega) (by omega) i5
      · rw [hd]
        have j5' : LogOKR I (den I lt') (I.val q.carry) m vl (lbr I lt' q.carry f (min r m) vl m).log := by
          rw [hmn] at j5 ⊢; exact j5
        exact LogOKR_left_carry I _ _ _ _ _ _ m _ (by rw [hlen, hsz]; omega) (by omega) hrm hcarry j5'
  | case6 item r vl vr v lt rt hc p lt' m hrm ih =>
    have hvlr := (Shaped_size _ _ _ hs).2
    obtain ⟨hs1, hs2, hs3⟩ := hs
    have hwl := (WF_pushed I L v lt rt hwf).1
    have hwr := (WF_pushed I L v lt rt hwf).2
    have hsl : Shaped lt' vl m := (Shaped_setRoot _ _ _ _).2 hs2
    have hmn : min r m = r := by omega
    have hd := den_pushed I L v lt rt
    have hsz := (Shaped_size _ _ _ hsl).1
    have hlen := den_length I lt'
    have hsplit := slice_append_left (den I lt') (den I (rt.setRoot p.2.2)) 0 (r + 1 - vl)
      (by rw [hlen, hsz]; omega)
    rw [hd, hsplit] at hm
    obtain ⟨j1, j2, j3, j4, j5⟩ := ih hwl hsl (by omega) (by omega) (by rw [hmn]; exact hm)
    obtain ⟨w1, w2⟩ := WF_rebuild I v p.1 lt rt (lbr I lt' item f (min r m) vl m).tree (rt.setRoot p.2.2) hwf
      (L.push_val0 _ _ _) (L.push_pa0 _ _ _) (by rw [j2]; exact hd) j3 hwr
    have hrv : ¬ r = vr := by omega
    have e : lbr I (.node v lt rt) item f r vl vr =
        ⟨(lbr I lt' item f (min r m) vl m).carry, (lbr I lt' item f (min r m) vl m).res,
         .node p.1 (lbr I lt' item f (min r m) vl m).tree (rt.setRoot p.2.2),
         (if r = vr then [(vl, I.merge v item)] else []) ++ (lbr I lt' item f (min r m) vl m).log⟩ := by
      rw [lbr, if_neg hc, if_neg hrm]
    rw [e]
    refine ⟨?_, w2, w1, ⟨hs1, j4, (Shaped_setRoot _ _ _ _).2 hs3⟩, ?_⟩
    · rw [hmn] at j1
      rw [hd, hsplit, hmn, j1]
    · rw [if_neg hrv, List.nil_append, hd]
      have j5' : LogOKR I (den I lt') (I.val item) r vl (lbr I lt' item f (min r m) vl m).log := by
        rw [hmn] at j5 ⊢; exact j5
      exact LogOKR_left I _ _ _ _ _ m _ (by rw [hlen, hsz]; omega) (by omega) j5'

/-- mirror image of `lb_log` -/
theorem lbr_log (L : Lawful I) (f : T → Bool)
    (t : Tree T) (item : T) (r vl vr : Nat) (hwf : WF I t) (hs : Shaped t vl vr) (h1 : vl ≤ r) (h2 : r ≤ vr) :
    den I (lbr I t item f r vl vr).tree = den I t ∧ WF I (lbr I t item f r vl vr).tree ∧
    Shaped (lbr I t item f r vl vr).tree vl vr ∧
    LogOKR I (den I t) (I.val item) r vl (lbr I t item f r vl vr).log ∧
    ((lbr I t item f r vl vr).res = none →
      I.val (lbr I t item f r vl vr).carry = (slice (den I t) 0 (r + 1 - vl)).foldr I.op (I.val item)) := by
  induction t, item, r, vl, vr using lbr.induct I f with
  | case1 item r vl vr v next hfn =>
    have hpn := probe_nodeR I L (.leaf v) item vl vr hwf hs
    simp only [Shaped] at hs; subst hs
    have : r = vl := by omega
    subst this
    rw [lbr, if_pos hfn]
    refine ⟨rfl, trivial, rfl, ?_, fun h => by cases h⟩
    intro kp hk
    simp only [List.mem_singleton] at hk; subst hk
    exact ⟨Nat.le_refl _, Nat.le_refl _, hpn⟩
  | case2 item r vl vr v next hfn =>
    have hpn := probe_nodeR I L (.leaf v) item vl vr hwf hs
    simp only [Shaped] at hs; subst hs
    have : r = vl := by omega
    subst this
    rw [lbr, if_neg hfn]
    refine ⟨rfl, trivial, rfl, ?_, fun _ => by rw [Nat.sub_self] at hpn; exact hpn⟩
    intro kp hk
    simp only [List.mem_singleton] at hk; subst hk
    exact ⟨Nat.le_refl _, Nat.le_refl _, hpn⟩
  | case3 item r vl vr v lt rt hc =>
    have hpn := probe_nodeR I L (.node v lt rt) item vl vr hwf hs
    obtain ⟨rfl, hfn⟩ := hc
    rw [lbr, if_pos ⟨rfl, hfn⟩]
    refine ⟨rfl, hwf, hs, ?_, fun _ => by rw [Nat.sub_self] at hpn; exact hpn⟩
    intro kp hk
    simp only [List.mem_singleton] at hk; subst hk
    exact ⟨Nat.le_refl _, (Shaped_size _ _ _ hs).2, hpn⟩
  | case4 item r vl vr v lt rt hc p rt' m hrm q i hqi ih =>
    have hpn := probe_nodeR I L (.node v lt rt) item vl vr hwf hs
    have hvlr := (Shaped_size _ _ _ hs).2
    obtain ⟨hs1, hs2, hs3⟩ := hs
    have hwl := (WF_pushed I L v lt rt hwf).1
    have hwr := (WF_pushed I L v lt rt hwf).2
    have hsl : Shaped (lt.setRoot p.2.1) vl m := (Shaped_setRoot _ _ _ _).2 hs2
    have hsr : Shaped rt' (m+1) vr := (Shaped_setRoot _ _ _ _).2 hs3
    have hd := den_pushed I L v lt rt
    have hsz := (Shaped_size _ _ _ hsl).1
    have hlen := den_length I (lt.setRoot p.2.1)
    obtain ⟨i2, i3, i4, i5, _⟩ := ih hwr hsr hrm h2
    obtain ⟨w1, w2⟩ := WF_rebuild I v p.1 lt rt (lt.setRoot p.2.1) q.tree hwf
      (L.push_val0 _ _ _) (L.push_pa0 _ _ _) (by rw [i2]; exact hd) hwl i3
    have hqi' : (lbr I (rt.setRoot (I.push v lt.root rt.root).2.2) item f r ((vl + vr) / 2 + 1) vr).res = some i := hqi
    have e : lbr I (.node v lt rt) item f r vl vr =
        ⟨q.carry, some i, .node p.1 (lt.setRoot p.2.1) q.tree,
         (if r = vr then [(vl, I.merge v item)] else []) ++ q.log⟩ := by
      rw [lbr, if_neg hc, if_pos hrm]; simp only [hqi']; rfl
    rw [e]
    refine ⟨w2, w1, ⟨hs1, (Shaped_setRoot _ _ _ _).2 hs2, i4⟩, ?_, fun h => by cases h⟩
    rw [LogOKR_append]
    refine ⟨?_, ?_⟩
    · by_cases hrv : r = vr
      · subst hrv
        rw [if_pos rfl]
        intro kp hk
        simp only [List.mem_singleton] at hk; subst hk
        exact ⟨Nat.le_refl _, hvlr, hpn⟩
      · rw [if_neg hrv]; exact LogOKR_nil I _ _ _ _
    · rw [hd]
      exact LogOKR_right I _ _ _ _ _ m _ (by rw [hlen, hsz]; omega) (by omega) i5
  | case5 item r vl vr v lt rt hc p lt' rt' m hrm q hqn ih _ ih2 =>
    have hpn := probe_nodeR I L (.node v lt rt) item vl vr hwf hs
    have hvlr := (Shaped_size _ _ _ hs).2
    obtain ⟨hs1, hs2, hs3⟩ := hs
    have hwl := (WF_pushed I L v lt rt hwf).1
    have hwr := (WF_pushed I L v lt rt hwf).2
    have hsl : Shaped lt' vl m := (Shaped_setRoot _ _ _ _).2 hs2
    have hsr : Shaped rt' (m+1) vr := (Shaped_setRoot _ _ _ _).2 hs3
    have hd := den_pushed I L v lt rt
    have hsz := (Shaped_size _ _ _ hsl).1
    have hlen := den_length I lt'
    obtain ⟨i2, i3, i4, i5, i6⟩ := ih hwr hsr hrm h2
    have hmn : min r m = m := by omega
    have hcarry : I.val q.carry = (slice (den I rt') 0 (r + 1 - (m + 1))).foldr I.op (I.val item) := i6 hqn
    obtain ⟨j2, j3, j4, j5, j6⟩ := ih2 hwl hsl (by omega) (by omega)
    obtain ⟨w1, w2⟩ := WF_rebuild I v p.1 lt rt (lbr I lt' q.carry f (min r m) vl m).tree q.tree hwf
      (L.push_val0 _ _ _) (L.push_pa0 _ _ _) (by rw [i2, j2]; exact hd) j3 i3
    have hqn' : (lbr I (rt.setRoot (I.push v lt.root rt.root).2.2) item f r ((vl + vr) / 2 + 1) vr).res = none := hqn
    have e : lbr I (.node v lt rt) item f r vl vr =
        ⟨(lbr I lt' q.carry f (min r m) vl m).carry, (lbr I lt' q.carry f (min r m) vl m).res,
         .node p.1 (lbr I lt' q.carry f (min r m) vl m).tree q.tree,
         (if r = vr then [(vl, I.merge v item)] else []) ++ (q.log ++ (lbr I lt' q.carry f (min r m) vl m).log)⟩ := by
      rw [lbr, if_neg hc, if_pos hrm]; simp only [hqn']; rfl
    rw [e]
    refine ⟨w2, w1, ⟨hs1, j4, i4⟩, ?_, ?_⟩
    · rw [LogOKR_append, LogOKR_append]
      refine ⟨?_, ?_, ?_⟩
      · by_cases hrv : r = vr
        · subst hrv
          rw [if_pos rfl]
          intro kp hk
          simp only [List.mem_singleton] at hk; subst hk
          exact ⟨Nat.le_refl _, hvlr, hpn⟩
        · rw [if_neg hrv]; exact LogOKR_nil I _ _ _ _
      · rw [hd]
        exact LogOKR_right I _ _ _ _ _ m _ (by rw [hlen, hsz]; omega) (by omega) i5
      · rw [hd]
        have j5' : LogOKR I (den I lt') (I.val q.carry) m vl (lbr I lt' q.carry f (min r m) vl m).log := by
          rw [hmn] at j5 ⊢; exact j5
        exact LogOKR_left_carry I _ _ _ _ _ _ m _ (by rw [hlen, hsz]; omega) (by omega) hrm hcarry j5'
    · intro hn
      have j6' := j6 hn
      have ea : r + 1 - vl - (den I lt').length = r + 1 - (m + 1) := by rw [hlen, hsz]; omega
      have eb : slice (den I lt') 0 (min r m + 1 - vl) = den I lt' := by
        rw [hmn, show m + 1 - vl = (den I lt').length by rw [hlen, hsz]; omega, slice_all]
      rw [hd, slice_append_mid (den I lt') (den I rt') 0 (r + 1 - vl) (by omega) (by rw [hlen, hsz]; omega),
        List.foldr_append, ea, slice_all, ← hcarry]
      exact j6'.trans (by rw [eb])
  | case6 item r vl vr v lt rt hc p lt' m hrm ih =>
    have hvlr := (Shaped_size _ _ _ hs).2
    obtain ⟨hs1, hs2, hs3⟩ := hs
    have hwl := (WF_pushed I L v lt rt hwf).1
    have hwr := (WF_pushed I L v lt rt hwf).2
    have hsl : Shaped lt' vl m := (Shaped_setRoot _ _ _ _).2 hs2
    have hmn : min r m = r := by omega
    have hd := den_pushed I L v lt rt
    have hsz := (Shaped_size _ _ _ hsl).1
    have hlen := den_length I lt'
    obtain ⟨j2, j3, j4, j5, j6⟩ := ih hwl hsl (by omega) (by omega)
    obtain ⟨w1, w2⟩ := WF_rebuild I v p.1 lt rt (lbr I lt' item f (min r m) vl m).tree (rt.setRoot p.2.2) hwf
      (L.push_val0 _ _ _) (L.push_pa0 _ _ _) (by rw [j2]; exact hd) j3 hwr
    have hrv : ¬ r = vr := by omega
    have e : lbr I (.node v lt rt) item f r vl vr =
        ⟨(lbr I lt' item f (min r m) vl m).carry, (lbr I lt' item f (min r m) vl m).res,
         .node p.1 (lbr I lt' item f (min r m) vl m).tree (rt.setRoot p.2.2),
         (if r = vr then [(vl, I.merge v item)] else []) ++ (lbr I lt' item f (min r m) vl m).log⟩ := by
      rw [lbr, if_neg hc, if_neg hrm]
    rw [e]
    refine ⟨w2, w1, ⟨hs1, j4, (Shaped_setRoot _ _ _ _).2 hs3⟩, ?_, ?_⟩
    · rw [if_neg hrv, List.nil_append, hd]
      have j5' : LogOKR I (den I lt') (I.val item) r vl (lbr I lt' item f (min r m) vl m).log := by
        rw [hmn] at j5 ⊢; exact j5
      exact LogOKR_left I _ _ _ _ _ m _ (by rw [hlen, hsz]; omega) (by omega) j5'
    · intro hn
      have j6' := j6 hn
      rw [hd, slice_append_left (den I lt') (den I (rt.setRoot p.2.2)) 0 (r + 1 - vl) (by rw [hlen, hsz]; omega)]
      exact j6'.trans (by rw [hmn])

end Rlib.Segtree
