import Mathlib.Tactic.Ring
import Mathlib.Tactic.Linarith
import Mathlib.Tactic.LinearCombination
import RlibModel.Model.Rational
import RlibModel.Lemmas.Gcd
/-! Helper lemmas for C07 (Rational): closed forms of the operations over unbounded integers (`t = none`) in terms of
    core Lean's `Rat`, and no-wrap lemmas relating the machine instantiation (`t = some ty`) to them. -/
namespace Rlib.Rational
open Rlib.Gcd

@[simp] theorem chk_none (z : Int) : chk none z = .ok z := rfl
@[simp] theorem ok_bind {α β} (a : α) (f : α → Except Panic β) : (Except.ok a >>= f) = f a := rfl
@[simp] theorem error_bind {α β} (e : Panic) (f : α → Except Panic β) : (Except.error e >>= f) = .error e := rfl
@[simp] theorem pure_eq_ok {α} (a : α) : (pure a : Except Panic α) = .ok a := rfl

theorem divT_none (x y : Int) (hy : y ≠ 0) : divT none x y = .ok (x.tdiv y) := by
  simp [divT, hy]

/-- Closed form of `norm` over unbounded integers. -/
theorem norm_none (a b : Int) (hb : b ≠ 0) :
    norm none a b = .ok (if b < 0 then ⟨-(a / (Int.gcd a b : Int)), -(b / (Int.gcd a b : Int))⟩
      else ⟨a / (Int.gcd a b : Int), b / (Int.gcd a b : Int)⟩) := by
  have hg : (Int.gcd a b : Int) ≠ 0 := by
    have : Int.gcd a b ≠ 0 := by rw [Ne, Int.gcd_eq_zero_iff]; exact fun h => hb h.2
    omega
  have ea : a.tdiv (Int.gcd a b : Int) = a / (Int.gcd a b : Int) := Int.tdiv_eq_ediv_of_dvd (Int.gcd_dvd_left a b)
  have eb : b.tdiv (Int.gcd a b : Int) = b / (Int.gcd a b : Int) := Int.tdiv_eq_ediv_of_dvd (Int.gcd_dvd_right a b)
  simp only [norm, chk_none, ok_bind, gcd_eq, divT_none _ _ hg, ea, eb, pure_eq_ok]
  have hsign : b / (Int.gcd a b : Int) < 0 ↔ b < 0 := by
    obtain ⟨k, hk⟩ := Int.gcd_dvd_right a b
    have hgpos : (0 : Int) < Int.gcd a b := by omega
    have e : b / (Int.gcd a b : Int) = k := Int.ediv_eq_of_eq_mul_right hg hk
    rw [e]
    constructor
    · intro h; have := Int.mul_neg_of_pos_of_neg hgpos h; omega
    · intro h
      rcases Int.lt_or_le k 0 with h' | h'
      · exact h'
      · have := Int.mul_nonneg (Int.le_of_lt hgpos) h'; omega
  by_cases h : b < 0
  · rw [if_pos (hsign.mpr h), if_pos h]
  · rw [if_neg (fun h' => h (hsign.mp h')), if_neg h]

theorem canon_num_den (x : Q) (h : Canon x) : (toRat x).num = x.a ∧ ((toRat x).den : Int) = x.b := by
  obtain ⟨hb, hg⟩ := h
  have hg' : x.b.gcd x.a = 1 := by rw [Int.gcd_comm]; exact hg
  constructor
  · rw [toRat, Rat.num_divInt, hg', Int.sign_eq_one_of_pos hb]; simp
  · rw [toRat, Rat.den_divInt, if_neg (by omega), hg']; simp; omega

theorem eq_ofRat_of_canon (x : Q) (h : Canon x) : x = ofRat (toRat x) := by
  obtain ⟨h1, h2⟩ := canon_num_den x h
  cases x
  simp only [ofRat, Q.mk.injEq]
  exact ⟨h1.symm, h2.symm⟩

theorem canon_ofRat (q : Rat) : Canon (ofRat q) := by
  refine ⟨by simp only [ofRat]; exact_mod_cast q.den_pos, ?_⟩
  simp only [ofRat, Int.gcd, Int.natAbs_natCast]
  exact q.reduced

theorem toRat_ofRat (q : Rat) : toRat (ofRat q) = q := by
  simp only [toRat, ofRat]; exact Rat.num_divInt_den q

/-- `new` over unbounded integers returns the canonical representative of `a / b`. -/
theorem new_none (a b : Int) (hb : b ≠ 0) : new none a b = .ok (ofRat (Rat.divInt a b)) := by
  have hg : (Int.gcd a b : Int) ≠ 0 := by
    have : Int.gcd a b ≠ 0 := by rw [Ne, Int.gcd_eq_zero_iff]; exact fun h => hb h.2
    omega
  have hgpos : (0 : Int) < Int.gcd a b := by omega
  obtain ⟨ka, hka⟩ := Int.gcd_dvd_left a b
  obtain ⟨kb, hkb⟩ := Int.gcd_dvd_right a b
  have ea : a / (Int.gcd a b : Int) = ka := Int.ediv_eq_of_eq_mul_right hg hka
  have eb : b / (Int.gcd a b : Int) = kb := Int.ediv_eq_of_eq_mul_right hg hkb
  have hco : Int.gcd ka kb = 1 := by
    have := Int.gcd_ediv_gcd_ediv_gcd_of_ne_zero_right (n := a) (m := b) hb
    rwa [ea, eb] at this
  have hkb0 : kb ≠ 0 := by rintro rfl; rw [Int.mul_zero] at hkb; exact hb hkb
  have hcross : ka * b = a * kb := by
    conv_lhs => rw [hkb]
    conv_rhs => rw [hka]
    ring
  rw [new, norm_none a b hb, ea, eb]
  congr 1
  by_cases h : b < 0
  · rw [if_pos h]
    have hkbneg : kb < 0 := by
      rcases Int.lt_or_le kb 0 with h' | h'
      · exact h'
      · have := Int.mul_nonneg (Int.le_of_lt hgpos) h'; omega
    have hc : Canon ⟨-ka, -kb⟩ := ⟨by show 0 < -kb; omega, by show Int.gcd (-ka) (-kb) = 1; rw [Int.gcd_neg, Int.neg_gcd]; exact hco⟩
    have hv : toRat ⟨-ka, -kb⟩ = Rat.divInt a b := by
      rw [toRat, Rat.divInt_eq_divInt_iff (by show -kb ≠ 0; omega) hb]
      show -ka * b = a * -kb
      linear_combination -hcross
    rw [eq_ofRat_of_canon _ hc, hv]
  · rw [if_neg h]
    have hkbpos : 0 < kb := by
      rcases Int.lt_or_le 0 kb with h' | h'
      · exact h'
      · have := Int.mul_nonpos_of_nonneg_of_nonpos (Int.le_of_lt hgpos) h'; omega
    have hc : Canon ⟨ka, kb⟩ := ⟨hkbpos, hco⟩
    have hv : toRat ⟨ka, kb⟩ = Rat.divInt a b := by
      rw [toRat, Rat.divInt_eq_divInt_iff hkb0 hb]
      exact hcross
    rw [eq_ofRat_of_canon _ hc, hv]

theorem add_none (x y : Q) (hx : x.b ≠ 0) (hy : y.b ≠ 0) : add none x y = .ok (ofRat (toRat x + toRat y)) := by
  simp only [add, chk_none, ok_bind]
  rw [new_none _ _ (Int.mul_ne_zero hx hy), toRat, toRat, Rat.divInt_add_divInt _ _ hx hy]
  congr 3; ring

theorem sub_none (x y : Q) (hx : x.b ≠ 0) (hy : y.b ≠ 0) : sub none x y = .ok (ofRat (toRat x - toRat y)) := by
  simp only [sub, chk_none, ok_bind]
  rw [new_none _ _ (Int.mul_ne_zero hx hy), toRat, toRat, Rat.divInt_sub_divInt _ _ hx hy]
  congr 3; ring

theorem mul_none (x y : Q) (hx : x.b ≠ 0) (hy : y.b ≠ 0) : mul none x y = .ok (ofRat (toRat x * toRat y)) := by
  simp only [mul, chk_none, ok_bind]
  rw [new_none _ _ (Int.mul_ne_zero hx hy), toRat, toRat, Rat.divInt_mul_divInt]

theorem div_none (x y : Q) (hx : x.b ≠ 0) (hy : y.a ≠ 0) : div none x y = .ok (ofRat (toRat x / toRat y)) := by
  simp only [div, chk_none, ok_bind]
  rw [new_none _ _ (Int.mul_ne_zero hx hy), toRat, toRat, Rat.div_def, Rat.inv_divInt, Rat.divInt_mul_divInt]

theorem neg_none (x : Q) (hx : Canon x) : neg none x = .ok (ofRat (-toRat x)) := by
  simp only [neg, chk_none, ok_bind, pure_eq_ok]
  have hc : Canon ⟨-x.a, x.b⟩ := ⟨hx.1, by show Int.gcd (-x.a) x.b = 1; rw [Int.neg_gcd]; exact hx.2⟩
  rw [eq_ofRat_of_canon _ hc, toRat, toRat, Rat.neg_divInt]

theorem int_compare_zero (z : Int) : compare z 0 = if z < 0 then .lt else if z = 0 then .eq else .gt := by
  simp only [compare, compareOfLessAndEq]

theorem cmp_none (x y : Q) (hx : x.b ≠ 0) (hy : y.b ≠ 0) :
    cmp none x y = .ok (specCmp (toRat x) (toRat y)) := by
  simp only [cmp, sub_none x y hx hy, ok_bind, pure_eq_ok, ofRat, int_compare_zero, specCmp]
  congr 1
  have h1 : (toRat x - toRat y).num < 0 ↔ toRat x < toRat y := by
    rw [Rat.lt_iff_sub_pos, ← Rat.neg_sub, ← Rat.num_pos, Rat.neg_num]; omega
  have h2 : (toRat x - toRat y).num = 0 ↔ toRat x = toRat y := by
    rw [Rat.num_eq_zero]
    constructor
    · intro h; have := congrArg (· + toRat y) h; simpa [Rat.sub_add_cancel] using this
    · intro h; rw [h, Rat.sub_self]
  by_cases c1 : toRat x < toRat y
  · rw [if_pos c1, if_pos (h1.mpr c1)]
  · rw [if_neg c1, if_neg (fun h => c1 (h1.mp h))]
    by_cases c2 : toRat x = toRat y
    · rw [if_pos c2, if_pos (h2.mpr c2)]
    · rw [if_neg c2, if_neg (fun h => c2 (h2.mp h))]

/-- `(b − 1 − a) / b = −(a / b)` for `b > 0` (rounding the other way by adding `b − 1`). -/
theorem ediv_flip (a b : Int) (hb : 0 < b) : (b - 1 - a) / b = -(a / b) := by
  have h := (Int.ediv_emod_unique (a := b - 1 - a) (b := b) (r := b - 1 - a % b) (q := -(a / b)) hb).mpr
  have e := Int.emod_add_mul_ediv a b
  have h0 := Int.emod_nonneg a (by omega : b ≠ 0)
  have h1 := Int.emod_lt_of_pos a hb
  exact (h ⟨by linear_combination -e, by omega, by omega⟩).1

theorem floor_none (x : Q) (hx : Canon x) : floor none x = .ok ⟨(toRat x).floor, 1⟩ := by
  obtain ⟨hn, hd⟩ := canon_num_den x hx
  have hb := hx.1
  have hfl : (toRat x).floor = x.a / x.b := by rw [Rat.floor_def, hn, hd]
  rw [hfl]
  unfold floor
  by_cases h : 0 ≤ x.a
  · rw [if_pos h]
    simp only [divT_none _ _ (by omega : x.b ≠ 0), ok_bind, pure_eq_ok, Int.tdiv_eq_ediv_of_nonneg h]
  · rw [if_neg h]
    simp only [chk_none, divT_none _ _ (by omega : x.b ≠ 0), ok_bind, pure_eq_ok]
    congr 2
    have e : x.a - x.b + 1 = -(x.b - 1 - x.a) := by ring
    rw [e, Int.neg_tdiv, Int.tdiv_eq_ediv_of_nonneg (by omega), ediv_flip _ _ hb, Int.neg_neg]

theorem ceil_none (x : Q) (hx : Canon x) : ceil none x = .ok ⟨(toRat x).ceil, 1⟩ := by
  obtain ⟨hn, hd⟩ := canon_num_den x hx
  have hb := hx.1
  have hcl : (toRat x).ceil = -((-x.a) / x.b) := by
    rw [Rat.ceil_eq_neg_floor_neg, Rat.floor_def, Rat.neg_num, Rat.neg_den, hn, hd]
  rw [hcl]
  unfold ceil
  by_cases h : 0 ≤ x.a
  · rw [if_pos h]
    simp only [chk_none, divT_none _ _ (by omega : x.b ≠ 0), ok_bind, pure_eq_ok]
    congr 2
    have e : x.a + x.b - 1 = x.b - 1 - (-x.a) := by ring
    rw [e, Int.tdiv_eq_ediv_of_nonneg (by omega), ediv_flip _ _ hb]
  · rw [if_neg h]
    simp only [divT_none _ _ (by omega : x.b ≠ 0), ok_bind, pure_eq_ok]
    congr 2
    have e : x.a = -(-x.a) := by ring
    conv_lhs => rw [e]
    rw [Int.neg_tdiv, Int.tdiv_eq_ediv_of_nonneg (by omega)]

/-! ### No wrap under the magnitude guard -/

theorem chk_some_of_fits (t : IntTy) (z : Int) (h : t.fits z = true) : chk (some t) z = .ok z := by
  simp [chk, checked, h]

theorem divT_nowrap (t : IntTy) (N : Nat) (hfit : ∀ z : Int, z.natAbs ≤ N → t.fits z = true) (x y : Int)
    (hx : x.natAbs ≤ N) : divT (some t) x y = divT none x y := by
  unfold divT
  by_cases hy : y = 0
  · rw [if_pos hy, if_pos hy]
  · rw [if_neg hy, if_neg hy, chk_none, chk_some_of_fits]
    apply hfit
    rw [Int.natAbs_tdiv]
    exact Nat.le_trans (Nat.div_le_self _ _) hx

theorem divT_none' (x y : Int) : divT none x y = if y = 0 then .error .divzero else .ok (x.tdiv y) := rfl

/-- `norm` (hence `new`) never overflows when both fields have representable absolute values
    (every intermediate is bounded by the larger operand). -/
theorem norm_nowrap (t : IntTy) (N : Nat) (hfit : ∀ z : Int, z.natAbs ≤ N → t.fits z = true) (a b : Int)
    (ha : a.natAbs ≤ N) (hb : b.natAbs ≤ N) : norm (some t) a b = norm none a b := by
  have h1 : t.fits (a.natAbs : Int) = true := hfit _ (by omega)
  have h2 : t.fits (b.natAbs : Int) = true := hfit _ (by omega)
  unfold norm
  simp only [chk_some_of_fits _ _ h1, chk_some_of_fits _ _ h2, chk_none, ok_bind,
    divT_nowrap t N hfit a _ ha, divT_nowrap t N hfit b _ hb, divT_none']
  by_cases hg : gcd a b = 0
  · simp only [if_pos hg, error_bind]
  · simp only [if_neg hg, ok_bind]
    have h3 : t.fits (-(b.tdiv (gcd a b))) = true := by
      apply hfit; rw [Int.natAbs_neg, Int.natAbs_tdiv]; exact Nat.le_trans (Nat.div_le_self _ _) hb
    have h4 : t.fits (-(a.tdiv (gcd a b))) = true := by
      apply hfit; rw [Int.natAbs_neg, Int.natAbs_tdiv]; exact Nat.le_trans (Nat.div_le_self _ _) ha
    simp only [chk_some_of_fits _ _ h3, chk_some_of_fits _ _ h4, ok_bind]

/-- Normalisation never increases the magnitude of a field. -/
theorem norm_fields_le (a b : Int) (r : Q) (h : norm none a b = .ok r) :
    r.a.natAbs ≤ a.natAbs ∧ r.b.natAbs ≤ b.natAbs := by
  unfold norm at h
  simp only [chk_none, ok_bind, divT_none'] at h
  by_cases hg : gcd a b = 0
  · simp only [if_pos hg, error_bind] at h; simp at h
  · simp only [if_neg hg, ok_bind, pure_eq_ok] at h
    have ea : (a.tdiv (gcd a b)).natAbs ≤ a.natAbs := by rw [Int.natAbs_tdiv]; exact Nat.div_le_self _ _
    have eb : (b.tdiv (gcd a b)).natAbs ≤ b.natAbs := by rw [Int.natAbs_tdiv]; exact Nat.div_le_self _ _
    split at h
    · simp only [Except.ok.injEq] at h; subst h; simp only [Int.natAbs_neg]; exact ⟨ea, eb⟩
    · simp only [Except.ok.injEq] at h; subst h; exact ⟨ea, eb⟩

/-- Both fields of magnitude at most `G`. -/
def Small (G : Nat) (x : Q) : Prop := x.a.natAbs ≤ G ∧ x.b.natAbs ≤ G

theorem natAbs_mul_le (G : Nat) (u v : Int) (hu : u.natAbs ≤ G) (hv : v.natAbs ≤ G) : (u * v).natAbs ≤ G * G := by
  rw [Int.natAbs_mul]; exact Nat.mul_le_mul hu hv

section nowrap
variable (t : IntTy) (G : Nat) (hfit : ∀ z : Int, z.natAbs ≤ 2 * G * G → t.fits z = true)
include hfit

theorem add_nowrap (x y : Q) (hx : Small G x) (hy : Small G y) : add (some t) x y = add none x y := by
  have e : 2 * G * G = 2 * (G * G) := by ring
  have p1 := natAbs_mul_le G _ _ hx.1 hy.2
  have p2 := natAbs_mul_le G _ _ hx.2 hy.1
  have p3 := natAbs_mul_le G _ _ hx.2 hy.2
  have p4 := Int.natAbs_add_le (x.a * y.b) (x.b * y.a)
  unfold add
  simp only [chk_some_of_fits t _ (hfit _ (by omega : (x.a * y.b).natAbs ≤ 2 * G * G)),
    chk_some_of_fits t _ (hfit _ (by omega : (x.b * y.a).natAbs ≤ 2 * G * G)),
    chk_some_of_fits t _ (hfit _ (by omega : (x.a * y.b + x.b * y.a).natAbs ≤ 2 * G * G)),
    chk_some_of_fits t _ (hfit _ (by omega : (x.b * y.b).natAbs ≤ 2 * G * G)), chk_none, ok_bind, new]
  exact norm_nowrap t _ hfit _ _ (by omega) (by omega)

theorem sub_nowrap (x y : Q) (hx : Small G x) (hy : Small G y) : sub (some t) x y = sub none x y := by
  have e : 2 * G * G = 2 * (G * G) := by ring
  have p1 := natAbs_mul_le G _ _ hx.1 hy.2
  have p2 := natAbs_mul_le G _ _ hx.2 hy.1
  have p3 := natAbs_mul_le G _ _ hx.2 hy.2
  have p4 := Int.natAbs_sub_le (x.a * y.b) (x.b * y.a)
  unfold sub
  simp only [chk_some_of_fits t _ (hfit _ (by omega : (x.a * y.b).natAbs ≤ 2 * G * G)),
    chk_some_of_fits t _ (hfit _ (by omega : (x.b * y.a).natAbs ≤ 2 * G * G)),
    chk_some_of_fits t _ (hfit _ (by omega : (x.a * y.b - x.b * y.a).natAbs ≤ 2 * G * G)),
    chk_some_of_fits t _ (hfit _ (by omega : (x.b * y.b).natAbs ≤ 2 * G * G)), chk_none, ok_bind, new]
  exact norm_nowrap t _ hfit _ _ (by omega) (by omega)

theorem mul_nowrap (x y : Q) (hx : Small G x) (hy : Small G y) : mul (some t) x y = mul none x y := by
  have e : 2 * G * G = 2 * (G * G) := by ring
  have p1 := natAbs_mul_le G _ _ hx.1 hy.1
  have p3 := natAbs_mul_le G _ _ hx.2 hy.2
  unfold mul
  simp only [chk_some_of_fits t _ (hfit _ (by omega : (x.a * y.a).natAbs ≤ 2 * G * G)),
    chk_some_of_fits t _ (hfit _ (by omega : (x.b * y.b).natAbs ≤ 2 * G * G)), chk_none, ok_bind, new]
  exact norm_nowrap t _ hfit _ _ (by omega) (by omega)

theorem div_nowrap (x y : Q) (hx : Small G x) (hy : Small G y) : div (some t) x y = div none x y := by
  have e : 2 * G * G = 2 * (G * G) := by ring
  have p1 := natAbs_mul_le G _ _ hx.1 hy.2
  have p3 := natAbs_mul_le G _ _ hx.2 hy.1
  unfold div
  simp only [chk_some_of_fits t _ (hfit _ (by omega : (x.a * y.b).natAbs ≤ 2 * G * G)),
    chk_some_of_fits t _ (hfit _ (by omega : (x.b * y.a).natAbs ≤ 2 * G * G)), chk_none, ok_bind, new]
  exact norm_nowrap t _ hfit _ _ (by omega) (by omega)

theorem cmp_nowrap (x y : Q) (hx : Small G x) (hy : Small G y) : cmp (some t) x y = cmp none x y := by
  unfold cmp
  rw [sub_nowrap t G hfit x y hx hy]

theorem neg_nowrap (hG : 1 ≤ G) (x : Q) (hx : Small G x) : neg (some t) x = neg none x := by
  have e : G ≤ 2 * G * G := by nlinarith
  unfold neg
  rw [chk_some_of_fits t _ (hfit _ (by rw [Int.natAbs_neg]; exact Nat.le_trans hx.1 e)), chk_none]

theorem floor_nowrap (hG : 1 ≤ G) (x : Q) (hx : Small G x) : floor (some t) x = floor none x := by
  have e : 2 * G + 1 ≤ 2 * G * G + 1 := by nlinarith
  obtain ⟨h1, h2⟩ := hx
  have hfit' : ∀ z : Int, z.natAbs ≤ 2 * G → t.fits z = true := fun z hz => hfit z (by omega)
  unfold floor
  by_cases h : 0 ≤ x.a
  · simp only [if_pos h, divT_nowrap t _ hfit' x.a x.b (by omega)]
  · have f1 : t.fits (x.a - x.b) = true := hfit' _ (by omega)
    have f2 : t.fits (x.a - x.b + 1) = true := hfit' _ (by omega)
    simp only [if_neg h, chk_some_of_fits _ _ f1, chk_some_of_fits _ _ f2, chk_none, ok_bind,
      divT_nowrap t _ hfit' (x.a - x.b + 1) x.b (by omega)]

theorem ceil_nowrap (hG : 1 ≤ G) (x : Q) (hx : Small G x) : ceil (some t) x = ceil none x := by
  have e : 2 * G + 1 ≤ 2 * G * G + 1 := by nlinarith
  obtain ⟨h1, h2⟩ := hx
  have hfit' : ∀ z : Int, z.natAbs ≤ 2 * G → t.fits z = true := fun z hz => hfit z (by omega)
  unfold ceil
  by_cases h : 0 ≤ x.a
  · have f1 : t.fits (x.a + x.b) = true := hfit' _ (by omega)
    have f2 : t.fits (x.a + x.b - 1) = true := hfit' _ (by omega)
    simp only [if_pos h, chk_some_of_fits _ _ f1, chk_some_of_fits _ _ f2, chk_none, ok_bind,
      divT_nowrap t _ hfit' (x.a + x.b - 1) x.b (by omega)]
  · simp only [if_neg h, divT_nowrap t _ hfit' x.a x.b (by omega)]

theorem new_nowrap (hG : 1 ≤ G) (a b : Int) (ha : a.natAbs ≤ G) (hb : b.natAbs ≤ G) :
    new (some t) a b = new none a b := by
  have e : G ≤ 2 * G * G := by nlinarith
  exact norm_nowrap t _ hfit a b (by omega) (by omega)

end nowrap

theorem new_small (G : Nat) (a b : Int) (ha : a.natAbs ≤ G) (hb : b.natAbs ≤ G) (r : Q) (h : new none a b = .ok r) :
    Small G r := by
  obtain ⟨h1, h2⟩ := norm_fields_le a b r h
  exact ⟨by omega, by omega⟩

/-- The property's guard `2^(bits/2 − 2)` leaves room for `2·G²` in each of the three instantiations. -/
theorem guard_fits_i32 (z : Int) (h : z.natAbs ≤ 2 * 2 ^ 14 * 2 ^ 14) : (⟨true, 32⟩ : IntTy).fits z = true := by
  simp only [IntTy.fits, IntTy.minVal, IntTy.maxVal, if_true, Bool.and_eq_true, decide_eq_true_eq]; omega
theorem guard_fits_i64 (z : Int) (h : z.natAbs ≤ 2 * 2 ^ 30 * 2 ^ 30) : (⟨true, 64⟩ : IntTy).fits z = true := by
  simp only [IntTy.fits, IntTy.minVal, IntTy.maxVal, if_true, Bool.and_eq_true, decide_eq_true_eq]; omega
theorem guard_fits_i128 (z : Int) (h : z.natAbs ≤ 2 * 2 ^ 62 * 2 ^ 62) : (⟨true, 128⟩ : IntTy).fits z = true := by
  simp only [IntTy.fits, IntTy.minVal, IntTy.maxVal, if_true, Bool.and_eq_true, decide_eq_true_eq]; omega

/-! ### The driver's pipelines: operands are built with `new`, then the operation is applied -/

theorem unary_nowrap {α} (t : IntTy) (G : Nat) (hG : 1 ≤ G) (hfit : ∀ z : Int, z.natAbs ≤ 2 * G * G → t.fits z = true)
    (f : Option IntTy → Q → Except Panic α) (hf : ∀ x, Small G x → f (some t) x = f none x)
    (a b : Int) (ha : a.natAbs ≤ G) (hb : b.natAbs ≤ G) :
    (new (some t) a b >>= fun x => f (some t) x) = (new none a b >>= fun x => f none x) := by
  rw [new_nowrap t G hfit hG a b ha hb]
  cases hx : new none a b with
  | error e => rfl
  | ok x => exact hf x (new_small G a b ha hb x hx)

theorem binary_nowrap {α} (t : IntTy) (G : Nat) (hG : 1 ≤ G) (hfit : ∀ z : Int, z.natAbs ≤ 2 * G * G → t.fits z = true)
    (f : Option IntTy → Q → Q → Except Panic α) (hf : ∀ x y, Small G x → Small G y → f (some t) x y = f none x y)
    (a b c d : Int) (ha : a.natAbs ≤ G) (hb : b.natAbs ≤ G) (hc : c.natAbs ≤ G) (hd : d.natAbs ≤ G) :
    (new (some t) a b >>= fun x => new (some t) c d >>= fun y => f (some t) x y) =
    (new none a b >>= fun x => new none c d >>= fun y => f none x y) := by
  rw [new_nowrap t G hfit hG a b ha hb, new_nowrap t G hfit hG c d hc hd]
  cases hx : new none a b with
  | error e => rfl
  | ok x =>
    cases hy : new none c d with
    | error e => rfl
    | ok y => exact hf x y (new_small G a b ha hb x hx) (new_small G c d hc hd y hy)

theorem ofRat_b_ne_zero (q : Rat) : (ofRat q).b ≠ 0 := by have := (canon_ofRat q).1; omega

theorem ofRat_divInt_a_ne_zero (c d : Int) (hc : c ≠ 0) (hd : d ≠ 0) : (ofRat (Rat.divInt c d)).a ≠ 0 := by
  show (Rat.divInt c d).num ≠ 0
  intro h
  rw [Rat.num_eq_zero, ← Rat.zero_divInt 1, Rat.divInt_eq_divInt_iff hd (by decide)] at h
  omega

/-- The property's guard `G = 2^(bits/2 − 2)` leaves room for `2·G²` in the type. -/
def Roomy (t : IntTy) : Prop :=
  1 ≤ (guardBound t).toNat ∧
  ∀ z : Int, z.natAbs ≤ 2 * (guardBound t).toNat * (guardBound t).toNat → t.fits z = true

theorem inGuard_natAbs (t : IntTy) (z : Int) (h : inGuard t z = true) : z.natAbs ≤ (guardBound t).toNat := by
  simp only [inGuard, Bool.and_eq_true, decide_eq_true_eq] at h
  omega

theorem roomy_i32 : Roomy ⟨true, 32⟩ := ⟨by decide, fun z h => guard_fits_i32 z h⟩
theorem roomy_i64 : Roomy ⟨true, 64⟩ := ⟨by decide, fun z h => guard_fits_i64 z h⟩
theorem roomy_i128 : Roomy ⟨true, 128⟩ := ⟨by decide, fun z h => guard_fits_i128 z h⟩

/-! ### No wrap up to the true edge of a signed integer type

`magOk`, `domNew`, `domAdd`, … (`Model/Rational.lean`) describe, for one concrete pair of operands, that the intermediate
values of the specified computation fit the type.  On that domain the checked machine instantiation computes what the
unbounded one computes — for every signed width, with no guard box. -/

section edge
variable (t : IntTy) (hs : t.signed = true)
include hs

theorem fits_iff_signed (z : Int) : t.fits z = true ↔ -(2 ^ (t.bits - 1) : Int) ≤ z ∧ z ≤ (2 ^ (t.bits - 1) : Int) - 1 := by
  simp only [IntTy.fits, IntTy.minVal, IntTy.maxVal, hs, if_true, Bool.and_eq_true, decide_eq_true_eq]

theorem maxVal_signed : t.maxVal = (2 ^ (t.bits - 1) : Int) - 1 := by simp only [IntTy.maxVal, hs, if_true]

theorem magOk_iff (z : Int) : magOk t z = true ↔ z.natAbs ≤ t.maxVal.toNat := by
  have hp : (0 : Int) < 2 ^ (t.bits - 1) := Int.pow_pos (by decide)
  simp only [magOk, maxVal_signed t hs, Bool.and_eq_true, decide_eq_true_eq]
  generalize (2 : Int) ^ (t.bits - 1) = P at hp ⊢
  omega

theorem fits_of_natAbs_le (z : Int) (h : z.natAbs ≤ t.maxVal.toNat) : t.fits z = true := by
  have hp : (0 : Int) < 2 ^ (t.bits - 1) := Int.pow_pos (by decide)
  rw [fits_iff_signed t hs]
  rw [maxVal_signed t hs] at h
  generalize (2 : Int) ^ (t.bits - 1) = P at hp h ⊢
  omega

theorem fits_of_magOk (z : Int) (h : magOk t z = true) : t.fits z = true :=
  fits_of_natAbs_le t hs z ((magOk_iff t hs z).mp h)

theorem magOk_of_natAbs_le (z w : Int) (h : magOk t w = true) (hz : z.natAbs ≤ w.natAbs) : magOk t z = true :=
  (magOk_iff t hs z).mpr (Nat.le_trans hz ((magOk_iff t hs w).mp h))

/-- Truncating division by a positive number moves towards zero, so it stays inside the type (`MIN` included). -/
theorem fits_tdiv_pos (x y : Int) (hx : t.fits x = true) (hy : 0 < y) : t.fits (x.tdiv y) = true := by
  rw [fits_iff_signed t hs] at hx ⊢
  have hp : (0 : Int) < 2 ^ (t.bits - 1) := Int.pow_pos (by decide)
  generalize (2 : Int) ^ (t.bits - 1) = P at hp hx ⊢
  rcases Int.lt_or_le x 0 with hneg | hpos
  · have e : x.tdiv y = -((-x) / y) := by
      have e1 : x = -(-x) := by omega
      conv_lhs => rw [e1]
      rw [Int.neg_tdiv, Int.tdiv_eq_ediv_of_nonneg (by omega)]
    have h1 : 0 ≤ (-x) / y := Int.ediv_nonneg (by omega) (by omega)
    have h2 : (-x) / y ≤ -x := Int.ediv_le_self _ (by omega)
    omega
  · rw [Int.tdiv_eq_ediv_of_nonneg hpos]
    have h1 : 0 ≤ x / y := Int.ediv_nonneg hpos (by omega)
    have h2 : x / y ≤ x := Int.ediv_le_self _ hpos
    omega

theorem new_edge (a b : Int) (ha : magOk t a = true) (hb : magOk t b = true) : new (some t) a b = new none a b :=
  norm_nowrap t _ (fits_of_natAbs_le t hs) a b ((magOk_iff t hs a).mp ha) ((magOk_iff t hs b).mp hb)

theorem add_edge (x y : Q) (h : domAdd t x y = true) : add (some t) x y = add none x y := by
  simp only [domAdd, Bool.and_eq_true] at h
  obtain ⟨⟨⟨h1, h2⟩, h3⟩, h4⟩ := h
  unfold add
  simp only [chk_some_of_fits t _ h1, chk_some_of_fits t _ h2, chk_some_of_fits t _ (fits_of_magOk t hs _ h3),
    chk_some_of_fits t _ (fits_of_magOk t hs _ h4), chk_none, ok_bind]
  exact new_edge t hs _ _ h3 h4

theorem sub_edge (x y : Q) (h : domSub t x y = true) : sub (some t) x y = sub none x y := by
  simp only [domSub, Bool.and_eq_true] at h
  obtain ⟨⟨⟨h1, h2⟩, h3⟩, h4⟩ := h
  unfold sub
  simp only [chk_some_of_fits t _ h1, chk_some_of_fits t _ h2, chk_some_of_fits t _ (fits_of_magOk t hs _ h3),
    chk_some_of_fits t _ (fits_of_magOk t hs _ h4), chk_none, ok_bind]
  exact new_edge t hs _ _ h3 h4

theorem mul_edge (x y : Q) (h : domMul t x y = true) : mul (some t) x y = mul none x y := by
  simp only [domMul, Bool.and_eq_true] at h
  obtain ⟨h1, h2⟩ := h
  unfold mul
  simp only [chk_some_of_fits t _ (fits_of_magOk t hs _ h1), chk_some_of_fits t _ (fits_of_magOk t hs _ h2), chk_none, ok_bind]
  exact new_edge t hs _ _ h1 h2

theorem div_edge (x y : Q) (h : domDiv t x y = true) : div (some t) x y = div none x y := by
  simp only [domDiv, Bool.and_eq_true] at h
  obtain ⟨⟨_, h1⟩, h2⟩ := h
  unfold div
  simp only [chk_some_of_fits t _ (fits_of_magOk t hs _ h1), chk_some_of_fits t _ (fits_of_magOk t hs _ h2), chk_none, ok_bind]
  exact new_edge t hs _ _ h1 h2

theorem cmp_edge (x y : Q) (h : domSub t x y = true) : cmp (some t) x y = cmp none x y := by
  unfold cmp
  rw [sub_edge t hs x y h]

theorem binop_edge (op : BinOp) (x y : Q) (h : op.dom t x y = true) : op.apply (some t) x y = op.apply none x y := by
  cases op
  · exact add_edge t hs x y h
  · exact sub_edge t hs x y h
  · exact mul_edge t hs x y h
  · exact div_edge t hs x y h

theorem neg_edge (x : Q) (h : magOk t x.a = true) : neg (some t) x = neg none x := by
  unfold neg
  rw [chk_some_of_fits t _ (fits_of_natAbs_le t hs _ (by rw [Int.natAbs_neg]; exact (magOk_iff t hs _).mp h)), chk_none]

theorem floor_edge (x : Q) (hb : 0 < x.b) (hfa : t.fits x.a = true) (h : domFloor t x = true) :
    floor (some t) x = floor none x := by
  have hb0 : x.b ≠ 0 := by omega
  unfold floor
  by_cases h0 : 0 ≤ x.a
  · simp only [if_pos h0, divT, if_neg hb0, chk_none, chk_some_of_fits t _ (fits_tdiv_pos t hs _ _ hfa hb)]
  · have f1 : t.fits (x.a - x.b) = true := by
      simp only [domFloor, Bool.or_eq_true, decide_eq_true_eq] at h
      rcases h with h | h
      · exact absurd h h0
      · exact h
    have f2 : t.fits (x.a - x.b + 1) = true := by
      rw [fits_iff_signed t hs] at f1 hfa ⊢
      omega
    simp only [if_neg h0, chk_some_of_fits _ _ f1, chk_some_of_fits _ _ f2, chk_none, ok_bind, divT, if_neg hb0,
      chk_some_of_fits t _ (fits_tdiv_pos t hs _ _ f2 hb)]

theorem ceil_edge (x : Q) (hb : 0 < x.b) (hfa : t.fits x.a = true) (h : domCeil t x = true) :
    ceil (some t) x = ceil none x := by
  have hb0 : x.b ≠ 0 := by omega
  unfold ceil
  by_cases h0 : 0 ≤ x.a
  · have f1 : t.fits (x.a + x.b) = true := by
      simp only [domCeil, Bool.or_eq_true, decide_eq_true_eq] at h
      rcases h with h | h
      · omega
      · exact h
    have f2 : t.fits (x.a + x.b - 1) = true := by
      rw [fits_iff_signed t hs] at f1 hfa ⊢
      omega
    simp only [if_pos h0, chk_some_of_fits _ _ f1, chk_some_of_fits _ _ f2, chk_none, ok_bind, divT, if_neg hb0,
      chk_some_of_fits t _ (fits_tdiv_pos t hs _ _ f2 hb)]
  · simp only [if_neg h0, divT, if_neg hb0, chk_none, chk_some_of_fits t _ (fits_tdiv_pos t hs _ _ hfa hb)]

/-- `new` inside its edge domain returns the canonical form, whose fields are no larger than the arguments. -/
theorem new_edge_ofRat (a b : Int) (h : domNew t a b = true) :
    new (some t) a b = .ok (ofRat (Rat.divInt a b)) ∧ magOk t (ofRat (Rat.divInt a b)).a = true ∧
      magOk t (ofRat (Rat.divInt a b)).b = true := by
  simp only [domNew, Bool.and_eq_true, decide_eq_true_eq] at h
  obtain ⟨⟨hb0, ha⟩, hb⟩ := h
  have hn := new_none a b hb0
  obtain ⟨h1, h2⟩ := norm_fields_le a b _ hn
  exact ⟨by rw [new_edge t hs a b ha hb, hn], magOk_of_natAbs_le t hs _ _ ha h1, magOk_of_natAbs_le t hs _ _ hb h2⟩

end edge

/-- The four operators over unbounded integers, uniformly: the exact `Rat` result in canonical form. -/
theorem binop_none (op : BinOp) (x y : Q) (hx : x.b ≠ 0) (hy : y.b ≠ 0) (hd : op = .div → y.a ≠ 0) :
    op.apply none x y = .ok (ofRat (op.spec (toRat x) (toRat y))) := by
  cases op
  · exact add_none x y hx hy
  · exact sub_none x y hx hy
  · exact mul_none x y hx hy
  · exact div_none x y hx (hd rfl)

/-- The guard box of the property lies inside the edge domain (so the driver's definite answers cover it). -/
theorem small_dom (t : IntTy) (hs : t.signed = true) (G : Nat)
    (hfit : ∀ z : Int, z.natAbs ≤ 2 * G * G → t.fits z = true) (x y : Q) (hx : Small G x) (hy : Small G y) :
    domAdd t x y = true ∧ domSub t x y = true ∧ domMul t x y = true ∧ (y.a ≠ 0 → domDiv t x y = true) := by
  have hmag : ∀ z : Int, z.natAbs ≤ 2 * G * G → magOk t z = true := by
    intro z hz
    have h1 := hfit z hz
    have h2 := hfit (-z) (by rw [Int.natAbs_neg]; exact hz)
    rw [fits_iff_signed t hs] at h1 h2
    have hp : (0 : Int) < 2 ^ (t.bits - 1) := Int.pow_pos (by decide)
    simp only [magOk, maxVal_signed t hs, Bool.and_eq_true, decide_eq_true_eq]
    omega
  have e : 2 * G * G = 2 * (G * G) := by ring
  have p1 := natAbs_mul_le G _ _ hx.1 hy.2
  have p2 := natAbs_mul_le G _ _ hx.2 hy.1
  have p3 := natAbs_mul_le G _ _ hx.2 hy.2
  have p4 := natAbs_mul_le G _ _ hx.1 hy.1
  have p5 := Int.natAbs_add_le (x.a * y.b) (x.b * y.a)
  have p6 := Int.natAbs_sub_le (x.a * y.b) (x.b * y.a)
  refine ⟨?_, ?_, ?_, ?_⟩
  · simp only [domAdd, Bool.and_eq_true]
    exact ⟨⟨⟨hfit _ (by omega), hfit _ (by omega)⟩, hmag _ (by omega)⟩, hmag _ (by omega)⟩
  · simp only [domSub, Bool.and_eq_true]
    exact ⟨⟨⟨hfit _ (by omega), hfit _ (by omega)⟩, hmag _ (by omega)⟩, hmag _ (by omega)⟩
  · simp only [domMul, Bool.and_eq_true]
    exact ⟨hmag _ (by omega), hmag _ (by omega)⟩
  · intro hya
    simp only [domDiv, Bool.and_eq_true, decide_eq_true_eq]
    exact ⟨⟨hya, hmag _ (by omega)⟩, hmag _ (by omega)⟩

/-! ### Order-based observations on several values -/

theorem sortSpec_perm (ps : List Rat) : (sortSpec ps).Perm ps := List.mergeSort_perm _ _

theorem sortSpec_sorted (ps : List Rat) : (sortSpec ps).Pairwise (fun p q => p ≤ q) := by
  have h := List.pairwise_mergeSort (le := fun (p q : Rat) => decide (p ≤ q))
    (fun a b c hab hbc => by
      simp only [decide_eq_true_eq] at hab hbc ⊢
      exact Rat.le_trans hab hbc)
    (fun a b => by
      simp only [Bool.or_eq_true, decide_eq_true_eq]
      exact Rat.le_total) ps
  unfold sortSpec
  exact h.imp (fun hab => by simpa using hab)

/-- The sorted order is unique: any non-decreasing arrangement of the same values IS `sortSpec`. -/
theorem sortSpec_unique (ps qs : List Rat) (hperm : qs.Perm ps) (hsorted : qs.Pairwise (fun p q => p ≤ q)) :
    sortSpec ps = qs :=
  List.Perm.eq_of_pairwise (le := fun (p q : Rat) => p ≤ q) (fun _ _ _ _ h1 h2 => Rat.le_antisymm h1 h2)
    (sortSpec_sorted ps) hsorted ((sortSpec_perm ps).trans hperm.symm)

end Rlib.Rational
