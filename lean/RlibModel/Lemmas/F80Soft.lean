import RlibModel.Model.F80Soft
/-!
Lemmas for C18, part 2: the rounding primitive `rne` and the exact conversions f64 → f80 → f64.
Core Lean only (no Mathlib): everything is integer arithmetic.
-/
namespace Rlib.F80

/-! ### `rne a b`: nearest integer to `a / b`, ties to even -/

theorem rne_exact (q b : Nat) (hb : 0 < b) : rne (q * b) b = q := by
  unfold rne
  simp only [Nat.mul_div_cancel q hb, Nat.mul_mod_left]
  rw [if_pos (by omega)]

/-- within half a unit: `|a - b * rne a b| ≤ b / 2`, written without subtraction -/
theorem rne_half (a b : Nat) (hb : 0 < b) :
    2 * a ≤ 2 * (b * rne a b) + b ∧ 2 * (b * rne a b) ≤ 2 * a + b := by
  have h := Nat.div_add_mod a b
  have hr := Nat.mod_lt a hb
  unfold rne
  simp only
  generalize hq : a / b = q at *
  generalize hr' : a % b = r at *
  have e1 : b * (q + 1) = b * q + b := Nat.mul_succ b q
  split
  · omega
  · split
    · rw [e1]; omega
    · split
      · omega
      · rw [e1]; omega

/-- the result is `⌊a/b⌋` or `⌊a/b⌋ + 1` -/
theorem rne_floor_or_succ (a b : Nat) : rne a b = a / b ∨ rne a b = a / b + 1 := by
  unfold rne
  simp only
  split
  · exact Or.inl rfl
  · split
    · exact Or.inr rfl
    · split
      · exact Or.inl rfl
      · exact Or.inr rfl

/-- an exact tie goes to the even neighbour -/
theorem rne_tie_even (a b : Nat) (h : 2 * (a % b) = b) : rne a b % 2 = 0 := by
  unfold rne
  simp only
  rw [if_neg (by omega), if_neg (by omega)]
  split
  · assumption
  · omega

/-- strictly below the midpoint rounds down, strictly above rounds up -/
theorem rne_lt_half (a b : Nat) (h : 2 * (a % b) < b) : rne a b = a / b := by
  unfold rne; simp only; rw [if_pos h]

theorem rne_gt_half (a b : Nat) (h : b < 2 * (a % b)) : rne a b = a / b + 1 := by
  unfold rne; simp only; rw [if_neg (by omega), if_pos h]

/-- monotone in the numerator -/
theorem rne_mono (a a' b : Nat) (h : a ≤ a') : rne a b ≤ rne a' b := by
  have hq : a / b ≤ a' / b := Nat.div_le_div_right h
  rcases Nat.lt_or_ge (a / b) (a' / b) with hlt | hge
  · -- different floors
    have h1 : rne a b ≤ a / b + 1 := by
      rcases rne_floor_or_succ a b with e | e <;> omega
    have h2 : a' / b ≤ rne a' b := by
      rcases rne_floor_or_succ a' b with e | e <;> omega
    omega
  · -- same floor: the remainders are ordered
    have heq : a / b = a' / b := by omega
    have e1 := Nat.div_add_mod a b
    have e2 := Nat.div_add_mod a' b
    rw [heq] at e1
    have hr : a % b ≤ a' % b := by omega
    unfold rne
    simp only
    rw [heq]
    generalize a' / b = q at *
    generalize a % b = r at *
    generalize a' % b = r' at *
    (repeat' split) <;> omega

/-- `rne` is at most one unit above / below any multiple it brackets -/
theorem rne_le_of_le_mul (a b z : Nat) (hb : 0 < b) (h : a ≤ z * b) : rne a b ≤ z := by
  have := rne_mono a (z * b) b h
  rwa [rne_exact z b hb] at this

theorem le_rne_of_mul_le (a b z : Nat) (hb : 0 < b) (h : z * b ≤ a) : z ≤ rne a b := by
  have := rne_mono (z * b) a b h
  rwa [rne_exact z b hb] at this

/-- nearest: no integer is closer to `a/b` than `rne a b` (in `Int`, `|a - b*z|` compared through both signs) -/
theorem rne_nearest (a b : Nat) (hb : 0 < b) (z : Int) :
    ((a : Int) - b * (rne a b : Nat)).natAbs ≤ ((a : Int) - b * z).natAbs := by
  have ⟨h1, h2⟩ := rne_half a b hb
  generalize hR : rne a b = R at *
  have h1' : 2 * (a : Int) ≤ 2 * ((b : Int) * (R : Int)) + b := by exact_mod_cast h1
  have h2' : 2 * ((b : Int) * (R : Int)) ≤ 2 * (a : Int) + b := by exact_mod_cast h2
  rcases Int.lt_trichotomy z (R : Int) with hz | hz | hz
  · -- z ≤ R - 1
    have : (b : Int) * z ≤ b * ((R : Int) - 1) := Int.mul_le_mul_of_nonneg_left (by omega) (by omega)
    rw [Int.mul_sub, Int.mul_one] at this
    generalize (b : Int) * z = bz at *
    generalize (b : Int) * (R : Int) = bR at *
    omega
  · subst hz; exact Nat.le_refl _
  · have : (b : Int) * ((R : Int) + 1) ≤ b * z := Int.mul_le_mul_of_nonneg_left (by omega) (by omega)
    rw [Int.mul_add, Int.mul_one] at this
    generalize (b : Int) * z = bz at *
    generalize (b : Int) * (R : Int) = bR at *
    omega

/-! ### `Nat.log2` and shifts -/

theorem log2_shl (m j : Nat) (hm : m ≠ 0) : (m <<< j).log2 = m.log2 + j := by
  rw [Nat.shiftLeft_eq]
  have hpos := Nat.two_pow_pos j
  have hne : m * 2 ^ j ≠ 0 := Nat.mul_ne_zero hm (by omega)
  rw [Nat.log2_eq_iff hne]
  constructor
  · rw [Nat.pow_add]
    exact Nat.mul_le_mul_right _ (Nat.log2_self_le hm)
  · rw [show m.log2 + j + 1 = (m.log2 + 1) + j by omega, Nat.pow_add]
    exact Nat.mul_lt_mul_of_pos_right Nat.lt_log2_self hpos

theorem log2_lt_of_lt (m k : Nat) (hm : m ≠ 0) (h : m < 2 ^ k) : m.log2 < k :=
  (Nat.log2_lt hm).2 h

theorem log2_two52_add (F : Nat) (hF : F < two52) : (two52 + F).log2 = 52 := by
  have hne : two52 + F ≠ 0 := by unfold two52; omega
  rw [Nat.log2_eq_iff hne]
  unfold two52 at *
  constructor <;> omega

theorem rne_shl (m j : Nat) : rne (m <<< j) (1 <<< j) = m := by
  rw [Nat.shiftLeft_eq, Nat.shiftLeft_eq, Nat.one_mul]
  exact rne_exact m _ (Nat.two_pow_pos j)

theorem rne_one (a : Nat) : rne a 1 = a := by
  have := rne_exact a 1 (by omega)
  rwa [Nat.mul_one] at this

theorem ilog2q_one (m : Nat) (e : Int) (hm : m ≠ 0) : ilog2q m 1 e = (m.log2 : Int) + e := by
  unfold ilog2q
  simp only
  have h1 : (1 : Nat).log2 = 0 := by decide
  rw [h1, Nat.shiftLeft_zero, Nat.one_shiftLeft, if_pos (Nat.log2_self_le hm)]
  omega

/-! ### exactness of the conversions -/

theorem roundPos80_exact (m : Nat) (e : Int) (hm : m ≠ 0) (hL : m.log2 ≤ 63)
    (h1 : -16382 ≤ (m.log2 : Int) + e) (h2 : (m.log2 : Int) + e ≤ 16383) :
    roundPos fmt80 m 1 e = .fin (m <<< (63 - m.log2)) ((m.log2 : Int) + e - 63) := by
  unfold roundPos
  rw [ilog2q_one m e hm]
  have hk : quantum fmt80 ((m.log2 : Int) + e) = (m.log2 : Int) + e - 63 := by
    unfold quantum fmt80; simp only; omega
  rw [hk]
  have hs : rneScaled m 1 (e - ((m.log2 : Int) + e - 63)) = m <<< (63 - m.log2) := by
    unfold rneScaled
    rw [if_pos (by omega), rne_one]
    congr 1
    omega
  simp only [hs]
  rw [log2_shl _ _ hm]
  rw [if_neg]
  unfold fmt80; simp only; omega

/-- rounding to binary64 is exact on a value `m * 2^e` whose quantum is `e` (given with `j` extra low zero bits) -/
theorem roundPos64_exact (m j : Nat) (e : Int) (hm : m ≠ 0) (hj : 0 < j)
    (hq : quantum fmt64 ((m.log2 : Int) + e) = e) (h2 : (m.log2 : Int) + e ≤ 1023) :
    roundPos fmt64 (m <<< j) 1 (e - j) = .fin m e := by
  have hne : m <<< j ≠ 0 := by
    intro h; exact hm ((Nat.shiftLeft_eq_zero_iff).1 h)
  unfold roundPos
  rw [ilog2q_one _ _ hne, log2_shl _ _ hm]
  have e1 : ((m.log2 + j : Nat) : Int) + (e - j) = (m.log2 : Int) + e := by omega
  rw [e1, hq]
  have hs : rneScaled (m <<< j) 1 (e - j - e) = m := by
    unfold rneScaled
    rw [if_neg (by omega)]
    have : (-(e - (j : Int) - e)).toNat = j := by omega
    rw [this, rne_shl]
  simp only [hs]
  rw [if_neg]
  unfold fmt64; simp only; omega


theorem shiftInt_zero (m : Nat) : shiftInt m 0 = m := by
  unfold shiftInt; simp

/-- f64-representable finite non-zero value `m * 2^e`: through the x87 format and back to binary64, as classes -/
theorem roundtrip_fin (s : Bool) (m : Nat) (e : Int) (hm : m ≠ 0) (hm53 : m < 2 ^ 53)
    (hq : quantum fmt64 ((m.log2 : Int) + e) = e) (h2 : (m.log2 : Int) + e ≤ 1023) (he : -1074 ≤ e) :
    roundClass fmt64 (classify (encode80 (roundClass fmt80 (.fin ⟨s, m, e⟩)))) = .fin ⟨s, m, e⟩ := by
  have hL : m.log2 < 53 := log2_lt_of_lt m 53 hm hm53
  have hMne : m <<< (63 - m.log2) ≠ 0 := by
    intro h; exact hm ((Nat.shiftLeft_eq_zero_iff).1 h)
  have hMlog : (m <<< (63 - m.log2)).log2 = 63 := by rw [log2_shl _ _ hm]; omega
  have hM63 : two63 ≤ m <<< (63 - m.log2) := by
    have := Nat.log2_self_le hMne
    rw [hMlog] at this
    exact this
  -- f64 -> f80
  have r80 : roundClass fmt80 (.fin ⟨s, m, e⟩) = .fin ⟨s, m <<< (63 - m.log2), (m.log2 : Int) + e - 63⟩ := by
    simp only [roundClass, roundQ]
    rw [if_neg hm, roundPos80_exact m e hm (by omega) (by omega) (by omega)]
  rw [r80]
  have enc : encode80 (.fin ⟨s, m <<< (63 - m.log2), (m.log2 : Int) + e - 63⟩)
      = ⟨s, ((m.log2 : Int) + e + 16383).toNat, m <<< (63 - m.log2)⟩ := by
    simp only [encode80]
    rw [if_neg hMne, hMlog, if_neg (by omega), if_neg (by omega)]
    have : (63 : Int) - ((63 : Nat) : Int) = 0 := by omega
    rw [this, shiftInt_zero]
    congr 2
    omega
  rw [enc]
  have cls : classify ⟨s, ((m.log2 : Int) + e + 16383).toNat, m <<< (63 - m.log2)⟩
      = .fin ⟨s, m <<< (63 - m.log2), (m.log2 : Int) + e - 63⟩ := by
    unfold classify
    simp only
    rw [if_neg (by omega), if_neg (by omega), if_neg (by omega)]
    congr 2
    omega
  rw [cls]
  -- f80 -> f64
  simp only [roundClass, roundQ]
  rw [if_neg hMne]
  have e' : (m.log2 : Int) + e - 63 = e - ((63 - m.log2 : Nat) : Int) := by omega
  rw [e', roundPos64_exact m (63 - m.log2) e hm (by omega) hq h2]


/-- `f64 → f80 → f64` is the identity on every non-NaN binary64 pattern. -/
theorem f64_roundtrip_core (x : F64) (hE : x.exp ≤ 2047) (hF : x.frac < two52) (hn : isNaN64 x = false) :
    toF64 (ofF64 x) = x := by
  obtain ⟨s, E, F⟩ := x
  simp only at hE hF
  unfold toF64 ofF64
  by_cases h1 : E = 2047
  · -- infinity
    subst h1
    have hF0 : F = 0 := by
      unfold isNaN64 classify64 at hn
      simp only at hn
      by_cases hF0 : F = 0
      · exact hF0
      · simp [hF0] at hn
    subst hF0
    decide +revert
  · by_cases h0 : E = 0
    · subst h0
      by_cases hF0 : F = 0
      · subst hF0
        cases s <;> decide
      · -- subnormal
        have hc : classify64 ⟨s, 0, F⟩ = .fin ⟨s, F, -1074⟩ := by
          unfold classify64; simp
        rw [hc]
        have hlt : F < 2 ^ 53 := by unfold two52 at hF; omega
        have hL : F.log2 < 52 := log2_lt_of_lt F 52 hF0 (by unfold two52 at hF; omega)
        rw [roundtrip_fin s F (-1074) hF0 hlt (by unfold quantum fmt64; simp only; omega) (by omega) (by omega)]
        simp only [encode64]
        rw [if_neg hF0, if_pos (by omega)]
        have : (-1074 : Int) + 1074 = 0 := by omega
        rw [this, shiftInt_zero]
    · -- normal
      have hc : classify64 ⟨s, E, F⟩ = .fin ⟨s, two52 + F, (E : Int) - 1075⟩ := by
        unfold classify64; simp [h1, h0]
      rw [hc]
      have hne : two52 + F ≠ 0 := by unfold two52; omega
      have hlt : two52 + F < 2 ^ 53 := by unfold two52 at *; omega
      have hL := log2_two52_add F hF
      rw [roundtrip_fin s (two52 + F) ((E : Int) - 1075) hne hlt
        (by rw [hL]; unfold quantum fmt64; simp only; omega) (by rw [hL]; omega) (by omega)]
      simp only [encode64]
      rw [if_neg hne, hL, if_neg (by omega), if_neg (by omega)]
      have : (52 : Int) - ((52 : Nat) : Int) = 0 := by omega
      rw [this, shiftInt_zero]
      have e1 : ((52 : Nat) : Int) + ((E : Int) - 1075) + 1023 = (E : Int) := by omega
      rw [e1, Int.toNat_natCast, Nat.add_sub_cancel_left]


/-- the three fields of a 64-bit word and back -/
theorem F64_toNat_ofNat (n : Nat) (h : n < 2 ^ 64) : (F64.ofNat n).toNat = n := by
  unfold F64.ofNat F64.toNat two52
  simp only [Nat.shiftRight_eq_div_pow, Nat.shiftLeft_eq]
  by_cases hb : n / 2 ^ 63 % 2 = 1
  · simp only [hb, decide_true, if_true]; omega
  · simp only [hb, decide_false, Bool.false_eq_true, if_false]; omega

theorem F64_ofNat_wf (n : Nat) : (F64.ofNat n).exp ≤ 2047 ∧ (F64.ofNat n).frac < two52 := by
  unfold F64.ofNat two52
  simp only
  omega

end Rlib.F80
