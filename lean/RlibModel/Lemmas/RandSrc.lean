import RlibModel.Generated.RandSrc
import RlibModel.Generated.LcgSrc
import RlibModel.Model.RandRng
import RlibModel.Lemmas.Rand
import RlibModel.Lemmas.RandLcg
/-!
# The definitions regenerated from `rlib/rand/src/{randomable.rs, lcg.rs}` equal the hand-written model

`Rlib.RandSrc.*` (the integer `gen_from_u64` impls inside `make_randomable!` / `implement_ranges!`, translated once with the
macro's type parameters as `IntTy` parameters `t_a0 = $it`, `t_a1 = $ut`) and `Rlib.LcgSrc.next_raw` are written by
`tools/rs2lean_typed.py` from the Rust source text on every run of `./check C14`.  For every width `1 ≤ w ≤ 64`, with
`$it = ⟨true, w⟩` and `$ut = ⟨false, w⟩` (the shape of every `make_randomable!` invocation: `instances_shape`), each generated
impl returns exactly what the model's `genRange` / `genIncl` / `gen` returns for every range and every raw `u64` word —
value or the same panic; `next_raw` returns the model's new state and output word for every state and all constants.
-/
set_option linter.unusedTactic false
set_option linter.unreachableTactic false
set_option linter.unusedSimpArgs false
namespace Rlib.RandSrc
open Rlib Rlib.Rand

/-- Closes `generated = model` once both sides are unfolded. -/
macro "close_except" : tactic =>
  `(tactic| ((repeat' split) <;> simp_all))

theorem two_pow_le_64 (w : Nat) (hw : w ≤ 64) : (2 : Int) ^ w ≤ 2 ^ 64 := by
  have : (2 : Nat) ^ w ≤ 2 ^ 64 := Nat.pow_le_pow_right (by decide) hw
  exact_mod_cast this

/-- `len as u64` is the identity on a value below `2^w`, `w ≤ 64`. -/
theorem wrap_u64_id (w : Nat) (hw : w ≤ 64) (z : Int) (h0 : 0 ≤ z) (h1 : z < 2 ^ w) : wrapU 64 z = z := by
  have := two_pow_le_64 w hw
  exact wrapU_of_fits 64 z h0 (by omega)

theorem tmod_nat (raw : Nat) (m : Int) : Int.tmod (raw : Int) m = (raw : Int) % m :=
  Int.tmod_eq_emod_of_nonneg (by omega)

/-- `impl Randomable<$it> for Range<$it>` = `genRange` at the signed type. -/
theorem range_it_eq_model (fuel w : Nat) (hw : w ≤ 64) (s e : Int) (raw : Nat) :
    Range_a0_gen_from_u64 fuel ⟨true, w⟩ ⟨false, w⟩ s e raw = genRange ⟨true, w⟩ s e raw := by
  unfold Range_a0_gen_from_u64 genRange
  have hlen := wrap_u64_id w hw (wrapU w (wrapU w e - wrapU w s)) (wrapU_nonneg _ _) (wrapU_lt _ _)
  simp only [IntTy.wrap, Bool.false_eq_true, if_false, if_true, false_and]
  simp only [hlen, tmod_nat, not_not]
  try (first | rfl | close_except)

/-- `impl Randomable<$ut> for Range<$ut>` = `genRange` at the unsigned type. -/
theorem range_ut_eq_model (fuel w : Nat) (hw : w ≤ 64) (s e : Int) (raw : Nat) :
    Range_a1_gen_from_u64 fuel ⟨true, w⟩ ⟨false, w⟩ s e raw = genRange ⟨false, w⟩ s e raw := by
  unfold Range_a1_gen_from_u64 genRange
  simp only [not_not, Bool.false_eq_true, if_false, false_and]
  by_cases hse : s < e
  · simp only [hse, not_true, if_false]
    unfold checked
    by_cases hf : (IntTy.mk false w).fits (e - s) = true
    · have h := (fits_iff _ _).1 hf
      simp only [IntTy.minVal, IntTy.maxVal, Bool.false_eq_true, if_false] at h
      have hlen := wrap_u64_id w hw (e - s) h.1 (by omega)
      simp only [hf, if_true, IntTy.wrap, Bool.false_eq_true, if_false, hlen, tmod_nat]
      try (first | rfl | close_except)
    · simp [hf]
  · simp only [hse, not_false_eq_true, if_true]

/-- The two `Range` impls as one statement: the impl chosen by the signedness of the element type is `genRange`. -/
theorem range_eq_model (fuel w : Nat) (hw : w ≤ 64) (sg : Bool) (s e : Int) (raw : Nat) :
    (if sg then Range_a0_gen_from_u64 fuel ⟨true, w⟩ ⟨false, w⟩ s e raw
      else Range_a1_gen_from_u64 fuel ⟨true, w⟩ ⟨false, w⟩ s e raw) = genRange ⟨sg, w⟩ s e raw := by
  cases sg
  · simpa using range_ut_eq_model fuel w hw s e raw
  · simpa using range_it_eq_model fuel w hw s e raw

/-- `impl Randomable<$t> for RangeInclusive<$t>` (instantiated at `$it`) = `genIncl`. -/
theorem incl_it_eq_model (fuel w : Nat) (hw : w ≤ 64) (s e : Int) (raw : Nat) :
    RangeInclusive_a0_gen_from_u64 fuel ⟨true, w⟩ ⟨false, w⟩ s e raw = genIncl ⟨true, w⟩ s e raw := by
  unfold RangeInclusive_a0_gen_from_u64 genIncl
  simp only [range_it_eq_model fuel w hw]
  close_except

/-- … instantiated at `$ut`. -/
theorem incl_ut_eq_model (fuel w : Nat) (hw : w ≤ 64) (s e : Int) (raw : Nat) :
    RangeInclusive_a1_gen_from_u64 fuel ⟨true, w⟩ ⟨false, w⟩ s e raw = genIncl ⟨false, w⟩ s e raw := by
  unfold RangeInclusive_a1_gen_from_u64 genIncl
  simp only [range_ut_eq_model fuel w hw]
  close_except

/-- All ten generated impls, indexed by the model's `Form`: what `range.gen_from_u64(raw)` runs at element type `⟨sg, w⟩`. -/
def genSrc (fuel : Nat) (sg : Bool) (w : Nat) : Form → Nat → Except Panic Int
  | .range s e, raw => if sg then Range_a0_gen_from_u64 fuel ⟨true, w⟩ ⟨false, w⟩ s e raw
                       else Range_a1_gen_from_u64 fuel ⟨true, w⟩ ⟨false, w⟩ s e raw
  | .incl s e, raw => if sg then RangeInclusive_a0_gen_from_u64 fuel ⟨true, w⟩ ⟨false, w⟩ s e raw
                      else RangeInclusive_a1_gen_from_u64 fuel ⟨true, w⟩ ⟨false, w⟩ s e raw
  | .upTo e, raw => if sg then RangeTo_a0_gen_from_u64 fuel ⟨true, w⟩ ⟨false, w⟩ e raw
                    else RangeTo_a1_gen_from_u64 fuel ⟨true, w⟩ ⟨false, w⟩ e raw
  | .upToIncl e, raw => if sg then RangeToInclusive_a0_gen_from_u64 fuel ⟨true, w⟩ ⟨false, w⟩ e raw
                        else RangeToInclusive_a1_gen_from_u64 fuel ⟨true, w⟩ ⟨false, w⟩ e raw
  | .full, raw => if sg then RangeFull_a0_gen_from_u64 fuel ⟨true, w⟩ ⟨false, w⟩ raw
                  else RangeFull_a1_gen_from_u64 fuel ⟨true, w⟩ ⟨false, w⟩ raw

/-- Every generated impl = the model's `gen`, for all five range forms, both signednesses, every width up to 64,
    all bounds and every raw word. -/
theorem gen_eq_model (fuel w : Nat) (hw : w ≤ 64) (sg : Bool) (f : Form) (raw : Nat) :
    genSrc fuel sg w f raw = gen ⟨sg, w⟩ f raw := by
  cases f with
  | range s e => exact range_eq_model fuel w hw sg s e raw
  | incl s e =>
    cases sg
    · simpa [genSrc, gen] using incl_ut_eq_model fuel w hw s e raw
    · simpa [genSrc, gen] using incl_it_eq_model fuel w hw s e raw
  | upTo e =>
    cases sg
    · simp only [genSrc, gen, Bool.false_eq_true, if_false, RangeTo_a1_gen_from_u64, range_ut_eq_model fuel w hw]
      close_except
    · simp only [genSrc, gen, if_true, RangeTo_a0_gen_from_u64, range_it_eq_model fuel w hw]
      close_except
  | upToIncl e =>
    cases sg
    · simp only [genSrc, gen, Bool.false_eq_true, if_false, RangeToInclusive_a1_gen_from_u64, incl_ut_eq_model fuel w hw]
      close_except
    · simp only [genSrc, gen, if_true, RangeToInclusive_a0_gen_from_u64, incl_it_eq_model fuel w hw]
      close_except
  | full =>
    cases sg <;> simp [genSrc, gen, RangeFull_a0_gen_from_u64, RangeFull_a1_gen_from_u64]

/-- Every `make_randomable!(..)` invocation of the source pairs a signed with an unsigned type of the same width `≤ 64`:
    the hypotheses of the theorems above hold at every type the impls are instantiated at. -/
theorem instances_shape : ∀ p ∈ instances, ∃ w, 1 ≤ w ∧ w ≤ 64 ∧ p = (⟨true, w⟩, ⟨false, w⟩) := by
  have h : ∀ p ∈ instances, p.1.signed = true ∧ p.2.signed = false ∧ p.1.bits = p.2.bits ∧ 1 ≤ p.1.bits ∧ p.1.bits ≤ 64 := by
    decide
  intro p hp
  obtain ⟨h1, h2, h3, h4, h5⟩ := h p hp
  obtain ⟨⟨s1, b1⟩, ⟨s2, b2⟩⟩ := p
  simp only at h1 h2 h3 h4 h5
  subst h1 h2 h3
  exact ⟨b1, h4, h5, rfl⟩

end Rlib.RandSrc

namespace Rlib.LcgSrc
open Rlib Rlib.Rand

/-- `LinearCongruentialGenerator64<A, C>` with the scramble constants extracted from lcg.rs (`Params`). -/
def genAC (A C : Nat) : Gen := ⟨A, C, Params.mixShift1, Params.mixMul, Params.mixShift2⟩

theorem genAC_rng : genAC Params.lcgA Params.lcgC = rng := rfl

theorem wrapU64_nat (n : Nat) : wrapU 64 (n : Int) = ((n % 2 ^ 64 : Nat) : Int) := by
  unfold wrapU; push_cast; rfl

theorem wrapU64_lt (n : Nat) (h : n < 2 ^ 64) : wrapU 64 (n : Int) = (n : Int) := by
  rw [wrapU64_nat, Nat.mod_eq_of_lt h]

/-- `z ^ (z >> k)` on a `u64` value, as the translator writes it, is the model's `xorShift`. -/
theorem xorShift_cast (k z : Nat) (hz : z < 2 ^ 64) :
    wrapU 64 (Int.ofNat (Nat.xor (wrapU 64 (z : Int)).toNat (wrapU 64 ((z : Int) / 2 ^ k)).toNat)) = ((xorShift k z : Nat) : Int) := by
  have hdiv : (z : Int) / 2 ^ k = ((z / 2 ^ k : Nat) : Int) := by push_cast; rfl
  have hlt : z / 2 ^ k < 2 ^ 64 := Nat.lt_of_le_of_lt (Nat.div_le_self _ _) hz
  rw [hdiv, wrapU64_lt z hz, wrapU64_lt _ hlt, Int.toNat_natCast, Int.toNat_natCast]
  have hx : Nat.xor z (z / 2 ^ k) = xorShift k z := by
    unfold xorShift
    rw [Nat.shiftRight_eq_div_pow]
    rfl
  rw [hx, Int.ofNat_eq_natCast, wrapU64_lt _ (xorShift_lt k z hz)]

/-- `next_raw` as translated from lcg.rs = the model's `nextRaw` (new state, output word) for the scramble constants
    extracted into `Params`, every multiplier/increment and every state. -/
theorem next_raw_eq_model (fuel A C s : Nat) :
    next_raw fuel A C s =
      .ok (((nextRaw (genAC A C) s).1 : Int), ((nextRaw (genAC A C) s).2 : Int)) := by
  have hstep : wrapU 64 (wrapU 64 ((s : Int) * (A : Int)) + (C : Int)) = ((lcgStep (genAC A C) s : Nat) : Int) := by
    have e1 : (s : Int) * (A : Int) = ((s * A : Nat) : Int) := by push_cast; rfl
    rw [e1, wrapU64_nat]
    have e2 : ((s * A % 2 ^ 64 : Nat) : Int) + (C : Int) = ((s * A % 2 ^ 64 + C : Nat) : Int) := by push_cast; rfl
    rw [e2, wrapU64_nat, Nat.mod_add_mod]
    rfl
  have hs' := lcgStep_lt (genAC A C) s
  -- the scramble, stated with the constants of `Params` and then rewritten to the literals of the generated text, so that
  -- this proof does not mention their values
  have hx1 := xorShift_cast Params.mixShift1 _ hs'
  have hmul : ∀ z : Nat, wrapU 64 ((z : Int) * ((Params.mixMul : Nat) : Int)) = ((mulW Params.mixMul z : Nat) : Int) := by
    intro z
    have e1 : (z : Int) * ((Params.mixMul : Nat) : Int) = ((z * Params.mixMul : Nat) : Int) := by push_cast; rfl
    rw [e1, wrapU64_nat]; rfl
  have hx2 := xorShift_cast Params.mixShift2 _ (mulW_lt Params.mixMul (xorShift Params.mixShift1 (lcgStep (genAC A C) s)))
  have hk1 : Int.toNat ((Params.mixShift1 : Nat) : Int) = Params.mixShift1 := Int.toNat_natCast _
  have hk2 : Int.toNat ((Params.mixShift2 : Nat) : Int) = Params.mixShift2 := Int.toNat_natCast _
  have hres : (nextRaw (genAC A C) s) = (lcgStep (genAC A C) s,
      xorShift Params.mixShift2 (mulW Params.mixMul (xorShift Params.mixShift1 (lcgStep (genAC A C) s)))) := rfl
  rw [hres]
  simp only [Params.mixShift1, Params.mixShift2, Params.mixMul, Nat.cast_ofNat] at hx1 hmul hx2 hk1 hk2 ⊢
  unfold next_raw
  simp only [IntTy.wrap, Bool.false_eq_true, if_false, hstep]
  simp (config := { decide := true }) only [hk1, hk2, hx1, hmul, hx2, Nat.cast_ofNat, Int.reduceLT, Int.reduceLE, and_self,
    not_true_eq_false, not_false_eq_true, if_false]

end Rlib.LcgSrc
