import RlibModel.Model.TreapConc
/-!
Helper lemmas for C17 (core Lean only).

* `stream` / `iter` algebra;
* how one `step` changes `results`, `history`, the thread table;
* the three invariants: `InvShared` (shared cell, atomic draw), `InvOwn` (own cell),
  `Counted` (draws made + draws to make = program length);
* a serial schedule of a split discipline is an atomic schedule (`exec_expand_split`);
* the threads' streams together are a permutation of the history (`perm_flatMap_results`);
* the fine-grained system (get/set, lock/read/write/unlock, CAS loop) simulates the one-step system
  (`fsim_own`, `fsim_mutex`, `fsim_cas`, `fexec_sim`).
-/
namespace Rlib.TreapConc
variable {σ ρ : Type}

/-! ### `iter`, `stream` -/

theorem iter_succ_apply (g : Gen σ ρ) (n : Nat) (s : σ) : iter g (n + 1) s = g.next (iter g n s) := by
  induction n generalizing s with
  | zero => rfl
  | succ n ih =>
    show iter g (n + 1) (g.next s) = g.next (iter g n (g.next s))
    exact ih (g.next s)

@[simp] theorem stream_length (g : Gen σ ρ) (s : σ) (n : Nat) : (stream g s n).length = n := by
  induction n generalizing s with
  | zero => rfl
  | succ n ih => simp [stream, ih]

theorem stream_succ_append (g : Gen σ ρ) (s : σ) (n : Nat) :
    stream g s (n + 1) = stream g s n ++ [g.out (iter g (n + 1) s)] := by
  induction n generalizing s with
  | zero => rfl
  | succ n ih =>
    show g.out (g.next s) :: stream g (g.next s) (n + 1) = (g.out (g.next s) :: stream g (g.next s) n) ++ _
    rw [ih (g.next s)]
    rfl

/-! ### `exec` -/

@[simp] theorem exec_nil (D : Discipline) (g : Gen σ ρ) (st : State σ ρ) : exec D g st [] = st := rfl

@[simp] theorem exec_cons (D : Discipline) (g : Gen σ ρ) (st : State σ ρ) (i : Nat) (is : List Nat) :
    exec D g st (i :: is) = exec D g (step D g st i) is := rfl

theorem exec_append (D : Discipline) (g : Gen σ ρ) (st : State σ ρ) (a b : List Nat) :
    exec D g st (a ++ b) = exec D g (exec D g st a) b := by
  simp [exec, List.foldl_append]

/-- A property preserved by every step holds after every schedule. -/
theorem exec_induction (D : Discipline) (g : Gen σ ρ) (P : State σ ρ → Prop)
    (hstep : ∀ st i, P st → P (step D g st i)) (st : State σ ρ) (h : P st) (sched : List Nat) :
    P (exec D g st sched) := by
  induction sched generalizing st with
  | nil => exact h
  | cons i is ih => exact ih _ (hstep st i h)

/-! ### `results` / `history` after logging one more draw -/

def resultsOf (log : List (Nat × ρ)) (i : Nat) : List ρ := (log.reverse.filter (fun e => e.1 == i)).map (·.2)

theorem results_eq (st : State σ ρ) (i : Nat) : results st i = resultsOf st.log i := rfl

theorem resultsOf_cons (log : List (Nat × ρ)) (j : Nat) (r : ρ) (i : Nat) :
    resultsOf ((j, r) :: log) i = resultsOf log i ++ (if j = i then [r] else []) := by
  unfold resultsOf
  by_cases h : j = i
  · simp [List.filter_append, h]
  · have : (j == i) = false := by simpa using h
    simp [List.filter_append, h, this]

theorem resultsOf_sublist (log : List (Nat × ρ)) (i : Nat) :
    (resultsOf log i).Sublist (log.reverse.map (·.2)) :=
  List.Sublist.map _ List.filter_sublist

/-! ### The shape of one step -/

theorem step_atomic_shared (D : Discipline) (hD : D.mode = .sharedAtomic) (g : Gen σ ρ) (st : State σ ρ) (i : Nat) :
    step D g st i = st ∨
    ∃ t, st.threads[i]? = some t ∧ t.todo ≠ 0 ∧
      step D g st i = { shared := g.next st.shared
                        threads := st.threads.set i { t with todo := t.todo - 1 }
                        log := (i, g.out (g.next st.shared)) :: st.log } := by
  unfold step
  cases ht : st.threads[i]? with
  | none => left; rfl
  | some t =>
    simp only [hD]
    by_cases h0 : t.todo = 0
    · left; simp [h0]
    · right; exact ⟨t, rfl, h0, by simp [h0]⟩

theorem step_own (D : Discipline) (hD : D.mode = .ownAtomic) (g : Gen σ ρ) (st : State σ ρ) (i : Nat) :
    step D g st i = st ∨
    ∃ t, st.threads[i]? = some t ∧ t.todo ≠ 0 ∧
      step D g st i = { shared := st.shared
                        threads := st.threads.set i { t with todo := t.todo - 1, cell := g.next t.cell }
                        log := (i, g.out (g.next t.cell)) :: st.log } := by
  unfold step
  cases ht : st.threads[i]? with
  | none => left; rfl
  | some t =>
    simp only [hD]
    by_cases h0 : t.todo = 0
    · left; simp [h0]
    · right; exact ⟨t, rfl, h0, by simp [h0]⟩

/-! ### Invariant of a shared cell with atomic draws -/

structure InvShared (g : Gen σ ρ) (seed : σ) (st : State σ ρ) : Prop where
  shared_eq : st.shared = iter g st.log.length seed
  hist_eq : history st = stream g seed st.log.length

theorem invShared_init (g : Gen σ ρ) (seed : σ) (progs : List Nat) : InvShared g seed (init seed progs : State σ ρ) :=
  ⟨rfl, rfl⟩

theorem invShared_step (D : Discipline) (hD : D.mode = .sharedAtomic) (g : Gen σ ρ) (seed : σ)
    (st : State σ ρ) (i : Nat) (h : InvShared g seed st) : InvShared g seed (step D g st i) := by
  rcases step_atomic_shared D hD g st i with e | ⟨t, _, _, e⟩
  · rw [e]; exact h
  · rw [e]
    constructor
    · show g.next st.shared = iter g (st.log.length + 1) seed
      rw [iter_succ_apply, ← h.shared_eq]
    · show ((i, g.out (g.next st.shared)) :: st.log).reverse.map (·.2) = stream g seed (st.log.length + 1)
      rw [stream_succ_append, iter_succ_apply, ← h.shared_eq, ← h.hist_eq]
      simp [history]

theorem invShared_exec (D : Discipline) (hD : D.mode = .sharedAtomic) (g : Gen σ ρ) (seed : σ)
    (progs sched : List Nat) : InvShared g seed (exec D g (init seed progs) sched) :=
  exec_induction D g (InvShared g seed) (fun st i => invShared_step D hD g seed st i) _ (invShared_init g seed progs) sched

theorem history_length (st : State σ ρ) : (history st).length = st.log.length := by
  simp [history]

/-! ### Invariant of thread-owned cells -/

def InvOwn (g : Gen σ ρ) (seed : σ) (st : State σ ρ) : Prop :=
  ∀ i t, st.threads[i]? = some t →
    t.cell = iter g (results st i).length seed ∧ results st i = stream g seed (results st i).length

/-- Threads that do not exist never log anything. -/
def LogBounded (st : State σ ρ) : Prop := ∀ e ∈ st.log, e.1 < st.threads.length

theorem resultsOf_nil_of_bounded (log : List (Nat × ρ)) (k i : Nat) (hb : ∀ e ∈ log, e.1 < k) (hi : k ≤ i) :
    resultsOf log i = [] := by
  unfold resultsOf
  have : log.reverse.filter (fun e => e.1 == i) = [] := by
    rw [List.filter_eq_nil_iff]
    intro e he
    have := hb e (by simpa using he)
    simp; omega
  simp [this]


theorem invOwn_init (g : Gen σ ρ) (seed : σ) (progs : List Nat) : InvOwn g seed (init seed progs : State σ ρ) := by
  intro i t ht
  have hc : t.cell = seed := by
    simp only [init, List.getElem?_map] at ht
    cases hp : progs[i]? with
    | none => simp [hp] at ht
    | some n => simp [hp] at ht; rw [← ht]
  exact ⟨hc, rfl⟩

theorem invOwn_step (D : Discipline) (hD : D.mode = .ownAtomic) (g : Gen σ ρ) (seed : σ)
    (st : State σ ρ) (i : Nat) (h : InvOwn g seed st) : InvOwn g seed (step D g st i) := by
  rcases step_own D hD g st i with e | ⟨t, ht, _, e⟩
  · rw [e]; exact h
  · rw [e]
    intro j tj htj
    have hres : results ({ shared := st.shared
                           threads := st.threads.set i { t with todo := t.todo - 1, cell := g.next t.cell }
                           log := (i, g.out (g.next t.cell)) :: st.log } : State σ ρ) j
        = results st j ++ (if i = j then [g.out (g.next t.cell)] else []) := resultsOf_cons st.log i _ j
    rw [hres]
    simp only [List.getElem?_set] at htj
    by_cases hij : i = j
    · subst hij
      obtain ⟨hc, hr⟩ := h i t ht
      have hlt : i < st.threads.length := by
        rcases List.getElem?_eq_some_iff.mp ht with ⟨hl, _⟩; exact hl
      simp only [hlt, if_true] at htj
      have htj' : tj = { t with todo := t.todo - 1, cell := g.next t.cell } := by
        simpa using htj.symm
      subst htj'
      simp only [if_true, List.length_append, List.length_singleton]
      constructor
      · show g.next t.cell = iter g ((results st i).length + 1) seed
        rw [iter_succ_apply, ← hc]
      · rw [stream_succ_append, iter_succ_apply, ← hc, ← hr]
    · simp only [hij, if_false] at htj
      simpa [hij] using h j tj htj

theorem invOwn_exec (D : Discipline) (hD : D.mode = .ownAtomic) (g : Gen σ ρ) (seed : σ)
    (progs sched : List Nat) : InvOwn g seed (exec D g (init seed progs) sched) :=
  exec_induction D g (InvOwn g seed) (fun st i => invOwn_step D hD g seed st i) _ (invOwn_init g seed progs) sched

/-! ### Counting: draws made + draws to make = program length (one-step disciplines) -/

/-- Common shape of a step of a one-step discipline: nothing, or thread `i` (which exists and has
    draws left) logs one result and has one draw less to make. -/
theorem step_atomic_shape (D : Discipline) (hD : D.mode ≠ .sharedSplit) (g : Gen σ ρ) (st : State σ ρ) (i : Nat) :
    step D g st i = st ∨
    ∃ t t' r, st.threads[i]? = some t ∧ t.todo ≠ 0 ∧ t'.todo = t.todo - 1 ∧
      (step D g st i).threads = st.threads.set i t' ∧ (step D g st i).log = (i, r) :: st.log := by
  cases hm : D.mode with
  | sharedSplit => exact absurd hm hD
  | sharedAtomic =>
    rcases step_atomic_shared D hm g st i with e | ⟨t, ht, h0, e⟩
    · exact Or.inl e
    · exact Or.inr ⟨t, _, _, ht, h0, rfl, by rw [e], by rw [e]⟩
  | ownAtomic =>
    rcases step_own D hm g st i with e | ⟨t, ht, h0, e⟩
    · exact Or.inl e
    · exact Or.inr ⟨t, _, _, ht, h0, rfl, by rw [e], by rw [e]⟩

structure Counted (progs : List Nat) (st : State σ ρ) : Prop where
  len : st.threads.length = progs.length
  bounded : LogBounded st
  count : ∀ i t, st.threads[i]? = some t → t.todo + (results st i).length = progs.getD i 0

theorem counted_init (seed : σ) (progs : List Nat) : Counted progs (init seed progs : State σ ρ) := by
  refine ⟨by simp [init], ?_, ?_⟩
  · intro e he; simp [init] at he
  · intro i t ht
    simp only [init, List.getElem?_map] at ht
    cases hp : progs[i]? with
    | none => simp [hp] at ht
    | some n =>
      simp [hp] at ht
      rw [← ht]
      simp [results, init, List.getD, hp]

theorem counted_step (D : Discipline) (hD : D.mode ≠ .sharedSplit) (g : Gen σ ρ) (progs : List Nat)
    (st : State σ ρ) (i : Nat) (h : Counted progs st) : Counted progs (step D g st i) := by
  rcases step_atomic_shape D hD g st i with e | ⟨t, t', r, ht, h0, htodo, eth, elog⟩
  · rw [e]; exact h
  · have hlt : i < st.threads.length := by
      rcases List.getElem?_eq_some_iff.mp ht with ⟨hl, _⟩; exact hl
    refine ⟨by rw [eth, List.length_set]; exact h.len, ?_, ?_⟩
    · intro e he
      rw [elog] at he
      rw [eth, List.length_set]
      rcases List.mem_cons.mp he with rfl | he'
      · exact hlt
      · exact h.bounded e he'
    · intro j tj htj
      rw [eth, List.getElem?_set] at htj
      have hres : results (step D g st i) j = results st j ++ (if i = j then [r] else []) := by
        rw [results_eq, elog]; exact resultsOf_cons st.log i r j
      rw [hres]
      by_cases hij : i = j
      · subst hij
        simp only [hlt, if_true] at htj
        have : tj = t' := by simpa using htj.symm
        subst this
        have := h.count i t ht
        simp only [if_true, List.length_append, List.length_singleton]
        omega
      · simp only [hij, if_false] at htj
        simpa [hij] using h.count j tj htj

theorem counted_exec (D : Discipline) (hD : D.mode ≠ .sharedSplit) (g : Gen σ ρ) (seed : σ)
    (progs sched : List Nat) : Counted progs (exec D g (init seed progs) sched) :=
  exec_induction D g (Counted progs) (fun st i => counted_step D hD g progs st i) _ (counted_init seed progs) sched

theorem Counted.results_le {progs : List Nat} {st : State σ ρ} (h : Counted progs st) (i : Nat) :
    (results st i).length ≤ progs.getD i 0 := by
  cases ht : st.threads[i]? with
  | some t => have := h.count i t ht; omega
  | none =>
    have hi : st.threads.length ≤ i := by
      rcases Nat.lt_or_ge i st.threads.length with hl | hl
      · rw [List.getElem?_eq_getElem hl] at ht; cases ht
      · exact hl
    rw [results_eq, resultsOf_nil_of_bounded st.log _ i h.bounded hi]
    simp

theorem Counted.results_finished {progs : List Nat} {st : State σ ρ} (h : Counted progs st)
    (hf : finished st = true) (i : Nat) : (results st i).length = progs.getD i 0 := by
  cases ht : st.threads[i]? with
  | some t =>
    have hc := h.count i t ht
    have hmem : t ∈ st.threads := List.mem_of_getElem? ht
    have : t.todo = 0 := by
      have := (List.all_eq_true.mp hf) t hmem
      simpa using this
    omega
  | none =>
    have hi : st.threads.length ≤ i := by
      rcases Nat.lt_or_ge i st.threads.length with hl | hl
      · rw [List.getElem?_eq_getElem hl] at ht; cases ht
      · exact hl
    rw [results_eq, resultsOf_nil_of_bounded st.log _ i h.bounded hi]
    have : progs.length ≤ i := by rw [← h.len]; exact hi
    simp [List.getD, List.getElem?_eq_none this]

/-! ### The threads' streams together are the history, as a multiset -/

theorem flatMap_congr_mem {α β : Type} (l : List α) (f g : α → List β) (h : ∀ a ∈ l, f a = g a) :
    l.flatMap f = l.flatMap g := by
  induction l with
  | nil => rfl
  | cons a l ih =>
    simp only [List.flatMap_cons]
    rw [h a List.mem_cons_self, ih (fun b hb => h b (List.mem_cons_of_mem _ hb))]

theorem perm_flatMap_append_if (ids : List Nat) (X : Nat → List ρ) (j : Nat) (r : ρ)
    (hj : j ∈ ids) (hn : ids.Nodup) :
    (ids.flatMap (fun i => X i ++ (if j = i then [r] else []))).Perm (ids.flatMap X ++ [r]) := by
  induction ids with
  | nil => cases hj
  | cons a rest ih =>
    have hn' := List.nodup_cons.mp hn
    simp only [List.flatMap_cons]
    by_cases hja : j = a
    · subst hja
      have hrest : rest.flatMap (fun i => X i ++ (if j = i then [r] else [])) = rest.flatMap X := by
        apply flatMap_congr_mem
        intro i hi
        have : j ≠ i := fun e => hn'.1 (e ▸ hi)
        simp [this]
      rw [hrest]
      simp only [if_true, List.append_assoc]
      exact List.Perm.append_left _ List.perm_append_comm
    · have hjr : j ∈ rest := by
        rcases List.mem_cons.mp hj with e | e
        · exact absurd e hja
        · exact e
      simp only [hja, if_false, List.append_nil, List.append_assoc]
      exact List.Perm.append_left _ (ih hjr hn'.2)

theorem perm_flatMap_resultsOf (log : List (Nat × ρ)) (k : Nat) (hb : ∀ e ∈ log, e.1 < k) :
    ((List.range k).flatMap (resultsOf log)).Perm (log.reverse.map (·.2)) := by
  induction log with
  | nil => simp [resultsOf]
  | cons e log ih =>
    obtain ⟨j, r⟩ := e
    have hj : j < k := hb (j, r) (List.mem_cons_self)
    have hb' : ∀ e ∈ log, e.1 < k := fun e he => hb e (List.mem_cons_of_mem _ he)
    have hfun : resultsOf ((j, r) :: log) = fun i => resultsOf log i ++ (if j = i then [r] else []) := by
      funext i; exact resultsOf_cons log j r i
    rw [hfun]
    refine (perm_flatMap_append_if (List.range k) (resultsOf log) j r (List.mem_range.mpr hj) List.nodup_range).trans ?_
    simp only [List.reverse_cons, List.map_append, List.map_cons, List.map_nil]
    exact List.Perm.append_right _ (ih hb')

theorem Counted.perm_results {progs : List Nat} {st : State σ ρ} (h : Counted progs st) :
    ((List.range progs.length).flatMap (results st)).Perm (history st) := by
  have := perm_flatMap_resultsOf st.log progs.length (by intro e he; rw [← h.len]; exact h.bounded e he)
  exact this

/-! ### A serial schedule of a split discipline is an atomic schedule -/

def AllIdle (st : State σ ρ) : Prop := ∀ t ∈ st.threads, t.pending = none

theorem allIdle_init (seed : σ) (progs : List Nat) : AllIdle (init seed progs : State σ ρ) := by
  intro t ht
  simp only [init, List.mem_map] at ht
  obtain ⟨n, _, rfl⟩ := ht
  rfl

theorem step_split_pair (D D' : Discipline) (hD : D.mode = .sharedSplit) (hD' : D'.mode = .sharedAtomic)
    (g : Gen σ ρ) (st : State σ ρ) (i : Nat) (hidle : AllIdle st) :
    step D g (step D g st i) i = step D' g st i ∧ AllIdle (step D' g st i) := by
  cases ht : st.threads[i]? with
  | none =>
    have e1 : step D g st i = st := by unfold step; simp [ht]
    have e2 : step D' g st i = st := by unfold step; simp [ht]
    rw [e1, e1, e2]; exact ⟨rfl, hidle⟩
  | some t =>
    have hp : t.pending = none := hidle t (List.mem_of_getElem? ht)
    have hlt : i < st.threads.length := by
      rcases List.getElem?_eq_some_iff.mp ht with ⟨hl, _⟩; exact hl
    by_cases h0 : t.todo = 0
    · have e1 : step D g st i = st := by unfold step; simp [ht, hD, hp, h0]
      have e2 : step D' g st i = st := by unfold step; simp [ht, hD', h0]
      rw [e1, e1, e2]; exact ⟨rfl, hidle⟩
    · have e1 : step D g st i = { st with threads := st.threads.set i { t with pending := some st.shared } } := by
        unfold step; simp [ht, hD, hp, h0]
      have e2 : step D' g st i = { shared := g.next st.shared
                                   threads := st.threads.set i { t with todo := t.todo - 1 }
                                   log := (i, g.out (g.next st.shared)) :: st.log } := by
        unfold step; simp [ht, hD', h0]
      have e3 : step D g { st with threads := st.threads.set i { t with pending := some st.shared } } i
          = { shared := g.next st.shared
              threads := st.threads.set i { t with todo := t.todo - 1 }
              log := (i, g.out (g.next st.shared)) :: st.log } := by
        unfold step
        simp only [List.getElem?_set, hlt, if_true, hD, List.set_set]
        cases t with
        | mk todo pending cell =>
          simp only at hp
          subst hp
          rfl
      rw [e1, e3, e2]
      refine ⟨rfl, ?_⟩
      intro t' ht'
      rcases List.mem_or_eq_of_mem_set ht' with hm | rfl
      · exact hidle t' hm
      · exact hp

theorem exec_expand_split (D D' : Discipline) (hD : D.mode = .sharedSplit) (hD' : D'.mode = .sharedAtomic)
    (g : Gen σ ρ) (st : State σ ρ) (hidle : AllIdle st) (order : List Nat) :
    exec D g st (expand D order) = exec D' g st order := by
  induction order generalizing st with
  | nil => rfl
  | cons i is ih =>
    have hsteps : D.drawSteps = 2 := by simp [Discipline.drawSteps, hD]
    have : expand D (i :: is) = i :: i :: expand D is := by
      simp [expand, hsteps, List.replicate]
    rw [this]
    simp only [exec_cons]
    obtain ⟨e, hidle'⟩ := step_split_pair D D' hD hD' g st i hidle
    rw [e]
    exact ih _ hidle'

theorem expand_atomic (D : Discipline) (hD : D.mode ≠ .sharedSplit) (order : List Nat) : expand D order = order := by
  have hsteps : D.drawSteps = 1 := by
    unfold Discipline.drawSteps
    cases hm : D.mode with
    | sharedSplit => exact absurd hm hD
    | sharedAtomic => rfl
    | ownAtomic => rfl
  induction order with
  | nil => rfl
  | cons i is ih =>
    have : expand D (i :: is) = i :: expand D is := by simp [expand, hsteps]
    rw [this, ih]


/-! ### The fine-grained system simulates the one-step system -/

theorem set_eq_self_of_getElem? {α : Type} (l : List α) (i : Nat) (a : α) (h : l[i]? = some a) : l.set i a = l := by
  induction l generalizing i with
  | nil => rfl
  | cons x xs ih =>
    cases i with
    | zero => simp at h; simp [h]
    | succ n => simp at h; simp [ih n h]

/-- A property of all threads survives `set i t'` if it holds for `t'` at `i`. -/
theorem forall_threads_set {α : Type} (l : List α) (i : Nat) (a' : α) (P : Nat → α → Prop)
    (hold : ∀ j a, j ≠ i → l[j]? = some a → P j a) (hnew : P i a') :
    ∀ j a, (l.set i a')[j]? = some a → P j a := by
  intro j a hj
  rw [List.getElem?_set] at hj
  by_cases hij : i = j
  · subst hij
    by_cases hl : i < l.length
    · simp [hl] at hj; subst hj; exact hnew
    · simp [hl] at hj
  · simp [hij] at hj
    exact hold j a (fun e => hij e.symm) hj

section Fine
variable [DecidableEq σ]
set_option linter.unusedSectionVars false

@[simp] theorem fexec_nil (D : Discipline) (g : Gen σ ρ) (st : FState σ ρ) : fexec D g st [] = st := rfl

@[simp] theorem fexec_cons (D : Discipline) (g : Gen σ ρ) (st : FState σ ρ) (i : Nat) (is : List Nat) :
    fexec D g st (i :: is) = fexec D g (fstep D g st i) is := rfl

theorem finit_abs (seed : σ) (progs : List Nat) : (finit seed progs : FState σ ρ).abs = init seed progs := by
  simp [finit, init, FState.abs, FThread.abs, List.map_map, Function.comp_def]

/-- The step changed only the position inside the draw (and perhaps the lock). -/
theorem abs_stutter (st st' : FState σ ρ) (i : Nat) (t t' : FThread σ) (ht : st.threads[i]? = some t)
    (hs : st'.shared = st.shared) (hl : st'.log = st.log) (hth : st'.threads = st.threads.set i t')
    (habs : t'.abs = t.abs) : st'.abs = st.abs := by
  unfold FState.abs
  rw [hs, hl, hth, List.map_set, habs, set_eq_self_of_getElem?]
  simp [ht]

/-- The step is the indivisible draw of the shared-cell one-step system. -/
theorem abs_commit_shared (D : Discipline) (hD : D.mode = .sharedAtomic) (g : Gen σ ρ) (st st' : FState σ ρ)
    (i : Nat) (t t' : FThread σ) (ht : st.threads[i]? = some t) (h0 : t.todo ≠ 0)
    (hs : st'.shared = g.next st.shared) (hl : st'.log = (i, g.out (g.next st.shared)) :: st.log)
    (hth : st'.threads = st.threads.set i t') (habs : t'.abs = { t.abs with todo := t.todo - 1 }) :
    st'.abs = step D g st.abs i := by
  have hta : st.abs.threads[i]? = some t.abs := by simp [FState.abs, ht]
  unfold step
  rw [hta]
  simp only [hD]
  have h0' : t.abs.todo ≠ 0 := h0
  rw [if_neg h0']
  unfold FState.abs
  rw [hs, hl, hth, List.map_set, habs]
  rfl

/-- The step is the indivisible draw of the own-cell one-step system. -/
theorem abs_commit_own (D : Discipline) (hD : D.mode = .ownAtomic) (g : Gen σ ρ) (st st' : FState σ ρ)
    (i : Nat) (t t' : FThread σ) (ht : st.threads[i]? = some t) (h0 : t.todo ≠ 0)
    (hs : st'.shared = st.shared) (hl : st'.log = (i, g.out (g.next t.cell)) :: st.log)
    (hth : st'.threads = st.threads.set i t')
    (habs : t'.abs = { t.abs with todo := t.todo - 1, cell := g.next t.cell }) :
    st'.abs = step D g st.abs i := by
  have hta : st.abs.threads[i]? = some t.abs := by simp [FState.abs, ht]
  unfold step
  rw [hta]
  simp only [hD]
  have h0' : t.abs.todo ≠ 0 := h0
  rw [if_neg h0']
  unfold FState.abs
  rw [hs, hl, hth, List.map_set, habs]
  rfl

/-- Generic forward simulation: if every fine step preserves `Inv` and is either invisible or one
    step of the one-step system, every fine schedule is matched by a schedule of the one-step system. -/
theorem fexec_sim (D : Discipline) (g : Gen σ ρ) (Inv : FState σ ρ → Prop)
    (hsim : ∀ st i, Inv st → Inv (fstep D g st i) ∧
      ((fstep D g st i).abs = st.abs ∨ (fstep D g st i).abs = step D g st.abs i))
    (st0 : FState σ ρ) (h0 : Inv st0) (sched : List Nat) :
    ∃ order, (fexec D g st0 sched).abs = exec D g st0.abs order := by
  induction sched generalizing st0 with
  | nil => exact ⟨[], rfl⟩
  | cons i is ih =>
    obtain ⟨hinv, hstep⟩ := hsim st0 i h0
    obtain ⟨order, ho⟩ := ih (fstep D g st0 i) hinv
    rcases hstep with e | e
    · exact ⟨order, by rw [fexec_cons, ho, e]⟩
    · exact ⟨i :: order, by rw [fexec_cons, ho, e]; rfl⟩

/-! #### thread-local: `get` … `set` on the own cell -/

def FInvOwn (st : FState σ ρ) : Prop :=
  ∀ (j : Nat) (t : FThread σ), st.threads[j]? = some t → ∀ v, t.pc = .loaded v → v = t.cell ∧ t.todo ≠ 0

theorem fsim_own (g : Gen σ ρ) (st : FState σ ρ) (i : Nat) (h : FInvOwn st) :
    FInvOwn (fstep .threadLocal g st i) ∧
    ((fstep .threadLocal g st i).abs = st.abs ∨
      (fstep .threadLocal g st i).abs = step .threadLocal g st.abs i) := by
  cases ht : st.threads[i]? with
  | none =>
    have e : fstep .threadLocal g st i = st := by unfold fstep; simp [ht]
    rw [e]; exact ⟨h, Or.inl rfl⟩
  | some t =>
    cases hpc : t.pc with
    | idle =>
      by_cases h0 : t.todo = 0
      · have e : fstep .threadLocal g st i = st := by unfold fstep; simp [ht, hpc, h0]
        rw [e]; exact ⟨h, Or.inl rfl⟩
      · have e : fstep .threadLocal g st i
            = { st with threads := st.threads.set i { t with pc := .loaded t.cell } } := by
          unfold fstep; simp [ht, hpc, h0]
        rw [e]
        refine ⟨?_, Or.inl (abs_stutter st _ i t _ ht rfl rfl rfl rfl)⟩
        apply forall_threads_set
        · intro j a _ hj; exact h j a hj
        · intro v hv
          simp only [Pc.loaded.injEq] at hv
          exact ⟨hv.symm, h0⟩
    | loaded v =>
      obtain ⟨hv, h0⟩ := h i t ht v hpc
      have e : fstep .threadLocal g st i
          = { st with
              threads := st.threads.set i { t with pc := .idle, todo := t.todo - 1, cell := g.next v }
              log := (i, g.out (g.next v)) :: st.log } := by
        unfold fstep; simp [ht, hpc]
      rw [e]
      refine ⟨?_, Or.inr (abs_commit_own .threadLocal rfl g st _ i t _ ht h0 rfl (by rw [hv]) rfl (by rw [hv]; rfl))⟩
      apply forall_threads_set
      · intro j a _ hj; exact h j a hj
      · intro w hw; cases hw
    | locked =>
      have e : fstep .threadLocal g st i = st := by unfold fstep; simp [ht, hpc]
      rw [e]; exact ⟨h, Or.inl rfl⟩
    | stored =>
      have e : fstep .threadLocal g st i = st := by unfold fstep; simp [ht, hpc]
      rw [e]; exact ⟨h, Or.inl rfl⟩

/-! #### `fetch_update`: load, compare-and-swap, retry -/

def FInvCas (st : FState σ ρ) : Prop :=
  ∀ (j : Nat) (t : FThread σ), st.threads[j]? = some t → ∀ v, t.pc = .loaded v → t.todo ≠ 0

theorem fsim_cas (g : Gen σ ρ) (st : FState σ ρ) (i : Nat) (h : FInvCas st) :
    FInvCas (fstep .atomicRmw g st i) ∧
    ((fstep .atomicRmw g st i).abs = st.abs ∨
      (fstep .atomicRmw g st i).abs = step .atomicRmw g st.abs i) := by
  cases ht : st.threads[i]? with
  | none =>
    have e : fstep .atomicRmw g st i = st := by unfold fstep; simp [ht]
    rw [e]; exact ⟨h, Or.inl rfl⟩
  | some t =>
    cases hpc : t.pc with
    | idle =>
      by_cases h0 : t.todo = 0
      · have e : fstep .atomicRmw g st i = st := by unfold fstep; simp [ht, hpc, h0]
        rw [e]; exact ⟨h, Or.inl rfl⟩
      · have e : fstep .atomicRmw g st i
            = { st with threads := st.threads.set i { t with pc := .loaded st.shared } } := by
          unfold fstep; simp [ht, hpc, h0]
        rw [e]
        refine ⟨?_, Or.inl (abs_stutter st _ i t _ ht rfl rfl rfl rfl)⟩
        apply forall_threads_set
        · intro j a _ hj; exact h j a hj
        · intro v _; exact h0
    | loaded v =>
      have h0 := h i t ht v hpc
      by_cases hcas : st.shared = v
      · have e : fstep .atomicRmw g st i
            = { st with
                shared := g.next v
                threads := st.threads.set i { t with pc := .idle, todo := t.todo - 1 }
                log := (i, g.out (g.next v)) :: st.log } := by
          unfold fstep; simp [ht, hpc, hcas]
        rw [e]
        refine ⟨?_, Or.inr (abs_commit_shared .atomicRmw rfl g st _ i t _ ht h0 (by rw [hcas]) (by rw [hcas]) rfl rfl)⟩
        apply forall_threads_set
        · intro j a _ hj; exact h j a hj
        · intro w hw; cases hw
      · have e : fstep .atomicRmw g st i
            = { st with threads := st.threads.set i { t with pc := .loaded st.shared } } := by
          unfold fstep; simp [ht, hpc, hcas]
        rw [e]
        refine ⟨?_, Or.inl (abs_stutter st _ i t _ ht rfl rfl rfl rfl)⟩
        apply forall_threads_set
        · intro j a _ hj; exact h j a hj
        · intro w _; exact h0
    | locked =>
      have e : fstep .atomicRmw g st i = st := by unfold fstep; simp [ht, hpc]
      rw [e]; exact ⟨h, Or.inl rfl⟩
    | stored =>
      have e : fstep .atomicRmw g st i = st := by unfold fstep; simp [ht, hpc]
      rw [e]; exact ⟨h, Or.inl rfl⟩

/-! #### mutex: lock · read · write · unlock -/

structure FInvMutex (st : FState σ ρ) : Prop where
  /-- whoever is inside a draw holds the lock (so at most one thread is) -/
  holder : ∀ (j : Nat) (t : FThread σ), st.threads[j]? = some t → t.pc ≠ .idle → st.lock = some j
  /-- the value read under the lock is still the value of the cell -/
  fresh : ∀ (j : Nat) (t : FThread σ), st.threads[j]? = some t → ∀ v, t.pc = .loaded v → v = st.shared
  /-- the lock is only taken for a draw that is still to be made -/
  due : ∀ (j : Nat) (t : FThread σ), st.threads[j]? = some t → (t.pc = .locked ∨ ∃ v, t.pc = .loaded v) → t.todo ≠ 0

theorem fsim_mutex (g : Gen σ ρ) (st : FState σ ρ) (i : Nat) (h : FInvMutex st) :
    FInvMutex (fstep .mutex g st i) ∧
    ((fstep .mutex g st i).abs = st.abs ∨
      (fstep .mutex g st i).abs = step .mutex g st.abs i) := by
  cases ht : st.threads[i]? with
  | none =>
    have e : fstep .mutex g st i = st := by unfold fstep; simp [ht]
    rw [e]; exact ⟨h, Or.inl rfl⟩
  | some t =>
    cases hpc : t.pc with
    | idle =>
      by_cases h0 : t.todo = 0
      · have e : fstep .mutex g st i = st := by unfold fstep; simp [ht, hpc, h0]
        rw [e]; exact ⟨h, Or.inl rfl⟩
      · cases hlock : st.lock with
        | some k =>
          have e : fstep .mutex g st i = st := by unfold fstep; simp [ht, hpc, h0, hlock]
          rw [e]; exact ⟨h, Or.inl rfl⟩
        | none =>
          have e : fstep .mutex g st i
              = { st with lock := some i, threads := st.threads.set i { t with pc := .locked } } := by
            unfold fstep; simp [ht, hpc, h0, hlock]
          rw [e]
          refine ⟨⟨?_, ?_, ?_⟩, Or.inl (abs_stutter st _ i t _ ht rfl rfl rfl rfl)⟩
          · apply forall_threads_set
            · intro j a _ hj hne
              have := h.holder j a hj hne
              rw [hlock] at this; cases this
            · intro _; rfl
          · apply forall_threads_set
            · intro j a _ hj v hv; exact h.fresh j a hj v hv
            · intro v hv; cases hv
          · apply forall_threads_set
            · intro j a _ hj hp; exact h.due j a hj hp
            · intro _; exact h0
    | locked =>
      have e : fstep .mutex g st i
          = { st with threads := st.threads.set i { t with pc := .loaded st.shared } } := by
        unfold fstep; simp [ht, hpc]
      have hhold := h.holder i t ht (by rw [hpc]; intro c; cases c)
      have hdue := h.due i t ht (Or.inl hpc)
      rw [e]
      refine ⟨⟨?_, ?_, ?_⟩, Or.inl (abs_stutter st _ i t _ ht rfl rfl rfl rfl)⟩
      · apply forall_threads_set
        · intro j a _ hj hne; exact h.holder j a hj hne
        · intro _; exact hhold
      · apply forall_threads_set
        · intro j a _ hj v hv; exact h.fresh j a hj v hv
        · intro v hv
          simp only [Pc.loaded.injEq] at hv
          exact hv.symm
      · apply forall_threads_set
        · intro j a _ hj hp; exact h.due j a hj hp
        · intro _; exact hdue
    | loaded v =>
      have hv := h.fresh i t ht v hpc
      have hhold := h.holder i t ht (by rw [hpc]; intro c; cases c)
      have h0 := h.due i t ht (Or.inr ⟨v, hpc⟩)
      have e : fstep .mutex g st i
          = { st with
              shared := g.next v
              threads := st.threads.set i { t with pc := .stored, todo := t.todo - 1 }
              log := (i, g.out (g.next v)) :: st.log } := by
        unfold fstep; simp [ht, hpc]
      rw [e]
      refine ⟨⟨?_, ?_, ?_⟩, Or.inr (abs_commit_shared .mutex rfl g st _ i t _ ht h0 (by rw [hv]) (by rw [hv]) rfl rfl)⟩
      · apply forall_threads_set
        · intro j a _ hj hne; exact h.holder j a hj hne
        · intro _; exact hhold
      · apply forall_threads_set
        · intro j a hji hj w hw
          -- another thread inside a draw would hold the lock too
          have hj' := h.holder j a hj (by rw [hw]; intro c; cases c)
          rw [hhold] at hj'
          exact absurd (Option.some.inj hj').symm hji
        · intro w hw; cases hw
      · apply forall_threads_set
        · intro j a _ hj hp; exact h.due j a hj hp
        · intro hp
          rcases hp with hp | ⟨w, hp⟩ <;> cases hp
    | stored =>
      have hhold := h.holder i t ht (by rw [hpc]; intro c; cases c)
      have e : fstep .mutex g st i
          = { st with lock := none, threads := st.threads.set i { t with pc := .idle } } := by
        unfold fstep; simp [ht, hpc]
      rw [e]
      refine ⟨⟨?_, ?_, ?_⟩, Or.inl (abs_stutter st _ i t _ ht rfl rfl rfl rfl)⟩
      · apply forall_threads_set
        · intro j a hji hj hne
          have hj' := h.holder j a hj hne
          rw [hhold] at hj'
          exact absurd (Option.some.inj hj').symm hji
        · intro hne; exact absurd rfl hne
      · apply forall_threads_set
        · intro j a _ hj v hv; exact h.fresh j a hj v hv
        · intro v hv; cases hv
      · apply forall_threads_set
        · intro j a _ hj hp; exact h.due j a hj hp
        · intro hp
          rcases hp with hp | ⟨w, hp⟩ <;> cases hp

theorem fexec_inv (D : Discipline) (g : Gen σ ρ) (Inv : FState σ ρ → Prop)
    (hstep : ∀ st i, Inv st → Inv (fstep D g st i)) (st : FState σ ρ) (h : Inv st) (sched : List Nat) :
    Inv (fexec D g st sched) := by
  induction sched generalizing st with
  | nil => exact h
  | cons i is ih => exact ih _ (hstep st i h)

theorem fInvOwn_init (seed : σ) (progs : List Nat) : FInvOwn (finit seed progs : FState σ ρ) := by
  intro j t ht v hv
  simp only [finit, List.getElem?_map] at ht
  cases hp : progs[j]? with
  | none => simp [hp] at ht
  | some n => simp [hp] at ht; rw [← ht] at hv; cases hv

theorem fInvCas_init (seed : σ) (progs : List Nat) : FInvCas (finit seed progs : FState σ ρ) := by
  intro j t ht v hv
  simp only [finit, List.getElem?_map] at ht
  cases hp : progs[j]? with
  | none => simp [hp] at ht
  | some n => simp [hp] at ht; rw [← ht] at hv; cases hv

theorem fInvMutex_init (seed : σ) (progs : List Nat) : FInvMutex (finit seed progs : FState σ ρ) := by
  have hidle : ∀ (j : Nat) (t : FThread σ), (finit seed progs : FState σ ρ).threads[j]? = some t → t.pc = .idle := by
    intro j t ht
    simp only [finit, List.getElem?_map] at ht
    cases hp : progs[j]? with
    | none => simp [hp] at ht
    | some n => simp [hp] at ht; rw [← ht]
  refine ⟨?_, ?_, ?_⟩
  · intro j t ht hne; exact absurd (hidle j t ht) hne
  · intro j t ht v hv; rw [hidle j t ht] at hv; cases hv
  · intro j t ht hp
    rw [hidle j t ht] at hp
    rcases hp with hp | ⟨w, hp⟩ <;> cases hp

/-! #### a serial fine-grained schedule does what the one-step system does -/

/-- Nobody is inside a draw and the lock is free. -/
structure Quiet (st : FState σ ρ) : Prop where
  free : st.lock = none
  idle : ∀ t ∈ st.threads, t.pc = .idle

theorem quiet_init (seed : σ) (progs : List Nat) : Quiet (finit seed progs : FState σ ρ) := by
  refine ⟨rfl, ?_⟩
  intro t ht
  simp only [finit, List.mem_map] at ht
  obtain ⟨n, _, rfl⟩ := ht
  rfl

theorem quiet_set (st : FState σ ρ) (i : Nat) (t' : FThread σ) (h : Quiet st) (ht' : t'.pc = .idle) (s : σ) (lg : List (Nat × ρ)) :
    Quiet ({ shared := s, lock := none, threads := st.threads.set i t', log := lg } : FState σ ρ) := by
  refine ⟨rfl, ?_⟩
  intro t hm
  rcases List.mem_or_eq_of_mem_set hm with hm | rfl
  · exact h.idle t hm
  · exact ht'

theorem fblock_own (g : Gen σ ρ) (st : FState σ ρ) (i : Nat) (h : Quiet st) :
    (fexec .threadLocal g st [i, i]).abs = step .threadLocal g st.abs i ∧ Quiet (fexec .threadLocal g st [i, i]) := by
  cases ht : st.threads[i]? with
  | none =>
    have e : fstep .threadLocal g st i = st := by unfold fstep; simp [ht]
    have e2 : step .threadLocal g st.abs i = st.abs := by unfold step; simp [FState.abs, ht]
    simp only [fexec_cons, fexec_nil, e, e2]; exact ⟨trivial, h⟩
  | some t =>
    have hpc : t.pc = .idle := h.idle t (List.mem_of_getElem? ht)
    have hlt : i < st.threads.length := by
      rcases List.getElem?_eq_some_iff.mp ht with ⟨hl, _⟩; exact hl
    have hta : st.abs.threads[i]? = some t.abs := by simp [FState.abs, ht]
    by_cases h0 : t.todo = 0
    · have e : fstep .threadLocal g st i = st := by unfold fstep; simp [ht, hpc, h0]
      have e2 : step .threadLocal g st.abs i = st.abs := by
        unfold step; rw [hta]; simp [Discipline.mode, FThread.abs, h0]
      simp only [fexec_cons, fexec_nil, e, e2]; exact ⟨trivial, h⟩
    · have e1 : fstep .threadLocal g st i
          = { st with threads := st.threads.set i { t with pc := .loaded t.cell } } := by
        unfold fstep; simp [ht, hpc, h0]
      have e2 : fstep .threadLocal g { st with threads := st.threads.set i { t with pc := .loaded t.cell } } i
          = { st with
              threads := st.threads.set i { t with pc := .idle, todo := t.todo - 1, cell := g.next t.cell }
              log := (i, g.out (g.next t.cell)) :: st.log } := by
        unfold fstep; simp [hlt, List.set_set]
      simp only [fexec_cons, fexec_nil, e1, e2]
      constructor
      · exact abs_commit_own .threadLocal rfl g st _ i t _ ht h0 rfl rfl rfl rfl
      · have := quiet_set st i { t with pc := .idle, todo := t.todo - 1, cell := g.next t.cell } h rfl st.shared ((i, g.out (g.next t.cell)) :: st.log)
        rw [← h.free] at this
        exact this

theorem fblock_cas (g : Gen σ ρ) (st : FState σ ρ) (i : Nat) (h : Quiet st) :
    (fexec .atomicRmw g st [i, i]).abs = step .atomicRmw g st.abs i ∧ Quiet (fexec .atomicRmw g st [i, i]) := by
  cases ht : st.threads[i]? with
  | none =>
    have e : fstep .atomicRmw g st i = st := by unfold fstep; simp [ht]
    have e2 : step .atomicRmw g st.abs i = st.abs := by unfold step; simp [FState.abs, ht]
    simp only [fexec_cons, fexec_nil, e, e2]; exact ⟨trivial, h⟩
  | some t =>
    have hpc : t.pc = .idle := h.idle t (List.mem_of_getElem? ht)
    have hlt : i < st.threads.length := by
      rcases List.getElem?_eq_some_iff.mp ht with ⟨hl, _⟩; exact hl
    have hta : st.abs.threads[i]? = some t.abs := by simp [FState.abs, ht]
    by_cases h0 : t.todo = 0
    · have e : fstep .atomicRmw g st i = st := by unfold fstep; simp [ht, hpc, h0]
      have e2 : step .atomicRmw g st.abs i = st.abs := by
        unfold step; rw [hta]; simp [Discipline.mode, FThread.abs, h0]
      simp only [fexec_cons, fexec_nil, e, e2]; exact ⟨trivial, h⟩
    · have e1 : fstep .atomicRmw g st i
          = { st with threads := st.threads.set i { t with pc := .loaded st.shared } } := by
        unfold fstep; simp [ht, hpc, h0]
      have e2 : fstep .atomicRmw g { st with threads := st.threads.set i { t with pc := .loaded st.shared } } i
          = { st with
              shared := g.next st.shared
              threads := st.threads.set i { t with pc := .idle, todo := t.todo - 1 }
              log := (i, g.out (g.next st.shared)) :: st.log } := by
        unfold fstep; simp [hlt, List.set_set]
      simp only [fexec_cons, fexec_nil, e1, e2]
      constructor
      · exact abs_commit_shared .atomicRmw rfl g st _ i t _ ht h0 rfl rfl rfl rfl
      · have := quiet_set st i { t with pc := .idle, todo := t.todo - 1 } h rfl (g.next st.shared) ((i, g.out (g.next st.shared)) :: st.log)
        rw [← h.free] at this
        exact this

theorem fblock_mutex (g : Gen σ ρ) (st : FState σ ρ) (i : Nat) (h : Quiet st) :
    (fexec .mutex g st [i, i, i, i]).abs = step .mutex g st.abs i ∧ Quiet (fexec .mutex g st [i, i, i, i]) := by
  cases ht : st.threads[i]? with
  | none =>
    have e : fstep .mutex g st i = st := by unfold fstep; simp [ht]
    have e2 : step .mutex g st.abs i = st.abs := by unfold step; simp [FState.abs, ht]
    simp only [fexec_cons, fexec_nil, e, e2]; exact ⟨trivial, h⟩
  | some t =>
    have hpc : t.pc = .idle := h.idle t (List.mem_of_getElem? ht)
    have hlt : i < st.threads.length := by
      rcases List.getElem?_eq_some_iff.mp ht with ⟨hl, _⟩; exact hl
    have hta : st.abs.threads[i]? = some t.abs := by simp [FState.abs, ht]
    by_cases h0 : t.todo = 0
    · have e : fstep .mutex g st i = st := by unfold fstep; simp [ht, hpc, h0]
      have e2 : step .mutex g st.abs i = st.abs := by
        unfold step; rw [hta]; simp [Discipline.mode, FThread.abs, h0]
      simp only [fexec_cons, fexec_nil, e, e2]; exact ⟨trivial, h⟩
    · have e1 : fstep .mutex g st i
          = { st with lock := some i, threads := st.threads.set i { t with pc := .locked } } := by
        unfold fstep; simp [ht, hpc, h0, h.free]
      have e2 : fstep .mutex g { st with lock := some i, threads := st.threads.set i { t with pc := .locked } } i
          = { st with lock := some i, threads := st.threads.set i { t with pc := .loaded st.shared } } := by
        unfold fstep; simp [hlt, List.set_set]
      have e3 : fstep .mutex g { st with lock := some i, threads := st.threads.set i { t with pc := .loaded st.shared } } i
          = { st with
              lock := some i
              shared := g.next st.shared
              threads := st.threads.set i { t with pc := .stored, todo := t.todo - 1 }
              log := (i, g.out (g.next st.shared)) :: st.log } := by
        unfold fstep; simp [hlt, List.set_set]
      have e4 : fstep .mutex g { st with
              lock := some i
              shared := g.next st.shared
              threads := st.threads.set i { t with pc := .stored, todo := t.todo - 1 }
              log := (i, g.out (g.next st.shared)) :: st.log } i
          = { shared := g.next st.shared
              lock := none
              threads := st.threads.set i { t with pc := .idle, todo := t.todo - 1 }
              log := (i, g.out (g.next st.shared)) :: st.log } := by
        unfold fstep; simp [hlt, List.set_set]
      simp only [fexec_cons, fexec_nil, e1, e2, e3, e4]
      constructor
      · exact abs_commit_shared .mutex rfl g st _ i t _ ht h0 rfl rfl rfl rfl
      · exact quiet_set st i { t with pc := .idle, todo := t.todo - 1 } h rfl (g.next st.shared) ((i, g.out (g.next st.shared)) :: st.log)

/-- A serial fine-grained schedule does exactly what the one-step system does. -/
theorem fexec_fexpand (D : Discipline) (hD : D.isSafe = true) (g : Gen σ ρ) (st : FState σ ρ) (h : Quiet st)
    (order : List Nat) : (fexec D g st (fexpand D order)).abs = exec D g st.abs order := by
  induction order generalizing st with
  | nil => rfl
  | cons i is ih =>
    have happ : ∀ (a b : List Nat), fexec D g st (a ++ b) = fexec D g (fexec D g st a) b := by
      intro a b; simp [fexec, List.foldl_append]
    have hex : fexpand D (i :: is) = List.replicate (fineSteps D) i ++ fexpand D is := by
      simp [fexpand]
    rw [hex, happ, exec_cons]
    cases D with
    | threadLocal =>
      obtain ⟨e, q⟩ := fblock_own g st i h
      have : List.replicate (fineSteps .threadLocal) i = [i, i] := rfl
      rw [this, ih _ q, e]
    | atomicRmw =>
      obtain ⟨e, q⟩ := fblock_cas g st i h
      have : List.replicate (fineSteps .atomicRmw) i = [i, i] := rfl
      rw [this, ih _ q, e]
    | mutex =>
      obtain ⟨e, q⟩ := fblock_mutex g st i h
      have : List.replicate (fineSteps .mutex) i = [i, i, i, i] := rfl
      rw [this, ih _ q, e]
    | racy => cases hD
    | unknown => cases hD

end Fine

end Rlib.TreapConc
