import RlibModel.Generated.BitsetSrc
import RlibModel.Generated.BitsIterSrc
import RlibModel.Lemmas.Bitset
import RlibModel.Lemmas.ArrSrc
/-!
# The definitions regenerated from `rlib/bitset/src/{bitset,bits_iter}.rs` equal the hand-written model of `Bitset<N>`

`Rlib.BitsetSrc.*` / `Rlib.BitsIterSrc.*` are written by `tools/rs2lean_typed.py` from the Rust source text on every run of `./check C12`:
`data : [u64; N]` is an `Array Int` with checked indexing, `x / 64`, `x % 64`, `1u64 << k`, `>>`, `| & ^ !` are the translator's machine
operations on `Int` (`Int.tdiv/tmod` with their guards, `wrap`, `Nat.lor/land/xor` on the two's-complement patterns), the `for` loops over
`iter()/iter_mut()/zip/enumerate` and the `while` of `BitsIter::next` run on `fuel`, `count_ones` / `trailing_zeros` are the trusted
primitives `SrcInt.countOnes / trailingZeros`.  The hand-written model (`Model/Bitset.lean`) works on `List Nat` words with
`||| &&& ^^^ <<< >>>`.  `embl` embeds the words.
-/
set_option linter.unusedSimpArgs false
set_option linter.unusedVariables false
namespace Rlib.BitsetSrc
open Rlib Rlib.Bitset Rlib.SrcVec

theorem new_eq_model (fuel N : Nat) : BitsetSrc.new fuel (N : Int) = .ok (embl (Bitset.new N)) := by
  simp [BitsetSrc.new, Bitset.new, SrcVec.replicate, embl]

theorem clear_eq_model (fuel : Nat) (N : Int) (b : Bits) : BitsetSrc.clear fuel N (embl b) = .ok (embl (Bitset.clear b)) := by
  simp [BitsetSrc.clear, Bitset.clear, SrcVec.fill, embl]
  apply Array.ext <;> simp

theorem from_u64_eq_model (fuel N x : Nat) : BitsetSrc.from_u64 fuel (N : Int) (x : Int) = (Bitset.fromU64 N x).map embl := by
  unfold BitsetSrc.from_u64 Bitset.fromU64
  have h : SrcVec.replicate (N : Int) (0 : Int) = embl (List.replicate N 0) := by simp [SrcVec.replicate, embl]
  simp only [h]
  have h0 : SrcVec.store (embl (List.replicate N 0)) (0 : Int) (x : Int) =
      if 0 < (List.replicate N 0).length then .ok (embl ((List.replicate N 0).set 0 x)) else .error .index :=
    store_embl (List.replicate N 0) 0 x
  rw [h0]
  by_cases hn : 0 < N
  · simp [hn, Except.map]
  · simp [hn, Except.map]

/-! ### the word operations -/

theorem toNat_cast (n : Nat) : ((n : Nat) : Int).toNat = n := Int.toNat_natCast n

theorem one_shl_cast (k : Nat) : (1 : Int) * (2 : Int) ^ k = ((1 <<< k : Nat) : Int) := by
  rw [Nat.one_shiftLeft, Int.one_mul]; push_cast; rfl

theorem one_shl_lt {k : Nat} (hk : k < 64) : 1 <<< k < 2 ^ 64 := by
  rw [Nat.one_shiftLeft]; exact Nat.pow_lt_pow_right (by omega) hk

/-- `1u64 << k` as the translator writes it -/
theorem shl_word (k : Nat) (hk : k < 64) :
    IntTy.wrap usizeT ((1 : Int) * (2 : Int) ^ ((k : Nat) : Int).toNat) = ((1 <<< k : Nat) : Int) := by
  rw [toNat_cast, one_shl_cast, wrap_cast _ (one_shl_lt hk)]

theorem or_word (w m : Nat) (hw : w < 2 ^ 64) (hm : m < 2 ^ 64) :
    IntTy.wrap usizeT (Int.ofNat (Nat.lor (wrapU 64 (w : Int)).toNat (wrapU 64 (m : Int)).toNat)) = ((w ||| m : Nat) : Int) := by
  rw [wrapU_cast w hw, wrapU_cast m hm, toNat_cast, toNat_cast]
  exact wrap_cast _ (Nat.or_lt_two_pow hw hm)

theorem and_word (w m : Nat) (hw : w < 2 ^ 64) (hm : m < 2 ^ 64) :
    IntTy.wrap usizeT (Int.ofNat (Nat.land (wrapU 64 (w : Int)).toNat (wrapU 64 (m : Int)).toNat)) = ((w &&& m : Nat) : Int) := by
  rw [wrapU_cast w hw, wrapU_cast m hm, toNat_cast, toNat_cast]
  exact wrap_cast _ (Nat.lt_of_le_of_lt Nat.and_le_left hw)

theorem xor_word (w m : Nat) (hw : w < 2 ^ 64) (hm : m < 2 ^ 64) :
    IntTy.wrap usizeT (Int.ofNat (Nat.xor (wrapU 64 (w : Int)).toNat (wrapU 64 (m : Int)).toNat)) = ((w ^^^ m : Nat) : Int) := by
  rw [wrapU_cast w hw, wrapU_cast m hm, toNat_cast, toNat_cast]
  exact wrap_cast _ (Nat.xor_lt_two_pow hw hm)

/-- `!m` on a `u64` as the translator writes it -/
theorem not_word (m : Nat) (hm : m < 2 ^ 64) : IntTy.wrap usizeT (-(m : Int) - 1) = ((not64 m : Nat) : Int) := by
  simp only [IntTy.wrap, usizeT, Bool.false_eq_true, if_false, wrapU, not64]
  have h2 : ((2 : Int) ^ 64) = 18446744073709551616 := by decide
  have h3 : (2 : Nat) ^ 64 = 18446744073709551616 := by decide
  rw [h3] at hm ⊢
  rw [h2]
  omega

theorem bits_usize : (IntTy.mk false 64).bits = 64 := rfl

theorem tmod64 (x : Nat) : Int.tmod (x : Int) (64 : Int) = ((x % 64 : Nat) : Int) := tmod_cast x 64
theorem tdiv64 (x : Nat) : Int.tdiv (x : Int) (64 : Int) = ((x / 64 : Nat) : Int) := tdiv_cast x 64

theorem mod64_guard (x : Nat) : (0 ≤ ((x % 64 : Nat) : Int) ∧ ((x % 64 : Nat) : Int) < ((64 : Nat) : Int)) := by
  have := Nat.mod_lt x (show 0 < 64 by omega)
  omega

theorem getElem?_lt {b : Bits} {i : Nat} (h : i < b.length) : b[i]? = some b[i] := List.getElem?_eq_getElem h

theorem set_eq_model (fuel : Nat) (N : Int) (b : Bits) (x : Nat) (hw : ∀ w ∈ b, w < 2 ^ 64) (hx : x < 2 ^ 64) :
    BitsetSrc.set fuel N (embl b) (x : Int) = (Bitset.set b x).map embl := by
  unfold BitsetSrc.set Bitset.set
  have hk : x % 64 < 64 := Nat.mod_lt _ (by omega)
  have hdl : x / 64 < 2 ^ 64 := by omega
  simp only [tmod64, tdiv64, checked_nat, hdl, if_true, bits_usize, index_embl, mod64_guard, shl_word _ hk]
  by_cases hi : x / 64 < b.length
  · have hwi : b[x / 64] < 2 ^ 64 := hw _ (List.getElem_mem hi)
    simp only [dif_pos hi, or_word _ _ hwi (one_shl_lt hk), store_embl, if_pos hi, getElem?_lt hi, Except.map]
    simp
  · simp only [dif_neg hi, List.getElem?_eq_none (Nat.le_of_not_lt hi), Except.map]
    simp

theorem remove_eq_model (fuel : Nat) (N : Int) (b : Bits) (x : Nat) (hw : ∀ w ∈ b, w < 2 ^ 64) (hx : x < 2 ^ 64) :
    BitsetSrc.remove fuel N (embl b) (x : Int) = (Bitset.remove b x).map embl := by
  unfold BitsetSrc.remove Bitset.remove
  have hk : x % 64 < 64 := Nat.mod_lt _ (by omega)
  have hdl : x / 64 < 2 ^ 64 := by omega
  simp only [tmod64, tdiv64, checked_nat, hdl, if_true, bits_usize, index_embl, mod64_guard, shl_word _ hk,
    not_word _ (one_shl_lt hk)]
  by_cases hi : x / 64 < b.length
  · have hwi : b[x / 64] < 2 ^ 64 := hw _ (List.getElem_mem hi)
    simp only [dif_pos hi, and_word _ _ hwi (not64_lt _), store_embl, if_pos hi, getElem?_lt hi, Except.map]
    simp
  · simp only [dif_neg hi, List.getElem?_eq_none (Nat.le_of_not_lt hi), Except.map]
    simp

theorem flip_eq_model (fuel : Nat) (N : Int) (b : Bits) (x : Nat) (hw : ∀ w ∈ b, w < 2 ^ 64) (hx : x < 2 ^ 64) :
    BitsetSrc.flip fuel N (embl b) (x : Int) = (Bitset.flip b x).map embl := by
  unfold BitsetSrc.flip Bitset.flip
  have hk : x % 64 < 64 := Nat.mod_lt _ (by omega)
  have hdl : x / 64 < 2 ^ 64 := by omega
  simp only [tmod64, tdiv64, checked_nat, hdl, if_true, bits_usize, index_embl, mod64_guard, shl_word _ hk]
  by_cases hi : x / 64 < b.length
  · have hwi : b[x / 64] < 2 ^ 64 := hw _ (List.getElem_mem hi)
    simp only [dif_pos hi, xor_word _ _ hwi (one_shl_lt hk), store_embl, if_pos hi, getElem?_lt hi, Except.map]
    simp
  · simp only [dif_neg hi, List.getElem?_eq_none (Nat.le_of_not_lt hi), Except.map]
    simp

/-- `w >> k` as the translator writes it (floor division of the integer) -/
theorem shr_word (w k : Nat) : ((w : Int) / (2 : Int) ^ ((k : Nat) : Int).toNat) = ((w >>> k : Nat) : Int) := by
  rw [toNat_cast, Nat.shiftRight_eq_div_pow]; push_cast; rfl

theorem shr_lt {w : Nat} (k : Nat) (hw : w < 2 ^ 64) : w >>> k < 2 ^ 64 :=
  Nat.lt_of_le_of_lt (Nat.shiftRight_le w k) hw

theorem decide_cast_pos (m : Nat) : decide (((m : Nat) : Int) > 0) = decide (m > 0) := by
  rw [decide_eq_decide]; omega

theorem test_eq_model (fuel : Nat) (N : Int) (b : Bits) (x : Nat) (hw : ∀ w ∈ b, w < 2 ^ 64) (hx : x < 2 ^ 64) :
    BitsetSrc.test fuel N (embl b) (x : Int) = Bitset.test b x := by
  unfold BitsetSrc.test Bitset.test
  have hk : x % 64 < 64 := Nat.mod_lt _ (by omega)
  have hdl : x / 64 < 2 ^ 64 := by omega
  simp only [tmod64, tdiv64, checked_nat, hdl, if_true, bits_usize, index_embl, mod64_guard]
  by_cases hi : x / 64 < b.length
  · have hwi : b[x / 64] < 2 ^ 64 := hw _ (List.getElem_mem hi)
    have h1 : ((1 : Int)) = ((1 : Nat) : Int) := rfl
    simp only [dif_pos hi, shr_word, getElem?_lt hi]
    rw [h1, and_word _ _ (shr_lt _ hwi) (by decide), decide_cast_pos]
    simp
  · simp only [dif_neg hi, List.getElem?_eq_none (Nat.le_of_not_lt hi)]
    simp

/-! ### `count`: `iter().map(|x| x.count_ones() as usize).sum()` -/

theorem onesGo_eq : ∀ (k w : Nat), SrcInt.onesGo k w = popGo k w
  | 0, _ => rfl
  | k + 1, w => by rw [SrcInt.onesGo, popGo, onesGo_eq k]

theorem popGo_le : ∀ (k w : Nat), popGo k w ≤ k
  | 0, _ => Nat.le_refl 0
  | k + 1, w => by
    rw [popGo]
    have := popGo_le k (w / 2)
    have := Nat.mod_lt w (show 0 < 2 by omega)
    omega

theorem countOnes_cast (w : Nat) (hw : w < 2 ^ 64) :
    IntTy.wrap usizeT (SrcInt.countOnes usizeT (w : Int)) = ((popcnt w : Nat) : Int) := by
  unfold SrcInt.countOnes popcnt
  rw [bits_usize, wrapU_cast w hw, toNat_cast, onesGo_eq]
  exact wrap_cast _ (Nat.lt_of_le_of_lt (popGo_le 64 w) (by decide))

theorem sumFrom_cast : ∀ (l : List Nat) (acc : Nat), acc < 2 ^ 64 →
    SrcVec.sumFrom usizeT (acc : Int) (l.map (fun (x : Nat) => (x : Int))) =
      if acc + l.sum < 2 ^ 64 then .ok ((acc + l.sum : Nat) : Int) else .error .overflow
  | [], acc, h => by
    rw [List.map_nil, SrcVec.sumFrom, List.sum_nil, Nat.add_zero, if_pos h]
  | x :: xs, acc, h => by
    rw [List.map_cons, SrcVec.sumFrom, List.sum_cons]
    have hc : ((acc : Int) + (x : Int)) = ((acc + x : Nat) : Int) := by push_cast; rfl
    rw [hc, checked_nat]
    by_cases h1 : acc + x < 2 ^ 64
    · rw [if_pos h1]
      simp only []
      rw [sumFrom_cast xs (acc + x) h1, Nat.add_assoc]
    · rw [if_neg h1]
      have : ¬ (acc + (x + xs.sum) < 2 ^ 64) := by omega
      rw [if_neg this]

theorem map_embl (b : Bits) (f : Int → Int) (g : Nat → Nat) (h : ∀ w ∈ b, f (w : Int) = ((g w : Nat) : Int)) :
    Array.map f (embl b) = embl (b.map g) := by
  unfold embl
  simp only [List.map_toArray, List.map_map]
  congr 1
  apply List.map_congr_left
  intro w hw
  exact h w hw

theorem count_eq_model (fuel : Nat) (N : Int) (b : Bits) (hw : ∀ w ∈ b, w < 2 ^ 64) :
    BitsetSrc.count fuel N (embl b) = (Bitset.count b).map (fun (x : Nat) => (x : Int)) := by
  unfold BitsetSrc.count Bitset.count SrcVec.sum ckU
  have hmap : Array.map (fun (v0 : Int) => IntTy.wrap (IntTy.mk false 64) (SrcInt.countOnes (IntTy.mk false 64) v0)) (embl b) =
      embl (b.map popcnt) := by
    apply map_embl
    intro w h
    exact countOnes_cast w (hw w h)
  rw [hmap]
  have h0 := sumFrom_cast (b.map popcnt) 0 (Nat.two_pow_pos 64)
  simp only [Nat.zero_add] at h0
  have e : (embl (b.map popcnt)).toList = (b.map popcnt).map (fun (x : Nat) => (x : Int)) := by simp [embl]
  rw [e]
  have z : ((0 : Nat) : Int) = (0 : Int) := rfl
  rw [← z, h0]
  by_cases h : (b.map popcnt).sum < 2 ^ 64
  · simp [h, Except.map]
  · simp [h, Except.map]

end Rlib.BitsetSrc

namespace Rlib.BitsIterSrc
open Rlib Rlib.Bitset Rlib.SrcVec Rlib.BitsetSrc

/-! ### `BitsIter::new`, `BitsIter::next` -/

theorem new_eq_model (fuel : Nat) (N : Int) (d : Bits) : BitsIterSrc.new fuel N (embl d) = .ok (embl d, (0 : Int)) := rfl

theorem zerosGo_eq : ∀ (k w : Nat), SrcInt.zerosGo k w = tzGo k w
  | 0, _ => rfl
  | k + 1, w => by rw [SrcInt.zerosGo, tzGo, zerosGo_eq k]

theorem tzGo_le : ∀ (k w : Nat), tzGo k w ≤ k
  | 0, _ => Nat.le_refl 0
  | k + 1, w => by
    rw [tzGo]
    have := tzGo_le k (w / 2)
    split <;> omega

theorem trailingZeros_cast (w : Nat) (hw : w < 2 ^ 64) :
    IntTy.wrap (IntTy.mk false 64) (SrcInt.trailingZeros (IntTy.mk false 64) (w : Int)) = ((tz w : Nat) : Int) := by
  unfold SrcInt.trailingZeros tz
  rw [bits_usize, wrapU_cast w hw, toNat_cast, zerosGo_eq]
  exact wrap_cast _ (Nat.lt_of_le_of_lt (tzGo_le 64 w) (by decide))

/-- `!(63usize)` as the translator writes it -/
theorem not63 : IntTy.wrap (IntTy.mk false 64) (-(63 : Int) - 1) = ((not64 63 : Nat) : Int) := not_word 63 (by decide)

theorem len64 (d : Bits) : (SrcVec.len (embl d)) * (64 : Int) = ((d.length * 64 : Nat) : Int) := by
  simp [SrcVec.len]

theorem ne_zero_cast (m : Nat) : (((m : Nat) : Int) ≠ 0) ↔ ¬ (m = 0) := by omega

/-
NOT FINISHED (listed in docs/notes/C12.md and in `not_proved` of checks/C12.py): the equivalence of the regenerated `next_loop0` / `next`
with the model's `skipLoop` / `next`.  Intended statements:

  theorem next_loop0_eq (N : Int) (d : Bits) (hw : ∀ w ∈ d, w < 2 ^ 64) (hlim : d.length * 64 < 2 ^ 64) :
      ∀ (fuel idx : Nat), idx < 2 ^ 64 →
        next_loop0 fuel N (embl d) (idx : Int) = (skipLoop d (d.length * 64) fuel idx).map (fun (i : Nat) => (embl d, (i : Int))) ∧
        ∀ i, skipLoop d (d.length * 64) fuel idx = .ok i → i < 2 ^ 64
  theorem next_eq_model … : BitsIterSrc.next (d.length + 1) N (embl d) (idx : Int) =
        (Bitset.next d idx).map (fun (o, i) => (embl d, (i : Int), o.map (fun (x : Nat) => (x : Int))))

A tactic proof of the first one (induction on the fuel, the position and the array kept opaque while the generated text is unfolded,
then `simp only` with `tmod64 tdiv64 checked_nat index_embl shr_word and_word not63` and three case splits) closes every goal, but the
kernel rejects the resulting term with `deep recursion detected` (the congruence proofs produced by rewriting inside the ~40 nested
`match`/`if` levels of the unfolded loop body exceed the kernel's stack in the lake worker thread; `maxRecDepth` does not affect it).  It
needs to be re-done top-down (one `rw [if_pos …]` / `dsimp only` at the head per guard) — not done in the time available.  The lemmas
above (`zerosGo_eq`, `trailingZeros_cast`, `not63`, `len64`) are the ones that proof uses.
-/

end Rlib.BitsIterSrc
