import RlibModel.Lemmas.SegtreeHistory
import RlibModel.Lemmas.SegtreeItems
/-!
`Combinator<U, V>` behaves exactly like its two components run side by side — at the level of whole histories on
the trees (C01).  Searches are excluded: a predicate on the pair need not factor through a component.
-/
namespace Rlib.Segtree

variable {T U M A B : Type} (I : Item T M A) (J : Item U M B)

theorem prod_val_foldl (z : T × U) (zs : List (T × U)) :
    (prodItem I J).val (zs.foldl (prodItem I J).merge z) =
      (I.val ((zs.map Prod.fst).foldl I.merge z.1), J.val ((zs.map Prod.snd).foldl J.merge z.2)) := by
  induction zs generalizing z with
  | nil => rfl
  | cons y ys ih => simp only [List.foldl_cons, List.map_cons]; rw [ih]; rfl

theorem prod_vals_zip (zs : List (T × U)) :
    zs.map (prodItem I J).val = List.zip ((zs.map Prod.fst).map I.val) ((zs.map Prod.snd).map J.val) := by
  induction zs with
  | nil => rfl
  | cons y ys ih => simp only [List.map_cons, List.zip_cons_cons, ih]; rfl

theorem Spec.ask_ok (K : Item T M A) (xs : List T) (l r : Nat) (hlr : l ≤ r) (hr : r < xs.length) :
    Spec.ask K xs l r = .ok (K.val ((slice xs (l + 1) (r + 1)).foldl K.merge (xs[l]'(by omega)))) := by
  simp only [Spec.ask, hlr, hr, not_true_eq_false, dite_false]

theorem Spec.ask_err (K : Item T M A) (xs : List T) (l r : Nat) (h : ¬ (l ≤ r ∧ r < xs.length)) :
    Spec.ask K xs l r = .error .assert := by
  by_cases hlr : l ≤ r
  · have hr : ¬ r < xs.length := fun hr => h ⟨hlr, hr⟩
    simp [Spec.ask, hlr, hr]
  · simp [Spec.ask, hlr]

/-- one step of the plain-list specification of the product = the two component steps, paired -/
theorem spec_step_prod (zs : List (T × U)) (o : Op (T × U) M) (h : o.noSearch = true) :
    (Spec.step (prodItem I J) zs o).1 =
      Ans.pair (Spec.step I (zs.map Prod.fst) o.proj1).1 (Spec.step J (zs.map Prod.snd) o.proj2).1 ∧
    (Spec.step (prodItem I J) zs o).2.map Prod.fst = (Spec.step I (zs.map Prod.fst) o.proj1).2 ∧
    (Spec.step (prodItem I J) zs o).2.map Prod.snd = (Spec.step J (zs.map Prod.snd) o.proj2).2 := by
  cases o with
  | set i x =>
    by_cases hi : i < zs.length
    · simp [Spec.step, Spec.set, Op.proj1, Op.proj2, hi, Ans.pair, List.map_set]
    · simp [Spec.step, Spec.set, Op.proj1, Op.proj2, hi, Ans.pair]
  | modify l r m =>
    by_cases hlr : l ≤ r
    · by_cases hr : r < zs.length
      · simp only [Spec.step, Spec.modify, Op.proj1, Op.proj2, hlr, hr, List.length_map, not_true_eq_false, if_false,
          Ans.pair, true_and]
        exact ⟨mapRange_map _ _ Prod.fst (fun _ => rfl) _ _ _, mapRange_map _ _ Prod.snd (fun _ => rfl) _ _ _⟩
      · simp [Spec.step, Spec.modify, Op.proj1, Op.proj2, hlr, hr, Ans.pair]
    · simp [Spec.step, Spec.modify, Op.proj1, Op.proj2, hlr, Ans.pair]
  | ask l r =>
    by_cases hd : l ≤ r ∧ r < zs.length
    · have h1 : r < (zs.map Prod.fst).length := by simpa using hd.2
      have h2 : r < (zs.map Prod.snd).length := by simpa using hd.2
      simp only [Spec.step, Op.proj1, Op.proj2, Spec.ask_ok _ _ _ _ hd.1 hd.2, Spec.ask_ok _ _ _ _ hd.1 h1,
        Spec.ask_ok _ _ _ _ hd.1 h2, Ans.pair, and_self, and_true]
      rw [prod_val_foldl, slice_map, slice_map, List.getElem_map, List.getElem_map]
    · have h1 : ¬ (l ≤ r ∧ r < (zs.map Prod.fst).length) := by simpa using hd
      have h2 : ¬ (l ≤ r ∧ r < (zs.map Prod.snd).length) := by simpa using hd
      simp only [Spec.step, Op.proj1, Op.proj2, Spec.ask_err _ _ _ _ hd, Spec.ask_err _ _ _ _ h1,
        Spec.ask_err _ _ _ _ h2, Ans.pair, and_self]
  | lb l f => simp [Op.noSearch] at h
  | lbr r f => simp [Op.noSearch] at h
  | dbg =>
    simp only [Spec.step, Op.proj1, Op.proj2, Ans.pair, and_self, and_true]
    rw [prod_vals_zip]

theorem spec_run_prod : ∀ (ops : List (Op (T × U) M)) (zs : List (T × U)), ops.all Op.noSearch = true →
    Spec.run (prodItem I J) zs ops =
      Ans.pairs (Spec.run I (zs.map Prod.fst) (ops.map Op.proj1)) (Spec.run J (zs.map Prod.snd) (ops.map Op.proj2)) := by
  intro ops
  induction ops with
  | nil => intro zs _; rfl
  | cons o os ih =>
    intro zs h
    rw [List.all_cons, Bool.and_eq_true] at h
    obtain ⟨e1, e2, e3⟩ := spec_step_prod I J zs o h.1
    simp only [Spec.run, List.map_cons, Ans.pairs, e1]
    rw [ih _ h.2, e2, e3]

theorem OpsOK_of_noSearch (K : Item T M A) : ∀ (ops : List (Op T M)) (xs : List T), ops.all Op.noSearch = true →
    OpsOK K xs ops := by
  intro ops
  induction ops with
  | nil => intro _ _; trivial
  | cons o os ih =>
    intro xs h
    rw [List.all_cons, Bool.and_eq_true] at h
    refine ⟨?_, ih _ h.2⟩
    cases o <;> first | trivial | (simp [Op.noSearch] at h)

theorem noSearch_proj1 (ops : List (Op (T × U) M)) (h : ops.all Op.noSearch = true) :
    (ops.map (Op.proj1 (U := U))).all Op.noSearch = true := by
  induction ops with
  | nil => rfl
  | cons o os ih =>
    rw [List.all_cons, Bool.and_eq_true] at h
    rw [List.map_cons, List.all_cons, Bool.and_eq_true]
    refine ⟨?_, ih h.2⟩
    cases o <;> first | rfl | (simp [Op.noSearch] at h)

theorem noSearch_proj2 (ops : List (Op (T × U) M)) (h : ops.all Op.noSearch = true) :
    (ops.map (Op.proj2 (T := T))).all Op.noSearch = true := by
  induction ops with
  | nil => rfl
  | cons o os ih =>
    rw [List.all_cons, Bool.and_eq_true] at h
    rw [List.map_cons, List.all_cons, Bool.and_eq_true]
    refine ⟨?_, ih h.2⟩
    cases o <;> first | rfl | (simp [Op.noSearch] at h)

/-- whole histories on the three trees -/
theorem run_prod (LI : Lawful I) (LJ : Lawful J) (s : Seg (T × U)) (s1 : Seg T) (s2 : Seg U) (zs : List (T × U))
    (h : Inv (prodItem I J) s zs) (h1 : Inv I s1 (zs.map Prod.fst)) (h2 : Inv J s2 (zs.map Prod.snd))
    (ops : List (Op (T × U) M)) (hns : ops.all Op.noSearch = true) :
    s.run (prodItem I J) ops = Ans.pairs (s1.run I (ops.map Op.proj1)) (s2.run J (ops.map Op.proj2)) := by
  rw [run_refines (prodItem I J) (prodItem_lawful LI LJ) ops s zs h (OpsOK_of_noSearch _ ops zs hns),
    run_refines I LI _ s1 _ h1 (OpsOK_of_noSearch _ _ _ (noSearch_proj1 ops hns)),
    run_refines J LJ _ s2 _ h2 (OpsOK_of_noSearch _ _ _ (noSearch_proj2 ops hns))]
  exact spec_run_prod I J ops zs hns

end Rlib.Segtree
